(* Fixed-width words as N with explicit wrap-around.  Models only; the proofs
   about them live in Proofs/WordsFacts.v so that the models still run when a
   proof breaks. *)
From Coq Require Import NArith List.
Import ListNotations.
Local Open Scope N_scope.

Definition wrap (k x : N) : N := N.land x (N.ones k).

Definition w8  := wrap 8.
Definition w32 := wrap 32.
Definition w64 := wrap 64.

(* rotate left / right inside a k-bit word; r is expected in [0,k] *)
Definition rol (k x r : N) : N :=
  wrap k (N.lor (N.shiftl x r) (N.shiftr x (k - r))).
Definition ror (k x r : N) : N :=
  wrap k (N.lor (N.shiftr x r) (N.shiftl x (k - r))).

Definition rol64 := rol 64.
Definition rol32 := rol 32.
Definition ror32 := ror 32.
Definition ror64 := ror 64.

Definition add32 (a b : N) := w32 (a + b).
Definition add64 (a b : N) := w64 (a + b).
Definition mul64 (a b : N) := w64 (a * b).
Definition not32 (a : N) := N.lxor (w32 a) (N.ones 32).
Definition not64 (a : N) := N.lxor (w64 a) (N.ones 64).

(* big-/little-endian (de)serialisation of bytes (each < 256) *)
Fixpoint be_to_N (l : list N) : N :=
  match l with [] => 0 | b :: r => N.lor (N.shiftl b (8 * N.of_nat (length r))) (be_to_N r) end.
Fixpoint le_to_N (l : list N) : N :=
  match l with [] => 0 | b :: r => N.lor b (N.shiftl (le_to_N r) 8) end.
Fixpoint N_to_le (n : nat) (x : N) : list N :=
  match n with O => [] | S m => N.land x 255 :: N_to_le m (N.shiftr x 8) end.
Definition N_to_be (n : nat) (x : N) : list N := rev (N_to_le n x).

Definition xorb_list (a b : list N) : list N := map (fun p => N.lxor (fst p) (snd p)) (combine a b).
