(* List helpers shared by specs and models (definitions only). *)
From Coq Require Import List Arith NArith.
Import ListNotations.

Definition lastn {A} (n : nat) (l : list A) : list A := skipn (length l - n) l.

(* split a list into consecutive pieces of n elements (the last may be short);
   fuel = length of the list, so the function is total and structurally recursive *)
Fixpoint chunks_f {A} (fuel n : nat) (l : list A) : list (list A) :=
  match fuel with
  | O => []
  | S f => match l with
           | [] => []
           | _ => firstn n l :: chunks_f f n (skipn n l)
           end
  end.
Definition chunks {A} (n : nat) (l : list A) : list (list A) := chunks_f (length l) n l.

Definition zeros (n : nat) : list N := repeat 0%N n.

Fixpoint upd {A} (i : nat) (x : A) (l : list A) : list A :=
  match l, i with
  | [], _ => []
  | _ :: r, O => x :: r
  | a :: r, S j => a :: upd j x r
  end.
