(* C18 — no hidden shared state: independent objects are usable from different threads.
   Statements only, each closed by an already-proved lemma.

   PARTIAL by nature (see docs/selftest-statics.md): (1) is a theorem about the instructions that
   statically address a writable section — stores through computed pointers into library statics are
   excluded only on the paths the run-time half executes (library data pages write-protected);
   (2) and (3) are theorems about models whose hypotheses (write frames / read locality of the API
   operations; the dispatcher's choice is a function of CPUID only; aligned 8-byte stores are
   atomic) are observed, not proved, for the code. *)
From Coq Require Import String List Bool Arith NArith Lia.
From ISAL Require Import Base.ListUtil Model.SelfTestSys Model.Statics Gen.StaticsGen
  Proofs.StaticsFacts Proofs.StaticsInst.
Import ListNotations.

(* (1) the only statically visible stores into writable sections of the built library are the 64
   dispatch pointers, each written only inside the dispatcher object by a routine named after its
   own entry, and the self-test status word inside asm_self_tests.o; the only zero-initialised
   writable storage are version stamps; writable data of the C objects are version stamps or the
   pinned never-written tables; every dispatch pointer is an 8-byte object at an 8-aligned offset *)
Theorem C18_written_statics_allowed_partial :
  (forall s, In s stores -> store_ok s) /\
  (forall w, In w bss_syms -> is_version_stamp (ws_name w) = true) /\
  (forall w, In w c_statics -> cstatic_allowed w = true) /\
  (dispatch_ptrs <> [] /\ forall p, In p dispatch_ptrs -> ptr_aligned p = true).
Proof. exact c_written_statics_allowed. Qed.
Print Assumptions C18_written_statics_allowed_partial.

(* (2) generic commutation: threads whose operations write only the thread's own objects and whose
   results there depend only on its own and on never-written objects — under EVERY interleaving the
   objects of thread i hold exactly what i alone would have computed after the k operations it has
   completed (any prefix) ... *)
Theorem C18_interleave_disjoint : forall (Obj V : Type) (ro : Obj -> bool) (g0 : Obj -> V)
    (ths0 : list (othread Obj V)) (sch : list nat),
  Forall (thread_wf Obj V ro) ths0 -> disjoint Obj V ths0 ->
  forall i l0, nth_error ths0 i = Some l0 ->
    exists k, nth_error (sths (sexec ostep (mkSys g0 ths0) sch)) i = Some (mkOT (ot_own l0) (skipn k (ot_todo l0))) /\
              forall o, ot_own l0 o = true ->
                sg (sexec ostep (mkSys g0 ths0) sch) o = run_alone (firstn k (ot_todo l0)) g0 o.
Proof. exact interleave_disjoint. Qed.
Print Assumptions C18_interleave_disjoint.

(* ... and once thread i has been scheduled as often as it has operations, the result of running it
   alone to completion *)
Theorem C18_interleave_disjoint_complete : forall (Obj V : Type) (ro : Obj -> bool) (g0 : Obj -> V)
    (ths0 : list (othread Obj V)) (sch : list nat) (i : nat) (l0 : othread Obj V),
  Forall (thread_wf Obj V ro) ths0 -> disjoint Obj V ths0 -> nth_error ths0 i = Some l0 ->
  length (ot_todo l0) <= count_occ Nat.eq_dec sch i ->
  forall o, ot_own l0 o = true -> sg (sexec ostep (mkSys g0 ths0) sch) o = run_alone (ot_todo l0) g0 o.
Proof. exact interleave_disjoint_complete. Qed.
Print Assumptions C18_interleave_disjoint_complete.

(* (3) first-call race of a dispatch stub, any number of threads, any interleaving of
   {load pointer; compute target; store pointer; jump}: the pointer only ever holds the initial
   stub address or THE target, whoever is dispatched executes THE target ... *)
Theorem C18_first_call_race_safe : forall (Env Fn : Type) (target : Env -> Fn) (env : Env) (n : nat) (sch : list nat),
  let s := sexec (stub_step target env) (sinit Mbinit SAtStub n) sch in
  (sg s = Mbinit \/ sg s = Bound (target env)) /\
  forall u l, nth_error (sths s) u = Some l ->
    match l with SExec f => f = target env /\ sg s = Bound (target env) | SStore f => f = target env | _ => True end.
Proof. exact first_call_race_safe. Qed.
Print Assumptions C18_first_call_race_safe.

(* ... and every thread gets there within 4 of its own steps, whatever the others do in between *)
Theorem C18_first_call_race : forall (Env Fn : Type) (target : Env -> Fn) (env : Env) (n : nat) (sch : list nat) (t : nat),
  t < n -> 4 <= count_occ Nat.eq_dec sch t ->
  let s := sexec (stub_step target env) (sinit Mbinit SAtStub n) sch in
  nth_error (sths s) t = Some (SExec (target env)) /\ sg s = Bound (target env).
Proof. exact first_call_race. Qed.
Print Assumptions C18_first_call_race.

(* non-vacuity: the regenerated inventory contains both kinds of allowed store, and the rules reject
   a scratch buffer in .bss, a dispatch pointer written from a family routine, a static counter *)
Example C18_nonvacuous :
  2 <= length (filter (fun s => String.eqb (so_target s) "self_test_status") stores) /\
  60 <= length (filter (fun s => suffixb DISP (so_target s)) stores) /\
  store_allowed (mkStore "mh_sha1_update_base.o" "_mh_sha1_update_base" "scratch.0" ".bss" "movups XMMWORD PTR [rip+0x0],xmm0") = false /\
  store_allowed (mkStore "gcm_multibinary.o" "_aes_gcm_enc_128_sse" "_aes_gcm_dec_128_dispatched" ".data" "mov QWORD PTR [rip+0x0],rsi") = false /\
  cstatic_allowed (mkWsym "aes_gcm.o" "calls.0" ".bss" 4) = false.
Proof. exact c_inventory_nonvacuous. Qed.

(* non-vacuity of (2): two threads, two private cells each incremented twice, interleaved *)
Example C18_interleave_nonvacuous :
  let inc (c : nat) (m : nat -> nat) : nat -> nat := fun o => if Nat.eqb o c then S (m o) else m o in
  let t0 := mkOT (fun o => Nat.eqb o 0) [inc 0; inc 0] in
  let t1 := mkOT (fun o => Nat.eqb o 1) [inc 1; inc 1; inc 1] in
  let s := sexec ostep (mkSys (fun _ => 10) [t0; t1]) [1; 0; 1; 0; 1] in
  (sg s 0, sg s 1, sg s 2) = (12, 13, 10).
Proof. reflexivity. Qed.
