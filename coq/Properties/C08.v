(* C08 — no access outside caller-supplied byte ranges; inputs never modified.
   PARTIAL: these theorems cover the C-level index logic of the models (rolling-hash indices,
   the inline-copy size classes regenerated from include/memcpy_inline.h, the hash context
   layer's consumption of the caller's buffer, hash_pad, the multi-hash carry).  The assembly
   routines are covered by the guard-page enumeration of checks/c08.py, not by proof.
   This file contains only statements, each closed by an already-proved lemma. *)
From Coq Require Import NArith ZArith List Arith Bool.
From ISAL Require Import Base.Words Base.ListUtil Spec.Rolling Spec.MD Spec.SHA256 Model.RollRun Model.RollInst
  Model.HashCtx Model.FootprintRoll Model.FootprintMemcpy Model.FootprintCtx Model.FootprintMh
  Gen.MemcpyGen Gen.MhCarryGen Gen.RollTableGen
  Proofs.FootprintRoll Proofs.FootprintMemcpy Proofs.FootprintCtx Proofs.FootprintPad Proofs.FootprintMh.
Import ListNotations.

(* ---- rolling hash (rolling_hash2.c + scan routines) ---------------------------------- *)

(* the footprint twin computes exactly what the model of C09 computes ... *)
Theorem C08_rh_twin_is_model : forall T (s : rh_state) (buf : list N) (mask trig : N),
  fst (rh_run_fp T s buf mask trig) = rh_run T s buf mask trig.
Proof. exact rh_run_fp_fst. Qed.
Print Assumptions C08_rh_twin_is_model.

(* ... and for every window 1..48, every state whose history holds w bytes, every buffer of
   every length max_len: every buffer index read is < max_len, every buffer[i - w] has i >= w
   (its offset is >= 0), every history index is < w *)
Theorem C08_rh_indices_in_range : forall T (s : rh_state) (buf : list N) (mask trig : N),
  1 <= rw s <= 48 -> length (rhist s) = rw s ->
  Forall (rh_ev_ok (rw s) (length buf)) (snd (rh_run_fp T s buf mask trig)).
Proof. intros T s buf mask trig [H1 _] Hh. exact (rh_run_fp_in_range T s buf mask trig H1 Hh). Qed.
Print Assumptions C08_rh_indices_in_range.

(* reset reads exactly the w window bytes *)
Theorem C08_rh_reset_in_range : forall (s : rh_state) (init_bytes : list N),
  rw s <= length init_bytes -> Forall (rh_ev_ok (rw s) (length init_bytes)) (rh_reset_fp s).
Proof. exact rh_reset_fp_in_range. Qed.
Print Assumptions C08_rh_reset_in_range.

(* ---- include/memcpy_inline.h, as regenerated into Gen/MemcpyGen.v --------------------- *)

(* memcpy_varlen: for every n >= 0 the set of source bytes loaded and the set of destination
   bytes stored are both exactly [0,n) *)
Theorem C08_memcpy_varlen_exact : forall n : Z, (0 <= n)%Z ->
  exact (pick true (varlen mc_copy n)) n /\ exact (pick false (varlen mc_copy n)) n.
Proof. exact memcpy_varlen_exact. Qed.
Print Assumptions C08_memcpy_varlen_exact.

Theorem C08_memcpy_fixedlen_exact : forall n : Z, (0 <= n)%Z ->
  exact (pick true (fixedlen mc_copy n)) n /\ exact (pick false (fixedlen mc_copy n)) n.
Proof. exact memcpy_fixedlen_exact. Qed.
Print Assumptions C08_memcpy_fixedlen_exact.

Theorem C08_memclr_varlen_exact : forall n : Z, (0 <= n)%Z -> exact (pick false (varlen mc_clear n)) n.
Proof. exact memclr_varlen_exact. Qed.
Print Assumptions C08_memclr_varlen_exact.

Theorem C08_memclr_fixedlen_exact : forall n : Z, (0 <= n)%Z -> exact (pick false (fixedlen mc_clear n)) n.
Proof. exact memclr_fixedlen_exact. Qed.
Print Assumptions C08_memclr_fixedlen_exact.

(* ---- hash context layer (the 26 *_ctx_<family>.c files) -------------------------------- *)

(* the footprint twins compute what Model/HashCtx.v computes *)
Theorem C08_ctx_twins_are_model : forall A c buf flags off,
  fst (ctx_accept_fp A c buf flags) = ctx_accept A c buf flags /\
  fst (ctx_next_fp A c off) = ctx_next A c.
Proof. intros; split; [apply ctx_accept_fp_fst|apply ctx_next_fp_fst]. Qed.
Print Assumptions C08_ctx_twins_are_model.

(* every range of the caller's buffer consumed by an accepted submit (the piece copied into
   the partial block, the tail piece, the whole-block job range) lies in [0,len) of that
   submit's buffer; the ranges are pairwise disjoint; after the first pass of the resubmit
   loop for that context - i.e. before it can be handed back - their union is exactly [0,len)
   and nothing is left incoming; every copy lands inside the first block of the partial block
   buffer.  [d] is whatever digest the job manager wrote into the context in between. *)
Theorem C08_ctx_reads_in_range : forall A c buf flags c1 job evs1 d,
  0 < a_bsize A -> c_plen c < a_bsize A ->
  ctx_accept_fp A c buf flags = (Accept c1 job, evs1) ->
  forall c2 job2 evs2,
  ctx_next_fp A (set_digest c1 d) (length buf - length (c_inc c1)) = ((c2, job2), evs2) ->
  covers_once (buf_ranges (evs1 ++ evs2)) (length buf) /\ c_inc c2 = [] /\
  (forall o n, In (o, n) (pbuf_ranges (evs1 ++ evs2)) -> o + n <= a_bsize A).
Proof. intros A c buf flags c1 job evs1 d HB. exact (ctx_reads_in_range A HB c buf flags c1 job evs1 d). Qed.
Print Assumptions C08_ctx_reads_in_range.

(* hash_pad: for every total_length (any 64-bit value) the three writes - the cleared block,
   the 0x80 byte, the length field - stay inside the 2*B byte partial block buffer, and the
   job covers 1 or 2 blocks of it; for both block geometries of the library *)
Theorem C08_pad_in_buffer : forall A total,
  (forall x, length (a_lenbytes A x) = a_lenfld A) ->
  (a_bsize A = 64 /\ a_lenfld A = 8) \/ (a_bsize A = 128 /\ a_lenfld A = 16) ->
  (forall o n, In (o, n) (hash_pad_ranges A total) -> o + n <= 2 * a_bsize A) /\
  (forall pbuf, 1 <= snd (hash_pad A pbuf total) <= 2).
Proof. intros A total Hl Hg. exact (pad_in_buffer A Hl total Hg). Qed.
Print Assumptions C08_pad_in_buffer.

(* ---- multi-hash carry (mh_sha1_update_base.c template, all mh families) ---------------- *)

(* while len + partial_block_len does not wrap in the width the C evaluates it in
   (Gen/MhCarryGen.v, regenerated from the three *_update_base.c): every copy stays inside the
   first 1024 bytes of the (2048-byte) partial block buffer, every source range lies in [0,len)
   of the caller's buffer, and the caller's bytes are consumed exactly once *)
Theorem C08_mh_carry_in_range : forall (total : N) (len : nat),
  (N.of_nat len + total mod 1024 < 2 ^ mh_sum_bits)%N ->
  (forall o n, In (o, n) (mh_dst_ranges (mh_update_fp mh_sum_bits total len)) -> o + n <= 1024) /\
  covers_once (mh_src_ranges (mh_update_fp mh_sum_bits total len)) len.
Proof. exact (mh_carry_in_range mh_sum_bits). Qed.
Print Assumptions C08_mh_carry_in_range.

(* what that means for the current source.  If the sum is a plain uint32_t sum the property is
   FALSE of the faithful model (and of the code: the guard-page run replays it): after one
   carried byte, len = 2^32 - 1 makes the sum 0 < 1024 and the first branch copies len bytes to
   partial_block_buffer + 1 (witness).  If the sum is evaluated in 64 bits the range theorem
   holds for every uint32_t len without any hypothesis. *)
Theorem C08_mh_carry_current_source : mh_carry_status mh_sum_bits.
Proof. first [exact mh_carry_status_32 | exact mh_carry_status_64]. Qed.
Print Assumptions C08_mh_carry_current_source.

Theorem C08_mh_tail_in_buffer : forall total_len o n,
  In (o, n) (mh_tail_ranges total_len) -> o + n <= 1024.
Proof. exact mh_tail_in_buffer. Qed.
Print Assumptions C08_mh_tail_in_buffer.

(* ---- inputs are absent from every write set ------------------------------------------- *)
(* by construction of the footprint types: the only events that denote writes are EHistW
   (state->history), St (the dst of an inline copy), the dst side of CxCopy / MhCopy (the
   context's partial block buffer) and hash_pad_ranges / mh_tail_ranges (same buffer); no
   constructor denotes a write to the caller's buffer.  Stated for the rolling hash: *)
Theorem C08_rh_inputs_not_written : forall T s buf mask trig e,
  In e (snd (rh_run_fp T s buf mask trig)) ->
  match e with EBuf _ _ => True | EHistR _ _ => True | EHistW _ _ => True end.
Proof. intros T s buf mask trig e _. destruct e; exact I. Qed.
Print Assumptions C08_rh_inputs_not_written.

(* ---- non-vacuity ------------------------------------------------------------------------- *)

(* a concrete run whose scan path is taken (w = 4, 9-byte buffer): the hypotheses hold and the
   emitted list really contains buffer[i - w] reads and the closing history refresh *)
Example C08_rh_nonvacuous :
  let s := rh_reset T1 {| rw := 4; rhash := 0; rhist := [] |} [1;2;3;4]%N in
  (((1 <=? rw s) && (rw s <=? 48))%bool = true /\ length (rhist s) = rw s) /\
  snd (rh_run_fp T1 s [5;6;7;8;9;10;11;12;13]%N 0 1) =
    [EBuf 0 1; EHistR 0 1; EBuf 1 1; EHistR 1 1; EBuf 2 1; EHistR 2 1; EBuf 3 1; EHistR 3 1;
     EBuf 4 1; EBuf 0 1; EBuf 5 1; EBuf 1 1; EBuf 6 1; EBuf 2 1; EBuf 7 1; EBuf 3 1; EBuf 8 1; EBuf 4 1;
     EBuf 5 4; EHistW 0 4]%Z.
Proof. vm_compute. repeat split; reflexivity. Qed.

(* the size classes really overlap head and tail: 23 bytes = loads at 0 and 7, 16 bytes each *)
Example C08_memcpy_nonvacuous :
  varlen mc_copy 23 = [Ld 0 16; St 0 16; Ld 7 16; St 7 16]%Z /\
  pick true (varlen mc_copy 200) = [(0, 16); (16, 16); (32, 16); (48, 16); (64, 16); (80, 16); (96, 16); (112, 16);
                                    (128, 16); (144, 16); (160, 16); (176, 16); (184, 16)]%Z.
Proof. vm_compute. repeat split; reflexivity. Qed.

(* a SHA-256 UPDATE of 150 bytes onto 10 carried bytes: 54 bytes complete the partial block,
   then 64 whole-block bytes go to a lane and 32 bytes are carried: three disjoint ranges *)
Example C08_ctx_nonvacuous :
  let c := {| c_digest := []; c_status := STS_IDLE; c_error := ERR_NONE; c_total := 10;
              c_inc := []; c_pbuf := zeros 128; c_plen := 10 |} in
  let buf := repeat 7%N 150 in
  exists c1 job evs1 c2 job2 evs2,
    ctx_accept_fp sha256_algo c buf 0 = (Accept c1 job, evs1) /\
    ctx_next_fp sha256_algo c1 (length buf - length (c_inc c1)) = ((c2, job2), evs2) /\
    buf_ranges (evs1 ++ evs2) = [(0, 54); (118, 32); (54, 64)].
Proof. vm_compute. do 6 eexists. repeat split; reflexivity. Qed.

Example C08_mh_nonvacuous :
  mh_update_fp mh_sum_bits 1000 3000 = [MhCopy 1000 0 24; MhPBlock; MhBlocks 24 2; MhCopy 0 2072 928] /\
  (N.of_nat 3000 + 1000 mod 1024 < 2 ^ mh_sum_bits)%N.
Proof. vm_compute. split; reflexivity. Qed.
