(* C12 — run-time dispatch binds only to code the CPU/OS can execute, one implementation
   family per shared object, and a binding once made does not change; for all architecturally
   consistent assignments of the CPUID leaf-1 / leaf-7 feature bits and XCR0 bits, for every
   dispatched entry point of the library.  Statements only; each closed by a proved lemma. *)
From Coq Require Import NArith List String.
From ISAL Require Import Model.Dispatch Gen.DispatchGen Gen.IsaReqGen Proofs.DispatchFacts Proofs.DispatchObl.
Import ListNotations.
Local Open Scope string_scope.
Local Open Scope N_scope.

(* (a) the decision tree computed without an environment is exactly the concrete interpreter of
   the dispatch routine's instruction list, in every environment: arbitrary CPUID(1),
   CPUID(7,0) and XCR0 contents, 2^320 of them *)
Theorem C12_sexec_exact : forall (self : string) (p : list insn) (e : env),
  exec self p e = eval (sexec self p) e.
Proof. exact sexec_sound. Qed.
Print Assumptions C12_sexec_exact.

(* (b) the checker is sound: an accepted dispatcher, in every consistent environment that meets
   the entry point's documented minimum, is not stuck (in particular issues XGETBV only with
   OSXSAVE set) and binds a symbol all of whose required ISA extensions are available — CPUID
   bit and OS-enabled register state — or belong to the assumed baseline *)
Theorem C12_checker_sound : forall (t : list (string * list feat)) (d : dispatcher),
  check_disp t d = true ->
  forall e, consistent e -> doc_min_ok (d_entry d) e ->
  exists x, exec (d_entry d) (d_code d) e = Some x /\ executable t e x.
Proof. exact check_disp_safe. Qed.
Print Assumptions C12_checker_sound.

(* (c) every dispatcher regenerated from the built library is either safe in that sense for all
   environments, or listed in [unsafe] and refuted by a concrete consistent environment.  The
   check requires [unsafe] to be empty; each member is reported with its witness. *)
Theorem C12_every_dispatcher_safe_or_refuted : forall d, In d dispatchers ->
  safe tbl d \/ (In d unsafe /\ refuted tbl d).
Proof. exact c_safe_or_refuted. Qed.
Print Assumptions C12_every_dispatcher_safe_or_refuted.

Theorem C12_safe_unless_listed : forall d, In d dispatchers -> ~ In d unsafe -> safe tbl d.
Proof. exact c_safe_unless_listed. Qed.
Print Assumptions C12_safe_unless_listed.

(* (c') on the current tree [unsafe] is empty: EVERY dispatched entry point of the library, in
   EVERY consistent environment meeting its documented minimum, binds executable code *)
Theorem C12_all_dispatchers_safe : forall d, In d dispatchers ->
  forall e, consistent e -> doc_min_ok (d_entry d) e ->
  exists x, exec (d_entry d) (d_code d) e = Some x /\ executable tbl e x.
Proof. exact c_all_safe. Qed.
Print Assumptions C12_all_dispatchers_safe.

(* (d) entry points that operate on one shared object bind the same implementation family, in
   every environment whatsoever (no consistency hypothesis): hash manager init/submit/flush of
   each algorithm, the 12 GCM entry points of each key size, multi-hash update/finalize *)
Theorem C12_same_family : forall g l, In g group_names -> resolve dispatchers (snd g) = Some l ->
  forall e d1 d2, In d1 l -> In d2 l ->
  exists fam, famo (d_entry d1) (exec (d_entry d1) (d_code d1) e) = Some fam /\
              famo (d_entry d2) (exec (d_entry d2) (d_code d2) e) = Some fam.
Proof. exact c_same_family. Qed.
Print Assumptions C12_same_family.

(* (e) a binding, once made, does not change: after the first call the slot holds what the
   dispatch routine computed, and every call — the first included — runs that implementation *)
Theorem C12_binding_stable : forall d e x, exec (d_entry d) (d_code d) e = Some x ->
  forall n, call_n d e (S n) PInit = (PTarget x, repeat (Some x) (S n)).
Proof. exact c_binding_stable. Qed.
Print Assumptions C12_binding_stable.

(* (f) the regenerated facts the stub model rests on: only <entry>_dispatch_init stores to
   <entry>_dispatched, only <entry>'s stub jumps through it, no other object of the library
   refers to a slot / stub / dispatch routine, every stub has the expected shape *)
Theorem C12_slots_private :
  forallb ref_ok data_refs = true /\ foreign_refs = [] /\ forallb stub_ok dispatchers = true.
Proof. exact refs_checked. Qed.
Print Assumptions C12_slots_private.

(* non-vacuity: concrete consistent environments (the shapes of real parts) and what the
   dispatchers bind there; the check confirms the same bindings on the real dispatchers *)
Definition env_sse      := env_of_words [0x406E3; 0; 0x2980203; 0; 0; 0; 0; 0; 0; 0].
Definition env_avx2     := env_of_words [0x306C3; 0; 0x1A980203; 0; 0; 0x128; 0; 0; 7; 0].
Definition env_knl      := env_of_words [0x50671; 0; 0x1A980203; 0; 0; 0x1C0D0128; 0; 0; 0xE7; 0]. (* F,CD,ER,PF: no VL/DQ/BW *)
Definition env_hostlike := env_of_words [0x806F8; 0; 0x1A980203; 0; 0; 0xF0230128; 0x5F42; 0; 0xE7; 0].
Definition env_avoton   := env_of_words [0x406D8; 0; 0x2980203; 0; 0; 0; 0; 0; 0; 0].

Example C12_nonvacuous :
  forallb consistentb [env_sse; env_avx2; env_knl; env_hostlike; env_avoton] = true /\
  map (exec "_sha256_ctx_mgr_submit" (d_code D_sha256_ctx_mgr_submit)) [env_sse; env_avx2; env_hostlike]
    = [Some "_sha256_ctx_mgr_submit_sse"; Some "_sha256_ctx_mgr_submit_avx2"; Some "_sha256_ctx_mgr_submit_avx512_ni"] /\
  map (exec "_aes_gcm_enc_128_update" (d_code D_aes_gcm_enc_128_update)) [env_sse; env_avx2; env_hostlike]
    = [Some "_aes_gcm_enc_128_update_sse"; Some "_aes_gcm_enc_128_update_avx_gen4"; Some "_aes_gcm_enc_128_update_vaes_avx512"] /\
  exec "_sha512_ctx_mgr_submit" (d_code D_sha512_ctx_mgr_submit) env_avoton = Some "_sha512_ctx_mgr_submit_sb_sse4" /\
  exec "_mh_sha1_update" (d_code D_mh_sha1_update) env_knl = Some "_mh_sha1_update_avx2" /\
  bound_okb (requires_of tbl) env_hostlike (exec "_aes_gcm_enc_128_update" (d_code D_aes_gcm_enc_128_update) env_hostlike) = true.
Proof. vm_compute. repeat split; reflexivity. Qed.
