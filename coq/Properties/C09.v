(* C09 — rolling-hash boundaries depend only on the last w bytes, not on call splitting.
   This file contains only statements, each closed by an already-proved lemma. *)
From Coq Require Import NArith List Arith Lia.
From ISAL Require Import Base.Words Base.ListUtil Spec.Rolling Spec.RollingPinned Model.RollRun
  Model.RollInst Gen.RollTableGen Proofs.RollingFacts Proofs.RollingInst.
Import ListNotations.

(* (a) the hash is a fixed function of the window bytes and of the constant table:
   xor over the window of the table entries, the j-th youngest rotated left by j *)
Theorem C09_hash_closed_form : forall win : list N,
  length win <= 64 -> H T1 win = Hx T1 win.
Proof. exact c_H_Hx. Qed.
Print Assumptions C09_hash_closed_form.

(* (b) every run — any state reachable from reset (invariant Inv), any buffer of any
   length, any mask/trigger, every window 1..48 — reports exactly the first position at
   which the hash of the last w stream bytes hits, else consumes the whole buffer; the
   state it leaves satisfies the invariant for the bytes consumed *)
Theorem C09_run_first_hit : forall (w : nat) (mask trig : N) (s : rh_state) (seen buf : list N),
  1 <= w <= 48 -> Inv T1 w s seen ->
  let '(s', off, v) := rh_run T1 s buf mask trig in
  (v, off) = run_spec T1 w mask trig seen buf /\ off <= length buf /\
  Inv T1 w s' (seen ++ firstn off buf).
Proof. exact c_rh_run_correct. Qed.
Print Assumptions C09_run_first_hit.

(* (c) reset establishes the invariant *)
Theorem C09_reset_inv : forall (w : nat) (s : rh_state) (init_bytes : list N),
  1 <= w <= 48 -> rw s = w -> w <= length init_bytes ->
  Inv T1 w (rh_reset T1 s init_bytes) (firstn w init_bytes).
Proof. exact c_rh_reset_inv. Qed.
Print Assumptions C09_reset_inv.

(* (d) however a stream is cut into run calls, the boundaries found are exactly the
   positions whose window hashes hit *)
Theorem C09_stream_boundaries : forall (w : nat) (mask trig : N) (segs : list (list N)) (s : rh_state) (seen : list N),
  1 <= w <= 48 -> Inv T1 w s seen ->
  snd (run_stream T1 s segs 0 mask trig) = boundaries T1 w mask trig seen (concat segs) 0.
Proof. exact c_run_stream_boundaries. Qed.
Print Assumptions C09_stream_boundaries.

Theorem C09_split_independent : forall (w : nat) (mask trig : N) (segsA segsB : list (list N)) (s : rh_state) (seen : list N),
  1 <= w <= 48 -> Inv T1 w s seen -> concat segsA = concat segsB ->
  snd (run_stream T1 s segsA 0 mask trig) = snd (run_stream T1 s segsB 0 mask trig).
Proof. exact c_split_independent. Qed.
Print Assumptions C09_split_independent.

(* (e) across library versions: the table in the current source is the pinned one *)
Theorem C09_table_pinned : table = pinned_table.
Proof. exact c_table_pinned. Qed.
Print Assumptions C09_table_pinned.

(* non-vacuity: a concrete reset state meets Inv, and a concrete cut stream has a
   boundary that two different splittings both find *)
Example C09_nonvacuous :
  let s := rh_reset T1 {| rw := 4; rhash := 0; rhist := [] |} [1;2;3;4]%N in
  Inv T1 4 s [1;2;3;4]%N /\
  snd (run_stream T1 s [[5;6;7]; [8;9;10;11;12]; []; [13;14;15;16]]%N 0 3 1) = [2; 5; 6; 12] /\
  snd (run_stream T1 s [[5;6;7;8;9;10;11;12;13;14;15;16]]%N 0 3 1) = [2; 5; 6; 12].
Proof. exact c_nonvacuous. Qed.
