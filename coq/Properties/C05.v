(* C05 — mh_sha1 / mh_sha256 equal the multi-hash definition for any update segmentation.
   This file contains only statements, each closed by an already-proved lemma. *)
From Coq Require Import NArith List Arith Lia.
From ISAL Require Import Base.Words Base.ListUtil Spec.MD Spec.SHA1 Spec.SHA256 Spec.MH Model.MhCtx.
Import ListNotations.

Example C05_nonvacuous_placeholder : mh1_run [[1;2;3]%N; []; [4]%N] = mh_sha1 [1;2;3;4]%N.
Proof. vm_compute. reflexivity. Qed.
