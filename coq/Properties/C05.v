(* C05 — mh_sha1 / mh_sha256 equal the multi-hash definition for any update segmentation.
   This file contains only statements, each closed by an already-proved lemma.

   L0: Spec/MH.v  mh_sha1 / mh_sha256 (SHA-style padding to 1024-byte blocks, 32-bit words dealt
       round-robin to 16 segments, each an unpadded SHA chain, the 16 chaining values hashed once more).
   L1: Model/MhCtx.v  mh1_* / mh256_* : the context layer of mh_sha1_update_base.c /
       mh_sha1_finalize_base.c (three-branch carry logic, uint32 wrap of len + partial_len, one- or
       two-block tail) over the interleaved block function on the flat [word][segment] array. *)
From Coq Require Import NArith List Arith Lia.
From ISAL Require Import Base.Words Base.ListUtil Spec.MD Spec.SHA1 Spec.SHA256 Spec.MH Model.MhCtx
  Proofs.MhFacts Proofs.MhInst.
Import ListNotations.

(* (a) every stream shorter than 2^32 bytes, every partition of it into update calls (any
   number of calls, any lengths including 0): init, the updates, finalize give the multi-hash
   definition of the whole stream *)
Theorem C05_mh_update_segmentation : forall segs : list (list N),
  (N.of_nat (length (concat segs)) < 2 ^ 32)%N ->
  mh1_finalize (fold_left mh1_update segs mh1_init) = mh_sha1 (concat segs) /\
  mh256_finalize (fold_left mh256_update segs mh256_init) = mh_sha256 (concat segs).
Proof. exact c05_update_segmentation. Qed.
Print Assumptions C05_mh_update_segmentation.

(* (b) hence two partitions of the same stream give the same digests *)
Theorem C05_split_independent : forall segsA segsB : list (list N),
  concat segsA = concat segsB -> (N.of_nat (length (concat segsA)) < 2 ^ 32)%N ->
  mh1_run segsA = mh1_run segsB /\ mh256_run segsA = mh256_run segsB.
Proof. exact mh_run_split_independent. Qed.
Print Assumptions C05_split_independent.

(* (c) the representation invariant behind (a), which is what the white-box correspondence
   compares after every update call: total_length is exact, the first (total mod 1024) bytes of
   the partial buffer are the unhashed tail of the stream, the interim digests are the block
   function folded over the first floor(total / 1024) blocks *)
Theorem C05_ctx_invariant : forall segs : list (list N),
  (N.of_nat (length (concat segs)) < 2 ^ 32)%N ->
  let stream := concat segs in
  let nblk := length stream / 1024 in
  forall c st0 blockf,
    (c = fold_left mh1_update segs mh1_init /\ st0 = mh_flat_iv sha1_iv /\ blockf = mh_sha1_block) \/
    (c = fold_left mh256_update segs mh256_init /\ st0 = mh_flat_iv sha256_iv /\ blockf = mh_sha256_block) ->
    mc_total c = N.of_nat (length stream) /\
    length (mc_partial c) = 1024 /\
    firstn (length stream mod 1024) (mc_partial c) = skipn (nblk * 1024) stream /\
    mc_state c = fold_left blockf (chunks 1024 (firstn (nblk * 1024) stream)) st0.
Proof. exact c05_ctx_invariant. Qed.
Print Assumptions C05_ctx_invariant.

(* (d) the interleaved block function.  Spec/MH.v already DEFINES a block update as 16
   independent compressions (mh_block_update = map compress (combine interim (mh_segments block)));
   what is proved here is the layout: the model's block function, which like the C indexes the flat
   uint32_t digests[word][segment] array and the block's 256 words ww[16 i + s], equals that
   definition through the memory-order flattening mh_interim_words *)
Theorem C05_block_is_16_segments :
  (forall I blk, mh_wf 5 I -> length blk = 1024 ->
     mh_sha1_block (mh_interim_words sha1_algo I) blk
     = mh_interim_words sha1_algo (mh_block_update sha1_algo I blk)) /\
  (forall I blk, mh_wf 8 I -> length blk = 1024 ->
     mh_sha256_block (mh_interim_words sha256_algo I) blk
     = mh_interim_words sha256_algo (mh_block_update sha256_algo I blk)).
Proof. exact c05_block_is_16_segments. Qed.
Print Assumptions C05_block_is_16_segments.

(* (e) "32-bit words dealt round-robin": segment s of a 1024-byte block is the concatenation of
   its 4-byte words s, 16 + s, 32 + s, ..., 240 + s *)
Theorem C05_segments_are_dealt_words : forall blk : list N, length blk = 1024 ->
  mh_segments blk
  = map (fun s => flat_map (fun i => firstn 4 (skipn (4 * (16 * i + s)) blk)) (seq 0 16)) (seq 0 16).
Proof. exact mh_segments_dealt. Qed.
Print Assumptions C05_segments_are_dealt_words.

(* (f) "each hashed without further padding": the 16 chaining values after the whole padded
   stream are 16 independent plain compression chains from the standard IV, chain s over the
   s-th segment block of every 1024-byte block *)
Theorem C05_16_independent_chains : forall msg : list N,
  (mh_chain sha1_algo msg
   = map (fun s => fold_left sha1_compress (map (fun b => nth s (mh_segments b) []) (mh_blocks msg)) sha1_iv) (seq 0 16))
  /\
  (mh_chain sha256_algo msg
   = map (fun s => fold_left sha256_compress (map (fun b => nth s (mh_segments b) []) (mh_blocks msg)) sha256_iv) (seq 0 16)).
Proof. exact mh_chain_16. Qed.
Print Assumptions C05_16_independent_chains.

(* non-vacuity: 1030 pattern bytes fed as 1000 + 24 (completing the partial block exactly) + 0 + 6
   meet the hypothesis and give the digests the built library returns for this input *)
Example C05_nonvacuous :
  let stream := mh_pat_from 1030 3 in
  let segs := [firstn 1000 stream; firstn 24 (skipn 1000 stream); []; skipn 1024 stream] in
  concat segs = stream /\ (N.of_nat (length (concat segs)) < 2 ^ 32)%N /\
  mh1_finalize (fold_left mh1_update segs mh1_init)
    = [0x86711483; 0x1075c6b4; 0x90de19b8; 0xe171bf1d; 0x747f6369]%N /\
  mh_sha1 stream = [0x86711483; 0x1075c6b4; 0x90de19b8; 0xe171bf1d; 0x747f6369]%N /\
  mh256_finalize (fold_left mh256_update segs mh256_init)
    = [0xb9385253; 0x9adebf85; 0xb290b1ee; 0xcb0780ad; 0x547f898f; 0xb9ac8d22; 0x736bae3e; 0xa5035f2f]%N.
Proof. vm_compute. repeat split; reflexivity. Qed.
