(* C06 (second file) - the LANE LEVEL of the multi-buffer hash managers.

   Properties/C06.v is about the context layer over an ABSTRACT job manager (any scheduling
   oracle).  This file is about the real schedulers: Model/LaneMgr.v is a concrete, executable
   lane manager shaped like *_mb_mgr_init_*.c / *_mb_mgr_submit_*.asm / *_mb_mgr_flush_*.asm
   (packed lens[] words, the packed unused_lanes stack, num_lanes_inuse, per-lane job / data
   pointer / digest column); one [family_cfg] per (algorithm, family), regenerated from the
   sources (Gen/LaneCfgGen.v).  Every theorem is for EVERY configuration with [cfg_wf F = true]
   (a boolean, evaluated on each regenerated configuration by the first theorem), every kernel
   function [compress], every history of manager calls whose jobs have fewer than 2^32 bytes
   ([mop_ok]: fewer than max_blocks F = 2^32 / block size blocks).
   Statements only; proofs in Proofs/LaneMgr*.v. *)
From Coq Require Import NArith List Arith Bool Permutation.
From Coq Require String.
From ISAL Require Import Base.Words Base.ListUtil Spec.MD Model.HashCtx Model.HashCfg Model.LaneMgr
     Gen.HashCfgGen Gen.LaneCfgGen
     Spec.HashApiSpec Model.HashObs Proofs.HashPadFacts Proofs.HashSpecFacts Proofs.HashRefine Proofs.HashProps
     Proofs.LaneMgrBits Proofs.LaneMgrLists Proofs.LaneMgrInv Proofs.LaneMgrRefine Proofs.LaneMgrCtx.
Import ListNotations.
Local Open Scope N_scope.

(* ---- the regenerated configurations ------------------------------------------------------ *)

Theorem C06_lanes_every_configuration_wf : forallb (fun x => cfg_wf (snd x)) gen_lane_cfgs = true.
Proof. exact gen_lane_cfgs_wf. Qed.
Print Assumptions C06_lanes_every_configuration_wf.

(* same (algorithm, family) pairs, same synchronous families, same initial free-lane stacks as the
   configuration of the context-layer model (Gen/HashCfgGen.v) *)
Theorem C06_lanes_configurations_match_hash_cfg : lane_cfgs_match gen_hfams gen_lane_cfgs = true.
Proof. exact gen_lane_cfgs_pairs. Qed.
Print Assumptions C06_lanes_configurations_match_hash_cfg.

(* ---- L1: the invariant of every reachable manager state --------------------------------- *)
(* [st] = the free-lane stack packed in unused_lanes (top first), [ls] = the occupied lanes, oldest
   job first: both duplicate-free, disjoint, |st| + |ls| = nlanes, num_lanes_inuse = |ls|, the
   stack's lanes are idle, and every occupied lane's lens[] word is
   (its remaining blocks << shift) + its lane, with fewer than 2^32 bytes remaining. *)
Theorem C06_lanes_invariant :
  forall (compress : list N -> list N -> list N) (F : family_cfg) (ops : list mop),
  cfg_wf F = true -> f_immediate F = false -> Forall (mop_ok F) ops ->
  let m := fst (lm_run compress F (lm_init F) ops) in
  exists (held : list job) (ls st : list nat),
    NoDup st /\ NoDup ls /\ (forall l, In l st -> ~ In l ls) /\
    (length st + length ls = f_nlanes F)%nat /\ length ls = length held /\
    m_inuse m = N.of_nat (length ls) /\
    stack_low (f_ent_bits F) st (m_unused m) /\
    (forall l, In l st -> occupied (lane_at m l) = false) /\
    (forall l, In l ls -> occupied (lane_at m l) = true /\
                          len_at m l = packed F (rem_of (lane_at m l)) l /\ rem_of (lane_at m l) < max_blocks F).
Proof. exact lanes_invariant. Qed.
Print Assumptions C06_lanes_invariant.

(* ---- L2 (C15 packed_len_fits) -------------------------------------------------------------- *)
(* a job of len < 2^32 bytes put into lane [lane]: the word submit stores is (len / B) << shift | lane
   exactly (nothing is cut off by the width W), it is below the word flush gives an idle lane, and
   the min-search code gets the lane (and idx, mask) and the block count ((w & ~mask) >> shift) back *)
Theorem C15_lanes_packed_len_fits :
  forall (F : family_cfg) (len : N) (lane : nat) (old : N),
  cfg_wf F = true -> f_immediate F = false -> len < 2 ^ 32 -> (lane < f_nlanes F)%nat ->
  (f_pack F = PackHighField -> old mod 2 ^ f_shift F = N.of_nat lane) ->
  let w := pack_submit F old (len / f_bsize F) (N.of_nat lane) in
  w = (len / f_bsize F) * 2 ^ f_shift F + N.of_nat lane /\ w < 2 ^ f_W F /\ w < pack_idle F old /\
  N.to_nat (N.land w (N.ones (f_idx_bits F))) = lane /\
  N.shiftr (N.shiftl (N.shiftr w (f_clear_bits F)) (f_clear_bits F)) (f_shift F) = len / f_bsize F.
Proof. exact packed_len_fits. Qed.
Print Assumptions C15_lanes_packed_len_fits.

(* ---- L3 (C08): no over-advance, no NULL job ----------------------------------------------- *)
(* the model answers RFault when a retired lane has job_in_lane = NULL or when a kernel is asked
   to advance a lane (occupied, or idle with the pointer flush copied into it) by more blocks than
   its data pointer has left in its buffer; no reachable call does *)
Theorem C08_lanes_no_over_advance :
  forall (compress : list N -> list N -> list N) (F : family_cfg) (ops : list mop),
  cfg_wf F = true -> Forall (mop_ok F) ops ->
  Forall (fun r => r <> RFault) (snd (lm_run compress F (lm_init F) ops)).
Proof. exact lanes_no_fault. Qed.
Print Assumptions C08_lanes_no_over_advance.

(* ---- L4 + L5: one manager call --------------------------------------------------------------- *)
(* [MRel compress F held m]: [held] are the jobs inside the manager (oldest first).  A call
   returns NULL and keeps the jobs (plus the submitted one), or returns one of them - removed from
   the held list, so never again - with chaining value fold_left compress (all its blocks) (its
   initial chain).  A flush that returns NULL had nothing held and changes nothing. *)
Theorem C06_lanes_reachable :
  forall (compress : list N -> list N -> list N) (F : family_cfg) (ops : list mop),
  cfg_wf F = true -> Forall (mop_ok F) ops ->
  exists held, MRel compress F held (fst (lm_run compress F (lm_init F) ops)).
Proof. exact lanes_reachable. Qed.
Print Assumptions C06_lanes_reachable.

Theorem C06_lanes_job_correct_and_conserved :
  forall (compress : list N -> list N -> list N) (F : family_cfg) (held : list job) (m : mgr) (o : mop),
  cfg_wf F = true -> MRel compress F held m -> mop_ok F o ->
  let held1 := match o with MSubmit j => held ++ [j] | MFlush => held end in
  exists m' r, lm_step compress F m o = (m', r) /\
    ((r = RNull /\ MRel compress F held1 m' /\ (o = MFlush -> held = [] /\ m' = m)) \/
     (exists p jr, nth_error held1 p = Some jr /\
                   r = RJob (j_ctx jr) (fold_left compress (j_blocks jr) (j_chain jr)) /\
                   MRel compress F (remove_nth p held1) m')).
Proof. exact MRel_step. Qed.
Print Assumptions C06_lanes_job_correct_and_conserved.

Theorem C06_lanes_flush_null_iff_empty :
  forall (compress : list N -> list N -> list N) (F : family_cfg) (held : list job) (m : mgr),
  cfg_wf F = true -> MRel compress F held m ->
  (snd (lm_flush compress F m) = RNull <-> held = []) /\
  (f_immediate F = false -> (held = [] <-> m_inuse m = 0)).
Proof. exact flush_null_iff. Qed.
Print Assumptions C06_lanes_flush_null_iff_empty.

(* n held jobs, n+1 flushes: the n jobs come back, each exactly once and finished, then NULL *)
Theorem C06_lanes_flush_drains :
  forall (compress : list N -> list N -> list N) (F : family_cfg), cfg_wf F = true ->
  forall (n : nat) (held : list job) (m : mgr), length held = n -> MRel compress F held m ->
  exists rs m', lm_run compress F m (repeat MFlush (S n)) =
                  (m', map (fun j => RJob (j_ctx j) (fold_left compress (j_blocks j) (j_chain j))) rs ++ [RNull]) /\
                Permutation rs held /\ MRel compress F [] m'.
Proof. exact flush_drains. Qed.
Print Assumptions C06_lanes_flush_drains.

(* the job flush retires is one with the fewest remaining blocks (ties: the lowest lane, by the
   packed word; which one is what the white-box tie compares) *)
Theorem C06_lanes_flush_retires_a_shortest :
  forall (compress : list N -> list N -> list N) (F : family_cfg) (HW : wf_facts F)
         (held : list job) (ls st : list nat) (m : mgr),
  Rel compress F held ls st m -> f_immediate F = false ->
  exists m' r, lm_flush compress F m = (m', r) /\
    ((held = [] /\ r = RNull /\ m' = m) \/
     (exists p i jr, nth_error held p = Some jr /\ r = RJob (j_ctx jr) (jfinish compress jr) /\
                     Rel compress F (remove_nth p held) (remove_nth p ls) (i :: st) m' /\
                     (forall l, In l ls -> rem_of (lane_at m i) <= rem_of (lane_at m l)))).
Proof. exact flush_spec. Qed.
Print Assumptions C06_lanes_flush_retires_a_shortest.

(* ---- L6: the lane manager is an instance of the abstract manager of Model/HashCtx.v ------ *)
(* Manager interface: for every history of manager calls there is a scheduling oracle (the
   positions, in submission order, of the jobs the lane manager hands back) under which HashCtx's
   abstract mgr_submit / mgr_flush hand back the same context at every call, with the same
   finished chaining value in its digest. *)
Theorem C06_lanes_refine_abstract_manager :
  forall (A : algo) (K : nat) (F : family_cfg), cfg_wf F = true -> (f_nlanes F < K)%nat ->
  forall (cs : list ctx) (ops : list mop),
  Forall (mop_ok F) ops -> Forall (mop_in (length cs)) ops ->
  exists sched, snd (arun A K sched (mgr_init cs) ops) = snd (lm_run (a_compress A) F (lm_init F) ops).
Proof. exact lanes_refine_abstract_mgr. Qed.
Print Assumptions C06_lanes_refine_abstract_manager.

(* The composition: Model.LaneMgr.lrun_obs is Model.HashCtx's context layer (ctx_accept, ctx_next,
   hash_pad, the resubmit / flush loops, the isal_ wrapper's return code) re-run over the LANE
   manager instead of the abstract one.  For every algorithm of the two shapes (block 64 / field 8,
   block 128 / field 16), every well-formed configuration with that block size, every K > nlanes,
   every junk contexts (incoming_buffer_length a uint32: [small_inc]) and every history of API
   calls on existing contexts with buffers of fewer than 2^32 bytes ([op_small]) there is a
   scheduling oracle under which the observed trace of the context layer over the ABSTRACT manager
   is the same, observation by observation. *)
Theorem C06_lanes_refine_abstract :
  forall (A : algo) (K : nat) (F : family_cfg), cfg_wf F = true -> (f_nlanes F < K)%nat ->
  algo_shape A = true -> f_bsize F = N.of_nat (a_bsize A) ->
  forall (junk : list ctx) (ops : list op),
  Forall small_inc junk -> Forall (op_small (length junk)) ops ->
  exists sched, lrun_obs A F (linit F junk) ops = run_obs A K sched (model_init A junk) ops.
Proof. exact lanes_refine_abstract. Qed.
Print Assumptions C06_lanes_refine_abstract.

(* ... so every theorem of Properties/C01, C06, C11, C15 - each of the form "for every sched,
   run_obs A K sched (model_init A junk) ops ..." - is a theorem about the composition.  Two of
   them restated: refinement of the L0 trace acceptor (C01_model_refines_spec: loops terminate,
   and the trace is accepted - digests, statuses, totals, conservation - when streams are < 2^61
   bytes), and the trace-level conservation of C06_no_loss_no_dup. *)
Theorem C06_lanes_composition_refines_spec :
  forall (A : algo) (K : nat) (F : family_cfg) (junk : list ctx) (ops : list op),
  algo_wf A -> cfg_wf F = true -> (f_nlanes F < K)%nat -> f_bsize F = N.of_nat (a_bsize A) ->
  wf_history A K junk ops -> Forall small_inc junk -> Forall (op_small (length junk)) ops ->
  exists tr, lrun_obs A F (linit F junk) ops = Some tr /\
    (bounded (spec_init (length junk)) tr -> accepts A K (spec_init (length junk)) tr = true).
Proof. exact lanes_transfer_refines_spec. Qed.
Print Assumptions C06_lanes_composition_refines_spec.

Theorem C06_lanes_composition_no_loss_no_dup :
  forall (A : algo) (K : nat) (F : family_cfg) (junk : list ctx) (ops : list op) (tr : list (call * obs)),
  algo_wf A -> cfg_wf F = true -> (f_nlanes F < K)%nat -> f_bsize F = N.of_nat (a_bsize A) ->
  wf_history A K junk ops -> Forall small_inc junk -> Forall (op_small (length junk)) ops ->
  lrun_obs A F (linit F junk) ops = Some tr ->
  NoDup (pending tr) /\ (length (pending tr) < K)%nat /\
  (forall t1 c o t2 r, tr = t1 ++ (c, o) :: t2 -> o_ret o = Some r -> o_rc o = 0 ->
     (In r (pending t1) \/ exists buf flags, c = CSubmit r buf flags) /\
     ~ In r (pending (t1 ++ [(c, o)]))).
Proof. exact lanes_transfer_conservation. Qed.
Print Assumptions C06_lanes_composition_no_loss_no_dup.

(* ---- non-vacuity --------------------------------------------------------------------------- *)

(* a toy kernel: the chain is one word, a block one byte *)
Definition ex_compress (c b : list N) : list N := [hd 0 c * 31 + hd 0 b + 1].
Definition ex_job (id : nat) (bytes : list N) (c0 : N) : job :=
  {| j_ctx := id; j_blocks := map (fun b => [b]) bytes; j_chain := [c0] |}.

(* the regenerated sha1/sse_ni configuration (4 lanes in the arrays, lanes 0 and 1 used, runs when
   unused_lanes = 0xF32) and sha512/avx2 (lane index kept in the low dword, `bt` emptiness test) *)
Definition ex_cfg (a f : String.string) : family_cfg :=
  match find (fun x => String.eqb (fst (fst x)) a && String.eqb (snd (fst x)) f)%bool gen_lane_cfgs with
  | Some x => snd x
  | None => snd (hd (String.EmptyString, String.EmptyString, Build_family_cfg true 1 0 0 0 0 0 [] 0 0 0 0 PackShiftOr 0 (RunInuseEq 0) 0 EmptyInuse0 None false) gen_lane_cfgs)
  end.

Definition ex_ops : list mop :=
  [MFlush; MSubmit (ex_job 0 [1; 2; 3] 7); MSubmit (ex_job 1 [4] 9); MSubmit (ex_job 2 [] 5);
   MFlush; MSubmit (ex_job 3 [6; 6] 1); MSubmit (ex_job 4 [8; 8] 2); MFlush; MFlush; MFlush; MFlush].

Import String.
Local Open Scope string_scope.
Example C06_lanes_example_sse_ni :
  let F := ex_cfg "sha1" "sse_ni" in
  cfg_wf F = true /\ f_immediate F = false /\ f_run F = RunStackEq 0xF32 /\
  snd (lm_run ex_compress F (lm_init F) ex_ops) =
    [RNull; RNull; RJob 1 [284]; RJob 2 [5]; RJob 0 [210556]; RNull; RJob 3 [1185]; RJob 4 [2210]; RNull; RNull; RNull].
Proof. vm_compute. repeat split. Qed.

Example C06_lanes_example_sha512_avx2 :
  let F := ex_cfg "sha512" "avx2" in
  cfg_wf F = true /\ f_pack F = PackHighField /\ f_empty F = EmptyBit 39 /\
  snd (lm_run ex_compress F (lm_init F) ex_ops) =
    [RNull; RNull; RNull; RNull; RJob 2 [5]; RNull; RJob 1 [284]; RJob 3 [1185]; RJob 4 [2210]; RJob 0 [210556]; RNull].
Proof. vm_compute. repeat split. Qed.

Example C06_lanes_example_hypotheses : Forall (mop_ok (ex_cfg "sha1" "sse_ni")) ex_ops.
Proof. repeat constructor. Qed.

(* the composition on a real algorithm: SHA-256 over the sha256/sse_ni lane manager, 3 contexts,
   interleaved FIRST/UPDATE/LAST/ENTIRE with a flush; the trace is accepted by the L0 acceptor
   (digests = md_hash of the accepted segments), which is not vacuous: it contains completed
   contexts *)
From ISAL Require Import Spec.SHA256.
Definition ex_junk : ctx :=
  {| c_digest := []; c_status := 77; c_error := 5; c_total := 123; c_inc := [1; 2]; c_pbuf := repeat 9 128; c_plen := 3 |}.
Definition ex_api_ops : list op :=
  [Submit 0 (repeat 97 70) 1; Submit 1 [97; 98; 99] 3; Submit 2 (repeat 98 64) 3; Submit 0 [] 2; Flush; Flush; Flush; Flush].
Example C06_lanes_example_composition :
  let F := ex_cfg "sha256" "sse_ni" in
  match lrun_obs sha256_algo F (linit F [ex_junk; ex_junk; ex_junk]) ex_api_ops with
  | Some tr => accepts sha256_algo 5 (spec_init 3) tr = true /\
               (List.length (filter (fun co => (o_status (snd co) =? 4)%N) tr) = 3)%nat
  | None => False
  end.
Proof. vm_compute. split; reflexivity. Qed.
