(* C14 — SAFE_DATA: no key material left in vector registers after AES calls (static, register half).
   Statements only.  The static criterion is stronger than the property: on every path to every exit
   of an AES entry point every vector register the function WROTE has been cleared again (by the
   forms clear_regs.inc expands to: pxor/vpxor/vpxorq x,x,x, a move from a cleared register,
   vzeroall, vzeroupper) — except a reviewed residue of registers that hold ciphertext.  Dead-stack
   residue is outside this half (dynamic, checks/tramp.py). *)
From Coq Require Import ZArith NArith PArith List Bool.
From ISAL Require Import Model.AbiCfg Proofs.AbiCfgFlow Proofs.AbiCfgVec Proofs.AbiCfgGpr
  Gen.AbiGenClaims Gen.AbiGenAll Proofs.AbiCfgAll.
Import ListNotations.

(* (a) soundness of the checker over the reference dirt semantics (vstep): if check_c14 accepts a
   function then on every finite path from its entry (all branch outcomes, any number of loop
   iterations) to a `ret` (or to the indirect jump of a dispatch stub) every vector register 0..31
   is clean over its full 512 bits *)
Theorem C14_clear_check_sound :
  forall (claims : positive -> claim) (vcallrel : positive -> vconc -> vconc -> Prop),
  (forall f c c', vcallrel f c c' -> vcall_ok (cl_vd (claims f)) c c') ->
  forall f, check_c14 claims f = true ->
  forall c tm c', (forall r, c r = 0) ->
  run vconc (vbstep vcallrel) vcond (cfg_of f) 1%positive c tm c' ->
  (tm = TRet \/ tm = TTailInd) -> forall r, r < 32 -> c' r = 0.
Proof. exact clear_check_sound. Qed.
Print Assumptions C14_clear_check_sound.

(* (b) with a residue table *)
Theorem C14_residue_check_sound :
  forall (claims : positive -> claim) (vcallrel : positive -> vconc -> vconc -> Prop),
  (forall f c c', vcallrel f c c' -> vcall_ok (cl_vd (claims f)) c c') ->
  forall f res, check_c14r claims res f = true ->
  forall c tm c', (forall r, c r = 0) ->
  run vconc (vbstep vcallrel) vcond (cfg_of f) 1%positive c tm c' ->
  (tm = TRet \/ tm = TTailInd) -> forall r, r < 32 -> c' r <= nth r res 0.
Proof. exact residue_check_sound. Qed.
Print Assumptions C14_residue_check_sound.

(* (c) the per-symbol obligations over the regenerated tables *)
Theorem C14_table : failing chk14 all_funcs = c14_unproved.
Proof. exact c14_table. Qed.
Print Assumptions C14_table.

(* (d) every AES entry point (every family symbol and every public stub of the aes/ objects) that is
   not listed in c14_unproved returns with all vector registers clean, up to its residue *)
Theorem C14_aes_entry_points : forall f,
  In f all_funcs -> In (fid f) aes_ids -> ~ In (fid f) c14_unproved ->
  forall (vcallrel : positive -> vconc -> vconc -> Prop),
  (forall g c c', vcallrel g c c' -> vcall_ok (cl_vd (claims g)) c c') ->
  forall c tm c', (forall r, c r = 0) ->
  run vconc (vbstep vcallrel) vcond (cfg_of f) 1%positive c tm c' ->
  (tm = TRet \/ tm = TTailInd) ->
  forall r, r < 32 ->
  c' r <= match lookup_res residue_list (fid f) with Some res => nth r res 0 | None => 0 end.
Proof. exact c14_aes_entry_points. Qed.
Print Assumptions C14_aes_entry_points.

(* non-vacuity: a two-exit function that dirties ymm0, ymm1, ymm3, xmm4 and clears them by vzeroall on one
   exit and by vpxor / move-from-cleared on the other is accepted; clearing ymm3 with a legacy pxor
   (upper half survives) on one exit is rejected *)
Example C14_nonvacuous : check_c14 ex_claims ex_vgood = true /\ check_c14 ex_claims ex_vbad = false.
Proof. exact ex_c14. Qed.
