(* C20 — results depend on declared inputs only, never on stale memory or registers.
   Statements only, each closed by an already-proved lemma.  The models take the parts of
   memory the API has not yet defined as explicit junk parameters; the theorems say the
   observations do not depend on them.  What only the paired execution of checks/c20.py
   observes (registers, flags, dead stack, lane-precise undefined reads, idle-lane columns of
   the real managers) is named in docs/tramp.md. *)
From Coq Require Import NArith List Arith Bool.
From ISAL Require Import Base.Words Base.ListUtil Spec.MD Spec.SHA256 Spec.Rolling
  Model.HashCtx Model.JunkHash Model.GcmStream Model.RollRun Model.RollInst Model.JunkMisc
  Spec.SHA1 Spec.SHA512 Spec.MD5 Spec.SM3 Proofs.HashPadFacts Proofs.HashInst
  Proofs.NonInterfHash Proofs.NonInterfHashFull Proofs.NonInterfMisc.
Import ListNotations.

(* (i) hash context layer, every well-formed algorithm (block 64 / length field 8 or block
   128 / field 16: the five of the library, instances below), every manager capacity K, every
   scheduling oracle (= every family's lane scheduler), every list of API calls (valid or
   rejected, any flags, any interleaving over any number of contexts): two executions whose
   contexts were initialised in memories that differ ARBITRARILY IN EVERY FIELD — digest,
   total_length, incoming buffer, partial length, the contents of the partial block buffer,
   previous status and error; only the size of that buffer, a C array of 2*B bytes, is fixed —
   give the same observations: same context handed back by every call, same return code,
   status, error, and the same digest and total_length for every context that has been
   started (a submit accepted since its isal_hash_ctx_init). *)
Theorem C20_hash_ctx_noninterference :
  forall (A : algo), algo_wf A ->
  forall (K : nat) (sched : nat -> list nat -> option nat) (junk1 junk2 : list ctx) (ops : list op),
  length junk1 = length junk2 ->
  Forall (fun c => length (c_pbuf c) = 2 * a_bsize A) junk1 ->
  Forall (fun c => length (c_pbuf c) = 2 * a_bsize A) junk2 ->
  run20 A K sched (init20 junk1) (none_started (length junk1)) ops =
  run20 A K sched (init20 junk2) (none_started (length junk1)) ops.
Proof. exact hash_ctx_noninterference_full. Qed.
Print Assumptions C20_hash_ctx_noninterference.

(* the five algorithm records of the library meet the hypothesis *)
Theorem C20_hash_algos_wf :
  algo_wf sha1_algo /\ algo_wf sha256_algo /\ algo_wf sha512_algo /\ algo_wf md5_algo /\ algo_wf sm3_algo.
Proof. exact (conj sha1_wf (conj sha256_wf (conj sha512_wf (conj md5_wf sm3_wf)))). Qed.
Print Assumptions C20_hash_algos_wf.

(* the same for ANY algo record (no well-formedness, any block size) when the two memories
   agree on the buffer contents and differ in everything else: no arithmetic is involved *)
Theorem C20_hash_ctx_noninterference_any_algo :
  forall (A : algo) (K : nat) (sched : nat -> list nat -> option nat)
         (junk1 junk2 : list ctx) (ops : list op),
  same_pbuf junk1 junk2 ->
  run20 A K sched (init20 junk1) (none_started (length junk1)) ops =
  run20 A K sched (init20 junk2) (none_started (length junk1)) ops.
Proof. exact hash_ctx_noninterference. Qed.
Print Assumptions C20_hash_ctx_noninterference_any_algo.

(* (ii) rolling hash: init + reset define every field run observes, whatever hash and
   history the state memory held; hence every later offset, verdict and boundary coincides *)
Theorem C20_rolling_start_noninterference :
  forall (T1 : N -> N) (jh1 : N) (jl1 : list N) (jh2 : N) (jl2 : list N) (w : nat) (init_bytes : list N),
  rh_start T1 jh1 jl1 w init_bytes = rh_start T1 jh2 jl2 w init_bytes.
Proof. exact rh_start_noninterference. Qed.
Print Assumptions C20_rolling_start_noninterference.

Theorem C20_rolling_stream_noninterference :
  forall (T1 : N -> N) jh1 jl1 jh2 jl2 (w : nat) (init_bytes : list N) (segs : list (list N)) (mask trig : N),
  option_map (fun s => run_stream T1 s segs 0 mask trig) (rh_start T1 jh1 jl1 w init_bytes) =
  option_map (fun s => run_stream T1 s segs 0 mask trig) (rh_start T1 jh2 jl2 w init_bytes).
Proof. exact rh_stream_noninterference. Qed.
Print Assumptions C20_rolling_stream_noninterference.

(* (iii) GCM: init defines every context field the API defines (partial_block_enc_key, which
   gcm_vaes_avx512 leaves untouched, is exposed only while a partial block is open) ... *)
Theorem C20_gcm_init_defines_ctx :
  forall (H iv aad j1 j2 : list N),
  gcm_ctx_api (gcm_init_mem H iv aad j1) = gcm_ctx_api (gcm_init_mem H iv aad j2).
Proof. exact gcm_init_defines_ctx. Qed.
Print Assumptions C20_gcm_init_defines_ctx.

(* ... and a whole session — any cipher E, hash key H, family policy, direction, any
   segmentation, any tag length: outputs of every update, the API-defined context after every
   update, and the tag — does not depend on what that field held *)
Theorem C20_gcm_session_noninterference :
  forall (E : list N -> list N) (H : list N) (defer : nat -> bool) (enc : bool)
         (iv aad j1 j2 : list N) (segs : list (list N)) (tag_len : nat),
  gcm_session E H defer enc (gcm_init_mem H iv aad j1) segs tag_len =
  gcm_session E H defer enc (gcm_init_mem H iv aad j2) segs tag_len.
Proof. exact gcm_session_noninterference. Qed.
Print Assumptions C20_gcm_session_noninterference.

(* (iv) output buffers: the model functions return fresh lists (no parameter for the previous
   contents); in memory terms the produced bytes are independent of the prefill and the
   bytes beyond them are the prefill, untouched *)
Theorem C20_output_prefill_independent :
  forall (p1 p2 out : list N),
  firstn (length out) (write_out p1 out) = firstn (length out) (write_out p2 out).
Proof. exact write_out_noninterference. Qed.
Print Assumptions C20_output_prefill_independent.

Theorem C20_output_tail_untouched :
  forall (prefill out : list N),
  skipn (length out) (write_out prefill out) = skipn (length out) prefill.
Proof. exact write_out_tail. Qed.
Print Assumptions C20_output_tail_untouched.

(* ---- non-vacuity ------------------------------------------------------------------------ *)

(* two contexts whose memories differ in every field, buffer contents included *)
Definition junkA : ctx :=
  {| c_digest := [1; 2; 3]%N; c_status := 7; c_error := 9; c_total := 123456789;
     c_inc := [5; 5]%N; c_pbuf := repeat 0xEE%N 128; c_plen := 77 |}.
Definition junkB : ctx :=
  {| c_digest := []; c_status := 0; c_error := 2; c_total := 0;
     c_inc := []; c_pbuf := zeros 128; c_plen := 0 |}.

Definition never (t : nat) (ids : list nat) : option nat := None.
Definition abc : list N := [97; 98; 99]%N.

(* a history with a rejected UPDATE on the fresh context (observation: error, nothing
   defined), then ENTIRE "abc" (held by a 2-job manager), then a flush that hands it back
   COMPLETE with the FIPS 180-4 digest of "abc" and total_length 3 — from both memories *)
Example C20_hash_nonvacuous :
  Forall (fun c => length (c_pbuf c) = 2 * a_bsize sha256_algo) [junkA] /\
  Forall (fun c => length (c_pbuf c) = 2 * a_bsize sha256_algo) [junkB] /\
  c_pbuf junkA <> c_pbuf junkB /\
  run20 sha256_algo 2 never (init20 [junkA]) (none_started 1)
        [Submit 0 abc 0; Submit 0 abc FLAG_ENTIRE; Flush] =
  [ Some {| q_ret := Some 0; q_rc := ISAL_ERR_ALREADY_COMPLETED; q_status := STS_COMPLETE;
            q_error := ERR_ALREADY_COMPLETED; q_defined := None |};
    Some {| q_ret := None; q_rc := 0; q_status := 0; q_error := 0; q_defined := None |};
    Some {| q_ret := Some 0; q_rc := 0; q_status := STS_COMPLETE; q_error := ERR_NONE;
            q_defined := Some ([0xba7816bf; 0x8f01cfea; 0x414140de; 0x5dae2223;
                                0xb00361a3; 0x96177a9c; 0xb410ff61; 0xf20015ad]%N, 3%N) |} ] /\
  run20 sha256_algo 2 never (init20 [junkB]) (none_started 1)
        [Submit 0 abc 0; Submit 0 abc FLAG_ENTIRE; Flush] =
  run20 sha256_algo 2 never (init20 [junkA]) (none_started 1)
        [Submit 0 abc 0; Submit 0 abc FLAG_ENTIRE; Flush].
Proof.
  split; [repeat constructor|]. split; [repeat constructor|]. split; [discriminate|].
  split; vm_compute; reflexivity.
Qed.

(* rolling: two different prior states, same state after init+reset, and it is a real state *)
Example C20_rolling_nonvacuous :
  rh_start T1 0xdeadbeef [9; 9; 9]%N 4 [1; 2; 3; 4]%N = rh_start T1 0 [] 4 [1; 2; 3; 4]%N /\
  option_map (fun s => rhist s) (rh_start T1 0 [] 4 [1; 2; 3; 4]%N) = Some [1; 2; 3; 4]%N /\
  rh_start T1 5 [] 49 [] = None.
Proof. vm_compute. repeat split; reflexivity. Qed.

(* GCM: the two memory images after init really differ, their API-defined images coincide *)
Example C20_gcm_nonvacuous :
  gcm_init_mem (zeros 16) (zeros 12) [1; 2; 3]%N (zeros 16) <>
  gcm_init_mem (zeros 16) (zeros 12) [1; 2; 3]%N (repeat 255%N 16) /\
  pb_len (gcm_init_mem (zeros 16) (zeros 12) [1; 2; 3]%N (repeat 255%N 16)) = 0 /\
  aad_length (gcm_init_mem (zeros 16) (zeros 12) [1; 2; 3]%N (repeat 255%N 16)) = 3%N.
Proof. split; [vm_compute; discriminate|]. split; reflexivity. Qed.

(* output: 3 produced bytes in a 5-byte buffer *)
Example C20_output_nonvacuous :
  write_out [9; 9; 9; 9; 9]%N [1; 2; 3]%N = [1; 2; 3; 9; 9]%N /\
  write_out [7; 7; 7; 7; 7]%N [1; 2; 3]%N = [1; 2; 3; 7; 7]%N.
Proof. split; reflexivity. Qed.
