(* C01, kernel level (ckernels vertical, docs/ckernels.md).
   PROVED FOR ALL INPUTS: sha256_single, sha1_single, sha512_single, md5_single (C01_kernel_<alg>_single);
   the Examples are non-vacuity instances (known answers through the translated code).
   The base block functions sha256_single, sha1_single, sha512_single, md5_single of the
   <alg>_mb/<alg>_ctx_base.c files are translated from the current source on every run
   (tr/ckernel.py -> Gen/CKernelGen.v) and run by the interpreter of Model/CKernel.v.
   What is machine-checked here: on concrete blocks (the standards' "abc" block, an all-ones block
   with an all-ones chaining value, a pattern block) the TRANSLATED C returns exactly what the
   specification's compression function returns - including: no out-of-bounds access, no shift
   >= width, no read of an uninitialised scalar, independence of the uninitialised w[] array.
   What is missing for full strength: the all-inputs theorem
     forall h block, c_<alg>_single fuel (le_words k block) h junk = Some (<alg>_compress h block)
   (proof infrastructure in wip/ckernels/CKernelSha256.v; see docs/ckernels.md, Limits).  For all
   inputs these kernels remain tied dynamically: translated = compiled C = specification on random
   and edge blocks at every run (checks/ckernels.py). *)
From Coq Require Import NArith List.
From ISAL Require Import Base.Words Base.ListUtil Spec.MD Spec.SHA1 Spec.SHA256 Spec.SHA512 Spec.MD5
  Model.CKernel Gen.CKernelGen Model.CKSym Proofs.CKSymFacts Model.CKSymSpec Proofs.CKSymSha256 Proofs.CKSymSha256Glue Proofs.CKSymKernels.
Import ListNotations.
Local Open Scope N_scope.

(* sha256_single, translated from the current sha256_mb/sha256_ctx_base.c, equals the FIPS 180-4
   compression function for EVERY chaining value and EVERY 64-byte block, whatever the
   uninitialised w[] array held (junk); the block is seen through uint32_t loads (little endian);
   Some _ also means: no out-of-bounds access, no shift >= width, no uninitialised scalar read.
   Re-established on every regenerated kernel by one vm_compute of the verified symbolic
   equivalence checker (Proofs/CKSymSha256.v sha256_check_true) + its soundness theorems. *)
Theorem C01_kernel_sha256_single : forall (h block junk : list N),
  length h = 8%nat -> Forall (fun x => x < 2 ^ 32) h ->
  length block = 64%nat -> Forall (fun x => x < 2 ^ 8) block ->
  exists F0, forall fuel, (F0 <= fuel)%nat ->
    c_sha256_single fuel (le_words 4 block) h junk = Some (sha256_compress h block).
Proof. exact ck_sha256_single_eq. Qed.
Print Assumptions C01_kernel_sha256_single.

(* the same for sha1_single, sha512_single (64-bit words, 128-byte block, read through uint64_t
   loads) and md5_single (little-endian words, no byte swap, no local array) *)
Theorem C01_kernel_sha1_single : forall (h block junk : list N),
  length h = 5%nat -> Forall (fun x => x < 2 ^ 32) h ->
  length block = 64%nat -> Forall (fun x => x < 2 ^ 8) block ->
  exists F0, forall fuel, (F0 <= fuel)%nat ->
    c_sha1_single fuel (le_words 4 block) h junk = Some (sha1_compress h block).
Proof. exact ck_sha1_single_eq. Qed.
Print Assumptions C01_kernel_sha1_single.

Theorem C01_kernel_sha512_single : forall (h block junk : list N),
  length h = 8%nat -> Forall (fun x => x < 2 ^ 64) h ->
  length block = 128%nat -> Forall (fun x => x < 2 ^ 8) block ->
  exists F0, forall fuel, (F0 <= fuel)%nat ->
    c_sha512_single fuel (le_words 8 block) h junk = Some (sha512_compress h block).
Proof. exact ck_sha512_single_eq. Qed.
Print Assumptions C01_kernel_sha512_single.

Theorem C01_kernel_md5_single : forall (h block : list N),
  length h = 4%nat -> Forall (fun x => x < 2 ^ 32) h ->
  length block = 64%nat -> Forall (fun x => x < 2 ^ 8) block ->
  exists F0, forall fuel, (F0 <= fuel)%nat ->
    c_md5_single fuel (le_words 4 block) h = Some (md5_compress h block).
Proof. exact ck_md5_single_eq. Qed.
Print Assumptions C01_kernel_md5_single.

Local Fixpoint pat_from (n : nat) (b : N) : list N :=
  match n with O => [] | S m => b :: pat_from m ((b + 7) mod 256) end.
(* the padded one-block message "abc" *)
Local Definition abc64 : list N := [0x61; 0x62; 0x63; 0x80] ++ repeat 0 59 ++ [0x18].
Local Definition abc128 : list N := [0x61; 0x62; 0x63; 0x80] ++ repeat 0 123 ++ [0x18].
Local Definition abc64le : list N := [0x61; 0x62; 0x63; 0x80] ++ repeat 0 52 ++ [0x18] ++ repeat 0 7.

(* generous fuel: the cost of a run depends on the statements executed, not on the fuel, and a
   harmless refactoring (e.g. a rotate helper, inlined by the translator) lengthens the body *)
Local Definition big_fuel : nat := N.to_nat 100000.

(* the translated function and the specification on one (chaining value, block) *)
Local Definition agree256 (h blk junk : list N) : bool :=
  match c_sha256_single big_fuel (le_words 4 blk) h junk with
  | Some r => if list_eq_dec N.eq_dec r (sha256_compress h blk) then true else false | None => false end.
Local Definition agree1 (h blk junk : list N) : bool :=
  match c_sha1_single big_fuel (le_words 4 blk) h junk with
  | Some r => if list_eq_dec N.eq_dec r (sha1_compress h blk) then true else false | None => false end.
Local Definition agree512 (h blk junk : list N) : bool :=
  match c_sha512_single big_fuel (le_words 8 blk) h junk with
  | Some r => if list_eq_dec N.eq_dec r (sha512_compress h blk) then true else false | None => false end.
Local Definition agree5 (h blk : list N) : bool :=
  match c_md5_single big_fuel (le_words 4 blk) h with
  | Some r => if list_eq_dec N.eq_dec r (md5_compress h blk) then true else false | None => false end.

(* FIPS 180-4 "abc" through the translated sha256_single = the standard digest *)
Example C01_kernel_sha256_abc :
  c_sha256_single big_fuel (le_words 4 abc64) sha256_iv [] =
  Some [0xba7816bf; 0x8f01cfea; 0x414140de; 0x5dae2223; 0xb00361a3; 0x96177a9c; 0xb410ff61; 0xf20015ad].
Proof. vm_compute. reflexivity. Qed.
Print Assumptions C01_kernel_sha256_abc.

Example C01_kernel_sha1_abc :
  c_sha1_single big_fuel (le_words 4 abc64) sha1_iv [7; 7] =
  Some [0xa9993e36; 0x4706816a; 0xba3e2571; 0x7850c26c; 0x9cd0d89d].
Proof. vm_compute. reflexivity. Qed.
Print Assumptions C01_kernel_sha1_abc.

Example C01_kernel_sha512_abc :
  c_sha512_single big_fuel (le_words 8 abc128) sha512_iv [] =
  Some [0xddaf35a193617aba; 0xcc417349ae204131; 0x12e6fa4e89a97ea2; 0x0a9eeee64b55d39a;
        0x2192992a274fc1a8; 0x36ba3c23a3feebbd; 0x454d4423643ce80e; 0x2a9ac94fa54ca49f].
Proof. vm_compute. reflexivity. Qed.
Print Assumptions C01_kernel_sha512_abc.

Example C01_kernel_md5_abc :
  c_md5_single big_fuel (le_words 4 abc64le) md5_iv = Some (md5_compress md5_iv abc64le).
Proof. vm_compute. reflexivity. Qed.
Print Assumptions C01_kernel_md5_abc.

(* translated = specification on edge and pattern blocks, with different junk in w[] *)
Example C01_kernel_agree_blocks :
  forallb (fun b => b)
    [agree256 sha256_iv (pat_from 64 3) [1; 2; 3]; agree256 (repeat 0xffffffff 8) (repeat 0xff 64) [];
     agree256 (repeat 0 8) (repeat 0 64) (repeat 0xffffffff 16);
     agree1 sha1_iv (pat_from 64 3) []; agree1 (repeat 0xffffffff 5) (repeat 0xff 64) [9];
     agree512 sha512_iv (pat_from 128 3) []; agree512 (repeat 0xffffffffffffffff 8) (repeat 0xff 128) [5];
     agree5 md5_iv (pat_from 64 3); agree5 (repeat 0xffffffff 4) (repeat 0xff 64)] = true.
Proof. vm_compute. reflexivity. Qed.
Print Assumptions C01_kernel_agree_blocks.

(* too little fuel is an error, never a wrong digest *)
Example C01_kernel_out_of_fuel : c_sha256_single 100 (le_words 4 abc64) sha256_iv [] = None.
Proof. vm_compute. reflexivity. Qed.
