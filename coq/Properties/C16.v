(* C16 — invalid arguments are refused without side effects; legacy and isal_ APIs agree.
   Only statements, each closed by an already-proved lemma (Proofs/MiniCVerdicts.v, whose
   obligations run the verified checker of Model/MiniCCheck.v on the wrapper bodies
   regenerated from the current tree, Gen/WrappersGen.v = -DSAFE_PARAM, no FIPS_MODE).

   Reading guide.  `run table w d` is the big-step result (return value, trace of reads /
   writes / internal calls) of the translated body d in the world w; a world assigns a value
   to every argument (KArg i; pointers: 0 = NULL) and to every other observation.  All
   theorems quantify over ALL worlds: every NULL / non-NULL combination, every scalar value.
   specs (Spec/WrapperSpec.v) says per entry point when a parameter must / may be refused and
   with which documented codes.  known16 lists the entry points with a confirmed, reported
   defect (fixes/): the theorems cover every other entry point. *)
From Coq Require Import NArith List.
From ISAL Require Import Model.MiniC Model.MiniCCheck Model.MiniCInst Gen.WrappersGen Spec.WrapperSpec
  Proofs.MiniCSound Proofs.MiniCVerdicts.
Import ListNotations.

(* every isal_ symbol exported by the built library has exactly one specification row *)
Theorem C16_every_entry_specified : covers specs entries = true.
Proof. exact verdict_covers. Qed.
Print Assumptions C16_every_entry_specified.

(* an argument that must be refused (missing required pointer, out-of-domain length / tag
   length / window): the call returns a non-zero code documented for an offending parameter
   and its trace contains no read, no write and no call — whatever the other arguments are *)
Theorem C16_offending_refused : forall (e : espec) (d : fundef) (w : world),
  In e specs -> listed known16 e = false -> is_neutral e = false ->
  ftab_get WrappersGen.table (e_id e) = Some d ->
  must_refuse w e -> refusal e w (run WrappersGen.table w d).
Proof. intros e d w He Hk Hn Hd. exact (f16_refuses e He d Hd Hk Hn w). Qed.
Print Assumptions C16_offending_refused.

(* every argument inside the documented domain: exactly one internal call with the arguments
   passed through unchanged and the documented result (0; or the internal function's result;
   or for hash submit the mapping of the handed-back context's error) *)
Theorem C16_in_domain_served : forall (e : espec) (d : fundef) (w : world),
  In e specs -> listed known16 e = false -> is_neutral e = false ->
  ftab_get WrappersGen.table (e_id e) = Some d ->
  ~ may_refuse w e -> ~ must_refuse w e -> service e w (run WrappersGen.table w d).
Proof. intros e d w He Hk Hn Hd. exact (f16_serves e He d Hd Hk Hn w). Qed.
Print Assumptions C16_in_domain_served.

(* in every world the call is either refused that way or served that way: no third behaviour *)
Theorem C16_refused_or_served : forall (e : espec) (d : fundef) (w : world),
  In e specs -> listed known16 e = false -> is_neutral e = false ->
  ftab_get WrappersGen.table (e_id e) = Some d ->
  refusal e w (run WrappersGen.table w d) \/ service e w (run WrappersGen.table w d).
Proof. intros e d w He Hk Hn Hd. exact (f16_total e He d Hd Hk Hn w). Qed.
Print Assumptions C16_refused_or_served.

(* each deprecated entry point takes no decision at all: it is a single call of the same
   internal symbol its isal_ counterpart reaches, with its own arguments passed through in
   order (no entry point is excluded here) *)
Theorem C16_legacy_same_call : forall (e : espec) (l : N),
  In e specs -> In l (e_legacy e) -> sh_inline (e_shape e) = false ->
  exists d r, ftab_get WrappersGen.table l = Some d /\
    entry_tree WrappersGen.table d = Leaf r [EvCall (sh_callee (e_shape e)) (arg_keys 0 (f_params d))] /\
    length (f_params d) = length (sh_args (e_shape e)).
Proof. intros e l He. exact (f16_legacy e He l). Qed.
Print Assumptions C16_legacy_same_call.

(* non-vacuity: isal_aes_gcm_enc_128 with in = NULL and len = 16 meets the hypotheses of
   C16_offending_refused and returns ISAL_CRYPTO_ERR_NULL_SRC with a quiet trace (no read, write or call); with valid
   arguments it meets those of C16_in_domain_served and reaches _aes_gcm_enc_128 *)
Example C16_nonvacuous :
  In e_gcm specs /\ listed known16 e_gcm = false /\ is_neutral e_gcm = false /\
  ftab_get WrappersGen.table (e_id e_gcm) = Some WrappersGen.fn_isal_aes_gcm_enc_128 /\
  must_refuse w_null_src e_gcm /\
  (exists tr, run WrappersGen.table w_null_src WrappersGen.fn_isal_aes_gcm_enc_128 = Leaf (Some (SConst NULL_SRC)) tr /\
              quiet tr = true) /\
  ~ may_refuse w_good e_gcm /\
  (exists tr, run WrappersGen.table w_good WrappersGen.fn_isal_aes_gcm_enc_128 = Leaf (Some (SConst 0)) tr /\
              no_enter tr = [EvCall id_u_aes_gcm_enc_128 (map arg [0;1;2;3;4;5;6;7;8;9])]%N).
Proof. exact nonvac16. Qed.
