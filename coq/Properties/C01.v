(* C01 — multi-buffer hash digests equal the standard hash for every submission history.
   This file contains only statements, each closed by an already-proved lemma.

   Reading guide.  [A : algo] is the algorithm record (Spec/MD.v; SHA-1, SHA-256, SHA-512,
   MD5, SM3 are instances, each validated by the standards' vectors), [K >= 1] how many jobs
   the manager can take before it must hand one back, [sched] an ARBITRARY scheduling oracle
   (every family's lane scheduler is one; the theorems hold for all), [junk] the arbitrary
   memory contents of the contexts before isal_hash_ctx_init, [ops] any list of
   Submit cid buf flags / Flush calls (any flags, valid or not; any lengths; any
   interleaving).  [run_obs] is the observed trace of the L1 model Model/HashCtx.v (per
   call: the context handed back, its status, error, total_length, digest, and the return
   code of the isal_ entry point); [stream_of r t] the concatenation of the buffers accepted
   for context r since its last accepted FIRST along trace t (accepted = return code 0). *)
From Coq Require Import NArith List Arith.
From ISAL Require Import Base.Words Base.ListUtil Spec.MD Spec.SHA1 Spec.SHA256 Spec.SHA512 Spec.MD5 Spec.SM3
  Spec.HashApiSpec Model.HashCtx Model.HashObs
  Proofs.HashPadFacts Proofs.HashSpecFacts Proofs.HashRefine Proofs.HashProps Proofs.HashInst Proofs.HashExamples.
Import ListNotations.

(* the well-formedness of an algorithm record, and the histories quantified over *)
Example C01_algo_wf_instances :
  algo_wf sha1_algo /\ algo_wf sha256_algo /\ algo_wf sha512_algo /\ algo_wf md5_algo /\ algo_wf sm3_algo.
Proof. exact (conj sha1_wf (conj sha256_wf (conj sha512_wf (conj md5_wf sm3_wf)))). Qed.

(* hash_pad emits the final blocks of the Merkle–Damgård padding *)
Theorem C01_hash_pad_spec : forall (A : algo), algo_wf A -> forall (pbuf : list N) (n : nat),
  length pbuf = 2 * B A -> (N.of_nat n < 2 ^ 61)%N ->
  let '(buf, nblk) := hash_pad A pbuf (N.of_nat n) in
  length buf = 2 * B A /\
  firstn (nblk * B A) buf = firstn (n mod B A) pbuf ++ md_pad A n /\
  nblk * B A = n mod B A + length (md_pad A n).
Proof. exact hash_pad_spec. Qed.
Print Assumptions C01_hash_pad_spec.

Theorem C01_hash_pad_blocks : forall (A : algo), algo_wf A -> forall (pbuf pre tail : list N),
  length pbuf = 2 * B A -> (N.of_nat (length (pre ++ tail)) < 2 ^ 61)%N ->
  (exists k, length pre = k * B A) -> length tail < B A -> firstn (length tail) pbuf = tail ->
  let '(buf, nblk) := hash_pad A pbuf (N.of_nat (length (pre ++ tail))) in
  md_blocks A (pre ++ tail) = chunks (B A) pre ++ chunks (B A) (firstn (nblk * B A) buf).
Proof. exact hash_pad_blocks. Qed.
Print Assumptions C01_hash_pad_blocks.

(* the model refines the L0 trace acceptor; no loop runs out of fuel.  [bounded] = every
   stream the acceptor tracks along the trace stays below 2^61 bytes *)
Theorem C01_model_refines_spec : forall (A : algo), algo_wf A ->
  forall (K : nat) (sched : nat -> list nat -> option nat) (junk : list ctx) (ops : list op),
  wf_history A K junk ops ->
  exists tr, run_obs A K sched (model_init A junk) ops = Some tr /\
    (bounded (spec_init (length junk)) tr -> accepts A K (spec_init (length junk)) tr = true).
Proof. exact hash_refines. Qed.
Print Assumptions C01_model_refines_spec.

(* the acceptor's lane bound may be any K' >= K (the checks use lanes + 1) *)
Theorem C01_model_refines_spec_any_bound : forall (A : algo), algo_wf A ->
  forall (K : nat) (sched : nat -> list nat -> option nat) (junk : list ctx) (ops : list op) (K' : nat),
  wf_history A K junk ops -> K <= K' ->
  exists tr, run_obs A K sched (model_init A junk) ops = Some tr /\
    (bounded (spec_init (length junk)) tr -> accepts A K' (spec_init (length junk)) tr = true).
Proof. exact hash_refines_any_bound. Qed.
Print Assumptions C01_model_refines_spec_any_bound.

(* the same with a purely syntactic bound: all bytes ever submitted in the history < 2^61 *)
Theorem C01_model_refines_spec_bytes : forall (A : algo), algo_wf A ->
  forall (K : nat) (sched : nat -> list nat -> option nat) (junk : list ctx) (ops : list op),
  wf_history A K junk ops -> (N.of_nat (ops_bytes ops) < 2 ^ 61)%N ->
  exists tr, run_obs A K sched (model_init A junk) ops = Some tr /\
             accepts A K (spec_init (length junk)) tr = true.
Proof. exact hash_refines_bytes. Qed.
Print Assumptions C01_model_refines_spec_bytes.

(* a context handed back COMPLETE by a call that succeeded carries the standard hash of the
   concatenation of the buffers accepted for it since its last FIRST *)
Theorem C01_mb_digest_correct : forall (A : algo), algo_wf A ->
  forall (K : nat) (sched : nat -> list nat -> option nat) (junk : list ctx) (ops : list op)
         (tr : list (call * obs)),
  wf_history A K junk ops ->
  run_obs A K sched (model_init A junk) ops = Some tr -> bounded (spec_init (length junk)) tr ->
  forall t1 c o t2 r, tr = t1 ++ (c, o) :: t2 ->
    o_ret o = Some r -> o_rc o = 0%N -> o_status o = STS_COMPLETE ->
    o_digest o = md_hash A (stream_of r (t1 ++ [(c, o)])).
Proof. exact c01_digest. Qed.
Print Assumptions C01_mb_digest_correct.

(* a context restarted with FIRST/ENTIRE: the digest is a function of the calls from the
   restart on — nothing before it (earlier streams, junk) enters *)
Theorem C01_ctx_reuse : forall (A : algo), algo_wf A ->
  forall (K : nat) (sched : nat -> list nat -> option nat) (junk : list ctx) (ops : list op)
         (tr : list (call * obs)),
  wf_history A K junk ops ->
  run_obs A K sched (model_init A junk) ops = Some tr -> bounded (spec_init (length junk)) tr ->
  forall t1 buf flags o1 t2 c o t3 r,
    tr = t1 ++ (CSubmit r buf flags, o1) :: t2 ++ (c, o) :: t3 ->
    flag_first flags = true -> o_rc o1 = 0%N ->
    o_ret o = Some r -> o_rc o = 0%N -> o_status o = STS_COMPLETE ->
    o_digest o = md_hash A (stream_of r ((CSubmit r buf flags, o1) :: t2 ++ [(c, o)])).
Proof. exact c01_reuse. Qed.
Print Assumptions C01_ctx_reuse.

(* the five algorithms of the library *)
Definition C01_statement (A : algo) : Prop :=
  forall (K : nat) (sched : nat -> list nat -> option nat) (junk : list ctx) (ops : list op)
         (tr : list (call * obs)),
  wf_history A K junk ops ->
  run_obs A K sched (model_init A junk) ops = Some tr -> bounded (spec_init (length junk)) tr ->
  forall t1 c o t2 r, tr = t1 ++ (c, o) :: t2 ->
    o_ret o = Some r -> o_rc o = 0%N -> o_status o = STS_COMPLETE ->
    o_digest o = md_hash A (stream_of r (t1 ++ [(c, o)])).

Theorem C01_sha1 : C01_statement sha1_algo.     Proof. exact (c01_digest sha1_algo sha1_wf). Qed.
Theorem C01_sha256 : C01_statement sha256_algo. Proof. exact (c01_digest sha256_algo sha256_wf). Qed.
Theorem C01_sha512 : C01_statement sha512_algo. Proof. exact (c01_digest sha512_algo sha512_wf). Qed.
Theorem C01_md5 : C01_statement md5_algo.       Proof. exact (c01_digest md5_algo md5_wf). Qed.
Theorem C01_sm3 : C01_statement sm3_algo.       Proof. exact (c01_digest sm3_algo sm3_wf). Qed.
Print Assumptions C01_sha1.
Print Assumptions C01_sha256.
Print Assumptions C01_sha512.
Print Assumptions C01_md5.
Print Assumptions C01_sm3.

(* non-vacuity: three contexts with junk memory interleaved on a manager with K = 2 — an
   unaligned FIRST (2 bytes), a 1-byte UPDATE, empty LASTs (one needing two padding blocks),
   three rejected calls, a reused context — meet the hypotheses and produce, with the real
   SHA-256 compression function, the FIPS 180-4 digests of "abc" (three times, by three
   different segmentations) and of the 56-byte vector *)
Example C01_nonvacuous_hypotheses :
  wf_history sha256_algo 2 [ex_junk; ex_junk; ex_junk] ex_ops /\ (N.of_nat (ops_bytes ex_ops) < 2 ^ 61)%N.
Proof. exact (conj ex_wf ex_bytes). Qed.

Local Open Scope N_scope.
Example C01_nonvacuous_trace :
  option_map (map ex_view)
    (run_obs sha256_algo 2 ex_sched (model_init sha256_algo [ex_junk; ex_junk; ex_junk]) ex_ops) =
  Some [(Some 0%nat, 0, 0, sha256_iv);       (None, 0, 0, []);
        (Some 0%nat, 0, 0, sha256_iv);       (Some 2%nat, 0, 0, sha256_iv);
        (Some 1%nat, 5, 2012, sha256_iv);    (Some 1%nat, 4, 0, sha256_abc);
        (Some 0%nat, 4, 0, sha256_abc);      (Some 2%nat, 5, 2011, sha256_iv);
        (Some 2%nat, 4, 0, sha256_msg56);    (None, 0, 0, []);
        (Some 1%nat, 4, 2013, sha256_abc);   (None, 0, 0, []);
        (Some 1%nat, 4, 0, sha256_abc)].
Proof. vm_compute. reflexivity. Qed.

Example C01_nonvacuous_kat :
  sha256_abc = md_hash sha256_algo [97; 98; 99] /\
  sha256_abc = [0xba7816bf; 0x8f01cfea; 0x414140de; 0x5dae2223; 0xb00361a3; 0x96177a9c; 0xb410ff61; 0xf20015ad] /\
  sha256_msg56 = md_hash sha256_algo ex_msg56.
Proof. vm_compute. repeat split; reflexivity. Qed.

(* the acceptor is not vacuous: the trace of the example is accepted, and the same trace with
   one digest word of one completed context changed, or with a context handed back twice,
   is not *)
Definition tamper_digest (co : call * obs) : call * obs :=
  (fst co, {| o_ret := o_ret (snd co); o_status := o_status (snd co); o_error := o_error (snd co);
              o_total := o_total (snd co); o_digest := 1 :: tl (o_digest (snd co)); o_rc := o_rc (snd co) |}).
Example C01_acceptor_discriminates :
  match run_obs sha256_algo 2 ex_sched (model_init sha256_algo [ex_junk; ex_junk; ex_junk]) ex_ops with
  | Some tr =>
      accepts sha256_algo 2 (spec_init 3) tr = true /\
      accepts sha256_algo 2 (spec_init 3) (firstn 5 tr ++ map tamper_digest (firstn 1 (skipn 5 tr)) ++ skipn 6 tr) = false /\
      accepts sha256_algo 2 (spec_init 3) (firstn 6 tr ++ firstn 1 (skipn 5 tr) ++ skipn 6 tr) = false
  | None => False
  end.
Proof. vm_compute. repeat split; reflexivity. Qed.
