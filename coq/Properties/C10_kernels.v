(* C10, kernel level (ckernels vertical, docs/ckernels.md): the murmur3 compute kernels of
   mh_sha1_murmur3_x64_128/murmur3_x64_128_internal.c, translated from the current source on every
   run (tr/ckernel.py -> Gen/CKernelGen.v), equal Spec/Murmur3.v FOR ALL INPUTS.
   c_murmur3_block / c_murmur3_tail are the translated C functions run by the interpreter of
   Model/CKernel.v; an answer Some _ also means: no out-of-bounds access, no shift >= width, no
   uninitialised scalar read.  Statements only. *)
From Coq Require Import String Ascii.
From Coq Require Import NArith List.
From ISAL Require Import Base.Words Base.ListUtil Spec.Murmur3 Model.CKernel Gen.CKernelGen
  Model.CKernelMurmur Proofs.CKernelMurmur.
Import ListNotations.
Local Open Scope N_scope.

(* _murmur3_x64_128_block over nb whole 16-byte blocks (read through uint64_t loads, little
   endian) = the fold of the specification's block step.  nb < 2^31: the C indexes with the
   32-bit product i * 2. *)
Theorem C10_kernel_murmur_block : forall (data : list N) (nb : nat) (h1 h2 : N),
  length data = (16 * nb)%nat -> N.of_nat nb < 2 ^ 31 -> h1 < 2 ^ 64 -> h2 < 2 ^ 64 ->
  exists F0, forall fuel, (F0 <= fuel)%nat ->
    c_murmur3_block fuel (le_words 8 data) (N.of_nat nb) [h1; h2] =
    Some (let h := fold_left mur_body (chunks 16 data) (h1, h2) in [fst h; snd h]).
Proof. exact ck_murmur_block_eq. Qed.
Print Assumptions C10_kernel_murmur_block.

(* _murmur3_x64_128_tail: all 16 residues of the length, every 32-bit total length, whatever the
   uninitialised union held *)
Theorem C10_kernel_murmur_tail : forall (tail : list N) (total_len h1 h2 : N) (junk : list N),
  total_len < 2 ^ 32 -> length tail = N.to_nat (total_len mod 16) -> h1 < 2 ^ 64 -> h2 < 2 ^ 64 ->
  exists F0, forall fuel, (F0 <= fuel)%nat ->
    c_murmur3_tail fuel tail total_len [h1; h2] junk =
    Some (let t := mur_tail (h1, h2) tail total_len in [fst t; snd t]).
Proof. exact ck_murmur_tail_eq. Qed.
Print Assumptions C10_kernel_murmur_tail.

(* both kernels composed as the library composes them = murmur3_x64_128 *)
Theorem C10_kernel_murmur3_x64_128 : forall (seed : N) (msg junk : list N),
  N.of_nat (length msg) < 2 ^ 32 ->
  exists F0, forall fuel, (F0 <= fuel)%nat ->
    c_murmur3_x64_128 fuel seed msg junk =
    Some (let r := murmur3_x64_128 seed msg in [fst r; snd r]).
Proof. exact ck_murmur3_x64_128_eq. Qed.
Print Assumptions C10_kernel_murmur3_x64_128.

(* with any fuel the translated code either runs out of fuel or returns the right answer *)
Theorem C10_kernel_murmur3_any_fuel : forall (seed : N) (msg junk : list N),
  N.of_nat (length msg) < 2 ^ 32 ->
  forall fuel r, c_murmur3_x64_128 fuel seed msg junk = Some r ->
                 r = [fst (murmur3_x64_128 seed msg); snd (murmur3_x64_128 seed msg)].
Proof. exact ck_murmur3_x64_128_any_fuel. Qed.
Print Assumptions C10_kernel_murmur3_any_fuel.

(* ---- non-vacuity: known answers THROUGH the translated C ---- *)
Local Definition str (s : string) : list N := map N_of_ascii (list_ascii_of_string s).
Local Fixpoint pat_from (n : nat) (b : N) : list N :=
  match n with O => [] | S m => b :: pat_from m ((b + 7) mod 256) end.

(* the published vector of the reference implementation, seed 0: 2 whole blocks + 11 tail bytes *)
Example C10_kernel_kat_fox :
  c_murmur3_x64_128 (N.to_nat 100000) 0 (str "The quick brown fox jumps over the lazy dog") [1; 2; 3] =
  Some [0xe34bbc7bbc071b6c; 0x7a433ca9c49a9347].
Proof. vm_compute. reflexivity. Qed.

(* 1025 pattern bytes, seed 0x9747b28c (64 blocks and a 1-byte tail; value of the built library,
   see Spec/Murmur3.v mur_kat_s1_1025) *)
Example C10_kernel_kat_1025 :
  c_murmur3_x64_128 (N.to_nat 100000) 0x9747b28c (pat_from 1025 3) [] = Some [0x0d6638e3075e5e1a; 0xb1fc213e8de82267].
Proof. vm_compute. reflexivity. Qed.

(* too little fuel is an error, not a wrong digest *)
Example C10_kernel_out_of_fuel :
  c_murmur3_x64_128 40 0 (str "The quick brown fox jumps over the lazy dog") [] = None.
Proof. vm_compute. reflexivity. Qed.
