(* C01 (second file) — the BASE family of the multi-buffer hash API (the five
   <algo>_mb/<algo>_ctx_base.c files and their *_ctx_base_aliases.c forwarders) satisfies the
   same specification as the SIMD families: C01 (digests), C06 (hand-back discipline), C11
   (rejections), C15 (length accounting).  Statements only, each closed by a proved lemma.

   Reading guide.  [BA : base_alg] = an algorithm record [ba_algo BA] (Spec/MD.v) plus the two
   textual differences between the five files (to_le64 for MD5, the digest byte swap of SM3);
   [base_alg_ok BA] holds for the five instances (C01_base_instances).  The model is
   Model/HashBase.v: executable Gallina shaped like the C (submit with its three rejection
   tests and the error clearing, <algo>_init / _update / _final).  [junk] = arbitrary memory
   contents of any number of contexts before isal_hash_ctx_init (only the declared size of the
   partial block buffer is assumed: bctx_typed); [ops] = any list of Submit cid buf flags / Flush
   on existing contexts with any flags value that fits the C enum (bop_ok) - valid or
   rejected, any buffers, any interleaving.  [base_run_obs] is the observed trace (per call:
   context handed back, its status / error / total_length / digest, return code of the isal_
   wrapper), with the SAME observation record as Model/HashObs.v.  [bounded]: every stream the
   acceptor tracks is < 2^61 bytes (the standard's own limit for the 64-bit length field). *)
From Coq Require Import NArith List Arith.
From ISAL Require Import Base.Words Base.ListUtil Spec.MD Spec.SHA1 Spec.SHA256 Spec.SHA512 Spec.MD5 Spec.SM3
  Spec.HashApiSpec Model.HashCtx Model.HashObs Model.HashBase
  Proofs.HashPadFacts Proofs.HashSpecFacts Proofs.HashRefine Proofs.HashProps
  Proofs.HashBaseFacts Proofs.HashBaseGeneric Proofs.HashBaseSim Proofs.HashBaseRefine Proofs.HashBaseVariants.
Import ListNotations.

Example C01_base_instances :
  base_alg_ok sha1_base /\ base_alg_ok sha256_base /\ base_alg_ok sha512_base /\ base_alg_ok md5_base /\
  base_alg_ok sm3_base.
Proof. exact (conj sha1_base_ok (conj sha256_base_ok (conj sha512_base_ok (conj md5_base_ok sm3_base_ok)))). Qed.

(* (B1) the observed trace of the base model is accepted by the L0 acceptor with K = 1 *)
Theorem C01_base_refines_spec : forall (BA : base_alg), base_alg_ok BA ->
  forall (junk : list bctx) (ops : list op), base_history BA junk ops ->
  bounded (spec_init (length junk)) (base_run_obs BA (base_model_init junk) ops) ->
  accepts (ba_algo BA) 1 (spec_init (length junk)) (base_run_obs BA (base_model_init junk) ops) = true.
Proof. exact base_refines_spec. Qed.
Print Assumptions C01_base_refines_spec.

(* ... with a purely syntactic bound: all bytes ever submitted in the history < 2^61 *)
Theorem C01_base_refines_spec_bytes : forall (BA : base_alg), base_alg_ok BA ->
  forall (junk : list bctx) (ops : list op), base_history BA junk ops ->
  (N.of_nat (ops_bytes ops) < 2 ^ 61)%N ->
  accepts (ba_algo BA) 1 (spec_init (length junk)) (base_run_obs BA (base_model_init junk) ops) = true.
Proof. exact base_refines_spec_bytes. Qed.
Print Assumptions C01_base_refines_spec_bytes.

(* C01: a context handed back COMPLETE carries the standard hash of the buffers accepted for it
   since its last FIRST, whatever the segmentation *)
Theorem C01_base_digest_correct : forall (BA : base_alg), base_alg_ok BA ->
  forall (junk : list bctx) (ops : list op), base_history BA junk ops ->
  bounded (spec_init (length junk)) (base_run_obs BA (base_model_init junk) ops) ->
  forall t1 c o t2 r, base_run_obs BA (base_model_init junk) ops = t1 ++ (c, o) :: t2 ->
    o_ret o = Some r -> o_rc o = 0%N -> o_status o = STS_COMPLETE ->
    o_digest o = md_hash (ba_algo BA) (stream_of r (t1 ++ [(c, o)])).
Proof. exact base_c01_digest. Qed.
Print Assumptions C01_base_digest_correct.

(* C06: a submit always hands its own context back, flush returns NULL *)
Theorem C01_base_own_context : forall (BA : base_alg) (ops : list op) (s : bst) (c : call) (o : obs),
  In (c, o) (base_run_obs BA s ops) ->
  match c with CSubmit cid _ _ => o_ret o = Some cid | CFlush => o_ret o = None end.
Proof. exact base_c06_own_context. Qed.
Print Assumptions C01_base_own_context.

(* C06: never PROCESSING; COMPLETE after LAST / ENTIRE, IDLE after FIRST / UPDATE *)
Theorem C01_base_status_on_return : forall (BA : base_alg), base_alg_ok BA ->
  forall (junk : list bctx) (ops : list op), base_history BA junk ops ->
  forall t1 c o t2 r, base_run_obs BA (base_model_init junk) ops = t1 ++ (c, o) :: t2 ->
    o_ret o = Some r -> o_rc o = 0%N ->
    o_status o = (if last_of r (t1 ++ [(c, o)]) then STS_COMPLETE else STS_IDLE) /\
    N.land (o_status o) STS_PROCESSING = 0%N.
Proof. exact base_c06_status. Qed.
Print Assumptions C01_base_status_on_return.

(* C11: the three rejection tests, in order; a rejected submit changes only the error field
   (for EVERY context state, reachable or not) *)
Theorem C01_base_reject_frame : forall (BA : base_alg) (c : bctx) (buf : list N) (flags : N),
  (negb (N.land flags (N.lnot FLAG_ENTIRE 32) =? 0)%N = true ->
     base_submit BA c buf flags = bset_error c ERR_INVALID_FLAGS) /\
  (negb (N.land flags (N.lnot FLAG_ENTIRE 32) =? 0)%N = false ->
   (has (b_status c) STS_PROCESSING && (flags =? FLAG_ENTIRE)%N)%bool = true ->
     base_submit BA c buf flags = bset_error c ERR_ALREADY_PROCESSING) /\
  (negb (N.land flags (N.lnot FLAG_ENTIRE 32) =? 0)%N = false ->
   (has (b_status c) STS_PROCESSING && (flags =? FLAG_ENTIRE)%N)%bool = false ->
   (has (b_status c) STS_COMPLETE && negb (has flags FLAG_FIRST))%bool = true ->
     base_submit BA c buf flags = bset_error c ERR_ALREADY_COMPLETED).
Proof. exact base_reject_frame. Qed.
Print Assumptions C01_base_reject_frame.

Theorem C01_base_set_error_frame : forall (c : bctx) (e : N), let c' := bset_error c e in
  b_digest c' = b_digest c /\ b_status c' = b_status c /\ b_total c' = b_total c /\
  b_pbuf c' = b_pbuf c /\ b_plen c' = b_plen c /\ b_error c' = e.
Proof. exact bset_error_frame. Qed.
Print Assumptions C01_base_set_error_frame.

(* C11: every accepted submit hands the context back with error NONE (defect F3 repaired) *)
Theorem C01_base_accept_clears_error : forall (BA : base_alg) (c : bctx) (buf : list N) (flags : N),
  (flags < 2 ^ 32)%N ->
  negb (N.land flags (N.lnot FLAG_ENTIRE 32) =? 0)%N = false ->
  (has (b_status c) STS_PROCESSING && (flags =? FLAG_ENTIRE)%N)%bool = false ->
  (has (b_status c) STS_COMPLETE && negb (has flags FLAG_FIRST))%bool = false ->
  b_error (base_submit BA c buf flags) = ERR_NONE.
Proof. exact base_accept_clears_error. Qed.
Print Assumptions C01_base_accept_clears_error.

(* C11: a non-zero return code belongs to a submit handed straight back; nothing is pending *)
Theorem C01_base_rejected_straight_back : forall (BA : base_alg), base_alg_ok BA ->
  forall (junk : list bctx) (ops : list op), base_history BA junk ops ->
  forall t1 c o t2, base_run_obs BA (base_model_init junk) ops = t1 ++ (c, o) :: t2 -> o_rc o <> 0%N ->
    exists cid buf flags, c = CSubmit cid buf flags /\ o_ret o = Some cid /\ o_rc o = rc_of (o_error o) /\
                          pending (t1 ++ [(c, o)]) = pending t1.
Proof. exact base_c06_rejected_back. Qed.
Print Assumptions C01_base_rejected_straight_back.

(* C15: total_length is the exact sum of the accepted segment lengths (mod 2^64; no bound needed) *)
Theorem C01_base_total_length_exact : forall (BA : base_alg), base_alg_ok BA ->
  forall (junk : list bctx) (ops : list op), base_history BA junk ops ->
  forall t1 c o t2 r, base_run_obs BA (base_model_init junk) ops = t1 ++ (c, o) :: t2 ->
    o_ret o = Some r -> o_rc o = 0%N ->
    let n := N.of_nat (length (stream_of r (t1 ++ [(c, o)]))) in
    o_total o = (n mod 2 ^ 64)%N /\ ((n < 2 ^ 64)%N -> o_total o = n).
Proof. exact base_c15_total. Qed.
Print Assumptions C01_base_total_length_exact.

(* (B2) the buffer <algo>_final builds is the unhashed tail followed by the standard padding,
   one or two blocks, for every total < 2^61 (so also >= 2^29 and >= 2^32) *)
Theorem C01_base_final_pad_spec : forall (BA : base_alg), base_alg_ok BA -> forall (c : bctx) (n : nat),
  b_total c = N.of_nat n -> (N.of_nat n < 2 ^ 61)%N ->
  b_plen c = N.of_nat (n mod a_bsize (ba_algo BA)) -> length (b_pbuf c) = 2 * a_bsize (ba_algo BA) ->
  let '(buf, i2) := final_blocks BA lenval64 c in
  length buf = 2 * a_bsize (ba_algo BA) /\
  firstn (N.to_nat i2) buf = firstn (n mod a_bsize (ba_algo BA)) (b_pbuf c) ++ md_pad (ba_algo BA) n /\
  N.to_nat i2 = n mod a_bsize (ba_algo BA) + length (md_pad (ba_algo BA) n).
Proof. exact base_final_pad_spec. Qed.
Print Assumptions C01_base_final_pad_spec.

Theorem C01_base_final_pad_spec_N : forall (BA : base_alg), base_alg_ok BA -> forall (c : bctx),
  (b_total c < 2 ^ 61)%N ->
  b_plen c = (b_total c mod N.of_nat (a_bsize (ba_algo BA)))%N -> length (b_pbuf c) = 2 * a_bsize (ba_algo BA) ->
  let '(buf, i2) := final_blocks BA lenval64 c in
  length buf = 2 * a_bsize (ba_algo BA) /\
  firstn (N.to_nat i2) buf = firstn (N.to_nat (b_plen c)) (b_pbuf c) ++ md_pad_N (ba_algo BA) (b_total c) /\
  (i2 = N.of_nat (a_bsize (ba_algo BA)) \/ i2 = N.of_nat (2 * a_bsize (ba_algo BA))).
Proof. exact base_final_pad_spec_N. Qed.
Print Assumptions C01_base_final_pad_spec_N.

(* the contract of <algo>_update: with data = the p buffered bytes followed by the caller's buffer,
   every whole block of data is compressed in order (eat), the rest is left at the front of the
   partial block buffer *)
Theorem C01_base_update_spec : forall (BA : base_alg), base_alg_ok BA -> forall (c : bctx) (buf : list N) (p : nat),
  b_plen c = N.of_nat p -> p < a_bsize (ba_algo BA) -> length (b_pbuf c) = 2 * a_bsize (ba_algo BA) ->
  let data := firstn p (b_pbuf c) ++ buf in
  let k := length data / a_bsize (ba_algo BA) in
  let c' := base_update BA c buf in
  b_digest c' = eat (ba_algo BA) k (b_digest c) data /\
  b_plen c' = N.of_nat (length data mod a_bsize (ba_algo BA)) /\
  firstn (length data mod a_bsize (ba_algo BA)) (b_pbuf c') = skipn (k * a_bsize (ba_algo BA)) data /\
  length (b_pbuf c') = 2 * a_bsize (ba_algo BA) /\
  b_status c' = STS_IDLE /\ b_error c' = b_error c /\
  b_total c' = w64 (b_total c + N.of_nat (length buf)).
Proof. exact base_update_spec. Qed.
Print Assumptions C01_base_update_spec.

(* (B3) the base model and the generic context-layer model of Model/HashCtx.v with a one-job
   manager (K = 1, ANY scheduling oracle) produce the same observations on every history: the
   two models are interchangeable for the base family *)
Theorem C01_base_eq_generic : forall (BA : base_alg), base_alg_ok BA ->
  forall (sched : nat -> list nat -> option nat) (junk : list ctx) (ops : list op),
  Forall (ctx_typed (ba_algo BA)) junk -> Forall (bop_ok (length junk)) ops ->
  run_obs (ba_algo BA) 1 sched (model_init (ba_algo BA) junk) ops =
  Some (base_run_obs BA (base_model_init (map b_of_ctx junk)) ops).
Proof. exact base_eq_generic. Qed.
Print Assumptions C01_base_eq_generic.

(* (B4) sensitivity: the pre-fix sticky-error variant and the 32-bit high-length-word variant are refuted *)
Theorem C01_base_sticky_variant_refuted :
  exists BA junk ops, base_alg_ok BA /\ base_history BA junk ops /\
    let tr := base_run_obs_with BA (base_submit_sticky BA) (base_model_init junk) ops in
    bounded (spec_init (length junk)) tr /\
    accepts (ba_algo BA) 1 (spec_init (length junk)) tr = false /\
    map (fun co => o_rc (snd co)) tr = [0; 2011; 2011]%N.
Proof. exact base_sticky_refuted. Qed.
Print Assumptions C01_base_sticky_variant_refuted.

Theorem C01_base_narrow_variant_refuted :
  exists BA c, base_alg_ok BA /\ (b_total c < 2 ^ 61)%N /\
    b_plen c = (b_total c mod N.of_nat (a_bsize (ba_algo BA)))%N /\ length (b_pbuf c) = 2 * a_bsize (ba_algo BA) /\
    pad_view BA lenval_narrow c <> firstn (N.to_nat (b_plen c)) (b_pbuf c) ++ md_pad_N (ba_algo BA) (b_total c) /\
    b_digest (final_with BA lenval_narrow c) <> md_continue (ba_algo BA) (b_digest c) (firstn (N.to_nat (b_plen c)) (b_pbuf c)) (b_total c) /\
    b_digest (base_final BA c) = md_continue (ba_algo BA) (b_digest c) (firstn (N.to_nat (b_plen c)) (b_pbuf c)) (b_total c).
Proof. exact base_narrow_refuted. Qed.
Print Assumptions C01_base_narrow_variant_refuted.

(* ---- non-vacuity: concrete histories that meet the hypotheses ------------------------------ *)

(* junk context (partial length 77 > B), FIRST of nothing, a rejected submit, LAST "abc": accepted by
   the acceptor; error and return code back to 0 on the LAST; SHA-256("abc") *)
Example C01_base_example_abc :
  base_history sha256_base (exb_junk 64) exb_ops_sticky /\
  accepts sha256_algo 1 (spec_init 1) (base_run_obs sha256_base (base_model_init (exb_junk 64)) exb_ops_sticky) = true /\
  map (fun co => (o_error (snd co), o_rc (snd co), o_status (snd co)))
      (base_run_obs sha256_base (base_model_init (exb_junk 64)) exb_ops_sticky) =
    [(0, 0, 0); (1, 2011, 0); (0, 0, 4)]%N /\
  o_digest (snd (nth 2 (base_run_obs sha256_base (base_model_init (exb_junk 64)) exb_ops_sticky) (CFlush, base_obs_of sha256_base [] None 0))) =
    [0xba7816bf; 0x8f01cfea; 0x414140de; 0x5dae2223; 0xb00361a3; 0x96177a9c; 0xb410ff61; 0xf20015ad]%N.
Proof. exact (conj exb_history exb_fixed_accepted). Qed.

(* two contexts, SHA-1 / SM3 / SHA-512: unaligned FIRST, an UPDATE that completes the partial block
   and carries whole blocks, flush (NULL), a rejected UPDATE on a completed context, empty LAST,
   reuse by ENTIRE; the same 205-byte stream in two segmentations gives the same digest *)
Example C01_base_example_history :
  accepts sha1_algo 1 (spec_init 2) (base_run_obs sha1_base (base_model_init (exb_junk 64 ++ exb_junk 64)) exb_ops) = true /\
  accepts sm3_algo 1 (spec_init 2) (base_run_obs sm3_base (base_model_init (exb_junk 64 ++ exb_junk 64)) exb_ops) = true /\
  accepts sha512_algo 1 (spec_init 2) (base_run_obs sha512_base (base_model_init (exb_junk 128 ++ exb_junk 128)) exb_ops) = true /\
  map (fun co => (o_ret (snd co), o_status (snd co), o_error (snd co), o_total (snd co)))
      (base_run_obs sha1_base (base_model_init (exb_junk 64 ++ exb_junk 64)) exb_ops) =
    [(Some 0, 0%N, 0%N, 5%N); (Some 1, 4%N, 0%N, 3%N); (Some 0, 0%N, 0%N, 205%N); (None, 0%N, 0%N, 0%N);
     (Some 1, 4%N, 3%N, 3%N); (Some 0, 4%N, 0%N, 205%N); (Some 1, 4%N, 0%N, 205%N)] /\
  o_digest (snd (nth 5 (base_run_obs sha1_base (base_model_init (exb_junk 64 ++ exb_junk 64)) exb_ops) (CFlush, base_obs_of sha1_base [] None 0))) =
  md_hash sha1_algo (repeat 97%N 205) /\
  o_digest (snd (nth 6 (base_run_obs sha1_base (base_model_init (exb_junk 64 ++ exb_junk 64)) exb_ops) (CFlush, base_obs_of sha1_base [] None 0))) =
  md_hash sha1_algo (repeat 97%N 205).
Proof. exact exb_history_accepted. Qed.

(* (B2) / C15 at totals 2^29-1, 2^29, 2^32-1, 2^32, 2^32+2^29+5: big-endian, little-endian (MD5),
   128-bit field (SHA-512) *)
Example C01_base_example_pad :
  Forall (fun t => pad_view sha256_base lenval64 (exb_mid sha256_base t (repeat 7%N (N.to_nat (t mod 64)))) =
                   repeat 7%N (N.to_nat (t mod 64)) ++ md_pad_N sha256_algo t /\
                   pad_view md5_base lenval64 (exb_mid md5_base t (repeat 7%N (N.to_nat (t mod 64)))) =
                   repeat 7%N (N.to_nat (t mod 64)) ++ md_pad_N md5_algo t /\
                   pad_view sha512_base lenval64 (exb_mid sha512_base t (repeat 7%N (N.to_nat (t mod 128)))) =
                   repeat 7%N (N.to_nat (t mod 128)) ++ md_pad_N sha512_algo t)
         [536870911; 536870912; 4294967295; 4294967296; 4831838213]%N.
Proof. exact exb_pad_instances. Qed.
