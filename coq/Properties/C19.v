(* C19 — every entry point preserves the callee-saved machine state of the SysV ABI (static half).
   Statements only; each is closed by a lemma of Proofs/AbiCfg*.v.
   The objects under the theorems are the CFGs of abstract instructions regenerated from the BUILT
   objects of the library (Gen/AbiGen*.v, translator tr/abicfg.py); the semantics (gstep) is the
   instrumented reference semantics of Proofs/AbiCfgGpr.v, with its assumptions (A1)-(A3). *)
From Coq Require Import ZArith NArith PArith List Bool.
From ISAL Require Import Model.AbiCfg Proofs.AbiCfgFlow Proofs.AbiCfgVec Proofs.AbiCfgGpr
  Gen.AbiGenClaims Gen.AbiGenAll Proofs.AbiCfgAll.
Import ListNotations.
Local Open Scope Z_scope.

(* (a) the checker is sound: whatever CFG and claims table, if check_c19 accepts a function then
   every finite path from its entry (all branch outcomes, all values of clobbered registers, any
   number of loop iterations, calls behaving as their callee's claim says) that reaches a `ret`
   or a tail jump does so with rsp, rbx, rbp, r12-r15 holding their entry values (the `ret`
   then pops the return address), DF clear, and without having written MXCSR / the x87 control
   word or stored at or above the entry rsp *)
Theorem C19_abi_check_sound :
  forall (claims : positive -> claim) (R0 : nat -> Z) (callrel : positive -> cstate -> cstate -> Prop),
  (forall f c c', callrel f c c' -> call_ok (claims f) c c') ->
  forall f, check_c19 claims f = true ->
  forall c tm c', entry_state R0 c ->
  run cstate (gbstep R0 callrel) gcond (cfg_of f) 1%positive c tm c' ->
  (tm = TRet \/ tm = TTailInd \/ exists g, tm = TTail g) ->
  cv (cr c' RSP) = R0 RSP /\
  cv (cr c' 3) = R0 3%nat /\ cv (cr c' 5) = R0 5%nat /\ cv (cr c' 12) = R0 12%nat /\
  cv (cr c' 13) = R0 13%nat /\ cv (cr c' 14) = R0 14%nat /\ cv (cr c' 15) = R0 15%nat /\
  cdf c' = false /\ cbad c' = false.
Proof. exact abi_check_sound. Qed.
Print Assumptions C19_abi_check_sound.

(* (b) the same for an arbitrary claim (routines with a custom convention, called only from
   assembly): the claimed registers, rsp, DF, control words, frame *)
Theorem C19_claim_sound :
  forall (claims : positive -> claim) (R0 : nat -> Z) (callrel : positive -> cstate -> cstate -> Prop),
  (forall f c c', callrel f c c' -> call_ok (claims f) c c') ->
  forall f, check_gclaim claims f = true ->
  forall c tm c', entry_state R0 c ->
  run cstate (gbstep R0 callrel) gcond (cfg_of f) 1%positive c tm c' ->
  match tm with
  | TRet | TTail _ | TTailInd => restored_conc R0 (cl_pres (claims (fid f))) c'
  | TBad => False
  | _ => True
  end.
Proof. exact gclaim_sound. Qed.
Print Assumptions C19_claim_sound.

(* (c) the per-symbol obligations over the regenerated tables: the functions the checker does not
   accept are exactly c19_unproved (computed by vm_compute, shard by shard) *)
Theorem C19_table : failing chk19 all_funcs = c19_unproved.
Proof. exact c19_table. Qed.
Print Assumptions C19_table.

(* (d) hence, for every entry point of the library's assembly objects not listed there *)
Theorem C19_entry_points : forall f,
  In f all_funcs -> In (fid f) entry_ids -> ~ In (fid f) c19_unproved ->
  forall (R0 : nat -> Z) (callrel : positive -> cstate -> cstate -> Prop),
  (forall g c c', callrel g c c' -> call_ok (claims g) c c') ->
  forall c tm c', entry_state R0 c ->
  run cstate (gbstep R0 callrel) gcond (cfg_of f) 1%positive c tm c' ->
  (tm = TRet \/ tm = TTailInd \/ exists g, tm = TTail g) ->
  cv (cr c' RSP) = R0 RSP /\
  cv (cr c' 3) = R0 3%nat /\ cv (cr c' 5) = R0 5%nat /\ cv (cr c' 12) = R0 12%nat /\
  cv (cr c' 13) = R0 13%nat /\ cv (cr c' 14) = R0 14%nat /\ cv (cr c' 15) = R0 15%nat /\
  cdf c' = false /\ cbad c' = false.
Proof. exact c19_entry_points. Qed.
Print Assumptions C19_entry_points.

(* (e) and the callees with a custom convention keep the claim their callers were checked against *)
Theorem C19_internal_routines : forall f,
  In f all_funcs -> ~ In (fid f) c19_unproved ->
  forall (R0 : nat -> Z) (callrel : positive -> cstate -> cstate -> Prop),
  (forall g c c', callrel g c c' -> call_ok (claims g) c c') ->
  forall c c', entry_state R0 c ->
  run cstate (gbstep R0 callrel) gcond (cfg_of f) 1%positive c TRet c' ->
  restored_conc R0 (cl_pres (claims (fid f))) c'.
Proof. exact c19_internal. Qed.
Print Assumptions C19_internal_routines.

(* non-vacuity: push/pop and mov-[rsp+k] prologue/epilogue pairs with two exits are accepted; restoring
   r12 from the slot of r13 on one exit, a store above the frame, std without cld, an unbalanced
   stack are each rejected; an entry state exists; the tables are populated *)
Example C19_nonvacuous :
  check_c19 ex_claims ex_good = true /\ check_c19 ex_claims ex_good2 = true /\
  check_c19 ex_claims ex_bad = false /\ check_c19 ex_claims ex_bad_store = false /\
  check_c19 ex_claims ex_bad_df = false /\ check_c19 ex_claims ex_bad_rsp = false.
Proof. exact ex_c19. Qed.
(* the range extension: a counted loop of frame-relative indexed stores is accepted exactly when its bound
   keeps the stores below the saved registers; pointers swapped by xchg through a double buffer are accepted *)
Example C19_nonvacuous_ranges :
  check_c19 ex_claims ex_idx_good = true /\ check_c19 ex_claims ex_idx_bad = false /\
  check_c19 ex_claims ex_xchg_good = true.
Proof. exact ex_c19_ranges. Qed.
Example C19_entry_state_exists : exists c, entry_state (fun r => Z.of_nat r * 1000) c.
Proof. exact ex_entry_state. Qed.
Example C19_tables_populated : Nat.leb 300 (length all_funcs) = true /\ Nat.leb (length c19_unproved) 40 = true /\
  Nat.leb (length c14_unproved) 40 = true.
Proof. exact ex_tables. Qed.
