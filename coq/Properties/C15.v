(* C15 — hash length accounting stays exact across the 2^29- and 2^32-byte totals.
   Only statements, each closed by an already-proved lemma.

   The digest part of the property ("completes with the standard digest of the whole
   stream") is C01_mb_digest_correct, which quantifies over every stream below 2^61 bytes —
   so over totals >= 2^29, >= 2^32 and >= 2^32+2^29 at every residue modulo the block size;
   it is restated below.  The model keeps segment lengths as unbounded naturals and
   total_length modulo 2^64 (the C field is uint64_t); [hash_pad] has the exact index
   arithmetic of the C, with (total_len << 3) computed in 64 bits. *)
From Coq Require Import NArith List Arith.
From ISAL Require Import Base.Words Base.ListUtil Spec.MD Spec.SHA256 Spec.SHA512 Spec.MD5 Spec.HashApiSpec
  Model.HashCtx Model.HashObs Model.HashVariants
  Proofs.HashPadFacts Proofs.HashSpecFacts Proofs.HashRefine Proofs.HashProps Proofs.HashInst Proofs.HashExamples Proofs.HashCtxFacts Proofs.HashShift.
Import ListNotations.

(* the running total a context reports when it is handed back is the sum of the accepted
   segment lengths modulo 2^64 — exact while below 2^64.  No bound on the stream needed. *)
Theorem C15_total_length_exact : forall (A : algo), algo_wf A ->
  forall (K : nat) (sched : nat -> list nat -> option nat) (junk : list ctx) (ops : list op)
         (tr : list (call * obs)),
  wf_history A K junk ops -> run_obs A K sched (model_init A junk) ops = Some tr ->
  forall t1 c o t2 r, tr = t1 ++ (c, o) :: t2 -> o_ret o = Some r -> o_rc o = 0%N ->
    let n := N.of_nat (length (stream_of r (t1 ++ [(c, o)]))) in
    o_total o = (n mod 2 ^ 64)%N /\ ((n < 2 ^ 64)%N -> o_total o = n).
Proof. exact c15_total. Qed.
Print Assumptions C15_total_length_exact.

(* hash_pad, for every total below 2^61 bytes: one or two extra blocks, ending exactly at a
   block boundary with the length field holding the BIT length 8*total (a_lenbytes: 64-bit
   big-endian for SHA-1/SHA-256/SM3, little-endian for MD5, 128-bit big-endian for SHA-512),
   0x80 at offset total mod B *)
Theorem C15_pad_len_field : forall (A : algo), algo_wf A -> forall (pbuf : list N) (total : N),
  length pbuf = 2 * B A -> (total < 2 ^ 61)%N ->
  let '(buf, nblk) := hash_pad A pbuf total in
  let n := N.to_nat total in
  (nblk = 1 \/ nblk = 2) /\
  nblk * B A = n mod B A + 1 + padz A n + a_lenfld A /\
  firstn (a_lenfld A) (skipn (nblk * B A - a_lenfld A) buf) = a_lenbytes A (8 * total)%N /\
  nth (n mod B A) buf 0%N = 128%N.
Proof. exact pad_len_field. Qed.
Print Assumptions C15_pad_len_field.

(* the digest across the thresholds: C01 for streams of any length below 2^61 *)
Theorem C15_long_stream_digest : forall (A : algo), algo_wf A ->
  forall (K : nat) (sched : nat -> list nat -> option nat) (junk : list ctx) (ops : list op)
         (tr : list (call * obs)),
  wf_history A K junk ops ->
  run_obs A K sched (model_init A junk) ops = Some tr -> bounded (spec_init (length junk)) tr ->
  forall t1 c o t2 r, tr = t1 ++ (c, o) :: t2 ->
    o_ret o = Some r -> o_rc o = 0%N -> o_status o = STS_COMPLETE ->
    o_digest o = md_hash A (stream_of r (t1 ++ [(c, o)])).
Proof. exact c01_digest. Qed.
Print Assumptions C15_long_stream_digest.

(* the mid-stream forms the C15 tie uses (Model/HashObs.v) are the standard ones: the padding
   with the total as an N is md_pad; the standard hash of a stream whose whole-block prefix is
   folded into a chaining value is md_continue from it; and the acceptor instantiated with
   shift_algo (a context injected IDLE mid-stream) demands exactly that continuation *)
Theorem C15_md_pad_N_is_md_pad : forall (A : algo), algo_wf A -> forall n : nat,
  md_pad_N A (N.of_nat n) = md_pad A n.
Proof. exact md_pad_N_nat. Qed.
Print Assumptions C15_md_pad_N_is_md_pad.

Theorem C15_md_continue_is_md_hash : forall (A : algo), algo_wf A -> forall pre tail : list N,
  blockal A pre ->
  md_hash A (pre ++ tail) = md_continue A (chain A pre) tail (N.of_nat (length (pre ++ tail))).
Proof. exact md_continue_hash. Qed.
Print Assumptions C15_md_continue_is_md_hash.

Theorem C15_shift_algo_is_continuation : forall (A : algo), algo_wf A ->
  forall (ch : list N) (k : nat) (sg : list N),
  algo_wf (shift_algo A ch (N.of_nat (k * a_bsize A))) /\
  md_hash (shift_algo A ch (N.of_nat (k * a_bsize A))) sg =
  md_continue A ch sg (N.of_nat (k * a_bsize A + length sg)).
Proof. exact shift_algo_ok. Qed.
Print Assumptions C15_shift_algo_is_continuation.

(* the shifted acceptor is the real acceptor for streams with that whole-block prefix *)
Theorem C15_shift_algo_sound : forall (A : algo), algo_wf A -> forall (pre_msg tail : list N) (k : nat),
  length pre_msg = k * a_bsize A ->
  md_hash (shift_algo A (fold_left (a_compress A) (chunks (a_bsize A) pre_msg) (a_iv A))
                      (N.of_nat (length pre_msg))) tail =
  md_hash A (pre_msg ++ tail).
Proof. exact shift_algo_hash_prefix. Qed.
Print Assumptions C15_shift_algo_sound.

(* the theorem is sensitive to exactly the historical >512 MB bug: with (total << 3) computed
   in 32 bits the length field written for total = 2^29 is not the standard's *)
Theorem C15_narrow_variant_refuted :
  exists (A : algo) (pbuf : list N) (total : N),
    algo_wf A /\ length pbuf = 2 * B A /\ (total < 2 ^ 61)%N /\
    let '(buf, nblk) := hash_pad_narrow A pbuf total in
    firstn (a_lenfld A) (skipn (nblk * B A - a_lenfld A) buf) <> a_lenbytes A (8 * total)%N.
Proof. exact c15_narrow_refuted. Qed.
Print Assumptions C15_narrow_variant_refuted.

(* Examples on the pad function only (no data is hashed): totals 2^29-1, 2^29, 2^32-1, 2^32,
   2^32+2^29+5.  Number of extra blocks and the bytes of the length field. *)
Local Open Scope N_scope.
Example C15_pad_sha256 :
  map (pad_view sha256_algo (hash_pad sha256_algo)) [2 ^ 29 - 1; 2 ^ 29; 2 ^ 32 - 1; 2 ^ 32; 2 ^ 32 + 2 ^ 29 + 5] =
  [(2%nat, [0; 0; 0; 0; 0xff; 0xff; 0xff; 0xf8]);
   (1%nat, [0; 0; 0; 1; 0; 0; 0; 0]);
   (2%nat, [0; 0; 0; 7; 0xff; 0xff; 0xff; 0xf8]);
   (1%nat, [0; 0; 0; 8; 0; 0; 0; 0]);
   (1%nat, [0; 0; 0; 9; 0; 0; 0; 0x28])].
Proof. vm_compute. reflexivity. Qed.

Example C15_pad_md5_little_endian :
  map (pad_view md5_algo (hash_pad md5_algo)) [2 ^ 29 - 1; 2 ^ 29; 2 ^ 32 - 1; 2 ^ 32; 2 ^ 32 + 2 ^ 29 + 5] =
  [(2%nat, [0xf8; 0xff; 0xff; 0xff; 0; 0; 0; 0]);
   (1%nat, [0; 0; 0; 0; 1; 0; 0; 0]);
   (2%nat, [0xf8; 0xff; 0xff; 0xff; 7; 0; 0; 0]);
   (1%nat, [0; 0; 0; 0; 8; 0; 0; 0]);
   (1%nat, [0x28; 0; 0; 0; 9; 0; 0; 0])].
Proof. vm_compute. reflexivity. Qed.

Example C15_pad_sha512_128bit_field :
  map (pad_view sha512_algo (hash_pad sha512_algo)) [2 ^ 29 - 1; 2 ^ 29; 2 ^ 32 - 1; 2 ^ 32; 2 ^ 32 + 2 ^ 29 + 5] =
  [(2%nat, [0; 0; 0; 0; 0; 0; 0; 0; 0; 0; 0; 0; 0xff; 0xff; 0xff; 0xf8]);
   (1%nat, [0; 0; 0; 0; 0; 0; 0; 0; 0; 0; 0; 1; 0; 0; 0; 0]);
   (2%nat, [0; 0; 0; 0; 0; 0; 0; 0; 0; 0; 0; 7; 0xff; 0xff; 0xff; 0xf8]);
   (1%nat, [0; 0; 0; 0; 0; 0; 0; 0; 0; 0; 0; 8; 0; 0; 0; 0]);
   (1%nat, [0; 0; 0; 0; 0; 0; 0; 0; 0; 0; 0; 9; 0; 0; 0; 0x28])].
Proof. vm_compute. reflexivity. Qed.

(* the whole padded tail is the standard's padding (md_pad_N of Model/HashObs.v, the form the
   C15 tie uses) at these totals *)
Example C15_pad_is_standard_padding :
  forallb (fun total =>
    let '(buf, nblk) := hash_pad sha256_algo (repeat 170 128) total in
    if list_eq_dec N.eq_dec (firstn (nblk * 64) buf)
         (firstn (N.to_nat (total mod 64)) (repeat 170 128) ++ md_pad_N sha256_algo total)
    then true else false) [2 ^ 29 - 1; 2 ^ 29; 2 ^ 32 - 1; 2 ^ 32; 2 ^ 32 + 2 ^ 29 + 5] = true.
Proof. vm_compute. reflexivity. Qed.

Example C15_narrow_witness :
  pad_view sha256_algo (hash_pad_narrow sha256_algo) (2 ^ 29) = (1%nat, [0; 0; 0; 0; 0; 0; 0; 0]) /\
  pad_view sha256_algo (hash_pad sha256_algo) (2 ^ 29) = (1%nat, [0; 0; 0; 1; 0; 0; 0; 0]).
Proof. vm_compute. split; reflexivity. Qed.
