(* C02 — placeholder while the proofs are being written: KATs only *)
From Coq Require Import NArith List.
From ISAL Require Import Base.Words Base.ListUtil Spec.AES Spec.GF128 Spec.GCM Model.GcmStream.
Import ListNotations.

Example C02_kat_tc4 :
  gcm_oneshot_aes (key_expansion tc4_K) true tc4_IV tc4_A tc4_P 16 = (tc4_C, tc4_T).
Proof. vm_compute. reflexivity. Qed.
