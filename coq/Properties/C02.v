(* C02 — AES-GCM one-shot output equals NIST SP 800-38D for every length, AAD, tag size.
   Statements only, each closed by an already-proved lemma.

   What is proved: the L1 model of the one-shot entry points (Model/GcmStream.v:
   gcm_oneshot = GCM_INIT; GCM_ENC_DEC; GCM_COMPLETE, the partial-block machinery included)
   equals gcm_ae / gcm_ad of Spec/GCM.v (SP 800-38D 7.1 / 7.2, validated there by the
   standard's test cases) for every key of 16 or 32 bytes, every 12-byte IV, every AAD, every
   data length below 2^64 bytes and every tag length, under every block-deferral policy (the
   one point in which the four families differ).  The 32-bit counter wrap of inc32 is the
   standard's own (both sides wrap modulo 2^32; SP 800-38D allows at most 2^36 - 32 bytes).
   The tie of the model to the assembly is the correspondence run by checks/c02.py. *)
From Coq Require Import NArith List Arith.
From ISAL Require Import Base.Words Base.ListUtil Spec.AES Spec.GF128 Spec.GCM Model.GcmStream
  Proofs.GcmFacts Proofs.GcmStreamFacts Proofs.GcmInst Proofs.GcmAlgebra.
Import ListNotations.

(* encryption: (ciphertext, tag truncated to tag_len) of SP 800-38D *)
Theorem C02_oneshot_is_38D : forall (defer : nat -> bool) (k iv aad p : list N) (tag_len : nat),
  length k = 16 \/ length k = 32 -> length iv = 12 -> (N.of_nat (length p) < 2 ^ 64)%N ->
  let rks := key_expansion k in
  gcm_oneshot (cipher rks) (gcm_precomp (cipher rks)) defer true iv aad p tag_len =
  (fst (gcm_ae k iv aad p), firstn tag_len (snd (gcm_ae k iv aad p))).
Proof. exact c_oneshot_enc_is_38D. Qed.
Print Assumptions C02_oneshot_is_38D.

(* decryption of any ciphertext: (plaintext, tag over that ciphertext) of SP 800-38D *)
Theorem C02_oneshot_dec_is_38D : forall (defer : nat -> bool) (k iv aad c : list N) (tag_len : nat),
  length k = 16 \/ length k = 32 -> length iv = 12 -> (N.of_nat (length c) < 2 ^ 64)%N ->
  let rks := key_expansion k in
  gcm_oneshot (cipher rks) (gcm_precomp (cipher rks)) defer false iv aad c tag_len =
  (fst (gcm_ad k iv aad c), firstn tag_len (snd (gcm_ad k iv aad c))).
Proof. exact c_oneshot_dec_is_38D. Qed.
Print Assumptions C02_oneshot_dec_is_38D.

(* one-shot decryption of the ciphertext just produced returns the plaintext and the same tag *)
Theorem C02_dec_inverts_enc : forall (defer : nat -> bool) (k iv aad p : list N) (tag_len : nat),
  length k = 16 \/ length k = 32 -> length iv = 12 -> (N.of_nat (length p) < 2 ^ 64)%N ->
  let rks := key_expansion k in
  let '(c, t) := gcm_oneshot (cipher rks) (gcm_precomp (cipher rks)) defer true iv aad p tag_len in
  gcm_oneshot (cipher rks) (gcm_precomp (cipher rks)) defer false iv aad c tag_len = (p, t).
Proof. exact c_dec_inverts_enc. Qed.
Print Assumptions C02_dec_inverts_enc.

(* the same round trip at the level of the standard *)
Theorem C02_spec_ad_of_ae : forall (k iv aad p : list N),
  length k = 16 \/ length k = 32 -> length iv = 12 ->
  gcm_ad k iv aad (fst (gcm_ae k iv aad p)) = (p, snd (gcm_ae k iv aad p)).
Proof. exact c_ad_of_ae. Qed.
Print Assumptions C02_spec_ad_of_ae.

(* an all-zero AAD of any length leaves aad_hash = 0 after init: how the check evaluates
   the model for an AAD of 2^29 bytes without hashing it *)
Theorem C02_ghash_of_zeros : forall h n, ghash_blocks h (zeros 16) (zeros n) = zeros 16.
Proof. exact c_ghash_blocks_zeros. Qed.
Print Assumptions C02_ghash_of_zeros.

(* the algebra every family's GHASH evaluation relies on (deferred and aggregated reduction
   re-associate the same xor-sum): the field product of SP 800-38D Algorithm 1 is additive in
   each argument, for ALL numbers (no bound on x, y, h) *)
Theorem C02_gf128_mul_additive_l : forall x y h : N,
  gf128_mul (N.lxor x y) h = N.lxor (gf128_mul x h) (gf128_mul y h).
Proof. exact gf128_mul_add_l. Qed.
Print Assumptions C02_gf128_mul_additive_l.

Theorem C02_gf128_mul_additive_r : forall x h1 h2 : N,
  gf128_mul x (N.lxor h1 h2) = N.lxor (gf128_mul x h1) (gf128_mul x h2).
Proof. exact gf128_mul_add_r. Qed.
Print Assumptions C02_gf128_mul_additive_r.

(* hence the GHASH recurrence Y_i = (Y_(i-1) xor X_i) . H is additive in (state, data) and
   affine in the state, for every number of blocks *)
Theorem C02_ghash_additive : forall (h : N) (xs ys : list N) (y1 y2 : N), length xs = length ys ->
  ghashN h (N.lxor y1 y2) (map (fun p => N.lxor (fst p) (snd p)) (combine xs ys)) =
  N.lxor (ghashN h y1 xs) (ghashN h y2 ys).
Proof. exact ghashN_add_data. Qed.
Print Assumptions C02_ghash_additive.

Theorem C02_ghash_affine_in_state : forall (h : N) (xs : list N) (y d : N),
  ghashN h (N.lxor y d) xs = N.lxor (ghashN h y xs) (ghashN h d (map (fun _ => 0%N) xs)).
Proof. exact ghashN_affine. Qed.
Print Assumptions C02_ghash_affine_in_state.

(* non-vacuity: ghashN is the byte-level GHASH of the spec on test case 2 of the GCM
   specification, and the affine split is not trivial there (both summands non-zero) *)
Example C02_ghashN_is_ghash_tc2 :
  N_to_block (ghashN (block_to_N kat_H2) 0 [block_to_N kat_C2; be_to_N (N_to_be 8 0 ++ N_to_be 8 128)]) =
  ghash kat_H2 (kat_C2 ++ N_to_be 8 0 ++ N_to_be 8 128)
  /\ ghashN (block_to_N kat_H2) (block_to_N kat_C2) [0%N; 0%N] <> 0%N.
Proof. split; [vm_compute; reflexivity | vm_compute; discriminate]. Qed.

(* non-vacuity / known answers: the model on the vectors of the GCM specification and of
   gcm_vectors.h (128- and 256-bit keys, AAD, lengths 0, 16, 60, 64; tags 16, 12, 8; both
   deferral policies) *)
Example C02_kat_tc4 :
  gcm_oneshot_aes (key_expansion tc4_K) true tc4_IV tc4_A tc4_P 16 = (tc4_C, tc4_T).
Proof. vm_compute. reflexivity. Qed.

Example C02_kat_tc16_tag12_dec :
  gcm_oneshot_aes (key_expansion tc16_K) false tc16_IV tc16_A tc16_C 12 = (tc16_P, firstn 12 tc16_T).
Proof. vm_compute. reflexivity. Qed.

Example C02_kat_tc1_tc2_tc3_tc13_tc14_tc15 :
  (gcm_oneshot_aes (key_expansion tc1_K) true tc1_IV tc1_A tc1_P 16,
   gcm_oneshot_aes (key_expansion tc2_K) true tc2_IV tc2_A tc2_P 16,
   gcm_oneshot_aes_vaes (key_expansion tc3_K) true tc3_IV tc3_A tc3_P 16,
   gcm_oneshot_aes (key_expansion tc13_K) true tc13_IV tc13_A tc13_P 8,
   gcm_oneshot_aes (key_expansion tc14_K) true tc14_IV tc14_A tc14_P 16,
   gcm_oneshot_aes_vaes (key_expansion tc15_K) false tc15_IV tc15_A tc15_C 16) =
  ((tc1_C, tc1_T), (tc2_C, tc2_T), (tc3_C, tc3_T), (tc13_C, firstn 8 tc13_T), (tc14_C, tc14_T), (tc15_P, tc15_T)).
Proof. vm_compute. reflexivity. Qed.

Example C02_kat_repo_vectors :
  (gcm_oneshot_aes (key_expansion v1_K) true v1_IV v1_A v1_P 16,
   gcm_oneshot_aes (key_expansion v2_K) true v2_IV v2_A v2_P 16,
   gcm_oneshot_aes (key_expansion v3_K) true v3_IV v3_A v3_P 16,
   gcm_oneshot_aes (key_expansion v4_K) false v4_IV v4_A v4_C 16) =
  ((v1_C, v1_T), (v2_C, v2_T), (v3_C, v3_T), (v4_P, v4_T)).
Proof. vm_compute. reflexivity. Qed.

(* the hypotheses of the theorems are met by these instances *)
Example C02_nonvacuous :
  (length tc16_K = 16 \/ length tc16_K = 32) /\ length tc16_IV = 12 /\ (N.of_nat (length tc16_P) < 2 ^ 64)%N /\
  length tc16_P = 60 /\ length tc16_A = 20.
Proof. repeat split; try reflexivity. right. reflexivity. Qed.
