(* C13 — placeholder while the proofs are being written *)
From Coq Require Import NArith List.
From ISAL Require Import Model.MiniC Model.MiniCCheck Model.MiniCInst.
Example C13_placeholder : spec_covers = true.
Proof. vm_compute. reflexivity. Qed.
