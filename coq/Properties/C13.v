(* C13 — FIPS build fails closed.
   Only statements, each closed by an already-proved lemma (Proofs/MiniCVerdicts.v, whose
   obligations run the verified checker on the wrapper bodies regenerated from the current
   tree with -DFIPS_MODE -DSAFE_PARAM, Gen/WrappersFipsGen.v, including the translated body of
   isal_self_tests).

   Worlds: KStatus = what asm_check_self_tests_status returns (0 passed, 1 failed, anything
   else: not run); KExt aes_id 0 / KExt sha_id 0 = what _aes_self_tests / _sha_self_tests
   return; KArg i = the arguments; KMemcmp = what memcmp over the XTS key material observes.
   All theorems quantify over ALL worlds with otherwise-valid arguments (`valid`: no parameter
   is offending).  "work" = a store, a loop, or a call of any internal symbol other than the
   status check/set and the two self-test runs.  known13 lists the entry points with a
   confirmed, reported defect (fixes/): the theorems cover every other entry point. *)
From Coq Require Import NArith List.
From ISAL Require Import Model.MiniC Model.MiniCCheck Model.MiniCInst Gen.WrappersGen Gen.WrappersFipsGen
  Spec.WrapperSpec Proofs.MiniCSound Proofs.MiniCVerdicts Proofs.MiniCXts.
Import ListNotations.

(* self-tests failed: every approved entry point returns the self-test error (an XTS entry
   point may instead refuse identical keys), stores nothing and reaches no crypto symbol *)
Theorem C13_failed_blocks : forall (e : espec) (d : fundef) (w : world),
  In e specs -> listed known13 e = false -> e_class e = Approved ->
  ftab_get WrappersFipsGen.table (e_id e) = Some d ->
  valid e w -> w KStatus = 1%N ->
  exists r tr, run WrappersFipsGen.table w d = Leaf r tr /\ no_work aes_id sha_id tr = true /\
               (ret_is r ERR_SELF_TEST = true \/ ret_is r ERR_XTS_SAME_KEYS = true).
Proof. intros e d w He Hk Hc Hd. exact (f13_failed e He d Hd Hk Hc w). Qed.
Print Assumptions C13_failed_blocks.

(* no cryptographic work before the self-tests have run and passed: if the trace contains any
   work, then before it the status was consulted, it was not "failed", and either it was
   "passed" or both self-test runs happened before the work and both returned 0 *)
Theorem C13_no_work_before_self_tests : forall (e : espec) (d : fundef) (w : world),
  In e specs -> listed known13 e = false -> e_class e = Approved ->
  ftab_get WrappersFipsGen.table (e_id e) = Some d -> valid e w ->
  exists r tr, run WrappersFipsGen.table w d = Leaf r tr /\
    (no_work aes_id sha_id tr = false ->
     calls B_CHECK (before_work aes_id sha_id tr) = true /\ w KStatus <> 1%N /\
     (w KStatus = 0%N \/
      (calls aes_id (before_work aes_id sha_id tr) = true /\ calls sha_id (before_work aes_id sha_id tr) = true /\
       w (KExt aes_id 0) = 0%N /\ w (KExt sha_id 0) = 0%N))).
Proof. intros e d w He Hk Hc Hd. exact (f13_order e He d Hd Hk Hc w). Qed.
Print Assumptions C13_no_work_before_self_tests.

(* not run yet, and one of the two runs fails now: the call is blocked the same way *)
Theorem C13_failing_run_blocks : forall (e : espec) (d : fundef) (w : world),
  In e specs -> listed known13 e = false -> e_class e = Approved ->
  ftab_get WrappersFipsGen.table (e_id e) = Some d -> valid e w ->
  w KStatus <> 0%N -> w KStatus <> 1%N -> ~ (w (KExt aes_id 0) = 0%N /\ w (KExt sha_id 0) = 0%N) ->
  exists r tr, run WrappersFipsGen.table w d = Leaf r tr /\ no_work aes_id sha_id tr = true /\
               (ret_is r ERR_SELF_TEST = true \/ ret_is r ERR_XTS_SAME_KEYS = true).
Proof. intros e d w He Hk Hc Hd. exact (f13_failing_run e He d Hd Hk Hc w). Qed.
Print Assumptions C13_failing_run_blocks.

(* the gate is not vacuous: with a passed status the call goes through to the one internal
   symbol with the arguments passed through (or, XTS, the key pair is refused; or, where the
   internal symbol cannot take the in-domain arguments — CBC with len = 0 — 0 without work) *)
Theorem C13_passed_goes_through : forall (e : espec) (d : fundef) (w : world),
  In e specs -> listed known13 e = false -> e_class e = Approved ->
  ftab_get WrappersFipsGen.table (e_id e) = Some d -> valid e w -> w KStatus = 0%N ->
  exists r tr, run WrappersFipsGen.table w d = Leaf r tr /\
    (refused aes_id sha_id r tr = true \/ shape_ok (e_shape e) r (core aes_id sha_id tr) = true \/
     (eval_form w (e_pre e) = false /\ ret_is r 0%N = true /\ no_work aes_id sha_id tr = true)).
Proof. intros e d w He Hk Hc Hd. exact (f13_passed e He d Hd Hk Hc w). Qed.
Print Assumptions C13_passed_goes_through.

(* non-approved algorithms (MD5, SM3, multi-hash, rolling hash): the invalid-algorithm error
   and an empty trace in every world — any arguments, any status *)
Theorem C13_non_approved_refused : forall (e : espec) (d : fundef) (w : world),
  In e specs -> listed known13 e = false -> e_class e = NonApproved ->
  ftab_get WrappersFipsGen.table (e_id e) = Some d ->
  run WrappersFipsGen.table w d = Leaf (Some (SConst ERR_FIPS_INVALID_ALGO)) [].
Proof. intros e d w He Hk Hc Hd. exact (f13_nonapproved e He d Hd Hk Hc w). Qed.
Print Assumptions C13_non_approved_refused.

(* XTS: whenever the key material compares equal in the sense of the entry's specification
   (raw keys: the 16 / 32 key bytes; expanded encryption keys: the whole schedules; expanded
   decryption keys: the slots that hold the raw key — derived from key VALUES in
   Proofs/MiniCXts.v), the call returns ISAL_CRYPTO_ERR_XTS_SAME_KEYS and nothing at all was
   called, whatever the self-test status *)
Theorem C13_xts_same_keys_refused : forall (e : espec) (d : fundef) (w : world),
  In e specs -> listed known13 e = false -> e_class e = Approved ->
  ftab_get WrappersFipsGen.table (e_id e) = Some d -> valid e w ->
  eval_form w (e_samekey e) = true ->
  exists r tr, run WrappersFipsGen.table w d = Leaf r tr /\ ret_is r ERR_XTS_SAME_KEYS = true /\
               no_call aes_id sha_id tr = true.
Proof. intros e d w He Hk Hc Hd. exact (f13_same_keys e He d Hd Hk Hc w). Qed.
Print Assumptions C13_xts_same_keys_refused.

(* non-vacuity: isal_aes_cbc_dec_192 with valid arguments and a failed status returns the
   self-test error after the status check only; with status "not run" and a failing AES
   self-test it runs both tests, publishes the verdict and returns the self-test error *)
Example C13_nonvacuous :
  In e_cbc specs /\ listed known13 e_cbc = false /\ e_class e_cbc = Approved /\
  ftab_get WrappersFipsGen.table (e_id e_cbc) = Some WrappersFipsGen.fn_isal_aes_cbc_dec_192 /\
  valid e_cbc w_failed /\ w_failed KStatus = 1%N /\
  (exists tr, run WrappersFipsGen.table w_failed WrappersFipsGen.fn_isal_aes_cbc_dec_192 =
      Leaf (Some (SConst ERR_SELF_TEST)) tr /\
      no_work aes_id sha_id tr = true /\ calls B_CHECK tr = true /\ calls aes_id tr = false) /\
  valid e_cbc w_notrun_aes_fails /\
  (exists tr, run WrappersFipsGen.table w_notrun_aes_fails WrappersFipsGen.fn_isal_aes_cbc_dec_192 =
      Leaf (Some (SConst ERR_SELF_TEST)) tr /\
      no_work aes_id sha_id tr = true /\ calls B_CHECK tr = true /\ calls aes_id tr = true /\
      calls B_SET tr = true).
Proof. exact nonvac13. Qed.

(* ---- XTS: from key VALUES to the observations the specification is written in.
   mem i = the bytes behind pointer argument i (0: k2, the tweak key; 1: k1, the data key);
   mem_consistent: every memcmp observation of the world reports equality of those bytes. *)

(* raw keys (16 / 32 bytes) and expanded encryption keys (whole schedules): k1 = k2 *)
Theorem C13_xts_identical_raw_or_enc_expanded : forall (w : world) (mem : N -> list N) (n : N),
  mem_consistent w mem -> mem 0%N = mem 1%N -> eval_form w (mem_eq 0 0 n) = true.
Proof. exact xts_identical_bytes. Qed.
Print Assumptions C13_xts_identical_raw_or_enc_expanded.

(* expanded decryption keys, AES-128: k2 = an encryption schedule, k1 = the decryption schedule
   (Spec/AES.dec_schedule) of the same schedule => the observation isal_aes_xts_dec_128_expanded_key
   must refuse on *)
Theorem C13_xts_identical_dec_expanded_128 : forall (w : world) (mem : N -> list N) (rks : list (list N)),
  mem_consistent w mem -> length rks = 11 -> blocks16 rks -> blocks16 (AES.dec_schedule rks) ->
  mem 0%N = concat rks -> mem 1%N = concat (AES.dec_schedule rks) ->
  eval_form w (mem_eq 160 0 16) = true.
Proof. exact xts_dec_expanded_identical_128. Qed.
Print Assumptions C13_xts_identical_dec_expanded_128.

Theorem C13_xts_identical_dec_expanded_256 : forall (w : world) (mem : N -> list N) (rks : list (list N)),
  mem_consistent w mem -> length rks = 15 -> blocks16 rks -> blocks16 (AES.dec_schedule rks) ->
  mem 0%N = concat rks -> mem 1%N = concat (AES.dec_schedule rks) ->
  eval_form w (FAnd (mem_eq 224 0 16) (mem_eq 0 224 16)) = true.
Proof. exact xts_dec_expanded_identical_256. Qed.
Print Assumptions C13_xts_identical_dec_expanded_256.
