(* C03 — AES-XTS equals IEEE 1619 incl. ciphertext stealing; decryption inverts encryption;
   the expanded-key entry points agree with the raw-key ones; fewer than 16 bytes: nothing.
   This file contains only statements, each closed by an already-proved lemma.

   Vocabulary (Proofs/AesFacts.v, Proofs/XtsFacts.v; C03_vocabulary below unfolds it):
     bytes l        every element of l is < 256
     wfb l          l is a 16-byte block:           length l = 16 /\ bytes l
     wf_sched rks   every round key is a block:     Forall wfb rks
     len_sched rks  every round key has 16 elements
     valid_key k    length k is 16, 24 or 32  /\  bytes k
     xshape cs      cs = chunks 16 p for some p with length p >= 16: full blocks, the last one
                    possibly followed by a partial block of 1..15 bytes
   xts_enc k1 k2 tweak p (Spec/XTS.v) is IEEE 1619 with k1 = data key, k2 = tweak key;
   xts_enc_raw / xts_dec_raw / xts_enc_exp / xts_dec_exp (Model/Xts.v) model the library's entry
   points (raw keys; schedules as found in memory). *)
From Coq Require Import NArith List Arith Lia.
From ISAL Require Import Base.Words Base.ListUtil Spec.AES Spec.XTS Model.KeyExp Model.Xts Gen.AesCfgGen
  Proofs.AesFacts Proofs.XtsFacts Proofs.XtsCfgFacts Proofs.AesModesExamples.
Import ListNotations.
Local Open Scope N_scope.

Example C03_vocabulary :
  (forall l, wfb l <-> length l = 16%nat /\ Forall (fun b => b < 256) l) /\
  (forall k, valid_key k <-> valid_key_len (length k) = true /\ Forall (fun b => b < 256) k) /\
  (forall rks, wf_sched rks <-> Forall wfb rks).
Proof. exact (conj (fun l => iff_refl _) (conj (fun k => iff_refl _) (fun rks => iff_refl _))). Qed.

(* (a) InvCipher inverts Cipher, for every schedule of well-formed round keys of any length
   (FIPS-197 5.1 / 5.3) — in particular for KeyExpansion of every valid key *)
Theorem C03_inv_cipher_cipher : forall (rks : list (list N)) (blk : list N),
  wf_sched rks -> wfb blk -> inv_cipher rks (cipher rks blk) = blk.
Proof. exact c_inv_cipher_cipher. Qed.
Print Assumptions C03_inv_cipher_cipher.

Theorem C03_key_expansion_wf : forall k : list N,
  valid_key_len (length k) = true ->
  length (key_expansion k) = (length k / 4 + 7)%nat /\ len_sched (key_expansion k) /\
  (bytes k -> wf_sched (key_expansion k)).
Proof. exact key_expansion_facts. Qed.
Print Assumptions C03_key_expansion_wf.

Theorem C03_aes_dec_enc : forall k blk : list N,
  valid_key_len (length k) = true -> bytes k -> wfb blk -> aes_dec k (aes_enc k blk) = blk.
Proof. exact c_aes_dec_enc. Qed.
Print Assumptions C03_aes_dec_enc.

(* (b) FIPS-197 5.3.5: decrypting with the reversed, InvMixColumns-ed schedule (what aesdec
   based code and the documented expanded-key layout use) equals InvCipher *)
Theorem C03_eq_inv_cipher : forall (rks : list (list N)) (blk : list N),
  len_sched rks -> length blk = 16%nat -> eq_inv_cipher (dec_schedule rks) blk = inv_cipher rks blk.
Proof. exact c_eq_inv_cipher. Qed.
Print Assumptions C03_eq_inv_cipher.

(* (c) XTS decryption inverts XTS encryption for EVERY length >= 16, multiples of 16 or not *)
Theorem C03_xts_dec_enc : forall k1 k2 tweak p : list N,
  valid_key k1 -> valid_key k2 -> wfb tweak -> bytes p -> (16 <= length p)%nat ->
  xts_dec k1 k2 tweak (xts_enc k1 k2 tweak p) = p.
Proof. exact c_xts_dec_enc. Qed.
Print Assumptions C03_xts_dec_enc.

(* ... because decryption uses the tweaks of the last two blocks in swapped order *)
Theorem C03_xts_steal_swap : forall (rks : list (list N)) (t b tl : list N), (length tl < 16)%nat ->
  xts_dec_chunks rks t [b; tl] =
  let pp := xts_blk_dec rks (xts_mul_alpha t) b in
  xts_blk_dec rks t (tl ++ skipn (length tl) pp) ++ firstn (length tl) pp.
Proof. exact c_xts_steal_swap. Qed.
Print Assumptions C03_xts_steal_swap.

(* (d) the output is as long as the input *)
Theorem C03_xts_enc_length : forall k1 k2 tweak p : list N,
  valid_key k1 -> valid_key k2 -> wfb tweak -> bytes p -> (16 <= length p)%nat ->
  length (xts_enc k1 k2 tweak p) = length p.
Proof. exact c_xts_enc_length. Qed.
Print Assumptions C03_xts_enc_length.

Theorem C03_xts_dec_length : forall k1 k2 tweak c : list N,
  valid_key k1 -> valid_key k2 -> wfb tweak -> (16 <= length c)%nat ->
  length (xts_dec k1 k2 tweak c) = length c.
Proof. exact c_xts_dec_length. Qed.
Print Assumptions C03_xts_dec_length.

(* (e) the expanded-key entry points, given the schedules the key expansion writes
   (encryption schedule of k2; encryption resp. decryption schedule of k1), compute exactly
   what the raw-key entry points compute — for all inputs whatsoever *)
Theorem C03_xts_enc_expanded_eq_raw : forall k2 k1 tweak p : list N,
  xts_enc_exp (keyexp_enc k2) (keyexp_enc k1) tweak p = xts_enc_raw k2 k1 tweak p.
Proof. exact c_xts_enc_expanded_eq_raw. Qed.
Print Assumptions C03_xts_enc_expanded_eq_raw.

Theorem C03_xts_dec_expanded_eq_raw : forall k2 k1 tweak c : list N, length tweak = 16%nat ->
  xts_dec_exp (keyexp_enc k2) (keyexp_dec k1) tweak c = xts_dec_raw k2 k1 tweak c.
Proof. exact c_xts_dec_expanded_eq_raw. Qed.
Print Assumptions C03_xts_dec_expanded_eq_raw.

(* (f) fewer than 16 bytes: no entry point produces any output *)
Theorem C03_short_noop : forall k2 k1 ek2 ek1 dk1 tweak p : list N, (length p < 16)%nat ->
  xts_enc_raw k2 k1 tweak p = [] /\ xts_dec_raw k2 k1 tweak p = [] /\
  xts_enc_exp ek2 ek1 tweak p = [] /\ xts_dec_exp ek2 dk1 tweak p = [].
Proof. exact c_xts_short_noop. Qed.
Print Assumptions C03_short_noop.

(* ... and 16 is the minimum the header documents (constants regenerated from include/aes_xts.h) *)
Theorem C03_header_lengths : isal_aes_xts_min_len_src = 16 /\ isal_aes_xts_max_len_src = 2 ^ 24.
Proof. exact c_cfg_xts_min_len. Qed.
Print Assumptions C03_header_lengths.

(* (g) a data unit may be evaluated in windows: full blocks first, then the rest with the tweak
   advanced by one multiplication by alpha per block (used by the check for 2^24-byte units) *)
Theorem C03_xts_enc_chunks_app : forall (rks : list (list N)) (t : list N) (cs1 cs2 : list (list N)),
  len_sched rks -> Forall (fun b => length b = 16%nat) cs1 -> xshape cs2 ->
  xts_enc_chunks rks t (cs1 ++ cs2) =
  xts_enc_chunks rks t cs1 ++ xts_enc_chunks rks (xts_tweak_pow (length cs1) t) cs2.
Proof. exact c_xts_enc_chunks_app. Qed.
Print Assumptions C03_xts_enc_chunks_app.

Theorem C03_xts_dec_chunks_app : forall (rks : list (list N)) (t : list N) (cs1 cs2 : list (list N)),
  len_sched rks -> Forall (fun b => length b = 16%nat) cs1 -> xshape cs2 ->
  xts_dec_chunks rks t (cs1 ++ cs2) =
  xts_dec_chunks rks t cs1 ++ xts_dec_chunks rks (xts_tweak_pow (length cs1) t) cs2.
Proof. exact c_xts_dec_chunks_app. Qed.
Print Assumptions C03_xts_dec_chunks_app.

Theorem C03_xts_tweak_pow_add : forall (a b : nat) (t : list N),
  xts_tweak_pow (a + b) t = xts_tweak_pow b (xts_tweak_pow a t).
Proof. exact c_xts_tweak_pow_add. Qed.
Print Assumptions C03_xts_tweak_pow_add.

Theorem C03_chunks_xshape : forall p : list N, (16 <= length p)%nat -> xshape (chunks 16 p).
Proof. exact chunks_xshape. Qed.
Print Assumptions C03_chunks_xshape.

(* non-vacuity: concrete inputs meeting every hypothesis, with non-trivial results *)
Example C03_nonvacuous_aes :
  (valid_key (kat_c_key 16) /\ valid_key (kat_c_key 24) /\ valid_key (kat_c_key 32)) /\
  (wf_sched (key_expansion (kat_c_key 16)) /\ wf_sched (key_expansion (kat_c_key 24)) /\ wf_sched (key_expansion (kat_c_key 32))) /\
  wfb kat_c_plain /\
  (cipher (key_expansion (kat_c_key 24)) kat_c_plain = kat_C2_cipher /\ kat_C2_cipher <> kat_c_plain) /\
  inv_cipher (key_expansion (kat_c_key 24)) kat_C2_cipher = kat_c_plain /\
  eq_inv_cipher (dec_schedule (key_expansion (kat_c_key 24))) kat_C2_cipher = kat_c_plain.
Proof. exact c03_ex_aes. Qed.

(* IEEE 1619 vector 15: 17 bytes, ciphertext stealing, through spec and expanded-key model *)
Example C03_nonvacuous_xts_steal :
  valid_key v15_K1 /\ valid_key v15_K2 /\ wfb v15_TW /\ bytes v15_P /\ length v15_P = 17%nat /\
  xts_enc v15_K1 v15_K2 v15_TW v15_P = v15_C /\ firstn 17 v15_C <> v15_P /\
  xts_dec v15_K1 v15_K2 v15_TW v15_C = v15_P /\
  xts_enc_exp (keyexp_enc v15_K2) (keyexp_enc v15_K1) v15_TW v15_P = v15_C /\
  xts_dec_exp (keyexp_enc v15_K2) (keyexp_dec v15_K1) v15_TW v15_C = v15_P.
Proof. exact c03_ex_xts_steal. Qed.

(* IEEE 1619 vector 10: XTS-AES-256, 512 bytes *)
Example C03_nonvacuous_xts_256 :
  valid_key v10_K1 /\ valid_key v10_K2 /\ wfb v10_TW /\ bytes v10_P /\ length v10_P = 512%nat /\
  xts_enc v10_K1 v10_K2 v10_TW v10_P = v10_C /\ xts_dec v10_K1 v10_K2 v10_TW v10_C = v10_P.
Proof. exact c03_ex_xts_256. Qed.

Example C03_nonvacuous_window :
  let p := firstn 51 v10_P in
  let cs := chunks 16 p in
  Forall (fun b => length b = 16%nat) (firstn 2 cs) /\ xshape (skipn 2 cs) /\
  xts_enc_chunks (key_expansion v10_K1) (xts_tweak0 v10_K2 v10_TW) cs =
  xts_enc_chunks (key_expansion v10_K1) (xts_tweak0 v10_K2 v10_TW) (firstn 2 cs) ++
  xts_enc_chunks (key_expansion v10_K1) (xts_tweak_pow 2 (xts_tweak0 v10_K2 v10_TW)) (skipn 2 cs).
Proof. exact c03_ex_window. Qed.

(* known answers of the standard (proved in Spec/XTS.v by computation) *)
Example C03_kat_ieee1619_v1 : xts_enc v1_K1 v1_K2 v1_TW v1_P = v1_C.
Proof. exact xts_enc_v1. Qed.
Example C03_kat_ieee1619_v4 : xts_enc v4_K1 v4_K2 v4_TW v4_P = v4_C.
Proof. exact xts_enc_v4. Qed.
Example C03_kat_ieee1619_v16 : xts_enc v16_K1 v16_K2 v16_TW v16_P = v16_C.
Proof. exact xts_enc_v16. Qed.
Example C03_kat_ieee1619_v17 : xts_dec v17_K1 v17_K2 v17_TW v17_C = v17_P.
Proof. exact xts_dec_v17. Qed.
Example C03_kat_ieee1619_v18 : xts_enc v18_K1 v18_K2 v18_TW v18_P = v18_C.
Proof. exact xts_enc_v18. Qed.
