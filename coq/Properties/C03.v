(* C03 — placeholder while the proofs are being written (statements follow). *)
From Coq Require Import NArith List.
From ISAL Require Import Spec.AES Spec.XTS Gen.AesCfgGen.
Example C03_kat_v1 : xts_enc v1_K1 v1_K2 v1_TW v1_P = v1_C.
Proof. exact xts_enc_v1. Qed.
