(* C11 — a rejected hash submit changes nothing and poisons no later call.
   Only statements, each closed by an already-proved lemma.

   The model (Model/HashCtx.v) has the FIXED wrapper: api_submit reports an error code only
   when the context handed back is the one this call submitted, and ctx_accept clears the
   error field on every accepted submit.  On a tree without the fixes for defects F2 (stale
   error of another context reported by the wrapper) the variant Model/HashVariants.v
   api_submit_stale is the faithful one, and for it the transparency theorem is FALSE: see
   C11_stale_variant_refuted, whose witness is the harness's replay history.

   [poke s cid e] = state s with the error field of context cid set to e and nothing else
   changed.  The theorems hold for EVERY state s (reachable or not), every algorithm record,
   every manager capacity and every scheduling oracle. *)
From Coq Require Import NArith List Arith.
From ISAL Require Import Base.Words Base.ListUtil Spec.MD Spec.SHA256 Spec.HashApiSpec Model.HashCtx Model.HashObs
  Model.HashVariants Proofs.HashPadFacts Proofs.HashSpecFacts Proofs.HashRefine Proofs.HashProps
  Proofs.HashReject Proofs.HashInst Proofs.HashExamples.
Import ListNotations.

(* when the context layer rejects: exactly the three conditions of the API, tested in this
   order, before anything is written *)
Theorem C11_reject_conditions : forall (A : algo) (c : ctx) (buf : list N) (flags : N),
  (negb (N.land flags (N.lnot FLAG_ENTIRE 32) =? 0)%N = true ->
     ctx_accept A c buf flags = Reject ERR_INVALID_FLAGS) /\
  (negb (N.land flags (N.lnot FLAG_ENTIRE 32) =? 0)%N = false -> has (c_status c) STS_PROCESSING = true ->
     ctx_accept A c buf flags = Reject ERR_ALREADY_PROCESSING) /\
  (negb (N.land flags (N.lnot FLAG_ENTIRE 32) =? 0)%N = false -> has (c_status c) STS_PROCESSING = false ->
     has (c_status c) STS_COMPLETE = true -> has flags FLAG_FIRST = false ->
     ctx_accept A c buf flags = Reject ERR_ALREADY_COMPLETED).
Proof. exact reject_conditions. Qed.
Print Assumptions C11_reject_conditions.

(* the frame: a rejected submit hands the context straight back with the matching code and
   leaves the whole state — manager, every other context, and the rejected context's own
   digest, status, total length, buffers — as it was, except that context's error field *)
Theorem C11_reject_frame : forall (A : algo) (K : nat) (sched : nat -> list nat -> option nat)
    (s : st) (cid : nat) (buf : list N) (flags e : N),
  cid < nctx s -> ctx_accept A (getc A s cid) buf flags = Reject e ->
  api_submit A K sched s cid buf flags = (poke A s cid e, Ret (Some cid), map_error e).
Proof. exact reject_frame. Qed.
Print Assumptions C11_reject_frame.

Theorem C11_poke_frame : forall (A : algo) (s : st) (cid : nat) (e : N), cid < nctx s ->
  held (poke A s cid e) = held s /\ tick (poke A s cid e) = tick s /\
  (forall i, cid <> i -> getc A (poke A s cid e) i = getc A s i) /\
  getc A (poke A s cid e) cid = set_error (getc A s cid) e.
Proof. exact poke_frame. Qed.
Print Assumptions C11_poke_frame.

(* transparency: for every continuation, the trace observed from the state after the rejected
   call is, call by call, the trace observed from the state before it — same contexts handed
   back, same status, total length, digest and the same API RETURN CODE for every later call,
   valid or not; the error field seen may differ only when the context handed back is the
   rejected one, and from the next submit to that context on (that call included) the two
   traces are identical.  (trace_sim, obs_sim: Proofs/HashReject.v) *)
Theorem C11_reject_transparent : forall (A : algo) (K : nat) (sched : nat -> list nat -> option nat)
    (s : st) (cid : nat) (buf : list N) (flags e : N),
  cid < nctx s -> ctx_accept A (getc A s cid) buf flags = Reject e ->
  forall ops : list op,
    optrel (trace_sim cid)
      (run_obs A K sched (fst (fst (api_submit A K sched s cid buf flags))) ops)
      (run_obs A K sched s ops).
Proof. exact reject_transparent. Qed.
Print Assumptions C11_reject_transparent.

(* in particular no later call is reported as failed because of the earlier rejection *)
Theorem C11_later_return_codes_unchanged : forall (k : nat) (t1 t2 : list (call * obs)),
  trace_sim k t1 t2 -> map (fun x => o_rc (snd x)) t1 = map (fun x => o_rc (snd x)) t2.
Proof. exact trace_sim_rc. Qed.
Print Assumptions C11_later_return_codes_unchanged.

(* rejected calls are ordinary members of the histories of C01/C06: all other jobs still
   complete with correct digests and the rejected context can be continued or restarted —
   that is C01_mb_digest_correct / C06_no_loss_no_dup, whose [ops] range over valid and
   rejected calls alike.  Restated here for the record: *)
Theorem C11_histories_with_rejections_refine : forall (A : algo), algo_wf A ->
  forall (K : nat) (sched : nat -> list nat -> option nat) (junk : list ctx) (ops : list op),
  wf_history A K junk ops ->
  exists tr, run_obs A K sched (model_init A junk) ops = Some tr /\
    (bounded (spec_init (length junk)) tr -> accepts A K (spec_init (length junk)) tr = true).
Proof. exact hash_refines. Qed.
Print Assumptions C11_histories_with_rejections_refine.

(* the theorem is sensitive to exactly defect F2: with the wrapper that maps the error of
   WHATEVER context is handed back, a reachable state, a rejected submit and a one-call
   continuation exist whose valid call is reported as failed (2012) only because of the
   earlier rejection.  History: K = 2, two contexts; Submit c0 FIRST 64 bytes (in flight);
   Submit c0 UPDATE (rejected: ALREADY_PROCESSING); Submit c1 ENTIRE "abc" hands back c0. *)
Theorem C11_stale_variant_refuted :
  exists (A : algo) (K : nat) (sched : nat -> list nat -> option nat) (junk : list ctx) (ops0 : list op)
         (cid : nat) (buf : list N) (flags e : N) (ops : list op),
    wf_history A K junk ops0 /\
    let s := fst (run A K sched (model_init A junk) ops0) in
    ctx_accept A (getc A s cid) buf flags = Reject e /\
    let s' := fst (fst (api_submit_stale A K sched s cid buf flags)) in
    option_map (map (fun co => o_rc (snd co))) (run_obs_stale A K sched s' ops) <>
    option_map (map (fun co => o_rc (snd co))) (run_obs_stale A K sched s ops).
Proof. exact c11_stale_refuted. Qed.
Print Assumptions C11_stale_variant_refuted.

(* non-vacuity of the transparency theorem on the same witness: with the fixed wrapper the
   continuation's return code is 0 from both states *)
Example C11_nonvacuous :
  ctx_accept sha256_algo (getc sha256_algo ex11_state 0) [] 0 = Reject ERR_ALREADY_PROCESSING /\
  nctx ex11_state = 2 /\
  let s' := fst (fst (api_submit sha256_algo 2 ex_sched ex11_state 0 [] 0)) in
  option_map (map (fun co => o_rc (snd co))) (run_obs sha256_algo 2 ex_sched s' ex11_cont) = Some [0%N] /\
  option_map (map (fun co => o_rc (snd co))) (run_obs sha256_algo 2 ex_sched ex11_state ex11_cont) = Some [0%N].
Proof. vm_compute. repeat split; reflexivity. Qed.
