(* C06 — the hash manager never loses, duplicates or strands a job; flush always drains.
   Only statements, each closed by an already-proved lemma.  None of these theorems needs a
   bound on the stream lengths.

   [pending t] = the contexts accepted (submit with return code 0) and not yet handed back
   along trace t; [last_of r t] = whether the most recent accepted submit to r carried the
   LAST flag (LAST or ENTIRE); [final] = the model state a history reaches.  The user's
   buffers are immutable values in the model and the context record has no user_data field:
   the model cannot write them by construction (the harness checks that on the real code). *)
From Coq Require Import NArith List Arith Permutation.
From ISAL Require Import Base.Words Base.ListUtil Spec.MD Spec.SHA256 Spec.HashApiSpec Model.HashCtx Model.HashObs
  Proofs.HashPadFacts Proofs.HashSpecFacts Proofs.HashRefine Proofs.HashProps Proofs.HashInst Proofs.HashExamples.
Import ListNotations.

(* termination of the while loops of *_ctx_mgr_resubmit / *_ctx_mgr_flush: the fuel the model
   gives them always suffices, for every history and every scheduling oracle *)
Theorem C06_loops_terminate : forall (A : algo), algo_wf A ->
  forall (K : nat) (sched : nat -> list nat -> option nat) (junk : list ctx) (ops : list op),
  wf_history A K junk ops -> run_obs A K sched (model_init A junk) ops <> None.
Proof. exact hash_no_out_of_fuel. Qed.
Print Assumptions C06_loops_terminate.

(* conservation: the manager holds exactly the contexts accepted and not yet handed back,
   each once and fewer than K of them; a context handed back by a successful call was pending
   (or is the one just accepted) and is not pending afterwards — handed back at most once per
   accepted submission *)
Theorem C06_no_loss_no_dup : forall (A : algo), algo_wf A ->
  forall (K : nat) (sched : nat -> list nat -> option nat) (junk : list ctx) (ops : list op)
         (tr : list (call * obs)),
  wf_history A K junk ops -> run_obs A K sched (model_init A junk) ops = Some tr ->
  Permutation (map j_ctx (held (fst (run A K sched (model_init A junk) ops)))) (pending tr) /\
  NoDup (pending tr) /\ length (pending tr) < K /\
  (forall t1 c o t2 r, tr = t1 ++ (c, o) :: t2 -> o_ret o = Some r -> o_rc o = 0%N ->
     (In r (pending t1) \/ exists buf flags, c = CSubmit r buf flags) /\
     ~ In r (pending (t1 ++ [(c, o)]))).
Proof. exact c06_conservation. Qed.
Print Assumptions C06_no_loss_no_dup.

(* a rejected call hands its own context straight back and changes the pending set not at all *)
Theorem C06_rejected_straight_back : forall (A : algo), algo_wf A ->
  forall (K : nat) (sched : nat -> list nat -> option nat) (junk : list ctx) (ops : list op)
         (tr : list (call * obs)),
  wf_history A K junk ops -> run_obs A K sched (model_init A junk) ops = Some tr ->
  forall t1 c o t2, tr = t1 ++ (c, o) :: t2 -> o_rc o <> 0%N ->
    exists cid buf flags, c = CSubmit cid buf flags /\ o_ret o = Some cid /\ o_rc o = rc_of (o_error o) /\
                          pending (t1 ++ [(c, o)]) = pending t1.
Proof. exact c06_rejected_back. Qed.
Print Assumptions C06_rejected_straight_back.

(* flush returns no context exactly when the manager holds none (any reachable state) *)
Theorem C06_flush_none_iff_empty : forall (A : algo), algo_wf A ->
  forall (K : nat) (sched : nat -> list nat -> option nat) (junk : list ctx) (ops : list op),
  wf_history A K junk ops ->
  let s := fst (run A K sched (model_init A junk) ops) in
  exists s' r, ctx_flush A K sched s = (s', Ret r) /\ (r = None <-> held s = []).
Proof. exact c06_flush_none_iff_reach. Qed.
Print Assumptions C06_flush_none_iff_empty.

(* n flushes hand back the n held contexts, each exactly once; the next returns none and the
   manager is empty: repeated flushing drains any reachable manager in finitely many calls *)
Theorem C06_flush_drains : forall (A : algo), algo_wf A ->
  forall (K : nat) (sched : nat -> list nat -> option nat) (junk : list ctx) (ops : list op),
  wf_history A K junk ops ->
  let s := fst (run A K sched (model_init A junk) ops) in
  let n := length (held s) in
  exists tr rs, run_obs A K sched s (repeat Flush (S n)) = Some tr /\
    map (fun co => o_ret (snd co)) tr = map Some rs ++ [None] /\
    NoDup rs /\ Permutation rs (map j_ctx (held s)) /\
    held (fst (run A K sched s (repeat Flush (S n)))) = [].
Proof. exact c06_flush_drains_reach. Qed.
Print Assumptions C06_flush_drains.

(* a context handed back by a successful call is COMPLETE after LAST/ENTIRE and IDLE after
   FIRST/UPDATE; the PROCESSING bit is never set *)
Theorem C06_status_on_return : forall (A : algo), algo_wf A ->
  forall (K : nat) (sched : nat -> list nat -> option nat) (junk : list ctx) (ops : list op)
         (tr : list (call * obs)),
  wf_history A K junk ops -> run_obs A K sched (model_init A junk) ops = Some tr ->
  forall t1 c o t2 r, tr = t1 ++ (c, o) :: t2 -> o_ret o = Some r -> o_rc o = 0%N ->
    o_status o = (if last_of r (t1 ++ [(c, o)]) then STS_COMPLETE else STS_IDLE) /\
    N.land (o_status o) STS_PROCESSING = 0%N.
Proof. exact c06_status. Qed.
Print Assumptions C06_status_on_return.

(* the manager never holds K contexts between calls (K = number of lanes) *)
Theorem C06_held_bound : forall (A : algo), algo_wf A ->
  forall (K : nat) (sched : nat -> list nat -> option nat) (junk : list ctx) (ops : list op),
  wf_history A K junk ops -> length (held (fst (run A K sched (model_init A junk) ops))) < K.
Proof. exact c06_held_bound. Qed.
Print Assumptions C06_held_bound.

(* non-vacuity: the 13-call history of Proofs/HashExamples.v (3 contexts, K = 2, three
   rejected calls, flush on an empty manager, a reused context) meets the hypotheses; its
   trace is accepted by the L0 acceptor and ends with nothing pending *)
Example C06_nonvacuous :
  wf_history sha256_algo 2 [ex_junk; ex_junk; ex_junk] ex_ops /\
  match run_obs sha256_algo 2 ex_sched (model_init sha256_algo [ex_junk; ex_junk; ex_junk]) ex_ops with
  | Some tr => accepts sha256_algo 2 (spec_init 3) tr = true /\ pending tr = [] /\
               map (fun co => o_ret (snd co)) tr =
               [Some 0; None; Some 0; Some 2; Some 1; Some 1; Some 0; Some 2; Some 2; None; Some 1; None; Some 1]
  | None => False
  end.
Proof. split; [exact ex_wf|]. vm_compute. repeat split; reflexivity. Qed.

(* non-vacuity of the flush theorems: a reachable state holding one job (context 0, a 64-byte
   FIRST segment, K = 2); two flushes return context 0 (IDLE) and then nothing *)
Example C06_flush_nonvacuous :
  map j_ctx (held ex11_state) = [0] /\
  option_map (map (fun co => (o_ret (snd co), o_status (snd co))))
    (run_obs sha256_algo 2 ex_sched ex11_state [Flush; Flush]) = Some [(Some 0, 0%N); (None, 0%N)] /\
  held (fst (run sha256_algo 2 ex_sched ex11_state [Flush; Flush])) = [].
Proof. vm_compute. repeat split; reflexivity. Qed.
