(* C04 — placeholder while the proofs are being written (statements follow). *)
From Coq Require Import NArith List.
From ISAL Require Import Spec.AES Spec.CBC Gen.AesCfgGen.
Example C04_kat_F_2_1 : cbc_enc cbc_kat_K128 cbc_kat_IV cbc_kat_P = cbc_kat_C128.
Proof. exact cbc_enc_F_2_1. Qed.
