(* C04 — AES key expansion equals FIPS-197 (encryption round keys + the matching decryption
   schedule); AES-CBC equals SP 800-38A for every number of blocks, decryption inverts it.
   This file contains only statements, each closed by an already-proved lemma.

   Vocabulary as in Properties/C03.v (bytes, wfb, valid_key, len_sched; Proofs/AesFacts.v).
   key_expansion / dec_schedule / cipher / inv_cipher / eq_inv_cipher: Spec/AES.v (FIPS-197, with
   the standard's known answers);  cbc_enc / cbc_dec: Spec/CBC.v (SP 800-38A 6.2);
   keyexp_enc / keyexp_dec, cbc_enc_model / cbc_dec_model: Model/KeyExp.v, Model/Cbc.v — what the
   library's entry points leave in / read from memory. *)
From Coq Require Import NArith List Arith Lia.
From ISAL Require Import Base.Words Base.ListUtil Spec.AES Spec.CBC Model.KeyExp Model.Cbc Gen.AesCfgGen
  Proofs.AesFacts Proofs.XtsFacts Proofs.CbcFacts Proofs.AesCfgFacts Proofs.AesModesExamples.
Import ListNotations.
Local Open Scope N_scope.

(* (a) the decryption schedule: the encryption round keys reversed, InvMixColumns applied to
   every key but the first and the last (the layout documented in include/aes_xts.h) ... *)
Theorem C04_dec_schedule_layout : forall (first : list N) (inner : list (list N)) (last : list N),
  dec_schedule (first :: inner ++ [last]) = last :: map inv_mix_columns (rev inner) ++ [first].
Proof. exact c_dec_schedule_layout. Qed.
Print Assumptions C04_dec_schedule_layout.

(* ... the same by index: Key[0] = round Nr key, Key[i] = InvMixColumns(round Nr-i key), Key[Nr] = round 0 key *)
Theorem C04_dec_schedule_nth : forall (rks : list (list N)) (n i : nat), length rks = S n -> (i <= n)%nat ->
  nth i (dec_schedule rks) [] =
  if (Nat.eqb i 0 || Nat.eqb i n)%bool then nth (n - i) rks [] else inv_mix_columns (nth (n - i) rks []).
Proof. exact c_dec_schedule_nth. Qed.
Print Assumptions C04_dec_schedule_nth.

(* ... and decrypting with it (Equivalent Inverse Cipher, i.e. aesdec) is InvCipher, which inverts Cipher *)
Theorem C04_dec_schedule_decrypts : forall k blk : list N, valid_key k -> wfb blk ->
  eq_inv_cipher (dec_schedule (key_expansion k)) (cipher (key_expansion k) blk) = blk.
Proof. exact c_dec_schedule_decrypts. Qed.
Print Assumptions C04_dec_schedule_decrypts.

(* (b) sizes: Nk+7 round keys of 16 bytes; with the header's constants (regenerated from
   include/aes_cbc.h): 16/24/32-byte keys give 11/13/15 round keys = ISAL_CBC_*_KEY_ROUNDS, the
   two arrays hold ISAL_CBC_ROUND_KEY_LEN * rounds bytes and fit ISAL_CBC_MAX_KEYS_SIZE *)
Theorem C04_key_expansion_shape : forall k : list N, valid_key_len (length k) = true ->
  length (key_expansion k) = (length k / 4 + 7)%nat /\ len_sched (key_expansion k) /\
  (bytes k -> wf_sched (key_expansion k)).
Proof. exact key_expansion_facts. Qed.
Print Assumptions C04_key_expansion_shape.

Theorem C04_header_schedule_sizes :
  key_bits_ok isal_cbc_128_bits_src isal_cbc_128_key_rounds_src /\
  key_bits_ok isal_cbc_192_bits_src isal_cbc_192_key_rounds_src /\
  key_bits_ok isal_cbc_256_bits_src isal_cbc_256_key_rounds_src /\
  isal_cbc_iv_data_len_src = 16.
Proof. exact c_cfg_schedule_sizes. Qed.
Print Assumptions C04_header_schedule_sizes.

(* (c) CBC decryption inverts CBC encryption for EVERY number of blocks n (n = 0 included) *)
Theorem C04_cbc_dec_enc : forall (k iv p : list N) (n : nat),
  valid_key k -> wfb iv -> bytes p -> length p = (16 * n)%nat ->
  cbc_dec k iv (cbc_enc k iv p) = p.
Proof. exact c_cbc_dec_enc. Qed.
Print Assumptions C04_cbc_dec_enc.

Theorem C04_cbc_enc_length : forall (k iv p : list N) (n : nat),
  valid_key_len (length k) = true -> length iv = 16%nat -> length p = (16 * n)%nat ->
  length (cbc_enc k iv p) = length p.
Proof. exact c_cbc_enc_length. Qed.
Print Assumptions C04_cbc_enc_length.

(* (d) the parallel-decrypt identity every by-8 / by-16 implementation relies on:
   P_j = D(C_j) xor C_(j-1), C_0 = IV — each plaintext block depends on two ciphertext blocks
   only, so blocks may be decrypted in any order / in parallel, and in-place processing is a
   pure reordering as long as C_(j-1) is read before P_(j-1) overwrites it *)
Theorem C04_cbc_dec_blockwise : forall k iv c : list N,
  cbc_dec k iv c = cbc_dec_par (aes_dec k) iv (chunks 16 c).
Proof. exact c_cbc_dec_blockwise. Qed.
Print Assumptions C04_cbc_dec_blockwise.

Theorem C04_cbc_dec_block_j : forall (k iv c : list N) (n j : nat),
  valid_key_len (length k) = true -> length iv = 16%nat -> length c = (16 * n)%nat -> (j < n)%nat ->
  nth j (chunks 16 (cbc_dec k iv c)) [] =
  xorb_list (aes_dec k (nth j (chunks 16 c) [])) (nth j (iv :: chunks 16 c) []).
Proof. exact c_cbc_dec_block_j. Qed.
Print Assumptions C04_cbc_dec_block_j.

(* (e) chaining across calls: a message processed in two calls, the second with IV = the last
   ciphertext block of the first, gives the one-call result *)
Theorem C04_cbc_append : forall (k iv p1 p2 : list N) (n1 : nat),
  valid_key_len (length k) = true -> length iv = 16%nat -> length p1 = (16 * n1)%nat ->
  cbc_enc k iv (p1 ++ p2) = cbc_enc k iv p1 ++ cbc_enc k (cbc_next_iv iv (cbc_enc k iv p1)) p2.
Proof. exact c_cbc_enc_append. Qed.
Print Assumptions C04_cbc_append.

Theorem C04_cbc_dec_append : forall (k iv c1 c2 : list N) (n1 : nat), length c1 = (16 * n1)%nat ->
  cbc_dec k iv (c1 ++ c2) = cbc_dec k iv c1 ++ cbc_dec k (cbc_next_iv iv c1) c2.
Proof. exact c_cbc_dec_append. Qed.
Print Assumptions C04_cbc_dec_append.

(* (f) the entry-point models on the schedules the key expansion writes equal the standard *)
Theorem C04_cbc_enc_model_eq_spec : forall k iv p : list N, cbc_enc_model (keyexp_enc k) iv p = cbc_enc k iv p.
Proof. exact c_cbc_enc_model_eq_spec. Qed.
Print Assumptions C04_cbc_enc_model_eq_spec.

Theorem C04_cbc_dec_model_eq_spec : forall (k iv c : list N) (n : nat), length c = (16 * n)%nat ->
  cbc_dec_model (keyexp_dec k) iv c = cbc_dec k iv c.
Proof. exact c_cbc_dec_model_eq_spec. Qed.
Print Assumptions C04_cbc_dec_model_eq_spec.

(* non-vacuity and the standards' known answers *)
Example C04_nonvacuous_cbc :
  (valid_key cbc_kat_K128 /\ valid_key cbc_kat_K192 /\ valid_key cbc_kat_K256) /\ wfb cbc_kat_IV /\ bytes cbc_kat_P /\
  length cbc_kat_P = (16 * 4)%nat /\
  (cbc_enc cbc_kat_K128 cbc_kat_IV cbc_kat_P = cbc_kat_C128 /\ cbc_kat_C128 <> cbc_kat_P) /\
  cbc_enc cbc_kat_K192 cbc_kat_IV cbc_kat_P = cbc_kat_C192 /\
  cbc_enc cbc_kat_K256 cbc_kat_IV cbc_kat_P = cbc_kat_C256 /\
  cbc_dec cbc_kat_K192 cbc_kat_IV cbc_kat_C192 = cbc_kat_P /\
  cbc_enc_model (keyexp_enc cbc_kat_K192) cbc_kat_IV cbc_kat_P = cbc_kat_C192 /\
  cbc_dec_model (keyexp_dec cbc_kat_K192) cbc_kat_IV cbc_kat_C192 = cbc_kat_P.
Proof. exact c04_ex_cbc. Qed.

Example C04_nonvacuous_dec_schedule :
  let rks := key_expansion kat_key192 in
  let d := dec_schedule rks in
  length rks = 13%nat /\ length d = 13%nat /\
  nth 0 d [] = nth 12 rks [] /\ nth 12 d [] = firstn 16 kat_key192 /\
  nth 5 d [] = inv_mix_columns (nth 7 rks []) /\ nth 5 d [] <> nth 7 rks [] /\
  length (keyexp_enc kat_key192) = 208%nat /\ length (keyexp_dec kat_key192) = 208%nat.
Proof. exact c04_ex_dec_schedule. Qed.

(* FIPS-197 Appendix A.1-A.3 (all round keys), Appendix C.1-C.3, C.1 equivalent-inverse schedule *)
Example C04_kat_fips197_A1 : length (key_expansion kat_key128) = 11%nat.
Proof. exact key_expansion_128_count. Qed.
Example C04_kat_fips197_A2_last : lastn 2 (key_expansion kat_key192) =
  [[0xca; 0x40; 0x05; 0x38; 0x8f; 0xcc; 0x50; 0x06; 0x28; 0x2d; 0x16; 0x6a; 0xbc; 0x3c; 0xe7; 0xb5];
   [0xe9; 0x8b; 0xa0; 0x6f; 0x44; 0x8c; 0x77; 0x3c; 0x8e; 0xcc; 0x72; 0x04; 0x01; 0x00; 0x22; 0x02]].
Proof. exact key_expansion_192_last. Qed.
Example C04_kat_fips197_A3_last : lastn 2 (key_expansion kat_key256) =
  [[0xca; 0xfa; 0xaa; 0xe3; 0xe4; 0xd5; 0x9b; 0x34; 0x9a; 0xdf; 0x6a; 0xce; 0xbd; 0x10; 0x19; 0x0d];
   [0xfe; 0x48; 0x90; 0xd1; 0xe6; 0x18; 0x8d; 0x0b; 0x04; 0x6d; 0xf3; 0x44; 0x70; 0x6c; 0x63; 0x1e]].
Proof. exact key_expansion_256_last. Qed.
Example C04_kat_fips197_C1 : aes_enc (kat_c_key 16) kat_c_plain = kat_C1_cipher.
Proof. exact cipher_C1. Qed.
Example C04_kat_fips197_C2 : aes_enc (kat_c_key 24) kat_c_plain = kat_C2_cipher.
Proof. exact cipher_C2. Qed.
Example C04_kat_fips197_C3 : aes_enc (kat_c_key 32) kat_c_plain = kat_C3_cipher.
Proof. exact cipher_C3. Qed.
Example C04_kat_fips197_C1_eq_inv_schedule :
  let d := dec_schedule (key_expansion (kat_c_key 16)) in
  (nth 0 d [], nth 1 d [], nth 10 d []) =
  ([0x13; 0x11; 0x1d; 0x7f; 0xe3; 0x94; 0x4a; 0x17; 0xf3; 0x07; 0xa7; 0x8b; 0x4d; 0x2b; 0x30; 0xc5],
   [0x13; 0xaa; 0x29; 0xbe; 0x9c; 0x8f; 0xaf; 0xf6; 0xf7; 0x70; 0xf5; 0x80; 0x00; 0xf7; 0xbf; 0x03],
   [0x00; 0x01; 0x02; 0x03; 0x04; 0x05; 0x06; 0x07; 0x08; 0x09; 0x0a; 0x0b; 0x0c; 0x0d; 0x0e; 0x0f]).
Proof. exact dec_schedule_C1. Qed.
(* SP 800-38A F.2.1 - F.2.6 *)
Example C04_kat_sp800_38a_F_2_1 : cbc_enc cbc_kat_K128 cbc_kat_IV cbc_kat_P = cbc_kat_C128.
Proof. exact cbc_enc_F_2_1. Qed.
Example C04_kat_sp800_38a_F_2_2 : cbc_dec cbc_kat_K128 cbc_kat_IV cbc_kat_C128 = cbc_kat_P.
Proof. exact cbc_dec_F_2_2. Qed.
Example C04_kat_sp800_38a_F_2_3 : cbc_enc cbc_kat_K192 cbc_kat_IV cbc_kat_P = cbc_kat_C192.
Proof. exact cbc_enc_F_2_3. Qed.
Example C04_kat_sp800_38a_F_2_4 : cbc_dec cbc_kat_K192 cbc_kat_IV cbc_kat_C192 = cbc_kat_P.
Proof. exact cbc_dec_F_2_4. Qed.
Example C04_kat_sp800_38a_F_2_5 : cbc_enc cbc_kat_K256 cbc_kat_IV cbc_kat_P = cbc_kat_C256.
Proof. exact cbc_enc_F_2_5. Qed.
Example C04_kat_sp800_38a_F_2_6 : cbc_dec cbc_kat_K256 cbc_kat_IV cbc_kat_C256 = cbc_kat_P.
Proof. exact cbc_dec_F_2_6. Qed.
