(* C07 — AES-GCM streaming (init / update* / finalize) equals one-shot for any segmentation.
   Statements only, each closed by an already-proved lemma.

   What is proved, about the L1 model Model/GcmStream.v (gcm_init, gcm_update with the
   PARTIAL_BLOCK carry, gcm_finalize): for every key of 16 or 32 bytes, 12-byte IV, AAD and
   every LIST of segments (any lengths, zero and non-multiples of 16 included), encrypting or
   decrypting, the concatenated update outputs and the tag equal the one-shot call on the
   concatenation, and SP 800-38D; the context after the updates satisfies the invariant of
   DESIGN C07.  All for every block-deferral policy, so for every family's representation of
   the context.  The tie of the model to the assembly is the correspondence of checks/c07.py. *)
From Coq Require Import NArith List Arith.
From ISAL Require Import Base.Words Base.ListUtil Spec.AES Spec.GF128 Spec.GCM Model.GcmStream
  Proofs.GcmFacts Proofs.GcmStreamFacts Proofs.GcmInst.
Import ListNotations.

Theorem C07_stream_eq_oneshot : forall (defer : nat -> bool) (k iv aad : list N) (enc : bool)
                                       (segs : list (list N)) (tag_len : nat),
  length k = 16 \/ length k = 32 -> length iv = 12 -> (N.of_nat (length (concat segs)) < 2 ^ 64)%N ->
  let rks := key_expansion k in
  gcm_stream (cipher rks) (gcm_precomp (cipher rks)) defer enc iv aad segs tag_len =
  gcm_oneshot (cipher rks) (gcm_precomp (cipher rks)) defer enc iv aad (concat segs) tag_len.
Proof. exact c_stream_eq_oneshot. Qed.
Print Assumptions C07_stream_eq_oneshot.

(* ... and both are SP 800-38D on the concatenation *)
Theorem C07_stream_is_38D : forall (defer : nat -> bool) (k iv aad : list N) (enc : bool)
                                   (segs : list (list N)) (tag_len : nat),
  length k = 16 \/ length k = 32 -> length iv = 12 -> (N.of_nat (length (concat segs)) < 2 ^ 64)%N ->
  let rks := key_expansion k in
  let r := if enc then gcm_ae k iv aad (concat segs) else gcm_ad k iv aad (concat segs) in
  gcm_stream (cipher rks) (gcm_precomp (cipher rks)) defer enc iv aad segs tag_len =
  (fst r, firstn tag_len (snd r)).
Proof. exact c_stream_is_38D. Qed.
Print Assumptions C07_stream_is_38D.

(* the context after any list of updates: with X the bytes fed so far = closed blocks Xc ++
   open block t (|t| = partial_block_length), aad_hash (byte-reflected) = GHASH state over A
   and the closed ciphertext blocks, xor the open ciphertext bytes zero-padded;
   current_counter (byte-reflected) = J0 + number of blocks started; partial_block_enc_key =
   E(K, that counter) while a block is open; in_length = |X| mod 2^64; the outputs so far are
   the GCTR stream of the standard (Proofs/GcmStreamFacts.v, Inv) *)
Theorem C07_context_invariant : forall (defer : nat -> bool) (k iv aad : list N) (enc : bool) (segs : list (list N)),
  length k = 16 \/ length k = 32 -> length iv = 12 ->
  let E := cipher (key_expansion k) in
  let Hh := gcm_precomp E in
  let '(c, outs) := gcm_updates E Hh defer enc (gcm_init Hh iv aad) segs in
  Inv E Hh iv aad enc c (concat segs) /\ outs = O E iv (concat segs) /\
  in_length c = wrap 64 (N.of_nat (length (concat segs))).
Proof. exact c_stream_invariant. Qed.
Print Assumptions C07_context_invariant.

(* non-vacuity: 66 bytes fed as updates of 0, 5, 11, 1, 16, 0, 33 bytes (partial blocks
   left open, completed exactly, crossed; zero-length updates), AES-128 and AES-256, enc and
   dec, both deferral policies, against gcm_ae / gcm_ad of the standard *)
Definition c07_data : list N := tc4_P ++ firstn 6 tc4_A.
Fixpoint c07_split (lens : list nat) (d : list N) : list (list N) :=
  match lens with [] => [] | n :: r => firstn n d :: c07_split r (skipn n d) end.
Definition c07_segs : list (list N) := c07_split [0; 5; 11; 1; 16; 0; 33] c07_data.

Example C07_nonvacuous_segments : concat c07_segs = c07_data /\ map (@length N) c07_segs = [0; 5; 11; 1; 16; 0; 33].
Proof. vm_compute. split; reflexivity. Qed.

Example C07_nonvacuous_enc128 :
  gcm_stream_aes (key_expansion tc4_K) true tc4_IV tc4_A c07_segs 16 = gcm_ae tc4_K tc4_IV tc4_A c07_data.
Proof. vm_compute. reflexivity. Qed.

Example C07_nonvacuous_dec256_tag12 :
  gcm_stream_aes_vaes (key_expansion tc16_K) false tc16_IV tc16_A c07_segs 12 =
  (fst (gcm_ad tc16_K tc16_IV tc16_A c07_data), firstn 12 (snd (gcm_ad tc16_K tc16_IV tc16_A c07_data))).
Proof. vm_compute. reflexivity. Qed.

(* 256 bytes in one update: the vaes policy leaves the 16th block open (partial_block_length
   = 16), the other does not; the results are the same *)
Definition c07_256 : list N := tc3_P ++ tc3_C ++ tc15_C ++ tc3_P.
Example C07_nonvacuous_deferral :
  let rks := key_expansion tc3_K in
  let h := gcm_precomp (cipher rks) in
  (pb_len (fst (gcm_update (cipher rks) h defer_vaes true (gcm_init h tc3_IV []) c07_256)),
   pb_len (fst (gcm_update (cipher rks) h defer_none true (gcm_init h tc3_IV []) c07_256))) = (16, 0) /\
  gcm_stream_aes_vaes rks true tc3_IV [] [c07_256; firstn 5 tc3_P] 16 =
  gcm_stream_aes rks true tc3_IV [] [c07_256; firstn 5 tc3_P] 16.
Proof. vm_compute. split; reflexivity. Qed.
