(* C17 — FIPS self-tests run exactly once under any interleaving; nobody passes early.
   Statements only, each closed by an already-proved lemma.

   Objects: prog/entry/init_status/errv (Gen/SelfTestGen.v) are regenerated on every run from the
   BUILT objects asm_self_tests.o and self_tests.o; c17_run n a s sched is the state after n threads
   that all start a first library call (entry of isal_self_tests; the status word holds its
   link-time value) have executed the arbitrary schedule `sched` (a list of thread numbers, one
   machine instruction of that thread per element), the two self-test bodies returning a and s.
   A later call by the same thread is a further thread that starts late, so "from then on" is
   covered by n being arbitrary.  Sequentially consistent memory (see docs/selftest-statics.md). *)
From Coq Require Import NArith List Bool Arith Lia.
From ISAL Require Import Base.ListUtil Model.SelfTestSys Model.SelfTest Model.SelfTestTM Model.SelfTestPinned
  Gen.SelfTestGen Proofs.SelfTestTMFacts Proofs.SelfTestFacts Proofs.SelfTestInst.
Import ListNotations.

(* the obligation that ties the theorems to the current binary: the certified thread-modular
   checker accepts the regenerated instruction list (for the four pass/fail outcome pairs) *)
Theorem C17_checker_accepts_current_binary : st_check prog init_status entry errv = true.
Proof. exact c_checker_accepts. Qed.
Print Assumptions C17_checker_accepts_current_binary.

(* (S1) the self-tests are entered at most once (and finish at most as often as entered) *)
Theorem C17_runs_at_most_once : forall (n : nat) (a s : N) (sched : list nat),
  1 <= n -> bool_outcome a -> bool_outcome s ->
  runs (sg (c17_run n a s sched)) <= 1 /\ fin (sg (c17_run n a s sched)) <= runs (sg (c17_run n a s sched)).
Proof. exact c_runs_at_most_once. Qed.
Print Assumptions C17_runs_at_most_once.

(* (S1, S2) a thread that has returned from isal_self_tests did so after the one run was entered
   AND had finished and its result was published, and it returns the verdict of that run:
   0 iff both bodies passed, ISAL_CRYPTO_ERR_SELF_TEST otherwise *)
Theorem C17_return_only_after_run_with_its_verdict : forall (n : nat) (a s : N) (sched : list nat) (t : nat) (th : tstate) (v : N),
  bool_outcome a -> bool_outcome s ->
  nth_error (sths (c17_run n a s sched)) t = Some th -> returned th = Some v ->
  runs (sg (c17_run n a s sched)) = 1 /\ fin (sg (c17_run n a s sched)) = 1 /\
  v = (if pass (a, s) then 0%N else errv) /\
  (status (sg (c17_run n a s sched)) <> ST_NOT_DONE /\ status (sg (c17_run n a s sched)) <> ST_RUNNING).
Proof. exact c_return_after_run. Qed.
Print Assumptions C17_return_only_after_run_with_its_verdict.

(* (S2) all threads observe the same verdict *)
Theorem C17_same_verdict : forall (n : nat) (a s : N) (sched : list nat) (t1 t2 : nat) (th1 th2 : tstate) (v1 v2 : N),
  bool_outcome a -> bool_outcome s ->
  nth_error (sths (c17_run n a s sched)) t1 = Some th1 -> returned th1 = Some v1 ->
  nth_error (sths (c17_run n a s sched)) t2 = Some th2 -> returned th2 = Some v2 -> v1 = v2.
Proof. exact c_same_verdict. Qed.
Print Assumptions C17_same_verdict.

(* (S3) no thread starts cryptographic work before the self-tests have finished, nor if they failed *)
Theorem C17_no_crypto_before_pass : forall (n : nat) (a s : N) (sched : list nat) (t : nat) (th : tstate),
  bool_outcome a -> bool_outcome s ->
  nth_error (sths (c17_run n a s sched)) t = Some th -> did_crypto th = true ->
  runs (sg (c17_run n a s sched)) = 1 /\ fin (sg (c17_run n a s sched)) = 1 /\ pass (a, s) = true.
Proof. exact c_no_early_crypto. Qed.
Print Assumptions C17_no_crypto_before_pass.

(* (L) nobody waits forever, finite-horizon form of termination under weak fairness: from ANY
   reachable state (after any sch0), in every continuation in which every thread is scheduled at
   least ST_B = 48 times (sch1: any order, anything interleaved) and then thread t at least
   ST_K = 32 times (sch2, anything interleaved), t has returned *)
Theorem C17_nobody_waits_forever : forall (n : nat) (a s : N) (sch0 sch1 sch2 : list nat) (t : nat),
  bool_outcome a -> bool_outcome s -> t < n ->
  (forall u, u < n -> ST_B <= steps_of sch1 u) -> ST_K <= steps_of sch2 t ->
  exists th, nth_error (sths (c17_run n a s (sch0 ++ sch1 ++ sch2))) t = Some th /\ retd th = true.
Proof. exact c_nobody_waits. Qed.
Print Assumptions C17_nobody_waits_forever.

(* (L, refined) while a run is in progress only the running thread has to be scheduled: after
   ST_B of ITS steps, whatever else is interleaved, the verdict is published *)
Theorem C17_running_thread_alone_suffices : forall (n : nat) (a s : N) (sch0 sch1 : list nat) (w : nat) (thw : tstate),
  bool_outcome a -> bool_outcome s ->
  nth_error (sths (c17_run n a s sch0)) w = Some thw -> own thw = true -> ST_B <= steps_of sch1 w ->
  status (sg (c17_run n a s (sch0 ++ sch1))) <> ST_NOT_DONE /\ status (sg (c17_run n a s (sch0 ++ sch1))) <> ST_RUNNING.
Proof. exact c_owner_finishes. Qed.
Print Assumptions C17_running_thread_alone_suffices.

(* why the outcomes are restricted to the documented {0, 1}: on the release listing, a body that
   reports failure as -1 (as fips/sha_self_tests.c does) makes a second caller run the tests again.
   Whether the CURRENT code can publish such a word is decided on every run by the check (the
   regenerated return values of the bodies, SelfTestGen.aes_returns / sha_returns). *)
Theorem C17_pinned_listing_nonboolean_verdict_refuted :
  exists sched, runs (sg (st_exec pinned_prog (0, 4294967295)%N (st_init pinned_init_status pinned_entry 2) sched)) = 2.
Proof. exact c_pinned_nonboolean_verdict_refuted. Qed.
Print Assumptions C17_pinned_listing_nonboolean_verdict_refuted.

(* non-vacuity: a concrete interleaving of three threads on the current binary, pass and fail, and a
   mid-way state with one thread running the tests and two waiting *)
Example C17_nonvacuous :
  (let s := c17_run 3 0 0 nv_sched in
   (status (sg s), runs (sg s), fin (sg s)) = (0%N, 1, 1) /\ map ph (sths s) = [PCrypto; PCrypto; PCrypto]) /\
  (let s := c17_run 3 0 1 nv_sched in
   (status (sg s), runs (sg s), fin (sg s)) = (1%N, 1, 1) /\ map ph (sths s) = [PRet errv; PRet errv; PRet errv]) /\
  (let s := c17_run 3 0 0 (firstn 42 nv_sched) in
   status (sg s) = ST_RUNNING /\ map own (sths s) = [true; false; false] /\ map retd (sths s) = [false; false; false]).
Proof. exact c_nonvacuous. Qed.
