(* C10 — mh_sha1_murmur3_x64_128 returns both digests as if computed separately.
   This file contains only statements, each closed by an already-proved lemma. *)
From Coq Require Import NArith List Arith Lia.
From ISAL Require Import Base.Words Base.ListUtil Spec.MD Spec.SHA1 Spec.MH Spec.Murmur3 Model.MhCtx Model.MhMurmur.
Import ListNotations.

Example C10_nonvacuous_placeholder :
  mhm_run 7 [[1;2;3]%N; []; [4]%N] = (mh_sha1 [1;2;3;4]%N, murmur3_x64_128 7 [1;2;3;4]%N).
Proof. vm_compute. reflexivity. Qed.
