(* C10 — mh_sha1_murmur3_x64_128 returns both digests as if computed separately.
   This file contains only statements, each closed by an already-proved lemma.

   L0: Spec/MH.v mh_sha1, Spec/Murmur3.v murmur3_x64_128 (both state words start as the seed).
   L1: Model/MhMurmur.v mhm_* : the update template of mh_sha1_murmur3_x64_128_update_base.c with the
       stitched block function (16 SHA-1 lanes and 64 murmur blocks per 1024-byte block), and
       the finalize of .._finalize_base.c (remaining whole murmur blocks of the partial buffer, murmur
       tail of total mod 16 bytes with the total length, then the mh_sha1 tail). *)
From Coq Require Import NArith List Arith Lia.
From ISAL Require Import Base.Words Base.ListUtil Spec.MD Spec.SHA1 Spec.MH Spec.Murmur3
  Model.MhCtx Model.MhMurmur Proofs.MhFacts Proofs.MhInst Proofs.MhMurmurFacts.
Import ListNotations.

(* every seed (the library takes a uint64_t; the model and the spec both reduce it mod 2^64),
   every stream shorter than 2^32 bytes, every partition into update calls *)
Theorem C10_stitched_eq_pair : forall (seed : N) (segs : list (list N)),
  (N.of_nat (length (concat segs)) < 2 ^ 32)%N ->
  mhm_finalize (fold_left mhm_update segs (mhm_init seed))
  = (mh_sha1 (concat segs), murmur3_x64_128 seed (concat segs)).
Proof. exact mhm_run_correct. Qed.
Print Assumptions C10_stitched_eq_pair.

Theorem C10_split_independent : forall (seed : N) (segsA segsB : list (list N)),
  concat segsA = concat segsB -> (N.of_nat (length (concat segsA)) < 2 ^ 32)%N ->
  mhm_run seed segsA = mhm_run seed segsB.
Proof. exact mhm_run_split_independent. Qed.
Print Assumptions C10_split_independent.

(* the murmur half of the stitched block function: 64 murmur blocks per multi-hash block, over
   k multi-hash blocks, is the plain murmur body over all 64 k blocks *)
Theorem C10_murmur_body_is_a_fold : forall (k : nat) (body : list N) (h : N * N),
  length body = k * 1024 ->
  fold_left (fun h blk => mhm_mur_blocks h blk (MH_BLOCK / 16)) (chunks 1024 body) h
  = fold_left mur_body (chunks 16 body) h.
Proof. exact mhm_mur_blocks_fold. Qed.
Print Assumptions C10_murmur_body_is_a_fold.

(* non-vacuity: seed 0x9747b28c, 1030 pattern bytes fed as 1000 + 24 + 0 + 6 (length mod 16 = 6,
   one whole multi-hash block): hypothesis met, both digests as the built library returns them *)
Example C10_nonvacuous :
  let stream := mh_pat_from 1030 3 in
  let segs := [firstn 1000 stream; firstn 24 (skipn 1000 stream); []; skipn 1024 stream] in
  concat segs = stream /\ (N.of_nat (length (concat segs)) < 2 ^ 32)%N /\
  mhm_finalize (fold_left mhm_update segs (mhm_init 0x9747b28c))
    = ([0x86711483; 0x1075c6b4; 0x90de19b8; 0xe171bf1d; 0x747f6369]%N, (0xbaac8bccd39fd37a, 0xfcd2ca897748b8cc)%N) /\
  murmur3_x64_128 0x9747b28c stream = (0xbaac8bccd39fd37a, 0xfcd2ca897748b8cc)%N.
Proof. vm_compute. repeat split; reflexivity. Qed.
