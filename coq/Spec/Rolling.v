(* L0 specification of the rolling hash (rolling_hash2): the hash of a window is
   a fixed function of the window's bytes and of the constant table T1; a run
   reports the first position at which the window hash satisfies the trigger. *)
From Coq Require Import NArith List Arith.
From ISAL Require Import Base.Words Base.ListUtil.
Import ListNotations.
Local Open Scope N_scope.

Section Rolling.
Variable T1 : N -> N.                      (* the library's constant table *)

Definition hstep (h b : N) : N := N.lxor (rol64 h 1) (T1 b).

(* hash of a window, oldest byte first *)
Definition H (win : list N) : N := fold_left hstep win 0.

(* the same function in closed form: xor of the table entries, the j-th youngest
   rotated by j *)
Fixpoint Hx (win : list N) : N :=
  match win with
  | [] => 0
  | b :: r => N.lxor (rol64 (T1 b) (N.of_nat (length r))) (Hx r)
  end.

Definition hitb (mask trig h : N) : bool := N.land h mask =? trig.

(* [seen] = every byte seen so far (reset bytes, earlier runs, this run);
   the window is its last w bytes *)
Definition win_hit (w : nat) (mask trig : N) (seen : list N) : bool :=
  hitb mask trig (H (lastn w seen)).

(* first n >= 1 such that the window ending after the n-th byte of [rest] hits *)
Fixpoint first_hit (w : nat) (mask trig : N) (seen rest : list N) (n : nat) : option nat :=
  match rest with
  | [] => None
  | b :: r =>
      let seen' := seen ++ [b] in
      if win_hit w mask trig seen' then Some (S n)
      else first_hit w mask trig seen' r (S n)
  end.

Inductive verdict := HIT | MAX.

(* what a run must report: (verdict, bytes consumed) *)
Definition run_spec (w : nat) (mask trig : N) (seen buf : list N) : verdict * nat :=
  match first_hit w mask trig seen buf 0 with
  | Some n => (HIT, n)
  | None => (MAX, length buf)
  end.

(* chunk boundaries of a whole stream, as absolute positions: position p is a boundary
   exactly when the window ending at p hits.  Nothing here mentions how the stream is
   cut into run calls. *)
Fixpoint boundaries (w : nat) (mask trig : N) (seen rest : list N) (pos : nat) : list nat :=
  match rest with
  | [] => []
  | b :: r =>
      let seen' := seen ++ [b] in
      if win_hit w mask trig seen' then S pos :: boundaries w mask trig seen' r (S pos)
      else boundaries w mask trig seen' r (S pos)
  end.

End Rolling.
