(* L0 specification of SHA-256 (FIPS 180-4, section 6.2) as an instance of Spec.MD.algo.
   Words are N values < 2^32; every addition wraps explicitly. *)
From Coq Require Import String Ascii.          (* only for the test strings; List is imported after it *)
From Coq Require Import NArith List Arith.
From ISAL Require Import Base.Words Base.ListUtil Spec.MD Spec.SHA1.
Import ListNotations.
Local Open Scope N_scope.

(* FIPS 180-4, 5.3.3 *)
Definition sha256_iv : list N :=
  [0x6a09e667; 0xbb67ae85; 0x3c6ef372; 0xa54ff53a; 0x510e527f; 0x9b05688c; 0x1f83d9ab; 0x5be0cd19].

(* 4.2.2 *)
Definition sha256_K : list N :=
  [0x428a2f98; 0x71374491; 0xb5c0fbcf; 0xe9b5dba5; 0x3956c25b; 0x59f111f1; 0x923f82a4; 0xab1c5ed5;
   0xd807aa98; 0x12835b01; 0x243185be; 0x550c7dc3; 0x72be5d74; 0x80deb1fe; 0x9bdc06a7; 0xc19bf174;
   0xe49b69c1; 0xefbe4786; 0x0fc19dc6; 0x240ca1cc; 0x2de92c6f; 0x4a7484aa; 0x5cb0a9dc; 0x76f988da;
   0x983e5152; 0xa831c66d; 0xb00327c8; 0xbf597fc7; 0xc6e00bf3; 0xd5a79147; 0x06ca6351; 0x14292967;
   0x27b70a85; 0x2e1b2138; 0x4d2c6dfc; 0x53380d13; 0x650a7354; 0x766a0abb; 0x81c2c92e; 0x92722c85;
   0xa2bfe8a1; 0xa81a664b; 0xc24b8b70; 0xc76c51a3; 0xd192e819; 0xd6990624; 0xf40e3585; 0x106aa070;
   0x19a4c116; 0x1e376c08; 0x2748774c; 0x34b0bcb5; 0x391c0cb3; 0x4ed8aa4a; 0x5b9cca4f; 0x682e6ff3;
   0x748f82ee; 0x78a5636f; 0x84c87814; 0x8cc70208; 0x90befffa; 0xa4506ceb; 0xbef9a3f7; 0xc67178f2].

(* 4.1.2 *)
Definition ch32 (x y z : N) : N := N.lxor (N.land x y) (N.land (not32 x) z).
Definition maj32 (x y z : N) : N := N.lxor (N.lxor (N.land x y) (N.land x z)) (N.land y z).
Definition sha256_S0 (x : N) : N := N.lxor (N.lxor (ror32 x 2) (ror32 x 13)) (ror32 x 22).
Definition sha256_S1 (x : N) : N := N.lxor (N.lxor (ror32 x 6) (ror32 x 11)) (ror32 x 25).
Definition sha256_s0 (x : N) : N := N.lxor (N.lxor (ror32 x 7) (ror32 x 18)) (N.shiftr x 3).
Definition sha256_s1 (x : N) : N := N.lxor (N.lxor (ror32 x 17) (ror32 x 19)) (N.shiftr x 10).

(* 6.2.2 step 1: W_t = s1 W_{t-2} + W_{t-7} + s0 W_{t-15} + W_{t-16};
   [w] is the window W_{t-16} .. W_{t-1}; returns W_t .. W_{t+n-1} *)
Fixpoint sha256_sched (n : nat) (w : list N) : list N :=
  match n with
  | O => []
  | S m =>
      match w with
      | [w0; w1; w2; w3; w4; w5; w6; w7; w8; w9; w10; w11; w12; w13; w14; w15] =>
          let x := add32 (add32 (sha256_s1 w14) w9) (add32 (sha256_s0 w1) w0) in
          x :: sha256_sched m [w1; w2; w3; w4; w5; w6; w7; w8; w9; w10; w11; w12; w13; w14; w15; x]
      | _ => []
      end
  end.

(* the 64 schedule words of a block of 16 words *)
Definition sha256_W (m : list N) : list N := m ++ sha256_sched 48 m.

Definition sha256_state := (N * N * N * N * N * N * N * N)%type.

(* 6.2.2 step 3 *)
Definition sha256_round (s : sha256_state) (wk : N * N) : sha256_state :=
  let '(a, b, c, d, e, f, g, h) := s in
  let '(w, k) := wk in
  let t1 := add32 (add32 (add32 h (sha256_S1 e)) (add32 (ch32 e f g) k)) w in
  let t2 := add32 (sha256_S0 a) (maj32 a b c) in
  (add32 t1 t2, a, b, c, add32 d t1, e, f, g).

(* chaining words -> 16 message words -> chaining words *)
Definition sha256_compress_words (hh : list N) (m : list N) : list N :=
  match hh with
  | [h0; h1; h2; h3; h4; h5; h6; h7] =>
      let '(a, b, c, d, e, f, g, h) :=
        fold_left sha256_round (combine (sha256_W m) sha256_K) (h0, h1, h2, h3, h4, h5, h6, h7) in
      [add32 h0 a; add32 h1 b; add32 h2 c; add32 h3 d; add32 h4 e; add32 h5 f; add32 h6 g; add32 h7 h]
  | _ => hh
  end.

Definition sha256_compress (h : list N) (block : list N) : list N :=
  sha256_compress_words h (be_words32 block).

Definition sha256_algo : algo := {|
  a_bsize := 64;
  a_lenfld := 8;
  a_iv := sha256_iv;
  a_compress := sha256_compress;
  a_lenbytes := N_to_be 8;
  a_final := fun h => h;
  a_digest_bytes := fun h => flat_map (N_to_be 4) h
|}.

Definition sha256 (msg : list N) : list N := md_hash_bytes sha256_algo msg.

(* ---- known-answer tests ---- *)

Local Definition str (s : string) : list N := map N_of_ascii (list_ascii_of_string s).
(* byte i = (7 i + 3) mod 256, i < n *)
Local Fixpoint pat_from (n : nat) (b : N) : list N :=
  match n with O => [] | S m => b :: pat_from m ((b + 7) mod 256) end.
Local Definition pat (n : N) : list N := pat_from (N.to_nat n) 3.

Example sha256_kat_empty :
  md_hash_bytes sha256_algo [] =
  [0xe3; 0xb0; 0xc4; 0x42; 0x98; 0xfc; 0x1c; 0x14; 0x9a; 0xfb; 0xf4; 0xc8; 0x99; 0x6f; 0xb9; 0x24;
   0x27; 0xae; 0x41; 0xe4; 0x64; 0x9b; 0x93; 0x4c; 0xa4; 0x95; 0x99; 0x1b; 0x78; 0x52; 0xb8; 0x55].
Proof. vm_compute. reflexivity. Qed.

Example sha256_kat_abc :
  md_hash_bytes sha256_algo (str "abc") =
  [0xba; 0x78; 0x16; 0xbf; 0x8f; 0x01; 0xcf; 0xea; 0x41; 0x41; 0x40; 0xde; 0x5d; 0xae; 0x22; 0x23;
   0xb0; 0x03; 0x61; 0xa3; 0x96; 0x17; 0x7a; 0x9c; 0xb4; 0x10; 0xff; 0x61; 0xf2; 0x00; 0x15; 0xad].
Proof. vm_compute. reflexivity. Qed.

Example sha256_kat_abc_words :
  md_hash sha256_algo (str "abc") =
  [0xba7816bf; 0x8f01cfea; 0x414140de; 0x5dae2223; 0xb00361a3; 0x96177a9c; 0xb410ff61; 0xf20015ad].
Proof. vm_compute. reflexivity. Qed.

Example sha256_kat_56 :
  md_hash_bytes sha256_algo (str "abcdbcdecdefdefgefghfghighijhijkijkljklmklmnlmnomnopnopq") =
  [0x24; 0x8d; 0x6a; 0x61; 0xd2; 0x06; 0x38; 0xb8; 0xe5; 0xc0; 0x26; 0x93; 0x0c; 0x3e; 0x60; 0x39;
   0xa3; 0x3c; 0xe4; 0x59; 0x64; 0xff; 0x21; 0x67; 0xf6; 0xec; 0xed; 0xd4; 0x19; 0xdb; 0x06; 0xc1].
Proof. vm_compute. reflexivity. Qed.

(* 200 bytes, byte i = (7 i + 3) mod 256; expected value from python3 hashlib *)
Example sha256_kat_200 :
  md_hash_bytes sha256_algo (pat 200) =
  [0x2c; 0x7e; 0x18; 0xc9; 0x42; 0xef; 0x06; 0x5b; 0x52; 0x6a; 0x2d; 0x4e; 0x55; 0x46; 0x28; 0x37;
   0x49; 0xcd; 0x3d; 0xdf; 0xb5; 0x1d; 0x8f; 0xc7; 0x1f; 0x42; 0x71; 0x73; 0x63; 0x68; 0x5f; 0x46].
Proof. vm_compute. reflexivity. Qed.
