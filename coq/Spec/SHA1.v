(* L0 specification of SHA-1 (FIPS 180-4, section 6.1) as an instance of Spec.MD.algo.
   Words are N values < 2^32; every addition wraps explicitly. *)
From Coq Require Import String Ascii.          (* only for the test strings; List is imported after it *)
From Coq Require Import NArith List Arith.
From ISAL Require Import Base.Words Base.ListUtil Spec.MD.
Import ListNotations.
Local Open Scope N_scope.

(* FIPS 180-4, 5.3.1 *)
Definition sha1_iv : list N :=
  [0x67452301; 0xefcdab89; 0x98badcfe; 0x10325476; 0xc3d2e1f0].

(* 4.1.1: f_t and 4.2.1: K_t, selected by q = t / 20 *)
Definition sha1_f (q b c d : N) : N :=
  match q with
  | 0 => N.lxor (N.land b c) (N.land (not32 b) d)                            (* Ch *)
  | 2 => N.lxor (N.lxor (N.land b c) (N.land b d)) (N.land c d)              (* Maj *)
  | _ => N.lxor (N.lxor b c) d                                               (* Parity *)
  end.

Definition sha1_k (q : N) : N :=
  match q with
  | 0 => 0x5a827999
  | 1 => 0x6ed9eba1
  | 2 => 0x8f1bbcdc
  | _ => 0xca62c1d6
  end.

(* t / 20 for t = 0 .. 79 *)
Definition sha1_q : list N :=
  repeat 0 20 ++ repeat 1 20 ++ repeat 2 20 ++ repeat 3 20.

(* one block of bytes -> its big-endian 32-bit words *)
Definition be32 (l : list N) : N :=
  match l with
  | [b0; b1; b2; b3] =>
      N.lor (N.lor (N.shiftl b0 24) (N.shiftl b1 16)) (N.lor (N.shiftl b2 8) b3)
  | _ => be_to_N l
  end.

Definition be_words32 (bytes : list N) : list N := map be32 (chunks 4 bytes).

(* 6.1.2 step 1: W_t = ROTL1 (W_{t-3} xor W_{t-8} xor W_{t-14} xor W_{t-16});
   [w] is the window W_{t-16} .. W_{t-1}; returns W_t .. W_{t+n-1} *)
Fixpoint sha1_sched (n : nat) (w : list N) : list N :=
  match n with
  | O => []
  | S m =>
      match w with
      | [w0; w1; w2; w3; w4; w5; w6; w7; w8; w9; w10; w11; w12; w13; w14; w15] =>
          let x := rol32 (N.lxor (N.lxor w13 w8) (N.lxor w2 w0)) 1 in
          x :: sha1_sched m [w1; w2; w3; w4; w5; w6; w7; w8; w9; w10; w11; w12; w13; w14; w15; x]
      | _ => []
      end
  end.

(* the 80 schedule words of a block of 16 words *)
Definition sha1_W (m : list N) : list N := m ++ sha1_sched 64 m.

Definition sha1_state := (N * N * N * N * N)%type.

(* 6.1.2 step 3 *)
Definition sha1_round (s : sha1_state) (wq : N * N) : sha1_state :=
  let '(a, b, c, d, e) := s in
  let '(w, q) := wq in
  let t := add32 (add32 (add32 (rol32 a 5) (sha1_f q b c d)) (add32 e (sha1_k q))) w in
  (t, a, rol32 b 30, c, d).

(* chaining words -> 16 message words -> chaining words *)
Definition sha1_compress_words (h : list N) (m : list N) : list N :=
  match h with
  | [h0; h1; h2; h3; h4] =>
      let '(a, b, c, d, e) :=
        fold_left sha1_round (combine (sha1_W m) sha1_q) (h0, h1, h2, h3, h4) in
      [add32 h0 a; add32 h1 b; add32 h2 c; add32 h3 d; add32 h4 e]
  | _ => h
  end.

Definition sha1_compress (h : list N) (block : list N) : list N :=
  sha1_compress_words h (be_words32 block).

Definition sha1_algo : algo := {|
  a_bsize := 64;
  a_lenfld := 8;
  a_iv := sha1_iv;
  a_compress := sha1_compress;
  a_lenbytes := N_to_be 8;
  a_final := fun h => h;
  a_digest_bytes := fun h => flat_map (N_to_be 4) h
|}.

Definition sha1 (msg : list N) : list N := md_hash_bytes sha1_algo msg.

(* ---- known-answer tests ---- *)

Local Definition str (s : string) : list N := map N_of_ascii (list_ascii_of_string s).
(* byte i = (7 i + 3) mod 256, i < n *)
Local Fixpoint pat_from (n : nat) (b : N) : list N :=
  match n with O => [] | S m => b :: pat_from m ((b + 7) mod 256) end.
Local Definition pat (n : N) : list N := pat_from (N.to_nat n) 3.

Example sha1_kat_empty :
  md_hash_bytes sha1_algo [] =
  [0xda; 0x39; 0xa3; 0xee; 0x5e; 0x6b; 0x4b; 0x0d; 0x32; 0x55; 0xbf; 0xef; 0x95; 0x60; 0x18; 0x90;
   0xaf; 0xd8; 0x07; 0x09].
Proof. vm_compute. reflexivity. Qed.

Example sha1_kat_abc :
  md_hash_bytes sha1_algo (str "abc") =
  [0xa9; 0x99; 0x3e; 0x36; 0x47; 0x06; 0x81; 0x6a; 0xba; 0x3e; 0x25; 0x71; 0x78; 0x50; 0xc2; 0x6c;
   0x9c; 0xd0; 0xd8; 0x9d].
Proof. vm_compute. reflexivity. Qed.

Example sha1_kat_abc_words :
  md_hash sha1_algo (str "abc") =
  [0xa9993e36; 0x4706816a; 0xba3e2571; 0x7850c26c; 0x9cd0d89d].
Proof. vm_compute. reflexivity. Qed.

Example sha1_kat_56 :
  md_hash_bytes sha1_algo (str "abcdbcdecdefdefgefghfghighijhijkijkljklmklmnlmnomnopnopq") =
  [0x84; 0x98; 0x3e; 0x44; 0x1c; 0x3b; 0xd2; 0x6e; 0xba; 0xae; 0x4a; 0xa1; 0xf9; 0x51; 0x29; 0xe5;
   0xe5; 0x46; 0x70; 0xf1].
Proof. vm_compute. reflexivity. Qed.

(* 200 bytes, byte i = (7 i + 3) mod 256; expected value from python3 hashlib *)
Example sha1_kat_200 :
  md_hash_bytes sha1_algo (pat 200) =
  [0x89; 0x2b; 0x67; 0x3c; 0xa3; 0xc6; 0x96; 0xab; 0x13; 0xab; 0x8a; 0xab; 0x3c; 0xf3; 0xab; 0xfb;
   0xc3; 0xaa; 0xeb; 0x3b].
Proof. vm_compute. reflexivity. Qed.
