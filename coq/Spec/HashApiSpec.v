(* L0 specification of the multi-buffer hash API as a trace acceptor: an abstract state
   (per context: the stream accepted since FIRST, and a phase) and a checker that says
   whether one observed response to one call is allowed.  Properties C01 (digests), C06
   (conservation, flush drains, lane bound), C11 (rejections change nothing) and C15
   (length accounting) are all conditions of this acceptor.  It is short on purpose. *)
From Coq Require Import NArith List Arith Bool.
From ISAL Require Import Base.Words Base.ListUtil Spec.MD.
Import ListNotations.

Inductive aphase :=
| ANew                      (* after isal_hash_ctx_init: reads as COMPLETE, no digest yet *)
| AComplete                 (* handed back after LAST/ENTIRE: digest = hash of the stream *)
| AIdle                     (* handed back after FIRST/UPDATE: accepts further segments *)
| AFlight (last : bool).    (* accepted and not yet handed back *)

Record actx := { s_stream : list N; s_phase : aphase }.

(* what the caller can see of one response *)
Record obs := {
  o_ret : option nat;      (* context handed back, if any *)
  o_status : N;            (* fields of the handed-back context *)
  o_error : N;
  o_total : N;
  o_digest : list N;
  o_rc : N                 (* return code of the isal_ entry point *)
}.

Inductive call := CSubmit (cid : nat) (buf : list N) (flags : N) | CFlush.

Section Spec.
Variable A : algo.
Variable K : nat.          (* the manager holds fewer than K contexts between calls *)

Definition in_flight (c : actx) : bool := match s_phase c with AFlight _ => true | _ => false end.
Definition n_flight (a : list actx) : nat := length (filter in_flight a).

Definition flag_bad (flags : N) : bool := negb (N.land flags (N.lnot 3 32) =? 0)%N.
Definition flag_first (flags : N) : bool := negb (N.land flags 1 =? 0)%N.
Definition flag_last (flags : N) : bool := negb (N.land flags 2 =? 0)%N.

(* the rejection rule of the API; None = accepted *)
Definition rejection (c : actx) (flags : N) : option N :=
  if flag_bad flags then Some 1%N                                   (* INVALID_FLAGS *)
  else match s_phase c with
       | AFlight _ => Some 2%N                                        (* ALREADY_PROCESSING *)
       | ANew | AComplete => if flag_first flags then None else Some 3%N   (* ALREADY_COMPLETED *)
       | AIdle => None
       end.

Definition rc_of (e : N) : N :=
  if (e =? 1)%N then 2011%N else if (e =? 2)%N then 2012%N else if (e =? 3)%N then 2013%N else 0%N.

Definition dummy : actx := {| s_stream := []; s_phase := ANew |}.

(* a context in flight is handed back: what must the caller see, and what does it become *)
Definition hand_back_ok (a : list actx) (r : nat) (o : obs) : option (list actx) :=
  let c := nth r a dummy in
  match s_phase c with
  | AFlight true =>
      if ((o_status o =? 4)%N && (o_total o =? w64 (N.of_nat (length (s_stream c))))%N &&
          (if list_eq_dec N.eq_dec (o_digest o) (md_hash A (s_stream c)) then true else false))%bool
      then Some (upd r {| s_stream := s_stream c; s_phase := AComplete |} a) else None
  | AFlight false =>
      if ((o_status o =? 0)%N && (o_total o =? w64 (N.of_nat (length (s_stream c))))%N)%bool
      then Some (upd r {| s_stream := s_stream c; s_phase := AIdle |} a) else None
  | _ => None                     (* handing back a context that is not held: lost/duplicated job *)
  end.

Definition spec_check (a : list actx) (c : call) (o : obs) : option (list actx) :=
  match c with
  | CSubmit cid buf flags =>
      if negb (cid <? length a)%nat then None else
      let ac := nth cid a dummy in
      match rejection ac flags with
      | Some e =>
          (* handed straight back with the matching error; nothing else changes; the status
             the caller sees is the one the phase implies *)
          if (match o_ret o with Some r => (r =? cid)%nat | None => false end &&
              (o_error o =? e)%N && (o_rc o =? rc_of e)%N &&
              match s_phase ac with
              | ANew => (o_status o =? 4)%N
              | AComplete => ((o_status o =? 4)%N &&
                             if list_eq_dec N.eq_dec (o_digest o) (md_hash A (s_stream ac)) then true else false)
              | AIdle => (o_status o =? 0)%N
              | AFlight _ => negb (N.land (o_status o) 1 =? 0)%N
              end)%bool
          then Some a else None
      | None =>
          let sigma := (if flag_first flags then [] else s_stream ac) ++ buf in
          let a1 := upd cid {| s_stream := sigma; s_phase := AFlight (flag_last flags) |} a in
          if negb (o_rc o =? 0)%N then None else
          match o_ret o with
          | None => if (n_flight a1 <? K)%nat then Some a1 else None
          | Some r =>
              if ((r =? cid)%nat && negb (o_error o =? 0)%N)%bool then None else
              match hand_back_ok a1 r o with
              | Some a2 => if (n_flight a2 <? K)%nat then Some a2 else None
              | None => None
              end
          end
      end
  | CFlush =>
      if negb (o_rc o =? 0)%N then None else
      match o_ret o with
      | None => if (n_flight a =? 0)%nat then Some a else None     (* NULL exactly when nothing is held *)
      | Some r => hand_back_ok a r o
      end
  end.

(* run the acceptor over a whole trace *)
Fixpoint accepts (a : list actx) (tr : list (call * obs)) : bool :=
  match tr with
  | [] => true
  | (c, o) :: rest => match spec_check a c o with Some a' => accepts a' rest | None => false end
  end.

End Spec.
