(* FIPS-197 (AES) as executable Coq.

   Conventions
   - a byte is an N < 256, a byte string is a list N;
   - the state is the list of its 16 bytes in FIPS-197 input order in[0..15]
     (column-major: the byte in row r, column c is element r + 4c);
   - a round key is a list of 16 bytes in the same order, i.e. the four words
     w[4i..4i+3] of the key schedule, each word written most significant byte
     first exactly as FIPS-197 prints it;
   - key_expansion returns the Nr+1 round keys of the ENCRYPTION schedule;
     dec_schedule turns them into the Equivalent Inverse Cipher schedule of
     FIPS-197 5.3.5 (what AESIMC/AESDEC based code uses).

   The executable path uses the literal S-box tables and xtime; the S-box is
   also defined from first principles (sbox_def) and the two are proved equal
   on all 256 bytes. *)
From Coq Require Import NArith List Bool Arith Lia.
From ISAL Require Import Base.Words Base.ListUtil.
Import ListNotations.
Local Open Scope N_scope.

(* ------------------------------------------------------------------ *)
(* GF(2^8), reduction polynomial x^8 + x^4 + x^3 + x + 1 (0x11b)        *)

(* multiplication by x *)
(* (the mask makes xtime additive over N.lxor on all of N, not only on bytes) *)
Definition xtime (b : N) : N :=
  let s := N.land (N.shiftl b 1) 255 in
  if N.testbit b 7 then N.lxor s 0x1b else s.

(* shift-and-add multiplication, 8 steps (b < 256) *)
Fixpoint gf_mul_f (n : nat) (a b : N) : N :=
  match n with
  | O => 0
  | S n' => N.lxor (if N.odd b then a else 0) (gf_mul_f n' (xtime a) (N.shiftr b 1))
  end.
Definition gf_mul (a b : N) : N := gf_mul_f 8 a b.

Fixpoint gf_pow (a : N) (n : nat) : N :=
  match n with O => 1 | S n' => gf_mul a (gf_pow a n') end.

(* multiplicative inverse, with 0 mapped to 0: a^254 *)
Definition gf_inv (a : N) : N := gf_pow a 254.

(* the affine transformation of FIPS-197 5.1.1:
   b'_i = b_i + b_(i+4) + b_(i+5) + b_(i+6) + b_(i+7) + c_i, c = 0x63 *)
Definition sbox_affine (b : N) : N :=
  N.lxor (N.lxor (N.lxor (N.lxor (N.lxor b (rol 8 b 1)) (rol 8 b 2)) (rol 8 b 3)) (rol 8 b 4)) 0x63.

Definition sbox_def (b : N) : N := sbox_affine (gf_inv b).

Definition all_bytes : list N := map N.of_nat (seq 0 256).

(* ------------------------------------------------------------------ *)
(* literal tables (FIPS-197 figures 7 and 14)                          *)

Definition sbox : list N :=
  [0x63; 0x7c; 0x77; 0x7b; 0xf2; 0x6b; 0x6f; 0xc5; 0x30; 0x01; 0x67; 0x2b; 0xfe; 0xd7; 0xab; 0x76;
   0xca; 0x82; 0xc9; 0x7d; 0xfa; 0x59; 0x47; 0xf0; 0xad; 0xd4; 0xa2; 0xaf; 0x9c; 0xa4; 0x72; 0xc0;
   0xb7; 0xfd; 0x93; 0x26; 0x36; 0x3f; 0xf7; 0xcc; 0x34; 0xa5; 0xe5; 0xf1; 0x71; 0xd8; 0x31; 0x15;
   0x04; 0xc7; 0x23; 0xc3; 0x18; 0x96; 0x05; 0x9a; 0x07; 0x12; 0x80; 0xe2; 0xeb; 0x27; 0xb2; 0x75;
   0x09; 0x83; 0x2c; 0x1a; 0x1b; 0x6e; 0x5a; 0xa0; 0x52; 0x3b; 0xd6; 0xb3; 0x29; 0xe3; 0x2f; 0x84;
   0x53; 0xd1; 0x00; 0xed; 0x20; 0xfc; 0xb1; 0x5b; 0x6a; 0xcb; 0xbe; 0x39; 0x4a; 0x4c; 0x58; 0xcf;
   0xd0; 0xef; 0xaa; 0xfb; 0x43; 0x4d; 0x33; 0x85; 0x45; 0xf9; 0x02; 0x7f; 0x50; 0x3c; 0x9f; 0xa8;
   0x51; 0xa3; 0x40; 0x8f; 0x92; 0x9d; 0x38; 0xf5; 0xbc; 0xb6; 0xda; 0x21; 0x10; 0xff; 0xf3; 0xd2;
   0xcd; 0x0c; 0x13; 0xec; 0x5f; 0x97; 0x44; 0x17; 0xc4; 0xa7; 0x7e; 0x3d; 0x64; 0x5d; 0x19; 0x73;
   0x60; 0x81; 0x4f; 0xdc; 0x22; 0x2a; 0x90; 0x88; 0x46; 0xee; 0xb8; 0x14; 0xde; 0x5e; 0x0b; 0xdb;
   0xe0; 0x32; 0x3a; 0x0a; 0x49; 0x06; 0x24; 0x5c; 0xc2; 0xd3; 0xac; 0x62; 0x91; 0x95; 0xe4; 0x79;
   0xe7; 0xc8; 0x37; 0x6d; 0x8d; 0xd5; 0x4e; 0xa9; 0x6c; 0x56; 0xf4; 0xea; 0x65; 0x7a; 0xae; 0x08;
   0xba; 0x78; 0x25; 0x2e; 0x1c; 0xa6; 0xb4; 0xc6; 0xe8; 0xdd; 0x74; 0x1f; 0x4b; 0xbd; 0x8b; 0x8a;
   0x70; 0x3e; 0xb5; 0x66; 0x48; 0x03; 0xf6; 0x0e; 0x61; 0x35; 0x57; 0xb9; 0x86; 0xc1; 0x1d; 0x9e;
   0xe1; 0xf8; 0x98; 0x11; 0x69; 0xd9; 0x8e; 0x94; 0x9b; 0x1e; 0x87; 0xe9; 0xce; 0x55; 0x28; 0xdf;
   0x8c; 0xa1; 0x89; 0x0d; 0xbf; 0xe6; 0x42; 0x68; 0x41; 0x99; 0x2d; 0x0f; 0xb0; 0x54; 0xbb; 0x16].

Definition inv_sbox : list N :=
  [0x52; 0x09; 0x6a; 0xd5; 0x30; 0x36; 0xa5; 0x38; 0xbf; 0x40; 0xa3; 0x9e; 0x81; 0xf3; 0xd7; 0xfb;
   0x7c; 0xe3; 0x39; 0x82; 0x9b; 0x2f; 0xff; 0x87; 0x34; 0x8e; 0x43; 0x44; 0xc4; 0xde; 0xe9; 0xcb;
   0x54; 0x7b; 0x94; 0x32; 0xa6; 0xc2; 0x23; 0x3d; 0xee; 0x4c; 0x95; 0x0b; 0x42; 0xfa; 0xc3; 0x4e;
   0x08; 0x2e; 0xa1; 0x66; 0x28; 0xd9; 0x24; 0xb2; 0x76; 0x5b; 0xa2; 0x49; 0x6d; 0x8b; 0xd1; 0x25;
   0x72; 0xf8; 0xf6; 0x64; 0x86; 0x68; 0x98; 0x16; 0xd4; 0xa4; 0x5c; 0xcc; 0x5d; 0x65; 0xb6; 0x92;
   0x6c; 0x70; 0x48; 0x50; 0xfd; 0xed; 0xb9; 0xda; 0x5e; 0x15; 0x46; 0x57; 0xa7; 0x8d; 0x9d; 0x84;
   0x90; 0xd8; 0xab; 0x00; 0x8c; 0xbc; 0xd3; 0x0a; 0xf7; 0xe4; 0x58; 0x05; 0xb8; 0xb3; 0x45; 0x06;
   0xd0; 0x2c; 0x1e; 0x8f; 0xca; 0x3f; 0x0f; 0x02; 0xc1; 0xaf; 0xbd; 0x03; 0x01; 0x13; 0x8a; 0x6b;
   0x3a; 0x91; 0x11; 0x41; 0x4f; 0x67; 0xdc; 0xea; 0x97; 0xf2; 0xcf; 0xce; 0xf0; 0xb4; 0xe6; 0x73;
   0x96; 0xac; 0x74; 0x22; 0xe7; 0xad; 0x35; 0x85; 0xe2; 0xf9; 0x37; 0xe8; 0x1c; 0x75; 0xdf; 0x6e;
   0x47; 0xf1; 0x1a; 0x71; 0x1d; 0x29; 0xc5; 0x89; 0x6f; 0xb7; 0x62; 0x0e; 0xaa; 0x18; 0xbe; 0x1b;
   0xfc; 0x56; 0x3e; 0x4b; 0xc6; 0xd2; 0x79; 0x20; 0x9a; 0xdb; 0xc0; 0xfe; 0x78; 0xcd; 0x5a; 0xf4;
   0x1f; 0xdd; 0xa8; 0x33; 0x88; 0x07; 0xc7; 0x31; 0xb1; 0x12; 0x10; 0x59; 0x27; 0x80; 0xec; 0x5f;
   0x60; 0x51; 0x7f; 0xa9; 0x19; 0xb5; 0x4a; 0x0d; 0x2d; 0xe5; 0x7a; 0x9f; 0x93; 0xc9; 0x9c; 0xef;
   0xa0; 0xe0; 0x3b; 0x4d; 0xae; 0x2a; 0xf5; 0xb0; 0xc8; 0xeb; 0xbb; 0x3c; 0x83; 0x53; 0x99; 0x61;
   0x17; 0x2b; 0x04; 0x7e; 0xba; 0x77; 0xd6; 0x26; 0xe1; 0x69; 0x14; 0x63; 0x55; 0x21; 0x0c; 0x7d].

Definition sub_byte (b : N) : N := nth (N.to_nat b) sbox 0.
Definition inv_sub_byte (b : N) : N := nth (N.to_nat b) inv_sbox 0.

(* ------------------------------------------------------------------ *)
(* round transformations                                                *)

Definition sub_bytes (s : list N) : list N := map sub_byte s.
Definition inv_sub_bytes (s : list N) : list N := map inv_sub_byte s.

(* s'[r,c] = s[r,(c+r) mod 4] *)
Definition shift_rows (s : list N) : list N :=
  match s with
  | [s0;s1;s2;s3;s4;s5;s6;s7;s8;s9;s10;s11;s12;s13;s14;s15] =>
      [s0;s5;s10;s15; s4;s9;s14;s3; s8;s13;s2;s7; s12;s1;s6;s11]
  | _ => s
  end.

(* s'[r,(c+r) mod 4] = s[r,c] *)
Definition inv_shift_rows (s : list N) : list N :=
  match s with
  | [s0;s1;s2;s3;s4;s5;s6;s7;s8;s9;s10;s11;s12;s13;s14;s15] =>
      [s0;s13;s10;s7; s4;s1;s14;s11; s8;s5;s2;s15; s12;s9;s6;s3]
  | _ => s
  end.

Definition mul2 (b : N) : N := xtime b.
Definition mul3 (b : N) : N := N.lxor (xtime b) b.
Definition mul9 (b : N) : N := N.lxor (xtime (xtime (xtime b))) b.
Definition mul11 (b : N) : N := N.lxor (N.lxor (xtime (xtime (xtime b))) (xtime b)) b.
Definition mul13 (b : N) : N := N.lxor (N.lxor (xtime (xtime (xtime b))) (xtime (xtime b))) b.
Definition mul14 (b : N) : N := N.lxor (N.lxor (xtime (xtime (xtime b))) (xtime (xtime b))) (xtime b).

Definition xor4 (a b c d : N) : N := N.lxor (N.lxor (N.lxor a b) c) d.

(* one column times the matrix [02 03 01 01; 01 02 03 01; 01 01 02 03; 03 01 01 02] *)
Definition mix_col (a0 a1 a2 a3 : N) : list N :=
  [ xor4 (mul2 a0) (mul3 a1) a2 a3;
    xor4 a0 (mul2 a1) (mul3 a2) a3;
    xor4 a0 a1 (mul2 a2) (mul3 a3);
    xor4 (mul3 a0) a1 a2 (mul2 a3) ].

(* ... times [0e 0b 0d 09; 09 0e 0b 0d; 0d 09 0e 0b; 0b 0d 09 0e] *)
Definition inv_mix_col (a0 a1 a2 a3 : N) : list N :=
  [ xor4 (mul14 a0) (mul11 a1) (mul13 a2) (mul9 a3);
    xor4 (mul9 a0) (mul14 a1) (mul11 a2) (mul13 a3);
    xor4 (mul13 a0) (mul9 a1) (mul14 a2) (mul11 a3);
    xor4 (mul11 a0) (mul13 a1) (mul9 a2) (mul14 a3) ].

Definition mix_columns (s : list N) : list N :=
  match s with
  | [s0;s1;s2;s3;s4;s5;s6;s7;s8;s9;s10;s11;s12;s13;s14;s15] =>
      mix_col s0 s1 s2 s3 ++ mix_col s4 s5 s6 s7 ++ mix_col s8 s9 s10 s11 ++ mix_col s12 s13 s14 s15
  | _ => s
  end.

Definition inv_mix_columns (s : list N) : list N :=
  match s with
  | [s0;s1;s2;s3;s4;s5;s6;s7;s8;s9;s10;s11;s12;s13;s14;s15] =>
      inv_mix_col s0 s1 s2 s3 ++ inv_mix_col s4 s5 s6 s7 ++ inv_mix_col s8 s9 s10 s11
      ++ inv_mix_col s12 s13 s14 s15
  | _ => s
  end.

(* the result has the length of the shorter argument *)
Definition add_round_key (k s : list N) : list N := xorb_list s k.

(* ------------------------------------------------------------------ *)
(* KeyExpansion, FIPS-197 5.2, generic in Nk                            *)

Definition sub_word (w : list N) : list N := map sub_byte w.
Definition rot_word (w : list N) : list N :=
  match w with [] => [] | a :: r => r ++ [a] end.

(* Produces n further words.  racc holds the words produced so far, the most
   recent first, so w[i-1] is its head and w[i-Nk] its element Nk-1.
   j = i mod Nk, rc = the first byte of Rcon[i / Nk] (advanced when used). *)
Fixpoint expand_words (n nk j : nat) (rc : N) (racc : list (list N)) : list (list N) :=
  match n with
  | O => racc
  | S n' =>
      let prev := hd [] racc in
      let old := nth (Nat.pred nk) racc [] in
      let temp :=
        if Nat.eqb j 0 then xorb_list (sub_word (rot_word prev)) [rc; 0; 0; 0]
        else if Nat.ltb 6 nk && Nat.eqb j 4 then sub_word prev
        else prev in
      let rc' := if Nat.eqb j 0 then xtime rc else rc in
      let j' := if Nat.eqb (S j) nk then O else S j in
      expand_words n' nk j' rc' (xorb_list old temp :: racc)
  end.

(* all 4*(Nr+1) words w[0..], Nr = Nk + 6 *)
Definition key_words (k : list N) : list (list N) :=
  let w0 := chunks 4 k in
  let nk := length w0 in
  rev (expand_words (4 * (nk + 7) - nk) nk 0 1 (rev w0)).

Definition valid_key_len (n : nat) : bool :=
  Nat.eqb n 16 || Nat.eqb n 24 || Nat.eqb n 32.

(* round keys 0..Nr, 16 bytes each; [] for an unsupported key length *)
Definition key_expansion (k : list N) : list (list N) :=
  if valid_key_len (length k) then map (@concat N) (chunks 4 (key_words k)) else [].

(* ------------------------------------------------------------------ *)
(* Cipher (5.1), InvCipher (5.3), Equivalent Inverse Cipher (5.3.5)     *)

(* rounds 1..Nr; the last key in the list is used without MixColumns *)
Fixpoint enc_rounds (s : list N) (rks : list (list N)) : list N :=
  match rks with
  | [] => s
  | rk :: rest =>
      match rest with
      | [] => add_round_key rk (shift_rows (sub_bytes s))
      | _ => enc_rounds (add_round_key rk (mix_columns (shift_rows (sub_bytes s)))) rest
      end
  end.

Definition cipher (rks : list (list N)) (blk : list N) : list N :=
  match rks with
  | [] => blk
  | rk0 :: rest => enc_rounds (add_round_key rk0 blk) rest
  end.

(* rounds Nr-1..0 of InvCipher; keys given in the order they are used *)
Fixpoint dec_rounds (s : list N) (rks : list (list N)) : list N :=
  match rks with
  | [] => s
  | rk :: rest =>
      match rest with
      | [] => add_round_key rk (inv_sub_bytes (inv_shift_rows s))
      | _ => dec_rounds (inv_mix_columns (add_round_key rk (inv_sub_bytes (inv_shift_rows s)))) rest
      end
  end.

(* the straightforward inverse cipher; rks is the ENCRYPTION schedule *)
Definition inv_cipher (rks : list (list N)) (blk : list N) : list N :=
  match rev rks with
  | [] => blk
  | rkn :: rest => dec_rounds (add_round_key rkn blk) rest
  end.

Fixpoint map_but_last {A} (f : A -> A) (l : list A) : list A :=
  match l with
  | [] => []
  | x :: r => match r with [] => [x] | _ => f x :: map_but_last f r end
  end.

(* encryption schedule -> Equivalent Inverse Cipher schedule: reversed, with
   InvMixColumns applied to every key but the first and the last *)
Definition dec_schedule (rks : list (list N)) : list (list N) :=
  match rev rks with
  | [] => []
  | first :: rest => first :: map_but_last inv_mix_columns rest
  end.

Fixpoint eq_dec_rounds (s : list N) (dks : list (list N)) : list N :=
  match dks with
  | [] => s
  | dk :: rest =>
      match rest with
      | [] => add_round_key dk (inv_shift_rows (inv_sub_bytes s))
      | _ => eq_dec_rounds (add_round_key dk (inv_mix_columns (inv_shift_rows (inv_sub_bytes s)))) rest
      end
  end.

(* EqInvCipher; dks is a schedule as produced by dec_schedule *)
Definition eq_inv_cipher (dks : list (list N)) (blk : list N) : list N :=
  match dks with
  | [] => blk
  | dk0 :: rest => eq_dec_rounds (add_round_key dk0 blk) rest
  end.

Definition aes_enc (k blk : list N) : list N := cipher (key_expansion k) blk.
Definition aes_dec (k blk : list N) : list N := inv_cipher (key_expansion k) blk.

(* ------------------------------------------------------------------ *)
(* the tables agree with the definition                                 *)

Lemma sbox_matches_definition :
  forallb (fun b => N.eqb (sub_byte b) (sbox_def b)) all_bytes = true.
Proof. vm_compute. reflexivity. Qed.

Lemma gf_inv_is_inverse :
  forallb (fun b => N.eqb (gf_mul b (gf_inv b)) (if N.eqb b 0 then 0 else 1)) all_bytes = true.
Proof. vm_compute. reflexivity. Qed.

Lemma inv_sbox_inverts_sbox :
  forallb (fun b => N.eqb (inv_sub_byte (sub_byte b)) b) all_bytes = true.
Proof. vm_compute. reflexivity. Qed.

Lemma sbox_inverts_inv_sbox :
  forallb (fun b => N.eqb (sub_byte (inv_sub_byte b)) b) all_bytes = true.
Proof. vm_compute. reflexivity. Qed.

Lemma sbox_range :
  forallb (fun b => N.ltb (sub_byte b) 256 && N.ltb (inv_sub_byte b) 256) all_bytes = true.
Proof. vm_compute. reflexivity. Qed.

(* the mulN helpers are multiplication by the constant in GF(2^8) *)
Lemma mul_consts_match_gf_mul :
  forallb (fun b => N.eqb (mul2 b) (gf_mul b 2) && N.eqb (mul3 b) (gf_mul b 3)
                    && N.eqb (mul9 b) (gf_mul b 9) && N.eqb (mul11 b) (gf_mul b 11)
                    && N.eqb (mul13 b) (gf_mul b 13) && N.eqb (mul14 b) (gf_mul b 14))
          all_bytes = true.
Proof. vm_compute. reflexivity. Qed.

(* ------------------------------------------------------------------ *)
(* algebraic facts used later                                           *)

Definition is_byte (b : N) : Prop := b < 256.

Lemma in_all_bytes : forall b, b < 256 -> In b all_bytes.
Proof.
  intros b Hb. unfold all_bytes. apply in_map_iff.
  exists (N.to_nat b). split.
  - apply N2Nat.id.
  - apply in_seq. lia.
Qed.

Lemma bytes_sweep : forall (P : N -> bool),
  forallb P all_bytes = true -> forall b, b < 256 -> P b = true.
Proof.
  intros P H b Hb. rewrite forallb_forall in H. apply H. apply in_all_bytes. exact Hb.
Qed.

Lemma inv_sub_byte_sub_byte : forall b, b < 256 -> inv_sub_byte (sub_byte b) = b.
Proof.
  intros b Hb. apply N.eqb_eq.
  exact (bytes_sweep _ inv_sbox_inverts_sbox b Hb).
Qed.

Lemma sub_byte_inv_sub_byte : forall b, b < 256 -> sub_byte (inv_sub_byte b) = b.
Proof.
  intros b Hb. apply N.eqb_eq.
  exact (bytes_sweep _ sbox_inverts_inv_sbox b Hb).
Qed.

Lemma sub_byte_lt : forall b, b < 256 -> sub_byte b < 256.
Proof.
  intros b Hb. pose proof (bytes_sweep _ sbox_range b Hb) as H.
  apply andb_true_iff in H. apply N.ltb_lt. tauto.
Qed.

Lemma inv_sub_byte_lt : forall b, b < 256 -> inv_sub_byte b < 256.
Proof.
  intros b Hb. pose proof (bytes_sweep _ sbox_range b Hb) as H.
  apply andb_true_iff in H. apply N.ltb_lt. tauto.
Qed.

(* (a) *)
Lemma inv_sub_bytes_sub_bytes : forall s,
  Forall (fun b => b < 256) s -> inv_sub_bytes (sub_bytes s) = s.
Proof.
  intros s H. unfold inv_sub_bytes, sub_bytes. rewrite map_map.
  induction H as [|b s Hb _ IH]; simpl; [reflexivity|].
  rewrite inv_sub_byte_sub_byte by exact Hb. rewrite IH. reflexivity.
Qed.

Lemma sub_bytes_inv_sub_bytes : forall s,
  Forall (fun b => b < 256) s -> sub_bytes (inv_sub_bytes s) = s.
Proof.
  intros s H. unfold inv_sub_bytes, sub_bytes. rewrite map_map.
  induction H as [|b s Hb _ IH]; simpl; [reflexivity|].
  rewrite sub_byte_inv_sub_byte by exact Hb. rewrite IH. reflexivity.
Qed.

Lemma sub_bytes_bytes : forall s,
  Forall (fun b => b < 256) s -> Forall (fun b => b < 256) (sub_bytes s).
Proof.
  intros s H. unfold sub_bytes. induction H; simpl; constructor; auto using sub_byte_lt.
Qed.

Lemma inv_sub_bytes_bytes : forall s,
  Forall (fun b => b < 256) s -> Forall (fun b => b < 256) (inv_sub_bytes s).
Proof.
  intros s H. unfold inv_sub_bytes. induction H; simpl; constructor; auto using inv_sub_byte_lt.
Qed.

Lemma sub_bytes_length : forall s, length (sub_bytes s) = length s.
Proof. intros; apply map_length. Qed.
Lemma inv_sub_bytes_length : forall s, length (inv_sub_bytes s) = length s.
Proof. intros; apply map_length. Qed.

Ltac list16 s :=
  do 16 (destruct s as [|? s]; [discriminate|]); destruct s; [|discriminate].

(* (b) *)
Lemma inv_shift_rows_shift_rows : forall s,
  length s = 16%nat -> inv_shift_rows (shift_rows s) = s.
Proof. intros s H. list16 s. reflexivity. Qed.

Lemma shift_rows_inv_shift_rows : forall s,
  length s = 16%nat -> shift_rows (inv_shift_rows s) = s.
Proof. intros s H. list16 s. reflexivity. Qed.

Lemma shift_rows_length : forall s, length (shift_rows s) = length s.
Proof.
  intros s. destruct (Nat.eq_dec (length s) 16) as [H|H].
  - list16 s. reflexivity.
  - unfold shift_rows.
    do 16 (destruct s as [|? s]; [reflexivity|]). destruct s; [|reflexivity].
    exfalso. apply H. reflexivity.
Qed.

Lemma inv_shift_rows_length : forall s, length (inv_shift_rows s) = length s.
Proof.
  intros s. destruct (Nat.eq_dec (length s) 16) as [H|H].
  - list16 s. reflexivity.
  - unfold inv_shift_rows.
    do 16 (destruct s as [|? s]; [reflexivity|]). destruct s; [|reflexivity].
    exfalso. apply H. reflexivity.
Qed.

(* ShiftRows and SubBytes commute (used by the Equivalent Inverse Cipher) *)
Lemma inv_shift_rows_inv_sub_bytes : forall s,
  inv_shift_rows (inv_sub_bytes s) = inv_sub_bytes (inv_shift_rows s).
Proof.
  intros s. destruct (Nat.eq_dec (length s) 16) as [H|H].
  - list16 s. reflexivity.
  - unfold inv_shift_rows, inv_sub_bytes.
    do 16 (destruct s as [|? s]; [reflexivity|]). destruct s; [|reflexivity].
    exfalso. apply H. reflexivity.
Qed.

Lemma xorb_list_cancel : forall s k,
  length k = length s -> xorb_list (xorb_list s k) k = s.
Proof.
  unfold xorb_list. induction s as [|a s IH]; intros [|b k] H; simpl in *; try discriminate.
  - reflexivity.
  - rewrite IH by (injection H; auto).
    rewrite N.lxor_assoc, N.lxor_nilpotent, N.lxor_0_r. reflexivity.
Qed.

(* (c) *)
Lemma add_round_key_involutive : forall k s,
  length k = length s -> add_round_key k (add_round_key k s) = s.
Proof. intros k s H. unfold add_round_key. apply xorb_list_cancel. exact H. Qed.

Lemma xorb_list_length : forall a b,
  length a = length b -> length (xorb_list a b) = length a.
Proof.
  intros a b H. unfold xorb_list. rewrite map_length, combine_length, <- H.
  apply Nat.min_id.
Qed.

Lemma add_round_key_length : forall k s,
  length k = length s -> length (add_round_key k s) = length s.
Proof. intros k s H. unfold add_round_key. apply xorb_list_length. symmetry. exact H. Qed.

(* ------------------------------------------------------------------ *)
(* InvMixColumns inverts MixColumns: by additivity over xor, it is enough
   to check the columns with a single non-zero byte (4 x 256 cases)      *)

Lemma if_xorb_lxor : forall (p q : bool) (c : N),
  (if xorb p q then c else 0) = N.lxor (if p then c else 0) (if q then c else 0).
Proof. intros [|] [|] c; simpl; rewrite ?N.lxor_nilpotent, ?N.lxor_0_r; reflexivity. Qed.

Lemma xtime_alt : forall b,
  xtime b = N.lxor (N.land (N.shiftl b 1) 255) (if N.testbit b 7 then 0x1b else 0).
Proof. intros b. unfold xtime. destruct (N.testbit b 7); [reflexivity|]. rewrite N.lxor_0_r. reflexivity. Qed.

Lemma lxor_swap4 : forall a b c d, N.lxor (N.lxor a b) (N.lxor c d) = N.lxor (N.lxor a c) (N.lxor b d).
Proof.
  intros. apply N.bits_inj. intros n. rewrite !N.lxor_spec.
  destruct (N.testbit a n), (N.testbit b n), (N.testbit c n), (N.testbit d n); reflexivity.
Qed.

Lemma land_lxor_l : forall a b c, N.land (N.lxor a b) c = N.lxor (N.land a c) (N.land b c).
Proof.
  intros. apply N.bits_inj. intros n. rewrite !N.lxor_spec, !N.land_spec, !N.lxor_spec.
  destruct (N.testbit a n), (N.testbit b n), (N.testbit c n); reflexivity.
Qed.

Lemma xtime_lxor : forall a b, xtime (N.lxor a b) = N.lxor (xtime a) (xtime b).
Proof.
  intros a b. rewrite !xtime_alt.
  rewrite N.shiftl_lxor, land_lxor_l, N.lxor_spec, if_xorb_lxor.
  apply lxor_swap4.
Qed.

Lemma mul2_lxor : forall a b, mul2 (N.lxor a b) = N.lxor (mul2 a) (mul2 b).
Proof. exact xtime_lxor. Qed.
Lemma mul3_lxor : forall a b, mul3 (N.lxor a b) = N.lxor (mul3 a) (mul3 b).
Proof. intros. unfold mul3. rewrite !xtime_lxor. apply lxor_swap4. Qed.
Lemma mul9_lxor : forall a b, mul9 (N.lxor a b) = N.lxor (mul9 a) (mul9 b).
Proof. intros. unfold mul9. rewrite !xtime_lxor. apply lxor_swap4. Qed.
Lemma mul11_lxor : forall a b, mul11 (N.lxor a b) = N.lxor (mul11 a) (mul11 b).
Proof. intros. unfold mul11. rewrite !xtime_lxor. rewrite (lxor_swap4 (xtime (xtime (xtime a)))). apply lxor_swap4. Qed.
Lemma mul13_lxor : forall a b, mul13 (N.lxor a b) = N.lxor (mul13 a) (mul13 b).
Proof. intros. unfold mul13. rewrite !xtime_lxor. rewrite (lxor_swap4 (xtime (xtime (xtime a)))). apply lxor_swap4. Qed.
Lemma mul14_lxor : forall a b, mul14 (N.lxor a b) = N.lxor (mul14 a) (mul14 b).
Proof. intros. unfold mul14. rewrite !xtime_lxor. rewrite (lxor_swap4 (xtime (xtime (xtime a)))). apply lxor_swap4. Qed.

Lemma xor4_lxor : forall a b c d a' b' c' d',
  xor4 (N.lxor a a') (N.lxor b b') (N.lxor c c') (N.lxor d d') =
  N.lxor (xor4 a b c d) (xor4 a' b' c' d').
Proof.
  intros. unfold xor4. rewrite (lxor_swap4 a a' b b'), (lxor_swap4 _ _ c c'). apply lxor_swap4.
Qed.

(* the four output bytes of InvMixColumns after MixColumns on one column *)
Definition imc_mc (r : nat) (a0 a1 a2 a3 : N) : N :=
  nth r (inv_mix_col (xor4 (mul2 a0) (mul3 a1) a2 a3) (xor4 a0 (mul2 a1) (mul3 a2) a3)
                     (xor4 a0 a1 (mul2 a2) (mul3 a3)) (xor4 (mul3 a0) a1 a2 (mul2 a3))) 0.

Lemma imc_mc_lxor : forall r a b c d a' b' c' d', (r < 4)%nat ->
  imc_mc r (N.lxor a a') (N.lxor b b') (N.lxor c c') (N.lxor d d') =
  N.lxor (imc_mc r a b c d) (imc_mc r a' b' c' d').
Proof.
  intros r a b c d a' b' c' d' Hr.
  destruct r as [|[|[|[|r]]]]; [| | | |lia]; unfold imc_mc, inv_mix_col, nth;
    rewrite !mul2_lxor, !mul3_lxor, !xor4_lxor,
            ?mul9_lxor, ?mul11_lxor, ?mul13_lxor, ?mul14_lxor, xor4_lxor; reflexivity.
Qed.

Lemma imc_mc_decomp : forall r a b c d, (r < 4)%nat ->
  imc_mc r a b c d =
  xor4 (imc_mc r a 0 0 0) (imc_mc r 0 b 0 0) (imc_mc r 0 0 c 0) (imc_mc r 0 0 0 d).
Proof.
  intros r a b c d Hr. unfold xor4. rewrite <- !imc_mc_lxor by exact Hr.
  rewrite ?N.lxor_0_r, ?N.lxor_0_l. reflexivity.
Qed.

Definition imc_mc_basis_ok (r : nat) (a : N) : bool :=
  N.eqb (imc_mc r a 0 0 0) (if Nat.eqb r 0 then a else 0) &&
  N.eqb (imc_mc r 0 a 0 0) (if Nat.eqb r 1 then a else 0) &&
  N.eqb (imc_mc r 0 0 a 0) (if Nat.eqb r 2 then a else 0) &&
  N.eqb (imc_mc r 0 0 0 a) (if Nat.eqb r 3 then a else 0).

Lemma imc_mc_basis :
  forallb (fun a => forallb (fun r => imc_mc_basis_ok r a) [0;1;2;3]%nat) all_bytes = true.
Proof. vm_compute. reflexivity. Qed.

Lemma imc_mc_id : forall r a0 a1 a2 a3, (r < 4)%nat ->
  a0 < 256 -> a1 < 256 -> a2 < 256 -> a3 < 256 ->
  imc_mc r a0 a1 a2 a3 = nth r [a0; a1; a2; a3] 0.
Proof.
  intros r a0 a1 a2 a3 Hr H0 H1 H2 H3.
  rewrite imc_mc_decomp by exact Hr.
  assert (B : forall a, a < 256 -> imc_mc_basis_ok r a = true).
  { intros a Ha. pose proof (bytes_sweep _ imc_mc_basis a Ha) as H. cbv beta in H.
    rewrite forallb_forall in H. apply H.
    destruct r as [|[|[|[|r]]]]; simpl; try tauto. lia. }
  pose proof (B a0 H0) as B0. pose proof (B a1 H1) as B1.
  pose proof (B a2 H2) as B2. pose proof (B a3 H3) as B3.
  unfold imc_mc_basis_ok in B0, B1, B2, B3.
  repeat match goal with
         | H : _ && _ = true |- _ => apply andb_true_iff in H; destruct H
         | H : N.eqb _ _ = true |- _ => apply N.eqb_eq in H
         end.
  destruct r as [|[|[|[|r]]]]; [| | | |lia];
    repeat match goal with H : imc_mc _ _ _ _ _ = _ |- _ => rewrite H; clear H end;
    unfold xor4; simpl; rewrite ?N.lxor_0_r, ?N.lxor_0_l; reflexivity.
Qed.

Lemma inv_mix_col_mix_col : forall a0 a1 a2 a3,
  a0 < 256 -> a1 < 256 -> a2 < 256 -> a3 < 256 ->
  inv_mix_col (xor4 (mul2 a0) (mul3 a1) a2 a3) (xor4 a0 (mul2 a1) (mul3 a2) a3)
              (xor4 a0 a1 (mul2 a2) (mul3 a3)) (xor4 (mul3 a0) a1 a2 (mul2 a3))
  = [a0; a1; a2; a3].
Proof.
  intros a0 a1 a2 a3 H0 H1 H2 H3.
  pose proof (imc_mc_id 0 a0 a1 a2 a3 ltac:(lia) H0 H1 H2 H3) as E0.
  pose proof (imc_mc_id 1 a0 a1 a2 a3 ltac:(lia) H0 H1 H2 H3) as E1.
  pose proof (imc_mc_id 2 a0 a1 a2 a3 ltac:(lia) H0 H1 H2 H3) as E2.
  pose proof (imc_mc_id 3 a0 a1 a2 a3 ltac:(lia) H0 H1 H2 H3) as E3.
  unfold imc_mc, inv_mix_col, nth in E0, E1, E2, E3.
  unfold inv_mix_col. rewrite E0, E1, E2, E3. reflexivity.
Qed.

(* (d) *)
Lemma inv_mix_columns_mix_columns : forall s,
  length s = 16%nat -> Forall (fun b => b < 256) s ->
  inv_mix_columns (mix_columns s) = s.
Proof.
  intros s H F. list16 s.
  repeat match goal with H : Forall _ (_ :: _) |- _ => inversion H; clear H; subst end.
  unfold mix_columns, mix_col. cbn [app]. unfold inv_mix_columns.
  rewrite !inv_mix_col_mix_col by assumption. reflexivity.
Qed.

(* ... and of MixColumns after InvMixColumns *)
Definition mc_imc (r : nat) (a0 a1 a2 a3 : N) : N :=
  nth r (mix_col (xor4 (mul14 a0) (mul11 a1) (mul13 a2) (mul9 a3))
                 (xor4 (mul9 a0) (mul14 a1) (mul11 a2) (mul13 a3))
                 (xor4 (mul13 a0) (mul9 a1) (mul14 a2) (mul11 a3))
                 (xor4 (mul11 a0) (mul13 a1) (mul9 a2) (mul14 a3))) 0.

Lemma mc_imc_lxor : forall r a b c d a' b' c' d', (r < 4)%nat ->
  mc_imc r (N.lxor a a') (N.lxor b b') (N.lxor c c') (N.lxor d d') =
  N.lxor (mc_imc r a b c d) (mc_imc r a' b' c' d').
Proof.
  intros r a b c d a' b' c' d' Hr.
  destruct r as [|[|[|[|r]]]]; [| | | |lia]; unfold mc_imc, mix_col, nth;
    rewrite !mul9_lxor, !mul11_lxor, !mul13_lxor, !mul14_lxor, !xor4_lxor,
            ?mul2_lxor, ?mul3_lxor, xor4_lxor; reflexivity.
Qed.

Lemma mc_imc_decomp : forall r a b c d, (r < 4)%nat ->
  mc_imc r a b c d =
  xor4 (mc_imc r a 0 0 0) (mc_imc r 0 b 0 0) (mc_imc r 0 0 c 0) (mc_imc r 0 0 0 d).
Proof.
  intros r a b c d Hr. unfold xor4. rewrite <- !mc_imc_lxor by exact Hr.
  rewrite ?N.lxor_0_r, ?N.lxor_0_l. reflexivity.
Qed.

Definition mc_imc_basis_ok (r : nat) (a : N) : bool :=
  N.eqb (mc_imc r a 0 0 0) (if Nat.eqb r 0 then a else 0) &&
  N.eqb (mc_imc r 0 a 0 0) (if Nat.eqb r 1 then a else 0) &&
  N.eqb (mc_imc r 0 0 a 0) (if Nat.eqb r 2 then a else 0) &&
  N.eqb (mc_imc r 0 0 0 a) (if Nat.eqb r 3 then a else 0).

Lemma mc_imc_basis :
  forallb (fun a => forallb (fun r => mc_imc_basis_ok r a) [0;1;2;3]%nat) all_bytes = true.
Proof. vm_compute. reflexivity. Qed.

Lemma mc_imc_id : forall r a0 a1 a2 a3, (r < 4)%nat ->
  a0 < 256 -> a1 < 256 -> a2 < 256 -> a3 < 256 ->
  mc_imc r a0 a1 a2 a3 = nth r [a0; a1; a2; a3] 0.
Proof.
  intros r a0 a1 a2 a3 Hr H0 H1 H2 H3.
  rewrite mc_imc_decomp by exact Hr.
  assert (B : forall a, a < 256 -> mc_imc_basis_ok r a = true).
  { intros a Ha. pose proof (bytes_sweep _ mc_imc_basis a Ha) as H. cbv beta in H.
    rewrite forallb_forall in H. apply H.
    destruct r as [|[|[|[|r]]]]; simpl; try tauto. lia. }
  pose proof (B a0 H0) as B0. pose proof (B a1 H1) as B1.
  pose proof (B a2 H2) as B2. pose proof (B a3 H3) as B3.
  unfold mc_imc_basis_ok in B0, B1, B2, B3.
  repeat match goal with
         | H : _ && _ = true |- _ => apply andb_true_iff in H; destruct H
         | H : N.eqb _ _ = true |- _ => apply N.eqb_eq in H
         end.
  destruct r as [|[|[|[|r]]]]; [| | | |lia];
    repeat match goal with H : mc_imc _ _ _ _ _ = _ |- _ => rewrite H; clear H end;
    unfold xor4; simpl; rewrite ?N.lxor_0_r, ?N.lxor_0_l; reflexivity.
Qed.

Lemma mix_col_inv_mix_col : forall a0 a1 a2 a3,
  a0 < 256 -> a1 < 256 -> a2 < 256 -> a3 < 256 ->
  mix_col (xor4 (mul14 a0) (mul11 a1) (mul13 a2) (mul9 a3))
          (xor4 (mul9 a0) (mul14 a1) (mul11 a2) (mul13 a3))
          (xor4 (mul13 a0) (mul9 a1) (mul14 a2) (mul11 a3))
          (xor4 (mul11 a0) (mul13 a1) (mul9 a2) (mul14 a3))
  = [a0; a1; a2; a3].
Proof.
  intros a0 a1 a2 a3 H0 H1 H2 H3.
  pose proof (mc_imc_id 0 a0 a1 a2 a3 ltac:(lia) H0 H1 H2 H3) as E0.
  pose proof (mc_imc_id 1 a0 a1 a2 a3 ltac:(lia) H0 H1 H2 H3) as E1.
  pose proof (mc_imc_id 2 a0 a1 a2 a3 ltac:(lia) H0 H1 H2 H3) as E2.
  pose proof (mc_imc_id 3 a0 a1 a2 a3 ltac:(lia) H0 H1 H2 H3) as E3.
  unfold mc_imc, mix_col, nth in E0, E1, E2, E3.
  unfold mix_col. rewrite E0, E1, E2, E3. reflexivity.
Qed.

Lemma mix_columns_inv_mix_columns : forall s,
  length s = 16%nat -> Forall (fun b => b < 256) s ->
  mix_columns (inv_mix_columns s) = s.
Proof.
  intros s H F. list16 s.
  repeat match goal with H : Forall _ (_ :: _) |- _ => inversion H; clear H; subst end.
  unfold inv_mix_columns, inv_mix_col. cbn [app]. unfold mix_columns.
  rewrite !mix_col_inv_mix_col by assumption. reflexivity.
Qed.

(* ------------------------------------------------------------------ *)
(* known-answer tests                                                  *)

Example sbox_spot : (sub_byte 0x53, inv_sub_byte 0xed, sub_byte 0x00, sub_byte 0xff) = (0xed, 0x53, 0x63, 0x16).
Proof. vm_compute. reflexivity. Qed.

(* FIPS-197 4.2.1: {57} x {83} = {c1}, {57} x {13} = {fe} *)
Example gf_mul_fips : (gf_mul 0x57 0x83, gf_mul 0x57 0x13, xtime 0x57, xtime 0xae) = (0xc1, 0xfe, 0xae, 0x47).
Proof. vm_compute. reflexivity. Qed.

(* FIPS-197 Appendix A.1 *)
Definition kat_key128 : list N :=
  [0x2b; 0x7e; 0x15; 0x16; 0x28; 0xae; 0xd2; 0xa6; 0xab; 0xf7; 0x15; 0x88; 0x09; 0xcf; 0x4f; 0x3c].
Example key_expansion_128_count : length (key_expansion kat_key128) = 11%nat.
Proof. vm_compute. reflexivity. Qed.
Example key_expansion_128_first : firstn 2 (key_expansion kat_key128) =
  [[0x2b; 0x7e; 0x15; 0x16; 0x28; 0xae; 0xd2; 0xa6; 0xab; 0xf7; 0x15; 0x88; 0x09; 0xcf; 0x4f; 0x3c];
   [0xa0; 0xfa; 0xfe; 0x17; 0x88; 0x54; 0x2c; 0xb1; 0x23; 0xa3; 0x39; 0x39; 0x2a; 0x6c; 0x76; 0x05]].
Proof. vm_compute. reflexivity. Qed.
Example key_expansion_128_last : lastn 2 (key_expansion kat_key128) =
  [[0xac; 0x77; 0x66; 0xf3; 0x19; 0xfa; 0xdc; 0x21; 0x28; 0xd1; 0x29; 0x41; 0x57; 0x5c; 0x00; 0x6e];
   [0xd0; 0x14; 0xf9; 0xa8; 0xc9; 0xee; 0x25; 0x89; 0xe1; 0x3f; 0x0c; 0xc8; 0xb6; 0x63; 0x0c; 0xa6]].
Proof. vm_compute. reflexivity. Qed.
Example key_expansion_128_all : key_expansion kat_key128 =
  [[0x2b; 0x7e; 0x15; 0x16; 0x28; 0xae; 0xd2; 0xa6; 0xab; 0xf7; 0x15; 0x88; 0x09; 0xcf; 0x4f; 0x3c];
   [0xa0; 0xfa; 0xfe; 0x17; 0x88; 0x54; 0x2c; 0xb1; 0x23; 0xa3; 0x39; 0x39; 0x2a; 0x6c; 0x76; 0x05];
   [0xf2; 0xc2; 0x95; 0xf2; 0x7a; 0x96; 0xb9; 0x43; 0x59; 0x35; 0x80; 0x7a; 0x73; 0x59; 0xf6; 0x7f];
   [0x3d; 0x80; 0x47; 0x7d; 0x47; 0x16; 0xfe; 0x3e; 0x1e; 0x23; 0x7e; 0x44; 0x6d; 0x7a; 0x88; 0x3b];
   [0xef; 0x44; 0xa5; 0x41; 0xa8; 0x52; 0x5b; 0x7f; 0xb6; 0x71; 0x25; 0x3b; 0xdb; 0x0b; 0xad; 0x00];
   [0xd4; 0xd1; 0xc6; 0xf8; 0x7c; 0x83; 0x9d; 0x87; 0xca; 0xf2; 0xb8; 0xbc; 0x11; 0xf9; 0x15; 0xbc];
   [0x6d; 0x88; 0xa3; 0x7a; 0x11; 0x0b; 0x3e; 0xfd; 0xdb; 0xf9; 0x86; 0x41; 0xca; 0x00; 0x93; 0xfd];
   [0x4e; 0x54; 0xf7; 0x0e; 0x5f; 0x5f; 0xc9; 0xf3; 0x84; 0xa6; 0x4f; 0xb2; 0x4e; 0xa6; 0xdc; 0x4f];
   [0xea; 0xd2; 0x73; 0x21; 0xb5; 0x8d; 0xba; 0xd2; 0x31; 0x2b; 0xf5; 0x60; 0x7f; 0x8d; 0x29; 0x2f];
   [0xac; 0x77; 0x66; 0xf3; 0x19; 0xfa; 0xdc; 0x21; 0x28; 0xd1; 0x29; 0x41; 0x57; 0x5c; 0x00; 0x6e];
   [0xd0; 0x14; 0xf9; 0xa8; 0xc9; 0xee; 0x25; 0x89; 0xe1; 0x3f; 0x0c; 0xc8; 0xb6; 0x63; 0x0c; 0xa6]].
Proof. vm_compute. reflexivity. Qed.

(* FIPS-197 Appendix A.2 *)
Definition kat_key192 : list N :=
  [0x8e; 0x73; 0xb0; 0xf7; 0xda; 0x0e; 0x64; 0x52; 0xc8; 0x10; 0xf3; 0x2b; 0x80; 0x90; 0x79; 0xe5;
   0x62; 0xf8; 0xea; 0xd2; 0x52; 0x2c; 0x6b; 0x7b].
Example key_expansion_192_count : length (key_expansion kat_key192) = 13%nat.
Proof. vm_compute. reflexivity. Qed.
Example key_expansion_192_first : firstn 2 (key_expansion kat_key192) =
  [[0x8e; 0x73; 0xb0; 0xf7; 0xda; 0x0e; 0x64; 0x52; 0xc8; 0x10; 0xf3; 0x2b; 0x80; 0x90; 0x79; 0xe5];
   [0x62; 0xf8; 0xea; 0xd2; 0x52; 0x2c; 0x6b; 0x7b; 0xfe; 0x0c; 0x91; 0xf7; 0x24; 0x02; 0xf5; 0xa5]].
Proof. vm_compute. reflexivity. Qed.
Example key_expansion_192_last : lastn 2 (key_expansion kat_key192) =
  [[0xca; 0x40; 0x05; 0x38; 0x8f; 0xcc; 0x50; 0x06; 0x28; 0x2d; 0x16; 0x6a; 0xbc; 0x3c; 0xe7; 0xb5];
   [0xe9; 0x8b; 0xa0; 0x6f; 0x44; 0x8c; 0x77; 0x3c; 0x8e; 0xcc; 0x72; 0x04; 0x01; 0x00; 0x22; 0x02]].
Proof. vm_compute. reflexivity. Qed.
Example key_expansion_192_all : key_expansion kat_key192 =
  [[0x8e; 0x73; 0xb0; 0xf7; 0xda; 0x0e; 0x64; 0x52; 0xc8; 0x10; 0xf3; 0x2b; 0x80; 0x90; 0x79; 0xe5];
   [0x62; 0xf8; 0xea; 0xd2; 0x52; 0x2c; 0x6b; 0x7b; 0xfe; 0x0c; 0x91; 0xf7; 0x24; 0x02; 0xf5; 0xa5];
   [0xec; 0x12; 0x06; 0x8e; 0x6c; 0x82; 0x7f; 0x6b; 0x0e; 0x7a; 0x95; 0xb9; 0x5c; 0x56; 0xfe; 0xc2];
   [0x4d; 0xb7; 0xb4; 0xbd; 0x69; 0xb5; 0x41; 0x18; 0x85; 0xa7; 0x47; 0x96; 0xe9; 0x25; 0x38; 0xfd];
   [0xe7; 0x5f; 0xad; 0x44; 0xbb; 0x09; 0x53; 0x86; 0x48; 0x5a; 0xf0; 0x57; 0x21; 0xef; 0xb1; 0x4f];
   [0xa4; 0x48; 0xf6; 0xd9; 0x4d; 0x6d; 0xce; 0x24; 0xaa; 0x32; 0x63; 0x60; 0x11; 0x3b; 0x30; 0xe6];
   [0xa2; 0x5e; 0x7e; 0xd5; 0x83; 0xb1; 0xcf; 0x9a; 0x27; 0xf9; 0x39; 0x43; 0x6a; 0x94; 0xf7; 0x67];
   [0xc0; 0xa6; 0x94; 0x07; 0xd1; 0x9d; 0xa4; 0xe1; 0xec; 0x17; 0x86; 0xeb; 0x6f; 0xa6; 0x49; 0x71];
   [0x48; 0x5f; 0x70; 0x32; 0x22; 0xcb; 0x87; 0x55; 0xe2; 0x6d; 0x13; 0x52; 0x33; 0xf0; 0xb7; 0xb3];
   [0x40; 0xbe; 0xeb; 0x28; 0x2f; 0x18; 0xa2; 0x59; 0x67; 0x47; 0xd2; 0x6b; 0x45; 0x8c; 0x55; 0x3e];
   [0xa7; 0xe1; 0x46; 0x6c; 0x94; 0x11; 0xf1; 0xdf; 0x82; 0x1f; 0x75; 0x0a; 0xad; 0x07; 0xd7; 0x53];
   [0xca; 0x40; 0x05; 0x38; 0x8f; 0xcc; 0x50; 0x06; 0x28; 0x2d; 0x16; 0x6a; 0xbc; 0x3c; 0xe7; 0xb5];
   [0xe9; 0x8b; 0xa0; 0x6f; 0x44; 0x8c; 0x77; 0x3c; 0x8e; 0xcc; 0x72; 0x04; 0x01; 0x00; 0x22; 0x02]].
Proof. vm_compute. reflexivity. Qed.

(* FIPS-197 Appendix A.3 *)
Definition kat_key256 : list N :=
  [0x60; 0x3d; 0xeb; 0x10; 0x15; 0xca; 0x71; 0xbe; 0x2b; 0x73; 0xae; 0xf0; 0x85; 0x7d; 0x77; 0x81;
   0x1f; 0x35; 0x2c; 0x07; 0x3b; 0x61; 0x08; 0xd7; 0x2d; 0x98; 0x10; 0xa3; 0x09; 0x14; 0xdf; 0xf4].
Example key_expansion_256_count : length (key_expansion kat_key256) = 15%nat.
Proof. vm_compute. reflexivity. Qed.
Example key_expansion_256_first : firstn 2 (key_expansion kat_key256) =
  [[0x60; 0x3d; 0xeb; 0x10; 0x15; 0xca; 0x71; 0xbe; 0x2b; 0x73; 0xae; 0xf0; 0x85; 0x7d; 0x77; 0x81];
   [0x1f; 0x35; 0x2c; 0x07; 0x3b; 0x61; 0x08; 0xd7; 0x2d; 0x98; 0x10; 0xa3; 0x09; 0x14; 0xdf; 0xf4]].
Proof. vm_compute. reflexivity. Qed.
Example key_expansion_256_last : lastn 2 (key_expansion kat_key256) =
  [[0xca; 0xfa; 0xaa; 0xe3; 0xe4; 0xd5; 0x9b; 0x34; 0x9a; 0xdf; 0x6a; 0xce; 0xbd; 0x10; 0x19; 0x0d];
   [0xfe; 0x48; 0x90; 0xd1; 0xe6; 0x18; 0x8d; 0x0b; 0x04; 0x6d; 0xf3; 0x44; 0x70; 0x6c; 0x63; 0x1e]].
Proof. vm_compute. reflexivity. Qed.
Example key_expansion_256_all : key_expansion kat_key256 =
  [[0x60; 0x3d; 0xeb; 0x10; 0x15; 0xca; 0x71; 0xbe; 0x2b; 0x73; 0xae; 0xf0; 0x85; 0x7d; 0x77; 0x81];
   [0x1f; 0x35; 0x2c; 0x07; 0x3b; 0x61; 0x08; 0xd7; 0x2d; 0x98; 0x10; 0xa3; 0x09; 0x14; 0xdf; 0xf4];
   [0x9b; 0xa3; 0x54; 0x11; 0x8e; 0x69; 0x25; 0xaf; 0xa5; 0x1a; 0x8b; 0x5f; 0x20; 0x67; 0xfc; 0xde];
   [0xa8; 0xb0; 0x9c; 0x1a; 0x93; 0xd1; 0x94; 0xcd; 0xbe; 0x49; 0x84; 0x6e; 0xb7; 0x5d; 0x5b; 0x9a];
   [0xd5; 0x9a; 0xec; 0xb8; 0x5b; 0xf3; 0xc9; 0x17; 0xfe; 0xe9; 0x42; 0x48; 0xde; 0x8e; 0xbe; 0x96];
   [0xb5; 0xa9; 0x32; 0x8a; 0x26; 0x78; 0xa6; 0x47; 0x98; 0x31; 0x22; 0x29; 0x2f; 0x6c; 0x79; 0xb3];
   [0x81; 0x2c; 0x81; 0xad; 0xda; 0xdf; 0x48; 0xba; 0x24; 0x36; 0x0a; 0xf2; 0xfa; 0xb8; 0xb4; 0x64];
   [0x98; 0xc5; 0xbf; 0xc9; 0xbe; 0xbd; 0x19; 0x8e; 0x26; 0x8c; 0x3b; 0xa7; 0x09; 0xe0; 0x42; 0x14];
   [0x68; 0x00; 0x7b; 0xac; 0xb2; 0xdf; 0x33; 0x16; 0x96; 0xe9; 0x39; 0xe4; 0x6c; 0x51; 0x8d; 0x80];
   [0xc8; 0x14; 0xe2; 0x04; 0x76; 0xa9; 0xfb; 0x8a; 0x50; 0x25; 0xc0; 0x2d; 0x59; 0xc5; 0x82; 0x39];
   [0xde; 0x13; 0x69; 0x67; 0x6c; 0xcc; 0x5a; 0x71; 0xfa; 0x25; 0x63; 0x95; 0x96; 0x74; 0xee; 0x15];
   [0x58; 0x86; 0xca; 0x5d; 0x2e; 0x2f; 0x31; 0xd7; 0x7e; 0x0a; 0xf1; 0xfa; 0x27; 0xcf; 0x73; 0xc3];
   [0x74; 0x9c; 0x47; 0xab; 0x18; 0x50; 0x1d; 0xda; 0xe2; 0x75; 0x7e; 0x4f; 0x74; 0x01; 0x90; 0x5a];
   [0xca; 0xfa; 0xaa; 0xe3; 0xe4; 0xd5; 0x9b; 0x34; 0x9a; 0xdf; 0x6a; 0xce; 0xbd; 0x10; 0x19; 0x0d];
   [0xfe; 0x48; 0x90; 0xd1; 0xe6; 0x18; 0x8d; 0x0b; 0x04; 0x6d; 0xf3; 0x44; 0x70; 0x6c; 0x63; 0x1e]].
Proof. vm_compute. reflexivity. Qed.

Example key_expansion_bad_length : key_expansion (firstn 17 kat_key192) = [].
Proof. vm_compute. reflexivity. Qed.

(* FIPS-197 Appendix B *)
Example cipher_appendix_B : aes_enc kat_key128
  [0x32; 0x43; 0xf6; 0xa8; 0x88; 0x5a; 0x30; 0x8d; 0x31; 0x31; 0x98; 0xa2; 0xe0; 0x37; 0x07; 0x34] =
  [0x39; 0x25; 0x84; 0x1d; 0x02; 0xdc; 0x09; 0xfb; 0xdc; 0x11; 0x85; 0x97; 0x19; 0x6a; 0x0b; 0x32].
Proof. vm_compute. reflexivity. Qed.

(* FIPS-197 Appendix C.1: the round-1 intermediate values *)
Example round1_C1 :
  let s := [0x00; 0x10; 0x20; 0x30; 0x40; 0x50; 0x60; 0x70; 0x80; 0x90; 0xa0; 0xb0; 0xc0; 0xd0; 0xe0; 0xf0] in
  (sub_bytes s, shift_rows (sub_bytes s), mix_columns (shift_rows (sub_bytes s))) =
  ([0x63; 0xca; 0xb7; 0x04; 0x09; 0x53; 0xd0; 0x51; 0xcd; 0x60; 0xe0; 0xe7; 0xba; 0x70; 0xe1; 0x8c],
   [0x63; 0x53; 0xe0; 0x8c; 0x09; 0x60; 0xe1; 0x04; 0xcd; 0x70; 0xb7; 0x51; 0xba; 0xca; 0xd0; 0xe7],
   [0x5f; 0x72; 0x64; 0x15; 0x57; 0xf5; 0xbc; 0x92; 0xf7; 0xbe; 0x3b; 0x29; 0x1d; 0xb9; 0xf9; 0x1a]).
Proof. vm_compute. reflexivity. Qed.

(* FIPS-197 Appendix C.1 / C.2 / C.3 *)
Definition kat_c_plain : list N :=
  [0x00; 0x11; 0x22; 0x33; 0x44; 0x55; 0x66; 0x77; 0x88; 0x99; 0xaa; 0xbb; 0xcc; 0xdd; 0xee; 0xff].
Definition kat_c_key (n : nat) : list N := map N.of_nat (seq 0 n).
Definition kat_C1_cipher : list N :=
  [0x69; 0xc4; 0xe0; 0xd8; 0x6a; 0x7b; 0x04; 0x30; 0xd8; 0xcd; 0xb7; 0x80; 0x70; 0xb4; 0xc5; 0x5a].
Example cipher_C1 : aes_enc (kat_c_key 16) kat_c_plain = kat_C1_cipher.
Proof. vm_compute. reflexivity. Qed.
Example inv_cipher_C1 : aes_dec (kat_c_key 16) kat_C1_cipher = kat_c_plain.
Proof. vm_compute. reflexivity. Qed.
Example eq_inv_cipher_C1 :
  eq_inv_cipher (dec_schedule (key_expansion (kat_c_key 16))) kat_C1_cipher = kat_c_plain.
Proof. vm_compute. reflexivity. Qed.
Definition kat_C2_cipher : list N :=
  [0xdd; 0xa9; 0x7c; 0xa4; 0x86; 0x4c; 0xdf; 0xe0; 0x6e; 0xaf; 0x70; 0xa0; 0xec; 0x0d; 0x71; 0x91].
Example cipher_C2 : aes_enc (kat_c_key 24) kat_c_plain = kat_C2_cipher.
Proof. vm_compute. reflexivity. Qed.
Example inv_cipher_C2 : aes_dec (kat_c_key 24) kat_C2_cipher = kat_c_plain.
Proof. vm_compute. reflexivity. Qed.
Example eq_inv_cipher_C2 :
  eq_inv_cipher (dec_schedule (key_expansion (kat_c_key 24))) kat_C2_cipher = kat_c_plain.
Proof. vm_compute. reflexivity. Qed.
Definition kat_C3_cipher : list N :=
  [0x8e; 0xa2; 0xb7; 0xca; 0x51; 0x67; 0x45; 0xbf; 0xea; 0xfc; 0x49; 0x90; 0x4b; 0x49; 0x60; 0x89].
Example cipher_C3 : aes_enc (kat_c_key 32) kat_c_plain = kat_C3_cipher.
Proof. vm_compute. reflexivity. Qed.
Example inv_cipher_C3 : aes_dec (kat_c_key 32) kat_C3_cipher = kat_c_plain.
Proof. vm_compute. reflexivity. Qed.
Example eq_inv_cipher_C3 :
  eq_inv_cipher (dec_schedule (key_expansion (kat_c_key 32))) kat_C3_cipher = kat_c_plain.
Proof. vm_compute. reflexivity. Qed.
(* FIPS-197 C.1, EQUIVALENT INVERSE CIPHER: ik_sch of rounds 0, 1 and 10 *)
Example dec_schedule_C1 :
  let d := dec_schedule (key_expansion (kat_c_key 16)) in
  (nth 0 d [], nth 1 d [], nth 10 d []) =
  ([0x13; 0x11; 0x1d; 0x7f; 0xe3; 0x94; 0x4a; 0x17; 0xf3; 0x07; 0xa7; 0x8b; 0x4d; 0x2b; 0x30; 0xc5],
   [0x13; 0xaa; 0x29; 0xbe; 0x9c; 0x8f; 0xaf; 0xf6; 0xf7; 0x70; 0xf5; 0x80; 0x00; 0xf7; 0xbf; 0x03],
   [0x00; 0x01; 0x02; 0x03; 0x04; 0x05; 0x06; 0x07; 0x08; 0x09; 0x0a; 0x0b; 0x0c; 0x0d; 0x0e; 0x0f]).
Proof. vm_compute. reflexivity. Qed.
