(* The field GF(2^128) of NIST SP 800-38D (GCM) and GHASH.

   Conventions
   - a block is a list of 16 bytes, in the order they appear in memory / in the
     standard's hex strings;
   - internally a block is the N obtained by reading those bytes big-endian
     (be_to_N): the standard's bit x_0 (leftmost, the coefficient of u^0) is bit
     127 of the N and x_127 is bit 0.  So the standard's "right shift" is
     N.shiftr, LSB_1 is N.odd, and R = 11100001 || 0^120 is 0xE1 * 2^120.
     This is the bit-reflected convention of the standard itself; no reflection
     or byte swap is applied anywhere (PCLMULQDQ-based code keeps the byte-swapped
     value in registers; that is an implementation matter);
   - the field identity is the block 80 00 .. 00. *)
From Coq Require Import NArith List Bool Arith.
From ISAL Require Import Base.Words Base.ListUtil.
Import ListNotations.
Local Open Scope N_scope.

Definition gf128_R : N := N.shiftl 0xE1 120.

(* SP 800-38D 6.3, Algorithm 1 (X . Y).  n counts the remaining steps; step
   i = 128 - n looks at x_i = bit (n-1) of x.  z and v are Z_i and V_i. *)
Fixpoint gf128_mul_f (n : nat) (x z v : N) : N :=
  match n with
  | O => z
  | S n' =>
      let z' := if N.testbit x (N.of_nat n') then N.lxor z v else z in
      let v' := if N.odd v then N.lxor (N.shiftr v 1) gf128_R else N.shiftr v 1 in
      gf128_mul_f n' x z' v'
  end.

(* product of two blocks given as numbers < 2^128 *)
Definition gf128_mul (x y : N) : N := gf128_mul_f 128 x 0 y.

Definition block_to_N (b : list N) : N := be_to_N b.
Definition N_to_block (x : N) : list N := N_to_be 16 x.

(* product of two 16-byte blocks *)
Definition gf128_mul_bytes (x y : list N) : list N :=
  N_to_block (gf128_mul (block_to_N x) (block_to_N y)).

(* a short block is completed with zero bytes on the right *)
Definition pad16 (b : list N) : list N := b ++ zeros (16 - length b).

(* one GHASH step: Y' = (Y xor X) . H.  blk16 may be shorter than 16 bytes, in
   which case it is zero-padded (the standard pads A and C this way). *)
Definition ghash_step (h y blk16 : list N) : list N :=
  gf128_mul_bytes (xorb_list y (pad16 blk16)) h.

(* continue a GHASH computation from state y over data, taken 16 bytes at a
   time; a final partial block is zero-padded *)
Definition ghash_blocks (h y data : list N) : list N :=
  fold_left (ghash_step h) (chunks 16 data) y.

(* GHASH_H(data), SP 800-38D 6.4 (data is meant to be a multiple of 16 bytes) *)
Definition ghash (h data : list N) : list N := ghash_blocks h (zeros 16) data.

(* ------------------------------------------------------------------ *)
(* known answers *)

Definition gf128_one : N := N.shiftl 0x80 120.

(* GCM spec (McGrew-Viega) test case 2: H, C, and X_1 = C . H *)
Definition kat_H2 : list N :=
  [0x66; 0xe9; 0x4b; 0xd4; 0xef; 0x8a; 0x2c; 0x3b; 0x88; 0x4c; 0xfa; 0x59; 0xca; 0x34; 0x2b; 0x2e].
Definition kat_C2 : list N :=
  [0x03; 0x88; 0xda; 0xce; 0x60; 0xb6; 0xa3; 0x92; 0xf3; 0x28; 0xc2; 0xb9; 0x71; 0xb2; 0xfe; 0x78].
Definition kat_X1 : list N :=
  [0x5e; 0x2e; 0xc7; 0x46; 0x91; 0x70; 0x62; 0x88; 0x2c; 0x85; 0xb0; 0x68; 0x53; 0x53; 0xde; 0xb7].

Example gf128_mul_tc2 : gf128_mul_bytes kat_C2 kat_H2 = kat_X1.
Proof. vm_compute. reflexivity. Qed.

Example gf128_mul_tc2_comm : gf128_mul_bytes kat_H2 kat_C2 = kat_X1.
Proof. vm_compute. reflexivity. Qed.

Example gf128_mul_one :
  (N_to_block (gf128_mul gf128_one (block_to_N kat_H2)),
   N_to_block (gf128_mul (block_to_N kat_H2) gf128_one)) = (kat_H2, kat_H2).
Proof. vm_compute. reflexivity. Qed.

(* u . u^127 = u^128 = 1 + u + u^2 + u^7, i.e. R *)
Example gf128_mul_reduction : gf128_mul (N.shiftl 1 126) 1 = gf128_R.
Proof. vm_compute. reflexivity. Qed.

Example ghash_step_tc2 : ghash_step kat_H2 (zeros 16) kat_C2 = kat_X1.
Proof. vm_compute. reflexivity. Qed.

(* test case 2: GHASH(H, {}, C) = f38cbb1ad69223dcc3457ae5b6b0f885 *)
Example ghash_tc2 :
  ghash kat_H2 (kat_C2 ++ N_to_be 8 0 ++ N_to_be 8 128) =
  [0xf3; 0x8c; 0xbb; 0x1a; 0xd6; 0x92; 0x23; 0xdc; 0xc3; 0x45; 0x7a; 0xe5; 0xb6; 0xb0; 0xf8; 0x85].
Proof. vm_compute. reflexivity. Qed.

(* a short final block is zero-padded *)
Example ghash_blocks_pads :
  ghash_blocks kat_H2 (zeros 16) (kat_C2 ++ [0x01; 0x02; 0x03]) =
  ghash_blocks kat_H2 (zeros 16) (kat_C2 ++ [0x01; 0x02; 0x03] ++ zeros 13).
Proof. vm_compute. reflexivity. Qed.
