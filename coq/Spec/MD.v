(* L0: the generic Merkle–Damgård hash every multi-buffer algorithm instantiates
   (SHA-1, SHA-256, SHA-512, MD5, SM3).  Bytes are N values < 256, chaining values are
   lists of words (N values < 2^32 or < 2^64). *)
From Coq Require Import NArith List Arith.
From ISAL Require Import Base.Words Base.ListUtil.
Import ListNotations.

Record algo := {
  a_bsize : nat;                              (* block size in bytes: 64 or 128 *)
  a_lenfld : nat;                             (* size of the length field: 8 or 16 bytes *)
  a_iv : list N;                              (* initial chaining words *)
  a_compress : list N -> list N -> list N;    (* chaining words -> one block of bytes -> chaining words *)
  a_lenbytes : N -> list N;                   (* message length in BITS -> the a_lenfld bytes of the length field *)
  a_final : list N -> list N;                 (* chaining words -> digest words as the library reports them
                                                 (identity, except SM3 whose words are byte-swapped) *)
  a_digest_bytes : list N -> list N           (* chaining words -> the standard's digest bytes *)
}.

Section MD.
Variable A : algo.

(* number of zero bytes between 0x80 and the length field *)
Definition padz (n : nat) : nat :=
  let B := a_bsize A in (B - (n + 1 + a_lenfld A) mod B) mod B.

Definition md_pad (n : nat) : list N :=
  [128%N] ++ zeros (padz n) ++ a_lenbytes A (8 * N.of_nat n)%N.

Definition md_blocks (msg : list N) : list (list N) :=
  chunks (a_bsize A) (msg ++ md_pad (length msg)).

Definition md_chain (msg : list N) : list N :=
  fold_left (a_compress A) (md_blocks msg) (a_iv A).

(* digest words as the library's result_digest[] holds them *)
Definition md_hash (msg : list N) : list N := a_final A (md_chain msg).
(* digest bytes as the standard prints them *)
Definition md_hash_bytes (msg : list N) : list N := a_digest_bytes A (md_chain msg).

End MD.
