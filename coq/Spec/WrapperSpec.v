(* WrapperSpec — the hand-written specification table of the 72 isal_* entry points (C13, C16).
   Source: include/*.h (parameter comments, ISAL_GCM_MAX_LEN, ISAL_GCM_MAX_TAG_LEN,
   ISAL_AES_XTS_MIN_LEN/MAX_LEN, ISAL_FINGERPRINT_MAX_WINDOW), include/isal_crypto_api.h (the
   meaning of each ISAL_CRYPTO_ERR code), FIPS.md (which algorithms are approved).

   Per entry point: its FIPS class; per parameter the condition under which it is *offending*
   (a formula over the entry's own arguments KArg i) and the error codes whose documented
   meaning fits that parameter; the internal symbol a call with in-domain arguments must
   reach, with which argument vector, and how the result is delivered; the deprecated
   entry points that are its counterparts; for XTS what "identical keys" means at the level
   of memcmp observations (Proofs/MiniCXts.v derives those from key values).

   Function identifiers (id_...) come from the regenerated Gen/WrappersGen.v, so an entry
   point that disappears from the library breaks this file (fail closed), and
   Model/MiniCCheck.covers demands that every exported isal_ symbol has a row here. *)
From Coq Require Import NArith List.
From ISAL Require Import Model.MiniC Model.MiniCCheck Gen.WrappersGen.
Import ListNotations.
Local Open Scope N_scope.

(* include/isal_crypto_api.h: ISAL_CRYPTO_ERROR *)
Definition NULL_SRC := 2000.        Definition NULL_DST := 2001.       Definition NULL_CTX := 2002.
Definition NULL_MGR := 2003.        Definition NULL_KEY := 2004.       Definition NULL_EXP_KEY := 2005.
Definition NULL_IV := 2006.         Definition NULL_AUTH := 2007.      Definition NULL_AAD := 2008.
Definition CIPH_LEN := 2009.        Definition AUTH_TAG_LEN := 2010.   Definition INVALID_FLAGS := 2011.
Definition ALREADY_PROCESSING := 2012.  Definition ALREADY_COMPLETED := 2013.
Definition XTS_NULL_TWEAK := 2014.  Definition XTS_SAME_KEYS := 2015.  Definition SELF_TEST := 2016.
Definition FIPS_INVALID_ALGO := 2017.   Definition WINDOW_SIZE := 2018.    Definition NULL_OFFSET := 2019.
Definition NULL_MATCH := 2020.      Definition NULL_MASK := 2021.      Definition NULL_INIT_VAL := 2022.
Definition FIPS_DISABLED := 2023.

Definition u64 := CInt 64 false.
Definition u32 := CInt 32 false.
Definition arg (i : N) : sval := SKey (KArg i).
Definition isnull (i : N) : form := FAtom (SCmp CEq CPtr (arg i) (SConst 0)).
Definition nonzero (t : cty) (i : N) : form := FAtom (SCmp CNe t (arg i) (SConst 0)).
Definition above (t : cty) (i c : N) : form := FAtom (SCmp CGt t (arg i) (SConst c)).
Definition below (t : cty) (i c : N) : form := FAtom (SCmp CLt t (arg i) (SConst c)).
Definition equals (t : cty) (i c : N) : form := FAtom (SCmp CEq t (arg i) (SConst c)).

(* roles: the codes whose documented meaning fits a parameter of that role *)
Definition P (f : form) (codes : list N) : pspec := {| p_off := f; p_may := f; p_codes := codes |}.
(* must-refuse / may-refuse differ where the headers are silent and the wrappers disagree *)
Definition PM (must may : form) (codes : list N) : pspec := {| p_off := must; p_may := may; p_codes := codes |}.
Definition p_key i := P (isnull i) [NULL_KEY; NULL_EXP_KEY].      (* raw or expanded key material *)
Definition p_ctx i := P (isnull i) [NULL_CTX].
Definition p_mgr i := P (isnull i) [NULL_MGR].
Definition p_src i := P (isnull i) [NULL_SRC].
Definition p_dst i := P (isnull i) [NULL_DST].
Definition p_iv i := P (isnull i) [NULL_IV].
Definition p_tweak i := P (isnull i) [XTS_NULL_TWEAK; NULL_IV].
Definition p_tag i := P (isnull i) [NULL_AUTH].
Definition p_digest i := P (isnull i) [NULL_AUTH; NULL_DST].
Definition p_free : pspec := P FFalse [].                          (* any value is in the domain *)
(* data pointers of GCM may be NULL when the length is 0 *)
Definition p_src_if i len := P (FAnd (isnull i) (nonzero u64 len)) [NULL_SRC].
Definition p_dst_if i len := P (FAnd (isnull i) (nonzero u64 len)) [NULL_DST].
Definition p_aad_if i len := P (FAnd (isnull i) (nonzero u64 len)) [NULL_AAD].

Definition GCM_MAX_LEN : N := 2 ^ 39 - 256 - 1.                    (* ISAL_GCM_MAX_LEN *)
Definition p_gcm_len i := P (above u64 i GCM_MAX_LEN) [CIPH_LEN].
(* ISAL_GCM_MAX_TAG_LEN = 16; 12 and 8 are the other documented tag lengths *)
Definition p_taglen i :=
  P (FAnd (FNot (equals u64 i 16)) (FAnd (FNot (equals u64 i 12)) (FNot (equals u64 i 8)))) [AUTH_TAG_LEN].
(* CBC: "Must be a multiple of 16 bytes" *)
Definition p_cbc_len i := P (FAtom (SCmp CNe u64 (SBin OAnd u64 (arg i) (SConst 15)) (SConst 0))) [CIPH_LEN].
(* XTS: ISAL_AES_XTS_MIN_LEN = 16 <= len <= ISAL_AES_XTS_MAX_LEN = 2^24 *)
Definition p_xts_len i := P (FOr (below u64 i 16) (above u64 i (2 ^ 24))) [CIPH_LEN].
(* rolling hash: window 1 <= w <= ISAL_FINGERPRINT_MAX_WINDOW = 48.  (The parameter comment of
   isal_rolling_hash2_init says "1 <= w <= 32"; the constant, the state layout (history[48])
   and the library's own tests use 48, which C09 proves correct; 0 is outside either way.) *)
Definition p_window i := P (FOr (equals u32 i 0) (above u32 i 48)) [WINDOW_SIZE].

Definition sh (callee : N) (args : list N) : shape :=
  {| sh_callee := callee; sh_args := map arg args; sh_store := None; sh_ret := RZero; sh_inline := false |}.
Definition sh_tail (callee : N) (args : list N) : shape :=
  {| sh_callee := callee; sh_args := map arg args; sh_store := None; sh_ret := RCallee; sh_inline := false |}.
Definition sh_out (callee : N) (args : list N) (out : N) (r : rkind) : shape :=
  {| sh_callee := callee; sh_args := map arg args; sh_store := Some out; sh_ret := r; sh_inline := false |}.
Definition sh_inl (callee : N) (args : list N) : shape :=
  {| sh_callee := callee; sh_args := map arg args; sh_store := None; sh_ret := RZero; sh_inline := true |}.

Definition E (id : N) (c : eclass) (ps : list pspec) (s : shape) (leg : list N) : espec :=
  {| e_id := id; e_class := c; e_params := ps; e_shape := s; e_legacy := leg; e_pre := FTrue; e_samekey := FFalse |}.

(* ---- AES-GCM (approved) *)
Definition gcm_full id callee leg :=
  E id Approved [p_key 0; p_ctx 1; p_dst_if 2 4; p_src_if 3 4; p_gcm_len 4; p_iv 5; p_aad_if 6 7; p_free; p_tag 8; p_taglen 9]
    (sh callee [0;1;2;3;4;5;6;7;8;9]) leg.
Definition gcm_init id callee leg :=
  E id Approved [p_key 0; p_ctx 1; p_iv 2; p_aad_if 3 4; p_free] (sh callee [0;1;2;3;4]) leg.
Definition gcm_update id callee leg :=
  E id Approved [p_key 0; p_ctx 1; p_dst_if 2 4; p_src_if 3 4; p_gcm_len 4] (sh callee [0;1;2;3;4]) leg.
Definition gcm_final id callee leg :=
  E id Approved [p_key 0; p_ctx 1; p_tag 2; p_taglen 3] (sh callee [0;1;2;3]) leg.
Definition gcm_pre id callee leg :=
  E id Approved [p_key 0; p_key 1] (sh callee [0;1]) leg.

(* ---- AES-CBC (approved): in, iv, keys, out, len.  len = 0 is a multiple of 16, hence in the
   documented domain, and leaves the kernel nothing to do (e_pre = len <> 0): the wrapper may
   pass the call through or return 0 without it.  (On the tree this was built against the
   encryption kernels and the sse/avx decryption kernels are do-while loops that read and
   write one block — or fault — on len = 0: found by running the real kernels in the native
   harnesses of C16 and C08, fixes/F6*.patch.) *)
Definition cbc id callee leg (pre : form) :=
  {| e_id := id; e_class := Approved; e_params := [p_src 0; p_iv 1; p_key 2; p_dst 3; p_cbc_len 4];
     e_shape := sh callee [0;1;2;3;4]; e_legacy := leg; e_pre := pre; e_samekey := FFalse |}.
Definition cbc_enc id callee leg := cbc id callee leg (nonzero u64 4).
Definition cbc_dec id callee leg := cbc id callee leg (nonzero u64 4).

(* ---- AES key expansion (approved): key, enc schedule, dec schedule *)
Definition keyexp id callee leg :=
  E id Approved [p_key 0; p_key 1; p_key 2] (sh callee [0;1;2]) leg.

(* ---- AES-XTS (approved): k2 (tweak key), k1 (data key), tweak, len, in, out.
   e_samekey: what a memcmp over the documented key material observes when the keys are
   identical — n bytes from offset o1 of k1 against n bytes from offset o2 of k2. *)
Definition mem_eq (o1 o2 n : N) : form :=
  FAtom (SCmp CEq (CInt 32 true) (SKey (KMemcmp (KArg 0) o2 (KArg 1) o1 n)) (SConst 0)).
Definition xts id callee leg (same : form) :=
  {| e_id := id; e_class := Approved;
     e_params := [p_key 0; p_key 1; p_tweak 2; p_xts_len 3; p_src 4; p_dst 5];
     e_shape := sh callee [0;1;2;3;4;5]; e_legacy := leg; e_pre := FTrue; e_samekey := same |}.

(* ---- multi-buffer hashes *)
Definition HASH_UPDATE : N := 0.   Definition HASH_ENTIRE : N := 3.    (* ISAL_HASH_CTX_FLAG *)
Definition hash_init c id callee leg := E id c [p_mgr 0] (sh callee [0]) leg.
(* buffer: the headers only say "pointer to buffer to be processed".  A NULL buffer with a
   non-zero length must be refused (the data would be read through it); a NULL buffer with
   len = 0 may be refused (the SHA/MD5 wrappers refuse it for UPDATE/ENTIRE, the SM3 wrapper
   accepts it).  flags and the busy/completed state of the context are validated by the
   internal submit, whose verdict the wrapper maps *)
Definition hash_submit c id callee leg :=
  E id c [p_mgr 0; p_ctx 1; p_ctx 2;
          PM (FAnd (isnull 3) (nonzero u32 4)) (isnull 3) [NULL_SRC];
          p_free; p_free]
    (sh_out callee [0;1;3;4;5] 2 (RMapped [INVALID_FLAGS; ALREADY_PROCESSING; ALREADY_COMPLETED])) leg.
Definition hash_flush c id callee leg := E id c [p_mgr 0; p_ctx 1] (sh_out callee [0] 1 RZero) leg.

(* ---- multi-hash (not approved) *)
Definition mh_init id callee leg := E id NonApproved [p_ctx 0] (sh_tail callee [0]) leg.
Definition mh_update id callee leg :=
  E id NonApproved [p_ctx 0; PM (FAnd (isnull 1) (nonzero u32 2)) (isnull 1) [NULL_SRC]; p_free] (sh_tail callee [0;1;2]) leg.
Definition mh_final id callee leg := E id NonApproved [p_ctx 0; p_digest 1] (sh_tail callee [0;1]) leg.

Definition neutral id :=
  E id Neutral [] (sh 0 []) [].

Definition specs : list espec := [
  gcm_full id_isal_aes_gcm_enc_128 id_u_aes_gcm_enc_128 [id_aes_gcm_enc_128];
  gcm_full id_isal_aes_gcm_enc_256 id_u_aes_gcm_enc_256 [id_aes_gcm_enc_256];
  gcm_full id_isal_aes_gcm_dec_128 id_u_aes_gcm_dec_128 [id_aes_gcm_dec_128];
  gcm_full id_isal_aes_gcm_dec_256 id_u_aes_gcm_dec_256 [id_aes_gcm_dec_256];
  gcm_full id_isal_aes_gcm_enc_128_nt id_u_aes_gcm_enc_128_nt [id_aes_gcm_enc_128_nt];
  gcm_full id_isal_aes_gcm_enc_256_nt id_u_aes_gcm_enc_256_nt [id_aes_gcm_enc_256_nt];
  gcm_full id_isal_aes_gcm_dec_128_nt id_u_aes_gcm_dec_128_nt [id_aes_gcm_dec_128_nt];
  gcm_full id_isal_aes_gcm_dec_256_nt id_u_aes_gcm_dec_256_nt [id_aes_gcm_dec_256_nt];
  gcm_init id_isal_aes_gcm_init_128 id_u_aes_gcm_init_128 [id_aes_gcm_init_128];
  gcm_init id_isal_aes_gcm_init_256 id_u_aes_gcm_init_256 [id_aes_gcm_init_256];
  gcm_update id_isal_aes_gcm_enc_128_update id_u_aes_gcm_enc_128_update [id_aes_gcm_enc_128_update];
  gcm_update id_isal_aes_gcm_enc_256_update id_u_aes_gcm_enc_256_update [id_aes_gcm_enc_256_update];
  gcm_update id_isal_aes_gcm_dec_128_update id_u_aes_gcm_dec_128_update [id_aes_gcm_dec_128_update];
  gcm_update id_isal_aes_gcm_dec_256_update id_u_aes_gcm_dec_256_update [id_aes_gcm_dec_256_update];
  gcm_update id_isal_aes_gcm_enc_128_update_nt id_u_aes_gcm_enc_128_update_nt [id_aes_gcm_enc_128_update_nt];
  gcm_update id_isal_aes_gcm_enc_256_update_nt id_u_aes_gcm_enc_256_update_nt [id_aes_gcm_enc_256_update_nt];
  gcm_update id_isal_aes_gcm_dec_128_update_nt id_u_aes_gcm_dec_128_update_nt [id_aes_gcm_dec_128_update_nt];
  gcm_update id_isal_aes_gcm_dec_256_update_nt id_u_aes_gcm_dec_256_update_nt [id_aes_gcm_dec_256_update_nt];
  gcm_final id_isal_aes_gcm_enc_128_finalize id_u_aes_gcm_enc_128_finalize [id_aes_gcm_enc_128_finalize];
  gcm_final id_isal_aes_gcm_enc_256_finalize id_u_aes_gcm_enc_256_finalize [id_aes_gcm_enc_256_finalize];
  gcm_final id_isal_aes_gcm_dec_128_finalize id_u_aes_gcm_dec_128_finalize [id_aes_gcm_dec_128_finalize];
  gcm_final id_isal_aes_gcm_dec_256_finalize id_u_aes_gcm_dec_256_finalize [id_aes_gcm_dec_256_finalize];
  gcm_pre id_isal_aes_gcm_pre_128 id_u_aes_gcm_pre_128 [id_aes_gcm_pre_128];
  gcm_pre id_isal_aes_gcm_pre_256 id_u_aes_gcm_pre_256 [id_aes_gcm_pre_256];
  cbc_enc id_isal_aes_cbc_enc_128 id_u_aes_cbc_enc_128 [id_aes_cbc_enc_128];
  cbc_enc id_isal_aes_cbc_enc_192 id_u_aes_cbc_enc_192 [id_aes_cbc_enc_192];
  cbc_enc id_isal_aes_cbc_enc_256 id_u_aes_cbc_enc_256 [id_aes_cbc_enc_256];
  cbc_dec id_isal_aes_cbc_dec_128 id_u_aes_cbc_dec_128 [id_aes_cbc_dec_128];
  cbc_dec id_isal_aes_cbc_dec_192 id_u_aes_cbc_dec_192 [id_aes_cbc_dec_192];
  cbc_dec id_isal_aes_cbc_dec_256 id_u_aes_cbc_dec_256 [id_aes_cbc_dec_256];
  keyexp id_isal_aes_keyexp_128 id_u_aes_keyexp_128 [id_aes_keyexp_128];
  keyexp id_isal_aes_keyexp_192 id_u_aes_keyexp_192 [id_aes_keyexp_192];
  keyexp id_isal_aes_keyexp_256 id_u_aes_keyexp_256 [id_aes_keyexp_256];
  (* raw keys: the 16 (32) key bytes; expanded encryption keys: the whole schedule, 16*11
     (16*15) bytes; expanded decryption: k1 is the *decryption* schedule of the data key,
     whose last round-key slot is the raw key's first 16 bytes = first slot of the tweak
     key's encryption schedule (and for 256-bit keys its first slot is the last slot of k2) *)
  xts id_isal_aes_xts_enc_128 id_u_XTS_AES_128_enc [id_XTS_AES_128_enc] (mem_eq 0 0 16);
  xts id_isal_aes_xts_dec_128 id_u_XTS_AES_128_dec [id_XTS_AES_128_dec] (mem_eq 0 0 16);
  xts id_isal_aes_xts_enc_256 id_u_XTS_AES_256_enc [id_XTS_AES_256_enc] (mem_eq 0 0 32);
  xts id_isal_aes_xts_dec_256 id_u_XTS_AES_256_dec [id_XTS_AES_256_dec] (mem_eq 0 0 32);
  xts id_isal_aes_xts_enc_128_expanded_key id_u_XTS_AES_128_enc_expanded_key [id_XTS_AES_128_enc_expanded_key] (mem_eq 0 0 176);
  xts id_isal_aes_xts_enc_256_expanded_key id_u_XTS_AES_256_enc_expanded_key [id_XTS_AES_256_enc_expanded_key] (mem_eq 0 0 240);
  xts id_isal_aes_xts_dec_128_expanded_key id_u_XTS_AES_128_dec_expanded_key [id_XTS_AES_128_dec_expanded_key] (mem_eq 160 0 16);
  xts id_isal_aes_xts_dec_256_expanded_key id_u_XTS_AES_256_dec_expanded_key [id_XTS_AES_256_dec_expanded_key]
      (FAnd (mem_eq 224 0 16) (mem_eq 0 224 16));
  hash_init Approved id_isal_sha1_ctx_mgr_init id_u_sha1_ctx_mgr_init [id_sha1_ctx_mgr_init];
  hash_submit Approved id_isal_sha1_ctx_mgr_submit id_u_sha1_ctx_mgr_submit [id_sha1_ctx_mgr_submit];
  hash_flush Approved id_isal_sha1_ctx_mgr_flush id_u_sha1_ctx_mgr_flush [id_sha1_ctx_mgr_flush];
  hash_init Approved id_isal_sha256_ctx_mgr_init id_u_sha256_ctx_mgr_init [id_sha256_ctx_mgr_init];
  hash_submit Approved id_isal_sha256_ctx_mgr_submit id_u_sha256_ctx_mgr_submit [id_sha256_ctx_mgr_submit];
  hash_flush Approved id_isal_sha256_ctx_mgr_flush id_u_sha256_ctx_mgr_flush [id_sha256_ctx_mgr_flush];
  hash_init Approved id_isal_sha512_ctx_mgr_init id_u_sha512_ctx_mgr_init [id_sha512_ctx_mgr_init];
  hash_submit Approved id_isal_sha512_ctx_mgr_submit id_u_sha512_ctx_mgr_submit [id_sha512_ctx_mgr_submit];
  hash_flush Approved id_isal_sha512_ctx_mgr_flush id_u_sha512_ctx_mgr_flush [id_sha512_ctx_mgr_flush];
  hash_init NonApproved id_isal_md5_ctx_mgr_init id_u_md5_ctx_mgr_init [id_md5_ctx_mgr_init];
  hash_submit NonApproved id_isal_md5_ctx_mgr_submit id_u_md5_ctx_mgr_submit [id_md5_ctx_mgr_submit];
  hash_flush NonApproved id_isal_md5_ctx_mgr_flush id_u_md5_ctx_mgr_flush [id_md5_ctx_mgr_flush];
  hash_init NonApproved id_isal_sm3_ctx_mgr_init id_u_sm3_ctx_mgr_init [id_sm3_ctx_mgr_init];
  hash_submit NonApproved id_isal_sm3_ctx_mgr_submit id_u_sm3_ctx_mgr_submit [id_sm3_ctx_mgr_submit];
  hash_flush NonApproved id_isal_sm3_ctx_mgr_flush id_u_sm3_ctx_mgr_flush [id_sm3_ctx_mgr_flush];
  mh_init id_isal_mh_sha1_init id_u_mh_sha1_init [id_mh_sha1_init];
  mh_update id_isal_mh_sha1_update id_u_mh_sha1_update [id_mh_sha1_update];
  mh_final id_isal_mh_sha1_finalize id_u_mh_sha1_finalize [id_mh_sha1_finalize];
  mh_init id_isal_mh_sha256_init id_u_mh_sha256_init [id_mh_sha256_init];
  mh_update id_isal_mh_sha256_update id_u_mh_sha256_update [id_mh_sha256_update];
  mh_final id_isal_mh_sha256_finalize id_u_mh_sha256_finalize [id_mh_sha256_finalize];
  E id_isal_mh_sha1_murmur3_x64_128_init NonApproved [p_ctx 0; p_free]
    (sh_tail id_u_mh_sha1_murmur3_x64_128_init [0;1]) [id_mh_sha1_murmur3_x64_128_init];
  mh_update id_isal_mh_sha1_murmur3_x64_128_update id_u_mh_sha1_murmur3_x64_128_update [id_mh_sha1_murmur3_x64_128_update];
  E id_isal_mh_sha1_murmur3_x64_128_finalize NonApproved [p_ctx 0; p_digest 1; p_digest 2]
    (sh_tail id_u_mh_sha1_murmur3_x64_128_finalize [0;1;2]) [id_mh_sha1_murmur3_x64_128_finalize];
  (* rolling hash (not approved) *)
  E id_isal_rolling_hash2_init NonApproved [p_ctx 0; p_window 1] (sh_inl id_u_rolling_hash2_init [0;1]) [id_rolling_hash2_init];
  E id_isal_rolling_hash2_reset NonApproved [p_ctx 0; P (isnull 1) [NULL_INIT_VAL]] (sh id_u_rolling_hash2_reset [0;1]) [id_rolling_hash2_reset];
  E id_isal_rolling_hash2_run NonApproved
    [p_ctx 0; p_src 1; p_free; p_free; p_free; P (isnull 5) [NULL_OFFSET]; P (isnull 6) [NULL_MATCH]]
    (sh_out id_u_rolling_hash2_run [0;1;2;3;4;5] 6 RZero) [id_rolling_hash2_run];
  E id_isal_rolling_hashx_mask_gen NonApproved [p_free; p_free; P (isnull 2) [NULL_MASK]]
    (sh_out id_u_rolling_hashx_mask_gen [0;1] 2 RZero) [id_rolling_hashx_mask_gen];
  (* no parameters, no cryptography: outside both properties' quantifiers *)
  neutral id_isal_self_tests;
  neutral id_isal_crypto_get_version;
  neutral id_isal_crypto_get_version_str
].

Definition is_neutral (e : espec) : bool := match e_class e with Neutral => true | _ => false end.
