(* L0 specification of MurmurHash3_x64_128 (Austin Appleby's reference, MurmurHash3.cpp)
   with explicit 64-bit wrap-around arithmetic.

   Difference from the reference, following the library (murmur3_x64_128.c,
   mh_sha1_murmur3_x64_128_init): the seed is a 64-bit value and both state words h1, h2
   start as that value (the reference takes a uint32_t seed and zero-extends it, so the
   two agree on seeds < 2^32).

   Bytes are N values < 256, h1 and h2 are N values < 2^64. *)
From Coq Require Import String Ascii.          (* only for the test strings; List is imported after it *)
From Coq Require Import NArith List Arith.
From ISAL Require Import Base.Words Base.ListUtil.
Import ListNotations.
Local Open Scope N_scope.

Definition mur_c1 : N := 0x87c37b91114253d5.
Definition mur_c2 : N := 0x4cf5ad432745937f.

(* k1 *= c1; k1 = ROTL64 (k1, 31); k1 *= c2       (and k2 with c2, 33, c1) *)
Definition mur_mix_k (k ca cb r : N) : N := mul64 (rol64 (mul64 k ca) r) cb.
Definition mur_k1 (k : N) : N := mur_mix_k k mur_c1 mur_c2 31.
Definition mur_k2 (k : N) : N := mur_mix_k k mur_c2 mur_c1 33.

(* h1 ^= k1; h1 = ROTL64 (h1, 27); h1 += h2; h1 = h1 * 5 + 0x52dce729    (h2: 31, 0x38495ab5) *)
Definition mur_mix_h (ha hb k r add : N) : N :=
  add64 (mul64 (add64 (rol64 (N.lxor ha k) r) hb) 5) add.

Definition fmix64 (k : N) : N :=
  let k := N.lxor k (N.shiftr k 33) in
  let k := mul64 k 0xff51afd7ed558ccd in
  let k := N.lxor k (N.shiftr k 33) in
  let k := mul64 k 0xc4ceb9fe1a85ec53 in
  N.lxor k (N.shiftr k 33).

(* the two little-endian 64-bit lanes of at most 16 bytes; missing bytes read as 0 *)
Definition mur_lanes (bytes : list N) : N * N :=
  (le_to_N (firstn 8 bytes), le_to_N (firstn 8 (skipn 8 bytes))).

Definition mur_init (seed : N) : N * N := (w64 seed, w64 seed).

(* one 16-byte block *)
Definition mur_body (h : N * N) (block16 : list N) : N * N :=
  let '(h1, h2) := h in
  let '(k1, k2) := mur_lanes block16 in
  let h1 := mur_mix_h h1 h2 (mur_k1 k1) 27 0x52dce729 in
  let h2 := mur_mix_h h2 h1 (mur_k2 k2) 31 0x38495ab5 in
  (h1, h2).

(* the tail of fewer than 16 bytes, then the finalisation.  An absent lane contributes
   mur_k (0) = 0, so the reference's switch on the tail length needs no case analysis. *)
Definition mur_tail (h : N * N) (tail : list N) (total_len : N) : N * N :=
  let '(h1, h2) := h in
  let '(k1, k2) := mur_lanes tail in
  let h1 := N.lxor h1 (mur_k1 k1) in
  let h2 := N.lxor h2 (mur_k2 k2) in
  let len := w64 total_len in
  let h1 := N.lxor h1 len in
  let h2 := N.lxor h2 len in
  let h1 := add64 h1 h2 in
  let h2 := add64 h2 h1 in
  let h1 := fmix64 h1 in
  let h2 := fmix64 h2 in
  let h1 := add64 h1 h2 in
  let h2 := add64 h2 h1 in
  (h1, h2).

(* the complete 16-byte blocks of a message, and what is left over *)
Definition mur_nbody (msg : list N) : nat := ((length msg / 16) * 16)%nat.
Definition mur_blocks (msg : list N) : list (list N) := chunks 16 (firstn (mur_nbody msg) msg).
Definition mur_rest (msg : list N) : list N := skipn (mur_nbody msg) msg.

Definition murmur3_x64_128 (seed : N) (msg : list N) : N * N :=
  mur_tail (fold_left mur_body (mur_blocks msg) (mur_init seed)) (mur_rest msg)
           (N.of_nat (length msg)).

(* the digest as the library stores it: uint32_t digest[4] aliasing uint64_t hash[2]
   on a little-endian machine *)
Definition mur_words (h : N * N) : list N :=
  [w32 (fst h); N.shiftr (fst h) 32; w32 (snd h); N.shiftr (snd h) 32].
(* ... and as 16 bytes *)
Definition mur_bytes (h : N * N) : list N := N_to_le 8 (fst h) ++ N_to_le 8 (snd h).

(* ---- known-answer tests ---- *)

Local Definition str (s : string) : list N := map N_of_ascii (list_ascii_of_string s).
(* byte i = (7 i + 3) mod 256, i < n *)
Local Fixpoint pat_from (n : nat) (b : N) : list N :=
  match n with O => [] | S m => b :: pat_from m ((b + 7) mod 256) end.
Local Definition pat (n : N) : list N := pat_from (N.to_nat n) 3.

(* a widely published vector of the reference implementation (seed 0) *)
Example mur_kat_fox :
  murmur3_x64_128 0 (str "The quick brown fox jumps over the lazy dog") =
  (0xe34bbc7bbc071b6c, 0x7a433ca9c49a9347).
Proof. vm_compute. reflexivity. Qed.

Example mur_kat_fox_words :
  mur_words (murmur3_x64_128 0 (str "The quick brown fox jumps over the lazy dog")) =
  [0xbc071b6c; 0xe34bbc7b; 0xc49a9347; 0x7a433ca9].
Proof. vm_compute. reflexivity. Qed.

(* The vectors below were produced by the library's own reference,
   /repo/mh_sha1_murmur3_x64_128/murmur3_x64_128.c (murmur3_x64_128 (buf, len, seed, digest)),
   on the pattern byte i = (7 i + 3) mod 256, for seeds 0, 0x9747b28c and
   0xfedcba9876543210 and lengths 0, 1, 15, 16, 17, 31, 32, 33, 100. *)
Example mur_kat_s0_0 :
  murmur3_x64_128 0x0 (pat 0) = (0x0000000000000000, 0x0000000000000000).
Proof. vm_compute. reflexivity. Qed.
Example mur_kat_s0_1 :
  murmur3_x64_128 0x0 (pat 1) = (0x726ac6dd306a3e59, 0x4e711127c5b5a8e4).
Proof. vm_compute. reflexivity. Qed.
Example mur_kat_s0_15 :
  murmur3_x64_128 0x0 (pat 15) = (0xba6a4b5e80ade4f4, 0xe00e5a8ff7e8f26d).
Proof. vm_compute. reflexivity. Qed.
Example mur_kat_s0_16 :
  murmur3_x64_128 0x0 (pat 16) = (0xc4b099c52f8f4ea1, 0x7d670219d92afe48).
Proof. vm_compute. reflexivity. Qed.
Example mur_kat_s0_17 :
  murmur3_x64_128 0x0 (pat 17) = (0xd4ae4b39fe53b127, 0x6602453b6681dbe9).
Proof. vm_compute. reflexivity. Qed.
Example mur_kat_s0_31 :
  murmur3_x64_128 0x0 (pat 31) = (0x9d91fedff00436fb, 0x7ea851ba737ebfd0).
Proof. vm_compute. reflexivity. Qed.
Example mur_kat_s0_32 :
  murmur3_x64_128 0x0 (pat 32) = (0x65bdb8dd080643ff, 0xbec31b8aa5f3910a).
Proof. vm_compute. reflexivity. Qed.
Example mur_kat_s0_33 :
  murmur3_x64_128 0x0 (pat 33) = (0xb16757d8c4f72f1a, 0x9171ee56072d60a6).
Proof. vm_compute. reflexivity. Qed.
Example mur_kat_s0_100 :
  murmur3_x64_128 0x0 (pat 100) = (0x176a52a2b675a4d3, 0xa2ac0b70381c282a).
Proof. vm_compute. reflexivity. Qed.
Example mur_kat_s1_0 :
  murmur3_x64_128 0x9747b28c (pat 0) = (0x392b208a1daabbb3, 0x93b0608fe302957a).
Proof. vm_compute. reflexivity. Qed.
Example mur_kat_s1_1 :
  murmur3_x64_128 0x9747b28c (pat 1) = (0x90b4d63614ff67fa, 0xee6aef3e953ed8d4).
Proof. vm_compute. reflexivity. Qed.
Example mur_kat_s1_15 :
  murmur3_x64_128 0x9747b28c (pat 15) = (0xfa1201bd4f1fa2d6, 0x7c8528a421bcd28f).
Proof. vm_compute. reflexivity. Qed.
Example mur_kat_s1_16 :
  murmur3_x64_128 0x9747b28c (pat 16) = (0x26b0e162f546c35b, 0x346ee713062eddd3).
Proof. vm_compute. reflexivity. Qed.
Example mur_kat_s1_17 :
  murmur3_x64_128 0x9747b28c (pat 17) = (0xa4a18b877d0064c9, 0x1adce4fca972cb77).
Proof. vm_compute. reflexivity. Qed.
Example mur_kat_s1_31 :
  murmur3_x64_128 0x9747b28c (pat 31) = (0x09d29e0730d65224, 0xf747e28c962db311).
Proof. vm_compute. reflexivity. Qed.
Example mur_kat_s1_32 :
  murmur3_x64_128 0x9747b28c (pat 32) = (0xfda0a994a6f2d082, 0xe36489f081123b82).
Proof. vm_compute. reflexivity. Qed.
Example mur_kat_s1_33 :
  murmur3_x64_128 0x9747b28c (pat 33) = (0x97916c2176ab4c48, 0xb72afec1757d5ff1).
Proof. vm_compute. reflexivity. Qed.
Example mur_kat_s1_100 :
  murmur3_x64_128 0x9747b28c (pat 100) = (0x6252284295a3b1cb, 0xb1765b99466a9ef4).
Proof. vm_compute. reflexivity. Qed.
Example mur_kat_s2_0 :
  murmur3_x64_128 0xfedcba9876543210 (pat 0) = (0x4fa69ca6ac82c1fc, 0xe185b1f20593afc2).
Proof. vm_compute. reflexivity. Qed.
Example mur_kat_s2_1 :
  murmur3_x64_128 0xfedcba9876543210 (pat 1) = (0x45cf0435ab43d0e7, 0xe4b0b675a7b12707).
Proof. vm_compute. reflexivity. Qed.
Example mur_kat_s2_15 :
  murmur3_x64_128 0xfedcba9876543210 (pat 15) = (0x568cdc893d93b21c, 0xdc4aeec6ad24ae04).
Proof. vm_compute. reflexivity. Qed.
Example mur_kat_s2_16 :
  murmur3_x64_128 0xfedcba9876543210 (pat 16) = (0xc0aa161ff165b662, 0xe1707581117a5d14).
Proof. vm_compute. reflexivity. Qed.
Example mur_kat_s2_17 :
  murmur3_x64_128 0xfedcba9876543210 (pat 17) = (0xa9e1bb6b2a74dca0, 0xdd9cf88ad2982585).
Proof. vm_compute. reflexivity. Qed.
Example mur_kat_s2_31 :
  murmur3_x64_128 0xfedcba9876543210 (pat 31) = (0xf6be3491541d50ce, 0xccba9c2a61dbb293).
Proof. vm_compute. reflexivity. Qed.
Example mur_kat_s2_32 :
  murmur3_x64_128 0xfedcba9876543210 (pat 32) = (0xcca2aac2485279a7, 0xdde28152e2626312).
Proof. vm_compute. reflexivity. Qed.
Example mur_kat_s2_33 :
  murmur3_x64_128 0xfedcba9876543210 (pat 33) = (0xd6fa3869989274b6, 0xc5e7349435bdc9be).
Proof. vm_compute. reflexivity. Qed.
Example mur_kat_s2_100 :
  murmur3_x64_128 0xfedcba9876543210 (pat 100) = (0x3002d139b51c260b, 0x3c5d5defe1a2edfd).
Proof. vm_compute. reflexivity. Qed.

(* 1025 bytes: murmur3 half of isal_mh_sha1_murmur3_x64_128_{init,update,finalize} in the built
   library (64 whole blocks and a 1-byte tail) *)
Example mur_kat_s0_1025 :
  murmur3_x64_128 0x0 (pat 1025) = (0x107831e0db5fda6c, 0xfb87e362e1e4cfe9).
Proof. vm_compute. reflexivity. Qed.
Example mur_kat_s1_1025 :
  murmur3_x64_128 0x9747b28c (pat 1025) = (0x0d6638e3075e5e1a, 0xb1fc213e8de82267).
Proof. vm_compute. reflexivity. Qed.
Example mur_kat_s2_1025 :
  murmur3_x64_128 0xfedcba9876543210 (pat 1025) = (0xf8680d8ed5d971ee, 0x42eeb27b2ff34565).
Proof. vm_compute. reflexivity. Qed.
