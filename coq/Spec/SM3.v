(* L0 specification of SM3 (GB/T 32905-2016) as an instance of Spec.MD.algo.
   Words are N values < 2^32; every addition wraps explicitly.  Message words, the
   length field and the digest are big-endian.  The library byte-swaps every word of
   result_digest[] on completion, which is what a_final records. *)
From Coq Require Import String Ascii.          (* only for the test strings; List is imported after it *)
From Coq Require Import NArith List Arith.
From ISAL Require Import Base.Words Base.ListUtil Spec.MD Spec.SHA1.
Import ListNotations.
Local Open Scope N_scope.

(* GB/T 32905-2016, 4.1 *)
Definition sm3_iv : list N :=
  [0x7380166f; 0x4914b2b9; 0x172442d7; 0xda8a0600; 0xa96f30bc; 0x163138aa; 0xe38dee4d; 0xb0fb0e4e].

(* 4.2: T_j *)
Definition sm3_T (j : N) : N := if j <? 16 then 0x79cc4519 else 0x7a879d8a.

(* 4.3: FF_j, GG_j; [lo] = (j < 16) *)
Definition sm3_ff (lo : bool) (x y z : N) : N :=
  if lo then N.lxor (N.lxor x y) z
  else N.lor (N.lor (N.land x y) (N.land x z)) (N.land y z).
Definition sm3_gg (lo : bool) (x y z : N) : N :=
  if lo then N.lxor (N.lxor x y) z
  else N.lor (N.land x y) (N.land (not32 x) z).

(* 4.4: the permutations P0, P1 *)
Definition sm3_p0 (x : N) : N := N.lxor (N.lxor x (rol32 x 9)) (rol32 x 17).
Definition sm3_p1 (x : N) : N := N.lxor (N.lxor x (rol32 x 15)) (rol32 x 23).

(* 5.3.2: W_j = P1 (W_{j-16} xor W_{j-9} xor (W_{j-3} <<< 15)) xor (W_{j-13} <<< 7) xor W_{j-6};
   [w] is the window W_{j-16} .. W_{j-1}; returns W_j .. W_{j+n-1} *)
Fixpoint sm3_sched (n : nat) (w : list N) : list N :=
  match n with
  | O => []
  | S m =>
      match w with
      | [w0; w1; w2; w3; w4; w5; w6; w7; w8; w9; w10; w11; w12; w13; w14; w15] =>
          let x := N.lxor (N.lxor (sm3_p1 (N.lxor (N.lxor w0 w7) (rol32 w13 15))) (rol32 w3 7)) w10 in
          x :: sm3_sched m [w1; w2; w3; w4; w5; w6; w7; w8; w9; w10; w11; w12; w13; w14; w15; x]
      | _ => []
      end
  end.

(* W_0 .. W_67 *)
Definition sm3_W (m : list N) : list N := m ++ sm3_sched 52 m.

(* per-round constants: (T_j <<< (j mod 32), j < 16), j = 0 .. 63 *)
Definition sm3_consts : list (N * bool) :=
  map (fun i => let j := N.of_nat i in (rol32 (sm3_T j) (j mod 32), j <? 16)) (seq 0 64).

Definition sm3_state := (N * N * N * N * N * N * N * N)%type.

(* 5.3.3, one iteration of the loop; x = ((W_j, W'_j), (T_j <<< j, j < 16)) *)
Definition sm3_round (s : sm3_state) (x : (N * N) * (N * bool)) : sm3_state :=
  let '(a, b, c, d, e, f, g, h) := s in
  let '((w, w'), (t, lo)) := x in
  let a12 := rol32 a 12 in
  let ss1 := rol32 (add32 (add32 a12 e) t) 7 in
  let ss2 := N.lxor ss1 a12 in
  let tt1 := add32 (add32 (sm3_ff lo a b c) d) (add32 ss2 w') in
  let tt2 := add32 (add32 (sm3_gg lo e f g) h) (add32 ss1 w) in
  (tt1, a, rol32 b 9, c, sm3_p0 tt2, e, rol32 f 19, g).

(* chaining words -> 16 message words -> chaining words *)
Definition sm3_compress_words (v : list N) (m : list N) : list N :=
  match v with
  | [v0; v1; v2; v3; v4; v5; v6; v7] =>
      let W := sm3_W m in
      (* W'_j = W_j xor W_{j+4}, j = 0 .. 63 *)
      let WW := map (fun p => (fst p, N.lxor (fst p) (snd p))) (combine W (skipn 4 W)) in
      let '(a, b, c, d, e, f, g, h) :=
        fold_left sm3_round (combine WW sm3_consts) (v0, v1, v2, v3, v4, v5, v6, v7) in
      [N.lxor a v0; N.lxor b v1; N.lxor c v2; N.lxor d v3;
       N.lxor e v4; N.lxor f v5; N.lxor g v6; N.lxor h v7]
  | _ => v
  end.

Definition sm3_compress (v : list N) (block : list N) : list N :=
  sm3_compress_words v (be_words32 block).

Definition bswap32 (x : N) : N := be_to_N (N_to_le 4 x).

Definition sm3_algo : algo := {|
  a_bsize := 64;
  a_lenfld := 8;
  a_iv := sm3_iv;
  a_compress := sm3_compress;
  a_lenbytes := N_to_be 8;
  a_final := map bswap32;
  a_digest_bytes := fun h => flat_map (N_to_be 4) h
|}.

Definition sm3 (msg : list N) : list N := md_hash_bytes sm3_algo msg.

(* ---- known-answer tests ---- *)

Local Definition str (s : string) : list N := map N_of_ascii (list_ascii_of_string s).
(* byte i = (7 i + 3) mod 256, i < n *)
Local Fixpoint pat_from (n : nat) (b : N) : list N :=
  match n with O => [] | S m => b :: pat_from m ((b + 7) mod 256) end.
Local Definition pat (n : N) : list N := pat_from (N.to_nat n) 3.

(* GB/T 32905-2016, A.1 *)
Example sm3_kat_abc :
  md_hash_bytes sm3_algo (str "abc") =
  [0x66; 0xc7; 0xf0; 0xf4; 0x62; 0xee; 0xed; 0xd9; 0xd1; 0xf2; 0xd4; 0x6b; 0xdc; 0x10; 0xe4; 0xe2;
   0x41; 0x67; 0xc4; 0x87; 0x5c; 0xf2; 0xf7; 0xa2; 0x29; 0x7d; 0xa0; 0x2b; 0x8f; 0x4b; 0xa8; 0xe0].
Proof. vm_compute. reflexivity. Qed.

(* the chaining words are the standard's words ... *)
Example sm3_kat_abc_chain :
  md_chain sm3_algo (str "abc") =
  [0x66c7f0f4; 0x62eeedd9; 0xd1f2d46b; 0xdc10e4e2; 0x4167c487; 0x5cf2f7a2; 0x297da02b; 0x8f4ba8e0].
Proof. vm_compute. reflexivity. Qed.

(* ... and result_digest[] holds them byte-swapped (sm3_ref_test.c compares
   result_digest[j] with byteswap32 of the standard's word) *)
Example sm3_kat_abc_words :
  md_hash sm3_algo (str "abc") =
  [0xf4f0c766; 0xd9edee62; 0x6bd4f2d1; 0xe2e410dc; 0x87c46741; 0xa2f7f25c; 0x2ba07d29; 0xe0a84b8f].
Proof. vm_compute. reflexivity. Qed.

(* GB/T 32905-2016, A.2: "abcd" x 16, 64 bytes *)
Example sm3_kat_abcd16 :
  md_hash_bytes sm3_algo
    (str "abcdabcdabcdabcdabcdabcdabcdabcdabcdabcdabcdabcdabcdabcdabcdabcd") =
  [0xde; 0xbe; 0x9f; 0xf9; 0x22; 0x75; 0xb8; 0xa1; 0x38; 0x60; 0x48; 0x89; 0xc1; 0x8e; 0x5a; 0x4d;
   0x6f; 0xdb; 0x70; 0xe5; 0x38; 0x7e; 0x57; 0x65; 0x29; 0x3d; 0xcb; 0xa3; 0x9c; 0x0c; 0x57; 0x32].
Proof. vm_compute. reflexivity. Qed.

(* the remaining expected values come from OpenSSL's SM3 (python3 hashlib.new('sm3')) *)
Example sm3_kat_empty :
  md_hash_bytes sm3_algo [] =
  [0x1a; 0xb2; 0x1d; 0x83; 0x55; 0xcf; 0xa1; 0x7f; 0x8e; 0x61; 0x19; 0x48; 0x31; 0xe8; 0x1a; 0x8f;
   0x22; 0xbe; 0xc8; 0xc7; 0x28; 0xfe; 0xfb; 0x74; 0x7e; 0xd0; 0x35; 0xeb; 0x50; 0x82; 0xaa; 0x2b].
Proof. vm_compute. reflexivity. Qed.

Example sm3_kat_56 :
  md_hash_bytes sm3_algo (str "abcdbcdecdefdefgefghfghighijhijkijkljklmklmnlmnomnopnopq") =
  [0x63; 0x9b; 0x6c; 0xc5; 0xe6; 0x4d; 0x9e; 0x37; 0xa3; 0x90; 0xb1; 0x92; 0xdf; 0x4f; 0xa1; 0xea;
   0x07; 0x20; 0xab; 0x74; 0x7f; 0xf6; 0x92; 0xb9; 0xf3; 0x8c; 0x4e; 0x66; 0xad; 0x7b; 0x8c; 0x05].
Proof. vm_compute. reflexivity. Qed.

(* 200 bytes, byte i = (7 i + 3) mod 256 *)
Example sm3_kat_200 :
  md_hash_bytes sm3_algo (pat 200) =
  [0xb5; 0xc8; 0x03; 0xa6; 0x76; 0x7b; 0xea; 0x32; 0xe9; 0xde; 0xf9; 0x80; 0x30; 0x32; 0xdc; 0x90;
   0x15; 0x84; 0xbc; 0xb3; 0x96; 0xb0; 0xbd; 0xb1; 0xb1; 0x7a; 0x6e; 0x63; 0x9c; 0x75; 0x6e; 0x32].
Proof. vm_compute. reflexivity. Qed.
