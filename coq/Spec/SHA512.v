(* L0 specification of SHA-512 (FIPS 180-4, section 6.4) as an instance of Spec.MD.algo.
   Words are N values < 2^64; every addition wraps explicitly. *)
From Coq Require Import String Ascii.          (* only for the test strings; List is imported after it *)
From Coq Require Import NArith List Arith.
From ISAL Require Import Base.Words Base.ListUtil Spec.MD.
Import ListNotations.
Local Open Scope N_scope.

(* FIPS 180-4, 5.3.5 *)
Definition sha512_iv : list N :=
  [0x6a09e667f3bcc908; 0xbb67ae8584caa73b; 0x3c6ef372fe94f82b; 0xa54ff53a5f1d36f1;
   0x510e527fade682d1; 0x9b05688c2b3e6c1f; 0x1f83d9abfb41bd6b; 0x5be0cd19137e2179].

(* 4.2.3 *)
Definition sha512_K : list N :=
  [0x428a2f98d728ae22; 0x7137449123ef65cd; 0xb5c0fbcfec4d3b2f; 0xe9b5dba58189dbbc;
   0x3956c25bf348b538; 0x59f111f1b605d019; 0x923f82a4af194f9b; 0xab1c5ed5da6d8118;
   0xd807aa98a3030242; 0x12835b0145706fbe; 0x243185be4ee4b28c; 0x550c7dc3d5ffb4e2;
   0x72be5d74f27b896f; 0x80deb1fe3b1696b1; 0x9bdc06a725c71235; 0xc19bf174cf692694;
   0xe49b69c19ef14ad2; 0xefbe4786384f25e3; 0x0fc19dc68b8cd5b5; 0x240ca1cc77ac9c65;
   0x2de92c6f592b0275; 0x4a7484aa6ea6e483; 0x5cb0a9dcbd41fbd4; 0x76f988da831153b5;
   0x983e5152ee66dfab; 0xa831c66d2db43210; 0xb00327c898fb213f; 0xbf597fc7beef0ee4;
   0xc6e00bf33da88fc2; 0xd5a79147930aa725; 0x06ca6351e003826f; 0x142929670a0e6e70;
   0x27b70a8546d22ffc; 0x2e1b21385c26c926; 0x4d2c6dfc5ac42aed; 0x53380d139d95b3df;
   0x650a73548baf63de; 0x766a0abb3c77b2a8; 0x81c2c92e47edaee6; 0x92722c851482353b;
   0xa2bfe8a14cf10364; 0xa81a664bbc423001; 0xc24b8b70d0f89791; 0xc76c51a30654be30;
   0xd192e819d6ef5218; 0xd69906245565a910; 0xf40e35855771202a; 0x106aa07032bbd1b8;
   0x19a4c116b8d2d0c8; 0x1e376c085141ab53; 0x2748774cdf8eeb99; 0x34b0bcb5e19b48a8;
   0x391c0cb3c5c95a63; 0x4ed8aa4ae3418acb; 0x5b9cca4f7763e373; 0x682e6ff3d6b2b8a3;
   0x748f82ee5defb2fc; 0x78a5636f43172f60; 0x84c87814a1f0ab72; 0x8cc702081a6439ec;
   0x90befffa23631e28; 0xa4506cebde82bde9; 0xbef9a3f7b2c67915; 0xc67178f2e372532b;
   0xca273eceea26619c; 0xd186b8c721c0c207; 0xeada7dd6cde0eb1e; 0xf57d4f7fee6ed178;
   0x06f067aa72176fba; 0x0a637dc5a2c898a6; 0x113f9804bef90dae; 0x1b710b35131c471b;
   0x28db77f523047d84; 0x32caab7b40c72493; 0x3c9ebe0a15c9bebc; 0x431d67c49c100d4c;
   0x4cc5d4becb3e42b6; 0x597f299cfc657e2a; 0x5fcb6fab3ad6faec; 0x6c44198c4a475817].

(* 4.1.3 *)
Definition ch64 (x y z : N) : N := N.lxor (N.land x y) (N.land (not64 x) z).
Definition maj64 (x y z : N) : N := N.lxor (N.lxor (N.land x y) (N.land x z)) (N.land y z).
Definition sha512_S0 (x : N) : N := N.lxor (N.lxor (ror64 x 28) (ror64 x 34)) (ror64 x 39).
Definition sha512_S1 (x : N) : N := N.lxor (N.lxor (ror64 x 14) (ror64 x 18)) (ror64 x 41).
Definition sha512_s0 (x : N) : N := N.lxor (N.lxor (ror64 x 1) (ror64 x 8)) (N.shiftr x 7).
Definition sha512_s1 (x : N) : N := N.lxor (N.lxor (ror64 x 19) (ror64 x 61)) (N.shiftr x 6).

(* one block of bytes -> its big-endian 64-bit words *)
Definition be64 (l : list N) : N :=
  match l with
  | [b0; b1; b2; b3; b4; b5; b6; b7] =>
      N.lor
        (N.lor (N.lor (N.shiftl b0 56) (N.shiftl b1 48)) (N.lor (N.shiftl b2 40) (N.shiftl b3 32)))
        (N.lor (N.lor (N.shiftl b4 24) (N.shiftl b5 16)) (N.lor (N.shiftl b6 8) b7))
  | _ => be_to_N l
  end.

Definition be_words64 (bytes : list N) : list N := map be64 (chunks 8 bytes).

(* 6.4.2 step 1: W_t = s1 W_{t-2} + W_{t-7} + s0 W_{t-15} + W_{t-16};
   [w] is the window W_{t-16} .. W_{t-1}; returns W_t .. W_{t+n-1} *)
Fixpoint sha512_sched (n : nat) (w : list N) : list N :=
  match n with
  | O => []
  | S m =>
      match w with
      | [w0; w1; w2; w3; w4; w5; w6; w7; w8; w9; w10; w11; w12; w13; w14; w15] =>
          let x := add64 (add64 (sha512_s1 w14) w9) (add64 (sha512_s0 w1) w0) in
          x :: sha512_sched m [w1; w2; w3; w4; w5; w6; w7; w8; w9; w10; w11; w12; w13; w14; w15; x]
      | _ => []
      end
  end.

(* the 80 schedule words of a block of 16 words *)
Definition sha512_W (m : list N) : list N := m ++ sha512_sched 64 m.

Definition sha512_state := (N * N * N * N * N * N * N * N)%type.

(* 6.4.2 step 3 *)
Definition sha512_round (s : sha512_state) (wk : N * N) : sha512_state :=
  let '(a, b, c, d, e, f, g, h) := s in
  let '(w, k) := wk in
  let t1 := add64 (add64 (add64 h (sha512_S1 e)) (add64 (ch64 e f g) k)) w in
  let t2 := add64 (sha512_S0 a) (maj64 a b c) in
  (add64 t1 t2, a, b, c, add64 d t1, e, f, g).

(* chaining words -> 16 message words -> chaining words *)
Definition sha512_compress_words (hh : list N) (m : list N) : list N :=
  match hh with
  | [h0; h1; h2; h3; h4; h5; h6; h7] =>
      let '(a, b, c, d, e, f, g, h) :=
        fold_left sha512_round (combine (sha512_W m) sha512_K) (h0, h1, h2, h3, h4, h5, h6, h7) in
      [add64 h0 a; add64 h1 b; add64 h2 c; add64 h3 d; add64 h4 e; add64 h5 f; add64 h6 g; add64 h7 h]
  | _ => hh
  end.

Definition sha512_compress (h : list N) (block : list N) : list N :=
  sha512_compress_words h (be_words64 block).

Definition sha512_algo : algo := {|
  a_bsize := 128;
  a_lenfld := 16;
  a_iv := sha512_iv;
  a_compress := sha512_compress;
  a_lenbytes := N_to_be 16;
  a_final := fun h => h;
  a_digest_bytes := fun h => flat_map (N_to_be 8) h
|}.

Definition sha512 (msg : list N) : list N := md_hash_bytes sha512_algo msg.

(* ---- known-answer tests ---- *)

Local Definition str (s : string) : list N := map N_of_ascii (list_ascii_of_string s).
(* byte i = (7 i + 3) mod 256, i < n *)
Local Fixpoint pat_from (n : nat) (b : N) : list N :=
  match n with O => [] | S m => b :: pat_from m ((b + 7) mod 256) end.
Local Definition pat (n : N) : list N := pat_from (N.to_nat n) 3.

Example sha512_kat_empty :
  md_hash_bytes sha512_algo [] =
  [0xcf; 0x83; 0xe1; 0x35; 0x7e; 0xef; 0xb8; 0xbd; 0xf1; 0x54; 0x28; 0x50; 0xd6; 0x6d; 0x80; 0x07;
   0xd6; 0x20; 0xe4; 0x05; 0x0b; 0x57; 0x15; 0xdc; 0x83; 0xf4; 0xa9; 0x21; 0xd3; 0x6c; 0xe9; 0xce;
   0x47; 0xd0; 0xd1; 0x3c; 0x5d; 0x85; 0xf2; 0xb0; 0xff; 0x83; 0x18; 0xd2; 0x87; 0x7e; 0xec; 0x2f;
   0x63; 0xb9; 0x31; 0xbd; 0x47; 0x41; 0x7a; 0x81; 0xa5; 0x38; 0x32; 0x7a; 0xf9; 0x27; 0xda; 0x3e].
Proof. vm_compute. reflexivity. Qed.

Example sha512_kat_abc :
  md_hash_bytes sha512_algo (str "abc") =
  [0xdd; 0xaf; 0x35; 0xa1; 0x93; 0x61; 0x7a; 0xba; 0xcc; 0x41; 0x73; 0x49; 0xae; 0x20; 0x41; 0x31;
   0x12; 0xe6; 0xfa; 0x4e; 0x89; 0xa9; 0x7e; 0xa2; 0x0a; 0x9e; 0xee; 0xe6; 0x4b; 0x55; 0xd3; 0x9a;
   0x21; 0x92; 0x99; 0x2a; 0x27; 0x4f; 0xc1; 0xa8; 0x36; 0xba; 0x3c; 0x23; 0xa3; 0xfe; 0xeb; 0xbd;
   0x45; 0x4d; 0x44; 0x23; 0x64; 0x3c; 0xe8; 0x0e; 0x2a; 0x9a; 0xc9; 0x4f; 0xa5; 0x4c; 0xa4; 0x9f].
Proof. vm_compute. reflexivity. Qed.

Example sha512_kat_abc_words :
  md_hash sha512_algo (str "abc") =
  [0xddaf35a193617aba; 0xcc417349ae204131; 0x12e6fa4e89a97ea2; 0x0a9eeee64b55d39a;
   0x2192992a274fc1a8; 0x36ba3c23a3feebbd; 0x454d4423643ce80e; 0x2a9ac94fa54ca49f].
Proof. vm_compute. reflexivity. Qed.

(* 56 bytes: one block for SHA-512 *)
Example sha512_kat_56 :
  md_hash_bytes sha512_algo (str "abcdbcdecdefdefgefghfghighijhijkijkljklmklmnlmnomnopnopq") =
  [0x20; 0x4a; 0x8f; 0xc6; 0xdd; 0xa8; 0x2f; 0x0a; 0x0c; 0xed; 0x7b; 0xeb; 0x8e; 0x08; 0xa4; 0x16;
   0x57; 0xc1; 0x6e; 0xf4; 0x68; 0xb2; 0x28; 0xa8; 0x27; 0x9b; 0xe3; 0x31; 0xa7; 0x03; 0xc3; 0x35;
   0x96; 0xfd; 0x15; 0xc1; 0x3b; 0x1b; 0x07; 0xf9; 0xaa; 0x1d; 0x3b; 0xea; 0x57; 0x78; 0x9c; 0xa0;
   0x31; 0xad; 0x85; 0xc7; 0xa7; 0x1d; 0xd7; 0x03; 0x54; 0xec; 0x63; 0x12; 0x38; 0xca; 0x34; 0x45].
Proof. vm_compute. reflexivity. Qed.

(* 200 bytes (two blocks), byte i = (7 i + 3) mod 256; expected value from python3 hashlib *)
Example sha512_kat_200 :
  md_hash_bytes sha512_algo (pat 200) =
  [0xcc; 0xa3; 0xc0; 0x27; 0x60; 0x46; 0xef; 0x9f; 0x28; 0x97; 0xbd; 0xfc; 0x3e; 0xc3; 0x30; 0xf7;
   0x7f; 0x49; 0x59; 0x91; 0x4b; 0x14; 0x62; 0xbd; 0x58; 0x1b; 0x23; 0x2d; 0xdb; 0x3e; 0x9a; 0xa9;
   0x8a; 0xcf; 0x5f; 0x5a; 0x2b; 0x21; 0xc7; 0xf4; 0x9d; 0x2e; 0x43; 0x72; 0x1d; 0xaa; 0x61; 0xa2;
   0xb5; 0xce; 0xe6; 0xaf; 0x60; 0x52; 0xdf; 0xeb; 0x76; 0x6e; 0x66; 0xdd; 0xb0; 0xd1; 0x71; 0x9c].
Proof. vm_compute. reflexivity. Qed.
