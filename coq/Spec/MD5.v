(* L0 specification of MD5 (RFC 1321) as an instance of Spec.MD.algo.
   Words are N values < 2^32; every addition wraps explicitly.  Message words and the
   length field are little-endian; the digest is the little-endian bytes of A, B, C, D. *)
From Coq Require Import String Ascii.          (* only for the test strings; List is imported after it *)
From Coq Require Import NArith List Arith.
From ISAL Require Import Base.Words Base.ListUtil Spec.MD.
Import ListNotations.
Local Open Scope N_scope.

(* RFC 1321, 3.3 *)
Definition md5_iv : list N := [0x67452301; 0xefcdab89; 0x98badcfe; 0x10325476].

(* 3.4: T[i] = floor (2^32 * |sin i|), i = 1 .. 64 *)
Definition md5_K : list N :=
  [0xd76aa478; 0xe8c7b756; 0x242070db; 0xc1bdceee; 0xf57c0faf; 0x4787c62a; 0xa8304613; 0xfd469501;
   0x698098d8; 0x8b44f7af; 0xffff5bb1; 0x895cd7be; 0x6b901122; 0xfd987193; 0xa679438e; 0x49b40821;
   0xf61e2562; 0xc040b340; 0x265e5a51; 0xe9b6c7aa; 0xd62f105d; 0x02441453; 0xd8a1e681; 0xe7d3fbc8;
   0x21e1cde6; 0xc33707d6; 0xf4d50d87; 0x455a14ed; 0xa9e3e905; 0xfcefa3f8; 0x676f02d9; 0x8d2a4c8a;
   0xfffa3942; 0x8771f681; 0x6d9d6122; 0xfde5380c; 0xa4beea44; 0x4bdecfa9; 0xf6bb4b60; 0xbebfbc70;
   0x289b7ec6; 0xeaa127fa; 0xd4ef3085; 0x04881d05; 0xd9d4d039; 0xe6db99e5; 0x1fa27cf8; 0xc4ac5665;
   0xf4292244; 0x432aff97; 0xab9423a7; 0xfc93a039; 0x655b59c3; 0x8f0ccc92; 0xffeff47d; 0x85845dd1;
   0x6fa87e4f; 0xfe2ce6e0; 0xa3014314; 0x4e0811a1; 0xf7537e82; 0xbd3af235; 0x2ad7d2bb; 0xeb86d391].

(* per-step left-rotation amounts *)
Definition md5_S : list N :=
  [7; 12; 17; 22; 7; 12; 17; 22; 7; 12; 17; 22; 7; 12; 17; 22;
   5;  9; 14; 20; 5;  9; 14; 20; 5;  9; 14; 20; 5;  9; 14; 20;
   4; 11; 16; 23; 4; 11; 16; 23; 4; 11; 16; 23; 4; 11; 16; 23;
   6; 10; 15; 21; 6; 10; 15; 21; 6; 10; 15; 21; 6; 10; 15; 21].

(* index of the message word used by step i:
   i, (5 i + 1) mod 16, (3 i + 5) mod 16, 7 i mod 16 in rounds 1 .. 4 *)
Definition md5_G : list nat :=
  [0; 1; 2; 3; 4; 5; 6; 7; 8; 9; 10; 11; 12; 13; 14; 15;
   1; 6; 11; 0; 5; 10; 15; 4; 9; 14; 3; 8; 13; 2; 7; 12;
   5; 8; 11; 14; 1; 4; 7; 10; 13; 0; 3; 6; 9; 12; 15; 2;
   0; 7; 14; 5; 12; 3; 10; 1; 8; 15; 6; 13; 4; 11; 2; 9]%nat.

(* round number (0 .. 3) of step i *)
Definition md5_Q : list N := repeat 0 16 ++ repeat 1 16 ++ repeat 2 16 ++ repeat 3 16.

(* 3.4: the auxiliary functions F, G, H, I *)
Definition md5_f (q x y z : N) : N :=
  match q with
  | 0 => N.lor (N.land x y) (N.land (not32 x) z)
  | 1 => N.lor (N.land x z) (N.land y (not32 z))
  | 2 => N.lxor (N.lxor x y) z
  | _ => N.lxor y (N.lor x (not32 z))
  end.

(* (K_i, (s_i, round_i)) for the 64 steps *)
Definition md5_steps : list (N * (N * N)) := combine md5_K (combine md5_S md5_Q).

(* one block of bytes -> its little-endian 32-bit words *)
Definition le32 (l : list N) : N :=
  match l with
  | [b0; b1; b2; b3] =>
      N.lor (N.lor b0 (N.shiftl b1 8)) (N.lor (N.shiftl b2 16) (N.shiftl b3 24))
  | _ => le_to_N l
  end.

Definition le_words32 (bytes : list N) : list N := map le32 (chunks 4 bytes).

Definition md5_state := (N * N * N * N)%type.

(* a = b + ((a + f(b,c,d) + X[g] + T[i]) <<< s), then the registers rotate *)
Definition md5_round (st : md5_state) (x : N * (N * (N * N))) : md5_state :=
  let '(a, b, c, d) := st in
  let '(m, (k, (s, q))) := x in
  let t := add32 (add32 a (md5_f q b c d)) (add32 m k) in
  (d, add32 b (rol32 t s), b, c).

(* chaining words -> 16 message words -> chaining words *)
Definition md5_compress_words (h : list N) (m : list N) : list N :=
  match h with
  | [h0; h1; h2; h3] =>
      let xs := map (fun g => nth g m 0) md5_G in
      let '(a, b, c, d) := fold_left md5_round (combine xs md5_steps) (h0, h1, h2, h3) in
      [add32 h0 a; add32 h1 b; add32 h2 c; add32 h3 d]
  | _ => h
  end.

Definition md5_compress (h : list N) (block : list N) : list N :=
  md5_compress_words h (le_words32 block).

Definition md5_algo : algo := {|
  a_bsize := 64;
  a_lenfld := 8;
  a_iv := md5_iv;
  a_compress := md5_compress;
  a_lenbytes := fun bits => N_to_le 8 bits;
  a_final := fun h => h;
  a_digest_bytes := fun h => flat_map (N_to_le 4) h
|}.

Definition md5 (msg : list N) : list N := md_hash_bytes md5_algo msg.

(* ---- known-answer tests ---- *)

Local Definition str (s : string) : list N := map N_of_ascii (list_ascii_of_string s).
(* byte i = (7 i + 3) mod 256, i < n *)
Local Fixpoint pat_from (n : nat) (b : N) : list N :=
  match n with O => [] | S m => b :: pat_from m ((b + 7) mod 256) end.
Local Definition pat (n : N) : list N := pat_from (N.to_nat n) 3.

Example md5_kat_empty :
  md_hash_bytes md5_algo [] =
  [0xd4; 0x1d; 0x8c; 0xd9; 0x8f; 0x00; 0xb2; 0x04; 0xe9; 0x80; 0x09; 0x98; 0xec; 0xf8; 0x42; 0x7e].
Proof. vm_compute. reflexivity. Qed.

Example md5_kat_abc :
  md_hash_bytes md5_algo (str "abc") =
  [0x90; 0x01; 0x50; 0x98; 0x3c; 0xd2; 0x4f; 0xb0; 0xd6; 0x96; 0x3f; 0x7d; 0x28; 0xe1; 0x7f; 0x72].
Proof. vm_compute. reflexivity. Qed.

(* the words are the little-endian reading of the digest bytes *)
Example md5_kat_abc_words :
  md_hash md5_algo (str "abc") = [0x98500190; 0xb04fd23c; 0x7d3f96d6; 0x727fe128].
Proof. vm_compute. reflexivity. Qed.

Example md5_kat_56 :
  md_hash_bytes md5_algo (str "abcdbcdecdefdefgefghfghighijhijkijkljklmklmnlmnomnopnopq") =
  [0x82; 0x15; 0xef; 0x07; 0x96; 0xa2; 0x0b; 0xca; 0xaa; 0xe1; 0x16; 0xd3; 0x87; 0x6c; 0x66; 0x4a].
Proof. vm_compute. reflexivity. Qed.

(* 200 bytes, byte i = (7 i + 3) mod 256; expected value from python3 hashlib *)
Example md5_kat_200 :
  md_hash_bytes md5_algo (pat 200) =
  [0x4c; 0x79; 0xb8; 0x1a; 0xc9; 0x4b; 0xad; 0x7a; 0x87; 0x55; 0x19; 0xce; 0x6b; 0x96; 0x4c; 0x66].
Proof. vm_compute. reflexivity. Qed.
