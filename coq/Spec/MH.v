(* L0 specification of the multi-hash construction behind mh_sha1 and mh_sha256
   (include/mh_sha1.h, mh_sha1/mh_sha1_block_base.c, mh_sha1_finalize_base.c,
   sha1_for_mh_sha1.c, mh_sha1_ref.c and their mh_sha256 twins).

   - The stream is padded SHA-style: 0x80, zeros, the 64-bit big-endian bit length of the
     stream, up to a multiple of 1024 bytes.
   - A 1024-byte block is 16 rows of 64 bytes, i.e. 16 rows of 16 four-byte words.  Word j of
     row r goes to segment j as that segment's r-th word for this block
     (store_w: w[i][s] = to_be32 (ww[i * 16 + s])), so each block hands every one of the
     16 segments one ordinary 64-byte block, made of column j of the 16 x 16 word matrix.
   - Every segment runs the plain compression-function chain of the underlying hash from
     the standard IV over its blocks, with no padding of its own.
   - The 16 segment chaining values live in uint32_t interim[word][segment].  Finalisation
     hashes the memory image of that array on a little-endian machine - word-major,
     every word as 4 little-endian bytes, 320 bytes for SHA-1 and 512 for SHA-256 - with
     the ordinary, padded, underlying hash.  The resulting chaining words are the digest
     words the library reports in its uint32_t digest array.

   The underlying hash is a parameter A : algo with 32-bit words and 64-byte blocks.

   Note: the library's finalize functions pass (uint32_t) total_length to the tail
   function, so the length field they write is 8 * (total_length mod 2^32).  This
   specification uses the full stream length; the two agree below 4 GiB. *)
From Coq Require Import NArith List Arith.
From ISAL Require Import Base.Words Base.ListUtil Spec.MD Spec.SHA1 Spec.SHA256.
Import ListNotations.
Local Open Scope N_scope.

Definition mh_nsegs : nat := 16.
Definition mh_bsize : nat := (16 * 64)%nat.         (* 1024 *)

(* rows of a matrix -> its columns; ncols = length of every row *)
Definition mh_transpose {X} (ncols : nat) (rows : list (list X)) : list (list X) :=
  fold_right (fun row acc => map (fun p => fst p :: snd p) (combine row acc))
             (repeat [] ncols) rows.

(* ---- padding ---- *)

(* number of zero bytes between 0x80 and the length field, for a stream of n bytes *)
Definition mh_padz (n : nat) : nat := ((mh_bsize - (n + 9) mod mh_bsize) mod mh_bsize)%nat.

Definition mh_pad (n : nat) : list N :=
  [128] ++ zeros (mh_padz n) ++ N_to_be 8 (8 * N.of_nat n).

(* the padded tail: [partial] holds the last (total_len mod 1024) bytes of the stream;
   the result is 1024 bytes long, or 2048 when total_len mod 1024 > 1015 *)
Definition mh_tail_pad (total_len : nat) (partial : list N) : list N :=
  partial ++ mh_pad total_len.

(* ---- one 1024-byte block ---- *)

(* the 16 segment blocks (64 bytes each) of one 1024-byte block *)
Definition mh_segments (block1024 : list N) : list (list N) :=
  map (@concat N) (mh_transpose mh_nsegs (map (chunks 4) (chunks 64 block1024))).

(* 16 segment chaining values -> one 1024-byte block -> 16 segment chaining values *)
Definition mh_block_update (A : algo) (interim : list (list N)) (block1024 : list N)
  : list (list N) :=
  map (fun p => a_compress A (fst p) (snd p)) (combine interim (mh_segments block1024)).

Definition mh_init (A : algo) : list (list N) := repeat (a_iv A) mh_nsegs.

(* ---- finalisation ---- *)

(* the 16 chaining values as the library keeps them, uint32_t interim[word][segment],
   flattened in memory order *)
Definition mh_interim_words (A : algo) (interim : list (list N)) : list N :=
  concat (mh_transpose (length (a_iv A)) interim).

(* ... and the bytes of that array on a little-endian machine *)
Definition mh_interim_bytes (A : algo) (interim : list (list N)) : list N :=
  flat_map (N_to_le 4) (mh_interim_words A interim).

Definition mh_finish (A : algo) (interim : list (list N)) : list N :=
  md_hash A (mh_interim_bytes A interim).

(* ---- the whole hash ---- *)

Definition mh_blocks (msg : list N) : list (list N) :=
  chunks mh_bsize (msg ++ mh_pad (length msg)).

Definition mh_chain (A : algo) (msg : list N) : list (list N) :=
  fold_left (mh_block_update A) (mh_blocks msg) (mh_init A).

Definition mh_hash (A : algo) (msg : list N) : list N := mh_finish A (mh_chain A msg).

(* 5 resp. 8 digest words, as isal_mh_sha1_finalize / isal_mh_sha256_finalize store them
   in the caller's uint32_t array *)
Definition mh_sha1 (msg : list N) : list N := mh_hash sha1_algo msg.
Definition mh_sha256 (msg : list N) : list N := mh_hash sha256_algo msg.

(* ---- the same thing as an instance of Spec.MD ----
   The multi-hash is itself a Merkle-Damgaard hash with 1024-byte blocks and an 8-byte
   length field; its chaining value is the interim array in memory order. *)
Definition mh_unflat (A : algo) (words : list N) : list (list N) :=
  mh_transpose mh_nsegs (chunks mh_nsegs words).

Definition mh_algo (A : algo) : algo := {|
  a_bsize := mh_bsize;
  a_lenfld := 8;
  a_iv := mh_interim_words A (mh_init A);
  a_compress := fun h b => mh_interim_words A (mh_block_update A (mh_unflat A h) b);
  a_lenbytes := N_to_be 8;
  a_final := fun h => mh_finish A (mh_unflat A h);
  a_digest_bytes := fun h => md_hash_bytes A (mh_interim_bytes A (mh_unflat A h))
|}.

(* ---- known-answer tests ----
   Expected values from the library's reference implementations mh_sha1_ref
   (mh_sha1/mh_sha1_ref.c) and mh_sha256_ref (mh_sha256/mh_sha256_ref.c) on the pattern
   byte i = (7 i + 3) mod 256; the built library (isal_mh_sha1_init/update/finalize and
   the mh_sha256 equivalents) returns the same words.  Lengths 1015 / 1016 sit on the
   one-block / two-block padding boundary. *)

Local Fixpoint pat_from (n : nat) (b : N) : list N :=
  match n with O => [] | S m => b :: pat_from m ((b + 7) mod 256) end.
Local Definition pat (n : N) : list N := pat_from (N.to_nat n) 3.

Example mh_sha1_kat_0 :
  mh_sha1 (pat 0) =
  [0xd7daa56b; 0x733d7205; 0xd4ed64a6; 0xf6fd354d; 0xc1c3287d].
Proof. vm_compute. reflexivity. Qed.

Example mh_sha1_kat_1 :
  mh_sha1 (pat 1) =
  [0x54a3c3f7; 0xa03a4a08; 0xd678848e; 0xeda0a318; 0x43f43f63].
Proof. vm_compute. reflexivity. Qed.

Example mh_sha1_kat_63 :
  mh_sha1 (pat 63) =
  [0xf270edda; 0x747d7414; 0x9e3e2239; 0x2d1d2db1; 0xe9e70cc0].
Proof. vm_compute. reflexivity. Qed.

Example mh_sha1_kat_64 :
  mh_sha1 (pat 64) =
  [0x2efd006a; 0x24465f87; 0x700906b4; 0x746fd6cf; 0xcd4a53c1].
Proof. vm_compute. reflexivity. Qed.

Example mh_sha1_kat_1015 :
  mh_sha1 (pat 1015) =
  [0xe88321e7; 0x1be0fe75; 0x8cca61c6; 0xfd7f7fc3; 0xc26b43bf].
Proof. vm_compute. reflexivity. Qed.

Example mh_sha1_kat_1016 :
  mh_sha1 (pat 1016) =
  [0x88920b26; 0x37df646e; 0x04db61f6; 0x0d3b4bf7; 0xcc578b6e].
Proof. vm_compute. reflexivity. Qed.

Example mh_sha1_kat_1023 :
  mh_sha1 (pat 1023) =
  [0xbc5b8098; 0x984d6a58; 0x99044edf; 0x54a2aba6; 0xa946e878].
Proof. vm_compute. reflexivity. Qed.

Example mh_sha1_kat_1024 :
  mh_sha1 (pat 1024) =
  [0x4401f156; 0x5dc4ab86; 0x9f9f921f; 0xc9124def; 0xadd3d002].
Proof. vm_compute. reflexivity. Qed.

Example mh_sha1_kat_1025 :
  mh_sha1 (pat 1025) =
  [0x636b5085; 0x54469cbd; 0xd2c3daf2; 0x18fbafa4; 0x25ab9651].
Proof. vm_compute. reflexivity. Qed.

Example mh_sha1_kat_2065 :
  mh_sha1 (pat 2065) =
  [0xf01f7280; 0x6445afe8; 0x7db056ba; 0x0f5c516b; 0x81cb18fc].
Proof. vm_compute. reflexivity. Qed.

Example mh_sha256_kat_0 :
  mh_sha256 (pat 0) =
  [0x7ec5da16; 0xca2ac87a; 0x3d69f3a4; 0x13e2882d;
   0x45b25f8f; 0xf1627540; 0x6b7d1bf5; 0x57a61348].
Proof. vm_compute. reflexivity. Qed.

Example mh_sha256_kat_1 :
  mh_sha256 (pat 1) =
  [0x50c847bc; 0xbcd0a840; 0x28c28394; 0x89478cb7;
   0x3e04e8d1; 0xa496595c; 0x6d71f071; 0x3f8afb95].
Proof. vm_compute. reflexivity. Qed.

Example mh_sha256_kat_63 :
  mh_sha256 (pat 63) =
  [0x81753e3e; 0xea45433e; 0x09906a8e; 0x2f07c0d5;
   0x2c45b689; 0x118412f1; 0xdf23a254; 0x1aba297b].
Proof. vm_compute. reflexivity. Qed.

Example mh_sha256_kat_64 :
  mh_sha256 (pat 64) =
  [0x76f3b994; 0xeba28d1c; 0x31a16a4f; 0x4e066437;
   0x9cd968cd; 0x9f1a72eb; 0xb3e93a4e; 0xe0c5251a].
Proof. vm_compute. reflexivity. Qed.

Example mh_sha256_kat_1015 :
  mh_sha256 (pat 1015) =
  [0xe63f11d3; 0x1d87f172; 0x6ee43bda; 0x133a3362;
   0x0970ee3d; 0x43b2b4cb; 0x37859f8b; 0x0dbd5900].
Proof. vm_compute. reflexivity. Qed.

Example mh_sha256_kat_1016 :
  mh_sha256 (pat 1016) =
  [0x0abe902a; 0x4e055615; 0xd8b61cd3; 0x3a0677ed;
   0x759a7721; 0xf700767f; 0x9310df58; 0x224bc0b2].
Proof. vm_compute. reflexivity. Qed.

Example mh_sha256_kat_1023 :
  mh_sha256 (pat 1023) =
  [0x1e4ba05c; 0xc267ad6b; 0x02e17435; 0xd8b0473e;
   0xc0dceb05; 0xf79c2e93; 0x3b5358d8; 0xee7da415].
Proof. vm_compute. reflexivity. Qed.

Example mh_sha256_kat_1024 :
  mh_sha256 (pat 1024) =
  [0xeb4e6639; 0xabaaade4; 0xb4098bce; 0x1f21d5f1;
   0xd81b28a2; 0xe59a2606; 0x357b9476; 0x52b227b9].
Proof. vm_compute. reflexivity. Qed.

Example mh_sha256_kat_1025 :
  mh_sha256 (pat 1025) =
  [0x5cb3a480; 0xc469862e; 0x4bfbd990; 0x09e35e0c;
   0x12a3550a; 0x72b2a5d5; 0xd4b37f86; 0xd179195e].
Proof. vm_compute. reflexivity. Qed.

Example mh_sha256_kat_2065 :
  mh_sha256 (pat 2065) =
  [0xa1a5389c; 0xf55ad110; 0x3a6e2182; 0x07da018e;
   0xb4dfdfab; 0x93d41052; 0xd22b4a7d; 0xc99e0ffd].
Proof. vm_compute. reflexivity. Qed.

(* the Spec.MD instance computes the same function *)
Example mh_algo_sha1_kat_1025 :
  md_hash (mh_algo sha1_algo) (pat 1025) = mh_sha1 (pat 1025).
Proof. vm_compute. reflexivity. Qed.

Example mh_algo_sha256_kat_1016 :
  md_hash (mh_algo sha256_algo) (pat 1016) = mh_sha256 (pat 1016).
Proof. vm_compute. reflexivity. Qed.

(* shape of the exported pieces *)
Example mh_tail_pad_len_1015 : length (mh_tail_pad (N.to_nat 1015) (pat 1015)) = mh_bsize.
Proof. vm_compute. reflexivity. Qed.
Example mh_tail_pad_len_1016 : length (mh_tail_pad (N.to_nat 1016) (pat 1016)) = (2 * mh_bsize)%nat.
Proof. vm_compute. reflexivity. Qed.
Example mh_tail_pad_len_big : length (mh_tail_pad (N.to_nat 2065) (pat 17)) = mh_bsize.
Proof. vm_compute. reflexivity. Qed.

(* how a streaming implementation composes the pieces: whole blocks first, then the
   padded tail, then mh_finish *)
Example mh_sha1_stream_2065 :
  let msg := pat 2065 in
  let body := firstn (2 * mh_bsize) msg in
  let partial := skipn (2 * mh_bsize) msg in
  let st := fold_left (mh_block_update sha1_algo) (chunks mh_bsize body) (mh_init sha1_algo) in
  let st := fold_left (mh_block_update sha1_algo)
                      (chunks mh_bsize (mh_tail_pad (length msg) partial)) st in
  mh_finish sha1_algo st = mh_sha1 msg.
Proof. vm_compute. reflexivity. Qed.
