(* C08 — index logic of the multi-hash update template (mh_sha1/mh_sha1_update_base.c, which
   every family of mh_sha1, mh_sha256 and mh_sha1_murmur3_x64_128 instantiates with its own
   block function) and of the tail function: which ranges of the caller's buffer are copied
   into the 1024-byte partial block / handed to the block function, and where the partial
   block buffer is written.  A small model of its own that depends only on
   (total_length, len); `len + partial_block_len` is computed in uint32_t as in the C.
   Definitions only. *)
From Coq Require Import NArith List Arith.
From ISAL Require Import Base.Words.
Import ListNotations.

Inductive mh_ev :=
| MhCopy (dst_off src_off n : nat)   (* memcpy(partial_block_buffer + dst_off, input_data + src_off, n) *)
| MhBlocks (src_off nblocks : nat)   (* BLOCK_FUNCTION(input_data + src_off, ..., nblocks) *)
| MhPBlock.                          (* BLOCK_FUNCTION(partial_block_buffer, ..., 1); memset(partial, 0, 1024) *)

Definition mh_src_ranges (evs : list mh_ev) : list (nat * nat) :=
  flat_map (fun e => match e with MhCopy _ s n => [(s, n)] | MhBlocks s k => [(s, k * 1024)] | MhPBlock => [] end) evs.
Definition mh_dst_ranges (evs : list mh_ev) : list (nat * nat) :=
  flat_map (fun e => match e with MhCopy d _ n => [(d, n)] | MhBlocks _ _ => [] | MhPBlock => [(0, 1024)] end) evs.

(* MH_SHA1_UPDATE_FUNCTION(ctx, buffer, len) with ctx->total_length = total on entry;
   [bits] = width in which the C evaluates `len + partial_block_len` (Gen/MhCarryGen.v:
   32 for the plain uint32_t sum, 64 when an operand is cast to uint64_t) *)
Definition mh_update_fp (bits : N) (total : N) (len : nat) : list mh_ev :=
  let lenN := N.of_nat len in
  if (lenN =? 0)%N then []                                       (* if (len == 0) return *)
  else
    let plen := (total mod 1024)%N in                            (* total_length % BLOCK_SIZE *)
    if (wrap bits (lenN + plen) <? 1024)%N then                  (* the sum, in its C type *)
      [MhCopy (N.to_nat plen) 0 len]                             (* memcpy(partial + plen, input, len) *)
    else
      let p := N.to_nat plen in
      let '(e1, off) :=
        if (plen =? 0)%N then ([], 0)
        else ([MhCopy p 0 (1024 - p); MhPBlock], 1024 - p) in    (* fill, hash, clear; input += 1024 - p *)
      let rest := len - off in                                   (* len -= 1024 - p *)
      let nb := rest / 1024 in
      let e2 := if nb =? 0 then [] else [MhBlocks off nb] in
      let r := rest - nb * 1024 in
      let e3 := if r =? 0 then [] else [MhCopy 0 (off + nb * 1024) r] in   (* memcpy(partial, input, len) *)
      e1 ++ e2 ++ e3.

(* MH_SHA1_TAIL_FUNCTION: writes into partial_buffer: the 0x80 byte, the zero fill, the
   8-byte length; (offset, width) *)
Definition mh_tail_ranges (total_len : N) : list (nat * nat) :=
  let p := N.to_nat (total_len mod 1024)%N in
  [(p, 1); (p + 1, 1024 - (p + 1)); (1024 - 8, 8)].
