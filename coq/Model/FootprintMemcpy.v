(* C08 — L1 model of the size-class logic of include/memcpy_inline.h (memcpy_sse_varlen /
   memcpy_sse_fixedlen / memclr_sse_varlen / memclr_sse_fixedlen and the helpers they are built
   from): which byte ranges of src are loaded and which byte ranges of dst are stored, as a
   function of nbytes.  Every numeric constant and every head/tail offset expression comes from
   the configuration record, which tr/memcpy_classes.py regenerates from the header
   (Gen/MemcpyGen.v: mc_copy, mc_clear).  Definitions only. *)
From Coq Require Import ZArith List Bool.
Import ListNotations.
Local Open Scope Z_scope.

(* an offset expression c_n * nbytes + c_N * N + c_0 *)
Definition aff := (Z * Z * Z)%type.
Definition aff_eval (a : aff) (n N : Z) : Z := let '(cn, cN, c0) := a in cn * n + cN * N + c0.

Inductive mc_acc :=
| Ld (off w : Z)           (* load  of src[off, off+w) *)
| St (off w : Z).          (* store to dst[off, off+w) *)

Record mc_cfg := {
  (* MEMCPY/MEMCLR_BETWEEN_N_AND_2N_BYTES: offsets of the moves of the `N == 1 || (fixedwidth
     && nbytes == N)` branch and of the other branch *)
  b_single_ld : list aff; b_single_st : list aff;
  b_both_ld : list aff;   b_both_st : list aff;
  is_copy : bool;                                   (* false: memclr (stores only) *)
  (* mem*_lte32_sse_{varlen,fixedlen}: `[else] if (nbytes >= T) BETWEEN(N, fixedwidth, ...)` *)
  lte32_var : list (Z * Z * bool);
  lte32_fix : list (Z * Z * bool);
  (* mem*_gte16_sse_fixedlen *)
  fx_w : Z; fx_unroll : Z; fx_tail_sub : Z; fx_tail_mask : Z;
  (* mem*_gte16_sse_varlen: while (i + vl_loop <= n) ...; if (i + K <= n) { ...; [i += K] } ...;
     i = vl_tail; one move of vl_tail_w bytes *)
  vl_loop : Z; vl_steps : list (Z * bool); vl_tail : aff; vl_tail_w : Z;
  (* mem*_sse_{varlen,fixedlen}: if (nbytes >= top) gte16 else lte32 *)
  top_var : Z; top_fix : Z
}.

Definition shift_acc (d : Z) (a : mc_acc) : mc_acc :=
  match a with Ld o w => Ld (d + o) w | St o w => St (d + o) w end.

(* a loop `while (i + K <= n) { body(i); i += K; }`: (accesses, final i) *)
Fixpoint loop_f (body : Z -> list mc_acc) (K : Z) (fuel : nat) (i n : Z) : list mc_acc * Z :=
  match fuel with
  | O => ([], i)
  | S f => if i + K <=? n
           then let '(l, i') := loop_f body K f (i + K) n in (body i ++ l, i')
           else ([], i)
  end.

Section Memcpy.
Variable C : mc_cfg.

Definition lds_of (l : list aff) (n N : Z) : list mc_acc :=
  if is_copy C then map (fun a => Ld (aff_eval a n N) N) l else [].
Definition sts_of (l : list aff) (n N : Z) : list mc_acc :=
  map (fun a => St (aff_eval a n N) N) l.

Definition between (N : Z) (fixedwidth : bool) (n : Z) : list mc_acc :=
  if (N =? 1) || (fixedwidth && (n =? N))
  then lds_of (b_single_ld C) n N ++ sts_of (b_single_st C) n N
  else lds_of (b_both_ld C) n N ++ sts_of (b_both_st C) n N.

Fixpoint ladder (l : list (Z * Z * bool)) (n : Z) : list mc_acc :=
  match l with
  | [] => []
  | (T, N, fw) :: r => if T <=? n then between N fw n else ladder r n
  end.

(* k moves of fx_w bytes at base, base + fx_w, ...: all loads into the pool, then all stores *)
Definition moves (base : Z) (k : nat) : list mc_acc :=
  (if is_copy C then map (fun j => Ld (base + fx_w C * Z.of_nat j) (fx_w C)) (seq 0 k) else [])
  ++ map (fun j => St (base + fx_w C * Z.of_nat j) (fx_w C)) (seq 0 k).

Definition one_move (off w : Z) : list mc_acc :=
  (if is_copy C then [Ld off w] else []) ++ [St off w].

Definition fixed_gte16 (n : Z) : list mc_acc :=
  let K := fx_w C * fx_unroll C in
  let '(l, i) := loop_f (fun b => moves b (Z.to_nat (fx_unroll C))) K (Z.to_nat n) 0 n in
  let rem := Z.to_nat ((n - i) / fx_w C) in
  let toff := n - fx_tail_sub C in
  let do_tail := negb (Z.land toff (fx_tail_mask C) =? 0) in
  l ++ moves i rem ++ (if do_tail then one_move toff (fx_w C) else []).

Fixpoint steps_f (steps : list (Z * bool)) (i n : Z) : list mc_acc :=
  match steps with
  | [] => []
  | (K, adv) :: r =>
      if i + K <=? n
      then map (shift_acc i) (fixed_gte16 K) ++ steps_f r (if adv then i + K else i) n
      else steps_f r i n
  end.

Definition var_gte16 (n : Z) : list mc_acc :=
  let '(l, i) := loop_f (fun b => map (shift_acc b) (fixed_gte16 (vl_loop C))) (vl_loop C) (Z.to_nat n) 0 n in
  l ++ steps_f (vl_steps C) i n ++ one_move (aff_eval (vl_tail C) n 0) (vl_tail_w C).

Definition varlen (n : Z) : list mc_acc :=
  if top_var C <=? n then var_gte16 n else ladder (lte32_var C) n.

Definition fixedlen (n : Z) : list mc_acc :=
  if top_fix C <=? n then fixed_gte16 n else ladder (lte32_fix C) n.

End Memcpy.

(* projections: the (offset, width) ranges loaded / stored *)
Definition pick (loads : bool) (l : list mc_acc) : list (Z * Z) :=
  flat_map (fun a => match a with
                     | Ld o w => if loads then [(o, w)] else []
                     | St o w => if loads then [] else [(o, w)]
                     end) l.

(* the ranges r lie inside [lo, hi) and cover it *)
Definition tiles (r : list (Z * Z)) (lo hi : Z) : Prop :=
  (forall o w, In (o, w) r -> lo <= o /\ 0 < w /\ o + w <= hi) /\
  (forall b, lo <= b < hi -> exists o w, In (o, w) r /\ o <= b < o + w).

(* "read set = [0,n)" / "write set = [0,n)" *)
Definition exact (r : list (Z * Z)) (n : Z) : Prop := tiles r 0 n.

(* executable version, for finite sweeps *)
Definition exactb (r : list (Z * Z)) (n : Z) : bool :=
  forallb (fun p => (0 <=? fst p) && (0 <? snd p) && (fst p + snd p <=? n)) r &&
  forallb (fun k => let b := Z.of_nat k in existsb (fun p => (fst p <=? b) && (b <? fst p + snd p)) r)
          (seq 0 (Z.to_nat n)).
