(* L1 model of the CBC entry points
     _aes_cbc_enc_{128,192,256}_{x4,x8}, _aes_cbc_dec_{128,192,256}_{sse,avx,vaes_avx512}
   (and of isal_aes_cbc_* / aes_cbc_* which forward to them).

   - cbc_enc_g / cbc_dec_g: SP 800-38A 6.2 chaining over an ABSTRACT block function;
     Spec.CBC.cbc_enc_blocks is the instance E := cipher rks (Proofs/CbcFacts.v);
   - the entry points take the expanded schedule as found in memory (enc_keys / dec_keys of
     struct isal_cbc_key_data, Nr+1 round keys): encryption uses the encryption schedule with
     Cipher, decryption uses the aesimc-ed reversed schedule with the Equivalent Inverse
     Cipher (aesdec);
   - decryption is written serially here; the assembly decrypts 8 / 16 blocks in parallel and
     xors the previous ciphertext block afterwards — justified by C04_cbc_dec_blockwise.
   No proofs in this file. *)
From Coq Require Import NArith List Bool Arith.
From ISAL Require Import Base.Words Base.ListUtil Spec.AES Spec.CBC Model.KeyExp.
Import ListNotations.
Local Open Scope N_scope.

Section CbcGeneric.
  Variable E D : list N -> list N.

  Fixpoint cbc_enc_g (prev : list N) (blocks : list (list N)) : list N :=
    match blocks with
    | [] => []
    | b :: r => let c := E (xorb_list b prev) in c ++ cbc_enc_g c r
    end.

  Fixpoint cbc_dec_g (prev : list N) (blocks : list (list N)) : list N :=
    match blocks with
    | [] => []
    | b :: r => xorb_list (D b) prev ++ cbc_dec_g b r
    end.

  (* what a by-8 / by-16 implementation computes: every block decrypted independently, then
     xored with the previous CIPHERTEXT block (the IV for the first) *)
  Definition cbc_dec_par (iv : list N) (blocks : list (list N)) : list N :=
    concat (map (fun p => xorb_list (D (fst p)) (snd p)) (combine blocks (iv :: blocks))).
End CbcGeneric.

Definition cbc_enc_model (enc_keys iv data : list N) : list N :=
  cbc_enc_g (cipher (sched_of_bytes enc_keys)) iv (chunks 16 data).

Definition cbc_dec_model (dec_keys iv data : list N) : list N :=
  cbc_dec_g (eq_inv_cipher (sched_of_bytes dec_keys)) iv (chunks 16 data).
