(* Two deliberately WRONG variants of the L1 hash context model, used only by the
   refutation theorems of C11 and C15 (they document that those theorems are sensitive to
   exactly these bugs and give the harness its replay histories).  Definitions only.

   1. [api_submit_stale]: the isal_*_ctx_mgr_submit wrapper as it is on a tree WITHOUT the
      fix for defect F2: the return code is mapped from the error field of WHATEVER context
      is handed back, not only of the context this call submitted.
   2. [hash_pad_narrow]: hash_pad with the bit length computed in 32 bits
      ((uint32_t) total_len << 3), the historical >512 MB bug. *)
From Coq Require Import NArith List Arith Bool.
From ISAL Require Import Base.Words Base.ListUtil Spec.MD Spec.HashApiSpec Model.HashCtx Model.HashObs.
Import ListNotations.

Section Variants.
Variable A : algo.
Variable K : nat.
Variable sched : nat -> list nat -> option nat.

Definition api_submit_stale (s : st) (cid : nat) (buf : list N) (flags : N) : st * outcome * N :=
  let '(s', o) := ctx_submit A K sched s cid buf flags in
  let rc := match o with
            | Ret (Some r) => map_error (c_error (getc A s' r))
            | _ => 0%N
            end in
  (s', o, rc).

Definition step_stale (s : st) (o : op) : st * outcome * N :=
  match o with
  | Submit cid buf flags => api_submit_stale s cid buf flags
  | Flush => let '(s', r) := ctx_flush A K sched s in (s', r, 0%N)
  end.

Fixpoint run_obs_stale (s : st) (ops : list op) : option (list (call * obs)) :=
  match ops with
  | [] => Some []
  | o :: r =>
      let '(s', out, rc) := step_stale s o in
      match obs_of A s' out rc with
      | Some ob => match run_obs_stale s' r with
                   | Some tr => Some ((call_of o, ob) :: tr)
                   | None => None
                   end
      | None => None
      end
  end.

Definition hash_pad_narrow (pbuf : list N) (total : N) : list N * nat :=
  let Bn := N.of_nat (B A) in
  let F := N.of_nat (a_lenfld A) in
  let i := N.land total (Bn - 1) in
  let buf1 := splice pbuf (N.to_nat i) (zeros (B A)) in
  let buf2 := upd (N.to_nat i) 128%N buf1 in
  let neg := w64 (2 ^ 64 - w64 (total + F + 1))%N in
  let i2 := (i + N.land (Bn - 1) neg + 1 + F)%N in
  let lenb := a_lenbytes A (w32 (N.shiftl (w32 total) 3)) in          (* (uint32_t) total_len << 3 *)
  let buf3 := splice buf2 (N.to_nat i2 - a_lenfld A) lenb in
  (buf3, N.to_nat (i2 / Bn)%N).

End Variants.
