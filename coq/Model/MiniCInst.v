(* MiniCInst — the checkers of Model/MiniCCheck.v instantiated on the regenerated tables
   (Gen/WrappersGen.v, Gen/WrappersFipsGen.v) and the specification table
   (Spec/WrapperSpec.v).  What the model driver extracts.  No proofs. *)
From Coq Require Import NArith List Bool.
From ISAL Require Import Model.MiniC Model.MiniCCheck Gen.WrappersGen Gen.WrappersFipsGen Spec.WrapperSpec.
Import ListNotations.
Local Open Scope N_scope.

Definition tab (fips : bool) : ftab := if fips then WrappersFipsGen.table else WrappersGen.table.

Definition c13 := check13 id_u_aes_self_tests id_u_sha_self_tests WrappersFipsGen.table.
Definition c13_cex := cex13 id_u_aes_self_tests id_u_sha_self_tests WrappersFipsGen.table.
Definition c16 (e : espec) := is_neutral e || check16 WrappersGen.table e.
Definition c16_cex := cex16 WrappersGen.table.
Definition c16_legacy := check_legacy WrappersGen.table.

Definition spec_of (id : N) : option espec := find (fun e => e_id e =? id) specs.

(* the decision trees of all translated functions, computed once *)
Definition trees (fips : bool) : list (N * dtree) :=
  map (fun p => (fst p, entry_tree (tab fips) (snd p))) (tab fips).
Definition trees_nofips := trees false.
Definition trees_fips := trees true.
Fixpoint tree_get (l : list (N * dtree)) (id : N) : option dtree :=
  match l with [] => None | (i, t) :: r => if i =? id then Some t else tree_get r id end.

(* result of entry `id` in the world given by an assignment (unlisted keys are 0);
   = run (tab fips) (world_of l) d, with the tree taken from the precomputed list *)
Definition run_entry (fips : bool) (id : N) (l : assign) : option dtree :=
  match tree_get (if fips then trees_fips else trees_nofips) id with
  | Some t => Some (eval_tree (world_of l) t)
  | None => None
  end.

(* L0 acceptors on native observations *)
Definition judge_16 (id : N) (l : assign) (o : obs) : bool :=
  match spec_of id with Some e => is_neutral e || judge16 e l o | None => false end.
Definition judge_13 (id : N) (l : assign) (o : obs) : bool :=
  match spec_of id with Some e => judge13 id_u_aes_self_tests id_u_sha_self_tests e l o | None => false end.

(* the region candidates of the keys an entry's question depends on (for the native sweep: the
   atoms the engine does not support are left out here, they make the obligation itself fail) *)
Definition supported_atoms (l : list sval) : list sval :=
  filter (fun a => match atom_info a with Some _ => true | None => false end) l.
Definition cands16 (id : N) : list (skey * list N) :=
  match spec_of id, ftab_get WrappersGen.table id with
  | Some e, Some d =>
      match atoms_info (supported_atoms (atomsQ (entry_tree WrappersGen.table d) (forms16 e))) with
      | Some inf => cand_table inf | None => [] end
  | _, _ => []
  end.
Definition cands13 (id : N) : list (skey * list N) :=
  match spec_of id, ftab_get WrappersFipsGen.table id with
  | Some e, Some d =>
      match atoms_info (supported_atoms (atomsQ (entry_tree WrappersFipsGen.table d)
                               (forms13 id_u_aes_self_tests id_u_sha_self_tests e))) with
      | Some inf => cand_table inf | None => [] end
  | _, _ => []
  end.
Definition unsupported16 (id : N) : list sval :=
  match spec_of id, ftab_get WrappersGen.table id with
  | Some e, Some d => unsupported_atoms (atomsQ (entry_tree WrappersGen.table d) (forms16 e))
  | _, _ => []
  end.
Definition unsupported13 (id : N) : list sval :=
  match spec_of id, ftab_get WrappersFipsGen.table id with
  | Some e, Some d => unsupported_atoms (atomsQ (entry_tree WrappersFipsGen.table d)
                                                (forms13 id_u_aes_self_tests id_u_sha_self_tests e))
  | _, _ => []
  end.

Definition class_n (e : espec) : N := match e_class e with Approved => 0 | NonApproved => 1 | Neutral => 2 end.
Definition spec_covers : bool := covers specs entries.

(* what the spec says about a world: which parameters must / may be refused, the kernel
   precondition, XTS same-key *)
Definition spec_view (id : N) (l : assign) : list bool :=
  match spec_of id with
  | Some e => map (eval_form (world_of l)) (forms16 e ++ [e_samekey e])
  | None => []
  end.
