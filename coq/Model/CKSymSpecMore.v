(* ckernels vertical — symbolic specifications of SHA-512, SHA-1 and MD5 over the table monad
   (same structure as Spec/SHA512.v, Spec/SHA1.v, Spec/MD5.v).  Definitions only. *)
From Coq Require Import NArith List Bool Arith.
From ISAL Require Import Base.Words Base.ListUtil Spec.MD Spec.SHA1 Spec.SHA256 Spec.SHA512 Spec.MD5
  Model.CKernel Model.CKSym Model.CKSymSpec.
Import ListNotations.
Local Open Scope N_scope.

(* ---- SHA-512 ---- *)
Definition sy512_S0 (x : N) : M N :=
  a <- mk_ror 64 28 x ;; b <- mk_ror 64 34 x ;; c <- mk_ror 64 39 x ;; mk_xor3 64 a b c.
Definition sy512_S1 (x : N) : M N :=
  a <- mk_ror 64 14 x ;; b <- mk_ror 64 18 x ;; c <- mk_ror 64 41 x ;; mk_xor3 64 a b c.
Definition sy512_s0 (x : N) : M N :=
  a <- mk_ror 64 1 x ;; b <- mk_ror 64 8 x ;; c <- mk_shr 7 x ;; mk_xor3 64 a b c.
Definition sy512_s1 (x : N) : M N :=
  a <- mk_ror 64 19 x ;; b <- mk_ror 64 61 x ;; c <- mk_shr 6 x ;; mk_xor3 64 a b c.

Fixpoint sy512_sched (n : nat) (w : list N) : M (list N) :=
  match n with
  | O => ret []
  | S m =>
      match w with
      | [w0; w1; w2; w3; w4; w5; w6; w7; w8; w9; w10; w11; w12; w13; w14; w15] =>
          s1 <- sy512_s1 w14 ;; a <- mk_add 64 s1 w9 ;;
          s0 <- sy512_s0 w1 ;; b <- mk_add 64 s0 w0 ;;
          x <- mk_add 64 a b ;;
          r <- sy512_sched m [w1; w2; w3; w4; w5; w6; w7; w8; w9; w10; w11; w12; w13; w14; w15; x] ;;
          ret (x :: r)
      | _ => ret []
      end
  end.

Definition sy512_round (s : st8) (wk : N * N) : M st8 :=
  let '(a, b, c, d, e, f, g, h) := s in
  let '(w, k) := wk in
  kk <- mk_const k ;;
  s1 <- sy512_S1 e ;; x1 <- mk_add 64 h s1 ;;
  ch <- sy_ch 64 e f g ;; x2 <- mk_add 64 ch kk ;;
  x3 <- mk_add 64 x1 x2 ;; t1 <- mk_add 64 x3 w ;;
  s0 <- sy512_S0 a ;; mj <- sy_maj 64 a b c ;; t2 <- mk_add 64 s0 mj ;;
  na <- mk_add 64 t1 t2 ;; ne <- mk_add 64 d t1 ;;
  ret (na, a, b, c, ne, e, f, g).

Definition sy512_compress_words (hh m : list N) : M (list N) :=
  match hh with
  | [h0; h1; h2; h3; h4; h5; h6; h7] =>
      sch <- sy512_sched 64 m ;;
      st <- sy_fold sy512_round (combine (m ++ sch) sha512_K) (h0, h1, h2, h3, h4, h5, h6, h7) ;;
      let '(a, b, c, d, e, f, g, h) := st in
      r0 <- mk_add 64 h0 a ;; r1 <- mk_add 64 h1 b ;; r2 <- mk_add 64 h2 c ;; r3 <- mk_add 64 h3 d ;;
      r4 <- mk_add 64 h4 e ;; r5 <- mk_add 64 h5 f ;; r6 <- mk_add 64 h6 g ;; r7 <- mk_add 64 h7 h ;;
      ret [r0; r1; r2; r3; r4; r5; r6; r7]
  | _ => fail
  end.

(* ---- SHA-1 ---- *)
Definition sy1_f (q : N) (b c d : N) : M N :=
  match q with
  | 0 => sy_ch 32 b c d
  | 2 => sy_maj 32 b c d
  | _ => mk_xor3 32 b c d
  end.

Fixpoint sy1_sched (n : nat) (w : list N) : M (list N) :=
  match n with
  | O => ret []
  | S m =>
      match w with
      | [w0; w1; w2; w3; w4; w5; w6; w7; w8; w9; w10; w11; w12; w13; w14; w15] =>
          a <- mk_xor 32 w13 w8 ;; b <- mk_xor 32 w2 w0 ;; c <- mk_xor 32 a b ;;
          x <- mk_rol 32 1 c ;;
          r <- sy1_sched m [w1; w2; w3; w4; w5; w6; w7; w8; w9; w10; w11; w12; w13; w14; w15; x] ;;
          ret (x :: r)
      | _ => ret []
      end
  end.

Definition st5 := (N * N * N * N * N)%type.
Definition sy1_round (s : st5) (wq : N * N) : M st5 :=
  let '(a, b, c, d, e) := s in
  let '(w, q) := wq in
  kk <- mk_const (sha1_k q) ;;
  r5 <- mk_rol 32 5 a ;; f <- sy1_f q b c d ;; x1 <- mk_add 32 r5 f ;;
  x2 <- mk_add 32 e kk ;; x3 <- mk_add 32 x1 x2 ;; t <- mk_add 32 x3 w ;;
  r30 <- mk_rol 32 30 b ;;
  ret (t, a, r30, c, d).

Definition sy1_compress_words (hh m : list N) : M (list N) :=
  match hh with
  | [h0; h1; h2; h3; h4] =>
      sch <- sy1_sched 64 m ;;
      st <- sy_fold sy1_round (combine (m ++ sch) sha1_q) (h0, h1, h2, h3, h4) ;;
      let '(a, b, c, d, e) := st in
      r0 <- mk_add 32 h0 a ;; r1 <- mk_add 32 h1 b ;; r2 <- mk_add 32 h2 c ;; r3 <- mk_add 32 h3 d ;;
      r4 <- mk_add 32 h4 e ;;
      ret [r0; r1; r2; r3; r4]
  | _ => fail
  end.

(* ---- MD5 ---- *)
Definition sy5_f (q : N) (x y z : N) : M N :=
  match q with
  | 0 => a <- mk_and 32 x y ;; n <- mk_not 32 x ;; b <- mk_and 32 n z ;; mk_or 32 a b
  | 1 => a <- mk_and 32 x z ;; n <- mk_not 32 z ;; b <- mk_and 32 y n ;; mk_or 32 a b
  | 2 => mk_xor3 32 x y z
  | _ => n <- mk_not 32 z ;; o <- mk_or 32 x n ;; mk_xor 32 y o
  end.

Definition st4 := (N * N * N * N)%type.
Definition sy5_round (st : st4) (x : N * (N * (N * N))) : M st4 :=
  let '(a, b, c, d) := st in
  let '(m, (k, (s, q))) := x in
  kk <- mk_const k ;;
  f <- sy5_f q b c d ;; x1 <- mk_add 32 a f ;; x2 <- mk_add 32 m kk ;; t <- mk_add 32 x1 x2 ;;
  r <- mk_rol 32 s t ;; nb <- mk_add 32 b r ;;
  ret (d, nb, b, c).

Definition sy5_compress_words (hh m : list N) : M (list N) :=
  match hh with
  | [h0; h1; h2; h3] =>
      let xs := map (fun g => nth g m 0) md5_G in
      st <- sy_fold sy5_round (combine xs md5_steps) (h0, h1, h2, h3) ;;
      let '(a, b, c, d) := st in
      r0 <- mk_add 32 h0 a ;; r1 <- mk_add 32 h1 b ;; r2 <- mk_add 32 h2 c ;; r3 <- mk_add 32 h3 d ;;
      ret [r0; r1; r2; r3]
  | _ => fail
  end.
