(* The listing of asm_check_self_tests_status, asm_set_self_tests_status (asm_self_tests.o) and
   isal_self_tests (self_tests.o, gcc 12 -O2) as translated from the build of /repo commit 9db4e0a
   (v2.25-based tree).  A fixed reference object: statements about "that release" are made about
   this constant; statements about the CURRENT binary are made about Gen/SelfTestGen.prog. *)
From Coq Require Import NArith List.
From ISAL Require Import Model.SelfTest.
Import ListNotations.
Local Open Scope N_scope.

Definition pinned_prog : list instr := [
  IAlu OMov (DReg RAX) SMem;
  IAlu OTest (DReg RAX) (SImm 2);
  IJcc CNE 4;
  IRet;
  IAlu OMov (DReg RAX) (SImm 2);
  IAlu OMov (DReg RDX) (SImm 3);
  ICmpxchg true RDX;
  IJcc CE 12;
  IPause;
  IAlu OCmp DMem (SImm 3);
  IJcc CE 8;
  IAlu OMov (DReg RAX) SMem;
  IRet;
  IAlu OMov DMem (SReg RDI);
  IRet;
  IPush RBX;
  ICall 0;
  IAlu OTest (DReg RAX) (SReg RAX);
  IJcc CNE 22;
  IAlu OXor (DReg RAX) (SReg RAX);
  IPop RBX;
  IRet;
  IAlu OCmp (DReg RAX) (SImm 1);
  IJcc CE 32;
  ICallExt XAes;
  IAlu OMov (DReg RBX) (SReg RAX);
  ICallExt XSha;
  IAlu OOr (DReg RBX) (SReg RAX);
  IAlu OMov (DReg RDI) (SReg RBX);
  ICall 13;
  IAlu OTest (DReg RBX) (SReg RBX);
  IJcc CE 19;
  IAlu OMov (DReg RAX) (SImm 2016);
  IPop RBX;
  IRet
].
Definition pinned_entry : nat := 15%nat.
Definition pinned_init_status : N := 2.
