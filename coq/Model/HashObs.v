(* The observation projection of the L1 model (Model/HashCtx.v) onto the L0 trace acceptor
   (Spec/HashApiSpec.v): what a caller sees of one model step, as a HashApiSpec.obs; the
   model's ops as HashApiSpec calls; a whole model run as an observed trace; plus the two
   helpers the C15 tie needs (a context put into an arbitrary mid-stream state, and the
   Merkle-Damgard continuation from such a state with the total length as an N, because a
   nat cannot hold 2^32).  Definitions only (owner: hash-tie; the proofs about them live in
   Proofs/Hash*.v). *)
From Coq Require Import NArith List Arith Bool.
From ISAL Require Import Base.Words Base.ListUtil Spec.MD Spec.HashApiSpec Model.HashCtx.
Import ListNotations.

Definition call_of (o : op) : call :=
  match o with
  | Submit cid buf flags => CSubmit cid buf flags
  | Flush => CFlush
  end.

(* what the caller sees after [step A K sched s o = (s', out, rc)]; None = the model ran
   out of fuel (excluded by theorem) *)
Definition obs_of (A : algo) (s' : st) (out : outcome) (rc : N) : option obs :=
  match out with
  | OutOfFuel => None
  | Ret None =>
      Some {| o_ret := None; o_status := 0; o_error := 0; o_total := 0; o_digest := []; o_rc := rc |}
  | Ret (Some r) =>
      let c := getc A s' r in
      Some {| o_ret := Some r; o_status := c_status c; o_error := c_error c; o_total := c_total c;
              o_digest := c_digest c; o_rc := rc |}
  end.

(* one model step together with its observation *)
Definition step_obs (A : algo) (K : nat) (sched : nat -> list nat -> option nat)
           (s : st) (o : op) : st * option obs :=
  let '(s', out, rc) := step A K sched s o in (s', obs_of A s' out rc).

(* the observed trace of a model run; None as soon as a step runs out of fuel *)
Fixpoint run_obs (A : algo) (K : nat) (sched : nat -> list nat -> option nat)
         (s : st) (ops : list op) : option (list (call * obs)) :=
  match ops with
  | [] => Some []
  | o :: r =>
      match step_obs A K sched s o with
      | (s', Some ob) =>
          match run_obs A K sched s' r with
          | Some tr => Some ((call_of o, ob) :: tr)
          | None => None
          end
      | (_, None) => None
      end
  end.

(* the abstract state the acceptor starts from when n contexts have just been initialised
   with isal_hash_ctx_init *)
Definition spec_init (n : nat) : list actx := repeat dummy n.
(* ... and the model state: n contexts whose memory held [junk] before isal_hash_ctx_init *)
Definition model_init (A : algo) (junk : list ctx) : st := mgr_init (map ctx_init junk).

(* ---- C15: mid-stream states ------------------------------------------------------- *)

(* a context that is IDLE in the middle of a stream: [chain] so far, [total] bytes
   accepted, the last [length part] of them (< B, = total mod B) not yet hashed *)
Definition inject_ctx (A : algo) (chain : list N) (total : N) (part : list N) : ctx :=
  {| c_digest := chain; c_status := STS_IDLE; c_error := ERR_NONE; c_total := total;
     c_inc := []; c_pbuf := splice (zeros (2 * a_bsize A)) 0 part; c_plen := length part |}.

(* Merkle-Damgard padding for a message of [total] bytes, total as N *)
Definition padz_N (A : algo) (total : N) : N :=
  let Bn := N.of_nat (a_bsize A) in
  ((Bn - (total + 1 + N.of_nat (a_lenfld A)) mod Bn) mod Bn)%N.
Definition md_pad_N (A : algo) (total : N) : list N :=
  [128%N] ++ zeros (N.to_nat (padz_N A total)) ++ a_lenbytes A (8 * total)%N.

(* the digest words of a stream of [total] bytes of which everything but [tail] (the
   unhashed partial block followed by the segments still to come) is already folded
   into [chain] *)
Definition md_continue (A : algo) (chain : list N) (tail : list N) (total : N) : list N :=
  a_final A (fold_left (a_compress A) (chunks (a_bsize A) (tail ++ md_pad_N A total)) chain).

(* The same algorithm seen from a mid-stream state: [chain] replaces the IV and the length
   field counts the [pre] bytes (a multiple of the block size) already folded into it.
   The L0 acceptor instantiated with [shift_algo A chain pre] is the acceptor for contexts
   that start IDLE with chain [chain], total [pre + length part] and abstract stream [part]
   (used by the C15 tie; observed totals are reported to it minus [pre]). *)
Definition shift_algo (A : algo) (chain : list N) (pre : N) : algo :=
  {| a_bsize := a_bsize A; a_lenfld := a_lenfld A; a_iv := chain; a_compress := a_compress A;
     a_lenbytes := fun bits => a_lenbytes A (bits + 8 * pre)%N;
     a_final := a_final A; a_digest_bytes := a_digest_bytes A |}.

(* abstract state of a context injected IDLE with unhashed bytes [part] *)
Definition spec_injected (part : list N) : actx := {| s_stream := part; s_phase := AIdle |}.
