(* L1 model of the multi-buffer hash context layer (the 26 *_ctx_<family>.c files are the
   same text up to renaming, the length-field endianness and SM3's completion byte swap,
   all of which live in the [algo] record) on top of an ABSTRACT job manager: the manager
   holds jobs and hands back a finished one chosen by an arbitrary scheduling oracle
   [sched]; every family's lane scheduler is one such oracle.  Theorems quantify over all
   oracles, so they hold for every family and every lane policy. *)
From Coq Require Import NArith List Arith Bool.
From ISAL Require Import Base.Words Base.ListUtil Spec.MD.
Import ListNotations.

(* status bits and error codes of include/multi_buffer.h *)
Definition STS_IDLE : N := 0.
Definition STS_PROCESSING : N := 1.
Definition STS_LAST : N := 2.
Definition STS_COMPLETE : N := 4.
Definition ERR_NONE : N := 0.
Definition ERR_INVALID_FLAGS : N := 1.        (* ISAL_HASH_CTX_ERROR_INVALID_FLAGS = -1 *)
Definition ERR_ALREADY_PROCESSING : N := 2.   (* -2 *)
Definition ERR_ALREADY_COMPLETED : N := 3.    (* -3 *)
Definition FLAG_FIRST : N := 1.
Definition FLAG_LAST : N := 2.
Definition FLAG_ENTIRE : N := 3.

Definition has (x bit : N) : bool := negb (N.land x bit =? 0)%N.

(* overwrite l[off .. off+|d|) with d (memcpy into an array) *)
Definition splice (l : list N) (off : nat) (d : list N) : list N :=
  firstn off l ++ d ++ skipn (off + length d) l.

Record ctx := {
  c_digest : list N;          (* job.result_digest *)
  c_status : N;
  c_error : N;
  c_total : N;                (* total_length, uint64 *)
  c_inc : list N;             (* incoming_buffer[0 .. incoming_buffer_length) *)
  c_pbuf : list N;            (* partial_block_buffer, 2*B bytes *)
  c_plen : nat                (* partial_block_buffer_length *)
}.

Record job := { j_ctx : nat; j_blocks : list (list N); j_chain : list N }.

Record st := { ctxs : list ctx; held : list job; tick : nat }.

Section HashCtx.
Variable A : algo.
Variable K : nat.                                   (* how many jobs the manager can hold *)
Variable sched : nat -> list nat -> option nat.     (* tick -> held context ids -> index handed back *)

Definition B : nat := a_bsize A.

Definition dflt_ctx : ctx :=
  {| c_digest := []; c_status := STS_COMPLETE; c_error := ERR_NONE; c_total := 0;
     c_inc := []; c_pbuf := zeros (2 * B); c_plen := 0 |}.

Definition getc (s : st) (cid : nat) : ctx := nth cid (ctxs s) dflt_ctx.
Definition setc (s : st) (cid : nat) (c : ctx) : st :=
  {| ctxs := upd cid c (ctxs s); held := held s; tick := tick s |}.

Definition set_digest (c : ctx) (d : list N) : ctx :=
  {| c_digest := d; c_status := c_status c; c_error := c_error c; c_total := c_total c;
     c_inc := c_inc c; c_pbuf := c_pbuf c; c_plen := c_plen c |}.
Definition set_status (c : ctx) (x : N) : ctx :=
  {| c_digest := c_digest c; c_status := x; c_error := c_error c; c_total := c_total c;
     c_inc := c_inc c; c_pbuf := c_pbuf c; c_plen := c_plen c |}.
Definition set_error (c : ctx) (x : N) : ctx :=
  {| c_digest := c_digest c; c_status := c_status c; c_error := x; c_total := c_total c;
     c_inc := c_inc c; c_pbuf := c_pbuf c; c_plen := c_plen c |}.

(* ---- the abstract manager ------------------------------------------------------- *)

(* what a lane does to a job before handing it back: every block, in order *)
Definition finish (j : job) : list N := fold_left (a_compress A) (j_blocks j) (j_chain j).

Fixpoint remove_nth {X} (i : nat) (l : list X) : list X :=
  match l, i with
  | [], _ => []
  | _ :: r, O => r
  | a :: r, S k => a :: remove_nth k r
  end.

(* hand back held job number i: its digest lands in its context *)
Definition hand_back (s : st) (i : nat) : st * option nat :=
  match nth_error (held s) i with
  | None => (s, None)
  | Some j =>
      let c := getc s (j_ctx j) in
      ({| ctxs := upd (j_ctx j) (set_digest c (finish j)) (ctxs s);
          held := remove_nth i (held s); tick := S (tick s) |}, Some (j_ctx j))
  end.

Definition choose (s : st) : option nat :=
  match sched (tick s) (map j_ctx (held s)) with
  | Some i => if (i <? length (held s))%nat then Some i else None
  | None => None
  end.

(* *_mb_mgr_submit: take the job; hand one back if the oracle says so, and always when full *)
Definition mgr_submit (s : st) (j : job) : st * option nat :=
  let s1 := {| ctxs := ctxs s; held := held s ++ [j]; tick := tick s |} in
  match choose s1 with
  | Some i => hand_back s1 i
  | None => if (K <=? length (held s1))%nat then hand_back s1 0
            else ({| ctxs := ctxs s1; held := held s1; tick := S (tick s1) |}, None)
  end.

(* *_mb_mgr_flush: nothing held -> NULL; otherwise some job is finished and handed back *)
Definition mgr_flush (s : st) : st * option nat :=
  match held s with
  | [] => (s, None)
  | _ => match choose s with Some i => hand_back s i | None => hand_back s 0 end
  end.

(* ---- hash_pad ---------------------------------------------------------------------- *)

(* returns the new partial_block_buffer and the number of extra blocks *)
Definition hash_pad (pbuf : list N) (total : N) : list N * nat :=
  let Bn := N.of_nat B in
  let F := N.of_nat (a_lenfld A) in
  let i := N.land total (Bn - 1) in                                   (* (uint32_t)(total_len & (B-1)) *)
  let buf1 := splice pbuf (N.to_nat i) (zeros B) in                    (* memclr_fixedlen(&padblock[i], B) *)
  let buf2 := upd (N.to_nat i) 128%N buf1 in                           (* padblock[i] = 0x80 *)
  let neg := w64 (2 ^ 64 - w64 (total + F + 1))%N in                   (* 0 - (total_len + F + 1), uint64 *)
  let i2 := (i + N.land (Bn - 1) neg + 1 + F)%N in
  let lenb := a_lenbytes A (w64 (N.shiftl total 3)) in                 (* (total_len << 3), uint64; be/le per algo *)
  let buf3 := splice buf2 (N.to_nat i2 - a_lenfld A) lenb in
  (buf3, N.to_nat (i2 / Bn)%N).

(* ---- the context layer ----------------------------------------------------------- *)

Definition submit_job (s : st) (cid : nat) (blocks : list (list N)) : st * option nat :=
  mgr_submit s {| j_ctx := cid; j_blocks := blocks; j_chain := c_digest (getc s cid) |}.

Inductive outcome := Ret (r : option nat) | OutOfFuel.

(* one pass through the body of the while loop of *_ctx_mgr_resubmit for context [c]:
   either the context is ready to be returned (None) or a job is submitted for it (Some blocks) *)
Definition ctx_next (c : ctx) : ctx * option (list (list N)) :=
  if has (c_status c) STS_COMPLETE then
    (* SM3 byte-swaps the digest here; a_final is the identity for the others *)
    (set_status (set_digest c (a_final A (c_digest c))) STS_COMPLETE, None)
  else
    (* if (partial_block_buffer_length == 0 && incoming_buffer_length) *)
    let '(c1, job1) :=
      if ((c_plen c =? 0)%nat && negb (length (c_inc c) =? 0)%nat)%bool then
        let len := length (c_inc c) in
        let copy_len := (len mod B)%nat in
        let len' := (len - copy_len)%nat in
        let c' := {| c_digest := c_digest c; c_status := c_status c; c_error := c_error c;
                     c_total := c_total c; c_inc := [];
                     c_pbuf := if (copy_len =? 0)%nat then c_pbuf c
                               else splice (c_pbuf c) 0 (skipn len' (c_inc c));
                     c_plen := if (copy_len =? 0)%nat then c_plen c else copy_len |} in
        if negb (len' / B =? 0)%nat then (c', Some (chunks B (firstn len' (c_inc c))))
        else (c', None)
      else (c, None) in
    match job1 with
    | Some blocks => (c1, Some blocks)
    | None =>
        if has (c_status c1) STS_LAST then
          let '(buf, nblk) := hash_pad (c_pbuf c1) (c_total c1) in
          ({| c_digest := c_digest c1; c_status := N.lor STS_PROCESSING STS_COMPLETE;
              c_error := c_error c1; c_total := c_total c1; c_inc := c_inc c1;
              c_pbuf := buf; c_plen := c_plen c1 |},
           Some (chunks B (firstn (nblk * B) buf)))
        else (set_status c1 STS_IDLE, None)
    end.

(* *_ctx_mgr_resubmit: while (ctx) { ... } *)
Fixpoint resubmit (fuel : nat) (s : st) (cur : option nat) : st * outcome :=
  match cur with
  | None => (s, Ret None)
  | Some cid =>
    match fuel with
    | O => (s, OutOfFuel)
    | S f =>
      match ctx_next (getc s cid) with
      | (c', None) => (setc s cid c', Ret (Some cid))
      | (c', Some blocks) =>
          let '(s2, r) := submit_job (setc s cid c') cid blocks in
          resubmit f s2 r
      end
    end
  end.

Definition fuel_for (s : st) : nat := 3 * (length (held s) + 2).

Inductive verdict := Reject (e : N) | Accept (c : ctx) (job : option (list (list N))).

(* the part of *_ctx_mgr_submit before the call of resubmit, for context [c].  [flags] is
   whatever integer the caller passed; [buf] the bytes of the caller's buffer. *)
Definition ctx_accept (c : ctx) (buf : list N) (flags : N) : verdict :=
  if negb (N.land flags (N.lnot FLAG_ENTIRE 32) =? 0)%N then Reject ERR_INVALID_FLAGS
  else if has (c_status c) STS_PROCESSING then Reject ERR_ALREADY_PROCESSING
  else if (has (c_status c) STS_COMPLETE && negb (has flags FLAG_FIRST))%bool then
    Reject ERR_ALREADY_COMPLETED
  else
    let first := has flags FLAG_FIRST in
    let len := length buf in
    let plen0 := if first then 0%nat else c_plen c in
    let c1 := {| c_digest := if first then a_iv A else c_digest c;
                 c_status := if has flags FLAG_LAST then N.lor STS_PROCESSING STS_LAST else STS_PROCESSING;
                 c_error := ERR_NONE;
                 c_total := w64 ((if first then 0 else c_total c) + N.of_nat len);
                 c_inc := buf; c_pbuf := c_pbuf c; c_plen := plen0 |} in
    if (negb (plen0 =? 0)%nat || (len <? B)%nat)%bool then
      let copy_len := Nat.min (B - plen0) len in
      let c2 := if (copy_len =? 0)%nat then c1 else
                {| c_digest := c_digest c1; c_status := c_status c1; c_error := c_error c1;
                   c_total := c_total c1; c_inc := skipn copy_len buf;
                   c_pbuf := splice (c_pbuf c1) plen0 (firstn copy_len buf);
                   c_plen := (plen0 + copy_len)%nat |} in
      if (B <=? c_plen c2)%nat then
        Accept {| c_digest := c_digest c2; c_status := c_status c2; c_error := c_error c2;
                  c_total := c_total c2; c_inc := c_inc c2; c_pbuf := c_pbuf c2; c_plen := 0 |}
               (Some [firstn B (c_pbuf c2)])
      else Accept c2 None
    else Accept c1 None.

Definition ctx_submit (s : st) (cid : nat) (buf : list N) (flags : N) : st * outcome :=
  match ctx_accept (getc s cid) buf flags with
  | Reject e => (setc s cid (set_error (getc s cid) e), Ret (Some cid))
  | Accept c' None => resubmit (fuel_for s) (setc s cid c') (Some cid)
  | Accept c' (Some blocks) =>
      let '(s2, r) := submit_job (setc s cid c') cid blocks in
      resubmit (fuel_for s2) s2 r
  end.

(* *_ctx_mgr_flush: while (1) { ctx = mgr_flush; if (!ctx) return NULL; ctx = resubmit(ctx);
   if (ctx) return ctx; } *)
Fixpoint ctx_flush_f (fuel : nat) (s : st) : st * outcome :=
  match fuel with
  | O => (s, OutOfFuel)
  | S f =>
      let '(s1, r) := mgr_flush s in
      match r with
      | None => (s1, Ret None)
      | Some cid =>
          match resubmit (fuel_for s1) s1 (Some cid) with
          | (s2, Ret None) => ctx_flush_f f s2
          | res => res
          end
      end
  end.
Definition ctx_flush (s : st) : st * outcome := ctx_flush_f (fuel_for s) s.

(* isal_hash_ctx_init: defines status and error only; everything else is whatever the
   memory held ([junk]) *)
Definition ctx_init (junk : ctx) : ctx := set_error (set_status junk STS_COMPLETE) ERR_NONE.

Definition mgr_init (cs : list ctx) : st := {| ctxs := cs; held := []; tick := 0 |}.

(* ---- the isal_*_ctx_mgr_submit / _flush wrappers (SAFE_PARAM, valid pointers) ------ *)

Definition ISAL_ERR_INVALID_FLAGS : N := 2011.
Definition ISAL_ERR_ALREADY_PROCESSING : N := 2012.
Definition ISAL_ERR_ALREADY_COMPLETED : N := 2013.

Definition map_error (e : N) : N :=
  if (e =? ERR_INVALID_FLAGS)%N then ISAL_ERR_INVALID_FLAGS
  else if (e =? ERR_ALREADY_PROCESSING)%N then ISAL_ERR_ALREADY_PROCESSING
  else if (e =? ERR_ALREADY_COMPLETED)%N then ISAL_ERR_ALREADY_COMPLETED
  else 0%N.

(* return code: the error of the context handed back is reported only when that context
   is the one this call submitted *)
Definition api_submit (s : st) (cid : nat) (buf : list N) (flags : N) : st * outcome * N :=
  let '(s', o) := ctx_submit s cid buf flags in
  let rc := match o with
            | Ret (Some r) => if (r =? cid)%nat then map_error (c_error (getc s' r)) else 0%N
            | _ => 0%N
            end in
  (s', o, rc).

Inductive op := Submit (cid : nat) (buf : list N) (flags : N) | Flush.

Definition step (s : st) (o : op) : st * outcome * N :=
  match o with
  | Submit cid buf flags => api_submit s cid buf flags
  | Flush => let '(s', r) := ctx_flush s in (s', r, 0%N)
  end.

Fixpoint run (s : st) (ops : list op) : st * list (outcome * N) :=
  match ops with
  | [] => (s, [])
  | o :: r => let '(s1, out, rc) := step s o in
              let '(s2, outs) := run s1 r in (s2, (out, rc) :: outs)
  end.

End HashCtx.
