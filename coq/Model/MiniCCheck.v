(* MiniCCheck — the decision engine and the checkers of C13 / C16 over MiniC decision trees.
   Executable definitions only; soundness is proved in Proofs/MiniCFacts.v, MiniCSound.v.

   Engine: a question  Q w = G (run-result in w) (truth of some formulas in w)  depends on the
   world only through finitely many atoms.  Every supported atom compares one key (or one key
   masked by 2^j - 1, or the bitwise or of two keys against 0) with a constant, so its truth
   is constant on each region cut out by the constants (and residues).  check_all enumerates
   one world per combination of regions; Proofs/MiniCFacts.engine_sound lifts a clean
   enumeration to all worlds. *)
From Coq Require Import NArith List Bool.
From ISAL Require Import Model.MiniC.
Import ListNotations.
Local Open Scope N_scope.

(* ------------------------------------------------------------------ equality tests *)

Definition cty_eqb (a b : cty) : bool :=
  match a, b with
  | CInt x s, CInt y t => (x =? y) && Bool.eqb s t
  | CPtr, CPtr | CVoid, CVoid => true
  | _, _ => false
  end.
Definition unop_eqb (a b : unop) : bool :=
  match a, b with ONeg, ONeg | OBNot, OBNot => true | _, _ => false end.
Definition binop_n (o : binop) : N :=
  match o with OAdd => 0 | OSub => 1 | OMul => 2 | OShl => 3 | OShr => 4 | OAnd => 5 | OOr => 6 | OXor => 7
               | ODiv => 8 | ORem => 9 end.
Definition cmpop_n (o : cmpop) : N :=
  match o with CEq => 0 | CNe => 1 | CLt => 2 | CLe => 3 | CGt => 4 | CGe => 5 end.
Fixpoint sval_eqb (a b : sval) : bool :=
  match a, b with
  | SConst x, SConst y => x =? y
  | SKey k, SKey l => skey_eqb k l
  | SUn o t x, SUn p u y => unop_eqb o p && cty_eqb t u && sval_eqb x y
  | SBin o t x1 x2, SBin p u y1 y2 => (binop_n o =? binop_n p) && cty_eqb t u && sval_eqb x1 y1 && sval_eqb x2 y2
  | SCmp o t x1 x2, SCmp p u y1 y2 => (cmpop_n o =? cmpop_n p) && cty_eqb t u && sval_eqb x1 y1 && sval_eqb x2 y2
  | SCast f t x, SCast g u y => cty_eqb f g && cty_eqb t u && sval_eqb x y
  | _, _ => false
  end.
Fixpoint svals_eqb (a b : list sval) : bool :=
  match a, b with
  | [], [] => true
  | x :: r, y :: s => sval_eqb x y && svals_eqb r s
  | _, _ => false
  end.

(* ------------------------------------------------------------------ formulas *)

Inductive form := FTrue | FFalse | FAtom (a : sval) | FNot (f : form) | FAnd (f g : form) | FOr (f g : form).
Fixpoint eval_form (w : world) (f : form) : bool :=
  match f with
  | FTrue => true | FFalse => false
  | FAtom a => truth w a
  | FNot g => negb (eval_form w g)
  | FAnd g h => eval_form w g && eval_form w h
  | FOr g h => eval_form w g || eval_form w h
  end.
Fixpoint form_atoms (f : form) : list sval :=
  match f with
  | FAtom a => [a]
  | FNot g => form_atoms g
  | FAnd g h | FOr g h => form_atoms g ++ form_atoms h
  | _ => []
  end.
Fixpoint tree_atoms (t : dtree) : list sval :=
  match t with Node c a b => c :: tree_atoms a ++ tree_atoms b | _ => [] end.

(* ------------------------------------------------------------------ atoms -> regions *)

(* what one atom contributes: per key, cut points and a modulus (a power of two) *)
Record kinfo := { ki_key : skey; ki_cuts : list N; ki_mod : N }.

Definition ord_ok (op : cmpop) (t : cty) : bool := is_eqne op || negb (signed t).
(* m = 2^j - 1 for some j <= 64 *)
Definition pow2m1 (m : N) : bool := existsb (fun j => m =? N.ones (N.of_nat j)) (seq 0 65).

Definition atom_info (a : sval) : option (list kinfo) :=
  match a with
  | SConst _ => Some []
  | SKey k => Some [{| ki_key := k; ki_cuts := [0; 1]; ki_mod := 1 |}]
  | SCmp op t (SKey k) (SConst c) =>
      if ord_ok op t then Some [{| ki_key := k; ki_cuts := [c; c + 1]; ki_mod := 1 |}] else None
  | SCmp op t (SBin OAnd _ (SKey k) (SConst m)) (SConst c) =>
      if ord_ok op t && pow2m1 m then Some [{| ki_key := k; ki_cuts := []; ki_mod := m + 1 |}] else None
  | SCmp op t (SBin OOr _ (SKey k1) (SKey k2)) (SConst 0) =>
      if is_eqne op then Some [{| ki_key := k1; ki_cuts := [0; 1]; ki_mod := 1 |};
                               {| ki_key := k2; ki_cuts := [0; 1]; ki_mod := 1 |}] else None
  | _ => None
  end.

Fixpoint atoms_info (l : list sval) : option (list kinfo) :=
  match l with
  | [] => Some []
  | a :: r => match atom_info a, atoms_info r with
              | Some x, Some y => Some (x ++ y)
              | _, _ => None end
  end.

Fixpoint key_in (k : skey) (l : list skey) : bool :=
  match l with [] => false | x :: r => skey_eqb k x || key_in k r end.
Fixpoint dedup_keys (l : list skey) (acc : list skey) : list skey :=
  match l with [] => rev acc | k :: r => if key_in k acc then dedup_keys r acc else dedup_keys r (k :: acc) end.

Fixpoint dedupN (l : list N) (acc : list N) : list N :=
  match l with [] => rev acc | x :: r => if existsb (N.eqb x) acc then dedupN r acc else dedupN r (x :: acc) end.
Definition cuts_of (inf : list kinfo) (k : skey) : list N :=
  dedupN (0 :: flat_map (fun i => if skey_eqb (ki_key i) k then ki_cuts i else []) inf) [].
Definition mod_of (inf : list kinfo) (k : skey) : N :=
  fold_left (fun m i => if skey_eqb (ki_key i) k then N.lcm m (ki_mod i) else m) inf 1.

(* residues 0 .. m-1 *)
Definition residues (m : N) : list N := map N.of_nat (seq 0 (N.to_nat m)).
Definition cands (inf : list kinfo) (k : skey) : list N :=
  dedupN (flat_map (fun c => map (fun r => c + r) (residues (mod_of inf k))) (cuts_of inf k)) [].

(* the representative of x: the greatest cut below it, plus its residue *)
Definition cut_below (cuts : list N) (x : N) : N :=
  fold_left (fun best c => if (c <=? x) && (best <=? c) then c else best) cuts 0.
Definition rep (inf : list kinfo) (k : skey) (x : N) : N :=
  let c := cut_below (cuts_of inf k) x in c + (x - c) mod (mod_of inf k).

Definition assign := list (skey * N).
Fixpoint world_of (l : assign) : world :=
  fun k => match l with [] => 0 | (k', v) :: r => if skey_eqb k k' then v else world_of r k end.

(* all assignments of candidate values to the keys of the table kc (on top of acc), without
   building the product *)
Fixpoint all_assign (kc : list (skey * list N)) (acc : assign) (Q : assign -> bool) : bool :=
  match kc with
  | [] => Q acc
  | (k, vs) :: r => forallb (fun v => all_assign r ((k, v) :: acc) Q) vs
  end.
Fixpoint find_assign (kc : list (skey * list N)) (acc : assign) (Q : assign -> bool) : option assign :=
  match kc with
  | [] => if Q acc then None else Some acc
  | (k, vs) :: r =>
      (fix go (vs : list N) : option assign :=
         match vs with
         | [] => None
         | v :: vr => match find_assign r ((k, v) :: acc) Q with Some a => Some a | None => go vr end
         end) vs
  end.

Definition keys_of_info (inf : list kinfo) : list skey := dedup_keys (map ki_key inf) [].
Definition cand_table (inf : list kinfo) : list (skey * list N) :=
  map (fun k => (k, cands inf k)) (keys_of_info inf).

Definition check_all (atoms : list sval) (Q : world -> bool) : bool :=
  match atoms_info atoms with
  | None => false
  | Some inf => all_assign (cand_table inf) [] (fun l => Q (world_of l))
  end.

(* a counterexample assignment, for the replay (None: clean, or unsupported atom) *)
Definition find_cex (atoms : list sval) (Q : world -> bool) : option assign :=
  match atoms_info atoms with
  | None => None
  | Some inf => find_assign (cand_table inf) [] (fun l => Q (world_of l))
  end.
Definition unsupported_atoms (atoms : list sval) : list sval :=
  filter (fun a => match atom_info a with None => true | _ => false end) atoms.

(* questions: a function of the selected leaf and of the truth values of formulas *)
Definition mkQ (t : dtree) (fs : list form) (G : dtree -> list bool -> bool) : world -> bool :=
  fun w => G (eval_tree w t) (map (eval_form w) fs).
Definition atomsQ (t : dtree) (fs : list form) : list sval := tree_atoms t ++ flat_map form_atoms fs.
Definition decide (t : dtree) (fs : list form) (G : dtree -> list bool -> bool) : bool :=
  check_all (atomsQ t fs) (mkQ t fs G).
Definition witness (t : dtree) (fs : list form) (G : dtree -> list bool -> bool) : option assign :=
  find_cex (atomsQ t fs) (mkQ t fs G).

(* ------------------------------------------------------------------ specification records *)

Inductive eclass := Approved | NonApproved | Neutral.
Inductive rkind :=
| RZero                         (* returns 0 *)
| RCallee                       (* returns what the internal call returned *)
| RMapped (codes : list N).     (* returns 0 or one of these codes (mapping of the handed-back context's error) *)

(* what a call with in-domain arguments must do *)
Record shape := { sh_callee : N;                (* the internal symbol *)
                  sh_args : list sval;          (* its argument vector in terms of the entry's arguments *)
                  sh_store : option N;          (* Some j: the result is stored through argument j *)
                  sh_ret : rkind;
                  sh_inline : bool }.           (* the internal function is one of the translated ones *)

Record pspec := { p_off : form;                 (* when this parameter must be refused *)
                  p_may : form;                 (* when it may be refused (where the documentation is silent) *)
                  p_codes : list N }.           (* codes documented for it *)

Record espec := { e_id : N;
                  e_class : eclass;
                  e_params : list pspec;
                  e_shape : shape;
                  e_legacy : list N;            (* deprecated entry points that are its counterpart *)
                  e_pre : form;                 (* in-domain arguments for which the internal symbol has work to do *)
                  e_samekey : form }.           (* XTS: "the two keys are identical"; FFalse elsewhere *)

(* ------------------------------------------------------------------ trace predicates *)

Definition is_enter (e : event) : bool := match e with EvEnter _ _ => true | _ => false end.
Definition is_read (e : event) : bool := match e with EvRead _ => true | _ => false end.
(* nothing was read, written or called *)
Definition quiet (tr : list event) : bool := forallb is_enter tr.

Definition ret_const (r : option sval) : option N :=
  match r with Some (SConst c) => Some c | _ => None end.

Definition ret_ok (k : rkind) (callee : N) (r : option sval) : bool :=
  match k with
  | RZero => match ret_const r with Some 0 => true | _ => false end
  | RCallee => match r with Some v => sval_eqb v (SKey (KExt callee 0)) | None => false end
  | RMapped cs => match ret_const r with Some c => (c =? 0) || existsb (N.eqb c) cs | None => false end
  end.

Definition store_ok (sh : shape) (rest : list event) : bool :=
  match sh_store sh, rest with
  | None, [] => true
  | Some j, EvWrite (KArg j') 0 v :: reads =>
      (j =? j') && sval_eqb v (SKey (KExt (sh_callee sh) 0)) && forallb is_read reads
  | _, _ => false
  end.

(* EvEnter events only mark that a translated helper (a static function of the wrapper file,
   isal_self_tests) was executed in line: its own reads / writes / calls follow as events *)
Definition no_enter (tr : list event) : list event := filter (fun e => negb (is_enter e)) tr.
Definition enters_of (f : N) (tr : list event) : list event :=
  filter (fun e => match e with EvEnter g _ => g =? f | _ => true end) tr.

(* exactly one internal call, arguments passed through, result delivered as documented *)
Definition shape_ok (sh : shape) (r : option sval) (tr : list event) : bool :=
  if sh_inline sh then
    match enters_of (sh_callee sh) tr with
    | EvEnter f args :: rest =>
        (f =? sh_callee sh) && svals_eqb args (sh_args sh) && ret_ok (sh_ret sh) (sh_callee sh) r
    | _ => false
    end
  else
    match no_enter tr with
    | EvCall f args :: rest =>
        (f =? sh_callee sh) && svals_eqb args (sh_args sh) &&
        store_ok sh rest && ret_ok (sh_ret sh) (sh_callee sh) r
    | _ => false
    end.

Fixpoint any_true (l : list bool) : bool := match l with [] => false | b :: r => b || any_true r end.
(* is code c documented for one of the parameters flagged in bs *)
Fixpoint code_admissible (c : N) (ps : list pspec) (bs : list bool) : bool :=
  match ps, bs with
  | p :: pr, b :: br => (b && existsb (N.eqb c) (p_codes p)) || code_admissible c pr br
  | _, _ => false
  end.

(* ------------------------------------------------------------------ C16 *)

(* G of C16: bs = [precondition of the internal symbol] ++ must-refuse flags ++ may-refuse flags *)
Definition refused_ok (e : espec) (r : option sval) (tr : list event) (mays : list bool) : bool :=
  quiet tr &&
  match ret_const r with
  | Some c => negb (c =? 0) && code_admissible c (e_params e) mays
  | None => false
  end.
Definition accepted_ok (e : espec) (pre : bool) (r : option sval) (tr : list event) : bool :=
  shape_ok (e_shape e) r tr ||
  (* in the documented domain, but there is nothing for the internal symbol to do (a zero
     length): succeeding without reaching it is as good as reaching it *)
  (negb pre && quiet tr && match ret_const r with Some 0 => true | _ => false end).
Definition g16 (e : espec) (res : dtree) (bs0 : list bool) : bool :=
  match res, bs0 with
  | Leaf r tr, pre :: bs =>
      let n := length (e_params e) in
      let musts := firstn n bs in
      let mays := skipn n bs in
      if any_true musts then refused_ok e r tr mays
      else if any_true mays then refused_ok e r tr mays || accepted_ok e pre r tr
      else accepted_ok e pre r tr
  | _, _ => false
  end.
Definition forms16 (e : espec) : list form :=
  e_pre e :: map p_off (e_params e) ++ map p_may (e_params e).
Definition check16 (T : ftab) (e : espec) : bool :=
  match ftab_get T (e_id e) with
  | Some d => decide (entry_tree T d) (forms16 e) (g16 e)
  | None => false
  end.
Definition cex16 (T : ftab) (e : espec) : option assign :=
  match ftab_get T (e_id e) with
  | Some d => witness (entry_tree T d) (forms16 e) (g16 e)
  | None => None
  end.

(* legacy entry point: no decision at all, one call of the same symbol, its own arguments
   passed through in order (the isal_ counterpart passes sh_args: same vector under the
   correspondence  legacy argument j  <->  sh_args[j]) *)
Definition legacy_ok (T : ftab) (sh : shape) (l : N) : bool :=
  match ftab_get T l with
  | Some d =>
      match entry_tree T d with
      | Leaf r (EvCall f args :: rest) =>
          (f =? sh_callee sh) && svals_eqb args (arg_keys 0 (f_params d)) &&
          (Nat.eqb (length args) (length (sh_args sh))) &&
          match rest with [] => true | _ => false end &&
          match r with
          | None => true
          | Some v => sval_eqb v (SKey (KExt f 0)) || sval_eqb v (SConst 0)
          end
      | _ => false
      end
  | None => false
  end.
(* legacy bodies that inline a translated helper (rolling_hash2_init) have the helper's own
   decisions; they are compared with a direct symbolic call of the helper *)
Definition helper_tree (T : ftab) (d : fundef) (callee : N) : dtree :=
  callf T FUEL callee (arg_keys 0 (f_params d)) st0 (fun v s => Leaf (Some v) (rev (tr s))).
Fixpoint dtree_eqb (a b : dtree) : bool :=
  match a, b with
  | Leaf r tr, Leaf r' tr' =>
      match r, r' with
      | Some x, Some y => sval_eqb x y
      | None, None => true
      | _, _ => false
      end &&
      (fix evs (x y : list event) : bool :=
         match x, y with
         | [], [] => true
         | EvRead k :: p, EvRead k' :: q => skey_eqb k k' && evs p q
         | EvWrite k f v :: p, EvWrite k' f' v' :: q => skey_eqb k k' && (f =? f') && sval_eqb v v' && evs p q
         | EvCall f a :: p, EvCall f' a' :: q => (f =? f') && svals_eqb a a' && evs p q
         | EvEnter f a :: p, EvEnter f' a' :: q => (f =? f') && svals_eqb a a' && evs p q
         | EvOpaque n :: p, EvOpaque n' :: q => (n =? n') && evs p q
         | _, _ => false
         end) tr tr'
  | Node c x y, Node c' x' y' => sval_eqb c c' && dtree_eqb x x' && dtree_eqb y y'
  | Stuck n, Stuck m => n =? m
  | _, _ => false
  end.
Definition legacy_same (T : ftab) (sh : shape) (l : N) : bool :=
  if sh_inline sh then
    match ftab_get T l with
    | Some d => dtree_eqb (entry_tree T d) (helper_tree T d (sh_callee sh)) &&
                Nat.eqb (length (f_params d)) (length (sh_args sh))
    | None => false
    end
  else legacy_ok T sh l.
Definition check_legacy (T : ftab) (e : espec) : bool := forallb (legacy_same T (e_shape e)) (e_legacy e).

(* ------------------------------------------------------------------ C13 *)

Section C13.
  Variables (id_aes id_sha : N).      (* _aes_self_tests, _sha_self_tests *)
  Definition ERR_XTS_SAME_KEYS : N := 2015.
  Definition ERR_SELF_TEST : N := 2016.
  Definition ERR_FIPS_INVALID_ALGO : N := 2017.

  (* events of the gate itself: entering isal_self_tests, reading the keys for memcmp, the status
     check/set calls and the two self-test runs; everything else is work *)
  Definition is_gate_call (f : N) : bool :=
    (f =? B_CHECK) || (f =? B_SET) || (f =? id_aes) || (f =? id_sha).
  Definition is_work (e : event) : bool :=
    match e with
    | EvWrite _ _ _ | EvOpaque _ => true
    | EvCall f _ => negb (is_gate_call f)
    | _ => false
    end.
  Definition no_work (tr : list event) : bool := forallb (fun e => negb (is_work e)) tr.
  Definition no_call (tr : list event) : bool :=
    forallb (fun e => match e with EvCall _ _ => false | _ => negb (is_work e) end) tr.
  Fixpoint before_work (tr : list event) : list event :=
    match tr with [] => [] | e :: r => if is_work e then [] else e :: before_work r end.
  Definition calls (f : N) (tr : list event) : bool :=
    existsb (fun e => match e with EvCall g _ => g =? f | _ => false end) tr.
  Definition core (tr : list event) : list event :=
    filter (fun e => match e with
                     | EvEnter _ _ | EvRead _ => false
                     | EvCall f _ => negb (is_gate_call f)
                     | _ => true end) tr.

  Definition a_eq (k : skey) (c : N) : form := FAtom (SCmp CEq (CInt 32 true) (SKey k) (SConst c)).
  Definition f_passed : form := a_eq KStatus 0.
  Definition f_failed : form := a_eq KStatus 1.
  Definition f_aes_ok : form := a_eq (KExt id_aes 0) 0.
  Definition f_sha_ok : form := a_eq (KExt id_sha 0) 0.

  (* formulas: [passed; failed; aes ok; sha ok; same key; kernel precondition] ++ offending parameters *)
  Definition forms13 (e : espec) : list form :=
    [f_passed; f_failed; f_aes_ok; f_sha_ok; e_samekey e; e_pre e] ++ map p_may (e_params e).

  Definition ret_is (r : option sval) (c : N) : bool :=
    match ret_const r with Some x => x =? c | None => false end.
  (* (XTS) the key pair was refused before anything was called: never a C13 violation *)
  Definition refused (r : option sval) (tr : list event) : bool :=
    ret_is r ERR_XTS_SAME_KEYS && no_call tr.
  (* the call went through: the status was consulted (and whatever `ran` demands happened)
     before one internal call with the arguments passed through — or, when the internal symbol
     cannot take the in-domain arguments (C16), 0 without any work *)
  Definition went_through (e : espec) (pre ran : bool) (r : option sval) (tr : list event) : bool :=
    calls B_CHECK (before_work tr) && ran &&
    (shape_ok (e_shape e) r (core tr) || (negb pre && ret_is r 0 && no_work tr)).

  (* C13 quantifies over otherwise-valid arguments: worlds with an offending parameter are
     outside (C16 covers them on the default build) *)
  Definition g13_approved (e : espec) (res : dtree) (bs : list bool) : bool :=
    match res, bs with
    | Leaf r tr, passed :: failed :: aes_ok :: sha_ok :: same :: pre :: offs =>
        if any_true offs then true
        else if refused r tr then true
        else if same then
          (* identical XTS keys must be refused before anything is called, whatever the status *)
          false
        else if failed then
          (* self-tests failed: the self-test error, nothing written, no crypto symbol reached *)
          ret_is r ERR_SELF_TEST && no_work tr
        else if passed then went_through e pre true r tr
        else if aes_ok && sha_ok then
          (* not run yet, and they pass now: both ran before the first piece of work *)
          went_through e pre (calls id_aes (before_work tr) && calls id_sha (before_work tr)) r tr
        else
          (* not run yet, and one of them fails now: blocked *)
          ret_is r ERR_SELF_TEST && no_work tr
    | _, _ => false
    end.

  Definition g13_nonapproved (res : dtree) (bs : list bool) : bool :=
    match res with
    | Leaf r [] => match ret_const r with Some c => c =? ERR_FIPS_INVALID_ALGO | None => false end
    | _ => false
    end.

  Definition g13 (e : espec) : dtree -> list bool -> bool :=
    match e_class e with
    | Approved => g13_approved e
    | NonApproved => g13_nonapproved
    | Neutral => fun _ _ => true
    end.

  Definition check13 (T : ftab) (e : espec) : bool :=
    match ftab_get T (e_id e) with
    | Some d => decide (entry_tree T d) (forms13 e) (g13 e)
    | None => false
    end.
  Definition cex13 (T : ftab) (e : espec) : option assign :=
    match ftab_get T (e_id e) with
    | Some d => witness (entry_tree T d) (forms13 e) (g13 e)
    | None => None
    end.
End C13.

(* ------------------------------------------------------------------ acceptors for native observations

   What the native harness sees of one call of the real entry point: the return value, the
   interposed internal calls with their argument registers, which argument buffers changed,
   whether it faulted.  obs_leaf turns that into a Leaf so that the same G decides it
   (L0 oracle: the property itself, evaluated on the real code's behaviour). *)
Record obs := { o_ret : N; o_calls : list (N * list N); o_chg : list N; o_fault : bool; o_stubret : N }.

Fixpoint symbolize (w : world) (expected : list sval) (got : list N) : list sval :=
  match expected, got with
  | x :: er, c :: gr => (if eval w x =? c then x else SConst c) :: symbolize w er gr
  | _, _ => []
  end.

Definition obs_leaf (e : espec) (w : world) (o : obs) : dtree :=
  let sh := e_shape e in
  let callee := sh_callee sh in
  let called := existsb (fun c => fst c =? callee) (o_calls o) in
  let evs := map (fun c => if fst c =? callee then EvCall callee (symbolize w (sh_args sh) (snd c))
                           else EvCall (fst c) []) (o_calls o) in
  let wr := flat_map (fun j => match sh_store sh with
                               | Some k => if (j =? k) && called then [EvWrite (KArg j) 0 (SKey (KExt callee 0))]
                                           else [EvOpaque 99]
                               | None => [EvOpaque 99] end) (o_chg o) in
  let r := match sh_ret sh with
           | RCallee => if called && (o_ret o =? o_stubret o) then SKey (KExt callee 0) else SConst (o_ret o)
           | _ => SConst (o_ret o) end in
  let inl := if sh_inline sh && (o_ret o =? 0) && negb (o_fault o) then [EvEnter callee (sh_args sh)] else [] in
  Leaf (Some r) (inl ++ evs ++ (if sh_inline sh && (o_ret o =? 0) then [] else wr) ++
                 (if o_fault o then [EvOpaque 98] else [])).

Definition judge16 (e : espec) (l : assign) (o : obs) : bool :=
  let w := world_of l in g16 e (obs_leaf e w o) (map (eval_form w) (forms16 e)).
Definition judge13 (id_aes id_sha : N) (e : espec) (l : assign) (o : obs) : bool :=
  let w := world_of l in g13 id_aes id_sha e (obs_leaf e w o) (map (eval_form w) (forms13 id_aes id_sha e)).

(* every exported entry point has exactly one specification *)
Definition covers (specs : list espec) (entries : list N) : bool :=
  forallb (fun i => Nat.eqb (length (filter (fun e => e_id e =? i) specs)) 1) entries &&
  forallb (fun e => existsb (N.eqb (e_id e)) entries) specs.
