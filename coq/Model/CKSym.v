(* ckernels vertical — the symbolic equivalence checker (definitions only; soundness in
   Proofs/CKSymFacts.v).

   A table is a hash-consed DAG of NORMALISED word expressions over input variables; a node
   refers to earlier nodes by index, so the 64 rounds of a hash give a few thousand nodes instead
   of an exponential tree.  Every table entry carries a bit bound (its value is < 2^bound).
   Normalisation happens in the smart constructors, so two expressions that are equal "for the
   usual reasons" get the SAME index and equality of results is equality of indices:
     - sums modulo 2^w: one node holding a LINEAR FORM: constant part + sorted list of
       (non-sum node, multiplicity) - associativity, commutativity and evaluation order do not
       matter, and the size is bounded by the number of distinct non-sum nodes (state words of a
       hash are sums of older state words: flattening without multiplicities explodes);
     - & | ^ ~ : operands enter with their diagram when it has at most KLEAVES levels (as one leaf
       otherwise); the result is one node holding an
       ordered decision diagram over the non-bitwise operands (canonical for boolean functions:
       ch / maj / x & ~y in any of their usual forms coincide, & and | commutative);
     - a ^ whose diagram would have more than KLEAVES levels: one node holding an XOR LINEAR FORM (constant + descending list of distinct
       non-xor nodes, equal nodes cancel) - a diagram is a tree and the xor of n operands would need
       2^n nodes (SM3's message schedule); a small diagram that is the xor of its support is flattened
       into the form, so association and order of ^ do not matter;
     - (x >> r) op (x << (w - r)) with op in {|, ^} on a w-bit value: the rotation Ror w r x
       (rol r = ror (w - r));
     - constants folded everywhere; casts that cannot change the value dropped.
   The symbolic interpreter runs a Model/CKernel.v program on symbolic memory (cells = node
   indices); branch and loop conditions, shift counts and array indices must evaluate to
   constants (straight-line kernels and loops with constant bounds: a finite unfolding).
   Anything else makes the checker answer None (fail closed). *)
From Coq Require Import NArith List Bool Arith.
From ISAL Require Import Base.Words Base.ListUtil Spec.MD Spec.SHA1 Spec.SHA256 Model.CKernel.
Import ListNotations.
Local Open Scope N_scope.

(* ---------------------------------------------------------------- boolean functions *)

Inductive bf := BC (b : bool) | BN (x : N) (lo hi : bf).

Fixpoint bf_eqb (f g : bf) : bool :=
  match f, g with
  | BC a, BC b => Bool.eqb a b
  | BN x l h, BN y l' h' => (x =? y) && bf_eqb l l' && bf_eqb h h'
  | _, _ => false
  end.

Definition bmk (x : N) (lo hi : bf) : bf := if bf_eqb lo hi then lo else BN x lo hi.

Fixpoint bapply (op : bool -> bool -> bool) (f : bf) : bf -> bf :=
  fix go (g : bf) : bf :=
    match f with
    | BC a => match g with
              | BC b => BC (op a b)
              | BN y gl gh => bmk y (go gl) (go gh)
              end
    | BN x fl fh =>
        match g with
        | BC _ => bmk x (bapply op fl g) (bapply op fh g)
        | BN y gl gh =>
            if x <? y then bmk x (bapply op fl g) (bapply op fh g)
            else if y <? x then bmk y (go gl) (go gh)
            else bmk x (bapply op fl gl) (bapply op fh gh)
        end
    end.

Fixpoint bnot (f : bf) : bf :=
  match f with BC b => BC (negb b) | BN x l h => BN x (bnot l) (bnot h) end.

Fixpoint beval (b : N -> bool) (f : bf) : bool :=
  match f with BC c => c | BN x l h => if b x then beval b h else beval b l end.

Fixpoint bf_lt (f : bf) (n : N) : bool :=
  match f with BC _ => true | BN x l h => (x <? n) && bf_lt l n && bf_lt h n end.

Definition bleaf (x : N) : bf := BN x (BC false) (BC true).

(* the number whose bit i (i < n) is f i *)
Fixpoint build (f : N -> bool) (n : nat) : N :=
  match n with
  | O => 0
  | S m => let r := build f m in if f (N.of_nat m) then N.setbit r (N.of_nat m) else r
  end.

(* ---------------------------------------------------------------- nodes and tables *)

Inductive node :=
| NVar (k : nat)
| NConst (c : N)
| NSum (w c : N) (args : list (N * N))
| NBit (w : N) (f : bf)
| NShl (w k : N) (a : N)
| NShr (k : N) (a : N)
| NRor (w r : N) (a : N)
| NBswap (w : N) (a : N)
| NCast (w : N) (a : N)
| NMul (w : N) (a b : N)
| NXor (w c : N) (args : list N).

Definition entry := (node * N)%type.
Definition tbl := list entry.

Fixpoint psum (v : N -> N) (l : list (N * N)) : N :=
  match l with [] => 0 | (a, m) :: r => m * v a + psum v r end.

Fixpoint xfold (v : N -> N) (l : list N) : N :=
  match l with [] => 0 | a :: r => N.lxor (v a) (xfold v r) end.

Section Val.
Variable rho : nat -> N.

Definition nval (vs : list N) (n : node) : N :=
  let v := fun a : N => nth (N.to_nat a) vs 0 in
  match n with
  | NVar k => rho k
  | NConst c => c
  | NSum w c args => wrap w (c + psum v args)
  | NBit w f => build (fun i => beval (fun x => N.testbit (v x) i) f) (N.to_nat w)
  | NShl w k a => wrap w (N.shiftl (v a) k)
  | NShr k a => N.shiftr (v a) k
  | NRor w r a => ror w (v a) r
  | NBswap w a => bswap w (v a)
  | NCast w a => wrap w (v a)
  | NMul w a b => wrap w (v a * v b)
  | NXor w c l => N.lxor c (xfold v l)
  end.

Definition tvals (s : tbl) : list N :=
  fold_left (fun acc (e : entry) => acc ++ [nval acc (fst e)]) s [].

Definition V (s : tbl) (i : N) : N := nth (N.to_nat i) (tvals s) 0.
End Val.

Fixpoint list_nat_eqb (a b : list N) : bool :=
  match a, b with
  | [], [] => true
  | x :: r, y :: r' => (x =? y) && list_nat_eqb r r'
  | _, _ => false
  end.

Fixpoint list_pair_eqb (a b : list (N * N)) : bool :=
  match a, b with
  | [], [] => true
  | (x, m) :: r, (y, n) :: r' => (x =? y) && (m =? n) && list_pair_eqb r r'
  | _, _ => false
  end.

Definition node_eqb (a b : node) : bool :=
  match a, b with
  | NVar k, NVar k' => Nat.eqb k k'
  | NConst c, NConst c' => c =? c'
  | NSum w c l, NSum w' c' l' => (w =? w') && (c =? c') && list_pair_eqb l l'
  | NBit w f, NBit w' f' => (w =? w') && bf_eqb f f'
  | NShl w k a, NShl w' k' a' => (w =? w') && (k =? k') && (a =? a')
  | NShr k a, NShr k' a' => (k =? k') && (a =? a')
  | NRor w r a, NRor w' r' a' => (w =? w') && (r =? r') && (a =? a')
  | NBswap w a, NBswap w' a' => (w =? w') && (a =? a')
  | NCast w a, NCast w' a' => (w =? w') && (a =? a')
  | NMul w a b, NMul w' a' b' => (w =? w') && (a =? a') && (b =? b')
  | NXor w c l, NXor w' c' l' => (w =? w') && (c =? c') && list_nat_eqb l l'
  | _, _ => false
  end.

Definition args_lt (n : node) (k : N) : bool :=
  match n with
  | NVar _ | NConst _ => true
  | NSum _ _ l => forallb (fun p : N * N => fst p <? k) l
  | NBit _ f => bf_lt f k
  | NShl _ _ a | NShr _ a | NRor _ _ a | NBswap _ a | NCast _ a => a <? k
  | NMul _ a b => (a <? k) && (b <? k)
  | NXor _ _ l => forallb (fun a => a <? k) l
  end.

Fixpoint find_idx (n : node) (s : tbl) (i : N) : option N :=
  match s with
  | [] => None
  | (m, _) :: r => if node_eqb n m then Some i else find_idx n r (N.succ i)
  end.

(* ---------------------------------------------------------------- the table monad *)

Definition M (A : Type) := tbl -> option (A * tbl).
Definition ret {A} (a : A) : M A := fun s => Some (a, s).
Definition fail {A} : M A := fun _ => None.
Definition bind {A B} (m : M A) (f : A -> M B) : M B :=
  fun s => match m s with Some (a, s') => f a s' | None => None end.
Notation "x <- m ;; f" := (bind m (fun x => f)) (at level 61, m at next level, right associativity).

Definition intern (n : node) (b : N) : M N :=
  fun s => match find_idx n s 0 with
           | Some i => Some (i, s)
           | None => Some (N.of_nat (length s), s ++ [(n, b)])
           end.

Definition node_of (s : tbl) (i : N) : option node :=
  match nth_error s (N.to_nat i) with Some (n, _) => Some n | None => None end.
Definition bw (s : tbl) (i : N) : N :=
  match nth_error s (N.to_nat i) with Some (_, b) => b | None => 0 end.
Definition as_const (s : tbl) (i : N) : option N :=
  match node_of s i with Some (NConst c) => Some c | _ => None end.

Definition mk_const (c : N) : M N := intern (NConst c) (N.size c).

Fixpoint pmerge (l1 : list (N * N)) : list (N * N) -> list (N * N) :=
  fix go (l2 : list (N * N)) : list (N * N) :=
    match l1, l2 with
    | [], _ => l2
    | _, [] => l1
    | (a, m) :: r1, (b, n) :: r2 =>
        (* descending atom order: the newest atoms come first, so that two different linear
           forms differ early (the order plays no role in soundness) *)
        if b <? a then (a, m) :: pmerge r1 l2
        else if a <? b then (b, n) :: go r2
        else (a, m + n) :: pmerge r1 r2
    end.

Definition sumform (s : tbl) (w : N) (a : N) : N * list (N * N) :=
  match node_of s a with
  | Some (NSum w' c l) => if w' =? w then (c, l) else (0, [(a, 1)])
  | Some (NConst c) => (c, [])
  | _ => (0, [(a, 1)])
  end.

Definition mk_add (w : N) (a b : N) : M N := fun s =>
  let '(ca, la) := sumform s w a in
  let '(cb, lb) := sumform s w b in
  let c := wrap w (ca + cb) in
  let l := pmerge la lb in
  match l with
  | [] => mk_const c s
  | [(x, m)] => if (c =? 0) && (m =? 1) && (bw s x <=? w) then Some (x, s) else intern (NSum w c l) w s
  | _ => intern (NSum w c l) w s
  end.

Definition mk_sub (w : N) (a b : N) : M N := fun s =>
  match as_const s a, as_const s b with
  | Some ca, Some cb => mk_const (wrap w (ca + (2 ^ w - wrap w cb))) s
  | _, _ => None
  end.

Definition mk_mul (w : N) (a b : N) : M N := fun s =>
  match as_const s a, as_const s b with
  | Some ca, Some cb => mk_const (wrap w (ca * cb)) s
  | _, _ => intern (NMul w (N.min a b) (N.max a b)) w s
  end.

Definition mk_ror (w r : N) (x : N) : M N := fun s =>
  if (bw s x <=? w) && (r <? w) then
    match as_const s x with
    | Some c => mk_const (ror w c r) s
    | None => intern (NRor w r x) w s
    end
  else None.

Definition mk_rol (w r : N) (x : N) : M N :=
  if (0 <? r) && (r <? w) then mk_ror w (w - r) x else fail.

Definition bfof (s : tbl) (w : N) (a : N) : bf :=
  match node_of s a with
  | Some (NBit w' f) => if w' =? w then f else bleaf a
  | _ => bleaf a
  end.

(* x >> r  combined with  x << (w - r)  on a w-bit x *)
Definition rot_pattern (s : tbl) (w : N) (a b : N) : option (N * N) :=
  match node_of s a, node_of s b with
  | Some (NShr r x), Some (NShl w' k y) =>
      if (x =? y) && (w' =? w) && (r + k =? w) && (0 <? r) && (0 <? k) && (bw s x <=? w) then Some (r, x) else None
  | _, _ => None
  end.

Inductive bop := OAnd | OOr | OXor.
Definition bop_b (o : bop) : bool -> bool -> bool :=
  match o with OAnd => andb | OOr => orb | OXor => xorb end.
Definition bop_N (o : bop) : N -> N -> N :=
  match o with OAnd => N.land | OOr => N.lor | OXor => N.lxor end.

Definition mk_bitnode (w : N) (f : bf) : M N := fun s =>
  match f with
  | BC false => mk_const 0 s
  | BC true => mk_const (N.ones w) s
  | BN x (BC false) (BC true) => if bw s x <=? w then Some (x, s) else intern (NBit w f) w s
  | _ => intern (NBit w f) w s
  end.

(* ---- xor linear forms ---- *)

(* symmetric difference of two descending lists *)
Fixpoint xmerge (l1 : list N) : list N -> list N :=
  fix go (l2 : list N) : list N :=
    match l1, l2 with
    | [], _ => l2
    | _, [] => l1
    | a :: r1, b :: r2 =>
        if b <? a then a :: xmerge r1 l2
        else if a <? b then b :: go r2
        else xmerge r1 r2
    end.

Fixpoint bleaves (f : bf) : nat :=
  match f with BC _ => 0%nat | BN _ l h => S (Nat.max (bleaves l) (bleaves h)) end.
Fixpoint bsupport (f : bf) : list N := match f with BC _ => [] | BN x l _ => x :: bsupport l end.
Fixpoint bconst0 (f : bf) : bool := match f with BC c => c | BN _ l _ => bconst0 l end.
Definition bxor_of (k : bool) (sup : list N) : bf :=
  fold_left (fun acc x => bapply xorb acc (bleaf x)) sup (BC k).
(* is the diagram the xor of its support and a constant?  decided by rebuilding it *)
Definition bf_pure_xor (f : bf) : option (bool * list N) :=
  let sup := bsupport f in
  let k := bconst0 f in
  if bf_eqb f (bxor_of k sup) then Some (k, rev sup) else None.

Definition xorform (s : tbl) (w : N) (a : N) : N * list N :=
  match node_of s a with
  | Some (NXor w' c l) => if w' =? w then (c, l) else (0, [a])
  | Some (NConst c) => (c, [])
  | Some (NBit w' f) =>
      if w' =? w then
        match bf_pure_xor f with
        | Some (k, l) => if forallb (fun x => bw s x <=? w) l
                         then ((if k then N.ones w else 0), l) else (0, [a])
        | None => (0, [a])
        end
      else (0, [a])
  | _ => (0, [a])
  end.

Definition mk_xorform (w : N) (a b : N) : M N := fun s =>
  let '(ca, la) := xorform s w a in
  let '(cb, lb) := xorform s w b in
  let l := xmerge la lb in
  let c := N.lxor ca cb in
  match l with
  | [] => mk_const c s
  | _ => intern (NXor w c l) w s
  end.

Definition KLEAVES : nat := 4.
(* the diagram of an operand if it is small, the operand as one leaf otherwise *)
Definition bfof_small (s : tbl) (w : N) (a : N) : bf :=
  let f := bfof s w a in if Nat.leb (bleaves f) KLEAVES then f else bleaf a.

Definition mk_bit2 (o : bop) (w : N) (a b : N) : M N := fun s =>
  if (bw s a <=? w) && (bw s b <=? w) then
    match as_const s a, as_const s b with
    | Some ca, Some cb => mk_const (bop_N o ca cb) s
    | _, _ =>
        let rot := match o with
                   | OAnd => None
                   | _ => match rot_pattern s w a b with Some p => Some p | None => rot_pattern s w b a end
                   end in
        match rot with
        | Some (r, x) => mk_ror w r x s
        | None =>
            let r := bapply (bop_b o) (bfof_small s w a) (bfof_small s w b) in
            match o with
            | OXor => if Nat.leb (bleaves r) KLEAVES then mk_bitnode w r s else mk_xorform w a b s
            | _ => mk_bitnode w r s
            end
        end
    end
  else None.

Definition mk_and := mk_bit2 OAnd.
Definition mk_or := mk_bit2 OOr.
Definition mk_xor := mk_bit2 OXor.

Definition mk_not (w : N) (a : N) : M N := fun s =>
  if bw s a <=? w then
    match as_const s a with
    | Some c => mk_const (N.lxor (wrap w c) (N.ones w)) s
    | None => mk_bitnode w (bnot (bfof s w a)) s
    end
  else None.

Definition mk_shl (w k : N) (a : N) : M N := fun s =>
  match as_const s a with
  | Some c => mk_const (wrap w (N.shiftl c k)) s
  | None => intern (NShl w k a) w s
  end.

Definition mk_shr (k : N) (a : N) : M N := fun s =>
  match as_const s a with
  | Some c => mk_const (N.shiftr c k) s
  | None => if k =? 0 then Some (a, s) else intern (NShr k a) (bw s a - k) s
  end.

Definition mk_bswap (w : N) (a : N) : M N := fun s =>
  match as_const s a with
  | Some c => mk_const (bswap w c) s
  | None => intern (NBswap w a) w s
  end.

Definition mk_cast (w : N) (a : N) : M N := fun s =>
  if bw s a <=? w then Some (a, s)
  else match as_const s a with
       | Some c => mk_const (wrap w c) s
       | None => intern (NCast w a) w s
       end.

(* ---------------------------------------------------------------- symbolic interpreter *)

Record sstate := { sv : list (option N); so : list (N * list N) }.

Definition mk_binop (op : binop) (w : N) (a b : N) : M N := fun s =>
  match op with
  | BAdd => mk_add w a b s
  | BSub => mk_sub w a b s
  | BMul => mk_mul w a b s
  | BAnd => mk_and w a b s
  | BOr => mk_or w a b s
  | BXor => mk_xor w a b s
  | BShl => match as_const s b with
            | Some c => if c <? w then mk_shl w c a s else None
            | None => None
            end
  | BShr => match as_const s b with
            | Some c => if c <? w then mk_shr c a s else None
            | None => None
            end
  | BDiv => match as_const s a, as_const s b with
            | Some x, Some y => if y =? 0 then None else mk_const (x / y) s
            | _, _ => None
            end
  | BMod => match as_const s a, as_const s b with
            | Some x, Some y => if y =? 0 then None else mk_const (x mod y) s
            | _, _ => None
            end
  end.

Fixpoint seval (st : sstate) (e : expr) : M N :=
  match e with
  | EConst c => mk_const c
  | EVar x => fun s => match nth_error (sv st) x with Some (Some i) => Some (i, s) | _ => None end
  | ELoad o aw idx =>
      i <- seval st idx ;;
      fun s => match as_const s i, nth_error (so st) o with
               | Some c, Some (cw, cells) =>
                   if (aw =? cw) && (c <? N.of_nat (length cells))
                   then match nth_error cells (N.to_nat c) with Some j => Some (j, s) | None => None end
                   else None
               | _, _ => None
               end
  | EBin op w a b => x <- seval st a ;; y <- seval st b ;; mk_binop op w x y
  | ENot w a => x <- seval st a ;; mk_not w x
  | ECast w a => x <- seval st a ;; mk_cast w x
  | EBswap w a => x <- seval st a ;; mk_bswap w x
  | ECmp c a b =>
      x <- seval st a ;; y <- seval st b ;;
      fun s => match as_const s x, as_const s y with
               | Some cx, Some cy => mk_const (cmp_eval c cx cy) s
               | _, _ => None
               end
  | ELnot a =>
      x <- seval st a ;;
      fun s => match as_const s x with
               | Some cx => mk_const (if cx =? 0 then 1 else 0) s
               | None => None
               end
  end.

Definition sset_var (st : sstate) (x : nat) (i : N) : option sstate :=
  if Nat.ltb x (length (sv st)) then Some {| sv := upd x (Some i) (sv st); so := so st |} else None.

Definition sstore (st : sstate) (o : nat) (aw c : N) (v : N) : option sstate :=
  match nth_error (so st) o with
  | Some (cw, cells) =>
      if (aw =? cw) && (c <? N.of_nat (length cells))
      then Some {| sv := sv st; so := upd o (cw, upd (N.to_nat c) v cells) (so st) |}
      else None
  | None => None
  end.

Fixpoint sexec (fuel : nat) (ss : list stmt) (st : sstate) : M sstate :=
  match ss with
  | [] => ret st
  | s :: r =>
    match fuel with
    | O => fail
    | S f =>
      match s with
      | SAssign x e =>
          i <- seval st e ;;
          match sset_var st x i with Some st' => sexec f r st' | None => fail end
      | SStore o aw ie e =>
          ii <- seval st ie ;; v <- seval st e ;;
          fun t => match as_const t ii with
                   | Some c => match sstore st o aw c v with Some st' => sexec f r st' t | None => None end
                   | None => None
                   end
      | SIf c a b =>
          ci <- seval st c ;;
          fun t => match as_const t ci with
                   | Some cv => sexec f ((if cv =? 0 then b else a) ++ r) st t
                   | None => None
                   end
      | SWhile pre c body => sexec f (pre ++ SIf c (body ++ [SWhile pre c body]) [] :: r) st
      end
    end
  end.

(* the table whose entries are the input variables 0 .. n-1, each with its declared bit bound *)
Definition var_table (ws : list N) : tbl :=
  map (fun p : nat * N => (NVar (fst p), snd p)) (combine (seq 0 (length ws)) ws).

(* concretisation of a symbolic state under the values of a table *)
Definition conc (vs : list N) (st : sstate) : state :=
  {| st_vars := map (option_map (fun i : N => nth (N.to_nat i) vs 0)) (sv st);
     st_objs := map (fun p : N * list N => mkobj (fst p) (map (fun i : N => nth (N.to_nat i) vs 0) (snd p))) (so st) |}.
