(* Thread-modular checker for "one owner at a time" protocols (definitions only, executable).

   For a system of n identical threads (Model/SelfTestSys.v) the checker works on a finite set
   PL of pairs (shared state, local state).  It verifies that PL contains the initial pair, is
   closed under a thread's own step, and is closed under interference (the shared-state change
   caused by a step of ANOTHER thread that can coexist with this one: at most one thread is
   owner, and only while the shared state is "hot"), that ownership changes exactly when the
   shared state enters / leaves "hot", that every pair satisfies the safety predicate `good`,
   and the ranking conditions that give bounded progress.  Proofs/SelfTestTMFacts.v proves that
   a successful check implies the properties for EVERY n and EVERY schedule. *)
From Coq Require Import List Bool Arith.
Import ListNotations.

Section TM.
  Variables G L : Type.
  Variable geqb : G -> G -> bool.
  Variable leqb : L -> L -> bool.
  Variable lstep : G -> L -> G * L.
  Variable own : L -> bool.          (* ghost: the thread is the owner *)
  Variable hot : G -> bool.          (* an owner exists (status = RUNNING) *)
  Variable cold : G -> bool.         (* nobody has claimed yet (status = NOT_DONE) *)
  Variable retd : L -> bool.         (* the thread has returned *)
  Variable good : G -> L -> bool.    (* safety predicate to establish for every reachable pair *)
  Variable dist : G -> L -> nat.     (* ranking *)
  Variables B K : nat.               (* bounds on the ranking: to reach "final" / to return once final *)

  Definition final (g : G) : bool := negb (hot g) && negb (cold g).

  Definition inP (PL : list (G * L)) (g : G) (l : L) : bool :=
    existsb (fun x => geqb (fst x) g && leqb (snd x) l) PL.

  (* the pair can occur in a state that satisfies the counting invariant *)
  Definition adm (g : G) (l : L) : bool := hot g || negb (own l).
  Definition compat (g : G) (l l2 : L) : bool := adm g l && adm g l2 && negb (own l && own l2).

  Definition count_ok (g : G) (l : L) (g' : G) (l' : L) : bool :=
    match hot g, hot g' with
    | false, true => negb (own l) && own l'
    | true, false => own l && negb (own l')
    | _, _ => eqb (own l) (own l')
    end.

  (* closure under the thread's own step, with the counting condition *)
  Definition c_own (PL : list (G * L)) : bool :=
    forallb (fun x => let '(g, l) := x in
                      if adm g l then let '(g', l') := lstep g l in inP PL g' l' && count_ok g l g' l'
                      else true) PL.

  (* closure under interference: only steps that change the shared state matter *)
  Definition c_interf (PL : list (G * L)) : bool :=
    forallb (fun x => let '(g, l2) := x in
                      if adm g l2 then
                        let g' := fst (lstep g l2) in
                        if geqb g' g then true
                        else forallb (fun y => let '(g1, l) := y in
                                               if geqb g1 g && compat g l l2 then inP PL g' l else true) PL
                      else true) PL.

  Definition c_good (PL : list (G * L)) : bool := forallb (fun x => good (fst x) (snd x)) PL.

  (* shape of the shared-state evolution and the ranking *)
  Definition c_live (PL : list (G * L)) : bool :=
    forallb (fun x => let '(g, l) := x in
      negb (hot g && cold g) &&
      (if adm g l then
        let '(g', l') := lstep g l in
        (* a returned thread stays returned *)
        (if retd l then retd l' else true) &&
        (if final g then
           (* the shared state is frozen; a thread that has not returned makes progress *)
           geqb g' g && (retd l || ((dist g l <=? K) && (S (dist g' l') <=? dist g l)))
         else if hot g then
           if own l then
             (* the owner keeps the state hot or finishes; its rank decreases *)
             ((hot g' && own l') || final g') && (1 <=? dist g l) && (dist g l <=? B)
             && (final g' || (S (dist g' l') <=? dist g l))
           else geqb g' g           (* everybody else leaves the shared state alone *)
         else
           (* cold: either nothing shared changes or this thread becomes the owner *)
           (geqb g' g || (hot g' && own l')) && (1 <=? dist g l) && (dist g l <=? B)
           && (S (dist g' l') <=? dist g l))
       else true)) PL.

  Definition tm_check (PL : list (G * L)) (g0 : G) (l0 : L) : bool :=
    inP PL g0 l0 && negb (own l0) && negb (hot g0) && c_own PL && c_interf PL && c_good PL && c_live PL.

  (* ------------------------------------------------------------------ computing a candidate PL
     (worklist iteration; NOT trusted: tm_check re-verifies the result) *)

  Definition add_new (PL : list (G * L)) (x : G * L) : list (G * L) :=
    if inP PL (fst x) (snd x) then PL else x :: PL.

  Definition tm_round (PL : list (G * L)) : list (G * L) :=
    fold_left (fun acc x =>
      let '(g, l) := x in
      if adm g l then
        let '(g', l') := lstep g l in
        let acc1 := add_new acc (g', l') in
        if geqb g' g then acc1
        else fold_left (fun a y => let '(g1, l1) := y in
                                   if geqb g1 g && compat g l1 l then add_new a (g', l1) else a) PL acc1
      else acc) PL PL.

  Fixpoint tm_iter (fuel : nat) (PL : list (G * L)) : list (G * L) :=
    match fuel with
    | O => PL
    | S k => let PL' := tm_round PL in
             if ((length PL' =? length PL) || (2000 <? length PL'))%nat then PL' else tm_iter k PL'
    end.
End TM.

(* ------------------------------------------------------------------ instance: the self-test protocol *)
From Coq Require Import NArith.
From ISAL Require Import Base.ListUtil Model.SelfTestSys Model.SelfTest.

Definition st_hot (g : gst) : bool := (status g =? ST_RUNNING)%N.
Definition st_cold (g : gst) : bool := (status g =? ST_NOT_DONE)%N.
Definition st_final (g : gst) : bool := final gst st_hot st_cold g.

(* S1-S3 for one thread in one shared state *)
Definition st_good (errv : N) (o : N * N) (g : gst) (l : tstate) : bool :=
  (runs g <=? 1) && (fin g <=? runs g) && thread_ok errv o g l && (if retd l then st_final g else true).

Fixpoint to_final (p : list instr) (o : N * N) (fuel : nat) (g : gst) (l : tstate) : nat :=
  match fuel with
  | O => 0
  | S k => if st_final g then 0 else let '(g', l') := tstep p o g l in S (to_final p o k g' l')
  end.
Fixpoint to_ret (p : list instr) (o : N * N) (fuel : nat) (g : gst) (l : tstate) : nat :=
  match fuel with
  | O => 0
  | S k => if retd l then 0 else let '(g', l') := tstep p o g l in S (to_ret p o k g' l')
  end.
Definition st_dist (p : list instr) (o : N * N) (g : gst) (l : tstate) : nat :=
  if st_final g then to_ret p o 100 g l else to_final p o 100 g l.

(* bounds: B own steps of the (potential) owner end the run; K own steps after that return *)
Definition ST_B : nat := 48.
Definition ST_K : nat := 32.

Definition st_PL (p : list instr) (is : N) (entry : nat) (o : N * N) : list (gst * tstate) :=
  tm_iter gst tstate gst_eqb tstate_eqb (tstep p o) own st_hot 400 [(g0 is, t0 entry)].

Definition st_check1 (p : list instr) (is : N) (entry : nat) (errv : N) (o : N * N) : bool :=
  tm_check gst tstate gst_eqb tstate_eqb (tstep p o) own st_hot st_cold retd (st_good errv o)
           (st_dist p o) ST_B ST_K (st_PL p is entry o) (g0 is) (t0 entry).

Definition st_oracles : list (N * N) := [(0, 0); (0, 1); (1, 0); (1, 1)]%N.

Definition st_check (p : list instr) (is : N) (entry : nat) (errv : N) : bool :=
  forallb (st_check1 p is entry errv) st_oracles.
