(* C18 — no hidden shared state (definitions only, executable).

   1. The inventory that tr/statics.py regenerates from the built objects (Gen/StaticsGen.v) and the
      decidable rules on it:
        store_allowed   a statically visible store into a writable section is either the store of a
                        dispatch pointer <entry>_dispatched made inside the dispatcher object by a
                        function whose name contains the entry's name, or a store to self_test_status
                        inside asm_self_tests.o;
        bss_allowed     zero-initialised writable storage is only the library-version stamps;
        cstatic_allowed writable-section symbols of objects compiled from C are version stamps or one
                        of the pinned, never-written tables / test vectors;
        ptr_aligned     every dispatch pointer is an 8-byte object at an 8-byte aligned offset of its
                        section (whether the SECTION is 8-aligned is reported separately by
                        ptr_section_aligned: nasm's default .data alignment is 4, so the final
                        address is checked in the linked artefacts by the run-time half).
   2. Threads on private objects over an abstract memory (object id -> value): step sequences with
      write frames and read locality (Proofs/StaticsFacts.interleave_disjoint).
   3. The first-call race of a dispatch stub (Proofs/StaticsFacts.first_call_race). *)
From Coq Require Import String Ascii List Bool Arith NArith.
From ISAL Require Import Model.SelfTestSys.
Import ListNotations.
Local Open Scope string_scope.

(* ------------------------------------------------------------------ 1. inventory and rules *)

Record store := mkStore { so_obj : string; so_func : string; so_target : string; so_section : string; so_insn : string }.
Record wsym := mkWsym { ws_obj : string; ws_name : string; ws_section : string; ws_size : nat }.

Fixpoint prefixb (p s : string) : bool :=
  match p with
  | EmptyString => true
  | String a p' => match s with
                   | EmptyString => false
                   | String b s' => Ascii.eqb a b && prefixb p' s'
                   end
  end.

Fixpoint substrb (p s : string) : bool :=
  prefixb p s || match s with EmptyString => false | String _ s' => substrb p s' end.

Definition suffixb (p s : string) : bool :=
  let lp := String.length p in let ls := String.length s in
  Nat.leb lp ls && String.eqb (substring (ls - lp) lp s) p.

Definition drop_suffix (n : nat) (s : string) : string := substring 0 (String.length s - n) s.
Definition drop_prefix (n : nat) (s : string) : string := substring n (String.length s - n) s.

Definition DISP : string := "_dispatched".

(* the entry name without its leading underscore: "_aes_cbc_dec_128_dispatched" -> "aes_cbc_dec_128" *)
Definition entry_core (target : string) : string :=
  let e := drop_suffix (String.length DISP) target in
  if prefixb "_" e then drop_prefix 1 e else e.

Definition store_allowed (s : store) : bool :=
  (* (i) a dispatch pointer, written inside its own dispatcher *)
  (suffixb DISP (so_target s) && substrb "multibinary" (so_obj s)
   && Nat.leb 2 (String.length (entry_core (so_target s)))
   && substrb (entry_core (so_target s)) (so_func s)
   && (String.eqb (so_section s) ".data" || String.eqb (so_section s) ".bss"))
  (* (ii) the self-test verdict *)
  || (String.eqb (so_target s) "self_test_status" && String.eqb (so_obj s) "asm_self_tests.o").

Definition written_statics_allowed (l : list store) : bool := forallb store_allowed l.

Definition is_version_stamp (name : string) : bool := substrb "_slver" name.

Definition bss_allowed (l : list wsym) : bool := forallb (fun w => is_version_stamp (ws_name w)) l.

(* pinned: the non-const statics of the C sources that exist in the release and are never written
   (FIPS known-answer vectors passed through non-const parameters, the rolling-hash table, the
   version string pointer) *)
Definition pinned_c_statics : list (string * string) := [
  ("aes_self_tests.o", "gcm_vectors"); ("aes_self_tests.o", "xts_vectors"); ("aes_self_tests.o", "cbc_vectors");
  ("aes_self_tests.o", "aes_gcm_256_tag"); ("aes_self_tests.o", "aes_gcm_256_iv");
  ("aes_self_tests.o", "aes_gcm_128_tag"); ("aes_self_tests.o", "aes_gcm_128_iv");
  ("aes_self_tests.o", "aes_xts_256_ciphertext"); ("aes_self_tests.o", "aes_xts_256_plaintext");
  ("aes_self_tests.o", "aes_xts_256_tweak"); ("aes_self_tests.o", "aes_xts_256_key2"); ("aes_self_tests.o", "aes_xts_256_key1");
  ("aes_self_tests.o", "aes_xts_128_ciphertext"); ("aes_self_tests.o", "aes_xts_128_plaintext");
  ("aes_self_tests.o", "aes_xts_128_tweak"); ("aes_self_tests.o", "aes_xts_128_key2"); ("aes_self_tests.o", "aes_xts_128_key1");
  ("aes_self_tests.o", "aes_cbc_256_iv"); ("aes_self_tests.o", "aes_cbc_192_iv"); ("aes_self_tests.o", "aes_cbc_128_iv");
  ("rolling_hash2.o", "rolling_hash2_table1"); ("sha_self_tests.o", "msg_sha512"); ("sha_self_tests.o", "expResultDigest_sha512");
  ("version.o", "isal_crypto_version_str")
].

Definition cstatic_allowed (w : wsym) : bool :=
  is_version_stamp (ws_name w)
  || existsb (fun p => String.eqb (fst p) (ws_obj w) && String.eqb (snd p) (ws_name w)) pinned_c_statics.

Definition c_statics_allowed (l : list wsym) : bool := forallb cstatic_allowed l.

(* name, object, offset in section, size, log2 of the section alignment *)
Definition ptr_aligned (p : string * string * N * N * N) : bool :=
  let '(_, _, off, sz, al) := p in ((off mod 8 =? 0) && (sz =? 8))%N.
Definition ptr_section_aligned (p : string * string * N * N * N) : bool :=
  let '(_, _, off, sz, al) := p in (3 <=? al)%N.

Definition dispatch_ptrs_ok (l : list (string * string * N * N * N)) : bool :=
  Nat.leb 1 (List.length l) && forallb ptr_aligned l.

Definition statics_ok (st : list store) (bss cst : list wsym) (ptrs : list (string * string * N * N * N)) : bool :=
  written_statics_allowed st && bss_allowed bss && c_statics_allowed cst && dispatch_ptrs_ok ptrs.

(* ------------------------------------------------------------------ 2. threads on private objects *)

Section Objects.
  Variables Obj V : Type.
  Definition mem := Obj -> V.

  (* a thread: the objects it owns, and the operations it still has to perform *)
  Record othread := mkOT { ot_own : Obj -> bool; ot_todo : list (mem -> mem) }.

  Definition ostep (g : mem) (l : othread) : mem * othread :=
    match ot_todo l with
    | [] => (g, l)
    | f :: r => (f g, mkOT (ot_own l) r)
    end.

  Definition run_alone (steps : list (mem -> mem)) (g : mem) : mem := fold_left (fun g f => f g) steps g.
End Objects.

Arguments mkOT {Obj V}.
Arguments ot_own {Obj V}.
Arguments ot_todo {Obj V}.
Arguments ostep {Obj V}.
Arguments run_alone {Obj V}.

(* ------------------------------------------------------------------ 3. the dispatch stub *)

Section Stub.
  Variables Env Fn : Type.
  Variable target : Env -> Fn.      (* what the dispatcher computes: a function of CPUID/XCR0 only (C12) *)

  Inductive ptrval := Mbinit | Bound (f : Fn).

  (* E:        jmp [E_dispatched]            SAtStub
     E_mbinit: call E_dispatch_init          SCompute (reads CPUID, selects)
               mov [E_dispatched], rsi       SStore f
               (falls through to E)          SAtStub
     target:                                 SExec f  *)
  Inductive stubst := SAtStub | SCompute | SStore (f : Fn) | SExec (f : Fn).

  Definition stub_step (env : Env) (g : ptrval) (l : stubst) : ptrval * stubst :=
    match l with
    | SAtStub => match g with Mbinit => (g, SCompute) | Bound f => (g, SExec f) end
    | SCompute => (g, SStore (target env))
    | SStore f => (Bound f, SAtStub)
    | SExec f => (g, SExec f)
    end.
End Stub.

Arguments Mbinit {Fn}.
Arguments Bound {Fn}.
Arguments SAtStub {Fn}.
Arguments SCompute {Fn}.
Arguments SStore {Fn}.
Arguments SExec {Fn}.
Arguments stub_step {Env Fn}.
