(* L1 model of the sixteen XTS entry points
     _XTS_AES_{128,256}_{enc,dec}[_expanded_key]_{sse,avx,vaes}
   (and of isal_aes_xts_* / XTS_AES_* which forward to them).

   - xts_enc_g / xts_dec_g: IEEE 1619 data-unit processing over an ABSTRACT block function
     (the data-key cipher), with ciphertext stealing and, on decryption, the swap of the last
     two tweaks; Spec.XTS.xts_enc_chunks is the instance E := cipher rks (proved in
     Proofs/XtsFacts.v);
   - raw-key entries = the spec, arguments in the library's order (k2 = tweak key first);
   - expanded-key entries read caller-supplied schedules as found in memory: the ENCRYPTION
     schedule of k2, and for k1 the encryption schedule (enc) or the aesimc-ed reversed
     schedule (dec), which they use with the Equivalent Inverse Cipher (aesdec);
   - len < 16: no output at all (the code returns before touching either buffer).
   The by-8 / by-16 loops and the 1..7-block unrolled tails of the assembly are modelled by
   the one recursion over blocks; they are tied to it by the correspondence harness only.
   No proofs in this file. *)
From Coq Require Import NArith List Bool Arith.
From ISAL Require Import Base.Words Base.ListUtil Spec.AES Spec.XTS Model.KeyExp.
Import ListNotations.
Local Open Scope N_scope.

Section XtsGeneric.
  Variable F : list N -> list N.     (* E(k1, .) for encryption, D(k1, .) for decryption *)

  Definition xts_blk (t b : list N) : list N := xorb_list (F (xorb_list b t)) t.

  Fixpoint xts_enc_g (t : list N) (cs : list (list N)) : list N :=
    match cs with
    | [] => []
    | b :: r =>
        match r with
        | [tl] =>
            if Nat.ltb (length tl) 16 then
              let n := length tl in
              let cc := xts_blk t b in
              xts_blk (xts_mul_alpha t) (tl ++ skipn n cc) ++ firstn n cc
            else xts_blk t b ++ xts_enc_g (xts_mul_alpha t) r
        | _ => xts_blk t b ++ xts_enc_g (xts_mul_alpha t) r
        end
    end.

  Fixpoint xts_dec_g (t : list N) (cs : list (list N)) : list N :=
    match cs with
    | [] => []
    | b :: r =>
        match r with
        | [tl] =>
            if Nat.ltb (length tl) 16 then
              let n := length tl in
              let pp := xts_blk (xts_mul_alpha t) b in
              xts_blk t (tl ++ skipn n pp) ++ firstn n pp
            else xts_blk t b ++ xts_dec_g (xts_mul_alpha t) r
        | _ => xts_blk t b ++ xts_dec_g (xts_mul_alpha t) r
        end
    end.
End XtsGeneric.

(* raw-key entry points; k2 is the tweak key, k1 the data key, as in the C prototypes *)
Definition xts_enc_raw (k2 k1 tweak16 data : list N) : list N := xts_enc k1 k2 tweak16 data.
Definition xts_dec_raw (k2 k1 tweak16 data : list N) : list N := xts_dec k1 k2 tweak16 data.

(* expanded-key entry points; ek2 / ek1 / dk1 are the schedules as byte strings *)
Definition xts_enc_exp (ek2 ek1 tweak16 data : list N) : list N :=
  if Nat.ltb (length data) 16 then []
  else xts_enc_g (cipher (sched_of_bytes ek1)) (cipher (sched_of_bytes ek2) tweak16) (chunks 16 data).

Definition xts_dec_exp (ek2 dk1 tweak16 data : list N) : list N :=
  if Nat.ltb (length data) 16 then []
  else xts_dec_g (eq_inv_cipher (sched_of_bytes dk1)) (cipher (sched_of_bytes ek2) tweak16) (chunks 16 data).

(* the tweak of block j (used to evaluate the spec on a window of a very long data unit) *)
Fixpoint xts_tweak_pow (n : nat) (t : list N) : list N :=
  match n with O => t | S m => xts_tweak_pow m (xts_mul_alpha t) end.
