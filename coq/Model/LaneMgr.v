(* L1 model of the LANE LEVEL of the multi-buffer hash managers: the job managers
   *_mb_mgr_init_*.c / *_mb_mgr_submit_*.asm / *_mb_mgr_flush_*.asm (and sha512's
   sha512_sb_mgr_*_sse4.c), executable and shaped like the code:

     - [m_lens]   the lens[] array of PACKED words: (remaining blocks << shift) | lane, width W
                  (shift/W = 4/32 for sha1 sha256 sm3 and md5 sse/avx/avx2, 6/32 for md5 avx512 whose 32
                  lanes need more than a nibble, 32/64 for sha512 whose submit writes only the high
                  dword and leaves the lane index the init function stored in the low dword);
     - [m_unused] unused_lanes, the packed nibble/byte stack of free lanes with the 0xF / 0xFF
                  terminator where the word has room for one (the 16-lane nibble stacks and the
                  32-lane byte stack fill their word completely and have none);
     - [m_inuse]  num_lanes_inuse (uint32);
     - [m_lanes]  per lane: ldata[].job_in_lane (a job id, None = NULL), args.data_ptr[] as
                  (blocks from the pointer on, pointer - job.buffer in blocks), the lane's column
                  of args.digest.

   Everything that differs between the (algorithm, family) pairs is a field of [family_cfg],
   regenerated from the init .c files and the manager .asm files by tr/lane_cfg.py
   (Gen/LaneCfgGen.v).  The kernels (sha1_mb_x8_avx2, sha1_opt_x1, sha1_ni_x2, ...) are "apply
   [compress] to the next k blocks of a lane" for the lanes the call covers.
   Definitions only; the theorems are in Proofs/LaneMgr*.v. *)
From Coq Require Import NArith List Arith Bool.
From Coq Require String.
From ISAL Require Import Base.Words Base.ListUtil Spec.MD Spec.HashApiSpec Model.HashCtx Model.HashObs Model.HashCfg.
Import ListNotations.
Local Open Scope N_scope.

(* submit runs the lanes when ... *)
Inductive run_rule :=
| RunStackEq (lit : N)      (* cmp unused_lanes, 0xF / 0xFF (every lane taken) or 0xF32 (sse_ni: lanes 0,1 taken) *)
| RunInuseEq (n : N).       (* cmp num_lanes_inuse, 16 / 32 / 8 *)

(* flush returns NULL at once when ... *)
Inductive empty_rule :=
| EmptyInuse0               (* cmp num_lanes_inuse, 0 *)
| EmptyBit (k : N).         (* bt unused_lanes, k : the terminator sits on top of a full stack *)

Inductive pack_style :=
| PackShiftOr               (* shl len, s ; or len, lane ; mov [lens + 4*lane], DWORD(len) *)
| PackHighField.            (* mov [lens + 4 + 8*lane], DWORD(len) : the low dword keeps the lane *)

Record family_cfg := {
  f_immediate : bool;             (* sha512 sb_sse4 (and the base contexts, which have no manager):
                                     submit finishes the job itself, flush returns NULL *)
  f_bsize : N;                    (* block size in bytes *)
  f_nlanes : nat;                 (* lanes of lens[] / ldata[] the flush looks at *)
  f_stack_bits : N;               (* bits of unused_lanes storage the code shifts through: 64 or 256 *)
  f_ent_bits : N;                 (* bits per stack entry: 4 or 8 *)
  f_pop_bits : N;                 (* and lane, 0xF / movzx BYTE / and lane, 0x3F : bits kept of the popped entry *)
  f_init_unused : N;              (* the literal(s) of the init function, little-endian concatenation *)
  f_init_lens : list N;           (* lens[0 .. nlanes) as the init function leaves them *)
  f_W : N;                        (* width of a lens[] element *)
  f_shift : N;                    (* blocks sit above this bit *)
  f_idx_bits : N;                 (* and idx, 0xF / 0x3F *)
  f_clear_bits : N;               (* and len2, ~0xF / ~0xFF / clear_low_nibble mask: low bits cleared
                                     to get the amount subtracted from every lane *)
  f_pack : pack_style;
  f_idle_len : N;                 (* 0xFFFFFFFF: what flush stores as the length of an idle lane *)
  f_run : run_rule;
  f_submit_scan : nat;            (* lanes 0 .. scan-1 take part in submit's min search / subtraction / kernel *)
  f_empty : empty_rule;
  f_sb_threshold : option N;      (* flush: num_lanes_inuse <= t -> run the min lane alone (sha1_opt_x1, sha1_ni_x1) *)
  f_retire_idle : bool            (* retiring stores 0xFFFFFFFF into lens[idx] (md5) *)
}.

Record lane := {
  l_job : option nat;             (* job_in_lane *)
  l_data : list (list N);         (* the blocks from args.data_ptr[lane] to the end of the buffer it points into *)
  l_cur : nat;                    (* args.data_ptr[lane] - job.buffer, in blocks *)
  l_chain : list N                (* args.digest[..][lane] *)
}.

Record mgr := { m_lens : list N; m_unused : N; m_inuse : N; m_lanes : list lane }.

(* what a manager call returns: NULL, a finished job (id, result_digest), or - excluded by
   theorem for every well-formed configuration - a memory-safety failure: a retired lane whose
   job_in_lane is NULL (the code dereferences it), or a kernel asked to advance a lane beyond the
   end of the buffer its data pointer points into *)
Inductive result := RNull | RJob (id : nat) (chain : list N) | RFault.

Definition idle_lane : lane := {| l_job := None; l_data := []; l_cur := 0%nat; l_chain := [] |}.

Definition occupied (l : lane) : bool := match l_job l with Some _ => true | None => false end.

(* apply f to the first n elements *)
Fixpoint map_upto {X} (f : X -> X) (n : nat) (l : list X) : list X :=
  match n, l with
  | S n', x :: r => f x :: map_upto f n' r
  | _, _ => l
  end.

(* unsigned minimum of a non-empty array (pminud / cmp+cmovb chains) *)
Definition min_word (l : list N) : N :=
  match l with [] => 0 | a :: r => fold_left N.min r a end.

(* highest occupied lane among 1 .. n-1, else 0 ("find a lane with a non-null job": xor idx,
   idx ; cmp job_in_lane[I], 0 ; cmovne idx, [I] for I = 1 .. n-1) *)
Fixpoint last_occ (i : nat) (l : list lane) (acc : nat) : nat :=
  match l with
  | [] => acc
  | x :: r => last_occ (S i) r (if occupied x then i else acc)
  end.
Definition copy_src (lanes : list lane) : nat := last_occ 0 lanes 0%nat.

Section LaneMgr.
Variable compress : list N -> list N -> list N.     (* chaining words -> one block -> chaining words *)
Variable F : family_cfg.

(* ---- packed words ------------------------------------------------------------------- *)

(* the word submit stores for a job of [nb] blocks in lane [lane]; [old] = lens[lane] before *)
Definition pack_submit (old nb lane : N) : N :=
  match f_pack F with
  | PackShiftOr => wrap (f_W F) (N.lor (N.shiftl (w32 nb) (f_shift F)) lane)
  | PackHighField => N.shiftl (w32 nb) (f_shift F) + wrap (f_shift F) old
  end.

(* the word flush stores for an idle lane *)
Definition pack_idle (old : N) : N :=
  match f_pack F with
  | PackShiftOr => f_idle_len F
  | PackHighField => N.shiftl (f_idle_len F) (f_shift F) + wrap (f_shift F) old
  end.

Definition sub_word (d w : N) : N := wrap (f_W F) (w + 2 ^ f_W F - d).

(* ---- the kernels -------------------------------------------------------------------- *)

(* k more blocks of one lane.  (The kernels also run the idle lanes, on the data pointer flush
   copied into them; what that leaves in an idle lane's digest column is never read - submit
   overwrites the column - and is not modelled: an idle lane only has its pointer moved.) *)
Definition adv (k : nat) (l : lane) : lane :=
  {| l_job := l_job l; l_data := skipn k (l_data l); l_cur := (l_cur l + k)%nat;
     l_chain := if occupied l then fold_left compress (firstn k (l_data l)) (l_chain l) else l_chain l |}.

Definition set_job (l : lane) (j : option nat) : lane :=
  {| l_job := j; l_data := l_data l; l_cur := l_cur l; l_chain := l_chain l |}.

(* ---- init ----------------------------------------------------------------------------- *)

Definition lm_init : mgr :=
  {| m_lens := f_init_lens F; m_unused := f_init_unused F; m_inuse := 0;
     m_lanes := repeat idle_lane (f_nlanes F) |}.

(* ---- len_is_0: retire lane idx ----------------------------------------------------- *)

Definition retire (m : mgr) (idx : nat) : mgr * result :=
  let ln := nth idx (m_lanes m) idle_lane in
  match l_job ln with
  | None => (m, RFault)                       (* mov dword [job_rax + _status] with job_rax = NULL *)
  | Some id =>
      ({| m_lens := if f_retire_idle F then upd idx (f_idle_len F) (m_lens m) else m_lens m;
          m_unused := wrap (f_stack_bits F) (N.lor (N.shiftl (m_unused m) (f_ent_bits F)) (N.of_nat idx));
          m_inuse := w32 (m_inuse m + (2 ^ 32 - 1));
          m_lanes := upd idx (set_job ln None) (m_lanes m) |},
       RJob id (l_chain ln))
  end.

(* ---- start_loop .. len_is_0: min search over lanes 0..scan-1, subtraction, kernel ----- *)

Definition finish_min (m : mgr) (scan : nat) (single : bool) : mgr * result :=
  let mw := min_word (firstn scan (m_lens m)) in
  let idx := N.to_nat (N.land mw (N.ones (f_idx_bits F))) in
  let d := N.shiftl (N.shiftr mw (f_clear_bits F)) (f_clear_bits F) in        (* and len2, ~0xF *)
  if d =? 0 then retire m idx                                                   (* jz len_is_0 *)
  else
    let k := N.to_nat (N.shiftr d (f_shift F)) in
    if single then
      (* mov [lens + idx*4], DWORD(idx) ; call *_opt_x1 / *_ni_x1 : the min lane alone *)
      let ln := nth idx (m_lanes m) idle_lane in
      if (k <=? length (l_data ln))%nat then
        retire {| m_lens := upd idx (N.of_nat idx) (m_lens m); m_unused := m_unused m; m_inuse := m_inuse m;
                  m_lanes := upd idx (adv k ln) (m_lanes m) |} idx
      else (m, RFault)
    else
      (* every lane the kernel covers is read k blocks from its data pointer on: a pointer with
         fewer blocks left in its buffer is an access outside the buffer *)
      if forallb (fun l => (k <=? length (l_data l))%nat) (firstn scan (m_lanes m)) then
        retire {| m_lens := map_upto (sub_word d) scan (m_lens m); m_unused := m_unused m; m_inuse := m_inuse m;
                  m_lanes := map_upto (adv k) scan (m_lanes m) |} idx
      else (m, RFault).

(* ---- *_mb_mgr_submit_* ---------------------------------------------------------------- *)

Definition run_test (unused inuse : N) : bool :=
  match f_run F with
  | RunStackEq lit => unused =? lit
  | RunInuseEq n => inuse =? n
  end.

Definition lm_submit (m : mgr) (j : job) : mgr * result :=
  if f_immediate F then (m, RJob (j_ctx j) (fold_left compress (j_blocks j) (j_chain j)))
  else
    let lane := N.to_nat (N.land (m_unused m) (N.ones (f_pop_bits F))) in
    let unused' := N.shiftr (m_unused m) (f_ent_bits F) in
    let nb := N.of_nat (length (j_blocks j)) in
    let inuse' := w32 (m_inuse m + 1) in
    let m1 := {| m_lens := upd lane (pack_submit (nth lane (m_lens m) 0) nb (N.of_nat lane)) (m_lens m);
                 m_unused := unused'; m_inuse := inuse';
                 m_lanes := upd lane {| l_job := Some (j_ctx j); l_data := j_blocks j; l_cur := 0%nat;
                                        l_chain := j_chain j |} (m_lanes m) |} in
    if run_test unused' inuse' then finish_min m1 (f_submit_scan F) false else (m1, RNull).

(* ---- *_mb_mgr_flush_* ----------------------------------------------------------------- *)

Definition empty_test (m : mgr) : bool :=
  match f_empty F with
  | EmptyInuse0 => m_inuse m =? 0
  | EmptyBit k => N.testbit (m_unused m) k
  end.

Definition lm_flush (m : mgr) : mgr * result :=
  if f_immediate F then (m, RNull)
  else if empty_test m then (m, RNull)
  else
    (* copy_lane_data: the pointer of a live lane into every idle lane, idle lengths := 0xFFFFFFFF *)
    let s := nth (copy_src (m_lanes m)) (m_lanes m) idle_lane in
    let lanes' := map (fun l => if occupied l then l else
                         {| l_job := None; l_data := l_data s; l_cur := l_cur s; l_chain := l_chain l |})
                      (m_lanes m) in
    let lens' := map (fun lw => if occupied (fst lw) then snd lw else pack_idle (snd lw))
                     (combine (m_lanes m) (m_lens m)) in
    let single := match f_sb_threshold F with Some t => m_inuse m <=? t | None => false end in
    finish_min {| m_lens := lens'; m_unused := m_unused m; m_inuse := m_inuse m; m_lanes := lanes' |}
               (f_nlanes F) single.

End LaneMgr.

(* ---- well-formed configurations ------------------------------------------------------- *)

(* the first n entries of a packed stack, top first *)
Fixpoint dec_stack (ent : N) (n : nat) (w : N) : list nat :=
  match n with
  | O => []
  | S n' => N.to_nat (N.land w (N.ones ent)) :: dec_stack ent n' (N.shiftr w ent)
  end.

(* ... and the word a stack packs into *)
Fixpoint enc (ent : N) (l : list nat) : N :=
  match l with [] => 0 | x :: r => N.of_nat x + 2 ^ ent * enc ent r end.

Fixpoint iota_N (i : N) (n : nat) : list N :=
  match n with O => [] | S n' => i :: iota_N (i + 1) n' end.

(* jobs of fewer than 2^32 bytes have fewer than this many blocks *)
Definition max_blocks (F : family_cfg) : N := 2 ^ 32 / f_bsize F.

(* the initial stack, its part that submit may pop before the lanes run, and the rest (never
   popped: lanes 2,3 of sse_ni) *)
Definition stack0 (F : family_cfg) : list nat := dec_stack (f_ent_bits F) (f_nlanes F) (f_init_unused F).
Definition reserved (F : family_cfg) : list nat := skipn (f_submit_scan F) (stack0 F).
(* does unused_lanes carry a terminator (0xF / 0xFF above the last entry)? *)
Definition has_sentinel (F : family_cfg) : bool :=
  N.shiftr (f_init_unused F) (f_ent_bits F * N.of_nat (f_nlanes F)) =? N.ones (f_ent_bits F).
Definition sent (F : family_cfg) : nat := N.to_nat (N.ones (f_ent_bits F)).

(* deliberately redundant: every fact the proofs use is a conjunct that vm_compute evaluates *)
Definition cfg_wf (F : family_cfg) : bool :=
  if f_immediate F then true else
  let n := f_nlanes F in
  let nN := N.of_nat n in
  let ent := f_ent_bits F in
  let scan := f_submit_scan F in
  let s0 := stack0 F in
  ((1 <=? scan)%nat && (scan <=? n)%nat && (length (f_init_lens F) =? n)%nat &&
   (1 <=? f_bsize F) && (1 <=? max_blocks F) && (3 <=? max_blocks F) && (2 ^ 32 mod f_bsize F =? 0) &&
   (* the stack: every lane exactly once, terminated or filling the word *)
   (1 <=? ent) && (f_pop_bits F <=? ent) && (nN <=? 2 ^ f_pop_bits F) && (nN <? 2 ^ 32) &&
   (length s0 =? n)%nat && nodupb s0 && forallb (fun l => (l <? n)%nat) s0 &&
   forallb (fun l => existsb (Nat.eqb l) s0) (seq 0 n) &&
   forallb (fun l => (l <? scan)%nat) (firstn scan s0) && forallb (fun l => (scan <=? l)%nat) (reserved F) &&
   (if has_sentinel F then (f_init_unused F =? enc ent (s0 ++ [sent F])) && (ent * (nN + 1) <=? f_stack_bits F)
    else (f_init_unused F =? enc ent s0) && (ent * nN <=? f_stack_bits F)) &&
   (* packed words: lane below the cleared bits below the length; real words below the idle word *)
   (nN <=? 2 ^ f_idx_bits F) && (f_idx_bits F <=? f_clear_bits F) && (f_clear_bits F <=? f_shift F) &&
   (f_idle_len F <? 2 ^ 32) && (max_blocks F <=? f_idle_len F) && (max_blocks F <=? 2 ^ 32) &&
   match f_pack F with
   | PackShiftOr => ((max_blocks F - 1) * 2 ^ f_shift F + nN <=? f_idle_len F) && (f_idle_len F <? 2 ^ f_W F)
   | PackHighField => (f_W F =? f_shift F + 32) && list_N_eqb (f_init_lens F) (iota_N 0 n)
                      && match f_sb_threshold F with None => true | Some _ => false end
                      && negb (f_retire_idle F)
   end &&
   (* submit runs the lanes exactly when lanes 0 .. scan-1 are all taken *)
   match f_run F with
   | RunStackEq lit => has_sentinel F && (lit =? enc ent (reserved F ++ [sent F]))
   | RunInuseEq k => (k =? nN) && (scan =? n)%nat
   end &&
   (* flush returns NULL exactly when no lane is taken *)
   match f_empty F with
   | EmptyInuse0 => true
   | EmptyBit k => has_sentinel F && (k =? ent * nN + ent - 1)
   end)%bool.

(* the regenerated lane table is about the same (algorithm, family) pairs as Gen/HashCfgGen.v's
   [gen_hfams], synchronous where that one is, with the same initial free-lane stack *)
Definition list_nat_eqb (a b : list nat) : bool := if list_eq_dec Nat.eq_dec a b then true else false.

Definition lane_cfg_matches (h : hfam) (x : String.string * String.string * family_cfg) : bool :=
  let '(a, f, c) := x in
  (String.eqb a (hf_algo h) && String.eqb f (hf_fam h) && Bool.eqb (f_immediate c) (hf_sync h) &&
   (if f_immediate c then true
    else list_nat_eqb (stack0 c) (hf_free h)))%bool.

Fixpoint lane_cfgs_match (hs : list hfam) (xs : list (String.string * String.string * family_cfg)) : bool :=
  match hs, xs with
  | [], [] => true
  | h :: hr, x :: xr => (lane_cfg_matches h x && lane_cfgs_match hr xr)%bool
  | _, _ => false
  end.

(* ---- the context layer on top of the lane manager -------------------------------------- *)
(* Model.HashCtx's *_ctx_mgr_submit / _flush / resubmit with the abstract manager replaced by
   the lane manager: [ctx_accept], [ctx_next], [hash_pad], [api_submit]'s return-code rule are
   HashCtx's own (they do not mention the manager). *)

Record lst := { lctxs : list ctx; lmgr : mgr }.

Section LaneCtx.
Variable A : algo.
Variable F : family_cfg.

Definition lgetc (s : lst) (cid : nat) : ctx := nth cid (lctxs s) (dflt_ctx A).
Definition lsetc (s : lst) (cid : nat) (c : ctx) : lst := {| lctxs := upd cid c (lctxs s); lmgr := lmgr s |}.

(* a manager result seen from the context layer: the finished job's digest has been written to
   its context's job.result_digest *)
Definition land_result (s : lst) (m' : mgr) (r : result) : lst * outcome :=
  match r with
  | RNull => ({| lctxs := lctxs s; lmgr := m' |}, Ret None)
  | RJob id ch => ({| lctxs := upd id (set_digest (lgetc s id) ch) (lctxs s); lmgr := m' |}, Ret (Some id))
  | RFault => (s, OutOfFuel)
  end.

Definition lsubmit_job (s : lst) (cid : nat) (blocks : list (list N)) : lst * outcome :=
  let '(m', r) := lm_submit (a_compress A) F (lmgr s)
                    {| j_ctx := cid; j_blocks := blocks; j_chain := c_digest (lgetc s cid) |} in
  land_result s m' r.

Fixpoint lresubmit (fuel : nat) (s : lst) (cur : option nat) : lst * outcome :=
  match cur with
  | None => (s, Ret None)
  | Some cid =>
    match fuel with
    | O => (s, OutOfFuel)
    | S f =>
      match ctx_next A (lgetc s cid) with
      | (c', None) => (lsetc s cid c', Ret (Some cid))
      | (c', Some blocks) =>
          match lsubmit_job (lsetc s cid c') cid blocks with
          | (s2, Ret r) => lresubmit f s2 r
          | (s2, OutOfFuel) => (s2, OutOfFuel)
          end
      end
    end
  end.

(* fuel of the loops (a device of the model, as in Model.HashCtx): from the number of jobs inside the manager *)
Definition held_count (s : lst) : nat := N.to_nat (m_inuse (lmgr s)).
Definition lfuel_for (s : lst) : nat := (3 * (held_count s + 2))%nat.

Definition lctx_submit (s : lst) (cid : nat) (buf : list N) (flags : N) : lst * outcome :=
  match ctx_accept A (lgetc s cid) buf flags with
  | Reject e => (lsetc s cid (set_error (lgetc s cid) e), Ret (Some cid))
  | Accept c' None => lresubmit (lfuel_for s) (lsetc s cid c') (Some cid)
  | Accept c' (Some blocks) =>
      match lsubmit_job (lsetc s cid c') cid blocks with
      | (s2, Ret r) => lresubmit (lfuel_for s2) s2 r
      | (s2, OutOfFuel) => (s2, OutOfFuel)
      end
  end.

Fixpoint lctx_flush_f (fuel : nat) (s : lst) : lst * outcome :=
  match fuel with
  | O => (s, OutOfFuel)
  | S f =>
      let '(m', r) := lm_flush (a_compress A) F (lmgr s) in
      match land_result s m' r with
      | (s1, Ret None) => (s1, Ret None)
      | (s1, Ret (Some cid)) =>
          match lresubmit (lfuel_for s1) s1 (Some cid) with
          | (s2, Ret None) => lctx_flush_f f s2
          | res => res
          end
      | (s1, OutOfFuel) => (s1, OutOfFuel)
      end
  end.
Definition lctx_flush (s : lst) : lst * outcome := lctx_flush_f (lfuel_for s) s.

Definition lapi_submit (s : lst) (cid : nat) (buf : list N) (flags : N) : lst * outcome * N :=
  let '(s', o) := lctx_submit s cid buf flags in
  let rc := match o with
            | Ret (Some r) => if (r =? cid)%nat then map_error (c_error (lgetc s' r)) else 0
            | _ => 0
            end in
  (s', o, rc).

Definition lstep (s : lst) (o : op) : lst * outcome * N :=
  match o with
  | Submit cid buf flags => lapi_submit s cid buf flags
  | Flush => let '(s', r) := lctx_flush s in (s', r, 0)
  end.

Definition linit (junk : list ctx) : lst := {| lctxs := map ctx_init junk; lmgr := lm_init F |}.

(* what the caller sees of one step: Model.HashObs.obs_of over this state *)
Definition lobs_of (s' : lst) (out : outcome) (rc : N) : option obs :=
  match out with
  | OutOfFuel => None
  | Ret None =>
      Some {| o_ret := None; o_status := 0; o_error := 0; o_total := 0; o_digest := []; o_rc := rc |}
  | Ret (Some r) =>
      let c := lgetc s' r in
      Some {| o_ret := Some r; o_status := c_status c; o_error := c_error c; o_total := c_total c;
              o_digest := c_digest c; o_rc := rc |}
  end.

Fixpoint lrun_obs (s : lst) (ops : list op) : option (list (call * obs)) :=
  match ops with
  | [] => Some []
  | o :: r =>
      let '(s', out, rc) := lstep s o in
      match lobs_of s' out rc with
      | Some ob =>
          match lrun_obs s' r with
          | Some tr => Some ((call_of o, ob) :: tr)
          | None => None
          end
      | None => None
      end
  end.

End LaneCtx.
