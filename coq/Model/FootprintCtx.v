(* C08 — footprint-emitting twins of the hash context layer model (Model/HashCtx.v, which
   models the 26 *_ctx_<family>.c files): which ranges of the caller's buffer a submit
   consumes (sub-block pieces copied into the partial block buffer with memcpy_varlen, whole
   block ranges handed to the job manager), and where hash_pad writes inside the 2*B byte
   partial block buffer.  Offsets are relative to the buffer passed to that submit.
   Definitions only. *)
From Coq Require Import NArith List Arith Bool.
From ISAL Require Import Base.Words Base.ListUtil Spec.MD Model.HashCtx.
Import ListNotations.

Inductive cx_ev :=
| CxCopy (src_off n dst_off : nat)   (* memcpy_varlen(partial_block_buffer + dst_off, buffer + src_off, n) *)
| CxJob (src_off n : nat)            (* job.buffer = buffer + src_off, job.len = n / B blocks *)
| CxPJob (nblocks : nat).            (* job.buffer = partial_block_buffer, job.len = nblocks *)

(* ranges of the caller's buffer that are read *)
Definition buf_ranges (evs : list cx_ev) : list (nat * nat) :=
  flat_map (fun e => match e with CxCopy o n _ => [(o, n)] | CxJob o n => [(o, n)] | CxPJob _ => [] end) evs.
(* ranges of the partial block buffer written by those copies *)
Definition pbuf_ranges (evs : list cx_ev) : list (nat * nat) :=
  flat_map (fun e => match e with CxCopy _ n d => [(d, n)] | CxJob _ _ => [] | CxPJob _ => [] end) evs.

(* how many of the ranges contain byte b *)
Definition count_in (b : nat) (r : list (nat * nat)) : nat :=
  length (filter (fun p => (fst p <=? b) && (b <? fst p + snd p)) r).

(* the ranges are non-empty, inside [0,len), pairwise disjoint, and their union is [0,len) *)
Definition covers_once (r : list (nat * nat)) (len : nat) : Prop :=
  (forall o n, In (o, n) r -> 0 < n /\ o + n <= len) /\
  (forall b, b < len -> count_in b r = 1).

Section FootprintCtx.
Variable A : algo.
Notation B := (a_bsize A).

(* twin of [ctx_accept]: the part of *_ctx_mgr_submit before resubmit *)
Definition ctx_accept_fp (c : ctx) (buf : list N) (flags : N) : verdict * list cx_ev :=
  if negb (N.land flags (N.lnot FLAG_ENTIRE 32) =? 0)%N then (Reject ERR_INVALID_FLAGS, [])
  else if has (c_status c) STS_PROCESSING then (Reject ERR_ALREADY_PROCESSING, [])
  else if (has (c_status c) STS_COMPLETE && negb (has flags FLAG_FIRST))%bool then
    (Reject ERR_ALREADY_COMPLETED, [])
  else
    let first := has flags FLAG_FIRST in
    let len := length buf in
    let plen0 := if first then 0%nat else c_plen c in
    let c1 := {| c_digest := if first then a_iv A else c_digest c;
                 c_status := if has flags FLAG_LAST then N.lor STS_PROCESSING STS_LAST else STS_PROCESSING;
                 c_error := ERR_NONE;
                 c_total := w64 ((if first then 0 else c_total c) + N.of_nat len);
                 c_inc := buf; c_pbuf := c_pbuf c; c_plen := plen0 |} in
    if (negb (plen0 =? 0)%nat || (len <? B)%nat)%bool then
      let copy_len := Nat.min (B - plen0) len in
      let c2 := if (copy_len =? 0)%nat then c1 else
                {| c_digest := c_digest c1; c_status := c_status c1; c_error := c_error c1;
                   c_total := c_total c1; c_inc := skipn copy_len buf;
                   c_pbuf := splice (c_pbuf c1) plen0 (firstn copy_len buf);
                   c_plen := (plen0 + copy_len)%nat |} in
      let e1 := if (copy_len =? 0)%nat then [] else [CxCopy 0 copy_len plen0] in
      if (B <=? c_plen c2)%nat then
        (Accept {| c_digest := c_digest c2; c_status := c_status c2; c_error := c_error c2;
                   c_total := c_total c2; c_inc := c_inc c2; c_pbuf := c_pbuf c2; c_plen := 0 |}
                (Some [firstn B (c_pbuf c2)]), e1 ++ [CxPJob 1])
      else (Accept c2 None, e1)
    else (Accept c1 None, []).

(* write ranges of hash_pad inside the partial block buffer: memclr_fixedlen(&padblock[i], B);
   padblock[i] = 0x80; the length field ending at i2 *)
Definition hash_pad_ranges (total : N) : list (nat * nat) :=
  let Bn := N.of_nat B in
  let F := N.of_nat (a_lenfld A) in
  let i := N.land total (Bn - 1) in
  let neg := w64 (2 ^ 64 - w64 (total + F + 1))%N in
  let i2 := (i + N.land (Bn - 1) neg + 1 + F)%N in
  let lenb := a_lenbytes A (w64 (N.shiftl total 3)) in
  [(N.to_nat i, B); (N.to_nat i, 1); (N.to_nat i2 - a_lenfld A, length lenb)].

(* twin of [ctx_next]: one pass through the body of the while loop of *_ctx_mgr_resubmit;
   [off] = offset of the not yet consumed part (c_inc) inside the buffer of the submit *)
Definition ctx_next_fp (c : ctx) (off : nat) : (ctx * option (list (list N))) * list cx_ev :=
  if has (c_status c) STS_COMPLETE then
    ((set_status (set_digest c (a_final A (c_digest c))) STS_COMPLETE, None), [])
  else
    let '(c1, job1, e1) :=
      if ((c_plen c =? 0)%nat && negb (length (c_inc c) =? 0)%nat)%bool then
        let len := length (c_inc c) in
        let copy_len := (len mod B)%nat in
        let len' := (len - copy_len)%nat in
        let c' := {| c_digest := c_digest c; c_status := c_status c; c_error := c_error c;
                     c_total := c_total c; c_inc := [];
                     c_pbuf := if (copy_len =? 0)%nat then c_pbuf c
                               else splice (c_pbuf c) 0 (skipn len' (c_inc c));
                     c_plen := if (copy_len =? 0)%nat then c_plen c else copy_len |} in
        let ec := if (copy_len =? 0)%nat then [] else [CxCopy (off + len') copy_len 0] in
        if negb (len' / B =? 0)%nat then (c', Some (chunks B (firstn len' (c_inc c))), ec ++ [CxJob off len'])
        else (c', None, ec)
      else (c, None, []) in
    match job1 with
    | Some blocks => ((c1, Some blocks), e1)
    | None =>
        if has (c_status c1) STS_LAST then
          let '(buf, nblk) := hash_pad A (c_pbuf c1) (c_total c1) in
          (({| c_digest := c_digest c1; c_status := N.lor STS_PROCESSING STS_COMPLETE;
               c_error := c_error c1; c_total := c_total c1; c_inc := c_inc c1;
               c_pbuf := buf; c_plen := c_plen c1 |},
            Some (chunks B (firstn (nblk * B) buf))), e1 ++ [CxPJob nblk])
        else ((set_status c1 STS_IDLE, None), e1)
    end.

End FootprintCtx.
