(* ckernels vertical — deep embedding of the C subset the compute kernels are written in, and
   its executable semantics.  tr/ckernel.py translates the clang AST of a kernel function into a
   [list stmt] (one AST node kind -> one constructor; static helper functions are inlined at
   the call site by the translator, macros are already expanded by clang), Gen/CKernelGen.v
   holds the result, regenerated from the current source on every run.

   Values are N.  Every arithmetic node carries the bit width w of its C type (after the
   usual arithmetic conversions, which clang makes explicit as cast nodes) and wraps to it.
   Only unsigned types are in the subset (a signed sub-expression is accepted by the translator
   only when it is a non-negative compile-time constant, a 0/1 truth value, or a zero-extended
   narrower unsigned value).

   Memory: one object per pointer parameter / local array / local union.  An object is a list
   of cells of a fixed width cw.  If every access to the object in the function goes through
   ONE element type, cw is that width and the cells are its elements; otherwise cw = 8 and a
   wider access assembles / splits bytes LITTLE-ENDIAN (x86).  The same convention relates a
   word-celled object to the bytes the caller has in memory (le_words below); it is part of
   the trusted base (docs/ckernels.md).

   Everything C leaves undefined is an error (None), and the theorems prove Some:
   out-of-bounds access, shift count >= width, division by zero, read of an uninitialised
   scalar, and running out of fuel (one unit per executed statement).

   Definitions only (no proofs here). *)
From Coq Require Import NArith List Bool.
From ISAL Require Import Base.Words Base.ListUtil.
Import ListNotations.
Local Open Scope N_scope.

Inductive binop := BAdd | BSub | BMul | BAnd | BOr | BXor | BShl | BShr | BDiv | BMod.
Inductive cmpop := CLt | CLe | CGt | CGe | CEq | CNe.

Inductive expr :=
| EConst (c : N)
| EVar (x : nat)                              (* scalar parameter / local *)
| ELoad (o : nat) (aw : N) (idx : expr)       (* element idx (in units of aw bits) of object o *)
| EBin (op : binop) (w : N) (a b : expr)      (* C binary operator at an unsigned type of w bits *)
| ENot (w : N) (a : expr)                     (* ~a at w bits *)
| ECast (w : N) (a : expr)                    (* conversion to an unsigned type of w bits *)
| EBswap (w : N) (a : expr)                   (* __builtin_bswap32/64 *)
| ECmp (c : cmpop) (a b : expr)               (* unsigned comparison, 0 / 1 *)
| ELnot (a : expr).                           (* !a *)

Inductive stmt :=
| SAssign (x : nat) (e : expr)
| SStore (o : nat) (aw : N) (idx e : expr)
| SIf (c : expr) (th el : list stmt)
| SWhile (pre : list stmt) (c : expr) (body : list stmt).
  (* while: each iteration first runs [pre] (the side effects of the controlling expression,
     e.g. the decrement of `while (n-- > 0)`), then tests c *)

Record obj := { o_cw : N; o_cells : list N }.
Record state := { st_vars : list (option N); st_objs : list obj }.

Definition bswap (w x : N) : N := le_to_N (rev (N_to_le (N.to_nat (w / 8)) x)).

Definition binop_eval (op : binop) (w a b : N) : option N :=
  match op with
  | BAdd => Some (wrap w (a + b))
  | BSub => Some (wrap w (a + (2 ^ w - wrap w b)))
  | BMul => Some (wrap w (a * b))
  | BAnd => Some (N.land a b)
  | BOr => Some (N.lor a b)
  | BXor => Some (N.lxor a b)
  | BShl => if b <? w then Some (wrap w (N.shiftl a b)) else None
  | BShr => if b <? w then Some (N.shiftr a b) else None
  | BDiv => if b =? 0 then None else Some (a / b)
  | BMod => if b =? 0 then None else Some (a mod b)
  end.

Definition cmp_eval (c : cmpop) (a b : N) : N :=
  let r := match c with
           | CLt => a <? b | CLe => a <=? b | CGt => b <? a | CGe => b <=? a
           | CEq => a =? b | CNe => negb (a =? b)
           end in
  if r then 1 else 0.

Definition obj_load (ob : obj) (aw idx : N) : option N :=
  let cells := o_cells ob in
  if aw =? o_cw ob then
    (if idx <? N.of_nat (length cells) then nth_error cells (N.to_nat idx) else None)
  else if (o_cw ob =? 8) && (aw mod 8 =? 0) then
    let k := aw / 8 in
    if idx * k + k <=? N.of_nat (length cells)
    then Some (le_to_N (firstn (N.to_nat k) (skipn (N.to_nat (idx * k)) cells)))
    else None
  else None.

Definition obj_store (ob : obj) (aw idx v : N) : option obj :=
  let cells := o_cells ob in
  if aw =? o_cw ob then
    (if idx <? N.of_nat (length cells)
     then Some {| o_cw := o_cw ob; o_cells := upd (N.to_nat idx) v cells |} else None)
  else if (o_cw ob =? 8) && (aw mod 8 =? 0) then
    let k := aw / 8 in
    if idx * k + k <=? N.of_nat (length cells)
    then Some {| o_cw := 8;
                 o_cells := firstn (N.to_nat (idx * k)) cells ++ N_to_le (N.to_nat k) v
                            ++ skipn (N.to_nat (idx * k + k)) cells |}
    else None
  else None.

Definition get_var (st : state) (x : nat) : option N :=
  match nth_error (st_vars st) x with Some (Some v) => Some v | _ => None end.

Definition set_var (st : state) (x : nat) (v : N) : option state :=
  if Nat.ltb x (length (st_vars st))
  then Some {| st_vars := upd x (Some v) (st_vars st); st_objs := st_objs st |}
  else None.

Definition get_obj (st : state) (o : nat) : option (list N) :=
  match nth_error (st_objs st) o with Some ob => Some (o_cells ob) | None => None end.

Definition st_load (st : state) (o : nat) (aw idx : N) : option N :=
  match nth_error (st_objs st) o with Some ob => obj_load ob aw idx | None => None end.

Definition st_store (st : state) (o : nat) (aw idx v : N) : option state :=
  match nth_error (st_objs st) o with
  | Some ob => match obj_store ob aw idx v with
               | Some ob' => Some {| st_vars := st_vars st; st_objs := upd o ob' (st_objs st) |}
               | None => None
               end
  | None => None
  end.

Fixpoint eval (st : state) (e : expr) : option N :=
  match e with
  | EConst c => Some c
  | EVar x => get_var st x
  | ELoad o aw i => match eval st i with Some iv => st_load st o aw iv | None => None end
  | EBin op w a b =>
      match eval st a, eval st b with
      | Some x, Some y => binop_eval op w x y
      | _, _ => None
      end
  | ENot w a => match eval st a with Some x => Some (N.lxor (wrap w x) (N.ones w)) | None => None end
  | ECast w a => match eval st a with Some x => Some (wrap w x) | None => None end
  | EBswap w a => match eval st a with Some x => Some (bswap w x) | None => None end
  | ECmp c a b =>
      match eval st a, eval st b with
      | Some x, Some y => Some (cmp_eval c x y)
      | _, _ => None
      end
  | ELnot a => match eval st a with Some x => Some (if x =? 0 then 1 else 0) | None => None end
  end.

(* The statement list is the continuation; one unit of fuel per executed statement. *)
Fixpoint exec (fuel : nat) (ss : list stmt) (st : state) : option state :=
  match ss with
  | [] => Some st
  | s :: r =>
    match fuel with
    | O => None
    | S f =>
      match s with
      | SAssign x e =>
          match eval st e with
          | Some v => match set_var st x v with Some st' => exec f r st' | None => None end
          | None => None
          end
      | SStore o aw i e =>
          match eval st i, eval st e with
          | Some iv, Some v =>
              match st_store st o aw iv v with Some st' => exec f r st' | None => None end
          | _, _ => None
          end
      | SIf c a b =>
          match eval st c with
          | Some v => exec f ((if v =? 0 then b else a) ++ r) st
          | None => None
          end
      | SWhile pre c body =>
          exec f (pre ++ SIf c (body ++ [SWhile pre c body]) [] :: r) st
      end
    end
  end.

(* ---- the little-endian convention between bytes in memory and word cells ---- *)

(* k-byte little-endian words of a byte string (length a multiple of k) *)
Definition le_words (k : nat) (bytes : list N) : list N := map le_to_N (chunks k bytes).
(* ... and back *)
Definition le_bytes (k : nat) (words : list N) : list N := flat_map (N_to_le k) words.

(* initial state helpers used by the generated wrappers *)
Definition mkobj (cw : N) (cells : list N) : obj := {| o_cw := cw; o_cells := cells |}.
Definition mkstate (vars : list (option N)) (objs : list obj) : state :=
  {| st_vars := vars; st_objs := objs |}.
