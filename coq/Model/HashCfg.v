(* What the hash model takes as configuration, as records that tr/hash_cfg.py refills from
   /repo's headers, manager-init files and the built archive on every run
   (Gen/HashCfgGen.v), and the boolean checks that say "this is what Model/HashCtx.v and
   Spec/HashApiSpec.v assume".  Definitions only; Gen/HashCfgGen.v states the checks as
   lemmas proved by vm_compute, so a changed constant breaks an obligation. *)
From Coq Require Import NArith List Arith Bool String.
From ISAL Require Import Base.Words Base.ListUtil Spec.MD Spec.SHA1 Spec.SHA256 Spec.SHA512 Spec.MD5 Spec.SM3
     Spec.HashApiSpec Model.HashCtx.
Import ListNotations.
Local Open Scope string_scope.

(* include/multi_buffer.h and include/isal_crypto_api.h; the context error values are
   negative in C, stored here negated *)
Record hconsts := {
  hc_flag_update : N; hc_flag_first : N; hc_flag_last : N; hc_flag_entire : N;
  hc_sts_idle : N; hc_sts_processing : N; hc_sts_last : N; hc_sts_complete : N;
  hc_err_none : N; hc_err_invalid_flags : N; hc_err_already_processing : N; hc_err_already_completed : N;
  hc_rc_invalid_flags : N; hc_rc_already_processing : N; hc_rc_already_completed : N
}.

Definition hconsts_ok (c : hconsts) : bool :=
  ((hc_flag_update c =? 0) && (hc_flag_first c =? FLAG_FIRST) && (hc_flag_last c =? FLAG_LAST) &&
   (hc_flag_entire c =? FLAG_ENTIRE) &&
   (hc_sts_idle c =? STS_IDLE) && (hc_sts_processing c =? STS_PROCESSING) && (hc_sts_last c =? STS_LAST) &&
   (hc_sts_complete c =? STS_COMPLETE) &&
   (hc_err_none c =? ERR_NONE) && (hc_err_invalid_flags c =? ERR_INVALID_FLAGS) &&
   (hc_err_already_processing c =? ERR_ALREADY_PROCESSING) &&
   (hc_err_already_completed c =? ERR_ALREADY_COMPLETED) &&
   (* the wrapper's mapping, model side and spec side *)
   (map_error (hc_err_invalid_flags c) =? hc_rc_invalid_flags c) &&
   (map_error (hc_err_already_processing c) =? hc_rc_already_processing c) &&
   (map_error (hc_err_already_completed c) =? hc_rc_already_completed c) &&
   (rc_of (hc_err_invalid_flags c) =? hc_rc_invalid_flags c) &&
   (rc_of (hc_err_already_processing c) =? hc_rc_already_processing c) &&
   (rc_of (hc_err_already_completed c) =? hc_rc_already_completed c) &&
   (* distinct non-zero codes *)
   negb (hc_rc_invalid_flags c =? 0) && negb (hc_rc_already_processing c =? 0) &&
   negb (hc_rc_already_completed c =? 0))%N%bool.

(* include/<algo>_mb.h *)
Record halgo := {
  ha_name : string;
  ha_bsize : nat;            (* ISAL_<A>_BLOCK_SIZE *)
  ha_lenfld : nat;           (* ISAL_<A>_PADLENGTHFIELD_SIZE *)
  ha_nwords : nat;           (* ISAL_<A>_DIGEST_NWORDS *)
  ha_wordbits : N;           (* bits of ISAL_<A>_WORD_T (result_digest element) *)
  ha_iv : list N;            (* ISAL_<A>_INITIAL_DIGEST *)
  ha_total_bits : N;         (* width of ISAL_<A>_HASH_CTX.total_length *)
  ha_inclen_bits : N;        (* width of incoming_buffer_length *)
  ha_plen_bits : N;          (* width of partial_block_buffer_length *)
  ha_pbuf_blocks : nat;      (* partial_block_buffer holds this many blocks *)
  ha_max_lanes : nat         (* ISAL_<A>_MAX_LANES *)
}.

Definition algo_of_name (s : string) : option algo :=
  if String.eqb s "sha1" then Some sha1_algo
  else if String.eqb s "sha256" then Some sha256_algo
  else if String.eqb s "sha512" then Some sha512_algo
  else if String.eqb s "md5" then Some md5_algo
  else if String.eqb s "sm3" then Some sm3_algo
  else None.

Definition list_N_eqb (a b : list N) : bool := if list_eq_dec N.eq_dec a b then true else false.

Definition is_pow2 (n : nat) : bool := (N.land (N.of_nat n) (N.of_nat n - 1) =? 0)%N && negb (n =? 0)%nat.

Definition halgo_ok (h : halgo) : bool :=
  match algo_of_name (ha_name h) with
  | None => false
  | Some A =>
      ((a_bsize A =? ha_bsize h)%nat && (a_lenfld A =? ha_lenfld h)%nat &&
       (List.length (a_iv A) =? ha_nwords h)%nat && list_N_eqb (a_iv A) (ha_iv h) &&
       forallb (fun w => (w <? 2 ^ ha_wordbits h)%N) (ha_iv h) &&
       is_pow2 (ha_bsize h) && (ha_lenfld h <? ha_bsize h)%nat &&
       (List.length (a_lenbytes A 0) =? ha_lenfld h)%nat &&
       (* the widths the model hard-wires: w64 total, lengths below 2^32, 2-block pad buffer *)
       (ha_total_bits h =? 64)%N && (ha_inclen_bits h =? 32)%N && (ha_plen_bits h =? 32)%N &&
       (ha_pbuf_blocks h =? 2)%nat)%bool
  end.

(* one (algorithm, implementation family) of the built archive *)
Record hfam := {
  hf_algo : string;
  hf_fam : string;
  hf_free : list nat;        (* initial free-lane stack read back from unused_lanes after EXECUTING the
                                family's init function; [] = no lane manager *)
  hf_sync : bool;            (* base / single-buffer: every submit hands its own context back *)
  hf_understood : bool;      (* false: the bytes init left in unused_lanes are not a stack of lane indices
                                (the translator does not guess: the checks then use MAX_LANES as the bound) *)
  hf_sb_threshold : nat      (* *_SB_THRESHOLD_* of <algo>_job.asm (informational: nothing depends on it) *)
}.

Definition hf_lanes (f : hfam) : nat := List.length (hf_free f).
(* acceptor/model bound: "never holds more contexts than it has lanes" = fewer than lanes+1 *)
Definition hf_K (f : hfam) : nat := S (hf_lanes f).

Fixpoint nodupb (l : list nat) : bool :=
  match l with [] => true | a :: r => negb (existsb (Nat.eqb a) r) && nodupb r end.

Definition hfam_ok (algos : list halgo) (f : hfam) : bool :=
  match find (fun h => String.eqb (ha_name h) (hf_algo f)) algos with
  | None => false
  | Some h =>
      (hf_understood f &&
       nodupb (hf_free f) && forallb (fun l => (l <? hf_lanes f)%nat) (hf_free f) &&
       (hf_lanes f <=? ha_max_lanes h)%nat &&
       (if hf_sync f then (hf_lanes f =? 0)%nat else (2 <=? hf_lanes f)%nat))%bool
  end.

(* the (algorithm, family) pairs of the release this development was written against; a
   family that vanishes from the archive or a new one must be noticed *)
Definition expected_pairs : list (string * string) :=
  [("md5", "avx"); ("md5", "avx2"); ("md5", "avx512"); ("md5", "base"); ("md5", "sse");
   ("sha1", "avx"); ("sha1", "avx2"); ("sha1", "avx512"); ("sha1", "avx512_ni"); ("sha1", "base");
   ("sha1", "sse"); ("sha1", "sse_ni");
   ("sha256", "avx"); ("sha256", "avx2"); ("sha256", "avx512"); ("sha256", "avx512_ni"); ("sha256", "base");
   ("sha256", "sse"); ("sha256", "sse_ni");
   ("sha512", "avx"); ("sha512", "avx2"); ("sha512", "avx512"); ("sha512", "base"); ("sha512", "sb_sse4");
   ("sha512", "sse");
   ("sm3", "avx2"); ("sm3", "avx512"); ("sm3", "base")].

Definition pair_eqb (a b : string * string) : bool :=
  String.eqb (fst a) (fst b) && String.eqb (snd a) (snd b).
Fixpoint pairs_eqb (a b : list (string * string)) : bool :=
  match a, b with
  | [], [] => true
  | x :: r, y :: s => pair_eqb x y && pairs_eqb r s
  | _, _ => false
  end.
Definition hfams_expected (fs : list hfam) : bool :=
  pairs_eqb (map (fun f => (hf_algo f, hf_fam f)) fs) expected_pairs.
