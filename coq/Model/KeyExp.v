(* L1 model of the key-expansion entry points (_aes_keyexp_{128,192,256}_{sse,avx},
   isal_aes_keyexp_*, aes_cbc_precomp): what the two output arrays hold afterwards, as the
   byte strings found in memory.

   exp_key_enc: the Nr+1 FIPS-197 round keys in order, 16 bytes each (round key 0 is the raw
   key's first 16 bytes);
   exp_key_dec: the layout documented in include/aes_xts.h: Key[0] = round Nr encryption key,
   Key[i] = aesimc(round Nr-i encryption key) for 0 < i < Nr, Key[Nr] = round 0 key —
   i.e. Spec.AES.dec_schedule, the Equivalent Inverse Cipher schedule of FIPS-197 5.3.5.
   The aeskeygenassist/shufps pipelines of keyexp_*.asm are modelled, not verified.
   No proofs in this file. *)
From Coq Require Import NArith List Bool Arith.
From ISAL Require Import Base.Words Base.ListUtil Spec.AES.
Import ListNotations.
Local Open Scope N_scope.

Definition keyexp_enc (k : list N) : list N := concat (key_expansion k).
Definition keyexp_dec (k : list N) : list N := concat (dec_schedule (key_expansion k)).
Definition keyexp (k : list N) : list N * list N := (keyexp_enc k, keyexp_dec k).

(* a schedule as found in memory -> its round keys *)
Definition sched_of_bytes (b : list N) : list (list N) := chunks 16 b.
