(* C12 — run-time dispatch.  Executable model only (no proofs here).

   * a mini-ISA that is exactly the set of instruction forms the 64 dispatch routines of
     the library are assembled from (tr/dispatch.py maps one disassembled instruction to one
     constructor and emits [Unsupported] — which is stuck — for anything else);
   * the environment a dispatcher can observe: CPUID leaf 1, leaf 7 sub-leaf 0, XCR0;
   * a concrete interpreter [exec] (what the dispatcher stores into its own
     <entry>_dispatched slot), stuck ([None]) on anything that is not plainly defined:
     XGETBV with CPUID.1:ECX.OSXSAVE clear (#UD on hardware), CPUID with a leaf other
     than 1 / (7,0), arithmetic on a pointer or on a register never written, running out of
     fuel (4 x program length), an unbalanced stack at [ret], a store to somebody else's slot;
   * a symbolic executor [sexec] producing a decision tree over atoms (field & mask) = val;
   * the checker [check] over such trees (known-set / known-clear masks per field, no
     enumeration of bit assignments), feature availability per the SDM, the architectural
     consistency rules, the family comparison [agree], the stub model for binding
     stability, and a small constraint solver producing path witnesses (its output is never
     trusted: it is validated by evaluation in Coq and replayed on the real dispatcher). *)
From Coq Require Import NArith List String Ascii Bool Arith.
Import ListNotations.
Local Open Scope string_scope.
Local Open Scope N_scope.

(* ------------------------------------------------------------------ mini-ISA *)

Inductive reg := RAX | RBX | RCX | RDX | RSI | RDI | RBP | R8 | R9 | R10 | R11 | R12 | R13 | R14 | R15.
Inductive cond := CE | CNE.

Inductive insn :=
  | Push (r : reg) | Pop (r : reg)                  (* push/pop r64 *)
  | LeaSym (r : reg) (x : string)                   (* lea r64,[rip+x] *)
  | MovRR64 (d s : reg)                             (* mov r64,r64 *)
  | MovRR32 (d s : reg)                             (* mov r32,r32 (zero-extends) *)
  | MovRI (d : reg) (i : N)                         (* mov r32,imm32 *)
  | XorSelf (r : reg)                               (* xor r32,r32 (same register) *)
  | NotR (r : reg)                                  (* not r32 *)
  | AndRI (d : reg) (i : N)                         (* and r32,imm *)
  | OrRI (d : reg) (i : N)                          (* or r32,imm *)
  | XorRI (d : reg) (i : N)                         (* xor r32,imm *)
  | TestRI (d : reg) (i : N)                        (* test r32,imm *)
  | CmpRI (d : reg) (i : N)                         (* cmp r32,imm *)
  | AndRR (d s : reg)                               (* and r32,r32 *)
  | OrRR (d s : reg)                                (* or r32,r32 *)
  | XorRR (d s : reg)                               (* xor r32,r32 (different registers) *)
  | TestRR (d s : reg)                              (* test r32,r32 *)
  | AndRI8 (d : reg) (i : N)                        (* and r8,imm8 on the low byte (al, bl, cl, dl, sil, dil, ...) *)
  | TestRI8 (d : reg) (i : N)                       (* test r8,imm8 *)
  | CmpRI8 (d : reg) (i : N)                        (* cmp r8,imm8 *)
  | TestRR8 (d s : reg)                             (* test r8,r8 *)
  | Jcc (c : cond) (tgt : nat)                      (* je/jne, target = instruction index *)
  | Jmp (tgt : nat)
  | Cmov (c : cond) (d s : reg)                     (* cmove/cmovne r64,r64 *)
  | Cpuid | Xgetbv
  | Store (slot : string) (r : reg)                 (* mov [rip+slot],r64 *)
  | Ret
  | Nop                                             (* endbr64 / alignment padding *)
  | CallSym (x : string)                            (* only in the entry stub *)
  | JmpSlot (slot : string)                         (* jmp [rip+slot]; only in the entry stub *)
  | Unsupported (text : string).                    (* anything else: stuck *)

Record dispatcher := {
  d_entry : string;            (* public/internal entry symbol, e.g. "_sha256_ctx_mgr_init" *)
  d_obj   : string;            (* object file it was read from *)
  d_stub  : list insn;         (* <entry>_mbinit .. the indirect jump of <entry> *)
  d_code  : list insn }.       (* <entry>_dispatch_init *)

(* ------------------------------------------------------------------ environment *)

Inductive field := L1A | L1B | L1C | L1D | L7A | L7B | L7C | L7D | X0L | X0H.

Record env := { cpuid : N -> N -> (N * N * N * N); xgetbv : N -> (N * N) }.

Definition ones32 : N := 0xFFFFFFFF.
Definition m32 (x : N) : N := N.land x ones32.

(* CPUID leaf 1 has no sub-leaf (SDM vol. 2A, CPUID): it is read at sub-leaf 0 *)
Definition fieldv (e : env) (f : field) : N :=
  m32 (match f with
       | L1A => let '(a, _, _, _) := cpuid e 1 0 in a
       | L1B => let '(_, b, _, _) := cpuid e 1 0 in b
       | L1C => let '(_, _, c, _) := cpuid e 1 0 in c
       | L1D => let '(_, _, _, d) := cpuid e 1 0 in d
       | L7A => let '(a, _, _, _) := cpuid e 7 0 in a
       | L7B => let '(_, b, _, _) := cpuid e 7 0 in b
       | L7C => let '(_, _, c, _) := cpuid e 7 0 in c
       | L7D => let '(_, _, _, d) := cpuid e 7 0 in d
       | X0L => fst (xgetbv e 0)
       | X0H => snd (xgetbv e 0)
       end).

Definition field_eqb (a b : field) : bool :=
  match a, b with
  | L1A, L1A | L1B, L1B | L1C, L1C | L1D, L1D | L7A, L7A | L7B, L7B | L7C, L7C | L7D, L7D
  | X0L, X0L | X0H, X0H => true
  | _, _ => false
  end.

Definition all_fields := [L1A; L1B; L1C; L1D; L7A; L7B; L7C; L7D; X0L; X0H].

(* an environment given by its ten 32-bit words (what the harness puts in verif_cpuid_tab) *)
Definition env_of_words (w : list N) : env :=
  let g i := nth i w 0 in
  {| cpuid := fun leaf _ => if leaf =? 1 then (g 0%nat, g 1%nat, g 2%nat, g 3%nat)
                            else if leaf =? 7 then (g 4%nat, g 5%nat, g 6%nat, g 7%nat)
                            else (0, 0, 0, 0);
     xgetbv := fun _ => (g 8%nat, g 9%nat) |}.
Definition words_of_env (e : env) : list N := map (fieldv e) all_fields.

Definition OSXSAVE_BIT : N := 0x8000000.

(* ------------------------------------------------------------------ register file *)

Record rf (A : Type) := { r_rax : A; r_rbx : A; r_rcx : A; r_rdx : A; r_rsi : A; r_rdi : A; r_rbp : A; r_r8 : A; r_r9 : A; r_r10 : A; r_r11 : A; r_r12 : A; r_r13 : A; r_r14 : A; r_r15 : A }.
Arguments r_rax {A}. Arguments r_rbx {A}. Arguments r_rcx {A}. Arguments r_rdx {A}. Arguments r_rsi {A}. Arguments r_rdi {A}. Arguments r_rbp {A}. Arguments r_r8 {A}. Arguments r_r9 {A}. Arguments r_r10 {A}. Arguments r_r11 {A}. Arguments r_r12 {A}. Arguments r_r13 {A}. Arguments r_r14 {A}. Arguments r_r15 {A}.

Definition rget {A} (r : reg) (s : rf A) : A :=
  match r with RAX => r_rax s | RBX => r_rbx s | RCX => r_rcx s | RDX => r_rdx s | RSI => r_rsi s | RDI => r_rdi s | RBP => r_rbp s | R8 => r_r8 s | R9 => r_r9 s | R10 => r_r10 s | R11 => r_r11 s | R12 => r_r12 s | R13 => r_r13 s | R14 => r_r14 s | R15 => r_r15 s end.
Definition rset {A} (r : reg) (v : A) (s : rf A) : rf A :=
  match r with
  | RAX => {| r_rax := v; r_rbx := r_rbx s; r_rcx := r_rcx s; r_rdx := r_rdx s; r_rsi := r_rsi s; r_rdi := r_rdi s; r_rbp := r_rbp s; r_r8 := r_r8 s; r_r9 := r_r9 s; r_r10 := r_r10 s; r_r11 := r_r11 s; r_r12 := r_r12 s; r_r13 := r_r13 s; r_r14 := r_r14 s; r_r15 := r_r15 s |}
  | RBX => {| r_rax := r_rax s; r_rbx := v; r_rcx := r_rcx s; r_rdx := r_rdx s; r_rsi := r_rsi s; r_rdi := r_rdi s; r_rbp := r_rbp s; r_r8 := r_r8 s; r_r9 := r_r9 s; r_r10 := r_r10 s; r_r11 := r_r11 s; r_r12 := r_r12 s; r_r13 := r_r13 s; r_r14 := r_r14 s; r_r15 := r_r15 s |}
  | RCX => {| r_rax := r_rax s; r_rbx := r_rbx s; r_rcx := v; r_rdx := r_rdx s; r_rsi := r_rsi s; r_rdi := r_rdi s; r_rbp := r_rbp s; r_r8 := r_r8 s; r_r9 := r_r9 s; r_r10 := r_r10 s; r_r11 := r_r11 s; r_r12 := r_r12 s; r_r13 := r_r13 s; r_r14 := r_r14 s; r_r15 := r_r15 s |}
  | RDX => {| r_rax := r_rax s; r_rbx := r_rbx s; r_rcx := r_rcx s; r_rdx := v; r_rsi := r_rsi s; r_rdi := r_rdi s; r_rbp := r_rbp s; r_r8 := r_r8 s; r_r9 := r_r9 s; r_r10 := r_r10 s; r_r11 := r_r11 s; r_r12 := r_r12 s; r_r13 := r_r13 s; r_r14 := r_r14 s; r_r15 := r_r15 s |}
  | RSI => {| r_rax := r_rax s; r_rbx := r_rbx s; r_rcx := r_rcx s; r_rdx := r_rdx s; r_rsi := v; r_rdi := r_rdi s; r_rbp := r_rbp s; r_r8 := r_r8 s; r_r9 := r_r9 s; r_r10 := r_r10 s; r_r11 := r_r11 s; r_r12 := r_r12 s; r_r13 := r_r13 s; r_r14 := r_r14 s; r_r15 := r_r15 s |}
  | RDI => {| r_rax := r_rax s; r_rbx := r_rbx s; r_rcx := r_rcx s; r_rdx := r_rdx s; r_rsi := r_rsi s; r_rdi := v; r_rbp := r_rbp s; r_r8 := r_r8 s; r_r9 := r_r9 s; r_r10 := r_r10 s; r_r11 := r_r11 s; r_r12 := r_r12 s; r_r13 := r_r13 s; r_r14 := r_r14 s; r_r15 := r_r15 s |}
  | RBP => {| r_rax := r_rax s; r_rbx := r_rbx s; r_rcx := r_rcx s; r_rdx := r_rdx s; r_rsi := r_rsi s; r_rdi := r_rdi s; r_rbp := v; r_r8 := r_r8 s; r_r9 := r_r9 s; r_r10 := r_r10 s; r_r11 := r_r11 s; r_r12 := r_r12 s; r_r13 := r_r13 s; r_r14 := r_r14 s; r_r15 := r_r15 s |}
  | R8 => {| r_rax := r_rax s; r_rbx := r_rbx s; r_rcx := r_rcx s; r_rdx := r_rdx s; r_rsi := r_rsi s; r_rdi := r_rdi s; r_rbp := r_rbp s; r_r8 := v; r_r9 := r_r9 s; r_r10 := r_r10 s; r_r11 := r_r11 s; r_r12 := r_r12 s; r_r13 := r_r13 s; r_r14 := r_r14 s; r_r15 := r_r15 s |}
  | R9 => {| r_rax := r_rax s; r_rbx := r_rbx s; r_rcx := r_rcx s; r_rdx := r_rdx s; r_rsi := r_rsi s; r_rdi := r_rdi s; r_rbp := r_rbp s; r_r8 := r_r8 s; r_r9 := v; r_r10 := r_r10 s; r_r11 := r_r11 s; r_r12 := r_r12 s; r_r13 := r_r13 s; r_r14 := r_r14 s; r_r15 := r_r15 s |}
  | R10 => {| r_rax := r_rax s; r_rbx := r_rbx s; r_rcx := r_rcx s; r_rdx := r_rdx s; r_rsi := r_rsi s; r_rdi := r_rdi s; r_rbp := r_rbp s; r_r8 := r_r8 s; r_r9 := r_r9 s; r_r10 := v; r_r11 := r_r11 s; r_r12 := r_r12 s; r_r13 := r_r13 s; r_r14 := r_r14 s; r_r15 := r_r15 s |}
  | R11 => {| r_rax := r_rax s; r_rbx := r_rbx s; r_rcx := r_rcx s; r_rdx := r_rdx s; r_rsi := r_rsi s; r_rdi := r_rdi s; r_rbp := r_rbp s; r_r8 := r_r8 s; r_r9 := r_r9 s; r_r10 := r_r10 s; r_r11 := v; r_r12 := r_r12 s; r_r13 := r_r13 s; r_r14 := r_r14 s; r_r15 := r_r15 s |}
  | R12 => {| r_rax := r_rax s; r_rbx := r_rbx s; r_rcx := r_rcx s; r_rdx := r_rdx s; r_rsi := r_rsi s; r_rdi := r_rdi s; r_rbp := r_rbp s; r_r8 := r_r8 s; r_r9 := r_r9 s; r_r10 := r_r10 s; r_r11 := r_r11 s; r_r12 := v; r_r13 := r_r13 s; r_r14 := r_r14 s; r_r15 := r_r15 s |}
  | R13 => {| r_rax := r_rax s; r_rbx := r_rbx s; r_rcx := r_rcx s; r_rdx := r_rdx s; r_rsi := r_rsi s; r_rdi := r_rdi s; r_rbp := r_rbp s; r_r8 := r_r8 s; r_r9 := r_r9 s; r_r10 := r_r10 s; r_r11 := r_r11 s; r_r12 := r_r12 s; r_r13 := v; r_r14 := r_r14 s; r_r15 := r_r15 s |}
  | R14 => {| r_rax := r_rax s; r_rbx := r_rbx s; r_rcx := r_rcx s; r_rdx := r_rdx s; r_rsi := r_rsi s; r_rdi := r_rdi s; r_rbp := r_rbp s; r_r8 := r_r8 s; r_r9 := r_r9 s; r_r10 := r_r10 s; r_r11 := r_r11 s; r_r12 := r_r12 s; r_r13 := r_r13 s; r_r14 := v; r_r15 := r_r15 s |}
  | R15 => {| r_rax := r_rax s; r_rbx := r_rbx s; r_rcx := r_rcx s; r_rdx := r_rdx s; r_rsi := r_rsi s; r_rdi := r_rdi s; r_rbp := r_rbp s; r_r8 := r_r8 s; r_r9 := r_r9 s; r_r10 := r_r10 s; r_r11 := r_r11 s; r_r12 := r_r12 s; r_r13 := r_r13 s; r_r14 := r_r14 s; r_r15 := v |}
  end.
Definition rmap {A B} (f : A -> B) (s : rf A) : rf B :=
  {| r_rax := f (r_rax s); r_rbx := f (r_rbx s); r_rcx := f (r_rcx s); r_rdx := f (r_rdx s); r_rsi := f (r_rsi s); r_rdi := f (r_rdi s); r_rbp := f (r_rbp s); r_r8 := f (r_r8 s); r_r9 := f (r_r9 s); r_r10 := f (r_r10 s); r_r11 := f (r_r11 s); r_r12 := f (r_r12 s); r_r13 := f (r_r13 s); r_r14 := f (r_r14 s); r_r15 := f (r_r15 s) |}.
Definition rconst {A} (v : A) : rf A := {| r_rax := v; r_rbx := v; r_rcx := v; r_rdx := v; r_rsi := v; r_rdi := v; r_rbp := v; r_r8 := v; r_r9 := v; r_r10 := v; r_r11 := v; r_r12 := v; r_r13 := v; r_r14 := v; r_r15 := v |}.

Inductive next := Fall | Goto (t : nat) | Stop.

Definition holds (c : cond) (zf : bool) : bool := match c with CE => zf | CNE => negb zf end.

Definition slot_of (self : string) : string := String.append self "_dispatched".

Definition BYTE : N := 0xFF.
Definition HI24 : N := 0xFFFFFF00.

(* ------------------------------------------------------------------ concrete interpreter *)

Inductive val := VNum (n : N) | VSym (x : string) | VJunk.

Record cst := { c_r : rf val; c_zf : option bool; c_stk : list val; c_out : option string }.

Definition cinit : cst := {| c_r := rconst VJunk; c_zf := None; c_stk := []; c_out := None |}.

Definition c_setr (r : reg) (v : val) (s : cst) : cst :=
  {| c_r := rset r v (c_r s); c_zf := c_zf s; c_stk := c_stk s; c_out := c_out s |}.
Definition c_setzf (z : bool) (s : cst) : cst :=
  {| c_r := c_r s; c_zf := Some z; c_stk := c_stk s; c_out := c_out s |}.
Definition c_setstk (k : list val) (s : cst) : cst :=
  {| c_r := c_r s; c_zf := c_zf s; c_stk := k; c_out := c_out s |}.
Definition c_setout (x : string) (s : cst) : cst :=
  {| c_r := c_r s; c_zf := c_zf s; c_stk := c_stk s; c_out := Some x |}.

Definition c_leaf (e : env) (a b c d : field) (s : cst) : cst :=
  c_setr RDX (VNum (fieldv e d)) (c_setr RCX (VNum (fieldv e c))
    (c_setr RBX (VNum (fieldv e b)) (c_setr RAX (VNum (fieldv e a)) s))).

(* r := f r, ZF := (g r = 0) — a one-operand arithmetic instruction on a number *)
Definition c_arith1 (d : reg) (f g : N -> N) (s : cst) : option (cst * next) :=
  match rget d (c_r s) with
  | VNum n => Some (c_setzf (g n =? 0) (c_setr d (VNum (f n)) s), Fall)
  | _ => None
  end.
(* d := f d s, ZF := (g d s = 0) — a two-operand arithmetic instruction on numbers *)
Definition c_arith2 (d r : reg) (f g : N -> N -> N) (s : cst) : option (cst * next) :=
  match rget d (c_r s), rget r (c_r s) with
  | VNum a, VNum b => Some (c_setzf (g a b =? 0) (c_setr d (VNum (f a b)) s), Fall)
  | _, _ => None
  end.

Definition cstep (self : string) (e : env) (i : insn) (s : cst) : option (cst * next) :=
  match i with
  | Push r => Some (c_setstk (rget r (c_r s) :: c_stk s) s, Fall)
  | Pop r => match c_stk s with
             | v :: tl => Some (c_setr r v (c_setstk tl s), Fall)
             | [] => None
             end
  | LeaSym r x => Some (c_setr r (VSym x) s, Fall)
  | MovRR64 d r => Some (c_setr d (rget r (c_r s)) s, Fall)
  | MovRR32 d r => Some (c_setr d (match rget r (c_r s) with VNum n => VNum n | _ => VJunk end) s, Fall)
  | MovRI d i => Some (c_setr d (VNum (m32 i)) s, Fall)
  | XorSelf r => Some (c_setzf true (c_setr r (VNum 0) s), Fall)
  | NotR d => match rget d (c_r s) with           (* NOT does not touch the flags *)
              | VNum n => Some (c_setr d (VNum (N.lxor n ones32)) s, Fall)
              | _ => None
              end
  | AndRI d i => c_arith1 d (fun n => N.land n i) (fun n => N.land n i) s
  | OrRI d i => c_arith1 d (fun n => N.lor n i) (fun n => N.lor n i) s
  | XorRI d i => c_arith1 d (fun n => N.lxor n i) (fun n => N.lxor n i) s
  | TestRI d i => c_arith1 d (fun n => n) (fun n => N.land n i) s
  | CmpRI d i => c_arith1 d (fun n => n) (fun n => N.lxor n i) s
  | AndRR d r => c_arith2 d r N.land N.land s
  | OrRR d r => c_arith2 d r N.lor N.lor s
  | XorRR d r => c_arith2 d r N.lxor N.lxor s
  | TestRR d r => c_arith2 d r (fun a _ => a) N.land s
  | AndRI8 d i => c_arith1 d (fun n => N.land n (N.lor (N.land i BYTE) HI24)) (fun n => N.land n (N.land i BYTE)) s
  | TestRI8 d i => c_arith1 d (fun n => n) (fun n => N.land n (N.land i BYTE)) s
  | CmpRI8 d i => c_arith1 d (fun n => n) (fun n => N.lxor (N.land n BYTE) i) s
  | TestRR8 d r => c_arith2 d r (fun a _ => a) (fun a b => N.land (N.land a b) BYTE) s
  | Jcc c t => match c_zf s with
               | Some z => Some (s, if holds c z then Goto t else Fall)
               | None => None
               end
  | Jmp t => Some (s, Goto t)
  | Cmov c d r => match c_zf s with
                  | Some z => Some (if holds c z then c_setr d (rget r (c_r s)) s else s, Fall)
                  | None => None
                  end
  | Cpuid => match rget RAX (c_r s) with
             | VNum a =>
                 if N.lxor a 1 =? 0 then Some (c_leaf e L1A L1B L1C L1D s, Fall)
                 else if N.lxor a 7 =? 0 then
                   match rget RCX (c_r s) with
                   | VNum c => if N.lxor c 0 =? 0 then Some (c_leaf e L7A L7B L7C L7D s, Fall) else None
                   | _ => None
                   end
                 else None
             | _ => None
             end
  | Xgetbv => match rget RCX (c_r s) with
              | VNum c =>
                  if N.lxor c 0 =? 0 then
                    if N.lxor (N.land (fieldv e L1C) OSXSAVE_BIT) OSXSAVE_BIT =? 0
                    then Some (c_setr RDX (VNum (fieldv e X0H)) (c_setr RAX (VNum (fieldv e X0L)) s), Fall)
                    else None
                  else None
              | _ => None
              end
  | Store slot r => if String.eqb slot (slot_of self) then
                      match rget r (c_r s) with
                      | VSym x => Some (c_setout x s, Fall)
                      | _ => None
                      end
                    else None
  | Ret => match c_stk s with [] => Some (s, Stop) | _ => None end
  | Nop => Some (s, Fall)
  | CallSym _ | JmpSlot _ | Unsupported _ => None
  end.

(* Branches may go backwards (the SHA-NI tail of two macros jumps back to the common
   epilogue); termination is by fuel, and running out of fuel is stuck like everything else
   that is not plainly defined. *)
Definition fuel_of (p : list insn) : nat := 4 * List.length p + 4.

Fixpoint crun (self : string) (e : env) (p : list insn) (fuel pc : nat) (s : cst) : option string :=
  match fuel with
  | O => None
  | S f =>
      match nth_error p pc with
      | None => None
      | Some i =>
          match cstep self e i s with
          | None => None
          | Some (s', nx) =>
              match nx with
              | Stop => c_out s'
              | Fall => crun self e p f (S pc) s'
              | Goto t => crun self e p f t s'
              end
          end
      end
  end.

(* what <self>_dispatch_init stores into <self>_dispatched under environment e *)
Definition exec (self : string) (p : list insn) (e : env) : option string :=
  crun self e p (fuel_of p) 0 cinit.

(* ------------------------------------------------------------------ symbolic executor *)

(* numbers as bitwise expressions over the environment's fields *)
Inductive expr :=
  | EConst (n : N) | EFld (f : field)
  | EAnd (a b : expr) | EOr (a b : expr) | EXor (a b : expr).

Fixpoint ev (e : env) (x : expr) : N :=
  match x with
  | EConst n => n
  | EFld f => fieldv e f
  | EAnd a b => N.land (ev e a) (ev e b)
  | EOr a b => N.lor (ev e a) (ev e b)
  | EXor a b => N.lxor (ev e a) (ev e b)
  end.

(* value of an expression that mentions no field *)
Fixpoint cfold (x : expr) : option N :=
  match x with
  | EConst n => Some n
  | EFld _ => None
  | EAnd a b => match cfold a, cfold b with Some p, Some q => Some (N.land p q) | _, _ => None end
  | EOr a b => match cfold a, cfold b with Some p, Some q => Some (N.lor p q) | _, _ => None end
  | EXor a b => match cfold a, cfold b with Some p, Some q => Some (N.lxor p q) | _, _ => None end
  end.

Inductive sval := SExp (x : expr) | SSym (x : string) | SJunk.
Inductive sflag := FNone | FZero (x : expr).        (* ZF = (x = 0) *)

Inductive dtree :=
  | Leaf (r : option string)
  | Node (c : expr) (tt ff : dtree).                 (* if c = 0 then tt else ff *)

Fixpoint eval (t : dtree) (e : env) : option string :=
  match t with
  | Leaf r => r
  | Node c a b => if ev e c =? 0 then eval a e else eval b e
  end.

(* a test whose outcome does not depend on the environment is decided on the spot *)
Definition mkNode (c : expr) (a b : dtree) : dtree :=
  match cfold c with
  | Some n => if n =? 0 then a else b
  | None => Node c a b
  end.

Record sst := { s_r : rf sval; s_zf : sflag; s_stk : list sval; s_out : option string }.
Definition sinit : sst := {| s_r := rconst SJunk; s_zf := FNone; s_stk := []; s_out := None |}.

Definition s_setr (r : reg) (v : sval) (s : sst) : sst :=
  {| s_r := rset r v (s_r s); s_zf := s_zf s; s_stk := s_stk s; s_out := s_out s |}.
Definition s_setzf (z : expr) (s : sst) : sst :=
  {| s_r := s_r s; s_zf := FZero z; s_stk := s_stk s; s_out := s_out s |}.
Definition s_setstk (k : list sval) (s : sst) : sst :=
  {| s_r := s_r s; s_zf := s_zf s; s_stk := k; s_out := s_out s |}.
Definition s_setout (x : string) (s : sst) : sst :=
  {| s_r := s_r s; s_zf := s_zf s; s_stk := s_stk s; s_out := Some x |}.

Definition s_leaf (a b c d : field) (s : sst) : sst :=
  s_setr RDX (SExp (EFld d)) (s_setr RCX (SExp (EFld c))
    (s_setr RBX (SExp (EFld b)) (s_setr RAX (SExp (EFld a)) s))).

Definition on_flag (fl : sflag) (k : bool -> dtree) : dtree :=
  match fl with
  | FNone => Leaf None
  | FZero x => mkNode x (k true) (k false)
  end.

(* branch on "register value = n" *)
Definition on_num (v : sval) (n : N) (yes no : dtree) : dtree :=
  match v with
  | SExp x => mkNode (EXor x (EConst n)) yes no
  | _ => Leaf None
  end.

Definition s_arith1 (d : reg) (f g : expr -> expr) (s : sst) (k : sst -> next -> dtree) : dtree :=
  match rget d (s_r s) with
  | SExp x => k (s_setzf (g x) (s_setr d (SExp (f x)) s)) Fall
  | _ => Leaf None
  end.
Definition s_arith2 (d r : reg) (f g : expr -> expr -> expr) (s : sst) (k : sst -> next -> dtree) : dtree :=
  match rget d (s_r s), rget r (s_r s) with
  | SExp a, SExp b => k (s_setzf (g a b) (s_setr d (SExp (f a b)) s)) Fall
  | _, _ => Leaf None
  end.

Definition sstep (self : string) (i : insn) (s : sst) (k : sst -> next -> dtree) : dtree :=
  match i with
  | Push r => k (s_setstk (rget r (s_r s) :: s_stk s) s) Fall
  | Pop r => match s_stk s with
             | v :: tl => k (s_setr r v (s_setstk tl s)) Fall
             | [] => Leaf None
             end
  | LeaSym r x => k (s_setr r (SSym x) s) Fall
  | MovRR64 d r => k (s_setr d (rget r (s_r s)) s) Fall
  | MovRR32 d r => k (s_setr d (match rget r (s_r s) with SExp x => SExp x | _ => SJunk end) s) Fall
  | MovRI d i => k (s_setr d (SExp (EConst (m32 i))) s) Fall
  | XorSelf r => k (s_setzf (EConst 0) (s_setr r (SExp (EConst 0)) s)) Fall
  | NotR d => match rget d (s_r s) with
              | SExp x => k (s_setr d (SExp (EXor x (EConst ones32))) s) Fall
              | _ => Leaf None
              end
  | AndRI d i => s_arith1 d (fun x => EAnd x (EConst i)) (fun x => EAnd x (EConst i)) s k
  | OrRI d i => s_arith1 d (fun x => EOr x (EConst i)) (fun x => EOr x (EConst i)) s k
  | XorRI d i => s_arith1 d (fun x => EXor x (EConst i)) (fun x => EXor x (EConst i)) s k
  | TestRI d i => s_arith1 d (fun x => x) (fun x => EAnd x (EConst i)) s k
  | CmpRI d i => s_arith1 d (fun x => x) (fun x => EXor x (EConst i)) s k
  | AndRR d r => s_arith2 d r EAnd EAnd s k
  | OrRR d r => s_arith2 d r EOr EOr s k
  | XorRR d r => s_arith2 d r EXor EXor s k
  | TestRR d r => s_arith2 d r (fun a _ => a) EAnd s k
  | AndRI8 d i => s_arith1 d (fun x => EAnd x (EConst (N.lor (N.land i BYTE) HI24)))
                             (fun x => EAnd x (EConst (N.land i BYTE))) s k
  | TestRI8 d i => s_arith1 d (fun x => x) (fun x => EAnd x (EConst (N.land i BYTE))) s k
  | CmpRI8 d i => s_arith1 d (fun x => x) (fun x => EXor (EAnd x (EConst BYTE)) (EConst i)) s k
  | TestRR8 d r => s_arith2 d r (fun a _ => a) (fun a b => EAnd (EAnd a b) (EConst BYTE)) s k
  | Jcc c t => on_flag (s_zf s) (fun z => k s (if holds c z then Goto t else Fall))
  | Jmp t => k s (Goto t)
  | Cmov c d r => on_flag (s_zf s) (fun z => k (if holds c z then s_setr d (rget r (s_r s)) s else s) Fall)
  | Cpuid => let a := rget RAX (s_r s) in
             on_num a 1 (k (s_leaf L1A L1B L1C L1D s) Fall)
               (on_num a 7 (on_num (rget RCX (s_r s)) 0 (k (s_leaf L7A L7B L7C L7D s) Fall) (Leaf None))
                  (Leaf None))
  | Xgetbv => on_num (rget RCX (s_r s)) 0
                (mkNode (EXor (EAnd (EFld L1C) (EConst OSXSAVE_BIT)) (EConst OSXSAVE_BIT))
                   (k (s_setr RDX (SExp (EFld X0H)) (s_setr RAX (SExp (EFld X0L)) s)) Fall)
                   (Leaf None))
                (Leaf None)
  | Store slot r => if String.eqb slot (slot_of self) then
                      match rget r (s_r s) with
                      | SSym x => k (s_setout x s) Fall
                      | _ => Leaf None
                      end
                    else Leaf None
  | Ret => match s_stk s with [] => k s Stop | _ => Leaf None end
  | Nop => k s Fall
  | CallSym _ | JmpSlot _ | Unsupported _ => Leaf None
  end.

Fixpoint srun (self : string) (p : list insn) (fuel pc : nat) (s : sst) : dtree :=
  match fuel with
  | O => Leaf None
  | S f =>
      match nth_error p pc with
      | None => Leaf None
      | Some i =>
          sstep self i s (fun s' nx =>
            match nx with
            | Stop => Leaf (s_out s')
            | Fall => srun self p f (S pc) s'
            | Goto t => srun self p f t s'
            end)
      end
  end.

Definition sexec (self : string) (p : list insn) : dtree := srun self p (fuel_of p) 0 sinit.

(* concretisation of symbolic values under an environment (used by the soundness proof and by
   nothing else) *)
Definition cval (e : env) (v : sval) : val :=
  match v with
  | SExp x => VNum (ev e x) | SSym x => VSym x | SJunk => VJunk
  end.
Definition cflag (e : env) (fl : sflag) : option bool :=
  match fl with
  | FNone => None
  | FZero x => Some (ev e x =? 0)
  end.
Definition conc (e : env) (s : sst) : cst :=
  {| c_r := rmap (cval e) (s_r s); c_zf := cflag e (s_zf s);
     c_stk := map (cval e) (s_stk s); c_out := s_out s |}.

(* Normal form of an expression over at most one field F:  (F & m) xor x.  Every bitwise
   function of a single field has this form (per bit it is 0, 1, F or not F), so and/or/xor/not
   of words derived from one CPUID/XCR0 word stay normal; an expression mixing two fields has
   no normal form and the checker then learns nothing from a test on it (both branches are
   explored with the facts unchanged: sound, possibly incomplete). *)
Definition nform := (option field * N * N)%type.
Definition nf_join (a b : option field) : option (option field) :=
  match a, b with
  | None, o | o, None => Some o
  | Some f, Some g => if field_eqb f g then Some (Some f) else None
  end.
Definition nf_op (op : N -> N -> N) (p q : option nform) : option nform :=
  match p, q with
  | Some (o1, m1, x1), Some (o2, m2, x2) =>
      match nf_join o1 o2 with
      | Some o => let v0 := op x1 x2 in let v1 := op (N.lxor m1 x1) (N.lxor m2 x2) in
                  Some (o, N.lxor v0 v1, v0)
      | None => None
      end
  | _, _ => None
  end.
Fixpoint norm (x : expr) : option nform :=
  match x with
  | EConst n => Some (None, 0, n)
  | EFld f => Some (Some f, ones32, 0)
  | EAnd a b => nf_op N.land (norm a) (norm b)
  | EOr a b => nf_op N.lor (norm a) (norm b)
  | EXor a b => nf_op N.lxor (norm a) (norm b)
  end.

(* the test "c = 0" as an atom (field & mask) = val, or as a constant *)
Inductive test_kind := TAtom (f : field) (m v : N) | TConst (b : bool) | TOpaque.
Definition test_of (c : expr) : test_kind :=
  match norm c with
  | Some (Some f, m, x) => TAtom f m x
  | Some (None, _, x) => TConst (x =? 0)
  | None => TOpaque
  end.

(* ------------------------------------------------------------------ features *)

Inductive feat :=
  | F_SSE3 | F_SSSE3 | F_SSE4_1 | F_SSE4_2 | F_POPCNT | F_AESNI | F_PCLMUL | F_MOVBE
  | F_BMI1 | F_BMI2 | F_LZCNT | F_ADX | F_SHA | F_GFNI
  | F_AVX | F_AVX2 | F_FMA | F_F16C | F_VAES | F_VPCLMULQDQ
  | F_AVX512F | F_AVX512CD | F_AVX512DQ | F_AVX512BW | F_AVX512VL | F_AVX512IFMA
  | F_AVX512VBMI | F_AVX512VBMI2 | F_AVX512VNNI | F_AVX512BITALG | F_AVX512VPOPCNTDQ
  | F_UNKNOWN.     (* an instruction the ISA oracle could not attribute: never available *)

Definition feat_id (f : feat) : nat :=
  match f with
  | F_SSE3 => 0 | F_SSSE3 => 1 | F_SSE4_1 => 2 | F_SSE4_2 => 3 | F_POPCNT => 4 | F_AESNI => 5
  | F_PCLMUL => 6 | F_MOVBE => 7 | F_BMI1 => 8 | F_BMI2 => 9 | F_LZCNT => 10 | F_ADX => 11
  | F_SHA => 12 | F_GFNI => 13 | F_AVX => 14 | F_AVX2 => 15 | F_FMA => 16 | F_F16C => 17
  | F_VAES => 18 | F_VPCLMULQDQ => 19 | F_AVX512F => 20 | F_AVX512CD => 21 | F_AVX512DQ => 22
  | F_AVX512BW => 23 | F_AVX512VL => 24 | F_AVX512IFMA => 25 | F_AVX512VBMI => 26
  | F_AVX512VBMI2 => 27 | F_AVX512VNNI => 28 | F_AVX512BITALG => 29 | F_AVX512VPOPCNTDQ => 30
  | F_UNKNOWN => 31
  end%nat.
Definition feat_eqb (a b : feat) : bool := Nat.eqb (feat_id a) (feat_id b).

Definition bit (n : N) : N := N.shiftl 1 n.

(* the CPUID bit of a feature (SDM vol. 2A, CPUID, tables 3-10 and 3-8) *)
Definition cpu_bit (ft : feat) : field * N :=
  match ft with
  | F_SSE3 => (L1C, bit 0) | F_PCLMUL => (L1C, bit 1) | F_SSSE3 => (L1C, bit 9)
  | F_FMA => (L1C, bit 12) | F_SSE4_1 => (L1C, bit 19) | F_SSE4_2 => (L1C, bit 20)
  | F_MOVBE => (L1C, bit 22) | F_POPCNT => (L1C, bit 23) | F_AESNI => (L1C, bit 25)
  | F_AVX => (L1C, bit 28) | F_F16C => (L1C, bit 29)
  | F_BMI1 => (L7B, bit 3) | F_AVX2 => (L7B, bit 5) | F_BMI2 => (L7B, bit 8)
  | F_AVX512F => (L7B, bit 16) | F_AVX512DQ => (L7B, bit 17) | F_ADX => (L7B, bit 19)
  | F_AVX512IFMA => (L7B, bit 21) | F_AVX512CD => (L7B, bit 28) | F_SHA => (L7B, bit 29)
  | F_AVX512BW => (L7B, bit 30) | F_AVX512VL => (L7B, bit 31)
  | F_AVX512VBMI => (L7C, bit 1) | F_AVX512VBMI2 => (L7C, bit 6) | F_GFNI => (L7C, bit 8)
  | F_VAES => (L7C, bit 9) | F_VPCLMULQDQ => (L7C, bit 10) | F_AVX512VNNI => (L7C, bit 11)
  | F_AVX512BITALG => (L7C, bit 12) | F_AVX512VPOPCNTDQ => (L7C, bit 14)
  | F_LZCNT => (X0H, bit 32)        (* CPUID.80000001H: outside the modelled leaves; never concluded *)
  | F_UNKNOWN => (X0H, bit 32)      (* bit 32 of a 32-bit field: never set *)
  end.

Inductive state_class := StLegacy | StYmm | StZmm.
Definition state_of (ft : feat) : state_class :=
  match ft with
  | F_AVX | F_AVX2 | F_FMA | F_F16C | F_VAES | F_VPCLMULQDQ => StYmm
  | F_AVX512F | F_AVX512CD | F_AVX512DQ | F_AVX512BW | F_AVX512VL | F_AVX512IFMA
  | F_AVX512VBMI | F_AVX512VBMI2 | F_AVX512VNNI | F_AVX512BITALG | F_AVX512VPOPCNTDQ => StZmm
  | _ => StLegacy
  end.

(* what must be set for software to execute instructions of a feature (SDM vol. 1 §14.3
   "Detection of AVX", §15.2 "Detection of AVX-512 foundation", §15.3/15.4 for the other
   AVX-512 groups): the feature's CPUID bit; for VEX-encoded classes additionally
   CPUID.1:ECX.OSXSAVE and XCR0[2:1] = 11b; for EVEX-encoded classes OSXSAVE,
   XCR0[7:5] = 111b and XCR0[2:1] = 11b.  (VAES/VPCLMULQDQ have no legacy-SSE form, so the
   YMM state is their minimum; the ZMM forms additionally list F_AVX512F.) *)
Definition need (ft : feat) : list (field * N) :=
  cpu_bit ft ::
  match state_of ft with
  | StLegacy => []
  | StYmm => [(L1C, OSXSAVE_BIT); (X0L, 0x6)]
  | StZmm => [(L1C, OSXSAVE_BIT); (X0L, 0xE6)]
  end.

Definition has (e : env) (fm : field * N) : bool := N.land (fieldv e (fst fm)) (snd fm) =? snd fm.
Definition availb (e : env) (ft : feat) : bool := forallb (has e) (need ft).

(* Architectural implications between the observed bits ("consistent" environments).
   (f1, m1, f2, m2): if all bits m1 of f1 are set then all bits m2 of f2 are set. *)
Definition rule := (field * N * field * N)%type.
Definition cpu_imp (a b : feat) : rule := (fst (cpu_bit a), snd (cpu_bit a), fst (cpu_bit b), snd (cpu_bit b)).
Definition rules : list rule :=
  [ (* every AVX-512 sub-group presupposes the foundation *)
    cpu_imp F_AVX512CD F_AVX512F; cpu_imp F_AVX512DQ F_AVX512F; cpu_imp F_AVX512BW F_AVX512F;
    cpu_imp F_AVX512VL F_AVX512F; cpu_imp F_AVX512IFMA F_AVX512F; cpu_imp F_AVX512VBMI F_AVX512F;
    cpu_imp F_AVX512VBMI2 F_AVX512F; cpu_imp F_AVX512VNNI F_AVX512F; cpu_imp F_AVX512BITALG F_AVX512F;
    cpu_imp F_AVX512VPOPCNTDQ F_AVX512F;
    (* the vector generations are cumulative *)
    cpu_imp F_AVX512F F_AVX2; cpu_imp F_AVX2 F_AVX; cpu_imp F_FMA F_AVX; cpu_imp F_F16C F_AVX;
    cpu_imp F_AVX F_SSE4_2; cpu_imp F_SSE4_2 F_SSE4_1; cpu_imp F_SSE4_1 F_SSSE3; cpu_imp F_SSSE3 F_SSE3;
    (* XCR0: XSETBV faults unless ZMM_Hi256/Hi16_ZMM/opmask are set together and with AVX
       state, and AVX state with SSE state (SDM vol. 1 §13.3) *)
    (X0L, 0x20, X0L, 0xE6); (X0L, 0x40, X0L, 0xE6); (X0L, 0x80, X0L, 0xE6); (X0L, 0x4, X0L, 0x2) ].

Definition rule_ok (e : env) (r : rule) : bool :=
  let '(f1, m1, f2, m2) := r in
  negb (N.land (fieldv e f1) m1 =? m1) || (N.land (fieldv e f2) m2 =? m2).
Definition consistentb (e : env) : bool := forallb (rule_ok e) rules.

(* Features no dispatcher tests: they are the assumed baseline of the library (README:
   "x86_64 with at least SSE4.1 + AES-NI + PCLMULQDQ" for the AES part) and are excluded from
   the conclusion of the theorem; the check prints which bound families rely on which. *)
Definition baseline : list feat :=
  [F_SSE3; F_SSSE3; F_POPCNT; F_AESNI; F_PCLMUL; F_MOVBE; F_BMI1; F_BMI2; F_LZCNT; F_ADX].
Definition in_baseline (ft : feat) : bool := existsb (feat_eqb ft) baseline.

(* ------------------------------------------------------------------ checker *)

(* known facts on a path: per field, bits known set and bits known clear, plus the atoms
   known to be false (a negated multi-bit test such as "XCR0[2:1] <> 11b" is not expressible
   as set/clear bits, and the product walk of two trees meets the same test twice).
   Plain data, so that evaluation cost does not depend on how the facts were accumulated. *)
Record known := { k_1a : N * N; k_1b : N * N; k_1c : N * N; k_1d : N * N; k_7a : N * N; k_7b : N * N; k_7c : N * N; k_7d : N * N; k_xl : N * N; k_xh : N * N;
                  k_neg : list (field * N * N) }.
Definition k0 : known :=
  {| k_1a := (0, 0); k_1b := (0, 0); k_1c := (0, 0); k_1d := (0, 0); k_7a := (0, 0); k_7b := (0, 0); k_7c := (0, 0); k_7d := (0, 0); k_xl := (0, 0); k_xh := (0, 0); k_neg := [] |}.
Definition kget (k : known) (f : field) : N * N :=
  match f with
  | L1A => k_1a k
  | L1B => k_1b k
  | L1C => k_1c k
  | L1D => k_1d k
  | L7A => k_7a k
  | L7B => k_7b k
  | L7C => k_7c k
  | L7D => k_7d k
  | X0L => k_xl k
  | X0H => k_xh k
  end.
Definition kput (k : known) (f : field) (p : N * N) : known :=
  match f with
  | L1A => {| k_1a := p; k_1b := k_1b k; k_1c := k_1c k; k_1d := k_1d k; k_7a := k_7a k; k_7b := k_7b k; k_7c := k_7c k; k_7d := k_7d k; k_xl := k_xl k; k_xh := k_xh k; k_neg := k_neg k |}
  | L1B => {| k_1a := k_1a k; k_1b := p; k_1c := k_1c k; k_1d := k_1d k; k_7a := k_7a k; k_7b := k_7b k; k_7c := k_7c k; k_7d := k_7d k; k_xl := k_xl k; k_xh := k_xh k; k_neg := k_neg k |}
  | L1C => {| k_1a := k_1a k; k_1b := k_1b k; k_1c := p; k_1d := k_1d k; k_7a := k_7a k; k_7b := k_7b k; k_7c := k_7c k; k_7d := k_7d k; k_xl := k_xl k; k_xh := k_xh k; k_neg := k_neg k |}
  | L1D => {| k_1a := k_1a k; k_1b := k_1b k; k_1c := k_1c k; k_1d := p; k_7a := k_7a k; k_7b := k_7b k; k_7c := k_7c k; k_7d := k_7d k; k_xl := k_xl k; k_xh := k_xh k; k_neg := k_neg k |}
  | L7A => {| k_1a := k_1a k; k_1b := k_1b k; k_1c := k_1c k; k_1d := k_1d k; k_7a := p; k_7b := k_7b k; k_7c := k_7c k; k_7d := k_7d k; k_xl := k_xl k; k_xh := k_xh k; k_neg := k_neg k |}
  | L7B => {| k_1a := k_1a k; k_1b := k_1b k; k_1c := k_1c k; k_1d := k_1d k; k_7a := k_7a k; k_7b := p; k_7c := k_7c k; k_7d := k_7d k; k_xl := k_xl k; k_xh := k_xh k; k_neg := k_neg k |}
  | L7C => {| k_1a := k_1a k; k_1b := k_1b k; k_1c := k_1c k; k_1d := k_1d k; k_7a := k_7a k; k_7b := k_7b k; k_7c := p; k_7d := k_7d k; k_xl := k_xl k; k_xh := k_xh k; k_neg := k_neg k |}
  | L7D => {| k_1a := k_1a k; k_1b := k_1b k; k_1c := k_1c k; k_1d := k_1d k; k_7a := k_7a k; k_7b := k_7b k; k_7c := k_7c k; k_7d := p; k_xl := k_xl k; k_xh := k_xh k; k_neg := k_neg k |}
  | X0L => {| k_1a := k_1a k; k_1b := k_1b k; k_1c := k_1c k; k_1d := k_1d k; k_7a := k_7a k; k_7b := k_7b k; k_7c := k_7c k; k_7d := k_7d k; k_xl := p; k_xh := k_xh k; k_neg := k_neg k |}
  | X0H => {| k_1a := k_1a k; k_1b := k_1b k; k_1c := k_1c k; k_1d := k_1d k; k_7a := k_7a k; k_7b := k_7b k; k_7c := k_7c k; k_7d := k_7d k; k_xl := k_xl k; k_xh := p; k_neg := k_neg k |}
  end.
Definition kneg_add (k : known) (f : field) (m v : N) : known :=
  {| k_1a := k_1a k; k_1b := k_1b k; k_1c := k_1c k; k_1d := k_1d k; k_7a := k_7a k; k_7b := k_7b k; k_7c := k_7c k; k_7d := k_7d k; k_xl := k_xl k; k_xh := k_xh k; k_neg := (f, m, v) :: k_neg k |}.
Definition kset (k : known) (f : field) := fst (kget k f).
Definition kclr (k : known) (f : field) := snd (kget k f).
Definition kadd (k : known) (f : field) (s c : N) : known :=
  kput k f (N.lor (kset k f) s, N.lor (kclr k f) c).

(* "(f & m') <> v'" refutes "(f & m) = v" when m' is inside m and v agrees with v' on m' *)
Definition neg_refutes (f : field) (m v : N) (n : field * N * N) : bool :=
  let '(f', m', v') := n in
  field_eqb f' f && (N.ldiff m' m =? 0) && (N.land v m' =? v').

Inductive dec3 := DTrue | DFalse | DUnknown.

Definition decide (k : known) (f : field) (m v : N) : dec3 :=
  let s := kset k f in let c := kclr k f in
  if negb (N.ldiff v m =? 0) then DFalse                    (* v has a bit outside the mask *)
  else if negb (N.land s (N.ldiff m v) =? 0) then DFalse    (* a bit known set must be clear *)
  else if negb (N.land c v =? 0) then DFalse                (* a bit known clear must be set *)
  else if existsb (neg_refutes f m v) (k_neg k) then DFalse (* refuted by an atom known false *)
  else if N.ldiff m (N.lor s c) =? 0 then DTrue             (* every masked bit is known *)
  else DUnknown.

Definition assume_true (k : known) (f : field) (m v : N) : known := kadd k f v (N.ldiff m v).

(* the atom is false: if exactly one masked bit is still unknown (and all known ones agree
   with v, which [decide] has established), that bit is the opposite of v's *)
Definition assume_false (k : known) (f : field) (m v : N) : known :=
  let u := N.ldiff m (N.lor (kset k f) (kclr k f)) in
  let k' := kneg_add k f m v in
  if (negb (u =? 0)) && (u =? bit (N.log2 u)) then
    if N.land v u =? 0 then kadd k' f u 0 else kadd k' f 0 u
  else k'.

(* closure of the known-set bits under the architectural rules *)
Definition apply_rule (k : known) (r : rule) : known :=
  let '(f1, m1, f2, m2) := r in
  if N.ldiff m1 (kset k f1) =? 0 then kadd k f2 m2 0 else k.
Definition close1 (k : known) : known := fold_left apply_rule rules k.
Fixpoint closeN (n : nat) (k : known) : known :=
  match n with O => k | S n' => close1 (closeN n' k) end.
Definition close (k : known) : known := closeN (List.length rules) k.

Definition implied (k : known) (ft : feat) : bool :=
  in_baseline ft || forallb (fun fm => N.ldiff (snd fm) (kset k (fst fm)) =? 0) (need ft).

Section Check.
  Variable requires : string -> option (list feat).

  Definition leaf_ok (k : known) (x : string) : bool :=
    match requires x with
    | Some l => let kc := close k in forallb (implied kc) l
    | None => false
    end.

  Fixpoint check (k : known) (t : dtree) : bool :=
    match t with
    | Leaf None => false
    | Leaf (Some x) => leaf_ok k x
    | Node c a b =>
        match test_of c with
        | TConst true => check k a
        | TConst false => check k b
        | TOpaque => check k a && check k b
        | TAtom f m v =>
            match decide k f m v with
            | DTrue => check k a
            | DFalse => check k b
            | DUnknown => check (assume_true k f m v) a && check (assume_false k f m v) b
            end
        end
    end.

  (* the property on one concrete environment: the bound symbol's call closure needs only
     available features (baseline features excepted) *)
  Definition bound_okb (e : env) (r : option string) : bool :=
    match r with
    | Some x => match requires x with
                | Some l => forallb (fun ft => in_baseline ft || availb e ft) l
                | None => false
                end
    | None => false
    end.

  Definition first_missing (e : env) (x : string) : option feat :=
    match requires x with
    | Some l => find (fun ft => negb (in_baseline ft || availb e ft)) l
    | None => Some F_UNKNOWN
    end.
End Check.

(* documented minimum of an entry point as a start-of-path fact *)
Definition k_of_feats (l : list feat) : known :=
  fold_left (fun k ft => fold_left (fun k' fm => kadd k' (fst fm) (snd fm) 0) (need ft) k) l k0.

(* ------------------------------------------------------------------ families and groups *)

Fixpoint split_us_aux (s : string) (cur : string) : list string :=
  match s with
  | EmptyString => [cur]
  | String c r => if Ascii.eqb c "_"%char then cur :: split_us_aux r EmptyString
                  else split_us_aux r (String.append cur (String c EmptyString))
  end.
Definition split_us (s : string) : list string := split_us_aux s EmptyString.

(* remove the tokens of the entry name, in order, from the tokens of the bound symbol:
   "_aes_gcm_enc_128_update_nt" from "_aes_gcm_enc_128_update_avx_gen4_nt" leaves [avx;gen4] *)
Fixpoint remove_subseq (pat l : list string) : option (list string) :=
  match pat with
  | [] => Some l
  | p :: pat' =>
      (fix go (l : list string) : option (list string) :=
         match l with
         | [] => None
         | x :: l' => if String.eqb x p then remove_subseq pat' l'
                      else match go l' with Some r => Some (x :: r) | None => None end
         end) l
  end.

Definition family (entry : string) (sym : string) : option (list string) :=
  remove_subseq (split_us entry) (split_us sym).

Fixpoint list_eqb (a b : list string) : bool :=
  match a, b with
  | [], [] => true
  | x :: a', y :: b' => String.eqb x y && list_eqb a' b'
  | _, _ => false
  end.
Definition fam_eqb (a b : option (list string)) : bool :=
  match a, b with
  | Some x, Some y => list_eqb x y
  | _, _ => false           (* a stuck dispatcher or a foreign symbol never agrees *)
  end.
Definition famo (entry : string) (r : option string) : option (list string) :=
  match r with Some x => family entry x | None => None end.

(* product walk of two decision trees under shared known facts *)
Fixpoint agree2 (e1 e2 : string) (k : known) (r1 : option string) (t2 : dtree) : bool :=
  match t2 with
  | Leaf r2 => fam_eqb (famo e1 r1) (famo e2 r2)
  | Node c a b =>
      match test_of c with
      | TConst true => agree2 e1 e2 k r1 a
      | TConst false => agree2 e1 e2 k r1 b
      | TOpaque => agree2 e1 e2 k r1 a && agree2 e1 e2 k r1 b
      | TAtom f m v =>
          match decide k f m v with
          | DTrue => agree2 e1 e2 k r1 a
          | DFalse => agree2 e1 e2 k r1 b
          | DUnknown => agree2 e1 e2 (assume_true k f m v) r1 a && agree2 e1 e2 (assume_false k f m v) r1 b
          end
      end
  end.
Fixpoint agree (e1 e2 : string) (k : known) (t1 t2 : dtree) : bool :=
  match t1 with
  | Leaf r1 => agree2 e1 e2 k r1 t2
  | Node c a b =>
      match test_of c with
      | TConst true => agree e1 e2 k a t2
      | TConst false => agree e1 e2 k b t2
      | TOpaque => agree e1 e2 k a t2 && agree e1 e2 k b t2
      | TAtom f m v =>
          match decide k f m v with
          | DTrue => agree e1 e2 k a t2
          | DFalse => agree e1 e2 k b t2
          | DUnknown => agree e1 e2 (assume_true k f m v) a t2 && agree e1 e2 (assume_false k f m v) b t2
          end
      end
  end.

(* ------------------------------------------------------------------ entry stub / binding *)

Definition is_nop (i : insn) : bool := match i with Nop => true | _ => false end.
Definition stub_ok (d : dispatcher) : bool :=
  match filter (fun i => negb (is_nop i)) (d_stub d) with
  | [CallSym f; JmpSlot s] => String.eqb f (String.append (d_entry d) "_dispatch_init") && String.eqb s (slot_of (d_entry d))
  | _ => false
  end.

(* the slot holds either the address of <entry>_mbinit (its link-time value) or a target *)
Inductive ptr := PInit | PTarget (x : string).

(* one call of the entry point: `jmp [slot]`; through mbinit the first time.  Returns the new
   slot value and the implementation that ran (None = the dispatcher got stuck). *)
Definition call_entry (d : dispatcher) (e : env) (p : ptr) : ptr * option string :=
  match p with
  | PInit => match exec (d_entry d) (d_code d) e with
             | Some x => (PTarget x, Some x)
             | None => (PInit, None)
             end
  | PTarget x => (PTarget x, Some x)
  end.
Fixpoint call_n (d : dispatcher) (e : env) (n : nat) (p : ptr) : ptr * list (option string) :=
  match n with
  | O => (p, [])
  | S n' => let '(p1, r) := call_entry d e p in
            let '(p2, rs) := call_n d e n' p1 in (p2, r :: rs)
  end.

(* ------------------------------------------------------------------ path witnesses *)

(* all root-to-leaf paths: (signed atoms, leaf) *)
Definition satom := (bool * field * N * N)%type.
Fixpoint paths (t : dtree) : list (list satom * option string) :=
  match t with
  | Leaf r => [([], r)]
  | Node c a b =>
      match test_of c with
      | TAtom f m v =>
          app (map (fun p => ((true, f, m, v) :: fst p, snd p)) (paths a))
              (map (fun p => ((false, f, m, v) :: fst p, snd p)) (paths b))
      | TConst true => paths a
      | TConst false => paths b
      | TOpaque => app (paths a) (paths b)
      end
  end.

Definition bits32 : list N := map N.of_nat (seq 0 32).

(* depth-first search for known-set/known-clear masks satisfying a list of signed atoms:
   a positive atom forces its bits; a negative atom picks one masked bit to differ from v.
   [pick] numbers the alternative to prefer at each negative atom (variety of witnesses). *)
Fixpoint solve (pick : nat) (k : known) (l : list satom) : option known :=
  match l with
  | [] => Some k
  | (true, f, m, v) :: r =>
      match decide k f m v with
      | DFalse => None
      | _ => solve pick (assume_true k f m v) r
      end
  | (false, f, m, v) :: r =>
      match decide k f m v with
      | DTrue => None
      | DFalse => solve pick k r
      | DUnknown =>
          let u := N.ldiff m (N.lor (kset k f) (kclr k f)) in
          let cands := filter (fun i => N.testbit u i) bits32 in
          let rot := Nat.modulo pick (List.length cands) in
          let cands := app (skipn rot cands) (firstn rot cands) in
          (fix try (cs : list N) : option known :=
             match cs with
             | [] => None
             | i :: cs' =>
                 let k' := if N.testbit v i then kadd k f 0 (bit i) else kadd k f (bit i) 0 in
                 match solve pick k' r with
                 | Some kk => Some kk
                 | None => try cs'
                 end
             end) cands
      end
  end.

(* Implications that hold of every real part and hypervisor but are deliberately NOT part of
   [rules] (the theorem covers environments that violate them too): XSETBV only accepts state
   components CPUID enumerates, so enabled ZMM state goes with AVX512F and enabled YMM state
   with AVX.  They are used only to make the reported witnesses look like real machines. *)
Definition soft_rules : list rule :=
  [ (X0L, 0x20, L7B, bit 16); (X0L, 0x40, L7B, bit 16); (X0L, 0x80, L7B, bit 16); (X0L, 0x4, L1C, bit 28) ].
Definition close_with (rs : list rule) (k : known) : known :=
  (fix go (n : nat) (k : known) : known :=
     match n with O => k | S n' => fold_left apply_rule rs (go n' k) end) (List.length rs) k.

(* an environment from known facts: closure of the set bits (under the architectural rules,
   optionally also the soft ones), everything else clear *)
Definition env_of_known (soft : bool) (k : known) : env :=
  let kc := close_with (if soft then app rules soft_rules else rules) k in
  env_of_words (map (fun f => kset kc f) all_fields).

Definition witness (soft : bool) (pick : nat) (k : known) (path : list satom) : option env :=
  match solve pick k path with
  | Some kk => Some (env_of_known soft kk)
  | None => None
  end.

(* ------------------------------------------------------------------ per-dispatcher checks *)

Definition requires_of (tbl : list (string * list feat)) (x : string) : option (list feat) :=
  match find (fun p => String.eqb (fst p) x) tbl with Some p => Some (snd p) | None => None end.

(* Documented minimum of the entry points whose dispatcher has no base fallback: the AES
   headers (aes_gcm.h, aes_cbc.h, aes_keyexp.h: "@requires SSE4.1 and AESNI"; aes_xts.h:
   "@requires AES-NI") — AES-NI is baseline here, SSE4.1 is the explicit hypothesis. *)
Definition doc_min (entry : string) : list feat :=
  if String.prefix "_aes_" entry || String.prefix "_XTS_AES_" entry then [F_SSE4_1] else [].

Definition doc_min_okb (entry : string) (e : env) : bool := forallb (availb e) (doc_min entry).

Definition tree_of (d : dispatcher) : dtree := sexec (d_entry d) (d_code d).

Definition check_disp (tbl : list (string * list feat)) (d : dispatcher) : bool :=
  stub_ok d && check (requires_of tbl) (k_of_feats (doc_min (d_entry d))) (tree_of d).

(* same family for a group of dispatchers: every member (the first included, which makes its
   own family well defined) against the first *)
Definition group_ok (ds : list dispatcher) : bool :=
  match ds with
  | [] => true
  | d0 :: _ => forallb (fun d => agree (d_entry d0) (d_entry d) k0 (tree_of d0) (tree_of d)) ds
  end.

(* candidate counter-example for a dispatcher the checker rejects: the first path (in tree
   order, trying a few alternatives at the negative atoms) whose witness environment is
   consistent, meets the documented minimum and binds something not executable there *)
Definition refutes (tbl : list (string * list feat)) (d : dispatcher) (e : env) : bool :=
  consistentb e && doc_min_okb (d_entry d) e &&
  negb (bound_okb (requires_of tbl) e (exec (d_entry d) (d_code d) e)).

Definition candidates (d : dispatcher) : list env :=
  let k := k_of_feats (doc_min (d_entry d)) in
  flat_map (fun p => flat_map (fun pick => flat_map (fun soft =>
                        match witness soft pick k (fst p) with Some e => [e] | None => [] end) [true; false])
                              (seq 0 6))
           (paths (tree_of d)).

Definition counterexample (tbl : list (string * list feat)) (d : dispatcher) : option env :=
  find (refutes tbl d) (candidates d).

(* ------------------------------------------------------------------ the property's groups *)

(* entry points that operate on one shared object (C12): hash manager init/submit/flush per
   algorithm; GCM key precompute / init / update / finalize / one-shot per key size, the
   non-temporal variants included (they consume the same key data and context); multi-hash
   update/finalize per hash *)
Definition hash_group (a : string) : string * list string :=
  (String.append a "_mb manager",
   map (fun s => String.append "_" (String.append a (String.append "_ctx_mgr_" s))) ["init"; "submit"; "flush"]).
Definition gcm_group (ks : string) : string * list string :=
  (String.append "gcm " ks,
   map (fun s => String.append "_aes_gcm_" s)
     [String.append "precomp_" ks; String.append "init_" ks;
      String.append "enc_" ks; String.append "dec_" ks;
      String.append "enc_" (String.append ks "_update"); String.append "dec_" (String.append ks "_update");
      String.append "enc_" (String.append ks "_finalize"); String.append "dec_" (String.append ks "_finalize");
      String.append "enc_" (String.append ks "_nt"); String.append "dec_" (String.append ks "_nt");
      String.append "enc_" (String.append ks "_update_nt"); String.append "dec_" (String.append ks "_update_nt")]).
Definition mh_group (h : string) : string * list string :=
  (h, [String.append "_" (String.append h "_update"); String.append "_" (String.append h "_finalize")]).

Definition group_names : list (string * list string) :=
  map hash_group ["sha1"; "sha256"; "sha512"; "md5"; "sm3"] ++
  map gcm_group ["128"; "256"] ++
  map mh_group ["mh_sha1"; "mh_sha256"; "mh_sha1_murmur3_x64_128"].

Definition lookup (ds : list dispatcher) (name : string) : option dispatcher :=
  find (fun d => String.eqb (d_entry d) name) ds.
Fixpoint resolve (ds : list dispatcher) (names : list string) : option (list dispatcher) :=
  match names with
  | [] => Some []
  | n :: r => match lookup ds n, resolve ds r with
              | Some d, Some l => Some (d :: l)
              | _, _ => None
              end
  end.
Definition group_checked (ds : list dispatcher) (g : string * list string) : bool :=
  match resolve ds (snd g) with Some l => group_ok l | None => false end.

(* who touches the dispatch slots: a store only from the slot's own <entry>_dispatch_init, an
   indirect jump only from the slot's own stub, nothing else *)
Definition ref_ok (r : string * string * string * string) : bool :=
  let '(_, slot, kind, place) := r in
  let e := substring 0 (Nat.sub (String.length slot) 11) slot in
  String.eqb slot (String.append e "_dispatched") &&
  ((String.eqb kind "store" && String.eqb place (String.append e ":code")) ||
   (String.eqb kind "jmp" && String.eqb place (String.append e ":stub"))).

(* the dispatchers the checker does not accept, and whether each has a validated witness *)
Definition unsafe_of (tbl : list (string * list feat)) (ds : list dispatcher) : list dispatcher :=
  filter (fun d => negb (check_disp tbl d)) ds.
Definition has_witness (tbl : list (string * list feat)) (d : dispatcher) : bool :=
  match counterexample tbl d with Some _ => true | None => false end.
