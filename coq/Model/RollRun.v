(* L1 model of rolling_hash/rolling_hash2.c: same state fields, same three exit
   paths, same history refresh.  [scan] is _rolling_hash2_run_until_{base,00,04}
   (one semantics for the three families; the correspondence harness runs each). *)
From Coq Require Import NArith List Arith.
From ISAL Require Import Base.Words Base.ListUtil Spec.Rolling.
Import ListNotations.
Local Open Scope N_scope.

Section RollRun.
Variable T1 : N -> N.

Record rh_state := { rw : nat; rhash : N; rhist : list N }.

Definition max_window : nat := 48.

(* state->table2[i] = (v << w) | (v >> (64 - w)) *)
Definition T2 (w : nat) (b : N) : N := rol64 (T1 b) (N.of_nat w).

(* junk_h / junk_hist: what the hash and history fields held before (init does not
   define them) *)
Definition rh_init (junk_h : N) (junk_hist : list N) (w : nat) : option rh_state :=
  if (max_window <? w)%nat then None
  else Some {| rw := w; rhash := junk_h; rhist := junk_hist |}.

Definition rh_reset (s : rh_state) (init_bytes : list N) : rh_state :=
  {| rw := rw s;
     rhash := fold_left (fun h b => N.lxor (rol64 h 1) (T1 b)) (firstn (rw s) init_bytes) 0;
     rhist := firstn (rw s) init_bytes |}.

Definition hash_fn (w : nat) (h new old : N) : N :=
  N.lxor (rol64 h 1) (N.lxor (T1 new) (T2 w old)).

Inductive p1res :=
| P1Max (i : nat) (h : N)        (* ran out of buffer inside the first w bytes *)
| P1Hit (i : nat) (h : N)        (* hit inside the first w bytes; i already incremented *)
| P1Go  (i : nat) (h : N).       (* first w bytes consumed, no hit *)

(* for (i = 0; i < w; i++) — recursion over the not-yet-used part of history *)
Fixpoint phase1 (w : nat) (mask trig : N) (hrest brest : list N) (i : nat) (h : N) : p1res :=
  match hrest with
  | [] => P1Go i h
  | old :: hr =>
      match brest with
      | [] => P1Max i h
      | b :: br =>
          let h' := hash_fn w h b old in
          if hitb mask trig h' then P1Hit (S i) h'
          else phase1 w mask trig hr br (S i) h'
      end
  end.

(* _rolling_hash2_run_until: news = buffer[i..max), olds = (buffer - w)[i..);
   returns (idx, hash, hit?) with idx the index of the hitting byte, or max *)
Fixpoint scan (w : nat) (mask trig : N) (news olds : list N) (i : nat) (h : N) : nat * N * bool :=
  match news, olds with
  | b :: nr, o :: orr =>
      let h' := hash_fn w h b o in
      if hitb mask trig h' then (i, h', true)
      else scan w mask trig nr orr (S i) h'
  | _, _ => (i, h, false)
  end.

Definition rh_run (s : rh_state) (buf : list N) (mask trig : N) : rh_state * nat * verdict :=
  let w := rw s in
  match phase1 w mask trig (rhist s) buf 0 (rhash s) with
  | P1Max i h =>
      ({| rw := w; rhash := h; rhist := skipn i (rhist s) ++ firstn i buf |}, i, MAX)
  | P1Hit i h =>
      ({| rw := w; rhash := h; rhist := skipn i (rhist s) ++ firstn i buf |}, i, HIT)
  | P1Go i h =>
      let '(idx, h', hit) := scan w mask trig (skipn i buf) buf i h in
      (* the caller re-tests (hash & mask) == trigger on the returned hash *)
      if hitb mask trig h' then
        let j := S idx in
        ({| rw := w; rhash := h'; rhist := firstn w (skipn (j - w) buf) |}, j, HIT)
      else
        ({| rw := w; rhash := h'; rhist := firstn w (skipn (idx - w) buf) |}, idx, MAX)
  end.

(* the caller's loop: feed one segment, resuming after every hit; boundaries are
   reported as absolute stream positions.  fuel > length seg. *)
Fixpoint run_segment_f (fuel : nat) (s : rh_state) (seg : list N) (pos : nat) (mask trig : N)
  : rh_state * list nat :=
  match fuel with
  | O => (s, [])
  | S f =>
      let '(s', off, v) := rh_run s seg mask trig in
      match v with
      | MAX => (s', [])
      | HIT => let '(s'', bs) := run_segment_f f s' (skipn off seg) (pos + off) mask trig in
               (s'', (pos + off)%nat :: bs)
      end
  end.
Definition run_segment s seg pos mask trig := run_segment_f (S (length seg)) s seg pos mask trig.

Fixpoint run_stream (s : rh_state) (segs : list (list N)) (pos : nat) (mask trig : N)
  : rh_state * list nat :=
  match segs with
  | [] => (s, [])
  | seg :: rest =>
      let '(s', bs) := run_segment s seg pos mask trig in
      let '(s'', bs') := run_stream s' rest (pos + length seg) mask trig in
      (s'', bs ++ bs')
  end.

(* _rolling_hashx_mask_gen(long mean, int shift) *)
Definition floor_pow2 (x : N) : N := if x =? 0 then 0 else N.shiftl 1 (N.log2 x).
Definition mask_gen (mean shift : N) : N :=
  let m := if mean <=? 2 then 2 else mean in
  rol32 (w32 (floor_pow2 (w32 m) + N.ones 32)) shift.

End RollRun.
