(* The rolling-hash spec and model instantiated with the table regenerated from
   rolling_hash/rolling_hash2_table.h on every run. *)
From Coq Require Import NArith List.
From ISAL Require Import Base.Words Base.ListUtil Spec.Rolling Model.RollRun Gen.RollTableGen.
Import ListNotations.

Definition tbl (t : list N) (b : N) : N := nth (N.to_nat b) t 0%N.
Definition T1 : N -> N := tbl table.

Definition c_rh_init := rh_init.
Definition c_rh_reset := rh_reset T1.
Definition c_rh_run := rh_run T1.
Definition c_run_stream := run_stream T1.
Definition c_H := H T1.
Definition c_boundaries := boundaries T1.
Definition c_run_spec := run_spec T1.
