(* C17 — model of the FIPS self-test "run once" protocol at instruction level (definitions
   only, executable).

   The program is the instruction list that tr/selftest.py regenerates from the BUILT objects
   asm_self_tests.o (asm_check_self_tests_status, asm_set_self_tests_status) and self_tests.o
   (isal_self_tests): one machine instruction = one constructor, padding dropped, branch and
   call targets resolved to list indices.

   Shared state: the 32-bit word self_test_status (the only memory operand the translator
   accepts besides the thread's own stack) plus two ghost counters: runs (entries into
   _aes_self_tests) and fin (completions of _sha_self_tests = "the self-tests finished").
   Every instruction is one atomic step and touches the status word at most once, except a
   cmpxchg WITHOUT lock prefix, which is two steps (load; compare-and-write-back), so that a
   dropped `lock` is visible.  `lock cmpxchg` is one step.
   The two external self-test bodies are one abstract step each, returning the oracle values
   (a, s) in eax and clobbering the caller-saved registers.
   A thread that returned 0 from isal_self_tests then performs one abstract "crypto" step
   (this is the shape `if (isal_self_tests()) return ERR; <crypto>` of every isal_* wrapper;
   that shape is hand-modelled here and checked for the wrappers by C16). *)
From Coq Require Import NArith List Bool Arith.
From ISAL Require Import Base.ListUtil Model.SelfTestSys.
Import ListNotations.
Local Open Scope N_scope.

(* ------------------------------------------------------------------ the mini ISA *)

Inductive reg := RAX | RCX | RDX | RBX | RSP | RBP | RSI | RDI
               | R8 | R9 | R10 | R11 | R12 | R13 | R14 | R15.

Definition reg_idx (r : reg) : nat :=
  match r with
  | RAX => 0 | RCX => 1 | RDX => 2 | RBX => 3 | RSP => 4 | RBP => 5 | RSI => 6 | RDI => 7
  | R8 => 8 | R9 => 9 | R10 => 10 | R11 => 11 | R12 => 12 | R13 => 13 | R14 => 14 | R15 => 15
  end%nat.

Inductive src := SReg (r : reg) | SImm (n : N) | SMem.   (* SMem = dword [self_test_status] *)
Inductive dst := DReg (r : reg) | DMem.
Inductive aluop := OMov | OAnd | OOr | OXor | OAdd | OSub | OCmp | OTest.
Inductive cc := CE | CNE | CB | CAE | CBE | CA | CS | CNS | CL | CGE | CLE | CG.
Inductive ext := XAes | XSha.

Inductive instr :=
| IAlu (op : aluop) (d : dst) (s : src)   (* 32-bit; at most one memory operand; a memory
                                             destination only with mov/cmp/test *)
| IAlu8 (op : aluop) (d : reg) (s : src)  (* test/cmp on the LOW byte of d (al, cl, ..., r15b) against an
                                             imm8 or the low byte of a register; flags only *)
| IMov64 (d s : reg)                      (* mov r64, r64 *)
| ICmpxchg (locked : bool) (s : reg)      (* [status] vs eax; new value in s (32-bit) *)
| IXchg (s : reg)                         (* xchg [status], r32: atomic swap (implicitly locked) *)
| ISetcc (c : cc) (r : reg)               (* setcc r8 (low byte of r) *)
| IMovzx8 (d s : reg)                     (* movzx r32, r8 *)
| ICmov (c : cc) (d s : reg)              (* cmovcc r32, r32 *)
| IJcc (c : cc) (tgt : nat)
| IJmp (tgt : nat)
| ICall (tgt : nat)
| ICallExt (x : ext)
| IRet
| IPush (r : reg)
| IPop (r : reg)
| IStackAdj (down : bool) (k : nat)       (* sub/add rsp, 8*k *)
| IPause.

(* ------------------------------------------------------------------ machine state *)

Definition M32 : N := 4294967296.
Definition w32 (x : N) : N := x mod M32.
Definition bit31 (x : N) : bool := N.testbit x 31.
Definition JUNK : N := 3735928559.        (* 0xdeadbeef: what a clobbered register holds *)

Definition ST_OK : N := 0.
Definition ST_FAIL : N := 1.
Definition ST_NOT_DONE : N := 2.
Definition ST_RUNNING : N := 3.

Inductive phase := PRun | PRet (v : N) | PCrypto | PFault.

Record tstate := mkT {
  pc : nat;
  regs : list N;          (* 16 registers *)
  zf : bool; cf : bool; sf : bool; ovf : bool;
  stk : list N;           (* the thread's own stack: return indices and saved registers *)
  utmp : option N;        (* Some v: between the two steps of an unlocked cmpxchg, v = value loaded *)
  own : bool;             (* ghost: this thread moved status to RUNNING and has not yet moved it away *)
  ph : phase
}.

Record gst := mkG { status : N; runs : nat; fin : nat }.

Definition getr (t : tstate) (r : reg) : N := nth (reg_idx r) (regs t) 0.
Definition setr (t : tstate) (r : reg) (v : N) : tstate :=
  mkT (pc t) (upd (reg_idx r) v (regs t)) (zf t) (cf t) (sf t) (ovf t) (stk t) (utmp t) (own t) (ph t).
Definition set_pc (t : tstate) (p : nat) : tstate :=
  mkT p (regs t) (zf t) (cf t) (sf t) (ovf t) (stk t) (utmp t) (own t) (ph t).
Definition set_flags (t : tstate) (z c s o : bool) : tstate :=
  mkT (pc t) (regs t) z c s o (stk t) (utmp t) (own t) (ph t).
Definition set_stk (t : tstate) (k : list N) : tstate :=
  mkT (pc t) (regs t) (zf t) (cf t) (sf t) (ovf t) k (utmp t) (own t) (ph t).
Definition set_utmp (t : tstate) (u : option N) : tstate :=
  mkT (pc t) (regs t) (zf t) (cf t) (sf t) (ovf t) (stk t) u (own t) (ph t).
Definition set_own (t : tstate) (b : bool) : tstate :=
  mkT (pc t) (regs t) (zf t) (cf t) (sf t) (ovf t) (stk t) (utmp t) b (ph t).
Definition set_ph (t : tstate) (p : phase) : tstate :=
  mkT (pc t) (regs t) (zf t) (cf t) (sf t) (ovf t) (stk t) (utmp t) (own t) p.
Definition next (t : tstate) : tstate := set_pc t (S (pc t)).

Definition set_status (g : gst) (v : N) : gst := mkG (w32 v) (runs g) (fin g).

Definition cond (t : tstate) (c : cc) : bool :=
  match c with
  | CE => zf t | CNE => negb (zf t)
  | CB => cf t | CAE => negb (cf t)
  | CBE => cf t || zf t | CA => negb (cf t) && negb (zf t)
  | CS => sf t | CNS => negb (sf t)
  | CL => xorb (sf t) (ovf t) | CGE => negb (xorb (sf t) (ovf t))
  | CLE => zf t || xorb (sf t) (ovf t) | CG => negb (zf t) && negb (xorb (sf t) (ovf t))
  end.

(* result and flags (zf, cf, sf, of) of a 32-bit ALU operation on a, b (both < 2^32) *)
Definition alu (op : aluop) (a b : N) : N * (bool * bool * bool * bool) :=
  let logic r := (r, (r =? 0, false, bit31 r, false)) in
  match op with
  | OMov => (b, (false, false, false, false))
  | OAnd | OTest => logic (N.land a b)
  | OOr => logic (N.lor a b)
  | OXor => logic (N.lxor a b)
  | OAdd => let r := w32 (a + b) in
            (r, (r =? 0, M32 <=? a + b, bit31 r, negb (xorb (bit31 a) (bit31 b)) && xorb (bit31 a) (bit31 r)))
  | OSub | OCmp => let r := w32 (a + M32 - b) in
            (r, (r =? 0, a <? b, bit31 r, xorb (bit31 a) (bit31 b) && xorb (bit31 a) (bit31 r)))
  end.

(* flags of an 8-bit test / cmp (a, b < 2^8) *)
Definition bit7 (x : N) : bool := N.testbit x 7.
Definition alu8 (op : aluop) (a b : N) : option (bool * bool * bool * bool) :=
  match op with
  | OTest => let r := N.land a b in Some (r =? 0, false, bit7 r, false)
  | OCmp => let r := (a + 256 - b) mod 256 in
            Some (r =? 0, a <? b, bit7 r, xorb (bit7 a) (bit7 b) && xorb (bit7 a) (bit7 r))
  | _ => None
  end.

Definition caller_saved : list reg := [RCX; RDX; RSI; RDI; R8; R9; R10; R11].
Definition clobber (t : tstate) : tstate := fold_left (fun t r => setr t r JUNK) caller_saved t.

Definition fault (t : tstate) : tstate := set_ph t PFault.

(* One atomic step of a thread in phase PRun at instruction i.  o = (a, s): what the two
   self-test bodies return. *)
Definition istep (o : N * N) (i : instr) (g : gst) (t : tstate) : gst * tstate :=
  match i with
  | IAlu op d s =>
      let b := match s with SReg r => w32 (getr t r) | SImm n => w32 n | SMem => status g end in
      let a := match d with DReg r => w32 (getr t r) | DMem => status g end in
      let '(r, (z, c, s', o')) := alu op a b in
      let t1 := match op with OMov => t | _ => set_flags t z c s' o' end in
      match op, d with
      | (OCmp | OTest), _ => (g, next t1)
      | _, DReg rd => (g, next (setr t1 rd r))
      | OMov, DMem => (set_status g r, next t1)
      | _, DMem => (g, fault t)
      end
  | IAlu8 op d s =>
      let a := N.land (getr t d) 255 in
      match (match s with SReg r => Some (N.land (getr t r) 255) | SImm n => Some (N.land n 255) | SMem => None end) with
      | Some b => match alu8 op a b with
                  | Some (z, c, s', o') => (g, next (set_flags t z c s' o'))
                  | None => (g, fault t)
                  end
      | None => (g, fault t)
      end
  | IMov64 d s => (g, next (setr t d (getr t s)))
  | ICmpxchg true s =>
      let '(_, (z, c, s', o')) := alu OCmp (w32 (getr t RAX)) (status g) in
      let t1 := set_flags t z c s' o' in
      if z then (set_status g (getr t s), next t1)
      else (g, next (setr t1 RAX (status g)))
  | ICmpxchg false s =>
      match utmp t with
      | None => (g, set_utmp t (Some (status g)))
      | Some v =>
          let '(_, (z, c, s', o')) := alu OCmp (w32 (getr t RAX)) v in
          let t1 := set_flags (set_utmp t None) z c s' o' in
          if z then (set_status g (getr t s), next t1)
          else (set_status g v, next (setr t1 RAX v))
      end
  | IXchg s => (set_status g (getr t s), next (setr t s (status g)))
  | ISetcc c r =>
      let old := getr t r in
      (g, next (setr t r (N.lor (N.land old (N.lnot 255 64)) (if cond t c then 1 else 0))))
  | IMovzx8 d s => (g, next (setr t d (N.land (getr t s) 255)))
  | ICmov c d s => (g, next (setr t d (w32 (if cond t c then getr t s else getr t d))))
  | IJcc c tgt => (g, if cond t c then set_pc t tgt else next t)
  | IJmp tgt => (g, set_pc t tgt)
  | ICall tgt => (g, set_pc (set_stk t (N.of_nat (S (pc t)) :: stk t)) tgt)
  | ICallExt XAes => (mkG (status g) (S (runs g)) (fin g), next (setr (clobber t) RAX (w32 (fst o))))
  | ICallExt XSha => (mkG (status g) (runs g) (S (fin g)), next (setr (clobber t) RAX (w32 (snd o))))
  | IRet =>
      match stk t with
      | [] => (g, set_ph t (PRet (w32 (getr t RAX))))
      | r :: k => (g, set_pc (set_stk t k) (N.to_nat r))
      end
  | IPush r => (g, next (set_stk t (getr t r :: stk t)))
  | IPop r =>
      match stk t with
      | [] => (g, fault t)
      | v :: k => (g, next (setr (set_stk t k) r v))
      end
  | IStackAdj true k => (g, next (set_stk t (repeat JUNK k ++ stk t)))
  | IStackAdj false k =>
      if (k <=? length (stk t))%nat then (g, next (set_stk t (skipn k (stk t)))) else (g, fault t)
  | IPause => (g, next t)
  end.

(* ghost ownership follows the transitions of the status word into / out of RUNNING *)
Definition track_own (g g' : gst) (t : tstate) : tstate :=
  if negb (status g =? ST_RUNNING) && (status g' =? ST_RUNNING) then set_own t true
  else if (status g =? ST_RUNNING) && negb (status g' =? ST_RUNNING) then set_own t false
  else t.

Definition tstep (p : list instr) (o : N * N) (g : gst) (t : tstate) : gst * tstate :=
  match ph t with
  | PRun =>
      match nth_error p (pc t) with
      | None => (g, fault t)
      | Some i => let '(g', t') := istep o i g t in (g', track_own g g' t')
      end
  | PRet v => if v =? 0 then (g, set_ph t PCrypto) else (g, t)
  | PCrypto => (g, t)
  | PFault => (g, t)
  end.

Definition t0 (entry : nat) : tstate :=
  mkT entry (repeat 0 16) false false false false [] None false PRun.
Definition g0 (init_status : N) : gst := mkG init_status 0 0.

Definition st_sys := @sys gst tstate.
Definition st_init (init_status : N) (entry n : nat) : st_sys := sinit (g0 init_status) (t0 entry) n.
Definition st_exec (p : list instr) (o : N * N) (s : st_sys) (sch : list nat) : st_sys :=
  sexec (tstep p o) s sch.

(* ------------------------------------------------------------------ what the property says, as
   decidable predicates on a state (used by the theorems AND by the schedule explorer) *)

Definition pass (o : N * N) : bool := N.lor (w32 (fst o)) (w32 (snd o)) =? 0.
Definition returned (t : tstate) : option N :=
  match ph t with PRet v => Some v | _ => None end.
Definition did_crypto (t : tstate) : bool := match ph t with PCrypto => true | _ => false end.
(* returned, possibly already past the crypto step *)
Definition retd (t : tstate) : bool :=
  match ph t with PRet _ | PCrypto => true | _ => false end.
Definition faulted (t : tstate) : bool := match ph t with PFault => true | _ => false end.

(* errv = ISAL_CRYPTO_ERR_SELF_TEST from the header *)
Definition thread_ok (errv : N) (o : N * N) (g : gst) (t : tstate) : bool :=
  match ph t with
  | PRun => true
  | PRet v => (runs g =? 1)%nat && (fin g =? 1)%nat && (v =? (if pass o then 0 else errv))
  | PCrypto => (runs g =? 1)%nat && (fin g =? 1)%nat && pass o
  | PFault => false
  end.

(* S1-S3 on one global state; None = fine, Some k = which clause fails *)
Definition safety_violation (errv : N) (o : N * N) (s : st_sys) : option nat :=
  if negb (runs (sg s) <=? 1)%nat then Some 1%nat
  else if negb (fin (sg s) <=? runs (sg s))%nat then Some 1%nat
  else if existsb faulted (sths s) then Some 4%nat
  else if existsb (fun t => match ph t with PRet _ => negb (thread_ok errv o (sg s) t) | _ => false end) (sths s) then Some 2%nat
  else if existsb (fun t => match ph t with PCrypto => negb (thread_ok errv o (sg s) t) | _ => false end) (sths s) then Some 3%nat
  else None.

Definition all_retd (s : st_sys) : bool := forallb retd (sths s).

(* ------------------------------------------------------------------ decidable equalities *)

Definition phase_eqb (a b : phase) : bool :=
  match a, b with
  | PRun, PRun | PCrypto, PCrypto | PFault, PFault => true
  | PRet x, PRet y => x =? y
  | _, _ => false
  end.
Definition optN_eqb (a b : option N) : bool :=
  match a, b with
  | None, None => true
  | Some x, Some y => x =? y
  | _, _ => false
  end.
Fixpoint listN_eqb (a b : list N) : bool :=
  match a, b with
  | [], [] => true
  | x :: a', y :: b' => (x =? y) && listN_eqb a' b'
  | _, _ => false
  end.
Definition tstate_eqb (a b : tstate) : bool :=
  (pc a =? pc b)%nat && listN_eqb (regs a) (regs b) && eqb (zf a) (zf b) && eqb (cf a) (cf b)
  && eqb (sf a) (sf b) && eqb (ovf a) (ovf b) && listN_eqb (stk a) (stk b)
  && optN_eqb (utmp a) (utmp b) && eqb (own a) (own b) && phase_eqb (ph a) (ph b).
Definition gst_eqb (a b : gst) : bool :=
  (status a =? status b) && (runs a =? runs b)%nat && (fin a =? fin b)%nat.

(* ------------------------------------------------------------------ the translated self-test
   bodies' return values (from the clang AST): which values can _aes_self_tests / _sha_self_tests
   hand to isal_self_tests *)

(* a return expression, as far as its VALUE SET matters *)
Inductive rexp :=
| ELit (n : N)                       (* integer literal (32-bit two's complement) *)
| EBool                              (* result of a comparison or of a logical operator: 0 or 1 *)
| ECall (f : nat)                    (* result of calling function number f of the table *)
| EOr (a b : rexp)                   (* a | b *)
| ECond (a b : rexp)                 (* c ? a : b *)
| EVar (inits ors : list rexp)       (* a local variable: assigned one of `inits` (v = e, initialiser),
                                        then any number of v |= e with e among `ors` *)
| EUnknown.

Inductive retshape :=
| RExps (l : list rexp)              (* the function returns one of these expressions *)
| RUnknown.

Definition opt_union (l : list (option (list N))) : option (list N) :=
  fold_right (fun x acc => match x, acc with Some a, Some b => Some (nodup N.eq_dec (a ++ b)) | _, _ => None end) (Some []) l.
Definition or_sets (a b : list N) : list N := nodup N.eq_dec (flat_map (fun x => map (fun y => N.lor x y) b) a).

Fixpoint rexp_vals (fuel : nat) (tab : list retshape) (e : rexp) : option (list N) :=
  match fuel with
  | O => None
  | S k =>
      match e with
      | ELit n => Some [w32 n]
      | EBool => Some [0; 1]
      | ECall f => match nth_error tab f with
                   | Some (RExps l) => match l with [] => None | _ => opt_union (map (rexp_vals k tab) l) end
                   | _ => None
                   end
      | EOr a b => match rexp_vals k tab a, rexp_vals k tab b with
                   | Some x, Some y => Some (or_sets x y)
                   | _, _ => None
                   end
      | ECond a b => opt_union [rexp_vals k tab a; rexp_vals k tab b]
      | EVar inits ors =>
          match inits with
          | [] => None
          | _ => match opt_union (map (rexp_vals k tab) inits), opt_union (map (rexp_vals k tab) ors) with
                 | Some i, Some o =>
                     (* closure under x |-> x | y, y in o: |o| + 1 rounds suffice (OR is idempotent) *)
                     Some (fold_left (fun acc _ => nodup N.eq_dec (acc ++ or_sets acc o)) o i)
                 | _, _ => None
                 end
          end
      | EUnknown => None
      end
  end.

Definition ret_values (fuel : nat) (tab : list retshape) (f : nat) : option (list N) :=
  rexp_vals fuel tab (ECall f).

Definition boolean_verdicts (vs : option (list N)) : bool :=
  match vs with
  | Some l => forallb (fun v => (v =? 0) || (v =? 1)) l
  | None => false
  end.
