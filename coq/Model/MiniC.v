(* MiniC — deep embedding of the C subset the isal_* / legacy wrapper bodies are written in,
   and its big-step semantics over an abstract world.  (C13, C16.)  No proofs in this file.

   One source construct = one constructor (tr/wrappers.py fails closed on anything else).

   Values are bit patterns (N) at the width of their C type.  Everything a wrapper cannot
   know statically is a *key* of the world:
     KArg i        the i-th argument of the entry point (pointer: 0 = NULL; scalar: its value)
     KStatus       what asm_check_self_tests_status() returns
     KExt f n      what the n-th call of the external (not translated) function f returns
     KMemcmp a oa b ob n   what memcmp(pa + oa, pb + ob, n) returns for the pointers pa, pb held
                   by keys a, b
     KLoad k f e   what a load of field f (0 = plain dereference) through the pointer held by
                   key k yields, at effect-epoch e (number of stores / external calls so far)
     KGlobal g     the value of a file-scope variable
     KEq a b       1 if the values held by keys a and b are equal, else 0 (a comparison of two
                   unknowns is an observation of its own; the worlds of interest satisfy
                   w (KEq a b) = 1 <-> w a = w b, and every theorem holds for all worlds)
   A world is a function  skey -> N.  The semantics is given in two stages, both executable:
     entry_tree  executes a body *symbolically* (values are terms over keys), forking at every
                 decision, and yields a decision tree whose leaves carry (return value, trace);
     run w       walks that tree under the world w (eval_tree).
   So `run w f` is the big-step result (return value, trace of effects) of f in world w. *)
From Coq Require Import NArith ZArith List Bool.
Import ListNotations.
Local Open Scope N_scope.

(* ------------------------------------------------------------------ syntax *)

Inductive cty := CInt (bits : N) (sg : bool) | CPtr | CVoid.
Inductive unop := ONeg | OBNot.
Inductive binop := OAdd | OSub | OMul | OShl | OShr | OAnd | OOr | OXor | ODiv | ORem.
Inductive cmpop := CEq | CNe | CLt | CLe | CGt | CGe.

Inductive expr :=
| EConst (n : N)                                  (* integer literal / enum constant, as a bit pattern *)
| EVar (x : N)                                    (* rvalue of parameter or local number x *)
| EGlobal (g : N)                                 (* rvalue of a file-scope variable *)
| EUn (op : unop) (t : cty) (a : expr)
| EBin (op : binop) (t : cty) (a b : expr)        (* t: result type *)
| ECmp (op : cmpop) (t : cty) (a b : expr)        (* t: operand type; yields 0/1 *)
| ELNot (a : expr)
| ELAnd (a b : expr)                              (* short-circuit *)
| ELOr (a b : expr)
| ECond (c a b : expr)                            (* c ? a : b *)
| ECast (from to : cty) (a : expr)
| EDeref (p : expr)                               (* load  *p *)
| EMember (p : expr) (f : N)                      (* load  p->f *)
| EPtrAdd (p : expr) (i : expr)                   (* p + i on a pointer to bytes *)
| ECall (f : N) (args : list expr).

Inductive stmt :=
| SSkip
| SSeq (a b : stmt)
| SExpr (e : expr)
| SDecl (x : N)                                   (* declaration without initialiser *)
| SSet (x : N) (e : expr)                         (* x = e  (also declaration with initialiser) *)
| SSetOp (op : binop) (t : cty) (x : N) (e : expr)  (* x op= e *)
| SStore (p : expr) (e : expr)                    (* *p = e *)
| SStoreMember (p : expr) (f : N) (e : expr)      (* p->f = e *)
| SIf (c : expr) (t e : stmt)
| SSwitch (t : cty) (e : expr) (arms : list (list N * stmt)) (dflt : stmt)
                                                  (* switch: each arm = its case constants and the statements
                                                     from its label to the end of the switch body (fall-through
                                                     written out); dflt likewise from the default label *)
| SBreak
| SOnce (body : stmt)                             (* do { body } while (0) *)
| SReturn (e : expr)
| SReturnVoid
| SOpaque (kind : N) (clobbers : list N).         (* a loop: arbitrary effects; assigned variables are forgotten *)

Record fundef := { f_id : N; f_params : list cty; f_ret : cty; f_body : stmt }.

(* function identifiers fixed by the translator for the functions the semantics knows *)
Definition B_MEMCMP : N := 1.
Definition B_EXPECT : N := 2.       (* __builtin_expect *)
Definition B_CHECK : N := 3.        (* asm_check_self_tests_status *)
Definition B_SET : N := 4.          (* asm_set_self_tests_status *)

(* ------------------------------------------------------------------ symbolic values, worlds *)

Inductive skey :=
| KArg (i : N) | KStatus | KGlobal (g : N) | KExt (f n : N)
| KMemcmp (a : skey) (oa : N) (b : skey) (ob : N) (n : N) | KLoad (k : skey) (f e : N)
| KEq (a b : skey).

Inductive sval :=
| SConst (n : N) | SKey (k : skey)
| SUn (op : unop) (t : cty) (a : sval)
| SBin (op : binop) (t : cty) (a b : sval)
| SCmp (op : cmpop) (t : cty) (a b : sval)
| SCast (from to : cty) (a : sval).

Definition world := skey -> N.

Definition width (t : cty) : N := match t with CInt b _ => b | _ => 64 end.
Definition signed (t : cty) : bool := match t with CInt _ s => s | _ => false end.
Definition norm (t : cty) (n : N) : N := n mod 2 ^ width t.
Definition sgn (t : cty) (n : N) : Z :=
  let n := norm t n in
  if signed t && (2 ^ (width t - 1) <=? n) then (Z.of_N n - Z.of_N (2 ^ width t))%Z else Z.of_N n.
Definition ofZ (t : cty) (z : Z) : N := Z.to_N (z mod Z.of_N (2 ^ width t)).

Definition un_n (op : unop) (t : cty) (a : N) : N :=
  match op with
  | ONeg => ofZ t (- sgn t a)
  | OBNot => 2 ^ width t - 1 - norm t a
  end.
Definition bin_n (op : binop) (t : cty) (a b : N) : N :=
  match op with
  | OAdd => norm t (a + b)
  | OSub => ofZ t (sgn t a - sgn t b)
  | OMul => norm t (a * b)
  | OShl => norm t (N.shiftl a b)
  | OShr => ofZ t (Z.shiftr (sgn t a) (Z.of_N b))
  | OAnd => N.land a b          (* bitwise operations keep in-range patterns in range *)
  | OOr => N.lor a b
  | OXor => N.lxor a b
  | ODiv => if signed t then ofZ t (Z.quot (sgn t a) (sgn t b)) else norm t a / norm t b
  | ORem => if signed t then ofZ t (Z.rem (sgn t a) (sgn t b)) else norm t a mod norm t b
  end.
(* equality compares the patterns; order compares the patterns at unsigned types and the
   two's-complement values at signed types *)
Definition cmp_b (op : cmpop) (t : cty) (a b : N) : bool :=
  match op with
  | CEq => a =? b | CNe => negb (a =? b)
  | _ =>
    if signed t then
      let x := sgn t a in let y := sgn t b in
      match op with
      | CLt => (x <? y)%Z | CLe => (x <=? y)%Z | CGt => (y <? x)%Z | _ => (y <=? x)%Z
      end
    else
      match op with
      | CLt => a <? b | CLe => a <=? b | CGt => b <? a | _ => b <=? a
      end
  end.
Definition b2n (b : bool) : N := if b then 1 else 0.
Definition cast_n (from to : cty) (a : N) : N := ofZ to (sgn from a).

Fixpoint eval (w : world) (v : sval) : N :=
  match v with
  | SConst n => n
  | SKey k => w k
  | SUn op t a => un_n op t (eval w a)
  | SBin op t a b => bin_n op t (eval w a) (eval w b)
  | SCmp op t a b => b2n (cmp_b op t (eval w a) (eval w b))
  | SCast f t a => cast_n f t (eval w a)
  end.
Definition truth (w : world) (v : sval) : bool := negb (eval w v =? 0).

(* smart constructors: constant folding, and removal of casts that keep the bit pattern
   (pointer <-> pointer, same width, zero extension) *)
Definition keeps_pattern (from to : cty) : bool :=
  (width from =? width to) || ((width from <? width to) && negb (signed from)).
Definition mk_cast (from to : cty) (a : sval) : sval :=
  match a with
  | SConst n => SConst (cast_n from to n)
  | _ => if keeps_pattern from to then a else SCast from to a
  end.
Definition mk_un (op : unop) (t : cty) (a : sval) : sval :=
  match a with SConst n => SConst (un_n op t n) | _ => SUn op t a end.
(* x % 2^j on an unsigned type is x & (2^j - 1): one form for both spellings *)
Definition is_pow2 (m : N) : bool := negb (m =? 0) && (N.land m (m - 1) =? 0).
Definition mk_bin (op : binop) (t : cty) (a b : sval) : sval :=
  match a, b with
  | SConst x, SConst y => SConst (bin_n op t x y)
  | _, SConst m =>
      match op with
      | ORem => if negb (signed t) && is_pow2 m then SBin OAnd t a (SConst (m - 1)) else SBin op t a b
      | _ => SBin op t a b
      end
  | _, _ => SBin op t a b
  end.
Definition flip (op : cmpop) : cmpop :=
  match op with CEq => CEq | CNe => CNe | CLt => CGt | CLe => CGe | CGt => CLt | CGe => CLe end.
Definition is_eqne (op : cmpop) : bool := match op with CEq | CNe => true | _ => false end.
Definition mk_cmp (op : cmpop) (t : cty) (a b : sval) : sval :=
  match a, b with
  | SConst x, SConst y => SConst (b2n (cmp_b op t x y))
  | SKey k1, SKey k2 =>
      match op with
      | CEq => SCmp CNe (CInt 32 true) (SKey (KEq k1 k2)) (SConst 0)
      | CNe => SCmp CEq (CInt 32 true) (SKey (KEq k1 k2)) (SConst 0)
      | _ => SCmp op t a b
      end
  | SConst _, _ => SCmp (flip op) t b a            (* constant to the right *)
  | SCast f t' v, SConst 0 =>
      (* a non-truncating cast is zero iff its operand is *)
      if is_eqne op && (width f <=? width t') then SCmp op f v (SConst 0) else SCmp op t a b
  | _, _ => SCmp op t a b
  end.

(* ------------------------------------------------------------------ traces, trees *)

Inductive event :=
| EvRead (k : skey)                              (* load / memcmp operand read through the pointer held by k *)
| EvWrite (k : skey) (f : N) (v : sval)          (* store through the pointer held by k *)
| EvCall (f : N) (args : list sval)              (* call of an external (internal-to-the-library) symbol *)
| EvEnter (f : N) (args : list sval)             (* call of a translated function: its body's events follow *)
| EvOpaque (kind : N).                           (* a loop ran: arbitrary reads and writes *)

Inductive dtree :=
| Leaf (ret : option sval) (tr : list event)
| Node (c : sval) (t f : dtree)
| Stuck (why : N).

Definition mkNode (c : sval) (t f : dtree) : dtree :=
  match c with SConst n => if n =? 0 then f else t | _ => Node c t f end.

(* A decision on  (x - c1) op c2  at an unsigned type (the one-comparison range test
   `len - MIN > MAX - MIN`): split on whether the subtraction wraps, so that every decision of
   the tree compares the unknown itself with a constant.
     x >= c1:  x - c1 op c2        <->  x op c1 + c2
     x <  c1:  x - c1 = x + d, d = 2^w - c1;  x + d op c2  <->  x op c2 - d  when d <= c2,
               and x + d >= d > c2 otherwise *)
Definition cnode (c : sval) (t f : dtree) : dtree :=
  match c with
  | SCmp op ty (SBin OSub ty' (SKey k) (SConst c1)) (SConst c2) =>
      if negb (signed ty) && negb (signed ty') && (width ty =? width ty') &&
         (c1 <? 2 ^ width ty) && (c2 <? 2 ^ width ty) && negb (c1 =? 0) then
        let d := 2 ^ width ty - c1 in
        Node (SCmp CLt ty (SKey k) (SConst c1))
             (if d <=? c2 then mkNode (SCmp op ty (SKey k) (SConst (c2 - d))) t f
              else match op with CGt | CGe | CNe => t | _ => f end)
             (mkNode (SCmp op ty (SKey k) (SConst (c1 + c2))) t f)
      else mkNode c t f
  | _ => mkNode c t f
  end.

Fixpoint eval_tree (w : world) (t : dtree) : dtree :=
  match t with
  | Node c a b => if truth w c then eval_tree w a else eval_tree w b
  | _ => t
  end.

(* ------------------------------------------------------------------ execution *)

Record state := { tr : list event;                       (* reversed *)
                  mem : list (skey * N * sval);           (* what this call itself stored *)
                  stat : option sval }.                   (* status set by asm_set_self_tests_status *)
Definition st0 : state := {| tr := []; mem := []; stat := None |}.
Definition emit (e : event) (s : state) : state := {| tr := e :: tr s; mem := mem s; stat := stat s |}.

Fixpoint skey_eqb (a b : skey) : bool :=
  match a, b with
  | KArg i, KArg j => i =? j
  | KStatus, KStatus => true
  | KGlobal g, KGlobal h => g =? h
  | KExt f n, KExt g m => (f =? g) && (n =? m)
  | KMemcmp a1 o1 b1 p1 n, KMemcmp a2 o2 b2 p2 m =>
      skey_eqb a1 a2 && (o1 =? o2) && skey_eqb b1 b2 && (p1 =? p2) && (n =? m)
  | KLoad k f e, KLoad k' f' e' => skey_eqb k k' && (f =? f') && (e =? e')
  | KEq a1 b1, KEq a2 b2 => skey_eqb a1 a2 && skey_eqb b1 b2
  | _, _ => false
  end.

Definition is_effect (e : event) : bool :=
  match e with EvWrite _ _ _ | EvCall _ _ | EvOpaque _ => true | _ => false end.
Definition epoch (s : state) : N := N.of_nat (length (filter is_effect (tr s))).
Definition ncalls (f : N) (s : state) : N :=
  N.of_nat (length (filter (fun e => match e with EvCall g _ => g =? f | _ => false end) (tr s))).

Fixpoint mem_get (m : list (skey * N * sval)) (k : skey) (f : N) : option sval :=
  match m with
  | [] => None
  | (k', f', v) :: r => if skey_eqb k k' && (f =? f') then Some v else mem_get r k f
  end.

Definition load (k : skey) (f : N) (s : state) : sval * state :=
  let s' := emit (EvRead k) s in
  match mem_get (mem s) k f with
  | Some v => (v, s')
  | None => (SKey (KLoad k f (epoch s)), s')
  end.
Definition store (k : skey) (f : N) (v : sval) (s : state) : state :=
  {| tr := EvWrite k f v :: tr s; mem := (k, f, v) :: mem s; stat := stat s |}.

Definition env := list (N * sval).
Fixpoint env_get (e : env) (x : N) : option sval :=
  match e with [] => None | (y, v) :: r => if x =? y then Some v else env_get r x end.
Definition env_set (e : env) (x : N) (v : sval) : env := (x, v) :: e.
Definition env_del (e : env) (xs : list N) : env :=
  filter (fun p => negb (existsb (N.eqb (fst p)) xs)) e.

Definition kont := sval -> state -> dtree.

(* why-codes of Stuck *)
Definition W_UNBOUND : N := 1.   Definition W_NOTPTR : N := 2.   Definition W_FUEL : N := 3.
Definition W_BUILTIN : N := 4.   Definition W_ARITY : N := 5.   Definition W_BREAK : N := 6.

(* a pointer value: the pointer held by a key, plus a constant byte offset *)
Definition as_ptr (v : sval) : option (skey * N) :=
  match v with
  | SKey k => Some (k, 0)
  | SBin OAdd CPtr (SKey k) (SConst o) => Some (k, o)
  | _ => None
  end.
(* memcmp is symmetric: its key lists the operand with the smaller argument number first *)
Definition memcmp_key (a : skey) (oa : N) (b : skey) (ob : N) (n : N) : skey :=
  match a, b with
  | KArg i, KArg j => if j <? i then KMemcmp b ob a oa n else KMemcmp a oa b ob n
  | _, _ => KMemcmp a oa b ob n
  end.

Section Exec.
  Variable call : N -> list sval -> state -> kont -> dtree.

  Fixpoint ev (e : expr) (en : env) (s : state) (k : kont) {struct e} : dtree :=
    match e with
    | EConst n => k (SConst n) s
    | EVar x => match env_get en x with Some v => k v s | None => Stuck W_UNBOUND end
    | EGlobal g => k (SKey (KGlobal g)) s
    | EUn op t a => ev a en s (fun va s1 => k (mk_un op t va) s1)
    | EBin op t a b => ev a en s (fun va s1 => ev b en s1 (fun vb s2 => k (mk_bin op t va vb) s2))
    | ECmp op t a b => ev a en s (fun va s1 => ev b en s1 (fun vb s2 => k (mk_cmp op t va vb) s2))
    | ELNot a => ev a en s (fun va s1 => cnode va (k (SConst 0) s1) (k (SConst 1) s1))
    | ELAnd a b => ev a en s (fun va s1 =>
                     cnode va (ev b en s1 (fun vb s2 => cnode vb (k (SConst 1) s2) (k (SConst 0) s2)))
                               (k (SConst 0) s1))
    | ELOr a b => ev a en s (fun va s1 =>
                     cnode va (k (SConst 1) s1)
                               (ev b en s1 (fun vb s2 => cnode vb (k (SConst 1) s2) (k (SConst 0) s2))))
    | ECond c a b => ev c en s (fun vc s1 => cnode vc (ev a en s1 k) (ev b en s1 k))
    | ECast f t a => ev a en s (fun va s1 => k (mk_cast f t va) s1)
    | EDeref p => ev p en s (fun vp s1 =>
                     match vp with
                     | SKey kp => let '(v, s2) := load kp 0 s1 in k v s2
                     | _ => Stuck W_NOTPTR end)
    | EMember p f => ev p en s (fun vp s1 =>
                     match vp with
                     | SKey kp => let '(v, s2) := load kp f s1 in k v s2
                     | _ => Stuck W_NOTPTR end)
    | EPtrAdd p i => ev p en s (fun vp s1 => ev i en s1 (fun vi s2 =>
                     match as_ptr vp, vi with
                     | Some (kp, o), SConst d => k (SBin OAdd CPtr (SKey kp) (SConst (o + d))) s2
                     | _, _ => Stuck W_NOTPTR end))
    | ECall f args =>
        (fix evs (l : list expr) (acc : list sval) (s : state) (kk : list sval -> state -> dtree) : dtree :=
           match l with
           | [] => kk (rev acc) s
           | a :: r => ev a en s (fun v s1 => evs r (v :: acc) s1 kk)
           end) args [] s (fun vs s1 => call f vs s1 k)
    end.

  (* kn: continuation on falling through; kb: on break; kr: on return *)
  Fixpoint ex (c : stmt) (en : env) (s : state) (kn kb : env -> state -> dtree)
           (kr : option sval -> state -> dtree) {struct c} : dtree :=
    match c with
    | SSkip => kn en s
    | SSeq a b => ex a en s (fun en1 s1 => ex b en1 s1 kn kb kr) kb kr
    | SExpr e => ev e en s (fun _ s1 => kn en s1)
    | SDecl x => kn (env_del en [x]) s
    | SSet x e => ev e en s (fun v s1 => kn (env_set en x v) s1)
    | SSetOp op t x e =>
        match env_get en x with
        | Some vx => ev e en s (fun v s1 => kn (env_set en x (mk_bin op t vx v)) s1)
        | None => Stuck W_UNBOUND
        end
    | SStore p e => ev p en s (fun vp s1 => ev e en s1 (fun v s2 =>
                      match vp with SKey kp => kn en (store kp 0 v s2) | _ => Stuck W_NOTPTR end))
    | SStoreMember p f e => ev p en s (fun vp s1 => ev e en s1 (fun v s2 =>
                      match vp with SKey kp => kn en (store kp f v s2) | _ => Stuck W_NOTPTR end))
    | SIf c t e => ev c en s (fun vc s1 => cnode vc (ex t en s1 kn kb kr) (ex e en s1 kn kb kr))
    | SSwitch t e arms dflt =>
        ev e en s (fun v s1 =>
          (fix go (l : list (list N * stmt)) : dtree :=
             match l with
             | [] => ex dflt en s1 kn kn kr
             | (labels, body) :: r =>
                 (fix lab (ls : list N) : dtree :=
                    match ls with
                    | [] => go r
                    | c0 :: lr => cnode (mk_cmp CEq t v (SConst c0)) (ex body en s1 kn kn kr) (lab lr)
                    end) labels
             end) arms)
    | SBreak => kb en s
    | SOnce body => ex body en s kn kn kr
    | SReturn e => ev e en s (fun v s1 => kr (Some v) s1)
    | SReturnVoid => kr None s
    | SOpaque kind cl => kn (env_del en cl) {| tr := EvOpaque kind :: tr s; mem := []; stat := stat s |}
    end.
End Exec.

Definition ftab := list (N * fundef).
Fixpoint ftab_get (t : ftab) (f : N) : option fundef :=
  match t with [] => None | (g, d) :: r => if f =? g then Some d else ftab_get r f end.

Fixpoint bind (i : N) (vs : list sval) : env :=
  match vs with [] => [] | v :: r => (i, v) :: bind (i + 1) r end.

Definition builtin (f : N) (vs : list sval) (s : state) (k : kont) : option dtree :=
  if f =? B_MEMCMP then
    Some match vs with
         | [pa; pb; SConst n] =>
             match as_ptr pa, as_ptr pb with
             | Some (a, oa), Some (b, ob) =>
                 k (SKey (memcmp_key a oa b ob n)) (emit (EvRead b) (emit (EvRead a) s))
             | _, _ => Stuck W_BUILTIN
             end
         | _ => Stuck W_BUILTIN end
  else if f =? B_EXPECT then
    Some match vs with [a; _] => k a s | _ => Stuck W_BUILTIN end
  else if f =? B_CHECK then
    Some match vs with
         | [] => k (match stat s with Some v => v | None => SKey KStatus end) (emit (EvCall B_CHECK []) s)
         | _ => Stuck W_BUILTIN end
  else if f =? B_SET then
    Some match vs with
         | [v] => k (SConst 0) {| tr := EvCall B_SET [v] :: tr s; mem := mem s; stat := Some v |}
         | _ => Stuck W_BUILTIN end
  else None.

Fixpoint callf (T : ftab) (fuel : nat) (f : N) (vs : list sval) (s : state) (k : kont) : dtree :=
  match fuel with
  | O => Stuck W_FUEL
  | S n =>
      match builtin f vs s k with
      | Some t => t
      | None =>
          match ftab_get T f with
          | Some d =>
              if Nat.eqb (length vs) (length (f_params d)) then
                ex (callf T n) (f_body d) (bind 0 vs) (emit (EvEnter f vs) s)
                   (fun _ s1 => k (SConst 0) s1) (fun _ _ => Stuck W_BREAK)
                   (fun r s1 => k (match r with Some v => v | None => SConst 0 end) s1)
              else Stuck W_ARITY
          | None =>
              (* external symbol: an event, an unknown result, and it may have stored anywhere *)
              k (SKey (KExt f (ncalls f s))) {| tr := EvCall f vs :: tr s; mem := []; stat := stat s |}
          end
      end
  end.

Definition FUEL : nat := 8.

Fixpoint arg_keys (i : N) (ps : list cty) : list sval :=
  match ps with [] => [] | _ :: r => SKey (KArg i) :: arg_keys (i + 1) r end.

(* the decision tree of an entry point called with arguments KArg 0 .. KArg (n-1) *)
Definition entry_tree (T : ftab) (d : fundef) : dtree :=
  ex (callf T FUEL) (f_body d) (bind 0 (arg_keys 0 (f_params d))) st0
     (fun _ s => Leaf None (rev (tr s))) (fun _ _ => Stuck W_BREAK)
     (fun r s => Leaf r (rev (tr s))).

(* big-step result of entry d in world w: a Leaf (return value, trace) — or Stuck *)
Definition run (T : ftab) (w : world) (d : fundef) : dtree := eval_tree w (entry_tree T d).

(* worlds give every argument a value of its parameter's width *)
Fixpoint args_in_range (w : world) (i : N) (ps : list cty) : Prop :=
  match ps with [] => True | t :: r => w (KArg i) < 2 ^ width t /\ args_in_range w (i + 1) r end.
