(* ckernels vertical — how the library composes the two translated murmur kernels
   (murmur3_x64_128.c / mh_sha1_murmur3_x64_128_finalize_base.c: whole 16-byte blocks through
   _murmur3_x64_128_block, the rest and the total length through _murmur3_x64_128_tail).
   The composition is written by hand; the kernels are Gen/CKernelGen.v.  Definitions only. *)
From Coq Require Import NArith List.
From ISAL Require Import Base.Words Base.ListUtil Spec.Murmur3 Model.CKernel Gen.CKernelGen.
Import ListNotations.
Local Open Scope N_scope.

Definition c_murmur3_x64_128 (fuel : nat) (seed : N) (msg junk : list N) : option (list N) :=
  match c_murmur3_block fuel (le_words 8 (firstn (mur_nbody msg) msg)) (N.of_nat (Nat.div (length msg) 16))
                        [w64 seed; w64 seed] with
  | Some h => c_murmur3_tail fuel (mur_rest msg) (N.of_nat (length msg)) h junk
  | None => None
  end.
