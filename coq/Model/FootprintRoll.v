(* C08 — footprint-emitting twin of the rolling-hash model (Model/RollRun.v, which models
   rolling_hash/rolling_hash2.c + the scan routines).  [rh_run_fp] computes what [rh_run]
   computes and additionally emits, in program order, every range of the caller's buffer and
   of state->history the C code touches.  Indices are Z so that a subtraction that would go
   below zero (buffer[i - w] with i < w) shows up as a negative offset instead of being
   truncated.  Definitions only. *)
From Coq Require Import NArith ZArith List Arith.
From ISAL Require Import Base.Words Base.ListUtil Spec.Rolling Model.RollRun.
Import ListNotations.

Inductive rh_ev :=
| EBuf (lo n : Z)          (* read of buffer[lo, lo+n) *)
| EHistR (lo n : Z)        (* read of state->history[lo, lo+n) *)
| EHistW (lo n : Z).       (* write of state->history[lo, lo+n) *)

(* the event is inside the caller's buffer of len bytes / the w-byte history *)
Definition rh_ev_ok (w len : nat) (e : rh_ev) : Prop :=
  match e with
  | EBuf lo n => (0 <= lo /\ 0 <= n /\ lo + n <= Z.of_nat len)%Z
  | EHistR lo n | EHistW lo n => (0 <= lo /\ 0 <= n /\ lo + n <= Z.of_nat w)%Z
  end.

Section FootprintRoll.
Variable T1 : N -> N.

(* memmove(history, history + i, w - i); memcpy(history + w - i, buffer, i); *)
Definition hist_refresh_first (w i : nat) : list rh_ev :=
  let wz := Z.of_nat w in let iz := Z.of_nat i in
  [EHistR iz (wz - iz); EHistW 0 (wz - iz); EBuf 0 iz; EHistW (wz - iz) iz].

(* memcpy(history, buffer + j - w, w); *)
Definition hist_refresh_scan (w j : nat) : list rh_ev :=
  let wz := Z.of_nat w in [EBuf (Z.of_nat j - wz) wz; EHistW 0 wz].

(* for (i = 0; i < w; i++): the twin of [phase1] *)
Fixpoint phase1_fp (w : nat) (mask trig : N) (hrest brest : list N) (i : nat) (h : N)
  : p1res * list rh_ev :=
  match hrest with
  | [] => (P1Go i h, [])
  | old :: hr =>
      match brest with
      | [] => (P1Max i h, hist_refresh_first w i)                 (* if (i == buffer_length) *)
      | b :: br =>
          let h' := hash_fn T1 w h b old in                      (* buffer[i], state->history[i] *)
          let evs := [EBuf (Z.of_nat i) 1; EHistR (Z.of_nat i) 1] in
          if hitb mask trig h' then (P1Hit (S i) h', evs ++ hist_refresh_first w (S i))
          else let '(r, l) := phase1_fp w mask trig hr br (S i) h' in (r, evs ++ l)
      end
  end.

(* _rolling_hash2_run_until: b1[i] = buffer[i], b2[i] = (buffer - w)[i]: the twin of [scan] *)
Fixpoint scan_fp (w : nat) (mask trig : N) (news olds : list N) (i : nat) (h : N)
  : (nat * N * bool) * list rh_ev :=
  match news, olds with
  | b :: nr, o :: orr =>
      let h' := hash_fn T1 w h b o in
      let evs := [EBuf (Z.of_nat i) 1; EBuf (Z.of_nat i - Z.of_nat w) 1] in
      if hitb mask trig h' then ((i, h', true), evs)
      else let '(r, l) := scan_fp w mask trig nr orr (S i) h' in (r, evs ++ l)
  | _, _ => ((i, h, false), [])
  end.

Definition rh_run_fp (s : rh_state) (buf : list N) (mask trig : N)
  : (rh_state * nat * verdict) * list rh_ev :=
  let w := rw s in
  match phase1_fp w mask trig (rhist s) buf 0 (rhash s) with
  | (P1Max i h, l) =>
      (({| rw := w; rhash := h; rhist := skipn i (rhist s) ++ firstn i buf |}, i, MAX), l)
  | (P1Hit i h, l) =>
      (({| rw := w; rhash := h; rhist := skipn i (rhist s) ++ firstn i buf |}, i, HIT), l)
  | (P1Go i h, l) =>
      let '((idx, h', hit), l2) := scan_fp w mask trig (skipn i buf) buf i h in
      if hitb mask trig h' then
        let j := S idx in
        (({| rw := w; rhash := h'; rhist := firstn w (skipn (j - w) buf) |}, j, HIT),
         l ++ l2 ++ hist_refresh_scan w j)
      else
        (({| rw := w; rhash := h'; rhist := firstn w (skipn (idx - w) buf) |}, idx, MAX),
         l ++ l2 ++ hist_refresh_scan w idx)
  end.

(* isal_rolling_hash2_reset: reads init_bytes[0,w), writes history[0,w) *)
Definition rh_reset_fp (s : rh_state) : list rh_ev :=
  let wz := Z.of_nat (rw s) in [EBuf 0 wz; EHistW 0 wz].

End FootprintRoll.
