(* L1 model of the AES-GCM entry points of aes/gcm_{sse,avx_gen2,avx_gen4}.asm and
   gcm_vaes_avx512.inc: GCM_INIT, GCM_ENC_DEC (with PARTIAL_BLOCK), GCM_COMPLETE, and the
   one-shot entry points, which are literally those three macros in sequence.

   One semantics for the four families (the correspondence harness runs each of them, and
   compares the context after init and after every update), up to one policy in which they
   differ: whether the LAST full block of an update is folded into the hash at once, or kept
   as an open block of 16 bytes (partial_block_length = 16: hash xor-ed with the block, the
   multiply pending).  gcm_vaes_avx512.inc does the latter exactly when 256 bytes remain after
   PARTIAL_BLOCK (INITIAL_BLOCKS_PARTIAL with 16 blocks, reached from GCM_ENC_DEC_SMALL);
   sse/avx_gen2/avx_gen4 never do.  The policy enters as the Section variable defer (a function
   of the number of bytes left after PARTIAL_BLOCK); the theorems hold for every policy.  The block cipher under the
   expanded key enters as the Section variable E; the hash key is H = E(0^128) (the shifted
   powers of H kept in isal_gcm_key_data are an internal of each family and not modelled).

   The record mirrors struct isal_gcm_context_data field by field, every field holding what
   the struct holds in memory order:
     aad_hash               the running GHASH value BYTE-REFLECTED (the code keeps it after
                            pshufb SHUF_MASK), so the standard's Y is rev (aad_hash c)
     aad_length, in_length  uint64 (in_length wraps modulo 2^64: `add [InLen], len`)
     pb_enc_key             E(K, counter block) of the open block, memory order
     orig_IV                IV || 00 00 00 01, memory order
     cur_counter            the last counter block used, BYTE-REFLECTED
     pb_len                 number of bytes already consumed of the open block (0..15; 16
                            when a full block is kept open, see defer)
   gcm_ctx_bytes is the 88-byte image of the struct.  No proofs in this file. *)
From Coq Require Import NArith List Bool Arith.
From ISAL Require Import Base.Words Base.ListUtil Spec.AES Spec.GF128 Spec.GCM.
Import ListNotations.
Local Open Scope N_scope.

Record gcm_ctx := mk_gcm_ctx {
  aad_hash : list N;
  aad_length : N;
  in_length : N;
  pb_enc_key : list N;
  orig_IV : list N;
  cur_counter : list N;
  pb_len : nat }.

(* the struct as bytes: 16 + 8 + 8 + 16 + 16 + 16 + 8 (little-endian integers) *)
Definition gcm_ctx_bytes (c : gcm_ctx) : list N :=
  aad_hash c ++ N_to_le 8 (aad_length c) ++ N_to_le 8 (in_length c) ++ pb_enc_key c ++
  orig_IV c ++ cur_counter c ++ N_to_le 8 (N.of_nat (pb_len c)).

(* bytes bs written at offset off of an otherwise zero 16-byte block *)
Definition place (off : nat) (bs : list N) : list N :=
  zeros off ++ bs ++ zeros (16 - off - length bs).

Section GcmStream.
Variable E : list N -> list N.
(* the hash key as isal_gcm_key_data holds it after the precompute: gcm_precomp below *)
Variable H : list N.
(* does this family keep the last full block open when n bytes are left after PARTIAL_BLOCK? *)
Variable defer : nat -> bool.

(* GHASH_MUL by the hash key, on blocks in the standard's byte order *)
Definition gmul (y : list N) : list N := gf128_mul_bytes y H.

(* GCM_INIT.  CALC_AAD_HASH: 16 bytes at a time, the last short block read by
   READ_SMALL_DATA_INPUT and zero-padded; an empty AAD leaves 0.  partial_block_enc_key
   is overwritten by the code with a left-over of the last multiply (xmm2 xor xmm3), a
   value nothing reads: the model writes zeros, and the correspondence ignores this field
   until the first partial block stores a key. *)
Definition gcm_init (iv aad : list N) : gcm_ctx :=
  let j0 := firstn 12 iv ++ [0; 0; 0; 1] in
  {| aad_hash := rev (ghash_blocks H (zeros 16) aad);
     aad_length := N.of_nat (length aad);
     in_length := 0;
     pb_enc_key := zeros 16;
     orig_IV := j0;
     cur_counter := rev j0;
     pb_len := 0 |}.

(* the bulk loops (INITIAL_BLOCKS, GHASH_8_ENCRYPT_8_PARALLEL / by-16 / by-48, GHASH_LAST_8):
   for every full block: next counter, keystream, output, fold the CIPHERTEXT block into the
   hash.  ctr and y in the standard's byte order.  Returns (output, (ctr', y')). *)
Fixpoint gcm_bulk (enc : bool) (ctr y : list N) (blocks : list (list N))
  : list N * (list N * list N) :=
  match blocks with
  | [] => ([], (ctr, y))
  | b :: r =>
      let ctr1 := inc32 ctr in
      let o := xorb_list b (E ctr1) in
      let cb := if enc then o else b in
      let '(os, st) := gcm_bulk enc ctr1 (gmul (xorb_list y cb)) r in
      (o ++ os, st)
  end.

(* PARTIAL_BLOCK: consume the keystream block carried from the previous update.
   Returns (ctx', output, rest of the data). *)
Definition gcm_partial_block (enc : bool) (c : gcm_ctx) (data : list N)
  : gcm_ctx * list N * list N :=
  let r := pb_len c in
  match r with
  | O => (c, [], data)
  | _ =>
    let k := Nat.min (length data) (16 - r) in
    let d := firstn k data in
    let o := xorb_list d (skipn r (pb_enc_key c)) in
    let cb := if enc then o else d in
    let y := xorb_list (rev (aad_hash c)) (place r cb) in
    if (16 <=? r + length data)%nat then
      (mk_gcm_ctx (rev (gmul y)) (aad_length c) (in_length c) (pb_enc_key c) (orig_IV c)
                  (cur_counter c) 0, o, skipn k data)
    else
      (mk_gcm_ctx (rev y) (aad_length c) (in_length c) (pb_enc_key c) (orig_IV c)
                  (cur_counter c) (r + length data), o, skipn k data)
  end.

(* the part of GCM_ENC_DEC after PARTIAL_BLOCK: full blocks, then a new open block.
   Returns (ctx', output bytes). *)
Definition gcm_main (enc : bool) (c2 : gcm_ctx) (rest : list N) : gcm_ctx * list N :=
  let nblk := (length rest / 16)%nat in
  let nfull := if (defer (length rest) && (0 <? nblk) && (length rest mod 16 =? 0))%nat
               then (nblk - 1)%nat else nblk in
  let '(out2, (ctr, y)) :=
    gcm_bulk enc (rev (cur_counter c2)) (rev (aad_hash c2)) (chunks 16 (firstn (16 * nfull) rest)) in
  let tail := skipn (16 * nfull) rest in
  match tail with
  | [] =>
    (mk_gcm_ctx (rev y) (aad_length c2) (in_length c2) (pb_enc_key c2) (orig_IV c2) (rev ctr)
                (pb_len c2), out2)
  | _ =>
    let ctr1 := inc32 ctr in
    let ks := E ctr1 in
    let o := xorb_list tail ks in
    let cb := if enc then o else tail in
    (mk_gcm_ctx (rev (xorb_list y (pad16 cb))) (aad_length c2) (in_length c2) ks (orig_IV c2)
                (rev ctr1) (length tail), out2 ++ o)
  end.

(* GCM_ENC_DEC (= one update call): nothing for len = 0; else in_length += len,
   PARTIAL_BLOCK, the rest.  Returns (ctx', output bytes). *)
Definition gcm_update (enc : bool) (c : gcm_ctx) (data : list N) : gcm_ctx * list N :=
  match data with
  | [] => (c, [])
  | _ =>
    let c1 := mk_gcm_ctx (aad_hash c) (aad_length c) (add64 (in_length c) (N.of_nat (length data)))
                         (pb_enc_key c) (orig_IV c) (cur_counter c) (pb_len c) in
    let '(c2, out1, rest) := gcm_partial_block enc c1 data in
    let '(c3, out23) := gcm_main enc c2 rest in
    (c3, out1 ++ out23)
  end.

Definition gcm_update_enc := gcm_update true.
Definition gcm_update_dec := gcm_update false.

(* GCM_COMPLETE: close an open block, fold the length block, mask with E(K, J0), truncate.
   The sse/gen2/gen4 code stores the closed hash back into the context; nothing reads it
   afterwards (the correspondence does not compare the context after finalize). *)
Definition gcm_finalize (c : gcm_ctx) (tag_len : nat) : gcm_ctx * list N :=
  let y0 := rev (aad_hash c) in
  let y1 := match pb_len c with O => y0 | _ => gmul y0 end in
  let s := gmul (xorb_list y1 (gcm_len_block (aad_length c) (in_length c))) in
  let t := xorb_list s (E (orig_IV c)) in
  (mk_gcm_ctx (rev y1) (aad_length c) (in_length c) (pb_enc_key c) (orig_IV c) (cur_counter c)
              (pb_len c), firstn tag_len t).

(* _aes_gcm_{enc,dec}_{128,256}_<family>[_nt]: GCM_INIT; GCM_ENC_DEC; GCM_COMPLETE *)
Definition gcm_oneshot (enc : bool) (iv aad data : list N) (tag_len : nat) : list N * list N :=
  let '(c1, out) := gcm_update enc (gcm_init iv aad) data in
  (out, snd (gcm_finalize c1 tag_len)).

Definition gcm_oneshot_enc := gcm_oneshot true.
Definition gcm_oneshot_dec := gcm_oneshot false.

(* init; one update per segment; finalize.  Returns (concatenated outputs, tag). *)
Fixpoint gcm_updates (enc : bool) (c : gcm_ctx) (segs : list (list N)) : gcm_ctx * list N :=
  match segs with
  | [] => (c, [])
  | s :: r =>
      let '(c1, o) := gcm_update enc c s in
      let '(c2, os) := gcm_updates enc c1 r in
      (c2, o ++ os)
  end.

Definition gcm_stream (enc : bool) (iv aad : list N) (segs : list (list N)) (tag_len : nat)
  : list N * list N :=
  let '(c1, out) := gcm_updates enc (gcm_init iv aad) segs in
  (out, snd (gcm_finalize c1 tag_len)).

(* the same run, keeping the context after init and after every update (what the
   correspondence harness compares with the real struct) *)
Fixpoint gcm_trace_updates (enc : bool) (c : gcm_ctx) (segs : list (list N))
  : list (gcm_ctx * list N) :=
  match segs with
  | [] => []
  | s :: r => let '(c1, o) := gcm_update enc c s in (c1, o) :: gcm_trace_updates enc c1 r
  end.

End GcmStream.

(* _aes_gcm_precomp_{128,256}: the hash key H = E(K, 0^128) *)
Definition gcm_precomp (E : list N -> list N) : list N := E (zeros 16).

(* the two policies in the library *)
Definition defer_none (n : nat) : bool := false.            (* sse, avx_gen2, avx_gen4 *)
Definition defer_vaes (n : nat) : bool := Nat.eqb n 256.    (* vaes_avx512 *)

(* instances over the FIPS-197 cipher with an expanded key *)
Definition gcm_init_aes (rks : list (list N)) := gcm_init (gcm_precomp (cipher rks)).
Definition gcm_update_aes (rks : list (list N)) := gcm_update (cipher rks) (gcm_precomp (cipher rks)) defer_none.
Definition gcm_finalize_aes (rks : list (list N)) := gcm_finalize (cipher rks) (gcm_precomp (cipher rks)).
Definition gcm_oneshot_aes (rks : list (list N)) := gcm_oneshot (cipher rks) (gcm_precomp (cipher rks)) defer_none.
Definition gcm_stream_aes (rks : list (list N)) := gcm_stream (cipher rks) (gcm_precomp (cipher rks)) defer_none.
Definition gcm_oneshot_aes_vaes (rks : list (list N)) := gcm_oneshot (cipher rks) (gcm_precomp (cipher rks)) defer_vaes.
Definition gcm_stream_aes_vaes (rks : list (list N)) := gcm_stream (cipher rks) (gcm_precomp (cipher rks)) defer_vaes.
