(* L1 model of the BASE family of the multi-buffer hash API: the five files
   <algo>_mb/<algo>_ctx_base.c (+ <algo>_ctx_base_aliases.c, which only forward to them).
   This is NOT the text of the 23 *_ctx_<simd family>.c files (Model/HashCtx.v): it is a
   synchronous implementation - <algo>_init / <algo>_update / <algo>_final in plain C, its
   own partial-block handling, its own padding in <algo>_final, the digest computed by the C
   block function <algo>_single - and it never hands a job to a manager.

   After renaming the five files are the same text except for (measured by normalised diff):
     * md5_final stores the bit length with to_le64, the others with to_be64   [ba_len_le]
     * sm3_final byte-swaps the digest words at its end                        [ba_swap]
     * sha512: 128-byte block, 16-byte length field of which the C writes only the low
       8 bytes (the upper 8 stay zero from the clearing loop); uint64_t digest words
     * the body of <algo>_single (= a_compress of the algorithm record).
   Everything else is generic in the [algo] record.  Widths are the C types: uint32_t len /
   remain_len / copy_len / partial_block_buffer_length / i, uint64_t total_length; values
   are N, wrap-around is written where the C arithmetic can wrap.  Definitions only. *)
From Coq Require Import NArith List Arith Bool.
From ISAL Require Import Base.Words Base.ListUtil Spec.MD Spec.SHA1 Spec.SHA256 Spec.SHA512 Spec.MD5 Spec.SM3
     Spec.HashApiSpec Model.HashCtx Model.HashObs.
Import ListNotations.

Record base_alg := {
  ba_algo : algo;        (* block size, length-field size, IV, a_compress = <algo>_single *)
  ba_len_le : bool;      (* md5_final: to_le64; all others: to_be64 *)
  ba_swap : bool         (* sm3_final: digest[j] = byteswap32(digest[j]) at the end *)
}.

Definition sha1_base : base_alg := {| ba_algo := sha1_algo; ba_len_le := false; ba_swap := false |}.
Definition sha256_base : base_alg := {| ba_algo := sha256_algo; ba_len_le := false; ba_swap := false |}.
Definition sha512_base : base_alg := {| ba_algo := sha512_algo; ba_len_le := false; ba_swap := false |}.
Definition md5_base : base_alg := {| ba_algo := md5_algo; ba_len_le := true; ba_swap := false |}.
Definition sm3_base : base_alg := {| ba_algo := sm3_algo; ba_len_le := false; ba_swap := true |}.

(* ISAL_<ALGO>_HASH_CTX as the base code uses it (incoming_buffer, incoming_buffer_length
   and the job fields other than result_digest are never read or written by *_ctx_base.c) *)
Record bctx := {
  b_digest : list N;     (* job.result_digest *)
  b_status : N;
  b_error : N;
  b_total : N;           (* total_length, uint64_t *)
  b_pbuf : list N;       (* partial_block_buffer, 2*B bytes *)
  b_plen : N             (* partial_block_buffer_length, uint32_t *)
}.

Definition bset_error (c : bctx) (x : N) : bctx :=
  {| b_digest := b_digest c; b_status := b_status c; b_error := x; b_total := b_total c;
     b_pbuf := b_pbuf c; b_plen := b_plen c |}.
Definition bset_status (c : bctx) (x : N) : bctx :=
  {| b_digest := b_digest c; b_status := x; b_error := b_error c; b_total := b_total c;
     b_pbuf := b_pbuf c; b_plen := b_plen c |}.

Section Base.
Variable BA : base_alg.

Definition bA : algo := ba_algo BA.
Definition bB : nat := a_bsize bA.                       (* ISAL_<ALGO>_BLOCK_SIZE *)
Definition bBn : N := N.of_nat bB.
Definition bFn : N := N.of_nat (a_lenfld bA).            (* ISAL_<ALGO>_PADLENGTHFIELD_SIZE *)

(* <algo>_single(data, digest): one block of B bytes read at [data] *)
Definition single (data : list N) (digest : list N) : list N :=
  a_compress bA digest (firstn bB data).

(* to_be64 / to_le64 followed by the 8-byte store *)
Definition store64 (x : N) : list N := if ba_len_le BA then N_to_le 8 x else N_to_be 8 x.

(* ---- <algo>_init ------------------------------------------------------------------- *)
Definition base_init (c : bctx) : bctx :=
  {| b_digest := a_iv bA;                 (* hash_init_digest(ctx->job.result_digest) *)
     b_status := STS_PROCESSING;          (* ctx->status = ISAL_HASH_CTX_STS_PROCESSING *)
     b_error := ERR_NONE;                 (* ctx->error = ISAL_HASH_CTX_ERROR_NONE *)
     b_total := 0;                        (* ctx->total_length = 0 *)
     b_pbuf := b_pbuf c;
     b_plen := 0 |}.                      (* ctx->partial_block_buffer_length = 0 *)

(* ---- <algo>_update ----------------------------------------------------------------- *)

(* while (remain_len >= B) { single(buffer, digest); buffer += B; remain_len -= B; }
   fuel = number of bytes at [buffer]; it cannot run out before remain_len < B when B > 0 *)
Fixpoint upd_loop (fuel : nat) (digest buffer : list N) (remain_len : N) : list N * list N * N :=
  match fuel with
  | O => (digest, buffer, remain_len)
  | S f =>
      if (bBn <=? remain_len)%N
      then upd_loop f (single buffer digest) (skipn bB buffer) (remain_len - bBn)%N
      else (digest, buffer, remain_len)
  end.

(* [buffer] = the len bytes the caller passed (uint32_t len = length buffer) *)
Definition base_update (c : bctx) (buffer : list N) : bctx :=
  let len := N.of_nat (length buffer) in
  let remain_len := len in
  let digest := b_digest c in
  let total := w64 (b_total c + len) in                                   (* ctx->total_length += len *)
  (* if ((ctx->partial_block_buffer_length) | (remain_len < B)) { ... } *)
  let '(pbuf1, plen1, digest1, buffer1, remain1) :=
    if (negb (b_plen c =? 0)%N || (remain_len <? bBn)%N)%bool then
      let copy_len0 := w32 (bBn + 4294967296 - b_plen c) in               (* uint32_t copy_len = B - plen *)
      let copy_len := if (remain_len <? copy_len0)%N then remain_len else copy_len0 in
      let '(pbuf', plen', remain', buffer') :=
        if (copy_len =? 0)%N then (b_pbuf c, b_plen c, remain_len, buffer)
        else (splice (b_pbuf c) (N.to_nat (b_plen c)) (firstn (N.to_nat copy_len) buffer),   (* memcpy *)
              w32 (b_plen c + copy_len),                                  (* plen += copy_len *)
              (remain_len - copy_len)%N,                                  (* remain_len -= copy_len *)
              skipn (N.to_nat copy_len) buffer) in                        (* buffer += copy_len *)
      (* if (plen >= B) { plen = 0; single(partial_block_buffer, digest); } *)
      if (bBn <=? plen')%N then (pbuf', 0%N, single pbuf' digest, buffer', remain')
      else (pbuf', plen', digest, buffer', remain')
    else (b_pbuf c, b_plen c, digest, buffer, remain_len) in
  (* if (plen == 0) while (remain_len >= B) ... *)
  let '(digest2, buffer2, remain2) :=
    if (plen1 =? 0)%N then upd_loop (length buffer1) digest1 buffer1 remain1
    else (digest1, buffer1, remain1) in
  (* if (remain_len > 0) { memcpy(&partial_block_buffer, buffer, remain_len); plen = remain_len; } *)
  let '(pbuf3, plen3) :=
    if (0 <? remain2)%N then (splice pbuf1 0 (firstn (N.to_nat remain2) buffer2), remain2)
    else (pbuf1, plen1) in
  {| b_digest := digest2;
     b_status := STS_IDLE;                                                (* ctx->status = IDLE *)
     b_error := b_error c; b_total := total; b_pbuf := pbuf3; b_plen := plen3 |}.

(* ---- <algo>_final ------------------------------------------------------------------ *)

(* the local buffer after memcpy(buf, partial_block_buffer, i); buf[i++] = 0x80;
   for (j = i; j < 2*B; j++) buf[j] = 0;   (i = partial_block_buffer_length) *)
Definition final_clear (pbuf : list N) (i : N) : list N :=
  firstn (N.to_nat i) pbuf ++ [128%N] ++ zeros (2 * bB - (N.to_nat i + 1)).

(* if (i > B - PADLENGTHFIELD_SIZE) i = 2*B; else i = B;      (i already incremented) *)
Definition final_end (i1 : N) : N := if (bBn - bFn <? i1)%N then (2 * bBn)%N else bBn.

(* [lenval total] = the 64-bit value stored in the last 8 bytes:
   (uint64_t) ctx->total_length * 8 in the code under test *)
Definition final_blocks (lenval : N -> N) (c : bctx) : list N * N :=
  let i := b_plen c in
  let buf0 := final_clear (b_pbuf c) i in
  let i2 := final_end (w32 (i + 1)) in
  (* the 8-byte store at buf + i - 8 of to_be64 / to_le64 (lenval) *)
  (splice buf0 (N.to_nat i2 - 8) (store64 (lenval (b_total c))), i2).

Definition final_with (lenval : N -> N) (c : bctx) : bctx :=
  let '(buf, i2) := final_blocks lenval c in
  let d1 := single buf (b_digest c) in                                   (* single(buf, digest) *)
  let d2 := if (i2 =? 2 * bBn)%N then single (skipn bB buf) d1 else d1 in (* single(buf + B, digest) *)
  let d3 := if ba_swap BA then map bswap32 d2 else d2 in                 (* sm3 only *)
  {| b_digest := d3;
     b_status := STS_COMPLETE;                                            (* ctx->status = COMPLETE *)
     b_error := b_error c; b_total := b_total c; b_pbuf := b_pbuf c; b_plen := b_plen c |}.

Definition lenval64 (total : N) : N := w64 (total * 8).                  (* (uint64_t) total_length * 8 *)
Definition base_final (c : bctx) : bctx := final_with lenval64 c.

(* ---- _<algo>_ctx_mgr_submit_base ----------------------------------------------------- *)

(* [flags] is the value of the enum argument (an int: the theorems assume flags < 2^32) *)
Definition base_submit (c : bctx) (buffer : list N) (flags : N) : bctx :=
  if negb (N.land flags (N.lnot FLAG_ENTIRE 32) =? 0)%N then bset_error c ERR_INVALID_FLAGS
  else if (has (b_status c) STS_PROCESSING && (flags =? FLAG_ENTIRE)%N)%bool then
    bset_error c ERR_ALREADY_PROCESSING
  else if (has (b_status c) STS_COMPLETE && negb (has flags FLAG_FIRST))%bool then
    bset_error c ERR_ALREADY_COMPLETED
  else
    let c0 := bset_error c ERR_NONE in               (* the F3 fix: on every accepted submit *)
    let c1 := if (flags =? FLAG_FIRST)%N then base_update (base_init c0) buffer else c0 in
    let c2 := if (flags =? 0)%N then base_update c1 buffer else c1 in              (* ISAL_HASH_UPDATE *)
    let c3 := if (flags =? FLAG_LAST)%N then base_final (base_update c2 buffer) else c2 in
    let c4 := if (flags =? FLAG_ENTIRE)%N then base_final (base_update (base_init c3) buffer) else c3 in
    c4.

(* ---- the caller's view: any number of contexts, no manager state --------------------- *)

Definition bst := list bctx.

Definition dflt_bctx : bctx :=
  {| b_digest := []; b_status := STS_COMPLETE; b_error := ERR_NONE; b_total := 0;
     b_pbuf := zeros (2 * bB); b_plen := 0 |}.
Definition bgetc (s : bst) (cid : nat) : bctx := nth cid s dflt_bctx.

(* isal_hash_ctx_init: status and error only, everything else is what the memory held *)
Definition base_ctx_init (junk : bctx) : bctx := bset_error (bset_status junk STS_COMPLETE) ERR_NONE.
(* _<algo>_ctx_mgr_init_base: empty body *)
Definition base_model_init (junk : list bctx) : bst := map base_ctx_init junk.

(* one API call: submit hands its own context back, with the isal_ wrapper's return code;
   _<algo>_ctx_mgr_flush_base returns NULL and touches nothing *)
Definition base_step (s : bst) (o : op) : bst * option nat * N :=
  match o with
  | Submit cid buf flags =>
      let s' := upd cid (base_submit (bgetc s cid) buf flags) s in
      (s', Some cid, map_error (b_error (bgetc s' cid)))
  | Flush => (s, None, 0%N)
  end.

(* the same projection as Model/HashObs.obs_of *)
Definition base_obs_of (s' : bst) (r : option nat) (rc : N) : obs :=
  match r with
  | None => {| o_ret := None; o_status := 0; o_error := 0; o_total := 0; o_digest := []; o_rc := rc |}
  | Some i => let c := bgetc s' i in
      {| o_ret := Some i; o_status := b_status c; o_error := b_error c; o_total := b_total c;
         o_digest := b_digest c; o_rc := rc |}
  end.

Fixpoint base_run_obs (s : bst) (ops : list op) : list (call * obs) :=
  match ops with
  | [] => []
  | o :: r => let '(s', ret, rc) := base_step s o in
              (call_of o, base_obs_of s' ret rc) :: base_run_obs s' r
  end.

Fixpoint base_run (s : bst) (ops : list op) : bst :=
  match ops with
  | [] => s
  | o :: r => let '(s', _, _) := base_step s o in base_run s' r
  end.

(* a context written IDLE into a mid-stream state (what harness J does to the public fields) *)
Definition base_inject (old : bctx) (chain : list N) (total : N) (part : list N) : bctx :=
  {| b_digest := chain; b_status := STS_IDLE; b_error := ERR_NONE; b_total := total;
     b_pbuf := splice (b_pbuf old) 0 part; b_plen := N.of_nat (length part) |}.

(* ---- deliberately wrong variants (refuted in Proofs/HashBaseVariants.v) --------------- *)

(* /repo before commit d9c2f48 (defect F3): ctx->error cleared only by <algo>_init *)
Definition base_submit_sticky (c : bctx) (buffer : list N) (flags : N) : bctx :=
  if negb (N.land flags (N.lnot FLAG_ENTIRE 32) =? 0)%N then bset_error c ERR_INVALID_FLAGS
  else if (has (b_status c) STS_PROCESSING && (flags =? FLAG_ENTIRE)%N)%bool then
    bset_error c ERR_ALREADY_PROCESSING
  else if (has (b_status c) STS_COMPLETE && negb (has flags FLAG_FIRST))%bool then
    bset_error c ERR_ALREADY_COMPLETED
  else
    let c1 := if (flags =? FLAG_FIRST)%N then base_update (base_init c) buffer else c in
    let c2 := if (flags =? 0)%N then base_update c1 buffer else c1 in
    let c3 := if (flags =? FLAG_LAST)%N then base_final (base_update c2 buffer) else c2 in
    let c4 := if (flags =? FLAG_ENTIRE)%N then base_final (base_update (base_init c3) buffer) else c3 in
    c4.

(* the bit length assembled from two 32-bit words, the high one as (uint32_t)(total >> 32) << 3
   (seeded change c15b in md5_final): bits 29..31 of total_length are lost *)
Definition lenval_narrow (total : N) : N :=
  N.lor (w32 (N.shiftl total 3)) (N.shiftl (w32 (N.shiftl (w32 (N.shiftr total 32)) 3)) 32).
Definition base_final_narrow (c : bctx) : bctx := final_with lenval_narrow c.

Definition base_step_with (submit : bctx -> list N -> N -> bctx) (s : bst) (o : op) : bst * option nat * N :=
  match o with
  | Submit cid buf flags =>
      let s' := upd cid (submit (bgetc s cid) buf flags) s in
      (s', Some cid, map_error (b_error (bgetc s' cid)))
  | Flush => (s, None, 0%N)
  end.
Fixpoint base_run_obs_with (submit : bctx -> list N -> N -> bctx) (s : bst) (ops : list op) : list (call * obs) :=
  match ops with
  | [] => []
  | o :: r => let '(s', ret, rc) := base_step_with submit s o in
              (call_of o, base_obs_of s' ret rc) :: base_run_obs_with submit s' r
  end.

End Base.
