(* L1 model of the multi-hash context layer: mh_sha1/mh_sha1.c (init),
   mh_sha1/mh_sha1_update_base.c (the update template every family instantiates with its
   own block function), mh_sha1/mh_sha1_finalize_base.c (tail + finalize), and their
   mh_sha256 twins (same text up to the digest width).

   The record mirrors what the C keeps in struct isal_mh_sha1_ctx between calls:
     total_length            -> mc_total   (uint64_t, wraps mod 2^64)
     partial_block_buffer    -> mc_partial (the first 1024 bytes; the C array is 2048 bytes
                                            long but only the first 1024 are ever used)
     mh_sha1_interim_digests -> mc_state   (generic: whatever the block function advances;
                                            for mh_sha1/mh_sha256 the uint32_t [word][segment]
                                            array in memory order, for the murmur-stitched
                                            variant that array and the two murmur state words)
   frame_buffer is scratch of the block function and is not modelled.

   No proofs in this file (Proofs/MhFacts.v, Proofs/MhInst.v). *)
From Coq Require Import NArith List Arith.
From ISAL Require Import Base.Words Base.ListUtil Spec.MD Spec.SHA1 Spec.SHA256.
Import ListNotations.

Definition MH_BLOCK : nat := 1024.      (* ISAL_MH_SHA1_BLOCK_SIZE = 16 segments x 64 bytes *)

(* memcpy (dst + off, src, |src|) on a buffer held as a list; clipped to the buffer (every
   memcpy of the model stays inside the 1024 bytes; the clip only keeps the function total) *)
Definition mh_memcpy (dst : list N) (off : nat) (src : list N) : list N :=
  firstn (length dst) (firstn off dst ++ src ++ skipn (off + length src) dst).

Section MhGeneric.
Variable S : Type.                        (* what BLOCK_FUNCTION advances *)
Variable blockf : S -> list N -> S.       (* BLOCK_FUNCTION on one 1024-byte block *)

Record mh_ctx := { mc_total : N; mc_partial : list N; mc_state : S }.

(* BLOCK_FUNCTION (data, ..., num_blocks): num_blocks consecutive 1024-byte blocks *)
Definition mh_blocks_n (st : S) (data : list N) (nblocks : nat) : S :=
  fold_left blockf (chunks MH_BLOCK (firstn (nblocks * MH_BLOCK) data)) st.

(* memset (ctx, 0, sizeof *ctx), then the initial digests *)
Definition mhc_init (st0 : S) : mh_ctx :=
  {| mc_total := 0; mc_partial := zeros MH_BLOCK; mc_state := st0 |}.

(* MH_SHA1_UPDATE_FUNCTION (ctx, buffer, len), len = |buf| *)
Definition mhc_update (c : mh_ctx) (buf : list N) : mh_ctx :=
  let len := N.of_nat (length buf) in
  if (len =? 0)%N then c                                   (* if (len == 0) return *)
  else
    let plen := (mc_total c mod 1024)%N in                 (* total_length % BLOCK_SIZE *)
    let total' := w64 (mc_total c + len) in                (* ctx->total_length += len *)
    if (len + plen <? 1024)%N then                         (* (uint64_t) len + partial_block_len: no wrap *)
      (* not enough data for one block: append to the partial block *)
      {| mc_total := total';
         mc_partial := mh_memcpy (mc_partial c) (N.to_nat plen) buf;
         mc_state := mc_state c |}
    else
      let p := N.to_nat plen in
      (* complete and hash the carried partial block *)
      let '(st1, part1, data) :=
        if (plen =? 0)%N then (mc_state c, mc_partial c, buf)
        else
          let fill := MH_BLOCK - p in
          let pb := mh_memcpy (mc_partial c) p (firstn fill buf) in
          (blockf (mc_state c) pb, zeros MH_BLOCK, skipn fill buf) in
      (* whole blocks straight from the caller's buffer *)
      let nb := length data / MH_BLOCK in
      let st2 := if nb =? 0 then st1 else mh_blocks_n st1 data nb in
      let rest := skipn (nb * MH_BLOCK) data in
      (* carry the remainder *)
      let part2 := match rest with [] => part1 | _ => mh_memcpy part1 0 rest end in
      {| mc_total := total'; mc_partial := part2; mc_state := st2 |}.

(* MH_SHA1_TAIL_FUNCTION (partial_buffer, total_len, digests, ...) up to, not including,
   the final hash over the interim digests; total_len is a uint32_t *)
Definition mhc_tail (partial : list N) (total_len : N) (st : S) : S :=
  let p := N.to_nat (total_len mod 1024)%N in
  (* partial_buffer[p] = 0x80; p++; memset (partial_buffer + p, 0, BLOCK_SIZE - p) *)
  let buf1 := firstn MH_BLOCK (firstn p partial ++ [128%N] ++ zeros (MH_BLOCK - (p + 1))) in
  (* if (p > BLOCK_SIZE - 8): the length does not fit, hash this block and start a zero one *)
  let '(st1, buf2) :=
    if MH_BLOCK - 8 <? p + 1 then (blockf st buf1, zeros MH_BLOCK) else (st, buf1) in
  (* *(uint64_t * ) (partial_buffer + BLOCK_SIZE - 8) = to_be64 ((uint64_t) total_len * 8) *)
  let buf3 := mh_memcpy buf2 (MH_BLOCK - 8) (N_to_be 8 (w64 (total_len * 8))) in
  blockf st1 buf3.

Variable D : Type.
Variable finalf : S -> D.                 (* sha1_for_mh_sha1 over the interim digests *)

(* MH_SHA1_FINALIZE_FUNCTION: passes (uint32_t) total_length to the tail function *)
Definition mhc_finalize (c : mh_ctx) : D :=
  finalf (mhc_tail (mc_partial c) (w32 (mc_total c)) (mc_state c)).

End MhGeneric.

Arguments mc_total {S} _.
Arguments mc_partial {S} _.
Arguments mc_state {S} _.

(* ---- the block function: 16 interleaved lanes ---- *)
(* mh_sha1_block_base.c: the 1024-byte block is read as 256 uint32_t ww[]; step i < 16 loads
   w[i][s] = to_be32 (ww[i * 16 + s]) for the 16 lanes s; the SHA rounds then run on all
   16 lanes in lock step on digests[k][s].  The round function of one lane is the underlying
   hash's compression function on 16 message words (modelled, not verified: the assembly
   kernels are tied to it by the correspondence run only). *)
Section MhBlock.
Variable nw : nat.                                  (* chaining words: 5 (SHA-1), 8 (SHA-256) *)
Variable cw : list N -> list N -> list N.           (* chaining words -> 16 message words -> chaining words *)

(* digests[k][s], k < nw, of the flat uint32_t [nw][16] array *)
Definition mh_lane (digests : list N) (s : nat) : list N :=
  map (fun k => nth (k * 16 + s) digests 0%N) (seq 0 nw).
(* w[i][s], i < 16 *)
Definition mh_lane_words (ww : list N) (s : nat) : list N :=
  map (fun i => nth (i * 16 + s) ww 0%N) (seq 0 16).

Definition mh_block_il (digests : list N) (block : list N) : list N :=
  let ww := be_words32 block in
  let lanes := map (fun s => cw (mh_lane digests s) (mh_lane_words ww s)) (seq 0 16) in
  flat_map (fun k => map (fun l => nth k l 0%N) lanes) (seq 0 nw).
End MhBlock.

(* for (i < 16) digests[k][i] = H_k *)
Definition mh_flat_iv (iv : list N) : list N := flat_map (fun h => repeat h 16) iv.

(* sha1_for_mh_sha1 ((uint8_t * ) digests, out, 4 * nw * 16): the ordinary padded hash of the
   memory image of the interim array (little-endian words) *)
Definition mh_final (A : algo) (digests : list N) : list N :=
  md_hash A (flat_map (N_to_le 4) digests).

(* ---- the two instances ---- *)
Definition mh_sha1_block : list N -> list N -> list N := mh_block_il 5 sha1_compress_words.
Definition mh_sha256_block : list N -> list N -> list N := mh_block_il 8 sha256_compress_words.

Definition mh1_init : mh_ctx (list N) := mhc_init (list N) (mh_flat_iv sha1_iv).
Definition mh1_update : mh_ctx (list N) -> list N -> mh_ctx (list N) := mhc_update (list N) mh_sha1_block.
Definition mh1_finalize : mh_ctx (list N) -> list N :=
  mhc_finalize (list N) mh_sha1_block (list N) (mh_final sha1_algo).

Definition mh256_init : mh_ctx (list N) := mhc_init (list N) (mh_flat_iv sha256_iv).
Definition mh256_update : mh_ctx (list N) -> list N -> mh_ctx (list N) := mhc_update (list N) mh_sha256_block.
Definition mh256_finalize : mh_ctx (list N) -> list N :=
  mhc_finalize (list N) mh_sha256_block (list N) (mh_final sha256_algo).

(* the interim digests after the tail blocks, i.e. the input of the final hash *)
Definition mh1_tail (c : mh_ctx (list N)) : list N :=
  mhc_tail (list N) mh_sha1_block (mc_partial c) (w32 (mc_total c)) (mc_state c).
Definition mh256_tail (c : mh_ctx (list N)) : list N :=
  mhc_tail (list N) mh_sha256_block (mc_partial c) (w32 (mc_total c)) (mc_state c).

(* init, one update per segment, finalize *)
Definition mh1_run (segs : list (list N)) : list N := mh1_finalize (fold_left mh1_update segs mh1_init).
Definition mh256_run (segs : list (list N)) : list N := mh256_finalize (fold_left mh256_update segs mh256_init).
