(* L1 model of the murmur-stitched multi-hash: mh_sha1_murmur3_x64_128/
   mh_sha1_murmur3_x64_128.c (init, block_base), .._update_base.c (the same update template as
   mh_sha1 with a block function that advances both states), .._finalize_base.c, and
   murmur3_x64_128_internal.c (_murmur3_x64_128_block / _tail).

   State advanced by the stitched block function: (mh_sha1 interim digests in memory order,
   murmur3 (h1, h2) = uint64_t hash[2] aliasing murmur3_x64_128_digest[4]).
   One 1024-byte multi-hash block is 64 murmur blocks of 16 bytes.

   No proofs in this file (Proofs/MhMurmurFacts.v). *)
From Coq Require Import NArith List Arith.
From ISAL Require Import Base.Words Base.ListUtil Spec.MD Spec.SHA1 Spec.Murmur3 Model.MhCtx.
Import ListNotations.

Definition mhm_state := (list N * (N * N))%type.

(* _murmur3_x64_128_block (data, num_blocks, digests) *)
Definition mhm_mur_blocks (h : N * N) (data : list N) (nblocks : nat) : N * N :=
  fold_left mur_body (chunks 16 (firstn (nblocks * 16) data)) h.

(* _mh_sha1_murmur3_x64_128_block_<family> on one 1024-byte block *)
Definition mhm_blockf (st : mhm_state) (block : list N) : mhm_state :=
  (mh_sha1_block (fst st) block, mhm_mur_blocks (snd st) block (MH_BLOCK / 16)).

(* _mh_sha1_murmur3_x64_128_init: hash[0] = hash[1] = murmur_seed (a uint64_t) *)
Definition mhm_init (seed : N) : mh_ctx mhm_state :=
  mhc_init mhm_state (mh_flat_iv sha1_iv, mur_init seed).

Definition mhm_update : mh_ctx mhm_state -> list N -> mh_ctx mhm_state :=
  mhc_update mhm_state mhm_blockf.

(* FINALIZE_FUNCTION: murmur first (the whole 16-byte blocks still in the partial buffer,
   then the tail of total % 16 bytes with the total length, both as uint32_t), then the
   mh_sha1 tail of the family on the sha1 half of the state *)
Definition mhm_finalize (c : mh_ctx mhm_state) : list N * (N * N) :=
  let total := mc_total c in
  let plen := N.to_nat (total mod 1024)%N in
  let partial := mc_partial c in
  let h1 := mhm_mur_blocks (snd (mc_state c)) partial (plen / 16) in
  let tail_data := skipn (plen - plen mod 16) partial in
  let total32 := w32 total in
  let h2 := mur_tail h1 (firstn (N.to_nat (total32 mod 16)%N) tail_data) total32 in
  (mh_final sha1_algo (mhc_tail (list N) mh_sha1_block partial total32 (fst (mc_state c))), h2).

(* the sha1 interim digests after the tail blocks *)
Definition mhm_tail (c : mh_ctx mhm_state) : list N :=
  mhc_tail (list N) mh_sha1_block (mc_partial c) (w32 (mc_total c)) (fst (mc_state c)).

Definition mhm_run (seed : N) (segs : list (list N)) : list N * (N * N) :=
  mhm_finalize (fold_left mhm_update segs (mhm_init seed)).
