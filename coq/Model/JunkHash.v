(* C20, hash context layer: observation of a model run that is explicit about DEFINEDNESS.

   Model/HashCtx.v starts every context from [ctx_init junk]: isal_hash_ctx_init defines only
   status and error, every other field is whatever the memory held.  The API defines the
   digest and the total length of a context only once a submit has been ACCEPTED for it
   (which for a fresh context requires the FIRST flag).  [run20] is [HashCtx.run] with a table
   [started] of which contexts have had a submit accepted since their init, and an observation
   that reports
     - always: which context is handed back, the return code, its status and error;
     - digest and total_length only when that context has been started.
   The non-interference theorem (Proofs/NonInterfHash.v) is about exactly this observation.
   Definitions only; no proofs in this file. *)
From Coq Require Import NArith List Arith Bool.
From ISAL Require Import Base.Words Base.ListUtil Spec.MD Model.HashCtx.
Import ListNotations.

Record obs20 := {
  q_ret : option nat;                 (* context handed back *)
  q_rc : N;                           (* return code of the isal_ wrapper *)
  q_status : N;
  q_error : N;
  q_defined : option (list N * N)     (* (digest, total_length) once the context has been started *)
}.

Section JunkHash.
Variable A : algo.
Variable K : nat.
Variable sched : nat -> list nat -> option nat.

(* the context for which this call's submit is accepted (not rejected), if any *)
Definition accepted (s : st) (o : op) : option nat :=
  match o with
  | Submit cid buf flags =>
      match ctx_accept A (getc A s cid) buf flags with
      | Accept _ _ => Some cid
      | Reject _ => None
      end
  | Flush => None
  end.

Definition mark (started : list bool) (a : option nat) : list bool :=
  match a with Some cid => upd cid true started | None => started end.

Definition observe (started : list bool) (s' : st) (out : outcome) (rc : N) : option obs20 :=
  match out with
  | OutOfFuel => None
  | Ret None => Some {| q_ret := None; q_rc := rc; q_status := 0; q_error := 0; q_defined := None |}
  | Ret (Some r) =>
      let c := getc A s' r in
      Some {| q_ret := Some r; q_rc := rc; q_status := c_status c; q_error := c_error c;
              q_defined := if nth r started false then Some (c_digest c, c_total c) else None |}
  end.

Fixpoint run20 (s : st) (started : list bool) (ops : list op) : list (option obs20) :=
  match ops with
  | [] => []
  | o :: r =>
      let started' := mark started (accepted s o) in
      let '(s', out, rc) := step A K sched s o in
      observe started' s' out rc :: run20 s' started' r
  end.

(* n contexts whose memory held [junk] before isal_hash_ctx_init; none started *)
Definition init20 (junk : list ctx) : st := mgr_init (map ctx_init junk).
Definition none_started (n : nat) : list bool := repeat false n.

(* two junk memories that agree on the CONTENTS of partial_block_buffer (and differ
   arbitrarily in digest, total_length, incoming buffer, partial length, status, error) *)
Definition same_pbuf (junk1 junk2 : list ctx) : Prop :=
  Forall2 (fun a b => c_pbuf a = c_pbuf b) junk1 junk2.

End JunkHash.
