(* Model/AbiCfg.v — abstract instruction language of tr/abicfg.py, the two abstract machines
   (GPR/stack machine for C19, vector-register machine for C14), the dataflow solver and
   the checkers.  No proofs here (Proofs/AbiCfg*.v). *)
From Coq Require Import ZArith NArith PArith List Bool FMapPositive.
Import ListNotations.
Local Open Scope Z_scope.

(* ------------------------------------------------------------------ syntax *)
(* GPRs are numbered as in the instruction encoding: rax 0, rcx 1, rdx 2, rbx 3, rsp 4,
   rbp 5, rsi 6, rdi 7, r8..r15.  Register sets are bit masks (N). *)
Definition RSP : nat := 4.

Inductive ginsn :=
| GPush (r : nat)                          (* push r64 *)
| GPushX (srcs : N)                        (* push imm / push [mem]: pushes an unknown word *)
| GPop (r : nat)                           (* pop r64 *)
| GMov (d s : nat)                         (* mov d, s            (64-bit) *)
| GLea (d s : nat) (k : Z)                 (* lea d,[s+k] / add d,k / sub d,k *)
| GLoad (d b : nat) (k : Z)                (* mov d, qword [b+k] *)
| GAlign (d : nat) (id : positive) (m : nat) (* and d, -(2^m); id names this instruction *)
| GStore (b : nat) (k : Z) (sz : Z) (src : option nat) (* a store of sz bytes to [b+k]; src = the
                                              64-bit register stored by a plain mov, if any *)
| GStoreNS (addr : N)                      (* a store whose address uses an index register *)
| GStoreIdx (b i : nat) (sc k sz : Z)      (* a store of sz bytes to [b + i*sc + k] *)
| GConst (d : nat) (c : Z)                 (* mov d, imm  /  xor d,d   (zero-extended constant) *)
| GXchg (a b : nat)                        (* xchg a, b  (64-bit registers) *)
| GClob (dsts srcs : N)                    (* registers dsts get new values computed from srcs *)
| GCall (f : positive)
| GStd | GCld | GCtl                       (* std, cld, ldmxcsr/fldcw/... *)
| GUnknown.                                (* not understood: the checker fails *)

Inductive vinsn :=
| VW (merge : bool) (w : nat) (regs : N)   (* vector write of width w (1 xmm, 2 ymm, 3 zmm);
                                              merge = legacy SSE or merge-masked: upper bits kept *)
| VClr (merge : bool) (w : nat) (r : nat)  (* self-xor clearing idiom *)
| VMov (merge : bool) (w : nat) (d s : nat)(* full-width register-register move *)
| VZeroAll | VZeroUpper
| VCall (f : positive)
| VUnknown.

(* TJcmp: `cmp r, k` immediately followed by a conditional jump that is TAKEN iff (r rl k), the
   comparison being signed (sg) or unsigned, on 64 (w64) or 32 bits *)
Inductive rel := RLt | RLe | RGt | RGe.
Inductive term :=
| TJmp (t : positive) | TJcc (t f : positive)
| TJcmp (sg w64 : bool) (rl : rel) (r : nat) (k : Z) (t f : positive)
| TRet
| TTail (f : positive) | TTailInd | THalt | TBad.

Record block := { bg : list ginsn; bv : list vinsn; bt : term }.

Arguments GPushX srcs%N.
Arguments GLea d s k%Z.
Arguments GLoad d b k%Z.
Arguments GAlign d id%positive m.
Arguments GStore b (k sz)%Z src.
Arguments GStoreNS addr%N.
Arguments GClob (dsts srcs)%N.
Arguments GStoreIdx b i (sc k sz)%Z.
Arguments GConst d c%Z.
Arguments GCall f%positive.
Arguments VW merge w regs%N.
Arguments VCall f%positive.
Arguments TJmp t%positive.
Arguments TJcc (t f)%positive.
Arguments TJcmp sg w64 rl r k%Z (t f)%positive.
Arguments TTail f%positive.
(* shorthand used by the generated files *)
Definition Bk (i : positive) (g : list ginsn) (v : list vinsn) (t : term) : positive * block :=
  (i, {| bg := g; bv := v; bt := t |}).
Arguments Bk i%positive g v t.

(* blocks are numbered 1.. ; the entry is block 1 *)
Record func := { fid : positive; fblocks : list (positive * block) }.

(* what a function promises its callers: the GPRs it preserves (bit mask) and, per vector
   register, the largest width it may leave key-derived ("dirty") *)
Record claim := { cl_pres : N; cl_vd : list nat }.
Definition Fn (i : positive) (bs : list (positive * block)) : func := {| fid := i; fblocks := bs |}.
Arguments Fn i%positive bs.
Definition Cl (i : positive) (p : N) (vd : list nat) : positive * claim := (i, {| cl_pres := p; cl_vd := vd |}).
Arguments Cl i%positive p%N vd.

Definition bit (m : N) (r : nat) : bool := N.testbit m (N.of_nat r).
Definition ABI_SAVED : N := 61480%N.   (* rbx rbp r12 r13 r14 r15 = bits 3,5,12,13,14,15 *)
Definition regs16 : list nat := seq 0 16.
Definition regs32 : list nat := seq 0 32.

(* ------------------------------------------------------------------ generic solver *)
Module PM := PositiveMap.

Definition cfg_of (f : func) : PM.t block :=
  fold_left (fun m ib => PM.add (fst ib) (snd ib) m) (fblocks f) (PM.empty block).

(* successors, tagged: true = the branch is taken / the only successor, false = fall-through *)
Definition succs (t : term) : list (bool * positive) :=
  match t with
  | TJmp a => [(true, a)]
  | TJcc a b => [(true, a); (false, b)]
  | TJcmp _ _ _ _ _ a b => [(true, a); (false, b)]
  | _ => []
  end.

Definition WIDEN_AFTER : nat := 6.

Section Solver.
  Variable A : Type.
  Variable tfb : block -> A -> option A.       (* transfer of a block body *)
  Variable refine : term -> bool -> A -> A.    (* what an edge adds to the state at the end of the block *)
  Variable join : A -> A -> A.
  Variable widen : A -> A -> A.                (* used instead of join once a block was updated often *)
  Variable leq : A -> A -> bool.

  Fixpoint propagate (tm : term) (out : A) (ts : list (bool * positive)) (inv : PM.t A) (cnt : PM.t nat)
           (wl : list positive) : PM.t A * PM.t nat * list positive :=
    match ts with
    | [] => (inv, cnt, wl)
    | (e, t) :: ts' =>
      let o := refine tm e out in
      match PM.find t inv with
      | None => propagate tm out ts' (PM.add t o inv) cnt (t :: wl)
      | Some old =>
        if leq o old then propagate tm out ts' inv cnt wl
        else let c := match PM.find t cnt with Some c => c | None => O end in
             let nw := if Nat.ltb c WIDEN_AFTER then join old o else widen old o in
             propagate tm out ts' (PM.add t nw inv) (PM.add t (S c) cnt) (t :: wl)
      end
    end.

  (* Kildall worklist iteration; None = out of fuel or a transfer failed.  NOT trusted: its result is
     only a candidate invariant for `verify`. *)
  Fixpoint solve (fuel : nat) (cfg : PM.t block) (inv : PM.t A) (cnt : PM.t nat) (wl : list positive)
    : option (PM.t A) :=
    match wl with
    | [] => Some inv
    | b :: wl' =>
      match fuel with
      | O => None
      | S fuel' =>
        match PM.find b cfg, PM.find b inv with
        | Some blk, Some a =>
          match tfb blk a with
          | Some out => let '(inv', cnt', wl'') := propagate (bt blk) out (succs (bt blk)) inv cnt wl' in
                        solve fuel' cfg inv' cnt' wl''
          | None => None
          end
        | _, _ => None
        end
      end
    end.

  (* the verified part: inv is an inductive invariant and every terminator is accepted *)
  Variable term_ok : term -> A -> bool.

  Definition block_ok (inv : PM.t A) (ib : positive * block) : bool :=
    match PM.find (fst ib) inv with
    | None => true                              (* not reachable according to inv *)
    | Some a =>
      match tfb (snd ib) a with
      | None => false
      | Some out =>
        term_ok (bt (snd ib)) out &&
        forallb (fun et => match PM.find (snd et) inv with
                           | Some a' => leq (refine (bt (snd ib)) (fst et) out) a'
                           | None => false end)
                (succs (bt (snd ib)))
      end
    end.

  Definition verify (cfg : PM.t block) (init : A) (inv : PM.t A) : bool :=
    match PM.find 1%positive inv with
    | Some a1 => leq init a1
    | None => false
    end &&
    forallb (block_ok inv) (PM.elements cfg).

  Definition analyse (f : func) (init : A) : bool :=
    let cfg := cfg_of f in
    match solve (S (length (fblocks f)) * 200) cfg (PM.add 1%positive init (PM.empty A)) (PM.empty nat) [1%positive] with
    | Some inv => verify cfg init inv
    | None => false
    end.
End Solver.

(* ------------------------------------------------------------------ GPR / stack machine *)
Inductive base := BInit (r : nat) | BAl (id : positive).
Inductive aval :=
| Sym (b : base) (k : Z)
| SymR (b : base) (lo hi st : Z)
| Num (lo hi st : Z)
| Top | STop.
(* Sym b k : exactly (value of base b) + k.
   SymR b lo hi st : (value of base b) + off with lo <= off <= hi and st | off - lo.
   Num lo hi st : a number v (not a frame pointer) with lo <= v <= hi and st | v - lo.
   Top : unknown, not derived from this function's stack pointer.
   STop : unknown, possibly derived from the stack pointer. *)
Definition NUM_MAX : Z := 2147483648.       (* numbers are tracked within [0, 2^31) only *)


Record astate := {
  ar : list aval;                          (* 16 GPRs *)
  asl : list (base * Z * aval);            (* 8-byte stack slots with known contents *)
  abd : list (positive * Z);               (* BAl id <= entry rsp + c *)
  adf : bool                               (* DF known clear *)
}.

Definition base_eqb (a b : base) : bool :=
  match a, b with
  | BInit x, BInit y => Nat.eqb x y
  | BAl x, BAl y => Pos.eqb x y
  | _, _ => false
  end.
Definition stackish_base (b : base) : bool :=
  match b with BInit r => Nat.eqb r RSP | BAl _ => true end.
Definition stackish (v : aval) : bool :=
  match v with Sym b _ | SymR b _ _ _ => stackish_base b | Num _ _ _ | Top => false | STop => true end.
Definition aval_eqb (a b : aval) : bool :=
  match a, b with
  | Sym x k, Sym y j => base_eqb x y && Z.eqb k j
  | SymR x l h s, SymR y l' h' s' => base_eqb x y && Z.eqb l l' && Z.eqb h h' && Z.eqb s s'
  | Num l h s, Num l' h' s' => Z.eqb l l' && Z.eqb h h' && Z.eqb s s'
  | Top, Top => true | STop, STop => true | _, _ => false
  end.
(* st | x, decidably; st = 0 means x = 0 *)
Definition divides (st x : Z) : bool := if st =? 0 then x =? 0 else x mod st =? 0.
(* range view of a value: (base or none, lo, hi, stride) *)
Definition rng (v : aval) : option (option base * Z * Z * Z) :=
  match v with
  | Sym b k => Some (Some b, k, k, 0)
  | SymR b lo hi st => Some (Some b, lo, hi, st)
  | Num lo hi st => Some (None, lo, hi, st)
  | _ => None
  end.
Definition mk (ob : option base) (lo hi st : Z) : aval :=
  match ob with
  | Some b => if lo =? hi then Sym b lo else SymR b lo hi st
  | None => if (0 <=? lo) && (hi <? NUM_MAX) then Num lo hi st else Top
  end.
Definition obase_eqb (a b : option base) : bool :=
  match a, b with Some x, Some y => base_eqb x y | None, None => true | _, _ => false end.
(* range ra is included in range rb *)
Definition rng_leq (ra rb : option base * Z * Z * Z) : bool :=
  match ra, rb with
  | (oa, la, ha, sa), (ob, lb, hb, sb) =>
    obase_eqb oa ob && (lb <=? la) && (ha <=? hb) && divides sb (la - lb) && divides sb sa
  end.
Definition aval_leq (a b : aval) : bool :=
  match b with
  | STop => true
  | Top => negb (stackish a)
  | Sym _ _ => aval_eqb a b
  | SymR _ _ _ _ | Num _ _ _ =>
    match rng a, rng b with Some ra, Some rb => rng_leq ra rb | _, _ => false end
  end.
(* equal or unknown *)
Definition aval_ejoin (a b : aval) : aval :=
  if aval_eqb a b then a else if stackish a || stackish b then STop else Top.
(* widening: a value that still changes after several rounds is given up *)
Definition aval_wjoin (a b : aval) : aval :=
  if aval_leq b a then a else aval_ejoin a b.
(* join: hull of the two ranges when they have the same base *)
Definition aval_join (a b : aval) : aval :=
  if aval_eqb a b then a else
  match rng a, rng b with
  | Some (oa, la, ha, sa), Some (ob, lb, hb, sb) =>
    if obase_eqb oa ob
    then mk oa (Z.min la lb) (Z.max ha hb) (Z.gcd (Z.gcd sa sb) (Z.abs (la - lb)))
    else aval_ejoin a b
  | _, _ => aval_ejoin a b
  end.

Definition getr (s : astate) (r : nat) : aval := nth r (ar s) STop.
Fixpoint upd {T} (l : list T) (n : nat) (v : T) : list T :=
  match l, n with
  | [], _ => []
  | _ :: t, O => v :: t
  | h :: t, S n' => h :: upd t n' v
  end.
Definition setr (s : astate) (r : nat) (v : aval) : astate :=
  {| ar := upd (ar s) r v; asl := asl s; abd := abd s; adf := adf s |}.

Fixpoint lookup_bd (l : list (positive * Z)) (id : positive) : option Z :=
  match l with
  | [] => None
  | (i, c) :: t => if Pos.eqb i id then Some c else lookup_bd t id
  end.
(* an upper bound of (base + k) relative to the entry rsp, if known *)
Definition upper (s : astate) (b : base) (k : Z) : option Z :=
  match b with
  | BInit r => if Nat.eqb r RSP then Some k else None
  | BAl id => match lookup_bd (abd s) id with Some c => Some (c + k) | None => None end
  end.

Fixpoint lookup_slot (l : list (base * Z * aval)) (b : base) (k : Z) : option aval :=
  match l with
  | [] => None
  | (b', k', v) :: t => if base_eqb b' b && Z.eqb k' k then Some v else lookup_slot t b k
  end.

(* slot (b',k') certainly does not overlap the sz bytes at (b,k) *)
Definition disjoint (s : astate) (b : base) (k sz : Z) (b' : base) (k' : Z) : bool :=
  if base_eqb b b' then (k' + 8 <=? k) || (k + sz <=? k')
  else
    (* different bases: provable only when one is an aligned base known to lie below the other,
       which is relative to the entry rsp *)
    match b, b' with
    | BAl _, BInit r => if Nat.eqb r RSP then
                          match upper s b k with Some u => u + sz <=? k' | None => false end
                        else false
    | _, _ => false
    end.

Definition kill_overlap (s : astate) (b : base) (k sz : Z) : list (base * Z * aval) :=
  filter (fun e => match e with (b', k', _) => disjoint s b k sz b' k' end) (asl s).

Definition set_slot (s : astate) (b : base) (k : Z) (v : aval) : astate :=
  {| ar := ar s; asl := (b, k, v) :: kill_overlap s b k 8; abd := abd s; adf := adf s |}.
Definition havoc_range (s : astate) (b : base) (k sz : Z) : astate :=
  {| ar := ar s; asl := kill_overlap s b k sz; abd := abd s; adf := adf s |}.

Definition any_stackish (s : astate) (m : N) : bool :=
  existsb (fun r => bit m r && stackish (getr s r)) regs16.

Definition clob (s : astate) (dsts srcs : N) : astate :=
  let v := if any_stackish s srcs then STop else Top in
  {| ar := map (fun r => if bit dsts r then v else getr s r) regs16;
     asl := asl s; abd := abd s; adf := adf s |}.

(* a store of sz bytes at symbolic address (b,k) must end at or below the entry rsp *)
Definition below_frame (s : astate) (b : base) (k sz : Z) : bool :=
  match upper s b k with Some u => u + sz <=? 0 | None => false end.

Definition mentions (id : positive) (v : aval) : bool :=
  match v with Sym (BAl i) _ | SymR (BAl i) _ _ _ => Pos.eqb i id | _ => false end.
Definition forget_al (s : astate) (id : positive) : astate :=
  {| ar := map (fun v => if mentions id v then STop else v) (ar s);
     asl := filter (fun e => match e with (b, _, v) =>
                     negb (match b with BAl i => Pos.eqb i id | _ => false end) && negb (mentions id v) end) (asl s);
     abd := filter (fun e => negb (Pos.eqb (fst e) id)) (abd s);
     adf := adf s |}.

(* slots strictly below the current rsp do not survive a call *)
Definition slots_after_call (s : astate) : list (base * Z * aval) :=
  match getr s RSP with
  | Sym b k => filter (fun e => match e with (b', k', _) =>
                     if base_eqb b b' then k <=? k'
                     else match b' with
                          | BInit r => Nat.eqb r RSP &&
                                       match upper s b k with Some u => u <=? k' | None => false end
                          | BAl _ => false
                          end end) (asl s)
  | _ => []
  end.

Definition load_val (s : astate) (b : base) (k : Z) : aval :=
  match lookup_slot (asl s) b k with
  | Some v => v
  | None =>
    match b with
    | BInit r => if Nat.eqb r RSP && (8 <=? k) then Top   (* caller's area: incoming stack arguments *)
                 else STop
    | BAl _ => STop
    end
  end.

Section GTransfer.
  Variable claims : positive -> claim.

  Definition gtf (i : ginsn) (s : astate) : option astate :=
    match i with
    | GPush r =>
      match getr s RSP with
      | Sym b k => if stackish_base b && below_frame s b (k - 8) 8
                   then Some (setr (set_slot s b (k - 8) (getr s r)) RSP (Sym b (k - 8))) else None
      | _ => None
      end
    | GPushX srcs =>
      match getr s RSP with
      | Sym b k => if stackish_base b && below_frame s b (k - 8) 8
                   then Some (setr (set_slot s b (k - 8) (if any_stackish s srcs then STop else Top)) RSP (Sym b (k - 8)))
                   else None
      | _ => None
      end
    | GPop r =>
      match getr s RSP with
      | Sym b k => if stackish_base b
                   then let v := load_val s b k in
                        if Nat.eqb r RSP then Some (setr s RSP v)
                        else Some (setr (setr s RSP (Sym b (k + 8))) r v)
                   else None
      | _ => None
      end
    | GMov d s' => Some (setr s d (getr s s'))
    | GLea d s' k =>
      Some (setr s d (match getr s s' with
                      | Sym b j => Sym b (j + k)
                      | SymR b lo hi st => SymR b (lo + k) (hi + k) st
                      | Num lo hi st => mk None (lo + k) (hi + k) st
                      | v => v end))
    | GConst d c => Some (setr s d (mk None c c 0))
    | GXchg a b => Some (setr (setr s a (getr s b)) b (getr s a))
    | GLoad d b k =>
      match getr s b with
      | Sym bb j => if stackish_base bb then Some (setr s d (load_val s bb (j + k)))
                    else Some (setr s d Top)
      | SymR bb _ _ _ => Some (setr s d (if stackish_base bb then STop else Top))
      | Num _ _ _ | Top => Some (setr s d Top)
      | STop => Some (setr s d STop)
      end
    | GAlign d id m =>
      let s1 := forget_al s id in
      match getr s d with
      | Sym b k =>
        if stackish_base b then
          match upper s b k with
          | Some u => Some {| ar := upd (ar s1) d (Sym (BAl id) 0); asl := asl s1;
                              abd := (id, u) :: abd s1; adf := adf s1 |}
          | None => Some (setr s1 d STop)
          end
        else Some (setr s1 d Top)
      | SymR b _ _ _ => Some (setr s1 d (if stackish_base b then STop else Top))
      | Num _ _ _ | Top => Some (setr s1 d Top)
      | STop => Some (setr s1 d STop)
      end
    | GStore b k sz src =>
      match getr s b with
      | Sym bb j =>
        if stackish_base bb then
          if (0 <? sz) && below_frame s bb (j + k) sz then
            match src with
            | Some r => if Z.eqb sz 8 then Some (set_slot s bb (j + k) (getr s r))
                        else Some (havoc_range s bb (j + k) sz)
            | None => Some (havoc_range s bb (j + k) sz)
            end
          else None
        else Some s
      | SymR bb lo hi _ =>
        if stackish_base bb then
          if (0 <? sz) && (lo <=? hi) && below_frame s bb (lo + k) (hi - lo + sz)
          then Some (havoc_range s bb (lo + k) (hi - lo + sz)) else None
        else Some s
      | Num _ _ _ | Top => Some s
      | STop => None
      end
    | GStoreIdx b i sc k sz =>
      match rng (getr s b), getr s i with
      | Some (Some bb, blo, bhi, _), Num ilo ihi _ =>
        if stackish_base bb then
          if (0 <? sz) && (0 <=? sc) && (blo <=? bhi) && (ilo <=? ihi) &&
             below_frame s bb (blo + ilo * sc + k) (bhi - blo + (ihi - ilo) * sc + sz)
          then Some (havoc_range s bb (blo + ilo * sc + k) (bhi - blo + (ihi - ilo) * sc + sz)) else None
        else Some s
      | _, _ => if stackish (getr s b) || stackish (getr s i) then None else Some s
      end
    | GStoreNS m => if any_stackish s m then None else Some s
    | GClob dsts srcs => Some (clob s dsts srcs)
    | GCall f =>
      (* all registers but rsp must not point into this frame; rsp known *)
      match getr s RSP with
      | Sym b k =>
        if stackish_base b && below_frame s b (k - 8) 8 &&
           negb (existsb (fun r => negb (Nat.eqb r RSP) && stackish (getr s r)) regs16)
        then Some {| ar := map (fun r => if Nat.eqb r RSP || bit (cl_pres (claims f)) r then getr s r else Top) regs16;
                     asl := slots_after_call s; abd := abd s; adf := adf s |}
        else None
      | _ => None
      end
    | GStd => Some {| ar := ar s; asl := asl s; abd := abd s; adf := false |}
    | GCld => Some {| ar := ar s; asl := asl s; abd := abd s; adf := true |}
    | GCtl => None
    | GUnknown => None
    end.

  Fixpoint gtf_list (l : list ginsn) (s : astate) : option astate :=
    match l with
    | [] => Some s
    | i :: t => match gtf i s with Some s' => gtf_list t s' | None => None end
    end.
End GTransfer.

Definition g_leq (a b : astate) : bool :=
  Nat.eqb (length (ar b)) 16 &&
  forallb (fun r => aval_leq (getr a r) (getr b r)) regs16 &&
  forallb (fun e => match e with (bb, k, v) =>
             match lookup_slot (asl a) bb k with Some va => aval_leq va v | None => false end end) (asl b) &&
  forallb (fun e => match lookup_bd (abd a) (fst e) with Some c => c <=? snd e | None => false end) (abd b) &&
  (negb (adf b) || adf a).

Definition g_join (a b : astate) : astate :=
  {| ar := map (fun r => aval_join (getr a r) (getr b r)) regs16;
     asl := fold_right (fun e acc => match e with (bb, k, v) =>
               match lookup_slot (asl b) bb k with
               | Some vb => (bb, k, aval_join v vb) :: acc
               | None => acc end end) [] (asl a);
     abd := fold_right (fun e acc =>
               match lookup_bd (abd b) (fst e) with
               | Some c => (fst e, Z.max (snd e) c) :: acc
               | None => acc end) [] (abd a);
     adf := adf a && adf b |}.

Definition g_wjoin (a b : astate) : astate :=
  {| ar := map (fun r => aval_wjoin (getr a r) (getr b r)) regs16;
     asl := fold_right (fun e acc => match e with (bb, k, v) =>
               match lookup_slot (asl b) bb k with
               | Some vb => (bb, k, aval_wjoin v vb) :: acc
               | None => acc end end) [] (asl a);
     abd := abd (g_join a b);
     adf := adf a && adf b |}.

(* knowing value <= bound *)
Definition ub_refine (v : aval) (bound : Z) : aval :=
  match v with
  | Num lo hi st =>
    if (0 <=? lo) && (hi <? NUM_MAX) && (0 <? st) then
      let h := Z.min hi bound in
      if h <? lo then v else Num lo (lo + st * ((h - lo) / st)) st
    else v
  | _ => v
  end.

(* the upper bound on register r that edge e of terminator t establishes, if any *)
Definition edge_bound (t : term) (e : bool) : option (nat * Z) :=
  match t with
  | TJcmp _ _ rl r k _ _ =>
    if (0 <=? k) && (k <? NUM_MAX) then
      match rl, e with
      | RLt, true => Some (r, k - 1)
      | RLe, true => Some (r, k)
      | RGe, false => Some (r, k - 1)
      | RGt, false => Some (r, k)
      | _, _ => None
      end
    else None
  | _ => None
  end.

Definition g_refine (t : term) (e : bool) (s : astate) : astate :=
  match edge_bound t e with
  | Some (r, b) => setr s r (ub_refine (getr s r) b)
  | None => s
  end.

Definition g_init : astate :=
  {| ar := map (fun r => Sym (BInit r) 0) regs16; asl := []; abd := []; adf := true |}.

(* state required where control leaves the function towards the caller: rsp back at its
   entry value (the `ret` then pops the return address), the registers in `pres` restored,
   DF clear.  (No control-word write and no store at/above the entry rsp are enforced by gtf.) *)
Definition restored (pres : N) (s : astate) : bool :=
  aval_eqb (getr s RSP) (Sym (BInit RSP) 0) &&
  forallb (fun r => negb (bit pres r) || aval_eqb (getr s r) (Sym (BInit r) 0)) regs16 &&
  adf s.

Definition subset (a b : N) : bool := N.eqb (N.land a b) a.

Definition g_term_ok (claims : positive -> claim) (pres : N) (t : term) (s : astate) : bool :=
  match t with
  | TJmp _ | TJcc _ _ | TJcmp _ _ _ _ _ _ _ | THalt => true
  | TRet => restored pres s
  | TTail f => subset pres (cl_pres (claims f)) && restored pres s
  | TTailInd => subset pres ABI_SAVED && restored pres s  (* the target keeps the SysV callee-saved set *)
  | TBad => false
  end.

(* the function keeps its claim (on registers, rsp, DF, control words, frame) on every path *)
Definition check_gclaim (claims : positive -> claim) (f : func) : bool :=
  analyse astate (fun b => gtf_list claims (bg b)) g_refine g_join g_wjoin g_leq
          (g_term_ok claims (cl_pres (claims (fid f)))) f g_init.

(* C19 for an entry point: the claim covers the callee-saved registers of the SysV ABI *)
Definition check_c19 (claims : positive -> claim) (f : func) : bool :=
  subset ABI_SAVED (cl_pres (claims (fid f))) && check_gclaim claims f.

(* ------------------------------------------------------------------ vector machine *)
(* state: per vector register 0..31 the width (0 none, 1 = 128, 2 = 256, 3 = 512 bits) of
   the low part that may hold data written by this function *)
Definition vstate := list nat.
Definition getv (s : vstate) (r : nat) : nat := nth r s 3%nat.

Section VTransfer.
  Variable claims : positive -> claim.

  Definition vtf (i : vinsn) (s : vstate) : option vstate :=
    match i with
    | VW merge w m =>
      Some (map (fun r => if bit m r then (if merge then Nat.max (getv s r) w else w) else getv s r) regs32)
    | VClr merge w r =>
      if negb (Nat.ltb r 32) then None else
      Some (upd s r (if merge then (if Nat.leb (getv s r) w then 0%nat else getv s r) else 0%nat))
    | VMov merge w d s' =>
      let v := Nat.min (getv s s') w in
      if negb (Nat.ltb d 32 && Nat.ltb s' 32) then None else
      Some (upd s d (if merge then (if Nat.leb (getv s d) w then v else getv s d) else v))
    | VZeroAll => Some (map (fun r => if Nat.ltb r 16 then 0%nat else getv s r) regs32)
    | VZeroUpper => Some (map (fun r => if Nat.ltb r 16 then Nat.min (getv s r) 1 else getv s r) regs32)
    | VCall f => Some (map (fun r => Nat.max (getv s r) (nth r (cl_vd (claims f)) 3%nat)) regs32)
    | VUnknown => None
    end.

  Fixpoint vtf_list (l : list vinsn) (s : vstate) : option vstate :=
    match l with
    | [] => Some s
    | i :: t => match vtf i s with Some s' => vtf_list t s' | None => None end
    end.
End VTransfer.

Definition v_leq (a b : vstate) : bool := Nat.eqb (length b) 32 && forallb (fun r => Nat.leb (getv a r) (getv b r)) regs32.
Definition v_join (a b : vstate) : vstate := map (fun r => Nat.max (getv a r) (getv b r)) regs32.
Definition v_init : vstate := map (fun _ => 0%nat) regs32.

(* at an exit the state must be within the claim *)
Definition v_within (vd : list nat) (s : vstate) : bool :=
  forallb (fun r => Nat.leb (getv s r) (nth r vd 0%nat)) regs32.

Definition v_term_ok (claims : positive -> claim) (vd : list nat) (t : term) (s : vstate) : bool :=
  match t with
  | TJmp _ | TJcc _ _ | TJcmp _ _ _ _ _ _ _ | THalt => true
  | TRet => v_within vd s
  | TTail f => v_within vd (map (fun r => Nat.max (getv s r) (nth r (cl_vd (claims f)) 3%nat)) regs32)
  | TTailInd => v_within vd s   (* the target is one of the checked family symbols of the same operation *)
  | TBad => false
  end.

Definition check_vclaim (claims : positive -> claim) (f : func) : bool :=
  analyse vstate (fun b => vtf_list claims (bv b)) (fun _ _ s => s) v_join v_join v_leq
          (v_term_ok claims (cl_vd (claims (fid f)))) f v_init.

Definition all_clean (vd : list nat) : bool := forallb (fun r => Nat.eqb (nth r vd 3%nat) 0) regs32.

(* C14 (register half) for an AES entry point: it claims to leave every vector register clean *)
Definition check_c14 (claims : positive -> claim) (f : func) : bool :=
  all_clean (cl_vd (claims (fid f))) && check_vclaim claims f.

(* the same with a reviewed residue: registers that may keep data that is not key material
   (per register, the width allowed to stay dirty) *)
Definition check_c14r (claims : positive -> claim) (res : list nat) (f : func) : bool :=
  v_within res (cl_vd (claims (fid f))) && check_vclaim claims f.

Fixpoint lookup_res (l : list (positive * list nat)) (p : positive) : option (list nat) :=
  match l with
  | [] => None
  | (i, r) :: t => if Pos.eqb i p then Some r else lookup_res t p
  end.

(* ------------------------------------------------------------------ tables *)
Definition claim_map (l : list (positive * claim)) : PM.t claim :=
  fold_left (fun m ic => PM.add (fst ic) (snd ic) m) l (PM.empty claim).
(* unknown callee: preserves nothing, dirties everything *)
Definition claims_of (m : PM.t claim) (f : positive) : claim :=
  match PM.find f m with Some c => c | None => {| cl_pres := 0%N; cl_vd := [] |} end.
Definition mem_pos (l : list positive) (p : positive) : bool := existsb (Pos.eqb p) l.

Definition failing (chk : func -> bool) (fs : list func) : list positive :=
  map fid (filter (fun f => negb (chk f)) fs).
