(* C20: the undefined parts of the GCM context, of the rolling-hash state and of output
   buffers as explicit junk parameters of the existing L1 models.  Definitions only.

   GCM.  Model/GcmStream.gcm_init builds the whole context from (H, iv, aad): it has no
   parameter for the previous contents, which is how "init defines every field" is reflected
   in the model's type.  The real GCM_INIT of gcm_vaes_avx512.inc does NOT store
   partial_block_enc_key (sse/gen2/gen4 store a dead value there), so the faithful memory
   image after init is [gcm_init_mem]: every field from gcm_init except partial_block_enc_key,
   which keeps the junk the memory held.  The API-defined image [gcm_ctx_api] exposes that
   field only while a partial block is open (pb_len <> 0), which is also exactly what the
   paired execution of checks/c20.py compares.

   Rolling hash.  Model/RollRun.rh_init already takes (junk_h, junk_hist); [rh_start] is
   init followed by reset.

   Output buffers.  Model functions return their output as a fresh list; the caller-visible
   buffer after a call that produces [out] into a buffer that held [prefill] is [write_out]. *)
From Coq Require Import NArith List Arith Bool.
From ISAL Require Import Base.Words Base.ListUtil Spec.Rolling Model.GcmStream Model.RollRun.
Import ListNotations.

(* ---- GCM ------------------------------------------------------------------------------ *)

Definition with_pbek (c : gcm_ctx) (k : list N) : gcm_ctx :=
  mk_gcm_ctx (aad_hash c) (aad_length c) (in_length c) k (orig_IV c) (cur_counter c) (pb_len c).

(* memory image of the context after GCM_INIT when the memory held junk_pbek in
   partial_block_enc_key *)
Definition gcm_init_mem (H iv aad junk_pbek : list N) : gcm_ctx :=
  with_pbek (gcm_init H iv aad) junk_pbek.

(* what the API defines of a context *)
Definition gcm_ctx_api (c : gcm_ctx) : list N * N * N * option (list N) * list N * list N * nat :=
  (aad_hash c, aad_length c, in_length c,
   match pb_len c with O => None | _ => Some (pb_enc_key c) end,
   orig_IV c, cur_counter c, pb_len c).

(* a whole streaming session from such a memory image: outputs of every update, the
   API-defined context after every update, and the tag *)
Definition gcm_session (E : list N -> list N) (H : list N) (defer : nat -> bool) (enc : bool)
           (c0 : gcm_ctx) (segs : list (list N)) (tag_len : nat)
  : list (list N * N * N * option (list N) * list N * list N * nat * list N) * list N :=
  let tr := gcm_trace_updates E H defer enc c0 segs in
  let cN := fst (gcm_updates E H defer enc c0 segs) in
  (map (fun co => (gcm_ctx_api (fst co), snd co)) tr, snd (gcm_finalize E H cN tag_len)).

(* ---- rolling hash ----------------------------------------------------------------------- *)

Definition rh_start (T1 : N -> N) (junk_h : N) (junk_hist : list N) (w : nat) (init_bytes : list N)
  : option rh_state :=
  match rh_init junk_h junk_hist w with
  | Some s => Some (rh_reset T1 s init_bytes)
  | None => None
  end.

(* ---- output buffers --------------------------------------------------------------------- *)

(* the caller's buffer after a call that writes [out] at its start *)
Definition write_out (prefill out : list N) : list N := out ++ skipn (length out) prefill.
