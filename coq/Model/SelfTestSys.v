(* Generic interleaving semantics for n threads over one shared state (definitions only).
   G = shared state, L = thread-local state, lstep g l = ONE atomic step of a thread whose
   local state is l when the shared state is g.  A schedule is an arbitrary list of thread
   indices (indices >= n stutter).  Sequentially consistent: steps are totally ordered and
   every step sees the shared state left by the previous one.
   Used by C17 (self-test protocol) and C18 (first-call race of the dispatch stubs). *)
From Coq Require Import List Arith.
From ISAL Require Import Base.ListUtil.
Import ListNotations.

Section Sys.
  Variables G L : Type.
  Variable lstep : G -> L -> G * L.

  Record sys := mkSys { sg : G; sths : list L }.

  Definition sstep (s : sys) (t : nat) : sys :=
    match nth_error (sths s) t with
    | None => s
    | Some l => let '(g', l') := lstep (sg s) l in mkSys g' (upd t l' (sths s))
    end.

  Definition sexec (s : sys) (sch : list nat) : sys := fold_left sstep sch s.

  Definition sinit (g0 : G) (l0 : L) (n : nat) : sys := mkSys g0 (repeat l0 n).

  (* one thread running alone for k steps *)
  Fixpoint solo (k : nat) (g : G) (l : L) : G * L :=
    match k with
    | O => (g, l)
    | S k' => let '(g', l') := lstep g l in solo k' g' l'
    end.
End Sys.

Arguments mkSys {G L}.
Arguments sg {G L}.
Arguments sths {G L}.
Arguments sstep {G L}.
Arguments sexec {G L}.
Arguments sinit {G L}.
Arguments solo {G L}.
