Base/Words.vo Base/Words.glob Base/Words.v.beautified Base/Words.required_vo: Base/Words.v 
Base/Words.vio: Base/Words.v 
Base/Words.vos Base/Words.vok Base/Words.required_vos: Base/Words.v 
Base/ListUtil.vo Base/ListUtil.glob Base/ListUtil.v.beautified Base/ListUtil.required_vo: Base/ListUtil.v 
Base/ListUtil.vio: Base/ListUtil.v 
Base/ListUtil.vos Base/ListUtil.vok Base/ListUtil.required_vos: Base/ListUtil.v 
Spec/Rolling.vo Spec/Rolling.glob Spec/Rolling.v.beautified Spec/Rolling.required_vo: Spec/Rolling.v Base/Words.vo Base/ListUtil.vo
Spec/Rolling.vio: Spec/Rolling.v Base/Words.vio Base/ListUtil.vio
Spec/Rolling.vos Spec/Rolling.vok Spec/Rolling.required_vos: Spec/Rolling.v Base/Words.vos Base/ListUtil.vos
Model/RollRun.vo Model/RollRun.glob Model/RollRun.v.beautified Model/RollRun.required_vo: Model/RollRun.v Base/Words.vo Base/ListUtil.vo Spec/Rolling.vo
Model/RollRun.vio: Model/RollRun.v Base/Words.vio Base/ListUtil.vio Spec/Rolling.vio
Model/RollRun.vos Model/RollRun.vok Model/RollRun.required_vos: Model/RollRun.v Base/Words.vos Base/ListUtil.vos Spec/Rolling.vos
Spec/RollingPinned.vo Spec/RollingPinned.glob Spec/RollingPinned.v.beautified Spec/RollingPinned.required_vo: Spec/RollingPinned.v 
Spec/RollingPinned.vio: Spec/RollingPinned.v 
Spec/RollingPinned.vos Spec/RollingPinned.vok Spec/RollingPinned.required_vos: Spec/RollingPinned.v 
Gen/RollTableGen.vo Gen/RollTableGen.glob Gen/RollTableGen.v.beautified Gen/RollTableGen.required_vo: Gen/RollTableGen.v 
Gen/RollTableGen.vio: Gen/RollTableGen.v 
Gen/RollTableGen.vos Gen/RollTableGen.vok Gen/RollTableGen.required_vos: Gen/RollTableGen.v 
Model/RollInst.vo Model/RollInst.glob Model/RollInst.v.beautified Model/RollInst.required_vo: Model/RollInst.v Base/Words.vo Base/ListUtil.vo Spec/Rolling.vo Model/RollRun.vo Gen/RollTableGen.vo
Model/RollInst.vio: Model/RollInst.v Base/Words.vio Base/ListUtil.vio Spec/Rolling.vio Model/RollRun.vio Gen/RollTableGen.vio
Model/RollInst.vos Model/RollInst.vok Model/RollInst.required_vos: Model/RollInst.v Base/Words.vos Base/ListUtil.vos Spec/Rolling.vos Model/RollRun.vos Gen/RollTableGen.vos
Proofs/WordsFacts.vo Proofs/WordsFacts.glob Proofs/WordsFacts.v.beautified Proofs/WordsFacts.required_vo: Proofs/WordsFacts.v Base/Words.vo
Proofs/WordsFacts.vio: Proofs/WordsFacts.v Base/Words.vio
Proofs/WordsFacts.vos Proofs/WordsFacts.vok Proofs/WordsFacts.required_vos: Proofs/WordsFacts.v Base/Words.vos
Proofs/ListFacts.vo Proofs/ListFacts.glob Proofs/ListFacts.v.beautified Proofs/ListFacts.required_vo: Proofs/ListFacts.v Base/ListUtil.vo
Proofs/ListFacts.vio: Proofs/ListFacts.v Base/ListUtil.vio
Proofs/ListFacts.vos Proofs/ListFacts.vok Proofs/ListFacts.required_vos: Proofs/ListFacts.v Base/ListUtil.vos
Proofs/RollingFacts.vo Proofs/RollingFacts.glob Proofs/RollingFacts.v.beautified Proofs/RollingFacts.required_vo: Proofs/RollingFacts.v Base/Words.vo Base/ListUtil.vo Spec/Rolling.vo Model/RollRun.vo Proofs/WordsFacts.vo Proofs/ListFacts.vo
Proofs/RollingFacts.vio: Proofs/RollingFacts.v Base/Words.vio Base/ListUtil.vio Spec/Rolling.vio Model/RollRun.vio Proofs/WordsFacts.vio Proofs/ListFacts.vio
Proofs/RollingFacts.vos Proofs/RollingFacts.vok Proofs/RollingFacts.required_vos: Proofs/RollingFacts.v Base/Words.vos Base/ListUtil.vos Spec/Rolling.vos Model/RollRun.vos Proofs/WordsFacts.vos Proofs/ListFacts.vos
Proofs/RollingInst.vo Proofs/RollingInst.glob Proofs/RollingInst.v.beautified Proofs/RollingInst.required_vo: Proofs/RollingInst.v Base/Words.vo Base/ListUtil.vo Spec/Rolling.vo Spec/RollingPinned.vo Model/RollRun.vo Model/RollInst.vo Gen/RollTableGen.vo Proofs/WordsFacts.vo Proofs/RollingFacts.vo
Proofs/RollingInst.vio: Proofs/RollingInst.v Base/Words.vio Base/ListUtil.vio Spec/Rolling.vio Spec/RollingPinned.vio Model/RollRun.vio Model/RollInst.vio Gen/RollTableGen.vio Proofs/WordsFacts.vio Proofs/RollingFacts.vio
Proofs/RollingInst.vos Proofs/RollingInst.vok Proofs/RollingInst.required_vos: Proofs/RollingInst.v Base/Words.vos Base/ListUtil.vos Spec/Rolling.vos Spec/RollingPinned.vos Model/RollRun.vos Model/RollInst.vos Gen/RollTableGen.vos Proofs/WordsFacts.vos Proofs/RollingFacts.vos
Properties/C09.vo Properties/C09.glob Properties/C09.v.beautified Properties/C09.required_vo: Properties/C09.v Base/Words.vo Base/ListUtil.vo Spec/Rolling.vo Spec/RollingPinned.vo Model/RollRun.vo Model/RollInst.vo Gen/RollTableGen.vo Proofs/RollingFacts.vo Proofs/RollingInst.vo
Properties/C09.vio: Properties/C09.v Base/Words.vio Base/ListUtil.vio Spec/Rolling.vio Spec/RollingPinned.vio Model/RollRun.vio Model/RollInst.vio Gen/RollTableGen.vio Proofs/RollingFacts.vio Proofs/RollingInst.vio
Properties/C09.vos Properties/C09.vok Properties/C09.required_vos: Properties/C09.v Base/Words.vos Base/ListUtil.vos Spec/Rolling.vos Spec/RollingPinned.vos Model/RollRun.vos Model/RollInst.vos Gen/RollTableGen.vos Proofs/RollingFacts.vos Proofs/RollingInst.vos
Extract/Isal.vo Extract/Isal.glob Extract/Isal.v.beautified Extract/Isal.required_vo: Extract/Isal.v Base/Words.vo Base/ListUtil.vo Spec/Rolling.vo Spec/RollingPinned.vo Model/RollRun.vo Model/RollInst.vo
Extract/Isal.vio: Extract/Isal.v Base/Words.vio Base/ListUtil.vio Spec/Rolling.vio Spec/RollingPinned.vio Model/RollRun.vio Model/RollInst.vio
Extract/Isal.vos Extract/Isal.vok Extract/Isal.required_vos: Extract/Isal.v Base/Words.vos Base/ListUtil.vos Spec/Rolling.vos Spec/RollingPinned.vos Model/RollRun.vos Model/RollInst.vos
