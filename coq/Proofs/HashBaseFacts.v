(* Facts about the BASE-family hash model (Model/HashBase.v, the five *_ctx_base.c files):
   the per-algorithm conditions under which the generic theorems apply (base_alg_ok, proved for
   the five instances), the contract of <algo>_update (base_update_spec: every whole block of
   "buffered tail ++ caller buffer" is compressed in order, the rest is left at the front of
   the partial block buffer), the shape of the local buffer <algo>_final builds
   (final_blocks_shape) and (B2) base_final_pad_spec: it is the standard's padding. *)
From Coq Require Import NArith List Arith Lia Bool ZArith ZifyNat ZifyN ZifyBool.
From ISAL Require Import Base.Words Base.ListUtil Spec.MD Spec.SHA1 Spec.SHA256 Spec.SHA512 Spec.MD5 Spec.SM3
  Spec.HashApiSpec Model.HashCtx Model.HashObs Model.HashBase
  Proofs.WordsFacts Proofs.ListFacts Proofs.ChunkFacts Proofs.HashPadFacts Proofs.HashInst.
Import ListNotations.

Lemma N_to_le_zero n : N_to_le n 0 = zeros n.
Proof. induction n as [|n IH]; [reflexivity|]. cbn [N_to_le]. rewrite N.shiftr_0_l, IH. reflexivity. Qed.

Lemma N_to_le_app a b x : N_to_le (a + b) x = N_to_le a x ++ N_to_le b (N.shiftr x (8 * N.of_nat a)).
Proof.
  revert x. induction a as [|a IH]; intros x.
  - cbn [Nat.add N_to_le app]. change (8 * N.of_nat 0)%N with 0%N. rewrite N.shiftr_0_r. reflexivity.
  - cbn [Nat.add N_to_le app]. f_equal. rewrite IH. f_equal. f_equal. rewrite N.shiftr_shiftr. f_equal. lia.
Qed.

Lemma N_to_be_16_8 x : (x < 2 ^ 64)%N -> N_to_be 16 x = zeros 8 ++ N_to_be 8 x.
Proof.
  intros H. unfold N_to_be. change 16 with (8 + 8). rewrite N_to_le_app.
  replace (N.shiftr x (8 * N.of_nat 8)) with 0%N.
  - rewrite N_to_le_zero, rev_app_distr. reflexivity.
  - symmetry. change (8 * N.of_nat 8)%N with 64%N. destruct x as [|p]; [reflexivity|].
    apply N.shiftr_eq_0. apply N.log2_lt_pow2; [reflexivity|exact H].
Qed.

Record base_alg_ok (BA : base_alg) : Prop := {
  bok_wf : algo_wf (ba_algo BA);
  bok_len : forall x, (x < 2 ^ 64)%N ->
    a_lenbytes (ba_algo BA) x = zeros (a_lenfld (ba_algo BA) - 8) ++ store64 BA x;
  bok_final : forall d, a_final (ba_algo BA) d = if ba_swap BA then map bswap32 d else d
}.

Lemma sha1_base_ok : base_alg_ok sha1_base.
Proof. split; [exact sha1_wf|intros x _; reflexivity|reflexivity]. Qed.
Lemma sha256_base_ok : base_alg_ok sha256_base.
Proof. split; [exact sha256_wf|intros x _; reflexivity|reflexivity]. Qed.
Lemma sha512_base_ok : base_alg_ok sha512_base.
Proof. split; [exact sha512_wf|intros x H; exact (N_to_be_16_8 x H)|reflexivity]. Qed.
Lemma md5_base_ok : base_alg_ok md5_base.
Proof. split; [exact md5_wf|intros x _; reflexivity|reflexivity]. Qed.
Lemma sm3_base_ok : base_alg_ok sm3_base.
Proof. split; [exact sm3_wf|intros x _; reflexivity|reflexivity]. Qed.

Section Eat.
Variable A : algo.
Notation Bz := (a_bsize A).

(* absorb k whole blocks from the front of data *)
Fixpoint eat (k : nat) (d data : list N) : list N :=
  match k with
  | O => d
  | S k' => eat k' (a_compress A d (firstn Bz data)) (skipn Bz data)
  end.

Lemma eat_chunks k : Bz > 0 -> forall d data, k * Bz <= length data ->
  fold_left (a_compress A) (chunks Bz (firstn (k * Bz) data)) d = eat k d data.
Proof.
  intros HB. induction k as [|k IH]; intros d data Hl.
  - cbn [Nat.mul firstn]. rewrite chunks_nil. reflexivity.
  - cbn [eat]. cbn [Nat.mul] in *.
    rewrite chunks_cons; [|exact HB|].
    + cbn [fold_left]. rewrite firstn_firstn. replace (Nat.min Bz (Bz + k * Bz)) with Bz by lia.
      rewrite skipn_firstn_comm. replace (Bz + k * Bz - Bz) with (k * Bz) by lia.
      apply IH. rewrite skipn_length. lia.
    + intros E. apply (f_equal (@length N)) in E. rewrite firstn_length in E. cbn [length] in E. lia.
Qed.

Lemma eat_app_first k d blk rest : length blk = Bz ->
  eat (S k) d (blk ++ rest) = eat k (a_compress A d blk) rest.
Proof.
  intros Hl. cbn [eat]. rewrite firstn_app_exact by (symmetry; exact Hl).
  rewrite skipn_app_exact by (symmetry; exact Hl). reflexivity.
Qed.

Lemma eat_firstn k d data m : k * Bz <= m -> eat k d (firstn m data) = eat k d data.
Proof.
  revert d data m. induction k as [|k IH]; intros d data m H; [reflexivity|].
  cbn [eat]. cbn [Nat.mul] in H. rewrite firstn_firstn. replace (Nat.min Bz m) with Bz by lia.
  rewrite skipn_firstn_comm. apply IH. lia.
Qed.

End Eat.

Section Loop.
Variable BA : base_alg.
Notation A := (ba_algo BA).
Notation Bz := (a_bsize (ba_algo BA)).

Lemma upd_loop_eat : Bz > 0 -> forall fuel d buffer r, r <= length buffer -> r / Bz <= fuel ->
  upd_loop BA fuel d buffer (N.of_nat r) =
  (eat A (r / Bz) d buffer, skipn (r / Bz * Bz) buffer, N.of_nat (r mod Bz)).
Proof.
  intros HB. induction fuel as [|f IH]; intros d buffer r Hr Hf.
  - assert (H : r / Bz = 0) by (apply Nat.le_0_r; exact Hf).
    assert (r < Bz) by (apply Nat.div_small_iff; [lia|exact H]).
    rewrite H. cbn [upd_loop eat Nat.mul skipn]. rewrite Nat.mod_small by lia. reflexivity.
  - cbn [upd_loop]. unfold bBn, bB, bA.
    destruct (N.of_nat Bz <=? N.of_nat r)%N eqn:E.
    + apply N.leb_le in E. assert (Hge : Bz <= r) by lia.
      replace (N.of_nat r - N.of_nat Bz)%N with (N.of_nat (r - Bz)) by lia.
      rewrite IH.
      * assert (Ed : r / Bz = S ((r - Bz) / Bz)).
        { replace r with ((r - Bz) + 1 * Bz) at 1 by lia. rewrite Nat.div_add by lia. lia. }
        assert (Em : (r - Bz) mod Bz = r mod Bz).
        { replace r with ((r - Bz) + 1 * Bz) at 2 by lia. rewrite Nat.mod_add by lia. reflexivity. }
        rewrite Ed, Em. cbn [eat]. unfold single, bB, bA.
        rewrite skipn_skipn'. cbn [Nat.mul]. reflexivity.
      * rewrite skipn_length. lia.
      * assert (Ed : r / Bz = S ((r - Bz) / Bz)).
        { replace r with ((r - Bz) + 1 * Bz) at 1 by lia. rewrite Nat.div_add by lia. lia. }
        lia.
    + apply N.leb_gt in E. assert (Hlt : r < Bz) by lia.
      rewrite Nat.div_small, Nat.mod_small by lia. reflexivity.
Qed.
End Loop.

Lemma w32_small x : (x < 4294967296)%N -> w32 x = x.
Proof. intros H. unfold w32. apply wrap_small. exact H. Qed.

Lemma w32_sub b p : (p <= b)%N -> (b < 4294967296)%N -> w32 (b + 4294967296 - p) = (b - p)%N.
Proof.
  intros H1 H2. unfold w32. rewrite wrap_mod. change (2 ^ 32)%N with 4294967296%N.
  replace (b + 4294967296 - p)%N with ((b - p) + 1 * 4294967296)%N by lia.
  rewrite N.mod_add by discriminate. apply N.mod_small. lia.
Qed.

Section Upd.
Variable BA : base_alg.
Hypothesis OK : base_alg_ok BA.
Notation A := (ba_algo BA).
Notation Bz := (a_bsize (ba_algo BA)).

Lemma Bz_cases : (Bz = 64 /\ a_lenfld A = 8) \/ (Bz = 128 /\ a_lenfld A = 16).
Proof. exact (B_cases A (bok_wf BA OK)). Qed.
Lemma Bz_pos : Bz > 0.
Proof. destruct Bz_cases as [[-> _]|[-> _]]; lia. Qed.
Lemma Bz_small : (N.of_nat Bz < 4294967296)%N.
Proof. destruct Bz_cases as [[-> _]|[-> _]]; reflexivity. Qed.

Lemma update_tail pbuf1 d1 buffer1 : length pbuf1 = 2 * Bz ->
  let r := length buffer1 in
  let '(d2, b2, r2) := upd_loop BA r d1 buffer1 (N.of_nat r) in
  let '(pbuf3, plen3) := if (0 <? r2)%N then (splice pbuf1 0 (firstn (N.to_nat r2) b2), r2) else (pbuf1, 0%N) in
  d2 = eat A (r / Bz) d1 buffer1 /\ plen3 = N.of_nat (r mod Bz) /\
  firstn (r mod Bz) pbuf3 = skipn (r / Bz * Bz) buffer1 /\ length pbuf3 = 2 * Bz.
Proof.
  intros Hl r. pose proof Bz_pos as HB.
  rewrite (upd_loop_eat BA HB r d1 buffer1 r (le_n _)).
  2:{ apply Nat.div_le_upper_bound; [lia|]. nia. }
  assert (Hm : r mod Bz < Bz) by (apply Nat.mod_upper_bound; lia).
  assert (Hd : r = Bz * (r / Bz) + r mod Bz) by (apply Nat.div_mod; lia).
  assert (Ls : length (skipn (r / Bz * Bz) buffer1) = r mod Bz) by (rewrite skipn_length; fold r; nia).
  destruct (0 <? N.of_nat (r mod Bz))%N eqn:E.
  - split; [reflexivity|]. split; [reflexivity|]. rewrite Nat2N.id.
    rewrite (@firstn_all2 N (r mod Bz) (skipn (r / Bz * Bz) buffer1)) by lia. split.
    + rewrite <- Ls at 1. replace (length (skipn (r / Bz * Bz) buffer1)) with (0 + length (skipn (r / Bz * Bz) buffer1)) by lia.
      rewrite firstn_splice_end by lia. reflexivity.
    + rewrite length_splice; lia.
  - apply N.ltb_ge in E. assert (E0 : r mod Bz = 0) by lia. rewrite E0 in *.
    split; [reflexivity|]. split; [reflexivity|]. split; [|exact Hl].
    cbn [firstn]. symmetry. apply length_zero_iff_nil. exact Ls.
Qed.

(* the contract of <algo>_update on a context whose partial block buffer holds p < B bytes:
   with data = those p bytes followed by the caller's buffer, every whole block of data is
   compressed in order and the rest is left at the front of the partial block buffer *)
Lemma base_update_spec c buf p :
  b_plen c = N.of_nat p -> p < Bz -> length (b_pbuf c) = 2 * Bz ->
  let data := firstn p (b_pbuf c) ++ buf in
  let k := length data / Bz in
  let c' := base_update BA c buf in
  b_digest c' = eat A k (b_digest c) data /\
  b_plen c' = N.of_nat (length data mod Bz) /\
  firstn (length data mod Bz) (b_pbuf c') = skipn (k * Bz) data /\
  length (b_pbuf c') = 2 * Bz /\
  b_status c' = STS_IDLE /\ b_error c' = b_error c /\
  b_total c' = w64 (b_total c + N.of_nat (length buf)).
Proof.
  intros Hp Hlt Hl data k c'. pose proof Bz_pos as HB. pose proof Bz_small as HS.
  assert (Lt : length (firstn p (b_pbuf c)) = p) by (rewrite firstn_length; lia).
  assert (Ld : length data = p + length buf) by (unfold data; rewrite app_length, Lt; reflexivity).
  subst c'. unfold base_update. unfold bBn, bB, bA. rewrite Hp.
  set (len := length buf) in *.
  destruct (negb (N.of_nat p =? 0)%N || (N.of_nat len <? N.of_nat Bz)%N)%bool eqn:Cond.
  - rewrite w32_sub by lia.
    set (cl0 := (N.of_nat Bz - N.of_nat p)%N).
    set (cl := if (N.of_nat len <? cl0)%N then N.of_nat len else cl0).
    assert (Ecl : cl = N.of_nat (Nat.min (Bz - p) len)).
    { unfold cl, cl0. destruct (N.of_nat len <? N.of_nat Bz - N.of_nat p)%N eqn:E;
        [apply N.ltb_lt in E|apply N.ltb_ge in E]; lia. }
    destruct (cl =? 0)%N eqn:E0.
    + (* nothing to copy: the caller's buffer is empty *)
      apply N.eqb_eq in E0. assert (len = 0) by lia.
      assert (buf = []) by (apply length_zero_iff_nil; assumption). subst buf.
      replace (N.of_nat Bz <=? N.of_nat p)%N with false by (symmetry; apply N.leb_gt; lia).
      assert (Ek : k = 0) by (unfold k; rewrite Ld; apply Nat.div_small; lia).
      assert (Em : length data mod Bz = p) by (rewrite Ld, H, Nat.add_0_r; apply Nat.mod_small; lia).
      rewrite Ek, Em. unfold data. rewrite app_nil_r. cbn [length].
      destruct (N.of_nat p =? 0)%N eqn:Ep0; cbn [upd_loop N.ltb N.compare]; cbn [b_digest b_plen b_pbuf b_status b_error b_total eat Nat.mul skipn];
        repeat split; try reflexivity; try assumption.
    + apply N.eqb_neq in E0.
      set (clz := Nat.min (Bz - p) len) in *.
      assert (Hclz : 0 < clz) by lia.
      replace (N.to_nat cl) with clz by lia. rewrite Nat2N.id.
      assert (Lf : length (firstn clz buf) = clz) by (rewrite firstn_length; fold len; lia).
      rewrite w32_small by lia.
      destruct (N.of_nat Bz <=? N.of_nat p + cl)%N eqn:EB; [apply N.leb_le in EB|apply N.leb_gt in EB].
      * (* the partial block is complete: it is hashed, then whole blocks straight from the buffer *)
        assert (Ecz : clz = Bz - p) by lia.
        cbn [N.eqb].
        set (pbuf' := splice (b_pbuf c) p (firstn clz buf)).
        assert (Lp : length pbuf' = 2 * Bz) by (unfold pbuf'; rewrite length_splice; lia).
        assert (Eblk : firstn Bz pbuf' = firstn p (b_pbuf c) ++ firstn clz buf).
        { unfold pbuf'. replace Bz with (p + length (firstn clz buf)) at 1 by lia.
          apply firstn_splice_end. lia. }
        set (buffer' := skipn clz buf).
        assert (Lb : length buffer' = len - clz) by (unfold buffer'; rewrite skipn_length; reflexivity).
        replace (N.of_nat len - cl)%N with (N.of_nat (length buffer')) by lia.
        pose proof (update_tail pbuf' (single BA pbuf' (b_digest c)) buffer' Lp) as UT. cbv zeta in UT.
        destruct (upd_loop BA (length buffer') (single BA pbuf' (b_digest c)) buffer' (N.of_nat (length buffer')))
          as [[d2 b2] r2].
        destruct (if (0 <? r2)%N then (splice pbuf' 0 (firstn (N.to_nat r2) b2), r2) else (pbuf', 0%N)) as [pbuf3 plen3].
        destruct UT as (U1 & U2 & U3 & U4).
        cbn [b_digest b_plen b_pbuf b_status b_error b_total].
        assert (Ed : data = (firstn p (b_pbuf c) ++ firstn clz buf) ++ buffer').
        { unfold data, buffer'. rewrite <- app_assoc. f_equal. symmetry. apply firstn_skipn. }
        assert (Lblk : length (firstn p (b_pbuf c) ++ firstn clz buf) = Bz) by (rewrite app_length; lia).
        assert (Ek : k = S (length buffer' / Bz)).
        { unfold k. rewrite Ld. replace (p + len) with (length buffer' + 1 * Bz) by lia.
          rewrite Nat.div_add by lia. lia. }
        assert (Em : length data mod Bz = length buffer' mod Bz).
        { rewrite Ld. replace (p + len) with (length buffer' + 1 * Bz) by lia. apply Nat.mod_add. lia. }
        rewrite Ek, Em. split; [|split; [|split; [|split; [|repeat split]]]]; try assumption.
        -- rewrite U1, Ed, eat_app_first by exact Lblk. unfold single, bB, bA. rewrite Eblk. reflexivity.
        -- rewrite U3, Ed. cbn [Nat.mul]. rewrite skipn_app_ge by (rewrite Lblk; apply Nat.le_add_r).
           rewrite Lblk. f_equal. rewrite Nat.add_comm. symmetry. apply Nat.add_sub.
      * (* still less than a block: everything went into the partial block buffer *)
        assert (Ecz : clz = len) by lia.
        assert (Hsum : p + len < Bz) by lia.
        replace (N.of_nat len - cl)%N with 0%N by lia.
        replace (N.of_nat p + cl =? 0)%N with false by (symmetry; apply N.eqb_neq; lia).
        cbn [N.ltb N.compare b_digest b_plen b_pbuf b_status b_error b_total].
        assert (Ek : k = 0) by (unfold k; rewrite Ld; apply Nat.div_small; lia).
        assert (Em : length data mod Bz = p + len) by (rewrite Ld; apply Nat.mod_small; lia).
        rewrite Ek, Em. cbn [eat Nat.mul skipn].
        split; [reflexivity|]. split; [lia|]. split; [|split; [|repeat split]].
        -- rewrite Ecz. rewrite (firstn_all2 (n := len)) by (fold len; lia).
           replace (p + len) with (p + length buf) by reflexivity. apply firstn_splice_end. lia.
        -- rewrite length_splice; lia.
  - (* nothing buffered and at least one whole block in the caller's buffer *)
    apply orb_false_iff in Cond. destruct Cond as [C1 C2].
    apply negb_false_iff in C1. apply N.eqb_eq in C1. apply N.ltb_ge in C2.
    assert (p = 0) by lia. subst p.
    cbn [N.eqb N.of_nat].
    pose proof (update_tail (b_pbuf c) (b_digest c) buf Hl) as UT. cbv zeta in UT. unfold len in *.
    destruct (upd_loop BA (length buf) (b_digest c) buf (N.of_nat (length buf))) as [[d2 b2] r2].
    destruct (if (0 <? r2)%N then (splice (b_pbuf c) 0 (firstn (N.to_nat r2) b2), r2) else (b_pbuf c, 0%N)) as [pbuf3 plen3].
    destruct UT as (U1 & U2 & U3 & U4).
    cbn [b_digest b_plen b_pbuf b_status b_error b_total].
    unfold k. rewrite Ld. cbn [Nat.add]. unfold data. cbn [firstn app].
    repeat split; assumption.
Qed.

End Upd.

Section Final.
Variable BA : base_alg.
Hypothesis OK : base_alg_ok BA.
Notation A := (ba_algo BA).
Notation Bz := (a_bsize (ba_algo BA)).
Notation Fz := (a_lenfld (ba_algo BA)).

Lemma length_store64 x : length (store64 BA x) = 8.
Proof. unfold store64. destruct (ba_len_le BA); [apply length_N_to_le|apply length_N_to_be]. Qed.

(* where the padded data ends: one block, or two when 0x80 and the length field do not fit *)
Definition pad_end (p : nat) : nat := if Bz - Fz <? p + 1 then 2 * Bz else Bz.

Lemma pad_end_cases p : p < Bz ->
  (pad_end p = Bz \/ pad_end p = 2 * Bz) /\ p + 1 + Fz <= pad_end p /\ pad_end p < p + 1 + Fz + Bz /\ 8 <= Fz /\ Fz <= Bz.
Proof.
  unfold pad_end. destruct (Bz_cases BA OK) as [[-> ->]|[-> ->]]; intros Hp;
    (destruct (_ <? _) eqn:E; [apply Nat.ltb_lt in E|apply Nat.ltb_ge in E]); lia.
Qed.

Lemma final_blocks_shape lenval c p :
  b_plen c = N.of_nat p -> p < Bz -> length (b_pbuf c) = 2 * Bz ->
  let e := pad_end p in
  exists buf, final_blocks BA lenval c = (buf, N.of_nat e) /\
    length buf = 2 * Bz /\
    firstn e buf = firstn p (b_pbuf c) ++ [128%N] ++ zeros (e - Fz - (p + 1)) ++ zeros (Fz - 8) ++
                   store64 BA (lenval (b_total c)).
Proof.
  intros Hp Hlt Hl e. pose proof (pad_end_cases p Hlt) as (He & H1 & H2 & H3 & H4). fold e in He, H1, H2.
  pose proof (Bz_small BA OK) as HS.
  unfold final_blocks, final_clear, final_end. rewrite Hp.
  rewrite w32_small by lia.
  assert (Ee : (if (bBn BA - bFn BA <? N.of_nat p + 1)%N then (2 * bBn BA)%N else bBn BA) = N.of_nat e).
  { unfold e, pad_end, bBn, bFn, bB, bA.
    destruct (Bz - Fz <? p + 1) eqn:E; [apply Nat.ltb_lt in E|apply Nat.ltb_ge in E].
    - replace (_ <? _)%N with true by (symmetry; apply N.ltb_lt; lia). lia.
    - replace (_ <? _)%N with false by (symmetry; apply N.ltb_ge; lia). reflexivity. }
  rewrite Ee. rewrite !Nat2N.id. unfold bB, bA.
  set (st := store64 BA (lenval (b_total c))).
  assert (Ls : length st = 8) by apply length_store64.
  set (buf0 := firstn p (b_pbuf c) ++ [128%N] ++ zeros (2 * Bz - (p + 1))).
  assert (Lt : length (firstn p (b_pbuf c)) = p) by (rewrite firstn_length; lia).
  assert (L0 : length buf0 = 2 * Bz).
  { unfold buf0. rewrite !app_length, Lt, length_zeros. cbn [length]. lia. }
  eexists. split; [reflexivity|]. split; [rewrite length_splice; lia|].
  replace e with ((e - 8) + length st) at 1 by lia.
  rewrite firstn_splice_end by lia. rewrite !app_assoc. f_equal. rewrite <- !app_assoc.
  unfold buf0. rewrite firstn_app, Lt. rewrite (@firstn_all2 N (e - 8) (firstn p (b_pbuf c))) by lia. f_equal.
  replace (e - 8 - p) with (S (e - 8 - p - 1)) by lia. cbn [app firstn]. f_equal.
  rewrite firstn_zeros by lia. rewrite <- zeros_app. f_equal. lia.
Qed.

(* the digest <algo>_final leaves: the one or two blocks of the local buffer compressed in order *)
Lemma final_with_spec lenval c p :
  b_plen c = N.of_nat p -> p < Bz -> length (b_pbuf c) = 2 * Bz ->
  let e := pad_end p in
  let buf := fst (final_blocks BA lenval c) in
  final_with BA lenval c =
  {| b_digest := a_final A (fold_left (a_compress A) (chunks Bz (firstn e buf)) (b_digest c));
     b_status := STS_COMPLETE; b_error := b_error c; b_total := b_total c;
     b_pbuf := b_pbuf c; b_plen := b_plen c |}.
Proof.
  intros Hp Hlt Hl e buf. subst buf.
  destruct (final_blocks_shape lenval c p Hp Hlt Hl) as (buf & E & Lb & _). fold e in E.
  unfold final_with. rewrite E. cbn [fst]. f_equal.
  rewrite (bok_final BA OK). pose proof (Bz_pos BA OK) as HB.
  pose proof (pad_end_cases p Hlt) as ([He|He] & _); fold e in He.
  - replace (N.of_nat e =? 2 * bBn BA)%N with false by (symmetry; apply N.eqb_neq; unfold bBn, bB, bA; lia).
    rewrite He. replace (firstn Bz buf) with (firstn (1 * Bz) buf) by (f_equal; lia).
    rewrite eat_chunks by lia. reflexivity.
  - replace (N.of_nat e =? 2 * bBn BA)%N with true by (symmetry; apply N.eqb_eq; unfold bBn, bB, bA; lia).
    rewrite He. rewrite eat_chunks by lia. reflexivity.
Qed.

Ltac Zify.zify_post_hook ::= Z.div_mod_to_equations.
Lemma padz_pad_end n : padz A n = pad_end (n mod Bz) - Fz - (n mod Bz + 1).
Proof.
  unfold padz, pad_end. destruct (Bz_cases BA OK) as [[-> ->]|[-> ->]];
    (destruct (_ <? _) eqn:E; [apply Nat.ltb_lt in E|apply Nat.ltb_ge in E]); lia.
Qed.
Ltac Zify.zify_post_hook ::= idtac.

(* (B2) the final-block construction is the Merkle-Damgard padding of the standard, for every
   total the standard's length field can express with the 64-bit arithmetic of the C *)
Theorem base_final_pad_spec c n :
  b_total c = N.of_nat n -> (N.of_nat n < 2 ^ 61)%N ->
  b_plen c = N.of_nat (n mod Bz) -> length (b_pbuf c) = 2 * Bz ->
  let '(buf, i2) := final_blocks BA (lenval64) c in
  length buf = 2 * Bz /\
  firstn (N.to_nat i2) buf = firstn (n mod Bz) (b_pbuf c) ++ md_pad A n /\
  N.to_nat i2 = n mod Bz + length (md_pad A n).
Proof.
  intros Ht Hn Hp Hl. pose proof (Bz_pos BA OK) as HB.
  assert (Hlt : n mod Bz < Bz) by (apply Nat.mod_upper_bound; lia).
  destruct (final_blocks_shape (lenval64) c _ Hp Hlt Hl) as (buf & E & Lb & Hf).
  rewrite E. rewrite Nat2N.id. split; [exact Lb|].
  pose proof (pad_end_cases _ Hlt) as (_ & H1 & H2 & H3 & H4).
  assert (E8 : lenval64 (b_total c) = (8 * N.of_nat n)%N).
  { unfold lenval64. rewrite Ht. unfold w64. rewrite wrap_small; [lia|].
    change (2 ^ 64)%N with (2 ^ 61 * 8)%N. apply N.mul_lt_mono_pos_r; [reflexivity|exact Hn]. }
  assert (E64 : (8 * N.of_nat n < 2 ^ 64)%N).
  { change (2 ^ 64)%N with (8 * 2 ^ 61)%N. apply N.mul_lt_mono_pos_l; [reflexivity|exact Hn]. }
  split.
  - rewrite Hf. unfold md_pad. rewrite (bok_len BA OK _ E64), E8, <- padz_pad_end. reflexivity.
  - rewrite (length_md_pad A (bok_wf BA OK)), padz_pad_end. lia.
Qed.

End Final.
