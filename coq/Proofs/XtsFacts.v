(* XTS (IEEE 1619) facts used by C03, generic in the data-key block function:
   - the spec's recursion is the instance F := cipher rks of Model.Xts.xts_enc_g;
   - round trip for every length >= 16, with ciphertext stealing and the tweak swap;
   - length preservation; processing a data unit in windows (tweak advanced);
   - the expanded-key entry model on KeyExpansion k equals the raw-key model;
   - fewer than 16 bytes: no output. *)
From Coq Require Import NArith List Bool Arith Lia.
From ISAL Require Import Base.Words Base.ListUtil Spec.AES Spec.XTS Model.KeyExp Model.Xts
  Proofs.WordsFacts Proofs.ListFacts Proofs.ChunkFacts.
From ISAL Require Import Proofs.AesFacts.
Import ListNotations.
Local Open Scope N_scope.

(* ------------------------------------------------------------------ *)
(* the shape of chunks 16 p for length p >= 16 *)

Inductive xshape : list (list N) -> Prop :=
| xs_one b : length b = 16%nat -> xshape [b]
| xs_steal b tl : length b = 16%nat -> (1 <= length tl < 16)%nat -> xshape [b; tl]
| xs_cons b r : length b = 16%nat -> xshape r -> xshape (b :: r).

(* r is not a short singleton: the recursion takes the ordinary branch *)
Definition xnext (r : list (list N)) : Prop :=
  match r with [tl] => (16 <= length tl)%nat | _ => True end.

Lemma xshape_nonempty r : xshape r -> r <> [].
Proof. intros H. inversion H; discriminate. Qed.

Lemma xshape_xnext r : xshape r -> xnext r.
Proof.
  intros H. inversion H as [b Hb|b tl Hb Ht|b r' Hb Hr]; subst; cbn [xnext]; try lia; try exact I.
  destruct r' as [|x y]; [exfalso; eapply xshape_nonempty; eauto|exact I].
Qed.

Lemma full_xnext r : Forall (fun b => length b = 16%nat) r -> xnext r.
Proof.
  intros H. destruct r as [|x [|y z]]; cbn [xnext]; try exact I.
  inversion H; subst. lia.
Qed.

Lemma chunks_short {A} (l : list A) n : (n > 0)%nat -> l <> [] -> (length l <= n)%nat -> chunks n l = [l].
Proof.
  intros Hn Hl Hle. rewrite chunks_cons by assumption.
  rewrite firstn_all2 by exact Hle. rewrite skipn_all2 by exact Hle. reflexivity.
Qed.

Lemma chunks_xshape p : (16 <= length p)%nat -> xshape (chunks 16 p).
Proof.
  remember (length p) as m eqn:Hm. revert p Hm. induction m as [m IH] using lt_wf_ind. intros p Hm Hge.
  assert (Hne : p <> []) by (intros ->; cbn in Hm; lia).
  rewrite chunks_cons by (try lia; exact Hne).
  assert (Hf : length (firstn 16 p) = 16%nat) by (rewrite firstn_length; lia).
  assert (Hs : length (skipn 16 p) = (m - 16)%nat) by (rewrite skipn_length; lia).
  destruct (Nat.eq_dec (m - 16) 0) as [E|E].
  - destruct (skipn 16 p); [|cbn in Hs; lia]. apply xs_one. exact Hf.
  - destruct (Nat.lt_ge_cases (m - 16) 16) as [L|L].
    + rewrite chunks_short by (try lia; intros E'; rewrite E' in Hs; cbn in Hs; lia).
      apply xs_steal; [exact Hf|lia].
    + apply xs_cons; [exact Hf|]. apply (IH (m - 16)%nat); lia.
Qed.

Lemma concat_chunks {A} n (l : list A) : (n > 0)%nat -> concat (chunks n l) = l.
Proof.
  intros Hn. remember (length l) as m eqn:Hm. revert l Hm. induction m as [m IH] using lt_wf_ind. intros l Hm.
  destruct l as [|a l']; [reflexivity|].
  rewrite chunks_cons by (try assumption; discriminate). cbn [concat].
  rewrite (IH (length (skipn n (a :: l')))); [apply firstn_skipn| |reflexivity].
  rewrite skipn_length. subst m. cbn [length]. lia.
Qed.

Lemma chunks_concat n (l : list (list N)) : (n > 0)%nat -> Forall (fun c => length c = n) l -> chunks n (concat l) = l.
Proof.
  intros Hn H. induction H as [|c l Hc Hl IH]; [reflexivity|].
  cbn [concat]. rewrite chunks_app by (try assumption; exists 1%nat; lia).
  rewrite chunks_exact by assumption. rewrite IH. reflexivity.
Qed.

(* ------------------------------------------------------------------ *)
(* tweaks *)

Lemma N_to_le_length n x : length (N_to_le n x) = n.
Proof. revert x. induction n as [|n IH]; intros x; [reflexivity|]. cbn [N_to_le length]. rewrite IH. reflexivity. Qed.

Lemma N_to_le_bytes n x : bytes (N_to_le n x).
Proof.
  revert x. induction n as [|n IH]; intros x; [constructor|]. cbn [N_to_le]. constructor; [|apply IH].
  change 255 with (N.ones 8). rewrite N.land_ones. apply N.mod_lt. discriminate.
Qed.

Lemma xts_mul_alpha_wfb t : wfb (xts_mul_alpha t).
Proof. unfold xts_mul_alpha. split; [apply N_to_le_length|apply N_to_le_bytes]. Qed.

Lemma xts_mul_alpha_len16 t : length (xts_mul_alpha t) = 16%nat.
Proof. apply xts_mul_alpha_wfb. Qed.

Lemma xts_tweak_pow_S n t : xts_tweak_pow (S n) t = xts_tweak_pow n (xts_mul_alpha t).
Proof. reflexivity. Qed.

Lemma c_xts_tweak_pow_add a b t : xts_tweak_pow (a + b) t = xts_tweak_pow b (xts_tweak_pow a t).
Proof. revert t. induction a as [|a IH]; intros t; [reflexivity|]. cbn [plus xts_tweak_pow]. apply IH. Qed.

Lemma xts_tweak_pow_len16 n t : length t = 16%nat -> length (xts_tweak_pow n t) = 16%nat.
Proof. revert t. induction n as [|n IH]; intros t H; [exact H|]. cbn [xts_tweak_pow]. apply IH, xts_mul_alpha_len16. Qed.

(* ------------------------------------------------------------------ *)
(* one step of the recursions *)

Section Steps.
  Variable F : list N -> list N.

  Lemma xts_enc_g_next t b r : xnext r ->
    xts_enc_g F t (b :: r) = xts_blk F t b ++ xts_enc_g F (xts_mul_alpha t) r.
  Proof.
    intros H. destruct r as [|tl [|x y]]; try reflexivity.
    cbn [xnext] in H. change (xts_enc_g F t [b; tl]) with
      (if Nat.ltb (length tl) 16 then xts_blk F (xts_mul_alpha t) (tl ++ skipn (length tl) (xts_blk F t b)) ++ firstn (length tl) (xts_blk F t b)
       else xts_blk F t b ++ xts_enc_g F (xts_mul_alpha t) [tl]).
    destruct (Nat.ltb_spec (length tl) 16); [lia|reflexivity].
  Qed.

  Lemma xts_dec_g_next t b r : xnext r ->
    xts_dec_g F t (b :: r) = xts_blk F t b ++ xts_dec_g F (xts_mul_alpha t) r.
  Proof.
    intros H. destruct r as [|tl [|x y]]; try reflexivity.
    cbn [xnext] in H. change (xts_dec_g F t [b; tl]) with
      (if Nat.ltb (length tl) 16 then xts_blk F t (tl ++ skipn (length tl) (xts_blk F (xts_mul_alpha t) b)) ++ firstn (length tl) (xts_blk F (xts_mul_alpha t) b)
       else xts_blk F t b ++ xts_dec_g F (xts_mul_alpha t) [tl]).
    destruct (Nat.ltb_spec (length tl) 16); [lia|reflexivity].
  Qed.

  Lemma xts_enc_g_steal t b tl : (length tl < 16)%nat ->
    xts_enc_g F t [b; tl] =
    xts_blk F (xts_mul_alpha t) (tl ++ skipn (length tl) (xts_blk F t b)) ++ firstn (length tl) (xts_blk F t b).
  Proof.
    intros H. change (xts_enc_g F t [b; tl]) with
      (if Nat.ltb (length tl) 16 then xts_blk F (xts_mul_alpha t) (tl ++ skipn (length tl) (xts_blk F t b)) ++ firstn (length tl) (xts_blk F t b)
       else xts_blk F t b ++ xts_enc_g F (xts_mul_alpha t) [tl]).
    destruct (Nat.ltb_spec (length tl) 16); [reflexivity|lia].
  Qed.

  Lemma xts_dec_g_steal t b tl : (length tl < 16)%nat ->
    xts_dec_g F t [b; tl] =
    xts_blk F t (tl ++ skipn (length tl) (xts_blk F (xts_mul_alpha t) b)) ++ firstn (length tl) (xts_blk F (xts_mul_alpha t) b).
  Proof.
    intros H. change (xts_dec_g F t [b; tl]) with
      (if Nat.ltb (length tl) 16 then xts_blk F t (tl ++ skipn (length tl) (xts_blk F (xts_mul_alpha t) b)) ++ firstn (length tl) (xts_blk F (xts_mul_alpha t) b)
       else xts_blk F t b ++ xts_dec_g F (xts_mul_alpha t) [tl]).
    destruct (Nat.ltb_spec (length tl) 16); [reflexivity|lia].
  Qed.

  (* lengths: F maps 16-byte blocks to 16-byte blocks *)
  Hypothesis F_len : forall x, length x = 16%nat -> length (F x) = 16%nat.

  Lemma xts_blk_len16 t b : length t = 16%nat -> length b = 16%nat -> length (xts_blk F t b) = 16%nat.
  Proof. intros Ht Hb. unfold xts_blk. apply xorb_list_len16; [|exact Ht]. apply F_len, xorb_list_len16; assumption. Qed.

  Lemma steal_block_len16 (tl cc : list N) : (length tl < 16)%nat -> length cc = 16%nat ->
    length (tl ++ skipn (length tl) cc) = 16%nat.
  Proof. intros Ht Hc. rewrite app_length, skipn_length. lia. Qed.

  Lemma xts_enc_g_length cs : xshape cs -> forall t, length t = 16%nat ->
    length (xts_enc_g F t cs) = length (concat cs).
  Proof.
    intros H. induction H as [b Hb|b tl Hb Ht|b r Hb Hr IH]; intros t Hlt.
    - rewrite xts_enc_g_next by exact I. cbn [xts_enc_g concat]. rewrite !app_length, xts_blk_len16 by assumption. cbn [length]. lia.
    - rewrite xts_enc_g_steal by lia. cbn [concat]. rewrite !app_length, firstn_length.
      assert (Hcc : length (xts_blk F t b) = 16%nat) by (apply xts_blk_len16; assumption).
      rewrite xts_blk_len16; [cbn [length]; lia|apply xts_mul_alpha_len16|apply steal_block_len16; [lia|exact Hcc]].
    - rewrite xts_enc_g_next by (apply xshape_xnext; exact Hr). cbn [concat].
      rewrite !app_length, xts_blk_len16, IH by (try assumption; apply xts_mul_alpha_len16). lia.
  Qed.

  Lemma xts_dec_g_length cs : xshape cs -> forall t, length t = 16%nat ->
    length (xts_dec_g F t cs) = length (concat cs).
  Proof.
    intros H. induction H as [b Hb|b tl Hb Ht|b r Hb Hr IH]; intros t Hlt.
    - rewrite xts_dec_g_next by exact I. cbn [xts_dec_g concat]. rewrite !app_length, xts_blk_len16 by assumption. cbn [length]. lia.
    - rewrite xts_dec_g_steal by lia. cbn [concat]. rewrite !app_length, firstn_length.
      assert (Hpp : length (xts_blk F (xts_mul_alpha t) b) = 16%nat) by (apply xts_blk_len16; [apply xts_mul_alpha_len16|exact Hb]).
      rewrite xts_blk_len16; [cbn [length]; lia|exact Hlt|apply steal_block_len16; [lia|exact Hpp]].
    - rewrite xts_dec_g_next by (apply xshape_xnext; exact Hr). cbn [concat].
      rewrite !app_length, xts_blk_len16, IH by (try assumption; apply xts_mul_alpha_len16). lia.
  Qed.

  (* a data unit processed in windows: full blocks first, the tweak advanced for the rest *)
  Lemma xts_enc_g_app cs1 cs2 t : Forall (fun b => length b = 16%nat) cs1 -> xshape cs2 ->
    xts_enc_g F t (cs1 ++ cs2) = xts_enc_g F t cs1 ++ xts_enc_g F (xts_tweak_pow (length cs1) t) cs2.
  Proof.
    intros H1 H2. revert t. induction H1 as [|b cs1 Hb H1 IH]; intros t; [reflexivity|].
    cbn [app length]. rewrite xts_tweak_pow_S.
    rewrite (xts_enc_g_next t b cs1) by (apply full_xnext; exact H1).
    rewrite xts_enc_g_next.
    - rewrite IH, app_assoc. reflexivity.
    - destruct cs1 as [|x y]; [apply xshape_xnext; exact H2|].
      cbn [app]. destruct (y ++ cs2) eqn:E; [|exact I].
      apply app_eq_nil in E. destruct E as [_ E]. exfalso. eapply xshape_nonempty; eauto.
  Qed.

  Lemma xts_dec_g_app cs1 cs2 t : Forall (fun b => length b = 16%nat) cs1 -> xshape cs2 ->
    xts_dec_g F t (cs1 ++ cs2) = xts_dec_g F t cs1 ++ xts_dec_g F (xts_tweak_pow (length cs1) t) cs2.
  Proof.
    intros H1 H2. revert t. induction H1 as [|b cs1 Hb H1 IH]; intros t; [reflexivity|].
    cbn [app length]. rewrite xts_tweak_pow_S.
    rewrite (xts_dec_g_next t b cs1) by (apply full_xnext; exact H1).
    rewrite xts_dec_g_next.
    - rewrite IH, app_assoc. reflexivity.
    - destruct cs1 as [|x y]; [apply xshape_xnext; exact H2|].
      cbn [app]. destruct (y ++ cs2) eqn:E; [|exact I].
      apply app_eq_nil in E. destruct E as [_ E]. exfalso. eapply xshape_nonempty; eauto.
  Qed.
End Steps.

(* two block functions that agree on 16-byte blocks give the same decryption *)
Lemma xts_dec_g_ext F G cs :
  (forall x, length x = 16%nat -> F x = G x) -> (forall x, length x = 16%nat -> length (G x) = 16%nat) ->
  xshape cs -> forall t, length t = 16%nat -> xts_dec_g F t cs = xts_dec_g G t cs.
Proof.
  intros HFG HG H.
  assert (Hblk : forall t b, length t = 16%nat -> length b = 16%nat -> xts_blk F t b = xts_blk G t b).
  { intros t b Ht Hb. unfold xts_blk. rewrite HFG by (apply xorb_list_len16; assumption). reflexivity. }
  induction H as [b Hb|b tl Hb Ht|b r Hb Hr IH]; intros t Hlt.
  - rewrite !xts_dec_g_next by exact I. rewrite Hblk by assumption. reflexivity.
  - rewrite !xts_dec_g_steal by lia.
    rewrite (Hblk (xts_mul_alpha t) b) by (try apply xts_mul_alpha_len16; assumption).
    rewrite Hblk; [reflexivity|exact Hlt|].
    apply steal_block_len16; [lia|]. apply xts_blk_len16; [exact HG|apply xts_mul_alpha_len16|exact Hb].
  - rewrite !xts_dec_g_next by (apply xshape_xnext; exact Hr).
    rewrite Hblk, IH by (try assumption; apply xts_mul_alpha_len16). reflexivity.
Qed.

(* ------------------------------------------------------------------ *)
(* round trip, generic in a block permutation *)

Section RoundTrip.
  Variables E D : list N -> list N.
  Hypothesis E_wfb : forall b, wfb b -> wfb (E b).
  Hypothesis D_E : forall b, wfb b -> D (E b) = b.

  Lemma xts_blk_wfb t b : wfb t -> wfb b -> wfb (xts_blk E t b).
  Proof. intros Ht Hb. unfold xts_blk. apply xorb_list_wfb; [|exact Ht]. apply E_wfb, xorb_list_wfb; assumption. Qed.

  Lemma xts_blk_D_E t b : wfb t -> wfb b -> xts_blk D t (xts_blk E t b) = b.
  Proof.
    intros Ht Hb. unfold xts_blk.
    assert (Hx : wfb (xorb_list b t)) by (apply xorb_list_wfb; assumption).
    rewrite xorb_list_cancel by (destruct Ht, (E_wfb _ Hx); congruence).
    rewrite D_E by exact Hx. apply xorb_list_cancel. destruct Ht, Hb; congruence.
  Qed.

  Lemma E_len16_bytes b : wfb b -> length (E b) = 16%nat.
  Proof. intros H. apply E_wfb, H. Qed.

  Lemma xts_round_trip_g cs : xshape cs -> Forall bytes cs -> forall t, wfb t ->
    let c := xts_enc_g E t cs in
    length c = length (concat cs) /\ bytes c /\ xts_dec_g D t (chunks 16 c) = concat cs.
  Proof.
    intros H. induction H as [b Hb|b tl Hb Ht|b r Hb Hr IH]; intros HB t Hwt; cbv zeta.
    - inversion HB as [|? ? Bb _]; subst.
      assert (Wb : wfb b) by (split; assumption).
      pose proof (xts_blk_wfb t b Hwt Wb) as [Lc Bc].
      rewrite xts_enc_g_next by exact I. cbn [xts_enc_g concat]. rewrite !app_nil_r.
      split; [congruence|]. split; [exact Bc|].
      rewrite chunks_exact by (try lia; exact Lc). rewrite xts_dec_g_next by exact I.
      cbn [xts_dec_g]. rewrite app_nil_r. apply xts_blk_D_E; assumption.
    - inversion HB as [|? ? Bb HB']; subst. inversion HB' as [|? ? Bt _]; subst.
      assert (Wb : wfb b) by (split; assumption).
      rewrite xts_enc_g_steal by lia.
      set (n := length tl). set (cc := xts_blk E t b).
      assert (Wcc : wfb cc) by (apply xts_blk_wfb; assumption).
      assert (Wst : wfb (tl ++ skipn n cc)).
      { destruct Wcc as [Lcc Bcc]. split; [apply steal_block_len16; [subst n; lia|exact Lcc]|].
        apply Forall_app. split; [exact Bt|apply Forall_skipn'; exact Bcc]. }
      assert (Wa : wfb (xts_mul_alpha t)) by apply xts_mul_alpha_wfb.
      set (c0 := xts_blk E (xts_mul_alpha t) (tl ++ skipn n cc)).
      assert (Wc0 : wfb c0) by (apply xts_blk_wfb; assumption).
      assert (Lc1 : length (firstn n cc) = n) by (rewrite firstn_length; destruct Wcc; subst n; lia).
      cbn [concat]. rewrite app_nil_r. split; [rewrite !app_length, Lc1; destruct Wc0; subst n; lia|].
      split; [apply Forall_app; split; [apply Wc0|apply Forall_firstn'; apply Wcc]|].
      rewrite chunks_app by (try lia; exists 1%nat; destruct Wc0; lia).
      rewrite chunks_exact by (try lia; apply Wc0).
      rewrite chunks_short by (try lia; intros E0; rewrite E0 in Lc1; cbn in Lc1; subst n; lia).
      cbn [app]. rewrite xts_dec_g_steal by (rewrite Lc1; subst n; lia). rewrite Lc1.
      subst c0. rewrite xts_blk_D_E by assumption.
      rewrite skipn_app_exact by reflexivity. rewrite firstn_app_exact by reflexivity.
      rewrite firstn_skipn. subst cc. rewrite xts_blk_D_E by assumption. reflexivity.
    - inversion HB as [|? ? Bb HB']; subst.
      assert (Wb : wfb b) by (split; assumption).
      assert (Wa : wfb (xts_mul_alpha t)) by apply xts_mul_alpha_wfb.
      destruct (IH HB' _ Wa) as (L & B & R).
      pose proof (xts_blk_wfb t b Hwt Wb) as Wc.
      rewrite xts_enc_g_next by (apply xshape_xnext; exact Hr). cbn [concat].
      split; [rewrite !app_length, L; destruct Wc; lia|].
      split; [apply Forall_app; split; [apply Wc|exact B]|].
      rewrite chunks_app by (try lia; exists 1%nat; destruct Wc; lia).
      rewrite chunks_exact by (try lia; apply Wc). cbn [app].
      assert (Hge : (16 <= length (concat r))%nat).
      { clear -Hr. induction Hr; cbn [concat]; rewrite ?app_length; cbn [length]; lia. }
      rewrite xts_dec_g_next by (apply xshape_xnext, chunks_xshape; lia).
      rewrite R, xts_blk_D_E by assumption. reflexivity.
  Qed.
End RoundTrip.

(* ------------------------------------------------------------------ *)
(* the spec is the instance F := Cipher / InvCipher under the data key *)

Lemma xts_enc_chunks_g rks t cs : xts_enc_chunks rks t cs = xts_enc_g (cipher rks) t cs.
Proof.
  revert t. induction cs as [|b r IH]; intros t; [reflexivity|].
  destruct r as [|tl [|x y]].
  - reflexivity.
  - change (xts_enc_chunks rks t [b; tl]) with
      (if Nat.ltb (length tl) 16 then xts_blk_enc rks (xts_mul_alpha t) (tl ++ skipn (length tl) (xts_blk_enc rks t b)) ++ firstn (length tl) (xts_blk_enc rks t b)
       else xts_blk_enc rks t b ++ xts_enc_chunks rks (xts_mul_alpha t) [tl]).
    change (xts_enc_g (cipher rks) t [b; tl]) with
      (if Nat.ltb (length tl) 16 then xts_blk (cipher rks) (xts_mul_alpha t) (tl ++ skipn (length tl) (xts_blk (cipher rks) t b)) ++ firstn (length tl) (xts_blk (cipher rks) t b)
       else xts_blk (cipher rks) t b ++ xts_enc_g (cipher rks) (xts_mul_alpha t) [tl]).
    rewrite IH. reflexivity.
  - change (xts_enc_chunks rks t (b :: tl :: x :: y)) with (xts_blk_enc rks t b ++ xts_enc_chunks rks (xts_mul_alpha t) (tl :: x :: y)).
    change (xts_enc_g (cipher rks) t (b :: tl :: x :: y)) with (xts_blk (cipher rks) t b ++ xts_enc_g (cipher rks) (xts_mul_alpha t) (tl :: x :: y)).
    rewrite IH. reflexivity.
Qed.

Lemma xts_dec_chunks_g rks t cs : xts_dec_chunks rks t cs = xts_dec_g (inv_cipher rks) t cs.
Proof.
  revert t. induction cs as [|b r IH]; intros t; [reflexivity|].
  destruct r as [|tl [|x y]].
  - reflexivity.
  - change (xts_dec_chunks rks t [b; tl]) with
      (if Nat.ltb (length tl) 16 then xts_blk_dec rks t (tl ++ skipn (length tl) (xts_blk_dec rks (xts_mul_alpha t) b)) ++ firstn (length tl) (xts_blk_dec rks (xts_mul_alpha t) b)
       else xts_blk_dec rks t b ++ xts_dec_chunks rks (xts_mul_alpha t) [tl]).
    change (xts_dec_g (inv_cipher rks) t [b; tl]) with
      (if Nat.ltb (length tl) 16 then xts_blk (inv_cipher rks) t (tl ++ skipn (length tl) (xts_blk (inv_cipher rks) (xts_mul_alpha t) b)) ++ firstn (length tl) (xts_blk (inv_cipher rks) (xts_mul_alpha t) b)
       else xts_blk (inv_cipher rks) t b ++ xts_dec_g (inv_cipher rks) (xts_mul_alpha t) [tl]).
    rewrite IH. reflexivity.
  - change (xts_dec_chunks rks t (b :: tl :: x :: y)) with (xts_blk_dec rks t b ++ xts_dec_chunks rks (xts_mul_alpha t) (tl :: x :: y)).
    change (xts_dec_g (inv_cipher rks) t (b :: tl :: x :: y)) with (xts_blk (inv_cipher rks) t b ++ xts_dec_g (inv_cipher rks) (xts_mul_alpha t) (tl :: x :: y)).
    rewrite IH. reflexivity.
Qed.

(* ------------------------------------------------------------------ *)
(* the C03 statements *)

Definition valid_key (k : list N) : Prop := valid_key_len (length k) = true /\ bytes k.

Lemma xts_tweak0_wfb k2 tw : valid_key k2 -> wfb tw -> wfb (xts_tweak0 k2 tw).
Proof. intros [V B] Ht. unfold xts_tweak0, aes_enc. apply cipher_wfb; [apply key_expansion_wf; assumption|exact Ht]. Qed.

Lemma ltb16_false n : (16 <= n)%nat -> Nat.ltb n 16 = false.
Proof. intros. apply Nat.ltb_ge. assumption. Qed.

Lemma c_xts_enc_length : forall k1 k2 tw p, valid_key k1 -> valid_key k2 -> wfb tw -> bytes p -> (16 <= length p)%nat ->
  length (xts_enc k1 k2 tw p) = length p.
Proof.
  intros k1 k2 tw p [V1 B1] K2 Ht Bp Hp. unfold xts_enc. rewrite ltb16_false by exact Hp.
  rewrite xts_enc_chunks_g, xts_enc_g_length, concat_chunks; try lia.
  - intros x Hx. apply cipher_len16; [apply key_expansion_len_sched; exact V1|exact Hx].
  - apply chunks_xshape. exact Hp.
  - apply xts_tweak0_wfb; assumption.
Qed.

Lemma c_xts_dec_length : forall k1 k2 tw c, valid_key k1 -> valid_key k2 -> wfb tw -> (16 <= length c)%nat ->
  length (xts_dec k1 k2 tw c) = length c.
Proof.
  intros k1 k2 tw c [V1 B1] K2 Ht Hc. unfold xts_dec. rewrite ltb16_false by exact Hc.
  rewrite xts_dec_chunks_g, xts_dec_g_length, concat_chunks; try lia.
  - intros x Hx. apply inv_cipher_len16; [apply key_expansion_len_sched; exact V1|exact Hx].
  - apply chunks_xshape. exact Hc.
  - apply xts_tweak0_wfb; assumption.
Qed.

Lemma c_xts_dec_enc : forall k1 k2 tw p, valid_key k1 -> valid_key k2 -> wfb tw -> bytes p -> (16 <= length p)%nat ->
  xts_dec k1 k2 tw (xts_enc k1 k2 tw p) = p.
Proof.
  intros k1 k2 tw p [V1 B1] K2 Ht Bp Hp.
  pose proof (c_xts_enc_length k1 k2 tw p (conj V1 B1) K2 Ht Bp Hp) as L.
  unfold xts_dec. rewrite ltb16_false by lia. clear L.
  unfold xts_enc. rewrite ltb16_false by exact Hp.
  rewrite xts_enc_chunks_g, xts_dec_chunks_g.
  assert (W : wf_sched (key_expansion k1)) by (apply key_expansion_wf; assumption).
  destruct (xts_round_trip_g (cipher (key_expansion k1)) (inv_cipher (key_expansion k1))
              (fun b Hb => cipher_wfb _ b W Hb) (fun b Hb => c_inv_cipher_cipher _ b W Hb)
              (chunks 16 p) (chunks_xshape p Hp) (chunks_Forall _ 16 p ltac:(lia) Bp)
              (xts_tweak0 k2 tw) (xts_tweak0_wfb k2 tw K2 Ht)) as (_ & _ & R).
  rewrite R. apply concat_chunks. lia.
Qed.

(* the swap of the last two tweaks on decryption, made explicit for one full block followed by
   a partial one (every longer data unit reduces to this by xts_dec_g_next) *)
Lemma c_xts_steal_swap : forall rks t b tl, (length tl < 16)%nat ->
  xts_dec_chunks rks t [b; tl] =
  let pp := xts_blk_dec rks (xts_mul_alpha t) b in
  xts_blk_dec rks t (tl ++ skipn (length tl) pp) ++ firstn (length tl) pp.
Proof. intros. rewrite xts_dec_chunks_g, xts_dec_g_steal by assumption. reflexivity. Qed.

(* schedules as found in memory *)
Lemma key_expansion_len_sched_any k : len_sched (key_expansion k).
Proof.
  destruct (valid_key_len (length k)) eqn:V; [apply key_expansion_len_sched; exact V|].
  unfold key_expansion. rewrite V. constructor.
Qed.

Lemma dec_schedule_len_sched rks : len_sched rks -> len_sched (dec_schedule rks).
Proof.
  intros H. destruct rks as [|first r]; [constructor|].
  destruct r as [|last inner _] using rev_ind; [exact H|].
  rewrite c_dec_schedule_layout. inversion H as [|? ? Hf Hr]; subst. apply Forall_app in Hr. destruct Hr as [Hi Hl].
  inversion Hl; subst. constructor; [assumption|]. apply Forall_app. split; [|constructor; [assumption|constructor]].
  unfold len_sched in *. rewrite Forall_map. apply Forall_rev. eapply Forall_impl; [|exact Hi].
  intros a Ha. apply inv_mix_columns_len16. exact Ha.
Qed.

Lemma sched_of_bytes_keyexp_enc k : sched_of_bytes (keyexp_enc k) = key_expansion k.
Proof. unfold sched_of_bytes, keyexp_enc. apply chunks_concat; [lia|apply key_expansion_len_sched_any]. Qed.

Lemma sched_of_bytes_keyexp_dec k : sched_of_bytes (keyexp_dec k) = dec_schedule (key_expansion k).
Proof.
  unfold sched_of_bytes, keyexp_dec. apply chunks_concat; [lia|].
  apply dec_schedule_len_sched, key_expansion_len_sched_any.
Qed.

Lemma c_xts_enc_expanded_eq_raw : forall k2 k1 tw p,
  xts_enc_exp (keyexp_enc k2) (keyexp_enc k1) tw p = xts_enc_raw k2 k1 tw p.
Proof.
  intros. unfold xts_enc_exp, xts_enc_raw, xts_enc. rewrite !sched_of_bytes_keyexp_enc.
  destruct (Nat.ltb (length p) 16); [reflexivity|]. rewrite xts_enc_chunks_g. reflexivity.
Qed.

Lemma c_xts_dec_expanded_eq_raw : forall k2 k1 tw c, length tw = 16%nat ->
  xts_dec_exp (keyexp_enc k2) (keyexp_dec k1) tw c = xts_dec_raw k2 k1 tw c.
Proof.
  intros k2 k1 tw c Ht. unfold xts_dec_exp, xts_dec_raw, xts_dec.
  rewrite sched_of_bytes_keyexp_enc, sched_of_bytes_keyexp_dec.
  destruct (Nat.ltb_spec (length c) 16) as [H|H]; [reflexivity|].
  rewrite xts_dec_chunks_g. unfold xts_tweak0, aes_enc.
  pose proof (key_expansion_len_sched_any k1) as L1.
  apply xts_dec_g_ext.
  - intros x Hx. apply c_eq_inv_cipher; assumption.
  - intros x Hx. apply inv_cipher_len16; assumption.
  - apply chunks_xshape. exact H.
  - apply cipher_len16; [apply key_expansion_len_sched_any|exact Ht].
Qed.

Lemma c_xts_short_noop : forall k2 k1 ek2 ek1 dk1 tw p, (length p < 16)%nat ->
  xts_enc_raw k2 k1 tw p = [] /\ xts_dec_raw k2 k1 tw p = [] /\
  xts_enc_exp ek2 ek1 tw p = [] /\ xts_dec_exp ek2 dk1 tw p = [].
Proof.
  intros. unfold xts_enc_raw, xts_dec_raw, xts_enc, xts_dec, xts_enc_exp, xts_dec_exp.
  destruct (Nat.ltb_spec (length p) 16); [auto|lia].
Qed.

(* evaluating the spec on windows of a long data unit *)
Lemma c_xts_enc_chunks_app : forall rks t cs1 cs2, len_sched rks ->
  Forall (fun b => length b = 16%nat) cs1 -> xshape cs2 ->
  xts_enc_chunks rks t (cs1 ++ cs2) = xts_enc_chunks rks t cs1 ++ xts_enc_chunks rks (xts_tweak_pow (length cs1) t) cs2.
Proof. intros. rewrite !xts_enc_chunks_g. apply xts_enc_g_app; assumption. Qed.

Lemma c_xts_dec_chunks_app : forall rks t cs1 cs2, len_sched rks ->
  Forall (fun b => length b = 16%nat) cs1 -> xshape cs2 ->
  xts_dec_chunks rks t (cs1 ++ cs2) = xts_dec_chunks rks t cs1 ++ xts_dec_chunks rks (xts_tweak_pow (length cs1) t) cs2.
Proof. intros. rewrite !xts_dec_chunks_g. apply xts_dec_g_app; assumption. Qed.
