(* ckernels vertical — the translated murmur3 kernels equal Spec/Murmur3.v for all inputs. *)
From Coq Require Import NArith ZArith List Lia Bool Arith ZifyN.
From ISAL Require Import Base.Words Base.ListUtil Proofs.WordsFacts Proofs.ChunkFacts Spec.Murmur3
  Model.CKernel Proofs.CKernelFacts Gen.CKernelGen Model.CKernelMurmur.
Import ListNotations.
Local Open Scope N_scope.

(* ---------------------------------------------------------------- list facts *)

Lemma length_chunks_mult {A} n : (n > 0)%nat -> forall k (l : list A), length l = (k * n)%nat -> length (chunks n l) = k.
Proof.
  intros Hn. induction k as [|k IH]; intros l Hl.
  - destruct l; [reflexivity|cbn in Hl; lia].
  - rewrite chunks_cons by (first [lia | intros ->; cbn in Hl; lia]). cbn [length]. f_equal.
    apply IH. rewrite skipn_length. lia.
Qed.

(* word j of the little-endian k-byte view of a byte string *)
Lemma le_words_nth k (Hk : (k > 0)%nat) (pre blk rest : list N) j :
  length pre = (j * k)%nat -> length blk = k ->
  nth_error (le_words k (pre ++ blk ++ rest)) j = Some (le_to_N blk).
Proof.
  intros Hp Hb. unfold le_words.
  rewrite chunks_app by (first [lia | exists j; exact Hp]). rewrite map_app.
  rewrite nth_error_app2 by (rewrite map_length, (length_chunks_mult k Hk j pre Hp); lia).
  rewrite map_length, (length_chunks_mult k Hk j pre Hp), Nat.sub_diag.
  rewrite chunks_cons by (first [lia | destruct blk; [cbn in Hb; lia|discriminate]]).
  cbn [map nth_error]. rewrite firstn_app_exact by (symmetry; exact Hb). reflexivity.
Qed.

Lemma le_words_length k (Hk : (k > 0)%nat) (l : list N) j : length l = (j * k)%nat -> length (le_words k l) = j.
Proof. intros H. unfold le_words. rewrite map_length. apply length_chunks_mult; assumption. Qed.

(* ---------------------------------------------------------------- small arithmetic *)

Ltac w32 := change (2 ^ 32) with 4294967296 in *; change (2 ^ 31) with 2147483648 in *.

Lemma wrap32_small x : x < 2 ^ 32 -> wrap 32 x = x.
Proof. apply wrap_small. Qed.

Ltac Zify.zify_post_hook ::= Z.to_euclidean_division_equations.
Ltac solve_idx :=
  unfold wrap; rewrite ?N.land_ones; w32; lia.

(* a load from a word-celled object whose cells are an abstract list *)
Lemma load_abs (cells : list N) idx j v :
  idx = j -> j < N.of_nat (length cells) -> nth_error cells (N.to_nat j) = Some v ->
  (if idx <? N.of_nat (length cells) then nth_error cells (N.to_nat idx) else None) = Some v.
Proof. intros -> Hj Hn. destruct (N.ltb_spec j (N.of_nat (length cells))); [exact Hn|lia]. Qed.

Ltac ck_bound :=
  repeat first [ assumption | apply wrap_lt | apply rol_lt | apply lxor_lt | apply lor_lt
               | apply shiftr_lt_same ].

Ltac rol_norm :=
  repeat match goal with
  | |- context [N.lor (wrap ?k (N.shiftl ?x ?r)) (N.shiftr ?x ?s)] =>
      rewrite (rol_from_shifts k x r s) by (first [ reflexivity | ck_bound ])
  | |- context [N.lxor (wrap ?k (N.shiftl ?x ?r)) (N.shiftr ?x ?s)] =>
      rewrite (rol_from_shifts_xor k x r s) by (first [ reflexivity | ck_bound ])
  end.

(* explicit list from a length hypothesis *)
Ltac explode vars H :=
  repeat (destruct vars as [|? vars]; cbn [length] in H; try discriminate H).

(* ================================================================ _murmur3_x64_128_block *)

Definition blk_split := Eval vm_compute in split_while c_murmur3_block_body.
Definition blk_pre := Eval vm_compute in match blk_split with Some (a, _, _) => a | None => [] end.
Definition blk_p := Eval vm_compute in match blk_split with Some (_, (p, _, _), _) => p | None => [] end.
Definition blk_c := Eval vm_compute in match blk_split with Some (_, (_, c, _), _) => c | None => EConst 0 end.
Definition blk_b := Eval vm_compute in match blk_split with Some (_, (_, _, b), _) => b | None => [] end.
Definition blk_post := Eval vm_compute in match blk_split with Some (_, _, z) => z | None => [] end.
(* the loop counter and the bound: `while (i < num_blocks)` *)
Definition blk_ci := Eval vm_compute in match blk_c with ECmp CLt (EVar i) (EVar _) => i | _ => 0%nat end.
Definition blk_cn := Eval vm_compute in match blk_c with ECmp CLt (EVar _) (EVar n) => n | _ => 0%nat end.
Definition blk_nv := Eval vm_compute in length (st_vars (c_murmur3_block_init [] 0 [])).

Lemma blk_body_eq : c_murmur3_block_body = blk_pre ++ SWhile blk_p blk_c blk_b :: blk_post.
Proof. reflexivity. Qed.
Lemma blk_cond_eq : blk_c = ECmp CLt (EVar blk_ci) (EVar blk_cn).
Proof. reflexivity. Qed.
Lemma blk_p_eq : blk_p = [].
Proof. reflexivity. Qed.

(* one block, on the two lanes *)
Definition mur_body_k (h : N * N) (k : N * N) : N * N :=
  let '(h1, h2) := h in
  let '(k1, k2) := k in
  let h1 := mur_mix_h h1 h2 (mur_k1 k1) 27 0x52dce729 in
  let h2 := mur_mix_h h2 h1 (mur_k2 k2) 31 0x38495ab5 in
  (h1, h2).

Lemma mur_body_lanes h b : mur_body h b = mur_body_k h (mur_lanes b).
Proof. destruct h. reflexivity. Qed.

Lemma mur_body_k_lt h k : fst (mur_body_k h k) < 2 ^ 64 /\ snd (mur_body_k h k) < 2 ^ 64.
Proof. destruct h, k. cbn. unfold mur_mix_h, add64, w64. split; apply wrap_lt. Qed.

Section Block.
Variables (words : list N) (n : N).
Hypothesis Hn : n < 2 ^ 31.

Definition BInv (i : N) (h : N * N) (st : state) : Prop :=
  exists vars, st = mkstate vars [mkobj 64 words; mkobj 64 [fst h; snd h]] /\
               length vars = blk_nv /\
               nth_error vars blk_ci = Some (Some i) /\ nth_error vars blk_cn = Some (Some n).

Lemma blk_iter i h k1 k2 st :
  i < n -> 2 * i + 1 < N.of_nat (length words) ->
  nth_error words (N.to_nat (2 * i)) = Some k1 -> nth_error words (N.to_nat (2 * i + 1)) = Some k2 ->
  fst h < 2 ^ 64 -> snd h < 2 ^ 64 -> BInv i h st ->
  exists st', runs blk_b st st' /\ BInv (i + 1) (mur_body_k h (k1, k2)) st'.
Proof.
  intros Hi Hlen Hk1 Hk2 Hh1 Hh2 (vars & -> & Hlv & Hci & Hcn). destruct h as [h1 h2]. cbn [fst snd] in *.
  unfold blk_nv in Hlv. explode vars Hlv.
  cbn in Hci, Hcn. inversion Hci; inversion Hcn; subst. clear Hci Hcn Hlv.
  eexists. split.
  - apply (exec_runs (length blk_b)). unfold blk_b. cbn [length].
    ck_steps ltac:(idtac;
      match goal with
      | |- context [if ?idx <? N.of_nat (length words) then nth_error words (N.to_nat ?idx) else None] =>
          first [ rewrite (load_abs words idx (2 * i) k1) by (first [ exact Hk1 | solve_idx ])
                | rewrite (load_abs words idx (2 * i + 1) k2) by (first [ exact Hk2 | solve_idx ]) ]
      end).
    subst. reflexivity.
  - eexists. split; [|split; [|split]].
    + unfold mkstate, mkobj. f_equal. f_equal. f_equal. f_equal.
      cbn [mur_body_k fst snd]. rol_norm.
      unfold mur_mix_h, mur_k1, mur_k2, mur_mix_k, add64, mul64, rol64, w64, mur_c1, mur_c2.
      reflexivity.
    + reflexivity.
    + cbn. f_equal. f_equal. solve_idx.
    + reflexivity.
Qed.

Hypothesis Hwords : N.of_nat (length words) = 2 * n.

Definition lane (j : nat) : N * N :=
  (nth (N.to_nat (2 * N.of_nat j)) words 0, nth (N.to_nat (2 * N.of_nat j + 1)) words 0).

Lemma blk_cond st i vars objs :
  st = mkstate vars objs -> nth_error vars blk_ci = Some (Some i) -> nth_error vars blk_cn = Some (Some n) ->
  eval st blk_c = Some (if i <? n then 1 else 0).
Proof.
  intros -> Hci Hcn. unfold blk_c, blk_ci, blk_cn in *.
  cbn [eval]. unfold get_var. cbn [st_vars mkstate]. rewrite Hci, Hcn. reflexivity.
Qed.

Lemma blk_loop : forall (k i : nat) h st,
  N.of_nat i + N.of_nat k = n -> fst h < 2 ^ 64 -> snd h < 2 ^ 64 -> BInv (N.of_nat i) h st ->
  exists st', runs [SWhile blk_p blk_c blk_b] st st' /\
              BInv n (fold_left (fun h j => mur_body_k h (lane j)) (seq i k) h) st'.
Proof.
  induction k as [|k IH]; intros i h st Hik Hh1 Hh2 Hinv.
  - assert (Hin : N.of_nat i = n) by lia. exists st. split; [|cbn [seq fold_left]; rewrite <- Hin; exact Hinv].
    destruct Hinv as (vars & Hst & _ & Hci & Hcn).
    apply runs_while_false; [apply runs_nil|].
    rewrite (blk_cond st _ _ _ Hst Hci Hcn), Hin, N.ltb_irrefl. reflexivity.
  - assert (Hi : N.of_nat i < n) by lia.
    assert (Hl : (N.to_nat (2 * N.of_nat i + 1) < length words)%nat) by lia.
    destruct (blk_iter (N.of_nat i) h (fst (lane i)) (snd (lane i)) st) as (st1 & Hrun & Hinv1);
      try assumption; try lia.
    + unfold lane. cbn [fst]. apply nth_error_nth'. lia.
    + unfold lane. cbn [snd]. apply nth_error_nth'. lia.
    + replace (N.of_nat i + 1) with (N.of_nat (S i)) in Hinv1 by lia.
      destruct (mur_body_k_lt h (fst (lane i), snd (lane i))) as [Hb1 Hb2].
      destruct (IH (S i) _ st1 ltac:(lia) Hb1 Hb2 Hinv1) as (st' & Hrun' & Hinv').
      exists st'. split.
      * destruct Hinv as (vars & Hst & _ & Hci & Hcn).
        eapply runs_while_true; [apply runs_nil| | |exact Hrun|exact Hrun'].
        -- rewrite (blk_cond st _ _ _ Hst Hci Hcn). reflexivity.
        -- destruct (N.ltb_spec (N.of_nat i) n); [discriminate|lia].
      * cbn [seq fold_left]. rewrite <- surjective_pairing in Hinv'. exact Hinv'.
Qed.

Lemma blk_whole h1 h2 :
  h1 < 2 ^ 64 -> h2 < 2 ^ 64 ->
  exists F0, forall fuel, (F0 <= fuel)%nat ->
    c_murmur3_block fuel words n [h1; h2] =
    Some (let h := fold_left (fun h j => mur_body_k h (lane j)) (seq 0 (N.to_nat n)) (h1, h2) in [fst h; snd h]).
Proof.
  intros Hh1 Hh2.
  assert (Hpre : exists st0, runs blk_pre (c_murmur3_block_init words n [h1; h2]) st0 /\ BInv 0 (h1, h2) st0).
  { eexists. split.
    - apply (exec_runs (length blk_pre)). unfold blk_pre, c_murmur3_block_init. cbn [length].
      ck_steps idtac. reflexivity.
    - eexists. split; [reflexivity|]. split; [reflexivity|]. split; [reflexivity|].
      cbn. f_equal. f_equal. apply wrap_small. w32. lia. }
  destruct Hpre as (st0 & Hrun0 & Hinv0).
  destruct (blk_loop (N.to_nat n) 0 (h1, h2) st0 ltac:(lia) Hh1 Hh2 Hinv0) as (st' & Hrun & Hinv).
  assert (Hall : runs c_murmur3_block_body (c_murmur3_block_init words n [h1; h2]) st').
  { rewrite blk_body_eq. eapply runs_app; [exact Hrun0|].
    change (SWhile blk_p blk_c blk_b :: blk_post) with ([SWhile blk_p blk_c blk_b] ++ blk_post).
    eapply runs_app; [exact Hrun|]. apply runs_nil. }
  destruct (runs_exec _ _ _ Hall) as [F0 HF]. exists F0. intros fuel Hf.
  unfold c_murmur3_block. rewrite (HF fuel Hf).
  destruct Hinv as (vars & -> & _). reflexivity.
Qed.

End Block.

(* the lanes of the word view are the lanes of the 16-byte blocks *)
Lemma fold_lanes : forall (k i : nat) (pre data : list N) h,
  length pre = (i * 16)%nat -> length data = (k * 16)%nat ->
  fold_left (fun h j => mur_body_k h (lane (le_words 8 (pre ++ data)) j)) (seq i k) h =
  fold_left mur_body (chunks 16 data) h.
Proof.
  induction k as [|k IH]; intros i pre data h Hp Hd.
  - destruct data; [reflexivity|cbn in Hd; lia].
  - rewrite (chunks_cons 16 data) by (first [lia | intros ->; cbn in Hd; lia]).
    cbn [seq fold_left].
    set (blk := firstn 16 data). set (rest := skipn 16 data).
    assert (Hdata : data = blk ++ rest) by (symmetry; apply firstn_skipn).
    assert (Hblk : length blk = 16%nat) by (unfold blk; rewrite firstn_length; lia).
    assert (Hrest : length rest = (k * 16)%nat) by (unfold rest; rewrite skipn_length; lia).
    set (b1 := firstn 8 blk). set (b2 := skipn 8 blk).
    assert (Hb : blk = b1 ++ b2) by (symmetry; apply firstn_skipn).
    assert (Hb1 : length b1 = 8%nat) by (unfold b1; rewrite firstn_length; lia).
    assert (Hb2 : length b2 = 8%nat) by (unfold b2; rewrite skipn_length; lia).
    assert (Hlane : lane (le_words 8 (pre ++ data)) i = mur_lanes blk).
    { unfold lane, mur_lanes. fold b1 b2. rewrite (firstn_all2 (n := 8) b2) by lia.
      f_equal.
      - apply nth_error_nth. replace (N.to_nat (2 * N.of_nat i)) with (2 * i)%nat by lia.
        rewrite Hdata, Hb, <- !app_assoc. apply le_words_nth; lia.
      - apply nth_error_nth. replace (N.to_nat (2 * N.of_nat i + 1)) with (2 * i + 1)%nat by lia.
        rewrite Hdata, Hb, <- !app_assoc. rewrite (app_assoc pre b1).
        apply le_words_nth; [lia| |lia]. rewrite app_length. lia. }
    rewrite Hlane, <- mur_body_lanes.
    replace (pre ++ data) with ((pre ++ blk) ++ rest) by (rewrite Hdata, app_assoc; reflexivity).
    apply IH; [rewrite app_length; lia|exact Hrest].
Qed.

(* the kernel as the library declares it: input_data = num_blocks 16-byte blocks, digests = the two
   64-bit state words; the byte string is seen through uint64_t loads (little-endian) *)
Theorem ck_murmur_block_eq (data : list N) (nb : nat) (h1 h2 : N) :
  length data = (16 * nb)%nat -> N.of_nat nb < 2 ^ 31 -> h1 < 2 ^ 64 -> h2 < 2 ^ 64 ->
  exists F0, forall fuel, (F0 <= fuel)%nat ->
    c_murmur3_block fuel (le_words 8 data) (N.of_nat nb) [h1; h2] =
    Some (let h := fold_left mur_body (chunks 16 data) (h1, h2) in [fst h; snd h]).
Proof.
  intros Hlen Hnb Hh1 Hh2.
  assert (Hw : N.of_nat (length (le_words 8 data)) = 2 * N.of_nat nb).
  { rewrite (le_words_length 8 ltac:(lia) data (2 * nb)) by lia. lia. }
  destruct (blk_whole (le_words 8 data) (N.of_nat nb) Hnb Hw h1 h2 Hh1 Hh2) as [F0 HF].
  exists F0. intros fuel Hf. rewrite (HF fuel Hf). rewrite Nat2N.id.
  rewrite <- (fold_lanes nb 0 [] data (h1, h2)) by (cbn; lia). reflexivity.
Qed.

(* ================================================================ _murmur3_x64_128_tail *)

Definition tl_split := Eval vm_compute in split_while c_murmur3_tail_body.
Definition tl_pre := Eval vm_compute in match tl_split with Some (a, _, _) => a | None => [] end.
Definition tl_p := Eval vm_compute in match tl_split with Some (_, (p, _, _), _) => p | None => [] end.
Definition tl_c := Eval vm_compute in match tl_split with Some (_, (_, c, _), _) => c | None => EConst 0 end.
Definition tl_b := Eval vm_compute in match tl_split with Some (_, (_, _, b), _) => b | None => [] end.
Definition tl_post := Eval vm_compute in match tl_split with Some (_, _, z) => z | None => [] end.
Definition tl_nv := Eval vm_compute in length (st_vars (c_murmur3_tail_init [] 0 [] [])).

Lemma tl_body_eq : c_murmur3_tail_body = (tl_pre ++ [SWhile tl_p tl_c tl_b]) ++ tl_post.
Proof. reflexivity. Qed.

(* the tail and finalisation on the two lanes *)
Definition mur_tail_k (h : N * N) (k : N * N) (total_len : N) : N * N :=
  let '(h1, h2) := h in
  let '(k1, k2) := k in
  let h1 := N.lxor h1 (mur_k1 k1) in
  let h2 := N.lxor h2 (mur_k2 k2) in
  let len := w64 total_len in
  let h1 := N.lxor h1 len in
  let h2 := N.lxor h2 len in
  let h1 := add64 h1 h2 in
  let h2 := add64 h2 h1 in
  let h1 := fmix64 h1 in
  let h2 := fmix64 h2 in
  let h1 := add64 h1 h2 in
  let h2 := add64 h2 h1 in
  (h1, h2).

Lemma mur_tail_lanes h t len : mur_tail h t len = mur_tail_k h (mur_lanes t) len.
Proof. destruct h. reflexivity. Qed.

Lemma lxor3 a b c : N.lxor a (N.lxor b c) = N.lxor (N.lxor a c) b.
Proof. rewrite (N.lxor_comm b c), N.lxor_assoc. reflexivity. Qed.

(* the state between the copy loop and the finalisation: the union holds 16 bytes U *)
Definition tl_mid (tail : list N) (total_len h1 h2 : N) (U : list N) (vars : list (option N)) : state :=
  mkstate (Some (wrap 32 total_len) :: vars) [mkobj 8 tail; mkobj 64 [h1; h2]; mkobj 8 U].

(* (B) the finalisation, for any 16 bytes in the union *)
Lemma tl_final tail total_len h1 h2 U vars :
  total_len < 2 ^ 32 -> h1 < 2 ^ 64 -> h2 < 2 ^ 64 -> length U = 16%nat -> length vars = (tl_nv - 1)%nat ->
  exists st', runs tl_post (tl_mid tail total_len h1 h2 U vars) st' /\
              get_obj st' 1 = Some (let t := mur_tail_k (h1, h2) (le_to_N (firstn 8 U), le_to_N (skipn 8 U)) total_len
                                    in [fst t; snd t]).
Proof.
  intros Hlen Hh1 Hh2 HU Hv. unfold tl_nv in Hv. cbn [Nat.sub] in Hv.
  explode U HU. explode vars Hv. clear HU Hv.
  eexists. split.
  - apply (exec_runs (length tl_post)). unfold tl_post, tl_mid. cbn [length].
    ck_steps idtac. subst. reflexivity.
  - cbn [get_obj st_objs nth_error o_cells mkobj]. f_equal.
    cbn [mur_tail_k fst snd firstn skipn]. rol_norm.
    unfold mur_k1, mur_k2, mur_mix_k, fmix64, add64, mul64, rol64, w64, mur_c1, mur_c2.
    rewrite (wrap_small 64 total_len) by (apply N.lt_trans with (2 ^ 32); [exact Hlen|reflexivity]).
    rewrite (wrap_small 32 total_len) by exact Hlen.
    rewrite !(lxor3 _ total_len).
    reflexivity.
Qed.

(* (A) prefix and copy loop: for each of the 16 residues the union ends up holding the tail bytes
   followed by zeros *)
Ltac tl_case total_len Hlen Hlt :=
  cbn [length] in Hlt;
  let k := lazymatch type of Hlt with ?n = _ => eval vm_compute in (N.of_nat n) end in
  let Hr := fresh "Hr" in
  assert (Hr : wrap 32 total_len mod 16 = k) by (rewrite (wrap_small 32 total_len) by exact Hlen; lia);
  eexists; split;
  [ apply (exec_runs 200); unfold tl_pre, tl_p, tl_c, tl_b, c_murmur3_tail_init; cbn [app];
    ck_steps ltac:(idtac; rewrite Hr); subst; reflexivity
  | reflexivity ].

Lemma tl_copy tail total_len h1 h2 junk :
  total_len < 2 ^ 32 -> length tail = N.to_nat (total_len mod 16) ->
  exists vars,
    runs (tl_pre ++ [SWhile tl_p tl_c tl_b]) (c_murmur3_tail_init tail total_len [h1; h2] junk)
         (tl_mid tail total_len h1 h2 (tail ++ repeat 0 (16 - length tail)) vars) /\
    length vars = (tl_nv - 1)%nat.
Proof.
  intros Hlen Hlt.
  assert (Hr16 : total_len mod 16 < 16) by (apply N.mod_lt; discriminate).
  remember (map (wrap 8) (firstn 16 (junk ++ repeat 0 16))) as J eqn:HJ.
  assert (HlJ : length J = 16%nat).
  { subst J. rewrite map_length, firstn_length, app_length, repeat_length. lia. }
  unfold c_murmur3_tail_init. rewrite <- HJ. clear HJ junk.
  explode J HlJ. clear HlJ.
  unfold tl_mid.
  do 16 (destruct tail as [|? tail]; [tl_case total_len Hlen Hlt|]).
  exfalso. cbn [length] in Hlt. lia.
Qed.

Lemma lanes_pad (tail : list N) :
  (length tail < 16)%nat ->
  le_to_N (firstn 8 (tail ++ repeat 0 (16 - length tail))) = le_to_N (firstn 8 tail) /\
  le_to_N (skipn 8 (tail ++ repeat 0 (16 - length tail))) = le_to_N (firstn 8 (skipn 8 tail)).
Proof.
  intros Hl.
  do 16 (destruct tail as [|? tail];
         [cbn [app repeat firstn skipn length Nat.sub]; cbv [le_to_N];
          rewrite ?N.shiftl_0_l, ?N.lor_0_r, ?N.shiftl_0_l; split; reflexivity|]).
  exfalso. cbn [length] in Hl. lia.
Qed.

(* _murmur3_x64_128_tail: tail_buffer holds the total_len mod 16 bytes after the last whole
   block, digests the two 64-bit state words; every residue, every 32-bit total length *)
Theorem ck_murmur_tail_eq (tail : list N) (total_len h1 h2 : N) (junk : list N) :
  total_len < 2 ^ 32 -> length tail = N.to_nat (total_len mod 16) -> h1 < 2 ^ 64 -> h2 < 2 ^ 64 ->
  exists F0, forall fuel, (F0 <= fuel)%nat ->
    c_murmur3_tail fuel tail total_len [h1; h2] junk =
    Some (let t := mur_tail (h1, h2) tail total_len in [fst t; snd t]).
Proof.
  intros Hlen Hlt Hh1 Hh2.
  assert (Hr16 : total_len mod 16 < 16) by (apply N.mod_lt; discriminate).
  destruct (tl_copy tail total_len h1 h2 junk Hlen Hlt) as (vars & Hrun1 & Hlv).
  destruct (tl_final tail total_len h1 h2 (tail ++ repeat 0 (16 - length tail)) vars Hlen Hh1 Hh2) as (st' & Hrun2 & Hget);
    [rewrite app_length, repeat_length; lia|exact Hlv|].
  assert (Hall : runs c_murmur3_tail_body (c_murmur3_tail_init tail total_len [h1; h2] junk) st').
  { rewrite tl_body_eq. eapply runs_app; [exact Hrun1|exact Hrun2]. }
  destruct (runs_exec _ _ _ Hall) as [F0 HF]. exists F0. intros fuel Hf.
  unfold c_murmur3_tail. rewrite (HF fuel Hf), Hget.
  destruct (lanes_pad tail ltac:(lia)) as [E1 E2]. rewrite E1, E2.
  rewrite mur_tail_lanes. reflexivity.
Qed.

(* ================================================================ the whole hash *)

Lemma fold_mur_body_lt (l : list (list N)) (h : N * N) :
  fst h < 2 ^ 64 -> snd h < 2 ^ 64 ->
  fst (fold_left mur_body l h) < 2 ^ 64 /\ snd (fold_left mur_body l h) < 2 ^ 64.
Proof.
  revert h. induction l as [|b l IH]; intros h H1 H2; [split; assumption|].
  cbn [fold_left]. rewrite mur_body_lanes.
  destruct (mur_body_k_lt h (mur_lanes b)). apply IH; assumption.
Qed.

Theorem ck_murmur3_x64_128_eq (seed : N) (msg junk : list N) :
  N.of_nat (length msg) < 2 ^ 32 ->
  exists F0, forall fuel, (F0 <= fuel)%nat ->
    c_murmur3_x64_128 fuel seed msg junk =
    Some (let r := murmur3_x64_128 seed msg in [fst r; snd r]).
Proof.
  intros Hlen. set (nb := (length msg / 16)%nat).
  assert (Hdiv : length msg = (16 * nb + length msg mod 16)%nat) by (apply Nat.div_mod; lia).
  assert (Hmod : (length msg mod 16 < 16)%nat) by (apply Nat.mod_upper_bound; lia).
  assert (Hbody : length (firstn (mur_nbody msg) msg) = (16 * nb)%nat).
  { unfold mur_nbody. fold nb. rewrite firstn_length. lia. }
  assert (Hnb : N.of_nat nb < 2 ^ 31) by (change (2 ^ 32) with 4294967296 in Hlen; change (2 ^ 31) with 2147483648; lia).
  destruct (ck_murmur_block_eq (firstn (mur_nbody msg) msg) nb (w64 seed) (w64 seed) Hbody Hnb
              (wrap_lt 64 seed) (wrap_lt 64 seed)) as [F1 HF1].
  set (h := fold_left mur_body (chunks 16 (firstn (mur_nbody msg) msg)) (w64 seed, w64 seed)) in *.
  destruct (fold_mur_body_lt (chunks 16 (firstn (mur_nbody msg) msg)) (w64 seed, w64 seed)
              (wrap_lt 64 seed) (wrap_lt 64 seed)) as [Hb1 Hb2]. fold h in Hb1, Hb2.
  assert (Hrest : length (mur_rest msg) = N.to_nat (N.of_nat (length msg) mod 16)).
  { unfold mur_rest, mur_nbody. fold nb. rewrite skipn_length.
    replace (N.of_nat (length msg) mod 16) with (N.of_nat (length msg mod 16)).
    - lia.
    - change 16 with (N.of_nat 16). rewrite <- Nat2N.inj_mod. reflexivity. }
  destruct (ck_murmur_tail_eq (mur_rest msg) (N.of_nat (length msg)) (fst h) (snd h) junk Hlen Hrest Hb1 Hb2)
    as [F2 HF2].
  exists (Nat.max F1 F2). intros fuel Hf. unfold c_murmur3_x64_128. fold nb.
  rewrite (HF1 fuel ltac:(lia)). cbv zeta. rewrite (HF2 fuel ltac:(lia)).
  unfold murmur3_x64_128, mur_blocks, mur_init. fold h. rewrite <- surjective_pairing. reflexivity.
Qed.

(* ================================================================ any fuel: never a wrong answer *)

Lemma ck_fuel_unique {A} (f : nat -> option A) (spec : A) :
  (forall a b r, (a <= b)%nat -> f a = Some r -> f b = Some r) ->
  (exists F0, forall fuel, (F0 <= fuel)%nat -> f fuel = Some spec) ->
  forall fuel r, f fuel = Some r -> r = spec.
Proof.
  intros Hm [F0 HF] fuel r Hr.
  pose proof (Hm fuel (Nat.max fuel F0) r ltac:(lia) Hr) as H1.
  rewrite (HF (Nat.max fuel F0) ltac:(lia)) in H1. inversion H1. reflexivity.
Qed.

Lemma c_murmur3_block_mono d n h a b r :
  (a <= b)%nat -> c_murmur3_block a d n h = Some r -> c_murmur3_block b d n h = Some r.
Proof.
  unfold c_murmur3_block. intros Hab H.
  destruct (exec a c_murmur3_block_body _) eqn:E; [|discriminate].
  rewrite (exec_mono _ _ _ _ E b Hab). exact H.
Qed.

Lemma c_murmur3_tail_mono t n h j a b r :
  (a <= b)%nat -> c_murmur3_tail a t n h j = Some r -> c_murmur3_tail b t n h j = Some r.
Proof.
  unfold c_murmur3_tail. intros Hab H.
  destruct (exec a c_murmur3_tail_body _) eqn:E; [|discriminate].
  rewrite (exec_mono _ _ _ _ E b Hab). exact H.
Qed.

Theorem ck_murmur3_x64_128_any_fuel (seed : N) (msg junk : list N) :
  N.of_nat (length msg) < 2 ^ 32 ->
  forall fuel r, c_murmur3_x64_128 fuel seed msg junk = Some r ->
                 r = [fst (murmur3_x64_128 seed msg); snd (murmur3_x64_128 seed msg)].
Proof.
  intros Hlen. apply (ck_fuel_unique (fun fuel => c_murmur3_x64_128 fuel seed msg junk)).
  - intros a b r Hab. unfold c_murmur3_x64_128.
    destruct (c_murmur3_block a _ _ _) eqn:E; [|discriminate].
    rewrite (c_murmur3_block_mono _ _ _ _ _ _ Hab E). apply c_murmur3_tail_mono. exact Hab.
  - exact (ck_murmur3_x64_128_eq seed msg junk Hlen).
Qed.
