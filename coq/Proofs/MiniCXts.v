(* MiniCXts — from key VALUES to the memcmp observations the XTS same-key specification is
   written in (Spec/WrapperSpec.v: mem_eq).

   A world is consistent with the bytes behind the pointer arguments when every memcmp key
   reports equality of the corresponding slices.  Then:
   * raw keys / expanded encryption keys: k1 = k2 (as byte strings) makes the specification's
     observation (whole key / whole schedule) hold;
   * expanded decryption keys: if k2 is an encryption schedule rks (Nr+1 round keys of 16
     bytes) and k1 = dec_schedule rks — the Equivalent Inverse Cipher schedule of the SAME key,
     Spec/AES.v — then the last slot of k1 equals the first slot of k2 and the first slot of
     k1 equals the last slot of k2: the observations the specification demands a refusal on. *)
From Coq Require Import NArith Arith List Bool Lia.
From ISAL Require Import Spec.AES Model.MiniC Model.MiniCCheck.
Import ListNotations.

Definition slice (l : list N) (o n : N) : list N := firstn (N.to_nat n) (skipn (N.to_nat o) l).

(* mem i = the bytes behind pointer argument i *)
Definition mem_consistent (w : world) (mem : N -> list N) : Prop :=
  forall i oi j oj n, w (KMemcmp (KArg i) oi (KArg j) oj n) = 0%N <-> slice (mem i) oi n = slice (mem j) oj n.

(* = Spec.WrapperSpec.mem_eq o1 o2 n: n bytes at offset o1 of k1 (argument 1) against n bytes
   at offset o2 of k2 (argument 0) *)
Definition same_obs (o1 o2 n : N) : form :=
  FAtom (SCmp CEq (CInt 32 true) (SKey (KMemcmp (KArg 0) o2 (KArg 1) o1 n)) (SConst 0)).

Lemma same_obs_true : forall w mem o1 o2 n, mem_consistent w mem ->
  slice (mem 0%N) o2 n = slice (mem 1%N) o1 n -> eval_form w (same_obs o1 o2 n) = true.
Proof.
  intros w mem o1 o2 n Hc Hs. unfold same_obs. simpl. unfold truth. simpl.
  apply (Hc 0%N o2 1%N o1 n) in Hs. rewrite Hs. reflexivity.
Qed.

(* raw keys, and expanded encryption keys: the same bytes *)
Theorem xts_identical_bytes : forall w mem n, mem_consistent w mem ->
  mem 0%N = mem 1%N -> eval_form w (same_obs 0 0 n) = true.
Proof. intros w mem n Hc He. apply (same_obs_true w mem); [ exact Hc | rewrite He; reflexivity ]. Qed.

(* ---- schedules as byte strings *)

Definition blocks16 (l : list (list N)) : Prop := Forall (fun b => length b = 16%nat) l.

Lemma nth_block : forall l i, blocks16 l -> (i < length l)%nat ->
  firstn 16 (skipn (16 * i) (concat l)) = nth i l [].
Proof.
  induction l as [|a r IH]; intros i Hb Hi; [ simpl in Hi; lia |].
  inversion Hb as [|? ? Ha Hr]; subst. simpl concat. destruct i as [|i].
  - change (skipn (16 * 0) (a ++ concat r)) with (a ++ concat r).
    rewrite firstn_app, Ha, Nat.sub_diag, firstn_O, app_nil_r.
    change (nth 0 (a :: r) []) with a. rewrite <- Ha. apply firstn_all.
  - replace (16 * S i)%nat with (16 + 16 * i)%nat by lia.
    rewrite skipn_app, Ha. rewrite skipn_all2 by lia.
    replace (16 + 16 * i - 16)%nat with (16 * i)%nat by lia. simpl app.
    simpl nth. apply IH; [ exact Hr | simpl in Hi; lia ].
Qed.

Lemma slice_block : forall l (i : nat), blocks16 l -> (i < length l)%nat ->
  slice (concat l) (N.of_nat (16 * i)) 16 = nth i l [].
Proof.
  intros l i Hb Hi. unfold slice. rewrite Nat2N.id. change (N.to_nat 16) with 16%nat. apply nth_block; assumption.
Qed.

(* the decryption schedule of a key ends with the key's first round key and starts with its last *)
Lemma dec_schedule_ends_11 : forall rks, length rks = 11%nat ->
  nth 10 (dec_schedule rks) [] = nth 0 rks [] /\ nth 0 (dec_schedule rks) [] = nth 10 rks [] /\
  length (dec_schedule rks) = 11%nat.
Proof.
  intros rks H. do 12 (destruct rks as [|? rks]; try discriminate H). repeat split; reflexivity.
Qed.
Lemma dec_schedule_ends_15 : forall rks, length rks = 15%nat ->
  nth 14 (dec_schedule rks) [] = nth 0 rks [] /\ nth 0 (dec_schedule rks) [] = nth 14 rks [] /\
  length (dec_schedule rks) = 15%nat.
Proof.
  intros rks H. do 16 (destruct rks as [|? rks]; try discriminate H). repeat split; reflexivity.
Qed.

(* AES-128, expanded keys, decryption: k2 (argument 0) = encryption schedule of K,
   k1 (argument 1) = decryption schedule of the same K  =>  the specification's observation
   (mem_eq 160 0 16) holds *)
Theorem xts_dec_expanded_identical_128 : forall w mem rks, mem_consistent w mem ->
  length rks = 11%nat -> blocks16 rks -> blocks16 (dec_schedule rks) ->
  mem 0%N = concat rks -> mem 1%N = concat (dec_schedule rks) ->
  eval_form w (same_obs 160 0 16) = true.
Proof.
  intros w mem rks Hc Hl Hb Hd H0 H1. destruct (dec_schedule_ends_11 rks Hl) as [E1 [_ Ld]].
  apply (same_obs_true w mem); [ exact Hc |]. rewrite H0, H1.
  change 0%N with (N.of_nat (16 * 0)). change 160%N with (N.of_nat (16 * 10)).
  rewrite !slice_block by (assumption || lia). symmetry. exact E1.
Qed.

(* AES-256: both observations of the specification (mem_eq 224 0 16 and mem_eq 0 224 16) *)
Theorem xts_dec_expanded_identical_256 : forall w mem rks, mem_consistent w mem ->
  length rks = 15%nat -> blocks16 rks -> blocks16 (dec_schedule rks) ->
  mem 0%N = concat rks -> mem 1%N = concat (dec_schedule rks) ->
  eval_form w (FAnd (same_obs 224 0 16) (same_obs 0 224 16)) = true.
Proof.
  intros w mem rks Hc Hl Hb Hd H0 H1. destruct (dec_schedule_ends_15 rks Hl) as [E1 [E2 Ld]].
  change (eval_form w (FAnd (same_obs 224 0 16) (same_obs 0 224 16)))
    with (eval_form w (same_obs 224 0 16) && eval_form w (same_obs 0 224 16)).
  apply andb_true_intro. split; (apply (same_obs_true w mem); [ exact Hc |]); rewrite H0, H1.
  - change 0%N with (N.of_nat (16 * 0)). change 224%N with (N.of_nat (16 * 14)).
    rewrite !slice_block by (assumption || lia). symmetry. exact E1.
  - change 0%N with (N.of_nat (16 * 0)). change 224%N with (N.of_nat (16 * 14)).
    rewrite !slice_block by (assumption || lia). symmetry. exact E2.
Qed.

(* non-vacuity on a real key: the FIPS-197 C.1 key; its schedule and decryption schedule have
   11 blocks of 16 bytes *)
Definition k_fips197 : list N := map N.of_nat (seq 0 16).
Lemma fips197_schedule_shape :
  length (key_expansion k_fips197) = 11%nat /\
  forallb (fun b => Nat.eqb (length b) 16) (key_expansion k_fips197) = true /\
  forallb (fun b => Nat.eqb (length b) 16) (dec_schedule (key_expansion k_fips197)) = true /\
  nth 10 (dec_schedule (key_expansion k_fips197)) [] = k_fips197.
Proof. vm_compute. repeat split; reflexivity. Qed.
