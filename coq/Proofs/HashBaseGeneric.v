(* The generic context-layer model (Model/HashCtx.v) specialised to a manager that can hold
   ONE job (K = 1) and holds none between calls: every job comes straight back whatever the
   scheduling oracle says, so a submit is a function of the submitted context alone
   (g_submit / drain), computed here in closed form (g_run_body: in terms of the same
   "tail ++ buffer" data as Proofs/HashBaseFacts.base_update_spec); hash_pad_shape describes
   hash_pad for EVERY 64-bit total whose residue is the buffered length. *)
From Coq Require Import NArith List Arith Lia Bool ZArith ZifyNat ZifyN ZifyBool.
From ISAL Require Import Base.Words Base.ListUtil Spec.MD
  Spec.HashApiSpec Model.HashCtx Model.HashObs Model.HashBase
  Proofs.WordsFacts Proofs.ListFacts Proofs.ChunkFacts Proofs.HashPadFacts Proofs.HashInv Proofs.HashBaseFacts.
Import ListNotations.

Definition pad_end_A (A : algo) (p : nat) : nat :=
  if a_bsize A - a_lenfld A <? p + 1 then 2 * a_bsize A else a_bsize A.

Section Gen.
Variable A : algo.
Hypothesis WF : algo_wf A.
Notation Bz := (a_bsize A).
Notation Fz := (a_lenfld A).

Ltac Zify.zify_post_hook ::= Z.div_mod_to_equations.
Lemma pad_z_pad_end total p : (total mod N.of_nat Bz)%N = N.of_nat p ->
  p + 1 + pad_z A total + Fz = pad_end_A A p /\ pad_r A total = p /\ p < Bz.
Proof.
  unfold pad_z, pad_r, pad_end_A, B. destruct (B_cases A WF) as [[E1 E2]|[E1 E2]]; unfold B in E1; rewrite E1, E2;
    intros H; (destruct (_ <? _) eqn:E; [apply Nat.ltb_lt in E|apply Nat.ltb_ge in E]);
    cbn [N.of_nat Pos.of_succ_nat Pos.succ] in *; lia.
Qed.
Ltac Zify.zify_post_hook ::= idtac.

(* hash_pad for EVERY 64-bit total: where the padded data ends, what it holds *)
Lemma hash_pad_shape pbuf total p : (total < 2 ^ 64)%N ->
  (total mod N.of_nat Bz)%N = N.of_nat p -> length pbuf = 2 * Bz ->
  let e := pad_end_A A p in
  let '(buf, nblk) := hash_pad A pbuf total in
  nblk * Bz = e /\ length buf = 2 * Bz /\
  firstn e buf = firstn p pbuf ++ [128%N] ++ zeros (e - Fz - (p + 1)) ++ a_lenbytes A (w64 (N.shiftl total 3)) /\
  firstn p buf = firstn p pbuf.
Proof.
  intros Ht Hm Hl e.
  destruct (pad_z_pad_end total p Hm) as (Ee & Er & Hp). fold e in Ee.
  pose proof (hash_pad_length A WF pbuf total Ht Hl) as HL. fold (B A) in *.
  destruct (hash_pad_unfold A WF pbuf total Ht) as (E & M0 & Le & Pz & Hr). cbv zeta in *.
  rewrite Er in *. set (pz := pad_z A total) in *. unfold B in *.
  rewrite E in *. cbn [fst] in HL. clear E.
  rewrite Ee in *.
  pose proof (B_pos A WF) as Bp. unfold B in Bp.
  assert (Hlb : length (a_lenbytes A (w64 (N.shiftl total 3))) = Fz) by apply (wf_lenbytes A WF).
  assert (L1 : length (splice pbuf p (zeros Bz)) = 2 * Bz).
  { rewrite length_splice; rewrite ?length_zeros; lia. }
  assert (Ediv : e / Bz * Bz = e).
  { pose proof (Nat.div_mod e Bz ltac:(lia)) as D. rewrite M0 in D. lia. }
  assert (Lr : length (firstn p pbuf) = p) by (rewrite firstn_length; lia).
  assert (S2 : upd p 128%N (splice pbuf p (zeros Bz)) =
               firstn p pbuf ++ [128%N] ++ zeros (Bz - 1) ++ skipn (p + Bz) pbuf).
  { unfold splice. rewrite length_zeros.
    replace Bz with (1 + (Bz - 1)) at 1 by lia. rewrite zeros_app. cbn [zeros repeat app].
    rewrite <- Lr at 1. rewrite upd_app_r. reflexivity. }
  assert (HF : firstn e (splice (upd p 128%N (splice pbuf p (zeros Bz))) (p + 1 + pz)
                 (a_lenbytes A (w64 (N.shiftl total 3)))) =
          firstn p pbuf ++ [128%N] ++ zeros (e - Fz - (p + 1)) ++ a_lenbytes A (w64 (N.shiftl total 3))).
  { replace e with ((p + 1 + pz) + length (a_lenbytes A (w64 (N.shiftl total 3)))) at 1 by lia.
    rewrite firstn_splice_end by (rewrite length_upd; lia).
    rewrite S2. rewrite !app_assoc. f_equal. rewrite <- !app_assoc.
    rewrite firstn_app, Lr. rewrite (@firstn_all2 N (p + 1 + pz) (firstn p pbuf)) by lia. f_equal.
    replace (p + 1 + pz - p) with (S pz) by lia. cbn [app firstn]. f_equal.
    rewrite firstn_app_l by (rewrite length_zeros; lia). replace (e - Fz - (p + 1)) with pz by lia.
    apply firstn_zeros. lia. }
  split; [exact Ediv|]. split; [exact HL|]. split; [exact HF|].
  match goal with |- firstn p ?X = _ =>
    replace (firstn p X) with (firstn p (firstn e X)) by (rewrite firstn_firstn; f_equal; lia) end.
  rewrite HF. apply firstn_app_exact. symmetry. exact Lr.
Qed.

End Gen.

Section K1.
Variable A : algo.
Variable sched : nat -> list nat -> option nat.
Notation Bz := (a_bsize A).

(* the manager with capacity 1 and nothing held hands every job straight back, whatever the oracle says *)
Lemma mgr_submit_K1 s j : held s = [] ->
  mgr_submit A 1 sched s j =
  ({| ctxs := upd (j_ctx j) (set_digest (getc A s (j_ctx j)) (finish A j)) (ctxs s); held := []; tick := S (tick s) |},
   Some (j_ctx j)).
Proof.
  intros Hh. unfold mgr_submit. rewrite Hh. cbn [app].
  set (s1 := {| ctxs := ctxs s; held := [j]; tick := tick s |}).
  assert (HB : hand_back A s1 0 =
    ({| ctxs := upd (j_ctx j) (set_digest (getc A s (j_ctx j)) (finish A j)) (ctxs s); held := []; tick := S (tick s) |},
     Some (j_ctx j))) by reflexivity.
  destruct (choose sched s1) as [i|] eqn:Ch.
  - unfold choose in Ch. cbn [held s1 length] in Ch.
    destruct (sched (tick s1) (map j_ctx [j])) as [k|]; [|discriminate].
    destruct (k <? 1) eqn:Ek; [|discriminate]. injection Ch as <-.
    apply Nat.ltb_lt in Ek. assert (k = 0) by lia. subst k. exact HB.
  - cbn [held s1 length Nat.leb]. exact HB.
Qed.

(* the resubmit loop for ONE context when every job comes straight back *)
Fixpoint drain (fuel : nat) (c : ctx) : option ctx :=
  match fuel with
  | O => None
  | S f =>
      match ctx_next A c with
      | (c', None) => Some c'
      | (c', Some blocks) => drain f (set_digest c' (fold_left (a_compress A) blocks (c_digest c')))
      end
  end.

Lemma drain_mono f c r : drain f c = Some r -> drain (S f) c = Some r.
Proof.
  revert c. induction f as [|f IH]; intros c H; [discriminate|].
  cbn [drain] in *. destruct (ctx_next A c) as [c' [blocks|]]; [|exact H]. apply IH. exact H.
Qed.

Lemma drain_le f f' c r : f <= f' -> drain f c = Some r -> drain f' c = Some r.
Proof. induction 1 as [|m Hle IH]; [auto|]. intros Hd. apply drain_mono. auto. Qed.

Lemma resubmit_K1 : forall fuel s cid c', held s = [] -> cid < length (ctxs s) ->
  drain fuel (getc A s cid) = Some c' ->
  exists t, resubmit A 1 sched fuel s (Some cid) =
            ({| ctxs := upd cid c' (ctxs s); held := []; tick := t |}, Ret (Some cid)).
Proof.
  induction fuel as [|f IH]; intros s cid c' Hh Hc Hd; [discriminate|].
  cbn [drain resubmit] in *.
  destruct (ctx_next A (getc A s cid)) as [c1 [blocks|]].
  - unfold submit_job.
    assert (Eg : getc A (setc s cid c1) cid = c1).
    { unfold getc, setc. cbn [ctxs]. apply nth_upd_eq. exact Hc. }
    rewrite Eg. rewrite mgr_submit_K1 by exact Hh. cbn [j_ctx]. rewrite Eg.
    unfold finish. cbn [j_blocks j_chain]. unfold setc at 1. cbn [ctxs]. rewrite upd_upd.
    set (s2 := {| ctxs := _; held := []; tick := _ |}).
    destruct (IH s2 cid c') as (t & E).
    + reflexivity.
    + unfold s2. cbn [ctxs]. rewrite length_upd. exact Hc.
    + unfold s2, getc. cbn [ctxs]. rewrite nth_upd_eq by exact Hc. exact Hd.
    + exists t. rewrite E. unfold s2. cbn [ctxs]. rewrite upd_upd. reflexivity.
  - injection Hd as <-. exists (tick s). unfold setc. rewrite Hh. reflexivity.
Qed.

(* one submit, for the context alone *)
Definition g_submit (c : ctx) (buf : list N) (flags : N) : option ctx :=
  match ctx_accept A c buf flags with
  | Reject e => Some (set_error c e)
  | Accept c' None => drain 6 c'
  | Accept c' (Some blocks) => drain 6 (set_digest c' (fold_left (a_compress A) blocks (c_digest c')))
  end.

Lemma ctx_submit_K1 s cid buf flags c' : held s = [] -> cid < length (ctxs s) ->
  g_submit (getc A s cid) buf flags = Some c' ->
  exists t, ctx_submit A 1 sched s cid buf flags =
            ({| ctxs := upd cid c' (ctxs s); held := []; tick := t |}, Ret (Some cid)).
Proof.
  intros Hh Hc Hg. unfold g_submit in Hg. unfold ctx_submit.
  destruct (ctx_accept A (getc A s cid) buf flags) as [e|c1 [blocks|]].
  - injection Hg as <-. exists (tick s). unfold setc. rewrite Hh. reflexivity.
  - unfold submit_job.
    assert (Eg : getc A (setc s cid c1) cid = c1).
    { unfold getc, setc. cbn [ctxs]. apply nth_upd_eq. exact Hc. }
    rewrite Eg. rewrite mgr_submit_K1 by exact Hh. cbn [j_ctx]. rewrite Eg.
    unfold finish. cbn [j_blocks j_chain]. unfold setc. cbn [ctxs tick]. rewrite upd_upd.
    set (s2 := {| ctxs := _; held := []; tick := _ |}).
    destruct (resubmit_K1 (fuel_for s2) s2 cid c') as (t & E).
    + reflexivity.
    + unfold s2. cbn [ctxs]. rewrite length_upd. exact Hc.
    + unfold s2 at 2, getc. cbn [ctxs]. rewrite nth_upd_eq by exact Hc. exact Hg.
    + exists t. rewrite E. unfold s2. cbn [ctxs]. rewrite upd_upd. reflexivity.
  - destruct (resubmit_K1 (fuel_for s) (setc s cid c1) cid c') as (t & E).
    + exact Hh.
    + unfold setc. cbn [ctxs]. rewrite length_upd. exact Hc.
    + unfold fuel_for. rewrite Hh. unfold getc, setc. cbn [ctxs]. rewrite nth_upd_eq by exact Hc. exact Hg.
    + exists t. rewrite E. unfold setc. cbn [ctxs]. rewrite upd_upd. reflexivity.
Qed.

Lemma ctx_flush_K1 s : held s = [] -> ctx_flush A 1 sched s = (s, Ret None).
Proof. intros Hh. unfold ctx_flush, fuel_for. rewrite Hh. cbn [length Nat.add Nat.mul ctx_flush_f]. unfold mgr_flush. rewrite Hh. reflexivity. Qed.

End K1.

Section GSub.
Variable A : algo.
Hypothesis WF : algo_wf A.
Notation Bz := (a_bsize A).

Definition mk (d : list N) (st er tot : N) (inc pbuf : list N) (plen : nat) : ctx :=
  {| c_digest := d; c_status := st; c_error := er; c_total := tot; c_inc := inc; c_pbuf := pbuf; c_plen := plen |}.

(* what the context layer does once nothing is left to hash but (possibly) the padding *)
Definition tail_phase (c1 : ctx) : ctx * option (list (list N)) :=
  if has (c_status c1) STS_LAST then
    let '(buf, nblk) := hash_pad A (c_pbuf c1) (c_total c1) in
    ({| c_digest := c_digest c1; c_status := N.lor STS_PROCESSING STS_COMPLETE;
        c_error := c_error c1; c_total := c_total c1; c_inc := c_inc c1;
        c_pbuf := buf; c_plen := c_plen c1 |},
     Some (chunks (B A) (firstn (nblk * B A) buf)))
  else (set_status c1 STS_IDLE, None).

Lemma ctx_next_unfold c : has (c_status c) STS_COMPLETE = false ->
  ctx_next A c =
  if ((c_plen c =? 0)%nat && negb (length (c_inc c) =? 0)%nat)%bool then
    let len := length (c_inc c) in
    let copy_len := (len mod B A)%nat in
    let len' := (len - copy_len)%nat in
    let c' := {| c_digest := c_digest c; c_status := c_status c; c_error := c_error c;
                 c_total := c_total c; c_inc := [];
                 c_pbuf := if (copy_len =? 0)%nat then c_pbuf c
                           else splice (c_pbuf c) 0 (skipn len' (c_inc c));
                 c_plen := if (copy_len =? 0)%nat then c_plen c else copy_len |} in
    if negb (len' / B A =? 0)%nat then (c', Some (chunks (B A) (firstn len' (c_inc c))))
    else tail_phase c'
  else tail_phase c.
Proof.
  intros H. unfold ctx_next, tail_phase. rewrite H.
  destruct ((c_plen c =? 0)%nat && negb (length (c_inc c) =? 0)%nat)%bool; [|reflexivity].
  cbv zeta. destruct (negb (_ =? 0)%nat); reflexivity.
Qed.

Lemma ctx_next_complete c : has (c_status c) STS_COMPLETE = true ->
  ctx_next A c = (set_status (set_digest c (a_final A (c_digest c))) STS_COMPLETE, None).
Proof. intros H. unfold ctx_next. rewrite H. reflexivity. Qed.

Definition finish_ctx (c : ctx) : ctx :=
  if has (c_status c) STS_LAST then
    let '(buf, nblk) := hash_pad A (c_pbuf c) (c_total c) in
    {| c_digest := a_final A (fold_left (a_compress A) (chunks Bz (firstn (nblk * Bz) buf)) (c_digest c));
       c_status := STS_COMPLETE; c_error := c_error c; c_total := c_total c; c_inc := c_inc c;
       c_pbuf := buf; c_plen := c_plen c |}
  else set_status c STS_IDLE.

Lemma end_phase f c : (c_status c = 1 \/ c_status c = 3)%N -> (c_plen c <> 0 \/ c_inc c = []) ->
  drain A (S (S f)) c = Some (finish_ctx c).
Proof.
  intros Hst Hc.
  assert (Cond : ((c_plen c =? 0)%nat && negb (length (c_inc c) =? 0)%nat)%bool = false).
  { destruct Hc as [Hc|Hc]; [apply Nat.eqb_neq in Hc; rewrite Hc; reflexivity|].
    rewrite Hc. cbn [length Nat.eqb negb]. apply andb_false_r. }
  assert (HC : has (c_status c) STS_COMPLETE = false) by (destruct Hst as [E|E]; rewrite E; reflexivity).
  cbn [drain]. rewrite (ctx_next_unfold c HC).
  rewrite Cond. unfold tail_phase, finish_ctx.
  destruct Hst as [E|E]; rewrite E.
  - change (has 1 STS_LAST) with false. cbv iota. reflexivity.
  - change (has 3 STS_LAST) with true. cbv iota. unfold B.
    destruct (hash_pad A (c_pbuf c) (c_total c)) as [buf nblk].
    unfold set_digest at 1. cbn [c_digest c_status c_error c_total c_inc c_pbuf c_plen].
    rewrite ctx_next_complete by reflexivity. reflexivity.
Qed.


Lemma drain_S f c : drain A (S f) c =
  match ctx_next A c with
  | (c', None) => Some c'
  | (c', Some blocks) => drain A f (set_digest c' (fold_left (a_compress A) blocks (c_digest c')))
  end.
Proof. reflexivity. Qed.

Lemma rest_phase f d st er tot rest pbuf : (st = 1 \/ st = 3)%N -> length pbuf = 2 * Bz ->
  let r := length rest in
  let k := r / Bz in
  drain A (S (S (S f))) (mk d st er tot rest pbuf 0) =
  Some (finish_ctx (mk (eat A k d rest) st er tot []
                       (if (r mod Bz =? 0)%nat then pbuf else splice pbuf 0 (skipn (k * Bz) rest)) (r mod Bz))).
Proof.
  intros Hst Hl r k. pose proof (B_pos A WF) as HB. unfold B in HB.
  assert (HC : has st STS_COMPLETE = false) by (destruct Hst as [E|E]; rewrite E; reflexivity).
  destruct (Nat.eq_dec r 0) as [Hr|Hr].
  - (* nothing left in the caller's buffer *)
    assert (Er : rest = []) by (apply length_zero_iff_nil; exact Hr).
    assert (Ek : k = 0) by (unfold k; rewrite Hr; apply Nat.div_0_l; lia).
    assert (Em : r mod Bz = 0) by (rewrite Hr; apply Nat.mod_0_l; lia).
    rewrite Ek, Em, Er. cbn [Nat.eqb eat].
    apply (end_phase (S f) (mk d st er tot [] pbuf 0)); [exact Hst|right; reflexivity].
  - 
    assert (Hm : r mod Bz < Bz) by (apply Nat.mod_upper_bound; lia).
    assert (Hd : r = Bz * k + r mod Bz) by (apply Nat.div_mod; lia).
    assert (Elen' : r - r mod Bz = k * Bz) by lia.
    rewrite drain_S. rewrite ctx_next_unfold by exact HC. unfold mk.
    cbn [c_digest c_status c_error c_total c_pbuf c_plen c_inc Nat.eqb].
    fold r. replace (r =? 0)%nat with false by (symmetry; apply Nat.eqb_neq; exact Hr).
    cbn [negb andb]. cbv zeta. unfold B. fold r.
    rewrite Elen'. rewrite Nat.div_mul by lia.
    assert (Eplen : (if (r mod Bz =? 0)%nat then 0 else r mod Bz) = r mod Bz).
    { destruct (r mod Bz =? 0)%nat eqn:E0; [apply Nat.eqb_eq in E0; lia|reflexivity]. }
    rewrite Eplen.
    destruct (k =? 0)%nat eqn:Ek0; cbn [negb].
    + (* less than a block: it goes to the partial block buffer, and the same pass goes on *)
      apply Nat.eqb_eq in Ek0. rewrite Ek0 in *. cbn [eat].
      assert (Hne : r mod Bz <> 0) by lia.
      set (c' := {| c_digest := d; c_status := st; c_error := er; c_total := tot; c_inc := [];
                    c_pbuf := _; c_plen := r mod Bz |}).
      pose proof (end_phase (S f) c' Hst (or_introl Hne)) as EP.
      cbn [drain] in EP. rewrite ctx_next_unfold in EP by exact HC.
      replace ((c_plen c' =? 0)%nat && negb (length (c_inc c') =? 0)%nat)%bool with false in EP
        by (symmetry; unfold c'; cbn [c_plen c_inc length Nat.eqb negb]; apply andb_false_r).
      exact EP.
    + (* whole blocks straight from the caller's buffer; the rest to the partial block buffer *)
      unfold set_digest. cbn [c_digest c_status c_error c_total c_pbuf c_plen c_inc].
      rewrite eat_chunks by lia.
      apply (end_phase f). { exact Hst. } right. reflexivity.
Qed.


(* the part of ctx_accept after the rejection tests, for an UPDATE (st = 1) or LAST (st = 3)
   segment on an idle context *)
Definition accept_body (g : ctx) (buf : list N) (st : N) : verdict :=
  let len := length buf in
  let plen0 := c_plen g in
  let c1 := mk (c_digest g) st ERR_NONE (w64 (c_total g + N.of_nat len)) buf (c_pbuf g) plen0 in
  if (negb (plen0 =? 0)%nat || (len <? B A)%nat)%bool then
    let copy_len := Nat.min (B A - plen0) len in
    let c2 := if (copy_len =? 0)%nat then c1 else
              mk (c_digest g) st ERR_NONE (w64 (c_total g + N.of_nat len)) (skipn copy_len buf)
                 (splice (c_pbuf g) plen0 (firstn copy_len buf)) (plen0 + copy_len)%nat in
    if (B A <=? c_plen c2)%nat then
      Accept (mk (c_digest c2) (c_status c2) (c_error c2) (c_total c2) (c_inc c2) (c_pbuf c2) 0)
             (Some [firstn (B A) (c_pbuf c2)])
    else Accept c2 None
  else Accept c1 None.

Lemma ctx_accept_idle g buf flags : c_status g = 0%N -> (flags = 0 \/ flags = 2)%N ->
  ctx_accept A g buf flags = accept_body g buf (if (flags =? 2)%N then 3 else 1)%N.
Proof.
  intros Hst Hfl. unfold ctx_accept, accept_body. rewrite Hst.
  destruct Hfl as [-> | ->]; reflexivity.
Qed.


Lemma ctx_accept_first g buf flags : has (c_status g) STS_PROCESSING = false -> (flags = 1 \/ flags = 3)%N ->
  ctx_accept A g buf flags =
  accept_body (mk (a_iv A) 0 0 0 [] (c_pbuf g) 0) buf (if (flags =? 3)%N then 3 else 1)%N.
Proof.
  intros Hst Hfl. unfold ctx_accept, accept_body. rewrite Hst.
  destruct Hfl as [-> | ->].
  - change (has 1 FLAG_FIRST) with true. cbn [negb]. rewrite andb_false_r. reflexivity.
  - change (has 3 FLAG_FIRST) with true. cbn [negb]. rewrite andb_false_r. reflexivity.
Qed.

Definition g_run (v : verdict) : option ctx :=
  match v with
  | Reject _ => None
  | Accept c' None => drain A 6 c'
  | Accept c' (Some blocks) => drain A 6 (set_digest c' (fold_left (a_compress A) blocks (c_digest c')))
  end.

Lemma g_submit_of_run c buf flags v r : ctx_accept A c buf flags = v -> g_run v = Some r ->
  g_submit A c buf flags = Some r.
Proof.
  intros E H. unfold g_submit. rewrite E. destruct v as [e|c' [b|]]; [discriminate|exact H|exact H].
Qed.

Lemma g_run_body g buf st p : (st = 1 \/ st = 3)%N -> c_plen g = p -> p < Bz -> length (c_pbuf g) = 2 * Bz ->
  let data := firstn p (c_pbuf g) ++ buf in
  let k := length data / Bz in
  exists pbuf1,
    g_run (accept_body g buf st) =
      Some (finish_ctx (mk (eat A k (c_digest g) data) st 0 (w64 (c_total g + N.of_nat (length buf))) []
                           pbuf1 (length data mod Bz))) /\
    length pbuf1 = 2 * Bz /\ firstn (length data mod Bz) pbuf1 = skipn (k * Bz) data.
Proof.
  intros Hst Hp Hlt Hl data k. pose proof (B_pos A WF) as HB. unfold B in HB.
  assert (Lt : length (firstn p (c_pbuf g)) = p) by (rewrite firstn_length; lia).
  assert (Ld : length data = p + length buf) by (unfold data; rewrite app_length, Lt; reflexivity).
  unfold accept_body. cbv zeta. unfold B. rewrite Hp.
  set (len := length buf) in *. set (tot := w64 (c_total g + N.of_nat len)).
  destruct (negb (p =? 0)%nat || (len <? Bz)%nat)%bool eqn:Cond.
  - set (cl := Nat.min (Bz - p) len).
    destruct (cl =? 0)%nat eqn:E0.
    + (* the caller's buffer is empty *)
      apply Nat.eqb_eq in E0. assert (Hlen : len = 0) by lia.
      assert (Eb : buf = []) by (apply length_zero_iff_nil; exact Hlen).
      unfold mk at 1. cbn [c_plen].
      replace (Bz <=? p)%nat with false by (symmetry; apply Nat.leb_gt; exact Hlt).
      cbn [g_run]. exists (c_pbuf g).
      assert (Ek : k = 0) by (unfold k; rewrite Ld, Hlen, Nat.add_0_r; apply Nat.div_small; lia).
      assert (Em : length data mod Bz = p) by (rewrite Ld, Hlen, Nat.add_0_r; apply Nat.mod_small; lia).
      rewrite Ek, Em. cbn [eat Nat.mul skipn]. split; [|split; [exact Hl|]].
      * rewrite Eb. apply (end_phase 4); [exact Hst|right; reflexivity].
      * unfold data. rewrite Eb, app_nil_r. reflexivity.
    + apply Nat.eqb_neq in E0.
      assert (Lf : length (firstn cl buf) = cl) by (rewrite firstn_length; fold len; lia).
      unfold mk at 1. cbn [c_plen].
      destruct (Bz <=? p + cl)%nat eqn:EB; [apply Nat.leb_le in EB|apply Nat.leb_gt in EB].
      * (* the partial block is complete *)
        assert (Ecl : cl = Bz - p) by lia.
        unfold mk at 1 2 3 4 5 6. cbn [c_digest c_status c_error c_total c_inc c_pbuf g_run].
        set (pbuf2 := splice (c_pbuf g) p (firstn cl buf)).
        assert (Lp : length pbuf2 = 2 * Bz) by (unfold pbuf2; rewrite length_splice; lia).
        assert (Eblk : firstn Bz pbuf2 = firstn p (c_pbuf g) ++ firstn cl buf).
        { unfold pbuf2. replace Bz with (p + length (firstn cl buf)) at 1 by lia.
          apply firstn_splice_end. lia. }
        set (rest := skipn cl buf).
        assert (Lr : length rest = len - cl) by (unfold rest; rewrite skipn_length; reflexivity).
        unfold set_digest, mk. cbn [c_digest c_status c_error c_total c_inc c_pbuf c_plen fold_left].
        pose proof (rest_phase 3 (a_compress A (c_digest g) (firstn Bz pbuf2)) st ERR_NONE tot rest pbuf2 Hst Lp) as RP.
        cbv zeta in RP. unfold mk in RP. rewrite RP. clear RP.
        assert (Ed : data = (firstn p (c_pbuf g) ++ firstn cl buf) ++ rest).
        { unfold data, rest. rewrite <- app_assoc. f_equal. symmetry. apply firstn_skipn. }
        assert (Lblk : length (firstn p (c_pbuf g) ++ firstn cl buf) = Bz) by (rewrite app_length; lia).
        assert (Ek : k = S (length rest / Bz)).
        { unfold k. rewrite Ld. replace (p + len) with (length rest + 1 * Bz) by lia.
          rewrite Nat.div_add by lia. lia. }
        assert (Em : length data mod Bz = length rest mod Bz).
        { rewrite Ld. replace (p + len) with (length rest + 1 * Bz) by lia. apply Nat.mod_add. lia. }
        assert (Hm : length rest mod Bz < Bz) by (apply Nat.mod_upper_bound; lia).
        assert (Hd : length rest = Bz * (length rest / Bz) + length rest mod Bz) by (apply Nat.div_mod; lia).
        assert (Ls : length (skipn (length rest / Bz * Bz) rest) = length rest mod Bz) by (rewrite skipn_length; nia).
        eexists. split; [|split].
        -- rewrite Ek, Em. rewrite Ed at 1. rewrite eat_app_first by exact Lblk. rewrite Eblk. reflexivity.
        -- destruct (length rest mod Bz =? 0)%nat; [exact Lp|]. rewrite length_splice; lia.
        -- rewrite Ek, Em, Ed. cbn [Nat.mul].
           rewrite skipn_app_ge by (rewrite Lblk; apply Nat.le_add_r). rewrite Lblk.
           replace (Bz + length rest / Bz * Bz - Bz) with (length rest / Bz * Bz) by (rewrite Nat.add_comm; symmetry; apply Nat.add_sub).
           destruct (length rest mod Bz =? 0)%nat eqn:Em0.
           ++ apply Nat.eqb_eq in Em0. rewrite Em0 in *. cbn [firstn]. symmetry. apply length_zero_iff_nil. exact Ls.
           ++ rewrite <- Ls at 1.
              replace (length (skipn (length rest / Bz * Bz) rest)) with (0 + length (skipn (length rest / Bz * Bz) rest)) by lia.
              rewrite firstn_splice_end by lia. reflexivity.
      * (* still less than a block *)
        assert (Ecl : cl = len) by lia.
        cbn [g_run]. exists (splice (c_pbuf g) p (firstn cl buf)).
        assert (Ek : k = 0) by (unfold k; rewrite Ld; apply Nat.div_small; lia).
        assert (Em : length data mod Bz = p + len) by (rewrite Ld; apply Nat.mod_small; lia).
        rewrite Ek, Em. cbn [eat Nat.mul skipn]. split; [|split].
        -- replace (skipn cl buf) with (@nil N) by (symmetry; rewrite Ecl; apply skipn_all).
           replace (p + cl) with (p + len) by lia.
           apply (end_phase 4); [exact Hst|right; reflexivity].
        -- rewrite length_splice; lia.
        -- rewrite Ecl. rewrite (@firstn_all2 N len buf) by (fold len; lia).
           replace (p + len) with (p + length buf) by reflexivity. apply firstn_splice_end. lia.
  - (* nothing buffered, at least one whole block *)
    apply orb_false_iff in Cond. destruct Cond as [C1 C2].
    apply negb_false_iff in C1. apply Nat.eqb_eq in C1. apply Nat.ltb_ge in C2.
    unfold k, data in *. clear k data. rewrite C1 in *. cbn [firstn app] in *.
    cbn [g_run].
    pose proof (rest_phase 3 (c_digest g) st ERR_NONE tot buf (c_pbuf g) Hst Hl) as RP.
    cbv zeta in RP. rewrite RP. clear RP. fold len.
    assert (Hm : len mod Bz < Bz) by (apply Nat.mod_upper_bound; lia).
    assert (Hd : len = Bz * (len / Bz) + len mod Bz) by (apply Nat.div_mod; lia).
    assert (Ls : length (skipn (len / Bz * Bz) buf) = len mod Bz) by (rewrite skipn_length; fold len; nia).
    fold len. eexists. split; [reflexivity|]. split.
    + destruct (len mod Bz =? 0)%nat; [exact Hl|]. rewrite length_splice; lia.
    + destruct (len mod Bz =? 0)%nat eqn:Em0.
      * apply Nat.eqb_eq in Em0. rewrite Em0 in *. cbn [firstn]. symmetry. apply length_zero_iff_nil. exact Ls.
      * rewrite <- Ls at 1.
        replace (length (skipn (len / Bz * Bz) buf)) with (0 + length (skipn (len / Bz * Bz) buf)) by lia.
        rewrite firstn_splice_end by lia. reflexivity.
Qed.

End GSub.
