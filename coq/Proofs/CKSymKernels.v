(* ckernels vertical — sha1_single, sha512_single, md5_single (translated from the current
   <alg>_mb/<alg>_ctx_base.c on every run) equal the specifications' compression functions for all
   inputs: one vm_compute of the verified symbolic equivalence checker per kernel (the *_check_true
   lemmas are the regenerated obligations) + the soundness theorems. *)
From Coq Require Import NArith List Bool Arith Lia.
From ISAL Require Import Base.Words Base.ListUtil Proofs.WordsFacts Proofs.ChunkFacts Spec.MD Spec.SHA1 Spec.SHA256 Spec.SHA512 Spec.MD5
  Model.CKernel Proofs.CKernelFacts Model.CKSym Proofs.CKSymFacts Model.CKSymSpec Proofs.CKSymSpecFacts
  Gen.CKernelGen Proofs.CKSymSha256.
From ISAL Require Import Proofs.CKSymGlue Proofs.CKSymSha256Glue Model.CKSymSpecMore Proofs.CKSymSpecMoreFacts.
Import ListNotations.
Local Open Scope N_scope.

Ltac explode l H := repeat (destruct l as [|? l]; cbn [length] in H; try discriminate H).
Ltac forall_inv :=
  repeat match goal with
  | H : Forall _ (_ :: _) |- _ => inversion H; clear H; subst
  | H : Forall _ [] |- _ => clear H
  end.

(* ---------------------------------------------------------------- bytes and words *)

Lemma be64_bswap a b c d e f g h :
  a < 2 ^ 8 -> b < 2 ^ 8 -> c < 2 ^ 8 -> d < 2 ^ 8 -> e < 2 ^ 8 -> f < 2 ^ 8 -> g < 2 ^ 8 -> h < 2 ^ 8 ->
  be64 [a; b; c; d; e; f; g; h] = bswap 64 (le_to_N [a; b; c; d; e; f; g; h]).
Proof.
  intros Ha Hb Hc Hd He Hf Hg Hh. unfold bswap. change (N.to_nat (64 / 8)) with 8%nat.
  cbv [le_to_N N_to_le].
  rewrite N.shiftl_0_l, N.lor_0_r.
  rewrite (land_lor_shiftl_low a), (shiftr_lor_shiftl_low a) by assumption.
  rewrite (land_lor_shiftl_low b), (shiftr_lor_shiftl_low b) by assumption.
  rewrite (land_lor_shiftl_low c), (shiftr_lor_shiftl_low c) by assumption.
  rewrite (land_lor_shiftl_low d), (shiftr_lor_shiftl_low d) by assumption.
  rewrite (land_lor_shiftl_low e), (shiftr_lor_shiftl_low e) by assumption.
  rewrite (land_lor_shiftl_low f), (shiftr_lor_shiftl_low f) by assumption.
  rewrite (land_lor_shiftl_low g), (shiftr_lor_shiftl_low g) by assumption.
  replace (N.land h 255) with h.
  2:{ symmetry. change 255 with (N.ones 8). rewrite N.land_ones. apply N.mod_small. exact Hh. }
  cbv [rev app le_to_N be64]. rewrite N.shiftl_0_l, N.lor_0_r.
  rewrite !N.shiftl_lor, !N.shiftl_shiftl. cfold.
  apply N.bits_inj. intro i. rewrite !N.lor_spec.
  destruct (N.testbit (N.shiftl a 56) i), (N.testbit (N.shiftl b 48) i), (N.testbit (N.shiftl c 40) i),
           (N.testbit (N.shiftl d 32) i), (N.testbit (N.shiftl e 24) i), (N.testbit (N.shiftl f 16) i),
           (N.testbit (N.shiftl g 8) i), (N.testbit h i); reflexivity.
Qed.

Lemma le32_le a b c d : le32 [a; b; c; d] = le_to_N [a; b; c; d].
Proof.
  cbv [le32 le_to_N]. rewrite N.shiftl_0_l, N.lor_0_r, !N.shiftl_lor, !N.shiftl_shiftl. cfold.
  apply N.bits_inj. intro i. rewrite !N.lor_spec.
  destruct (N.testbit a i), (N.testbit (N.shiftl b 8) i), (N.testbit (N.shiftl c 16) i), (N.testbit (N.shiftl d 24) i); reflexivity.
Qed.

Lemma block_words64 (block : list N) :
  length block = 128%nat -> Forall (fun x => x < 2 ^ 8) block ->
  length (le_words 8 block) = 16%nat /\ Forall (fun x => x < 2 ^ 64) (le_words 8 block) /\
  be_words64 block = map (bswap 64) (le_words 8 block).
Proof.
  intros Hl Hb. explode block Hl. forall_inv.
  cbv [be_words64 le_words chunks chunks_f length firstn skipn map].
  repeat match goal with
  | |- context [be64 [?a; ?b; ?c; ?d; ?e; ?f; ?g; ?h]] =>
      rewrite (be64_bswap a b c d e f g h) by assumption
  end.
  split; [reflexivity|]. split; [|reflexivity].
  repeat (constructor; [apply (le_to_N_lt [_; _; _; _; _; _; _; _]); repeat (constructor; [assumption|]); constructor|]). constructor.
Qed.

Lemma block_words_le (block : list N) :
  length block = 64%nat -> Forall (fun x => x < 2 ^ 8) block ->
  length (le_words 4 block) = 16%nat /\ Forall (fun x => x < 2 ^ 32) (le_words 4 block) /\
  le_words32 block = le_words 4 block.
Proof.
  intros Hl Hb. explode block Hl. forall_inv.
  cbv [le_words32 le_words chunks chunks_f length firstn skipn map].
  rewrite !le32_le.
  split; [reflexivity|]. split; [|reflexivity].
  repeat (constructor; [apply (le_to_N_lt [_; _; _; _]); repeat (constructor; [assumption|]); constructor|]). constructor.
Qed.

Lemma segs2 (a b : list N) na nb :
  length a = na -> length b = nb ->
  map (rho_of (a ++ b)) (seq 0 na) = a /\ map (rho_of (a ++ b)) (seq na nb) = b.
Proof.
  intros <- <-. unfold rho_of. split; [apply map_nth_seq_prefix|].
  rewrite map_nth_seq_app. apply list_eta.
Qed.

(* ================================================================ sha1_single *)

Definition sha1_objs : list (N * nat) := [(32, 16%nat); (32, 5%nat); (32, 16%nat)].
Definition sha1_nvars : nat := Eval vm_compute in length (st_vars (c_sha1_single_init [] [] [])).
Definition sha1_symspec (o : list (list N)) : M (list N) :=
  match o with [d; h; _] => sy_be_compress sy1_compress_words 32 h d | _ => fail end.

(* THE REGENERATED OBLIGATION *)
Lemma sha1_check_true : ck_check c_sha1_single_body 8000 sha1_nvars sha1_objs 1 sha1_symspec = true.
Proof. vm_compute. reflexivity. Qed.

Lemma c_sha1_single_mono d h j a b r :
  (a <= b)%nat -> c_sha1_single a d h j = Some r -> c_sha1_single b d h j = Some r.
Proof.
  unfold c_sha1_single. intros Hab H.
  destruct (exec a c_sha1_single_body _) eqn:E; [|discriminate].
  rewrite (exec_mono _ _ _ _ E b Hab). exact H.
Qed.

Theorem sha1_sym_sound (rho : nat -> N) :
  wf rho (ck_t0 sha1_objs) ->
  exists st',
    exec 8000 c_sha1_single_body (conc (tvals rho (ck_t0 sha1_objs)) (ck_st0 sha1_nvars sha1_objs)) = Some st' /\
    get_obj st' 1 =
    Some (sha1_compress_words (map (V rho (ck_t0 sha1_objs)) (ids 16 5))
            (map (bswap 32) (map (V rho (ck_t0 sha1_objs)) (ids 0 16)))).
Proof.
  intros Hwf0.
  assert (Hst0 : sst_ok (ck_t0 sha1_objs) (ck_st0 sha1_nvars sha1_objs)).
  { split; [repeat constructor|]. unfold inb. vm_compute. repeat constructor. }
  apply (ck_check_sound rho c_sha1_single_body 8000 sha1_nvars sha1_objs 1 sha1_symspec _ Hwf0 Hst0);
    [|exact sha1_check_true].
  intros s Ws Es. unfold sha1_symspec. cbn [map snd ck_cells ck_cells_from sha1_objs].
  eapply POST_conv.
  + apply sy1_be_compress_ok; [exact Ws| | |reflexivity|reflexivity].
    * apply (Forall_inb_ext _ _ _ Es). unfold inb. vm_compute. repeat constructor.
    * apply (Forall_inb_ext _ _ _ Es). unfold inb. vm_compute. repeat constructor.
  + intros l s2 [F2 V2]. split; [exact F2|]. rewrite V2.
    rewrite !(map_V_ext rho _ _ _ Es) by (unfold inb; vm_compute; repeat constructor). reflexivity.
Qed.

Lemma sha1_t0_eq : ck_t0 sha1_objs = var_table (repeat 32 37).
Proof. reflexivity. Qed.
Lemma sha1_cells_eq : ck_cells sha1_objs = [(32, ids 0 16); (32, ids 16 5); (32, ids 21 16)].
Proof. reflexivity. Qed.

Theorem ck_sha1_single_eq (h block junk : list N) :
  length h = 5%nat -> Forall (fun x => x < 2 ^ 32) h ->
  length block = 64%nat -> Forall (fun x => x < 2 ^ 8) block ->
  exists F0, forall fuel, (F0 <= fuel)%nat ->
    c_sha1_single fuel (le_words 4 block) h junk = Some (sha1_compress h block).
Proof.
  intros Hlh Hbh Hlb Hbb.
  destruct (block_words block Hlb Hbb) as (Ld & _ & Bd & Ebe).
  unfold sha1_compress. rewrite Ebe. clear Ebe.
  set (data := le_words 4 block) in *.
  set (J := map (wrap 32) (firstn 16 (junk ++ repeat 0 16))).
  assert (LJ : length J = 16%nat) by (unfold J; rewrite map_length, firstn_length, app_length, repeat_length; lia).
  assert (BJ : Forall (fun x => x < 2 ^ 32) J).
  { unfold J. apply Forall_forall. intros x Hx. apply in_map_iff in Hx as (y & <- & _). apply wrap_lt. }
  set (L := data ++ h ++ J).
  assert (HL : length L = 37%nat) by (unfold L; rewrite !app_length; lia).
  destruct (segs3 data h J 16 5 16 Ld Hlh LJ) as (S1 & S2 & S3). fold L in S1, S2, S3.
  set (rho := rho_of L) in *.
  assert (Hwf0 : wf rho (ck_t0 sha1_objs)).
  { rewrite sha1_t0_eq. apply wf_var_table. apply (rho_bound L (repeat 32 37)); [rewrite repeat_length; exact HL|].
    rewrite <- HL. apply Forall2_repeat. unfold L. rewrite !Forall_app. auto. }
  destruct (sha1_sym_sound rho Hwf0) as (st' & Hex & Hget).
  exists 8000%nat. intros fuel Hf. apply (c_sha1_single_mono _ _ _ 8000 fuel); [exact Hf|].
  unfold c_sha1_single.
  assert (Hinit : conc (tvals rho (ck_t0 sha1_objs)) (ck_st0 sha1_nvars sha1_objs) = c_sha1_single_init data h junk).
  { rewrite sha1_t0_eq. unfold conc, ck_st0, c_sha1_single_init, mkstate. cbn [sv so]. f_equal.
    rewrite sha1_cells_eq. cbn [map fst snd].
    rewrite !cells_val by (rewrite repeat_length; lia). rewrite S1, S2. change 21%nat with (16 + 5)%nat. rewrite S3. reflexivity. }
  rewrite <- Hinit, Hex, Hget. rewrite sha1_t0_eq.
  rewrite !map_V_ids by (rewrite repeat_length; lia). rewrite S1, S2. reflexivity.
Qed.

(* ================================================================ sha512_single *)

Definition sha512_objs : list (N * nat) := [(64, 16%nat); (64, 8%nat); (64, 16%nat)].
Definition sha512_nvars : nat := Eval vm_compute in length (st_vars (c_sha512_single_init [] [] [])).
Definition sha512_symspec (o : list (list N)) : M (list N) :=
  match o with [d; h; _] => sy_be_compress sy512_compress_words 64 h d | _ => fail end.

(* THE REGENERATED OBLIGATION *)
Lemma sha512_check_true : ck_check c_sha512_single_body 8000 sha512_nvars sha512_objs 1 sha512_symspec = true.
Proof. vm_compute. reflexivity. Qed.

Lemma c_sha512_single_mono d h j a b r :
  (a <= b)%nat -> c_sha512_single a d h j = Some r -> c_sha512_single b d h j = Some r.
Proof.
  unfold c_sha512_single. intros Hab H.
  destruct (exec a c_sha512_single_body _) eqn:E; [|discriminate].
  rewrite (exec_mono _ _ _ _ E b Hab). exact H.
Qed.

Theorem sha512_sym_sound (rho : nat -> N) :
  wf rho (ck_t0 sha512_objs) ->
  exists st',
    exec 8000 c_sha512_single_body (conc (tvals rho (ck_t0 sha512_objs)) (ck_st0 sha512_nvars sha512_objs)) = Some st' /\
    get_obj st' 1 =
    Some (sha512_compress_words (map (V rho (ck_t0 sha512_objs)) (ids 16 8))
            (map (bswap 64) (map (V rho (ck_t0 sha512_objs)) (ids 0 16)))).
Proof.
  intros Hwf0.
  assert (Hst0 : sst_ok (ck_t0 sha512_objs) (ck_st0 sha512_nvars sha512_objs)).
  { split; [repeat constructor|]. unfold inb. vm_compute. repeat constructor. }
  apply (ck_check_sound rho c_sha512_single_body 8000 sha512_nvars sha512_objs 1 sha512_symspec _ Hwf0 Hst0);
    [|exact sha512_check_true].
  intros s Ws Es. unfold sha512_symspec. cbn [map snd ck_cells ck_cells_from sha512_objs].
  eapply POST_conv.
  + apply sy512_be_compress_ok; [exact Ws| | |reflexivity|reflexivity].
    * apply (Forall_inb_ext _ _ _ Es). unfold inb. vm_compute. repeat constructor.
    * apply (Forall_inb_ext _ _ _ Es). unfold inb. vm_compute. repeat constructor.
  + intros l s2 [F2 V2]. split; [exact F2|]. rewrite V2.
    rewrite !(map_V_ext rho _ _ _ Es) by (unfold inb; vm_compute; repeat constructor). reflexivity.
Qed.

Lemma sha512_t0_eq : ck_t0 sha512_objs = var_table (repeat 64 40).
Proof. reflexivity. Qed.
Lemma sha512_cells_eq : ck_cells sha512_objs = [(64, ids 0 16); (64, ids 16 8); (64, ids 24 16)].
Proof. reflexivity. Qed.

Theorem ck_sha512_single_eq (h block junk : list N) :
  length h = 8%nat -> Forall (fun x => x < 2 ^ 64) h ->
  length block = 128%nat -> Forall (fun x => x < 2 ^ 8) block ->
  exists F0, forall fuel, (F0 <= fuel)%nat ->
    c_sha512_single fuel (le_words 8 block) h junk = Some (sha512_compress h block).
Proof.
  intros Hlh Hbh Hlb Hbb.
  destruct (block_words64 block Hlb Hbb) as (Ld & Bd & Ebe).
  unfold sha512_compress. rewrite Ebe. clear Ebe.
  set (data := le_words 8 block) in *.
  set (J := map (wrap 64) (firstn 16 (junk ++ repeat 0 16))).
  assert (LJ : length J = 16%nat) by (unfold J; rewrite map_length, firstn_length, app_length, repeat_length; lia).
  assert (BJ : Forall (fun x => x < 2 ^ 64) J).
  { unfold J. apply Forall_forall. intros x Hx. apply in_map_iff in Hx as (y & <- & _). apply wrap_lt. }
  set (L := data ++ h ++ J).
  assert (HL : length L = 40%nat) by (unfold L; rewrite !app_length; lia).
  destruct (segs3 data h J 16 8 16 Ld Hlh LJ) as (S1 & S2 & S3). fold L in S1, S2, S3.
  set (rho := rho_of L) in *.
  assert (Hwf0 : wf rho (ck_t0 sha512_objs)).
  { rewrite sha512_t0_eq. apply wf_var_table. apply (rho_bound L (repeat 64 40)); [rewrite repeat_length; exact HL|].
    rewrite <- HL. apply Forall2_repeat. unfold L. rewrite !Forall_app. auto. }
  destruct (sha512_sym_sound rho Hwf0) as (st' & Hex & Hget).
  exists 8000%nat. intros fuel Hf. apply (c_sha512_single_mono _ _ _ 8000 fuel); [exact Hf|].
  unfold c_sha512_single.
  assert (Hinit : conc (tvals rho (ck_t0 sha512_objs)) (ck_st0 sha512_nvars sha512_objs) = c_sha512_single_init data h junk).
  { rewrite sha512_t0_eq. unfold conc, ck_st0, c_sha512_single_init, mkstate. cbn [sv so]. f_equal.
    rewrite sha512_cells_eq. cbn [map fst snd].
    rewrite !cells_val by (rewrite repeat_length; lia). rewrite S1, S2. change 24%nat with (16 + 8)%nat. rewrite S3. reflexivity. }
  rewrite <- Hinit, Hex, Hget. rewrite sha512_t0_eq.
  rewrite !map_V_ids by (rewrite repeat_length; lia). rewrite S1, S2. reflexivity.
Qed.

(* ================================================================ md5_single *)

Definition md5_objs : list (N * nat) := [(32, 16%nat); (32, 4%nat)].
Definition md5_nvars : nat := Eval vm_compute in length (st_vars (c_md5_single_init [] [])).
Definition md5_symspec (o : list (list N)) : M (list N) :=
  match o with [d; h] => sy5_compress_words h d | _ => fail end.

(* THE REGENERATED OBLIGATION *)
Lemma md5_check_true : ck_check c_md5_single_body 8000 md5_nvars md5_objs 1 md5_symspec = true.
Proof. vm_compute. reflexivity. Qed.

Lemma c_md5_single_mono d h a b r :
  (a <= b)%nat -> c_md5_single a d h = Some r -> c_md5_single b d h = Some r.
Proof.
  unfold c_md5_single. intros Hab H.
  destruct (exec a c_md5_single_body _) eqn:E; [|discriminate].
  rewrite (exec_mono _ _ _ _ E b Hab). exact H.
Qed.

Theorem md5_sym_sound (rho : nat -> N) :
  wf rho (ck_t0 md5_objs) ->
  exists st',
    exec 8000 c_md5_single_body (conc (tvals rho (ck_t0 md5_objs)) (ck_st0 md5_nvars md5_objs)) = Some st' /\
    get_obj st' 1 =
    Some (md5_compress_words (map (V rho (ck_t0 md5_objs)) (ids 16 4)) (map (V rho (ck_t0 md5_objs)) (ids 0 16))).
Proof.
  intros Hwf0.
  assert (Hst0 : sst_ok (ck_t0 md5_objs) (ck_st0 md5_nvars md5_objs)).
  { split; [repeat constructor|]. unfold inb. vm_compute. repeat constructor. }
  apply (ck_check_sound rho c_md5_single_body 8000 md5_nvars md5_objs 1 md5_symspec _ Hwf0 Hst0);
    [|exact md5_check_true].
  intros s Ws Es. unfold md5_symspec. cbn [map snd ck_cells ck_cells_from md5_objs].
  eapply POST_conv.
  + apply sy5_compress_words_ok; [exact Ws| | |reflexivity|reflexivity].
    * apply (Forall_inb_ext _ _ _ Es). unfold inb. vm_compute. repeat constructor.
    * apply (Forall_inb_ext _ _ _ Es). unfold inb. vm_compute. repeat constructor.
  + intros l s2 [F2 V2]. split; [exact F2|]. rewrite V2.
    rewrite !(map_V_ext rho _ _ _ Es) by (unfold inb; vm_compute; repeat constructor). reflexivity.
Qed.

Lemma md5_t0_eq : ck_t0 md5_objs = var_table (repeat 32 20).
Proof. reflexivity. Qed.
Lemma md5_cells_eq : ck_cells md5_objs = [(32, ids 0 16); (32, ids 16 4)].
Proof. reflexivity. Qed.

Theorem ck_md5_single_eq (h block : list N) :
  length h = 4%nat -> Forall (fun x => x < 2 ^ 32) h ->
  length block = 64%nat -> Forall (fun x => x < 2 ^ 8) block ->
  exists F0, forall fuel, (F0 <= fuel)%nat ->
    c_md5_single fuel (le_words 4 block) h = Some (md5_compress h block).
Proof.
  intros Hlh Hbh Hlb Hbb.
  destruct (block_words_le block Hlb Hbb) as (Ld & Bd & Ebe).
  unfold md5_compress. rewrite Ebe. clear Ebe.
  set (data := le_words 4 block) in *.
  set (L := data ++ h).
  assert (HL : length L = 20%nat) by (unfold L; rewrite !app_length; lia).
  destruct (segs2 data h 16 4 Ld Hlh) as (S1 & S2). fold L in S1, S2.
  set (rho := rho_of L) in *.
  assert (Hwf0 : wf rho (ck_t0 md5_objs)).
  { rewrite md5_t0_eq. apply wf_var_table. apply (rho_bound L (repeat 32 20)); [rewrite repeat_length; exact HL|].
    rewrite <- HL. apply Forall2_repeat. unfold L. rewrite !Forall_app. auto. }
  destruct (md5_sym_sound rho Hwf0) as (st' & Hex & Hget).
  exists 8000%nat. intros fuel Hf. apply (c_md5_single_mono _ _ 8000 fuel); [exact Hf|].
  unfold c_md5_single.
  assert (Hinit : conc (tvals rho (ck_t0 md5_objs)) (ck_st0 md5_nvars md5_objs) = c_md5_single_init data h).
  { rewrite md5_t0_eq. unfold conc, ck_st0, c_md5_single_init, mkstate. cbn [sv so]. f_equal.
    rewrite md5_cells_eq. cbn [map fst snd].
    rewrite !cells_val by (rewrite repeat_length; lia). rewrite S1, S2. reflexivity. }
  rewrite <- Hinit, Hex, Hget. rewrite md5_t0_eq.
  rewrite !map_V_ids by (rewrite repeat_length; lia). rewrite S1, S2. reflexivity.
Qed.
