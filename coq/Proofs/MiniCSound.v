(* MiniCSound — what a passing check16 / check13 / check_legacy means, for every world.
   (Engine soundness is Proofs/MiniCFacts.decide_sound.) *)
From Coq Require Import NArith Arith List Bool Lia.
From ISAL Require Import Model.MiniC Model.MiniCCheck Proofs.MiniCFacts.
Import ListNotations.
Local Open Scope N_scope.

(* ------------------------------------------------------------------ helpers *)

Lemma firstn_length_app : forall {A} (l1 l2 : list A), firstn (length l1) (l1 ++ l2) = l1.
Proof. induction l1; intros; simpl; [ reflexivity | f_equal; auto ]. Qed.
Lemma skipn_length_app : forall {A} (l1 l2 : list A), skipn (length l1) (l1 ++ l2) = l2.
Proof. induction l1; intros; simpl; auto. Qed.

Lemma any_true_map : forall {A} (f : A -> bool) l, any_true (map f l) = true <-> exists x, In x l /\ f x = true.
Proof.
  induction l as [|y r IH]; simpl.
  - split; [ discriminate | intros [x [[] _]] ].
  - rewrite orb_true_iff, IH. split.
    + intros [H|[x [H1 H2]]]; [ exists y; auto | exists x; auto ].
    + intros [x [[H|H] H2]]; [ subst; auto | right; exists x; auto ].
Qed.

Lemma any_true_map_false : forall {A} (f : A -> bool) l, any_true (map f l) = false <-> forall x, In x l -> f x = false.
Proof.
  intros A f l. split.
  - intros H x Hx. destruct (f x) eqn:E; [| reflexivity ].
    assert (any_true (map f l) = true) by (apply any_true_map; exists x; auto). congruence.
  - intros H. destruct (any_true (map f l)) eqn:E; [| reflexivity ].
    apply any_true_map in E. destruct E as [x [H1 H2]]. rewrite (H x H1) in H2. discriminate.
Qed.

Lemma code_admissible_spec : forall c ps (f : pspec -> bool),
  code_admissible c ps (map f ps) = true -> exists p, In p ps /\ f p = true /\ In c (p_codes p).
Proof.
  induction ps as [|p r IH]; intros f H; simpl in H; [ discriminate |].
  apply orb_true_iff in H. destruct H as [H|H].
  - apply andb_prop in H. destruct H as [H1 H2]. apply existsb_exists in H2. destruct H2 as [x [Hx E]].
    apply N.eqb_eq in E. subst x. exists p. simpl. auto.
  - destruct (IH f H) as [q [H1 [H2 H3]]]. exists q. simpl. auto.
Qed.

Lemma ret_const_inv : forall r c, ret_const r = Some c -> r = Some (SConst c).
Proof. intros [[n|k|? ? ?|? ? ? ?|? ? ? ?|? ? ?]|] c H; simpl in H; inversion H; subst; reflexivity. Qed.

(* ------------------------------------------------------------------ C16 *)

Definition must_refuse (w : world) (e : espec) : Prop :=
  exists p, In p (e_params e) /\ eval_form w (p_off p) = true.
Definition may_refuse (w : world) (e : espec) : Prop :=
  exists p, In p (e_params e) /\ eval_form w (p_may p) = true.

(* the call is refused: a non-zero code documented for a parameter that is offending in w,
   and nothing was read, written or called *)
Definition refusal (e : espec) (w : world) (res : dtree) : Prop :=
  exists c tr, res = Leaf (Some (SConst c)) tr /\ c <> 0 /\ quiet tr = true /\
               exists p, In p (e_params e) /\ eval_form w (p_may p) = true /\ In c (p_codes p).
(* the call is served: exactly one internal call with the arguments passed through and the
   documented result — or, where the (in-domain) arguments leave the internal symbol nothing
   to do (e_pre false: a zero length), possibly 0 without any effect instead *)
Definition service (e : espec) (w : world) (res : dtree) : Prop :=
  exists r tr, res = Leaf r tr /\
               (shape_ok (e_shape e) r tr = true \/
                (eval_form w (e_pre e) = false /\ quiet tr = true /\ r = Some (SConst 0))).

Lemma refused_ok_refusal : forall e w r tr,
  refused_ok e r tr (map (fun p => eval_form w (p_may p)) (e_params e)) = true -> refusal e w (Leaf r tr).
Proof.
  intros e w r tr H. unfold refused_ok in H. apply andb_prop in H. destruct H as [Hq H].
  destruct (ret_const r) as [c|] eqn:E; [| discriminate ].
  apply andb_prop in H. destruct H as [Hc Ha]. apply ret_const_inv in E. subst r.
  apply negb_true_iff in Hc. apply N.eqb_neq in Hc.
  destruct (code_admissible_spec c (e_params e) (fun p => eval_form w (p_may p)) Ha) as [p [H1 [H2 H3]]].
  exists c, tr. repeat split; auto. exists p. auto.
Qed.

Lemma accepted_ok_service : forall e w r tr,
  accepted_ok e (eval_form w (e_pre e)) r tr = true -> service e w (Leaf r tr).
Proof.
  intros e w r tr H. unfold accepted_ok in H. exists r, tr. split; [ reflexivity |].
  apply orb_true_iff in H. destruct H as [H|H]; [ left; exact H | right ].
  apply andb_prop in H. destruct H as [H Hr]. apply andb_prop in H. destruct H as [Hp Hq].
  apply negb_true_iff in Hp. split; [ exact Hp |]. split; [ exact Hq |].
  destruct (ret_const r) as [c|] eqn:E; [| discriminate ]. apply ret_const_inv in E. subst r.
  destruct c; [ reflexivity | discriminate ].
Qed.

Section C16.
  Variables (T : ftab) (e : espec) (d : fundef).
  Hypothesis Hd : ftab_get T (e_id e) = Some d.
  Hypothesis Hc : check16 T e = true.

  Lemma check16_g : forall w, g16 e (run T w d) (map (eval_form w) (forms16 e)) = true.
  Proof. intros w. unfold check16 in Hc. rewrite Hd in Hc. exact (decide_sound _ _ _ Hc w). Qed.

  Lemma g16_cases : forall w,
    exists r tr, run T w d = Leaf r tr /\
      let musts := map (fun p => eval_form w (p_off p)) (e_params e) in
      let mays := map (fun p => eval_form w (p_may p)) (e_params e) in
      (if any_true musts then refused_ok e r tr mays
       else if any_true mays then refused_ok e r tr mays || accepted_ok e (eval_form w (e_pre e)) r tr
       else accepted_ok e (eval_form w (e_pre e)) r tr) = true.
  Proof.
    intros w. pose proof (check16_g w) as H. unfold g16, forms16 in H.
    destruct (run T w d) as [r tr|c a b|n]; try discriminate.
    exists r, tr. split; [ reflexivity |]. simpl in H.
    rewrite map_app, !map_map in H.
    replace (length (e_params e)) with (length (map (fun x => eval_form w (p_off x)) (e_params e))) in H
      by apply map_length.
    rewrite firstn_length_app, skipn_length_app in H. exact H.
  Qed.

  (* an offending argument: refused with a documented code, no read / write / call *)
  Theorem c16_refuses : forall w, must_refuse w e -> refusal e w (run T w d).
  Proof.
    intros w Hm. destruct (g16_cases w) as [r [tr [E H]]]. rewrite E. cbv zeta in H.
    assert (A : any_true (map (fun p => eval_form w (p_off p)) (e_params e)) = true).
    { apply any_true_map. exact Hm. }
    rewrite A in H. apply refused_ok_refusal. exact H.
  Qed.

  (* no argument that may be refused: served *)
  Theorem c16_serves : forall w, ~ may_refuse w e -> ~ must_refuse w e -> service e w (run T w d).
  Proof.
    intros w Hn Hm. destruct (g16_cases w) as [r [tr [E H]]]. rewrite E. cbv zeta in H.
    assert (A : any_true (map (fun p => eval_form w (p_off p)) (e_params e)) = false).
    { destruct (any_true _) eqn:X; [| reflexivity ]. exfalso. apply Hm. apply any_true_map in X. exact X. }
    assert (B : any_true (map (fun p => eval_form w (p_may p)) (e_params e)) = false).
    { destruct (any_true (map (fun p => eval_form w (p_may p)) _)) eqn:X; [| reflexivity ]. exfalso. apply Hn. apply any_true_map in X. exact X. }
    rewrite A, B in H. apply accepted_ok_service. exact H.
  Qed.

  (* in every world: refused or served, nothing else (no Stuck, no third behaviour) *)
  Theorem c16_total : forall w, refusal e w (run T w d) \/ service e w (run T w d).
  Proof.
    intros w. destruct (g16_cases w) as [r [tr [E H]]]. rewrite E. cbv zeta in H.
    destruct (any_true (map (fun p => eval_form w (p_off p)) (e_params e))).
    - left. apply refused_ok_refusal. exact H.
    - destruct (any_true (map (fun p => eval_form w (p_may p)) (e_params e))).
      + apply orb_true_iff in H. destruct H as [H|H]; [ left; apply refused_ok_refusal | right; apply accepted_ok_service ]; exact H.
      + right. apply accepted_ok_service. exact H.
  Qed.
End C16.

(* what quiet and shape_ok say about a trace *)
Lemma quiet_spec : forall tr, quiet tr = true ->
  forall ev, In ev tr -> exists f a, ev = EvEnter f a.
Proof.
  intros tr H ev Hin. unfold quiet in H. rewrite forallb_forall in H. specialize (H ev Hin).
  destruct ev; try discriminate. eauto.
Qed.

Lemma sval_eqb_eq : forall a b, sval_eqb a b = true -> a = b.
Proof.
  assert (C : forall t u, cty_eqb t u = true -> t = u).
  { intros [b s| |] [b' s'| |] H; simpl in H; try discriminate; try reflexivity.
    apply andb_prop in H. destruct H as [H1 H2]. apply N.eqb_eq in H1. apply eqb_prop in H2. subst. reflexivity. }
  induction a; destruct b; simpl; intros H; try discriminate;
    repeat (apply andb_prop in H; destruct H as [H ?]);
    repeat match goal with
           | h : (binop_n ?x =? binop_n ?y) = true |- _ => apply N.eqb_eq in h; destruct x, y; try discriminate h; clear h
           | h : (cmpop_n ?x =? cmpop_n ?y) = true |- _ => apply N.eqb_eq in h; destruct x, y; try discriminate h; clear h
           | h : unop_eqb ?x ?y = true |- _ => destruct x, y; try discriminate h; clear h
           | h : cty_eqb _ _ = true |- _ => apply C in h; subst
           | h : (_ =? _) = true |- _ => apply N.eqb_eq in h; subst
           | h : skey_eqb _ _ = true |- _ => apply skey_eqb_eq in h; subst
           | h : sval_eqb _ _ = true |- _ => first [ apply IHa in h | apply IHa1 in h | apply IHa2 in h ]; subst
           end; reflexivity.
Qed.

Lemma svals_eqb_eq : forall a b, svals_eqb a b = true -> a = b.
Proof.
  induction a as [|x r IH]; destruct b as [|y s]; simpl; intros H; try discriminate; [ reflexivity |].
  apply andb_prop in H. destruct H as [H1 H2]. apply sval_eqb_eq in H1. apply IH in H2. subst. reflexivity.
Qed.

(* served through an external internal symbol: apart from the markers of helpers executed in
   line, the trace starts with exactly that call, with the specified argument vector *)
Lemma shape_ok_call : forall sh r tr, sh_inline sh = false -> shape_ok sh r tr = true ->
  exists rest, no_enter tr = EvCall (sh_callee sh) (sh_args sh) :: rest /\ store_ok sh rest = true /\
               ret_ok (sh_ret sh) (sh_callee sh) r = true.
Proof.
  intros sh r tr Hi H. unfold shape_ok in H. rewrite Hi in H.
  destruct (no_enter tr) as [|ev rest]; [ discriminate |].
  destruct ev; try discriminate.
  apply andb_prop in H; destruct H as [H He].
  apply andb_prop in H; destruct H as [H Hs].
  apply andb_prop in H; destruct H as [Hf Ha].
  apply N.eqb_eq in Hf. apply svals_eqb_eq in Ha. subst. exists rest. auto.
Qed.

(* ------------------------------------------------------------------ legacy *)

Lemma legacy_ok_spec : forall T sh l, sh_inline sh = false -> legacy_same T sh l = true ->
  exists d r, ftab_get T l = Some d /\
    entry_tree T d = Leaf r [EvCall (sh_callee sh) (arg_keys 0 (f_params d))] /\
    length (f_params d) = length (sh_args sh).
Proof.
  intros T sh l Hi H. unfold legacy_same in H. rewrite Hi in H. unfold legacy_ok in H.
  destruct (ftab_get T l) as [d|]; [| discriminate ].
  destruct (entry_tree T d) as [r tr| |] eqn:Et; try discriminate.
  destruct tr as [|ev rest]; [ discriminate |]. destruct ev; try discriminate.
  - apply andb_prop in H; destruct H as [H _].
    apply andb_prop in H; destruct H as [H Hr].
    apply andb_prop in H; destruct H as [H Hl].
    apply andb_prop in H; destruct H as [Hf Ha].
    destruct rest; [| discriminate ].
    apply N.eqb_eq in Hf. apply svals_eqb_eq in Ha. apply Nat.eqb_eq in Hl. subst.
    exists d, r. split; [ reflexivity |]. split; [ exact Et |].
    rewrite <- Hl. clear. generalize 0. induction (f_params d); intros; simpl; auto.
Qed.

(* ------------------------------------------------------------------ C13 *)

Lemma a_eq_true : forall w k c, eval_form w (a_eq k c) = (w k =? c).
Proof. intros. unfold a_eq. simpl. unfold truth. simpl. destruct (w k =? c); reflexivity. Qed.

Lemma no_call_no_work : forall aes sha tr, no_call aes sha tr = true -> no_work aes sha tr = true.
Proof.
  intros aes sha tr H. unfold no_call, no_work in *. rewrite forallb_forall in *.
  intros ev Hin. specialize (H ev Hin). destruct ev; try exact H; try discriminate.
Qed.

Section C13.
  Variables (aes sha : N) (T : ftab) (e : espec) (d : fundef).
  Hypothesis Hd : ftab_get T (e_id e) = Some d.
  Hypothesis Hc : check13 aes sha T e = true.

  Definition valid (w : world) : Prop := forall p, In p (e_params e) -> eval_form w (p_may p) = false.

  Lemma check13_g : forall w, g13 aes sha e (run T w d) (map (eval_form w) (forms13 aes sha e)) = true.
  Proof. intros w. unfold check13 in Hc. rewrite Hd in Hc. exact (decide_sound _ _ _ Hc w). Qed.

  (* non-approved algorithm: the invalid-algorithm error and an empty trace, in every world *)
  Theorem c13_nonapproved : e_class e = NonApproved ->
    forall w, run T w d = Leaf (Some (SConst ERR_FIPS_INVALID_ALGO)) [].
  Proof.
    intros Hcl w. pose proof (check13_g w) as H. unfold g13 in H. rewrite Hcl in H.
    unfold g13_nonapproved in H. destruct (run T w d) as [r tr| |]; try discriminate.
    destruct tr; [| discriminate ]. destruct (ret_const r) as [c|] eqn:E; [| discriminate ].
    apply ret_const_inv in E. apply N.eqb_eq in H. subst. reflexivity.
  Qed.

  (* the case analysis of an approved entry point on valid arguments *)
  Lemma c13_cases : e_class e = Approved -> forall w, valid w ->
    exists r tr, run T w d = Leaf r tr /\
      (if refused aes sha r tr then true
       else if eval_form w (e_samekey e) then false
       else if w KStatus =? 1 then ret_is r ERR_SELF_TEST && no_work aes sha tr
       else if w KStatus =? 0 then went_through aes sha e (eval_form w (e_pre e)) true r tr
       else if (w (KExt aes 0) =? 0) && (w (KExt sha 0) =? 0) then
         went_through aes sha e (eval_form w (e_pre e))
           (calls aes (before_work aes sha tr) && calls sha (before_work aes sha tr)) r tr
       else ret_is r ERR_SELF_TEST && no_work aes sha tr) = true.
  Proof.
    intros Hcl w Hv. pose proof (check13_g w) as H. unfold g13 in H. rewrite Hcl in H.
    unfold g13_approved, forms13 in H.
    destruct (run T w d) as [r tr| |]; try discriminate. exists r, tr. split; [ reflexivity |].
    cbn [map app] in H. unfold f_passed, f_failed, f_aes_ok, f_sha_ok in H. rewrite !a_eq_true in H.
    rewrite map_map in H.
    assert (A : any_true (map (fun x => eval_form w (p_may x)) (e_params e)) = false).
    { apply any_true_map_false. exact Hv. }
    rewrite A in H. exact H.
  Qed.

  (* (a) self-tests failed: the self-test error (or the XTS same-key refusal), nothing written,
         no crypto symbol reached *)
  Theorem c13_failed_blocks : e_class e = Approved -> forall w, valid w -> w KStatus = 1 ->
    exists r tr, run T w d = Leaf r tr /\ no_work aes sha tr = true /\
                 (ret_is r ERR_SELF_TEST = true \/ ret_is r ERR_XTS_SAME_KEYS = true).
  Proof.
    intros Hcl w Hv Hs. destruct (c13_cases Hcl w Hv) as [r [tr [E H]]]. exists r, tr. split; [ exact E |].
    destruct (refused aes sha r tr) eqn:R.
    - unfold refused in R. apply andb_prop in R. destruct R as [R1 R2].
      split; [ apply no_call_no_work; exact R2 | right; exact R1 ].
    - destruct (eval_form w (e_samekey e)); [ discriminate |].
      rewrite Hs in H. simpl in H. apply andb_prop in H. destruct H. auto.
  Qed.

  (* (b) no work before the self-tests have run and passed: any write / crypto call / loop in the
         trace is preceded by the status check, the status is not "failed", and either it is
         "passed" or both self-test runs precede the work and both returned 0 *)
  Theorem c13_no_work_before_tests : e_class e = Approved -> forall w, valid w ->
    exists r tr, run T w d = Leaf r tr /\
      (no_work aes sha tr = false ->
       calls B_CHECK (before_work aes sha tr) = true /\ w KStatus <> 1 /\
       (w KStatus = 0 \/
        (calls aes (before_work aes sha tr) = true /\ calls sha (before_work aes sha tr) = true /\
         w (KExt aes 0) = 0 /\ w (KExt sha 0) = 0))).
  Proof.
    intros Hcl w Hv. destruct (c13_cases Hcl w Hv) as [r [tr [E H]]]. exists r, tr. split; [ exact E |].
    intros Hw.
    destruct (refused aes sha r tr) eqn:R.
    { unfold refused in R. apply andb_prop in R. destruct R as [_ R2].
      apply no_call_no_work in R2. congruence. }
    destruct (eval_form w (e_samekey e)); [ discriminate |].
    destruct (w KStatus =? 1) eqn:S1.
    { apply andb_prop in H. destruct H. congruence. }
    apply N.eqb_neq in S1.
    destruct (w KStatus =? 0) eqn:S0.
    { apply N.eqb_eq in S0. unfold went_through in H. repeat (apply andb_prop in H; destruct H as [H ?]). auto. }
    destruct ((w (KExt aes 0) =? 0) && (w (KExt sha 0) =? 0)) eqn:X.
    - apply andb_prop in X. destruct X as [X1 X2]. apply N.eqb_eq in X1. apply N.eqb_eq in X2.
      unfold went_through in H. repeat (apply andb_prop in H; destruct H as [H ?]).
      match goal with h : calls aes _ && calls sha _ = true |- _ => apply andb_prop in h; destruct h end.
      repeat split; auto.
    - apply andb_prop in H. destruct H. congruence.
  Qed.

  (*     ... and a failing run blocks the call *)
  Theorem c13_failing_run_blocks : e_class e = Approved -> forall w, valid w ->
    w KStatus <> 0 -> w KStatus <> 1 -> ~ (w (KExt aes 0) = 0 /\ w (KExt sha 0) = 0) ->
    exists r tr, run T w d = Leaf r tr /\ no_work aes sha tr = true /\
                 (ret_is r ERR_SELF_TEST = true \/ ret_is r ERR_XTS_SAME_KEYS = true).
  Proof.
    intros Hcl w Hv S0 S1 X. destruct (c13_cases Hcl w Hv) as [r [tr [E H]]]. exists r, tr. split; [ exact E |].
    destruct (refused aes sha r tr) eqn:R.
    { unfold refused in R. apply andb_prop in R. destruct R as [R1 R2].
      split; [ apply no_call_no_work; exact R2 | right; exact R1 ]. }
    destruct (eval_form w (e_samekey e)); [ discriminate |].
    apply N.eqb_neq in S0. apply N.eqb_neq in S1. rewrite S0, S1 in H.
    destruct ((w (KExt aes 0) =? 0) && (w (KExt sha 0) =? 0)) eqn:Y.
    - exfalso. apply X. apply andb_prop in Y. destruct Y as [Y1 Y2]. apply N.eqb_eq in Y1. apply N.eqb_eq in Y2. auto.
    - apply andb_prop in H. destruct H. auto.
  Qed.

  (* (c) the gate lets a healthy library through: status passed (or the tests run now and
         pass) => the one internal call with the arguments passed through (or an XTS refusal) *)
  Theorem c13_passed_serves : e_class e = Approved -> forall w, valid w -> w KStatus = 0 ->
    exists r tr, run T w d = Leaf r tr /\
      (refused aes sha r tr = true \/ shape_ok (e_shape e) r (core aes sha tr) = true \/
       (eval_form w (e_pre e) = false /\ ret_is r 0 = true /\ no_work aes sha tr = true)).
  Proof.
    intros Hcl w Hv Hs. destruct (c13_cases Hcl w Hv) as [r [tr [E H]]]. exists r, tr. split; [ exact E |].
    destruct (refused aes sha r tr); [ left; reflexivity |].
    destruct (eval_form w (e_samekey e)); [ discriminate |].
    rewrite Hs in H. simpl in H. unfold went_through in H.
    apply andb_prop in H. destruct H as [_ H]. apply orb_true_iff in H. destruct H as [H|H]; [ auto |].
    right. right. apply andb_prop in H. destruct H as [H H2]. apply andb_prop in H. destruct H as [H0 H1].
    apply negb_true_iff in H0. auto.
  Qed.

  (* (d) XTS: identical keys are refused, whatever the status, before anything is called *)
  Theorem c13_same_keys_refused : e_class e = Approved -> forall w, valid w ->
    eval_form w (e_samekey e) = true ->
    exists r tr, run T w d = Leaf r tr /\ ret_is r ERR_XTS_SAME_KEYS = true /\ no_call aes sha tr = true.
  Proof.
    intros Hcl w Hv Hk. destruct (c13_cases Hcl w Hv) as [r [tr [E H]]]. exists r, tr. split; [ exact E |].
    destruct (refused aes sha r tr) eqn:R.
    - unfold refused in R. apply andb_prop in R. exact R.
    - rewrite Hk in H. discriminate.
  Qed.
End C13.
