(* The mid-stream forms used by the C15 tie (Model/HashObs.v: md_pad_N, md_continue,
   shift_algo) agree with the standard definitions of Spec/MD.v. *)
From Coq Require Import NArith List Arith Lia.
From ISAL Require Import Base.Words Base.ListUtil Spec.MD Spec.HashApiSpec Model.HashCtx Model.HashObs
  Proofs.ChunkFacts Proofs.HashPadFacts Proofs.HashCtxFacts.
Import ListNotations.

Section Shift.
Variable A : algo.
Hypothesis WF : algo_wf A.

Lemma padz_N_nat n : N.to_nat (padz_N A (N.of_nat n)) = padz A n.
Proof.
  unfold padz_N, padz. cbv zeta.
  assert (Bn0 : N.of_nat (a_bsize A) <> 0%N) by (pose proof (B_pos A WF); unfold B in *; lia).
  rewrite N2Nat.inj_mod, N2Nat.inj_sub, N2Nat.inj_mod, !N2Nat.inj_add, !Nat2N.id by exact Bn0.
  reflexivity.
Qed.

(* the padding with the total as an N is the padding of Spec/MD.v *)
Lemma md_pad_N_nat n : md_pad_N A (N.of_nat n) = md_pad A n.
Proof. unfold md_pad_N, md_pad. rewrite padz_N_nat. reflexivity. Qed.

(* the standard hash of a stream whose whole-block prefix [pre] is already folded into the
   chaining value is the continuation from that chaining value *)
Lemma md_continue_hash pre tail : blockal A pre ->
  md_hash A (pre ++ tail) = md_continue A (chain A pre) tail (N.of_nat (length (pre ++ tail))).
Proof.
  intros Hb. unfold md_hash, md_continue. rewrite (md_chain_split A WF pre tail Hb), md_pad_N_nat.
  reflexivity.
Qed.

Lemma shift_algo_wf ch p : algo_wf (shift_algo A ch p).
Proof. split; [exact (wf_shape A WF)|intros n; apply (wf_lenbytes A WF)]. Qed.

Lemma padz_shift k n : padz A (k * a_bsize A + n) = padz A n.
Proof.
  unfold padz. cbv zeta. pose proof (B_pos A WF) as Bp. unfold B in Bp.
  replace (k * a_bsize A + n + 1 + a_lenfld A) with (n + 1 + a_lenfld A + k * a_bsize A) by lia.
  rewrite Nat.mod_add by lia. reflexivity.
Qed.

(* the acceptor instantiated with shift_algo demands exactly the continuation: the hash of
   the shifted algorithm over the bytes still to come is md_continue with the true total *)
Lemma shift_algo_hash ch k sg :
  md_hash (shift_algo A ch (N.of_nat (k * a_bsize A))) sg =
  md_continue A ch sg (N.of_nat (k * a_bsize A + length sg)).
Proof.
  unfold md_hash, md_continue, md_chain, md_blocks. cbn [shift_algo a_final a_compress a_bsize a_iv].
  f_equal. f_equal. f_equal. f_equal. rewrite md_pad_N_nat. unfold md_pad.
  cbn [shift_algo a_lenbytes]. change (padz (shift_algo A ch (N.of_nat (k * a_bsize A))) (length sg)) with (padz A (length sg)).
  rewrite padz_shift. f_equal. f_equal. f_equal. lia.
Qed.

Lemma shift_algo_ok ch k sg :
  algo_wf (shift_algo A ch (N.of_nat (k * a_bsize A))) /\
  md_hash (shift_algo A ch (N.of_nat (k * a_bsize A))) sg =
  md_continue A ch sg (N.of_nat (k * a_bsize A + length sg)).
Proof. split; [apply shift_algo_wf|apply shift_algo_hash]. Qed.

(* ... and when the chaining value really is that of a whole-block prefix, it is the
   standard hash of the whole stream *)
Lemma shift_algo_hash_prefix pre sg k : length pre = k * a_bsize A ->
  md_hash (shift_algo A (chain A pre) (N.of_nat (length pre))) sg = md_hash A (pre ++ sg).
Proof.
  intros Hk. rewrite Hk, shift_algo_hash. rewrite md_continue_hash by (exists k; exact Hk).
  rewrite app_length, Hk. reflexivity.
Qed.

End Shift.
