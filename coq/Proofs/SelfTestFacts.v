(* C17: from "the thread-modular checker accepts the program" to the statements of the property,
   for every number of threads and every schedule. *)
From Coq Require Import NArith List Bool Arith Lia.
From ISAL Require Import Base.ListUtil Model.SelfTestSys Model.SelfTest Model.SelfTestTM
  Proofs.SelfTestTMFacts.
Import ListNotations.

(* ------------------------------------------------------------------ decidable equalities reflect *)

Lemma listN_eqb_eq a b : listN_eqb a b = true <-> a = b.
Proof.
  revert b; induction a as [|x a IH]; intros [|y b]; cbn; split; intros H; try discriminate; auto.
  - apply andb_true_iff in H. destruct H as [H1 H2]. apply N.eqb_eq in H1. apply IH in H2. congruence.
  - inversion H; subst. apply andb_true_iff. split; [apply N.eqb_refl | apply IH; reflexivity].
Qed.

Lemma optN_eqb_eq a b : optN_eqb a b = true <-> a = b.
Proof.
  destruct a, b; cbn; split; intros H; try discriminate; auto.
  - apply N.eqb_eq in H. congruence.
  - inversion H. apply N.eqb_refl.
Qed.

Lemma phase_eqb_eq a b : phase_eqb a b = true <-> a = b.
Proof.
  destruct a, b; cbn; split; intros H; try discriminate; auto.
  - apply N.eqb_eq in H. congruence.
  - inversion H. apply N.eqb_refl.
Qed.

Lemma tstate_eqb_eq a b : tstate_eqb a b = true <-> a = b.
Proof.
  destruct a as [a1 a2 a3 a4 a5 a6 a7 a8 a9 a10], b as [b1 b2 b3 b4 b5 b6 b7 b8 b9 b10]; unfold tstate_eqb; cbn [pc regs zf cf sf ovf stk utmp own ph]. split.
  - intros H. repeat match goal with H : _ && _ = true |- _ => apply andb_true_iff in H; destruct H end.
    repeat match goal with
    | H : (_ =? _)%nat = true |- _ => apply Nat.eqb_eq in H
    | H : listN_eqb _ _ = true |- _ => apply listN_eqb_eq in H
    | H : eqb _ _ = true |- _ => apply eqb_prop in H
    | H : optN_eqb _ _ = true |- _ => apply optN_eqb_eq in H
    | H : phase_eqb _ _ = true |- _ => apply phase_eqb_eq in H
    end. congruence.
  - intros H. inversion H; subst.
    repeat (apply andb_true_iff; split); try apply eqb_reflx; try (apply listN_eqb_eq; reflexivity).
    + apply Nat.eqb_refl.
    + apply optN_eqb_eq; reflexivity.
    + apply phase_eqb_eq; reflexivity.
Qed.

Lemma gst_eqb_eq a b : gst_eqb a b = true <-> a = b.
Proof.
  destruct a as [a1 a2 a3], b as [b1 b2 b3]; unfold gst_eqb; cbn [status runs fin]. split.
  - intros H. repeat match goal with H : _ && _ = true |- _ => apply andb_true_iff in H; destruct H end.
    repeat match goal with
    | H : (_ =? _)%nat = true |- _ => apply Nat.eqb_eq in H
    | H : (_ =? _)%N = true |- _ => apply N.eqb_eq in H
    end. congruence.
  - intros H. inversion H; subst. rewrite N.eqb_refl, !Nat.eqb_refl. reflexivity.
Qed.

Ltac split_andb := repeat match goal with H : _ && _ = true |- _ => apply andb_true_iff in H; destruct H end.
Ltac reflect_all := repeat match goal with
  | H : (_ <=? _)%nat = true |- _ => apply Nat.leb_le in H
  | H : (_ =? _)%nat = true |- _ => apply Nat.eqb_eq in H
  | H : (_ =? _)%N = true |- _ => apply N.eqb_eq in H
  end.

(* ------------------------------------------------------------------ schedules *)

Lemma st_exec_app p o s a b : st_exec p o s (a ++ b) = st_exec p o (st_exec p o s a) b.
Proof. unfold st_exec, sexec. apply fold_left_app. Qed.

Definition steps_of (sch : list nat) (u : nat) : nat := count_occ Nat.eq_dec sch u.

(* ------------------------------------------------------------------ the instance *)

Section Inst.
  Variables (p : list instr) (is : N) (entry : nat) (errv : N) (o : N * N).
  Hypothesis Hchk : st_check1 p is entry errv o = true.

  Let PL := st_PL p is entry o.
  Notation run n sch := (st_exec p o (st_init is entry n) sch).

  Definition st_Inv := Inv gst tstate own st_hot PL.
  Lemma Hchk' : tm_check gst tstate gst_eqb tstate_eqb (tstep p o) own st_hot st_cold retd (st_good errv o)
           (st_dist p o) ST_B ST_K PL (g0 is) (t0 entry) = true.
  Proof. exact Hchk. Qed.

  Lemma st_Inv_run n sch : st_Inv (run n sch).
  Proof.
    unfold st_Inv, st_exec, st_init.
    apply (Inv_exec _ _ _ _ gst_eqb_eq tstate_eqb_eq _ _ _ _ _ _ _ _ _ _ _ _ Hchk').
    apply (Inv_init _ _ _ _ gst_eqb_eq tstate_eqb_eq _ _ _ _ _ _ _ _ _ _ _ _ Hchk').
  Qed.

  Lemma st_good_run n sch u l :
    nth_error (sths (run n sch)) u = Some l -> st_good errv o (sg (run n sch)) l = true.
  Proof.
    apply (tm_safe _ _ _ _ gst_eqb_eq tstate_eqb_eq _ _ _ _ _ _ _ _ _ _ _ _ Hchk').
  Qed.

  Lemma run_length n sch : length (sths (run n sch)) = n.
  Proof.
    unfold st_exec. rewrite (sexec_length gst tstate (tstep p o)). cbn. apply repeat_length.
  Qed.

  (* S1 *)
  Lemma st_runs_le_1 n sch : 1 <= n -> runs (sg (run n sch)) <= 1 /\ fin (sg (run n sch)) <= runs (sg (run n sch)).
  Proof.
    intros Hn. destruct (nth_error (sths (run n sch)) 0) as [l|] eqn:E.
    - pose proof (st_good_run _ _ _ _ E) as H. unfold st_good in H.
      split_andb. reflect_all. lia.
    - apply nth_error_None in E. rewrite run_length in E. lia.
  Qed.

  (* S1 (second half) and S2 *)
  Lemma st_returned n sch u l v :
    nth_error (sths (run n sch)) u = Some l -> returned l = Some v ->
    runs (sg (run n sch)) = 1 /\ fin (sg (run n sch)) = 1 /\
    v = (if pass o then 0%N else errv) /\ st_final (sg (run n sch)) = true.
  Proof.
    intros E Hr. pose proof (st_good_run _ _ _ _ E) as H. unfold st_good, thread_ok, returned, retd in *.
    destruct (ph l); try discriminate. inversion Hr; subst.
    split_andb. reflect_all. auto.
  Qed.

  (* S3 *)
  Lemma st_crypto n sch u l :
    nth_error (sths (run n sch)) u = Some l -> did_crypto l = true ->
    runs (sg (run n sch)) = 1 /\ fin (sg (run n sch)) = 1 /\ pass o = true.
  Proof.
    intros E Hr. pose proof (st_good_run _ _ _ _ E) as H. unfold st_good, thread_ok, did_crypto in *.
    destruct (ph l); try discriminate.
    split_andb. reflect_all. auto.
  Qed.

  (* L *)
  Lemma st_reaches_final s sch : st_Inv s -> 1 <= length (sths s) ->
    (forall u, pown gst tstate own st_hot st_cold s u -> ST_B <= steps_of sch u) ->
    st_final (sg (st_exec p o s sch)) = true.
  Proof.
    apply (tm_reaches_final _ _ _ _ gst_eqb_eq tstate_eqb_eq _ _ _ _ _ _ _ _ _ _ _ _ Hchk').
  Qed.

  Lemma st_returns s sch t : st_Inv s -> st_final (sg s) = true -> t < length (sths s) ->
    ST_K <= steps_of sch t -> retdT gst tstate retd (st_exec p o s sch) t = true.
  Proof.
    intros. apply (tm_returns _ _ _ _ gst_eqb_eq tstate_eqb_eq _ _ _ _ _ _ _ _ _ _ _ _ Hchk'); assumption.
  Qed.

  Lemma st_Inv_exec s sch : st_Inv s -> st_Inv (st_exec p o s sch).
  Proof.
    apply (Inv_exec _ _ _ _ gst_eqb_eq tstate_eqb_eq _ _ _ _ _ _ _ _ _ _ _ _ Hchk').
  Qed.

  (* weak fairness, finite horizon: from ANY reachable state (after any sch0), once every thread
     has been scheduled ST_B times (sch1, in any order, anything interleaved) the verdict is
     published, and then thread t returns within ST_K of its own steps (sch2, anything interleaved) *)
  Lemma st_nobody_waits n sch0 sch1 sch2 t : t < n ->
    (forall u, u < n -> ST_B <= steps_of sch1 u) -> ST_K <= steps_of sch2 t ->
    exists l, nth_error (sths (run n (sch0 ++ sch1 ++ sch2))) t = Some l /\ retd l = true.
  Proof.
    intros Ht H1 H2. rewrite !st_exec_app.
    set (s0 := run n sch0). pose proof (st_Inv_run n sch0) as I0. fold s0 in I0.
    assert (L0 : length (sths s0) = n) by apply run_length.
    assert (F1 : st_final (sg (st_exec p o s0 sch1)) = true).
    { apply st_reaches_final; [exact I0 | lia |]. intros u (l & Hu & _). apply H1.
      rewrite <- L0. apply nth_error_Some. congruence. }
    pose proof (st_Inv_exec s0 sch1 I0) as I1.
    assert (L1 : length (sths (st_exec p o s0 sch1)) = n).
    { unfold st_exec. rewrite (sexec_length gst tstate (tstep p o)). exact L0. }
    pose proof (st_returns _ sch2 t I1 F1 ltac:(lia) H2) as R. unfold retdT in R.
    destruct (nth_error (sths (st_exec p o (st_exec p o s0 sch1) sch2)) t) as [l|]; [|discriminate].
    exists l. auto.
  Qed.

  (* the refined form: while a run is in progress only the running thread needs to be scheduled *)
  Lemma st_owner_finishes n sch0 sch1 w lw :
    nth_error (sths (run n sch0)) w = Some lw -> own lw = true -> ST_B <= steps_of sch1 w ->
    st_final (sg (run n (sch0 ++ sch1))) = true.
  Proof.
    intros Hw Ho H1. rewrite st_exec_app.
    set (s0 := run n sch0) in *. pose proof (st_Inv_run n sch0) as I0. fold s0 in I0.
    assert (Ln : 1 <= length (sths s0)).
    { assert (w < length (sths s0)) by (apply nth_error_Some; congruence). lia. }
    apply st_reaches_final; [exact I0 | exact Ln |].
    intros u (l & Hu & Hf & Hh).
    (* the state is hot (an owner exists), so u is an owner, hence u = w *)
    assert (Hot : st_hot (sg s0) = true).
    { destruct (st_hot (sg s0)) eqn:E; [reflexivity|].
      pose proof (cnt_zero own _ _ _ (eq_trans (proj2 I0) ltac:(rewrite E; reflexivity)) Hw). congruence. }
    destruct (Nat.eq_dec u w) as [->|Hne]; [exact H1|].
    exfalso. exact (Inv_one_owner _ _ _ _ _ _ _ _ _ _ I0 Hne Hu Hw (Hh Hot) Ho).
  Qed.
End Inst.

(* ------------------------------------------------------------------ all four boolean outcomes *)

Lemma st_check_all p is entry errv : st_check p is entry errv = true ->
  forall a s, In a [0; 1]%N -> In s [0; 1]%N -> st_check1 p is entry errv (a, s) = true.
Proof.
  intros H a s Ha Hs. unfold st_check in H. rewrite forallb_forall in H. apply H.
  unfold st_oracles. cbn in Ha, Hs. cbn.
  destruct Ha as [<-|[<-|[]]], Hs as [<-|[<-|[]]]; auto.
Qed.
