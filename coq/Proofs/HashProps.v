(* Consequences of the refinement theorem in the form properties C01, C06 and C15 state them:
   in terms of the observed trace alone (stream_of, last_of, pending of Proofs/HashSpecFacts.v)
   and of the model state reached. *)
From Coq Require Import NArith List Arith Lia Bool Permutation ZifyNat ZifyN.
From ISAL Require Import Base.Words Base.ListUtil Spec.MD Spec.HashApiSpec Model.HashCtx Model.HashObs
  Proofs.WordsFacts Proofs.ListFacts Proofs.ChunkFacts Proofs.HashPadFacts Proofs.HashCtxFacts
  Proofs.HashInv Proofs.HashSpecFacts Proofs.HashRefine.
Import ListNotations.

(* ---- a syntactic sufficient condition for [bounded] ------------------------------------------ *)

Definition call_bytes (c : call) : nat := match c with CSubmit _ buf _ => length buf | CFlush => 0 end.
Definition calls_bytes (cs : list call) : nat := list_sum (map call_bytes cs).
(* all bytes ever passed to submit in a history *)
Definition ops_bytes (ops : list op) : nat := calls_bytes (map call_of ops).

Lemma abs_step_stream_le a c r m :
  (forall i, length (s_stream (nth i a dummy)) <= m) ->
  forall i, length (s_stream (nth i (abs_step a c r) dummy)) <= m + call_bytes c.
Proof.
  intros H i. destruct c as [cid buf flags|]; cbn [abs_step call_bytes].
  - destruct (rejection (nth cid a dummy) flags); [specialize (H i); lia|].
    rewrite stream_retire. destruct (Nat.lt_ge_cases cid (length a)) as [Hc|Hc].
    + destruct (Nat.eq_dec cid i) as [<-|E].
      * rewrite nth_upd_eq by exact Hc. cbn [s_stream]. rewrite app_length.
        specialize (H cid). destruct (flag_first flags); cbn [length]; lia.
      * rewrite nth_upd_neq by exact E. specialize (H i). lia.
    + rewrite upd_oob by exact Hc. specialize (H i). lia.
  - rewrite stream_retire. specialize (H i). lia.
Qed.

Lemma bounded_of_bytes : forall tr a m,
  (forall i, length (s_stream (nth i a dummy)) <= m) ->
  (N.of_nat (m + calls_bytes (map fst tr)) < 2 ^ 61)%N -> bounded a tr.
Proof.
  change (2 ^ 61)%N with 2305843009213693952%N.
  induction tr as [|[c o] tr IH]; intros a m Hm Hb; [exact I|].
  cbn [map fst] in Hb. unfold calls_bytes in Hb. cbn [map] in Hb. rewrite list_sum_cons in Hb.
  fold (calls_bytes (map fst tr)) in Hb.
  pose proof (abs_step_stream_le a c (o_ret o) m Hm) as Hm'.
  cbn [bounded]. split.
  - intros i _. unfold small. change (2 ^ 61)%N with 2305843009213693952%N. specialize (Hm' i). lia.
  - apply (IH _ (m + call_bytes c)); [exact Hm'|]. lia.
Qed.

Lemma bounded_of_ops_bytes n tr ops : map fst tr = map call_of ops ->
  (N.of_nat (ops_bytes ops) < 2 ^ 61)%N -> bounded (spec_init n) tr.
Proof.
  intros Em Hb. apply (bounded_of_bytes tr _ 0).
  - intros i. unfold spec_init. rewrite nth_repeat_dummy. cbn. lia.
  - rewrite Em. exact Hb.
Qed.

(* ---- pure trace facts ---------------------------------------------------------------------------- *)

(* an accepted FIRST restarts the stream: nothing before it matters *)
Lemma stream_of_restart r t1 buf flags o1 t2 :
  flag_first flags = true -> o_rc o1 = 0%N ->
  stream_of r (t1 ++ (CSubmit r buf flags, o1) :: t2) = stream_of r ((CSubmit r buf flags, o1) :: t2).
Proof.
  intros Hf Hrc. unfold stream_of. rewrite fold_left_app. cbn [fold_left]. f_equal.
  unfold stream_step. cbn [fst snd]. rewrite Nat.eqb_refl, Hrc, Hf. reflexivity.
Qed.

Lemma in_flight_n_flight a i : in_flight (nth i a dummy) = true -> n_flight a > 0.
Proof.
  intros H. destruct (Nat.lt_ge_cases i (length a)) as [Hi|Hi]; [|rewrite nth_overflow in H by exact Hi; discriminate].
  assert (Hin : In (nth i a dummy) (filter in_flight a)) by (apply filter_In; split; [apply nth_In; exact Hi|exact H]).
  unfold n_flight. destruct (filter in_flight a); [destruct Hin|cbn; lia].
Qed.

Section Props.
Variable A : algo.
Hypothesis WF : algo_wf A.
Variable K : nat.
Variable sched : nat -> list nat -> option nat.

(* the histories the theorems quantify over: any junk in the context memory (only the
   declared size of the partial block buffer is assumed), any calls on existing contexts *)
Definition wf_history (junk : list ctx) (ops : list op) : Prop :=
  1 <= K /\ Forall (ctx_typed A) junk /\ Forall (op_ok (length junk)) ops.

Notation init junk := (model_init A junk).
Notation final junk ops := (fst (run A K sched (model_init A junk) ops)).

(* THE REFINEMENT THEOREM, packaged *)
Theorem hash_refines junk ops : wf_history junk ops ->
  exists tr, run_obs A K sched (init junk) ops = Some tr /\
    (bounded (spec_init (length junk)) tr -> accepts A K (spec_init (length junk)) tr = true).
Proof.
  intros (HK & Hty & Hops).
  destruct (hash_refines_run A WF K sched junk ops HK Hty Hops) as (tr & E & _ & _ & _ & Acc). eauto.
Qed.

Theorem hash_refines_bytes junk ops : wf_history junk ops -> (N.of_nat (ops_bytes ops) < 2 ^ 61)%N ->
  exists tr, run_obs A K sched (init junk) ops = Some tr /\
             accepts A K (spec_init (length junk)) tr = true.
Proof.
  intros (HK & Hty & Hops) Hb.
  destruct (hash_refines_run A WF K sched junk ops HK Hty Hops) as (tr & E & Em & _ & _ & Acc).
  exists tr. split; [exact E|]. apply Acc. eapply bounded_of_ops_bytes; eassumption.
Qed.

(* ... and with any larger lane bound on the acceptor's side (the checks run the acceptor with
   lanes + 1, the bound the property text states) *)
Theorem hash_refines_any_bound junk ops K' : wf_history junk ops -> K <= K' ->
  exists tr, run_obs A K sched (init junk) ops = Some tr /\
    (bounded (spec_init (length junk)) tr -> accepts A K' (spec_init (length junk)) tr = true).
Proof.
  intros H HK. destruct (hash_refines junk ops H) as (tr & E & Acc). exists tr. split; [exact E|].
  intros Hb. eapply accepts_mono; [exact HK|]. apply Acc. exact Hb.
Qed.

(* no loop of the model ever runs out of fuel *)
Theorem hash_no_out_of_fuel junk ops : wf_history junk ops ->
  run_obs A K sched (init junk) ops <> None.
Proof. intros H. destruct (hash_refines junk ops H) as (tr & E & _). rewrite E. discriminate. Qed.

Lemma history_facts junk ops tr : wf_history junk ops ->
  run_obs A K sched (init junk) ops = Some tr ->
  map fst tr = map call_of ops /\
  trace_struct (repeat dummy (length junk)) tr /\
  R A K (final junk ops) (abs_run (repeat dummy (length junk)) tr) /\
  (bounded (spec_init (length junk)) tr -> accepts A K (repeat dummy (length junk)) tr = true).
Proof.
  intros (HK & Hty & Hops) E.
  destruct (hash_refines_run A WF K sched junk ops HK Hty Hops) as (tr' & E' & Em & TS & RF & Acc).
  rewrite E in E'. injection E' as <-. auto.
Qed.

(* ---- C01 ------------------------------------------------------------------------------------------ *)

Theorem c01_digest junk ops tr : wf_history junk ops ->
  run_obs A K sched (init junk) ops = Some tr -> bounded (spec_init (length junk)) tr ->
  forall t1 c o t2 r, tr = t1 ++ (c, o) :: t2 ->
    o_ret o = Some r -> o_rc o = 0%N -> o_status o = STS_COMPLETE ->
    o_digest o = md_hash A (stream_of r (t1 ++ [(c, o)])).
Proof.
  intros H E Hb t1 c o t2 r Et Hr Hrc Hs.
  destruct (history_facts junk ops tr H E) as (_ & TS & _ & Acc).
  eapply handback_digest; eauto.
Qed.

Theorem c01_reuse junk ops tr : wf_history junk ops ->
  run_obs A K sched (init junk) ops = Some tr -> bounded (spec_init (length junk)) tr ->
  forall t1 buf flags o1 t2 c o t3 r,
    tr = t1 ++ (CSubmit r buf flags, o1) :: t2 ++ (c, o) :: t3 ->
    flag_first flags = true -> o_rc o1 = 0%N ->
    o_ret o = Some r -> o_rc o = 0%N -> o_status o = STS_COMPLETE ->
    o_digest o = md_hash A (stream_of r ((CSubmit r buf flags, o1) :: t2 ++ [(c, o)])).
Proof.
  intros H E Hb t1 buf flags o1 t2 c o t3 r Et Hf Hrc1 Hr Hrc Hs.
  rewrite <- (stream_of_restart r t1 buf flags o1 (t2 ++ [(c, o)]) Hf Hrc1).
  replace (t1 ++ (CSubmit r buf flags, o1) :: t2 ++ [(c, o)])
    with ((t1 ++ (CSubmit r buf flags, o1) :: t2) ++ [(c, o)]) by (rewrite <- app_assoc; reflexivity).
  eapply (c01_digest junk ops tr H E Hb _ c o t3 r); eauto.
  rewrite Et, <- app_assoc. reflexivity.
Qed.

(* ---- C15 / C06: what comes back, without any bound on the streams --------------------------- *)

Theorem c15_total junk ops tr : wf_history junk ops ->
  run_obs A K sched (init junk) ops = Some tr ->
  forall t1 c o t2 r, tr = t1 ++ (c, o) :: t2 -> o_ret o = Some r -> o_rc o = 0%N ->
    let n := N.of_nat (length (stream_of r (t1 ++ [(c, o)]))) in
    o_total o = (n mod 2 ^ 64)%N /\ ((n < 2 ^ 64)%N -> o_total o = n).
Proof.
  intros H E t1 c o t2 r Et Hr Hrc n.
  destruct (history_facts junk ops tr H E) as (_ & TS & _ & _).
  destruct (handback_struct _ _ t1 c o t2 r TS Et Hrc Hr) as (_ & Ht & _).
  fold n in Ht. unfold w64 in Ht. rewrite wrap_mod in Ht. split; [exact Ht|].
  intros Hn. rewrite Ht. apply N.mod_small. exact Hn.
Qed.

Theorem c06_status junk ops tr : wf_history junk ops ->
  run_obs A K sched (init junk) ops = Some tr ->
  forall t1 c o t2 r, tr = t1 ++ (c, o) :: t2 -> o_ret o = Some r -> o_rc o = 0%N ->
    o_status o = (if last_of r (t1 ++ [(c, o)]) then STS_COMPLETE else STS_IDLE) /\
    N.land (o_status o) STS_PROCESSING = 0%N.
Proof.
  intros H E t1 c o t2 r Et Hr Hrc.
  destruct (history_facts junk ops tr H E) as (_ & TS & _ & _).
  destruct (handback_struct _ _ t1 c o t2 r TS Et Hrc Hr) as (Hs & _).
  split; [exact Hs|]. rewrite Hs. destruct (last_of r _); reflexivity.
Qed.

(* a rejected call hands the context straight back with the matching code *)
Theorem c06_rejected_back junk ops tr : wf_history junk ops ->
  run_obs A K sched (init junk) ops = Some tr ->
  forall t1 c o t2, tr = t1 ++ (c, o) :: t2 -> o_rc o <> 0%N ->
    exists cid buf flags, c = CSubmit cid buf flags /\ o_ret o = Some cid /\ o_rc o = rc_of (o_error o) /\
                          pending (t1 ++ [(c, o)]) = pending t1.
Proof.
  intros H E t1 c o t2 Et Hrc.
  destruct (history_facts junk ops tr H E) as (_ & TS & _ & _).
  rewrite Et in TS. apply trace_struct_app in TS. destruct TS as [_ [SS _]].
  destruct c as [cid buf flags|]; cbn [step_struct] in SS; [|destruct SS; contradiction].
  destruct SS as [_ SS]. destruct (rejection _ flags) as [e|]; [|destruct SS; contradiction].
  destruct SS as (E1 & E2 & E3). exists cid, buf, flags. rewrite E3. repeat split; auto.
  unfold pending. rewrite fold_left_app. cbn [fold_left]. unfold pending_step at 1. cbn [fst snd].
  apply N.eqb_neq in Hrc. rewrite Hrc. reflexivity.
Qed.

Theorem c06_conservation junk ops tr : wf_history junk ops ->
  run_obs A K sched (init junk) ops = Some tr ->
  (* the manager holds exactly the contexts accepted and not yet handed back, each once *)
  Permutation (map j_ctx (held (final junk ops))) (pending tr) /\ NoDup (pending tr) /\
  length (pending tr) < K /\
  (* a context handed back by a successful call was pending (or is the one just accepted)
     and is no longer pending afterwards *)
  (forall t1 c o t2 r, tr = t1 ++ (c, o) :: t2 -> o_ret o = Some r -> o_rc o = 0%N ->
     (In r (pending t1) \/ exists buf flags, c = CSubmit r buf flags) /\
     ~ In r (pending (t1 ++ [(c, o)]))).
Proof.
  intros H E. destruct (history_facts junk ops tr H E) as (_ & TS & [RF HK] & _).
  pose proof (flight_track_init tr _ TS) as [N2 I2].
  destruct RF as (_ & (N1 & I1 & _) & _). rewrite idsof_None in *.
  assert (P : Permutation (map j_ctx (held (final junk ops))) (pending tr)).
  { apply NoDup_Permutation; [exact N1|exact N2|]. intros i. rewrite I1, I2. split; [intros [_ Hf]; exact Hf|].
    intros Hf. split; [|exact Hf].
    destruct (Nat.lt_ge_cases i (length (abs_run (repeat dummy (length junk)) tr))) as [Hi|Hi]; [exact Hi|].
    rewrite nth_overflow in Hf by exact Hi. discriminate. }
  split; [exact P|]. split; [exact N2|]. split.
  - rewrite <- (Permutation_length P), map_length. exact HK.
  - intros t1 c o t2 r Et Hr Hrc.
    destruct (handback_struct _ _ t1 c o t2 r TS Et Hrc Hr) as (_ & _ & H1 & H2). auto.
Qed.

(* ---- C06: flush -------------------------------------------------------------------------------------- *)

(* flush returns no context exactly when the manager holds none *)
Theorem c06_flush_none_iff s a : R A K s a ->
  exists s' r, ctx_flush A K sched s = (s', Ret r) /\ (r = None <-> held s = []).
Proof.
  intros HR. destruct (ctx_flush_ok A WF K sched s a HR) as (s' & r & E & _ & _ & N0).
  exists s', r. split; [exact E|]. split.
  - intros Hn. specialize (N0 Hn). rewrite (R_n_flight A K s a HR) in N0.
    destruct (held s); [reflexivity|discriminate].
  - intros Hh. unfold ctx_flush, fuel_for in E. rewrite Hh in E. cbn [length Nat.add Nat.mul ctx_flush_f] in E.
    unfold mgr_flush in E. rewrite Hh in E. injection E as _ <-. reflexivity.
Qed.

Lemma run_obs_flush_cons s s' r tr' n :
  ctx_flush A K sched s = (s', Ret r) -> run_obs A K sched s' (repeat Flush n) = Some tr' ->
  exists ob, o_ret ob = r /\ o_rc ob = 0%N /\
    run_obs A K sched s (repeat Flush (S n)) = Some ((CFlush, ob) :: tr') /\
    fst (run A K sched s (repeat Flush (S n))) = fst (run A K sched s' (repeat Flush n)).
Proof.
  intros E Et. destruct (obs_of_Ret A s' r 0%N) as (ob & Eo & Or & Oc).
  exists ob. split; [exact Or|]. split; [exact Oc|]. cbn [repeat run_obs run]. unfold step_obs. cbn [step].
  rewrite E, Eo, Et. split; [reflexivity|].
  destruct (run A K sched s' (repeat Flush n)). reflexivity.
Qed.

(* n flushes hand back the n held contexts, each once; the next flush returns none: repeated
   flushing drains any manager *)
Theorem c06_flush_drains : forall n s a, R A K s a -> length (held s) = n ->
  exists tr rs, run_obs A K sched s (repeat Flush (S n)) = Some tr /\
    map (fun co => o_ret (snd co)) tr = map Some rs ++ [None] /\
    NoDup rs /\ Permutation rs (map j_ctx (held s)) /\
    held (fst (run A K sched s (repeat Flush (S n)))) = [].
Proof.
  induction n as [|n IH]; intros s a HR Hn.
  - destruct (c06_flush_none_iff s a HR) as (s' & r & E & Hiff).
    assert (Hh : held s = []) by (destruct (held s); [reflexivity|discriminate]).
    assert (Hr : r = None) by (apply Hiff; exact Hh). subst r.
    assert (Es : s' = s).
    { unfold ctx_flush, fuel_for in E. rewrite Hh in E. cbn [length Nat.add Nat.mul ctx_flush_f] in E.
      unfold mgr_flush in E. rewrite Hh in E. injection E as <-. reflexivity. }
    subst s'.
    destruct (run_obs_flush_cons s s None [] 0 E eq_refl) as (ob & Or & _ & Et & Ef).
    exists [(CFlush, ob)], []. split; [exact Et|]. cbn [map snd app]. rewrite Or.
    split; [reflexivity|]. split; [constructor|]. split; [rewrite Hh; constructor|].
    rewrite Ef. cbn [repeat run fst]. exact Hh.
  - destruct (ctx_flush_ok A WF K sched s a HR) as (s' & r & E & R' & RO & N0).
    destruct r as [r|]; [|specialize (N0 eq_refl); rewrite (R_n_flight A K s a HR) in N0; lia].
    destruct RO as (Hr & l & Ph & _).
    assert (Hf : in_flight (nth r a dummy) = true) by (unfold in_flight; rewrite Ph; reflexivity).
    assert (Hn' : length (held s') = n).
    { pose proof (R_n_flight A K s a HR) as C1. pose proof (R_n_flight A K s' _ R') as C2.
      cbn [retire] in C2. pose proof (n_flight_upd a r (retired (nth r a dummy)) Hr) as NF.
      rewrite Hf, in_flight_retired in NF. lia. }
    destruct (IH s' _ R' Hn') as (tr' & rs' & Et' & Em' & Nd' & P' & Hh').
    destruct (run_obs_flush_cons s s' (Some r) tr' (S n) E Et') as (ob & Or & _ & Et & Ef).
    exists ((CFlush, ob) :: tr'), (r :: rs'). split; [exact Et|]. cbn [map snd app]. rewrite Or, Em'.
    split; [reflexivity|].
    (* membership in terms of the abstract states *)
    destruct HR as [(_ & (N1 & I1 & _) & _) _]. destruct R' as [(_ & (N1' & I1' & _) & _) _].
    rewrite idsof_None in *. cbn [retire] in I1'.
    assert (M : forall i, In i rs' <-> (In i (map j_ctx (held s)) /\ i <> r)).
    { intros i. split.
      - intros Hi. apply (Permutation_in _ P') in Hi. apply I1' in Hi. destruct Hi as [Hi1 Hi2].
        rewrite length_upd in Hi1. destruct (Nat.eq_dec r i) as [<-|Ne].
        + rewrite nth_upd_eq in Hi2 by exact Hr. rewrite in_flight_retired in Hi2. discriminate.
        + rewrite nth_upd_neq in Hi2 by exact Ne. split; [apply I1; auto|auto].
      - intros [Hi Ne]. apply (Permutation_in _ (Permutation_sym P')). apply I1'. apply I1 in Hi.
        destruct Hi as [Hi1 Hi2]. rewrite length_upd, nth_upd_neq by auto. auto. }
    split; [|split].
    + constructor; [|exact Nd']. intros Hin. apply M in Hin. destruct Hin as [_ Hin]. contradiction.
    + apply NoDup_Permutation; [constructor; [|exact Nd']|exact N1|].
      * intros Hin. apply M in Hin. destruct Hin as [_ Hin]. contradiction.
      * intros i. cbn [In]. rewrite M. split.
        -- intros [<-|[Hi _]]; [apply I1; auto|exact Hi].
        -- intros Hi. destruct (Nat.eq_dec r i); [left; assumption|right; auto].
    + rewrite Ef. exact Hh'.
Qed.

(* every state reached by a history satisfies the invariant the flush theorems need *)
Theorem reachable_R junk ops : wf_history junk ops -> exists a, R A K (final junk ops) a.
Proof.
  intros H. destruct (hash_refines junk ops H) as (tr & E & _).
  destruct (history_facts junk ops tr H E) as (_ & _ & RF & _). eauto.
Qed.

Theorem c06_held_bound junk ops : wf_history junk ops -> length (held (final junk ops)) < K.
Proof. intros H. destruct (reachable_R junk ops H) as (a & _ & HK). exact HK. Qed.

(* the two flush theorems for the state reached by any history *)
Theorem c06_flush_none_iff_reach junk ops : wf_history junk ops ->
  exists s' r, ctx_flush A K sched (final junk ops) = (s', Ret r) /\
               (r = None <-> held (final junk ops) = []).
Proof. intros H. destruct (reachable_R junk ops H) as (a & HR). exact (c06_flush_none_iff _ a HR). Qed.

Theorem c06_flush_drains_reach junk ops : wf_history junk ops ->
  let s := final junk ops in
  let n := length (held s) in
  exists tr rs, run_obs A K sched s (repeat Flush (S n)) = Some tr /\
    map (fun co => o_ret (snd co)) tr = map Some rs ++ [None] /\
    NoDup rs /\ Permutation rs (map j_ctx (held s)) /\
    held (fst (run A K sched s (repeat Flush (S n)))) = [].
Proof.
  intros H s n. destruct (reachable_R junk ops H) as (a & HR). exact (c06_flush_drains n s a HR eq_refl).
Qed.

End Props.

(* ---- C15: the length field hash_pad writes ------------------------------------------------------ *)

Section PadLen.
Variable A : algo.
Hypothesis WF : algo_wf A.

(* for every total below 2^61 bytes (so also >= 2^29 and >= 2^32): the extra blocks end with
   the length field holding the BIT length 8*total, right after 0x80 and the zero fill *)
Lemma pad_len_field pbuf total : length pbuf = 2 * B A -> (total < 2 ^ 61)%N ->
  let '(buf, nblk) := hash_pad A pbuf total in
  let n := N.to_nat total in
  (nblk = 1 \/ nblk = 2) /\
  nblk * B A = n mod B A + 1 + padz A n + a_lenfld A /\
  firstn (a_lenfld A) (skipn (nblk * B A - a_lenfld A) buf) = a_lenbytes A (8 * total)%N /\
  nth (n mod B A) buf 0%N = 128%N.
Proof.
  intros Hl Ht. pose proof (hash_pad_spec A WF pbuf (N.to_nat total) Hl) as HS.
  rewrite N2Nat.id in HS. specialize (HS Ht).
  destruct (hash_pad A pbuf total) as [buf nblk]. cbv zeta.
  destruct HS as (Lb & HF & HN). rewrite (length_md_pad A WF) in HN.
  set (n := N.to_nat total) in *. pose proof (B_pos A WF) as Bp.
  assert (Hr : n mod B A < B A) by (apply Nat.mod_upper_bound; lia).
  assert (Hpz : padz A n < B A) by (unfold padz; apply Nat.mod_upper_bound; fold (B A); lia).
  assert (HF8 : a_lenfld A <= B A) by (destruct (B_cases A WF) as [[-> ->]|[-> ->]]; lia).
  split; [|split; [lia|split]].
  - destruct nblk as [|[|[|k]]]; [lia|auto|auto|]. cbn [Nat.mul] in HN. lia.
  - rewrite firstn_skipn_comm.
    replace (nblk * B A - a_lenfld A + a_lenfld A) with (nblk * B A) by lia.
    rewrite HF. unfold md_pad. replace (N.of_nat n) with total by (unfold n; rewrite N2Nat.id; reflexivity).
    rewrite !app_assoc.
    apply skipn_app_exact. rewrite !app_length, firstn_length, length_zeros. cbn [length]. lia.
  - assert (E : nth (n mod B A) (firstn (nblk * B A) buf) 0%N = 128%N).
    { rewrite HF. rewrite app_nth2 by (rewrite firstn_length; lia).
      rewrite firstn_length. replace (n mod B A - Nat.min (n mod B A) (length pbuf)) with 0 by lia.
      reflexivity. }
    rewrite <- E. symmetry. rewrite <- (firstn_skipn (nblk * B A) buf) at 2.
    rewrite app_nth1; [reflexivity|]. rewrite firstn_length. lia.
Qed.

End PadLen.
