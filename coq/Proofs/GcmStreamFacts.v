(* AES-GCM: the streaming model (Model/GcmStream.v) against SP 800-38D stated over an
   abstract block cipher E, hash key H and block-deferral policy defer.
   Main results: update_inv (the invariant of DESIGN C07 is kept by every update, and the
   outputs are the GCTR stream), stream_is_spec, oneshot_is_stream. *)
From Coq Require Import NArith List Bool Arith Lia.
From ISAL Require Import Base.Words Base.ListUtil Spec.AES Spec.GF128 Spec.GCM Model.GcmStream
  Proofs.WordsFacts Proofs.ListFacts Proofs.ChunkFacts Proofs.GcmFacts.
Import ListNotations.
Local Open Scope nat_scope.

Arguments add64 : simpl never.
Arguments inc32 : simpl never.
Arguments gf128_mul_bytes : simpl never.

(* (a, b) = (x, y) with x, y variables: substitute them.  (injection / inversion try to
   reduce the components, which here contain GF(2^128) products, and do not return) *)
Ltac pair_inj2 H x y :=
  let H1 := fresh in let H2 := fresh in
  pose proof (f_equal fst H) as H1; pose proof (f_equal snd H) as H2;
  cbn [fst snd] in H1, H2; clear H; subst x; subst y.
Ltac pair_inj3 H x y z :=
  let H1 := fresh in let H2 := fresh in let H3 := fresh in
  pose proof (f_equal (fun p => fst (fst p)) H) as H1;
  pose proof (f_equal (fun p => snd (fst p)) H) as H2;
  pose proof (f_equal snd H) as H3;
  cbv beta in H1, H2, H3; cbn [fst snd] in H1, H2, H3; clear H; subst x; subst y; subst z.

Lemma len16_nonnil {A} (l : list A) : length l = 16 -> l <> [].
Proof. intros Hl Hn. rewrite Hn in Hl. discriminate. Qed.

Lemma length_inc32 cb : length cb = 16 -> length (inc32 cb) = 16.
Proof.
  intros Hc. unfold inc32, inc32_by. rewrite app_length, firstn_length, length_N_to_be. lia.
Qed.

Lemma length_iter_inc32 k cb : length cb = 16 -> length (Nat.iter k inc32 cb) = 16.
Proof. intros Hc. induction k; cbn [Nat.iter]; [exact Hc|apply length_inc32; exact IHk]. Qed.

Lemma iter_succ_r {A} (f : A -> A) k x : Nat.iter (S k) f x = Nat.iter k f (f x).
Proof. induction k; [reflexivity|]. change (f (Nat.iter (S k) f x) = f (Nat.iter k f (f x))). f_equal. exact IHk. Qed.

Lemma iter_plus {A} (f : A -> A) a b x : Nat.iter a f (Nat.iter b f x) = Nat.iter (a + b) f x.
Proof. induction a; [reflexivity|]. change (f (Nat.iter a f (Nat.iter b f x)) = f (Nat.iter (a + b) f x)). f_equal. exact IHa. Qed.

Section Stream.
Variable E : list N -> list N.
Hypothesis E_len : forall b, length b = 16 -> length (E b) = 16.
Variable H : list N.
Variable defer : nat -> bool.

(* ------------------------------------------------------------------ GCTR over E *)

Fixpoint gctr_blocks_E (cb : list N) (blocks : list (list N)) : list N :=
  match blocks with
  | [] => []
  | b :: r => xorb_list b (E cb) ++ gctr_blocks_E (inc32 cb) r
  end.
Definition gctr_E (icb x : list N) : list N := gctr_blocks_E icb (chunks 16 x).

Lemma gctr_blocks_E_app cb l1 l2 :
  gctr_blocks_E cb (l1 ++ l2) = gctr_blocks_E cb l1 ++ gctr_blocks_E (Nat.iter (length l1) inc32 cb) l2.
Proof.
  revert cb. induction l1 as [|b l1 IH]; intros cb; [reflexivity|].
  cbn [app gctr_blocks_E length]. rewrite IH, iter_succ_r, app_assoc. reflexivity.
Qed.

Lemma gctr_E_nil cb : gctr_E cb [] = [].
Proof. reflexivity. Qed.

Lemma gctr_E_split cb Xc t q : length Xc = q * 16 ->
  gctr_E cb (Xc ++ t) = gctr_E cb Xc ++ gctr_E (Nat.iter q inc32 cb) t.
Proof.
  intros Hq. unfold gctr_E. rewrite chunks_app by (try lia; exists q; exact Hq).
  rewrite gctr_blocks_E_app, (length_chunks_exact Xc q Hq). reflexivity.
Qed.

Lemma gctr_E_short cb t : t <> [] -> length t <= 16 -> gctr_E cb t = xorb_list t (E cb).
Proof.
  intros Ht Hl. unfold gctr_E. rewrite chunks_short by assumption.
  cbn [gctr_blocks_E]. apply app_nil_r.
Qed.

Lemma length_gctr_blocks_E cb blocks : Forall (fun b => length b = 16) blocks -> length cb = 16 ->
  length (gctr_blocks_E cb blocks) = length blocks * 16.
Proof.
  revert cb. induction blocks as [|b r IH]; intros cb Hf Hc; [reflexivity|].
  inversion Hf as [|? ? Hb Hr]; subst. cbn [gctr_blocks_E length].
  rewrite app_length, xorb_length, Hb, (E_len cb Hc), IH by (try apply length_inc32; assumption).
  cbn. lia.
Qed.

Lemma length_gctr_E_exact cb Xc q : length Xc = q * 16 -> length cb = 16 ->
  length (gctr_E cb Xc) = q * 16.
Proof.
  intros Hq Hc. unfold gctr_E.
  rewrite length_gctr_blocks_E by (try exact Hc; apply (Forall_chunks_exact Xc q Hq)).
  rewrite (length_chunks_exact Xc q Hq). reflexivity.
Qed.

(* ------------------------------------------------------------------ the bulk loop *)

Lemma gcm_bulk_spec enc blocks : forall ctr y,
  Forall (fun b => length b = 16) blocks -> length ctr = 16 ->
  gcm_bulk E H enc ctr y blocks =
  (gctr_blocks_E (inc32 ctr) blocks,
   (Nat.iter (length blocks) inc32 ctr,
    ghash_blocks H y (if enc then gctr_blocks_E (inc32 ctr) blocks else concat blocks))).
Proof.
  induction blocks as [|b r IH]; intros ctr y Hf Hc.
  - cbn. destruct enc; reflexivity.
  - inversion Hf as [|? ? Hb Hr]; subst.
    assert (Hc1 : length (inc32 ctr) = 16) by (apply length_inc32; exact Hc).
    cbn [gcm_bulk]. rewrite IH by assumption.
    cbn [gctr_blocks_E length concat]. rewrite iter_succ_r. f_equal. f_equal.
    set (o := xorb_list b (E (inc32 ctr))).
    assert (Ho : length o = 16) by (unfold o; rewrite xorb_length, Hb, (E_len _ Hc1); reflexivity).
    destruct enc.
    + rewrite (ghash_blocks_app H y o) by (exists 1; lia).
      rewrite (ghash_blocks_one H y o) by (try lia; apply (len16_nonnil _ Ho)).
      rewrite pad16_full by exact Ho. reflexivity.
    + rewrite (ghash_blocks_app H y b) by (exists 1; lia).
      rewrite (ghash_blocks_one H y b) by (try lia; apply (len16_nonnil _ Hb)).
      rewrite pad16_full by exact Hb. reflexivity.
Qed.

(* ------------------------------------------------------------------ the invariant *)

Variables (iv aad : list N) (enc : bool).
Hypothesis iv_len : length iv = 12.

Definition J0 : list N := iv ++ [0; 0; 0; 1]%N.
Definition YA : list N := ghash_blocks H (zeros 16) aad.
Definition ctrs (k : nat) : list N := Nat.iter k inc32 J0.
(* the GCTR stream of SP 800-38D: output for the whole input X *)
Definition O (X : list N) : list N := gctr_E (inc32 J0) X.
(* the ciphertext side of (input, output) *)
Definition side (x o : list N) : list N := if enc then o else x.

Lemma length_J0 : length J0 = 16.
Proof. unfold J0. rewrite app_length, iv_len. reflexivity. Qed.

Lemma length_ctrs k : length (ctrs k) = 16.
Proof. apply length_iter_inc32, length_J0. Qed.

Lemma length_YA : length YA = 16.
Proof. apply length_ghash_blocks. apply length_zeros. Qed.

Lemma iter_ctrs a b : Nat.iter a inc32 (ctrs b) = ctrs (a + b).
Proof. apply iter_plus. Qed.

Lemma inc32_ctrs k : inc32 (ctrs k) = ctrs (S k).
Proof. reflexivity. Qed.

Lemma side_app x1 o1 x2 o2 : side (x1 ++ x2) (o1 ++ o2) = side x1 o1 ++ side x2 o2.
Proof. unfold side. destruct enc; reflexivity. Qed.

Lemma O_split Xc t q : length Xc = q * 16 -> O (Xc ++ t) = O Xc ++ gctr_E (ctrs (S q)) t.
Proof.
  intros Hq. unfold O. rewrite (gctr_E_split _ Xc t q Hq).
  change (inc32 J0) with (ctrs 1). rewrite iter_ctrs. replace (q + 1) with (S q) by lia. reflexivity.
Qed.

Lemma length_O_exact Xc q : length Xc = q * 16 -> length (O Xc) = q * 16.
Proof. intros Hq. apply length_gctr_E_exact; [exact Hq|apply (length_ctrs 1)]. Qed.

Lemma length_side_exact Xc q : length Xc = q * 16 -> length (side Xc (O Xc)) = q * 16.
Proof. intros Hq. unfold side. destruct enc; [apply length_O_exact|]; exact Hq. Qed.

(* what the context means after the input X: X = closed blocks Xc ++ open block t *)
Definition Inv (c : gcm_ctx) (X : list N) : Prop :=
  exists Xc t q,
    X = Xc ++ t /\ length Xc = q * 16 /\ length t = pb_len c /\ length t <= 16 /\
    rev (aad_hash c) =
      xorb_list (ghash_blocks H YA (side Xc (O Xc)))
                (pad16 (side t (xorb_list t (E (ctrs (S q)))))) /\
    rev (cur_counter c) = ctrs (match t with [] => q | _ => S q end) /\
    (t <> [] -> pb_enc_key c = E (ctrs (S q))) /\
    orig_IV c = J0 /\ aad_length c = N.of_nat (length aad).

Lemma init_inv : Inv (gcm_init H iv aad) [].
Proof.
  exists [], [], 0. unfold gcm_init. cbn [aad_hash cur_counter pb_len pb_enc_key orig_IV aad_length].
  rewrite firstn_all2 by lia. fold J0. fold YA. rewrite !rev_involutive.
  repeat split; try reflexivity; try (cbn; lia).
  - unfold O. rewrite gctr_E_nil. unfold side. replace (if enc then [] else []) with (@nil N) by (destruct enc; reflexivity).
    rewrite ghash_blocks_nil, xorb_nil_l.
    replace (if enc then [] else []) with (@nil N) by (destruct enc; reflexivity).
    rewrite pad16_nil, xorb_zeros_r by (rewrite length_YA; lia). reflexivity.
  - intros Hn. contradiction.
Qed.

(* ------------------------------------------------------------------ PARTIAL_BLOCK *)

Lemma length_xorb_key t K : length t <= 16 -> length K = 16 -> length (xorb_list t K) = length t.
Proof. intros Ht HK. rewrite xorb_length, HK. lia. Qed.

Lemma length_side_open t K : length t <= 16 -> length K = 16 -> length (side t (xorb_list t K)) = length t.
Proof. intros Ht HK. unfold side. destruct enc; [apply length_xorb_key; assumption|reflexivity]. Qed.

Lemma partial_inv c X d c2 o1 rest :
  Inv c X -> gcm_partial_block H enc c d = (c2, o1, rest) ->
  exists d1, d = d1 ++ rest /\ Inv c2 (X ++ d1) /\ O (X ++ d1) = O X ++ o1 /\
             (rest <> [] -> pb_len c2 = 0) /\ in_length c2 = in_length c.
Proof.
  intros (Xc & t & q & HX & HXc & Ht & Ht16 & Hh & Hc & Hk & Hiv & Hal) Hpb.
  unfold gcm_partial_block in Hpb.
  destruct (pb_len c) as [|r'] eqn:Hr.
  - (* no open block *)
    pair_inj3 Hpb c2 o1 rest. exists []. rewrite !app_nil_r.
    repeat split; try reflexivity.
    + exists Xc, t, q. rewrite Hr. repeat split; assumption.
    + intros _. exact Hr.
  - assert (Htn : t <> []) by (intros Hn; rewrite Hn in Ht; discriminate).
    set (K := E (ctrs (S q))) in *.
    assert (HK : length K = 16) by (apply E_len, length_ctrs).
    rewrite (Hk Htn) in Hpb.
    set (k := Nat.min (length d) (16 - S r')) in *.
    set (d1 := firstn k d) in *.
    assert (Hd1 : length d1 = k) by (unfold d1; rewrite firstn_length; unfold k; lia).
    assert (Hk16 : length t + k <= 16) by (unfold k; lia).
    assert (Hsplit : d = d1 ++ skipn k d) by (unfold d1; symmetry; apply firstn_skipn).
    assert (HO : O (X ++ d1) = O X ++ xorb_list d1 (skipn (S r') K)).
    { rewrite HX, <- app_assoc, !(O_split Xc _ q HXc).
      rewrite gctr_E_short by (try (rewrite app_length; lia); intros Hn; apply app_eq_nil in Hn; tauto).
      rewrite gctr_E_short by (try lia; exact Htn).
      fold K. rewrite xorb_app_l by lia. rewrite Ht, app_assoc. reflexivity. }
    set (o := xorb_list d1 (skipn (S r') K)) in *.
    set (cb := if enc then o else d1) in *.
    set (ct := side t (xorb_list t K)).
    assert (Hct : length ct = S r') by (unfold ct; rewrite length_side_open by (lia || exact HK); exact Ht).
    assert (Hside : side (t ++ d1) (xorb_list (t ++ d1) K) = ct ++ cb).
    { rewrite xorb_app_l by lia. rewrite side_app, Ht. reflexivity. }
    assert (Hcb : length cb = k).
    { unfold cb, o. destruct enc; [|exact Hd1]. rewrite xorb_length, skipn_length, HK, Hd1. unfold k. lia. }
    assert (Hy : xorb_list (rev (aad_hash c)) (place (S r') cb) =
                 xorb_list (ghash_blocks H YA (side Xc (O Xc))) (pad16 (ct ++ cb))).
    { rewrite Hh. fold K. fold ct. rewrite xorb_assoc. f_equal. rewrite <- Hct. symmetry. apply pad16_app. lia. }
    remember (16 <=? S r' + length d) as le eqn:Hle; symmetry in Hle; destruct le; pair_inj3 Hpb c2 o1 rest.
    + (* the block closes *)
      apply Nat.leb_le in Hle.
      assert (Hk' : k = 16 - S r') by (unfold k; lia).
      exists d1. split; [exact Hsplit|]. split; [|split; [exact HO|split; [reflexivity|reflexivity]]].
      exists (Xc ++ t ++ d1), [], (S q).
      cbn [aad_hash cur_counter pb_len pb_enc_key orig_IV aad_length length].
      rewrite rev_involutive.
      repeat split; try assumption; try lia.
      * rewrite HX, app_nil_r, app_assoc. reflexivity.
      * rewrite !app_length, HXc, Hd1. lia.
      * fold cb. rewrite Hy.
        replace (side [] (xorb_list [] (E (ctrs (S (S q)))))) with (@nil N) by (unfold side; destruct enc; reflexivity).
        rewrite pad16_nil, xorb_zeros_r by (rewrite length_ghash_blocks by apply length_YA; lia).
        rewrite (O_split Xc _ q HXc).
        rewrite gctr_E_short by (try (rewrite app_length; lia); intros Hn; apply app_eq_nil in Hn; tauto).
        fold K. rewrite side_app, Hside.
        rewrite ghash_blocks_app by (exists q; apply length_side_exact; exact HXc).
        rewrite (ghash_blocks_one H _ (ct ++ cb)); [reflexivity| |rewrite app_length; lia].
        intros Hn. apply app_eq_nil in Hn. destruct Hn as [Hn _]. rewrite Hn in Hct. discriminate.
      * rewrite Hc. destruct t; [contradiction|reflexivity].
      * intros Hn. contradiction.
    + (* the block stays open *)
      apply Nat.leb_gt in Hle.
      assert (Hk' : k = length d) by (unfold k; lia).
      assert (Hd1d : d1 = d) by (unfold d1; rewrite Hk'; apply firstn_all).
      exists d1. split; [exact Hsplit|]. split; [|split; [exact HO|split; [|reflexivity]]].
      * exists Xc, (t ++ d1), q.
        cbn [aad_hash cur_counter pb_len pb_enc_key orig_IV aad_length].
        rewrite rev_involutive.
        repeat split; try assumption.
        -- rewrite HX, app_assoc. reflexivity.
        -- rewrite app_length, Ht, Hd1, Hk'. reflexivity.
        -- rewrite app_length. lia.
        -- fold cb. rewrite Hy. fold K. rewrite Hside. reflexivity.
        -- rewrite Hc. destruct t; [contradiction|reflexivity].
      * intros Hn. exfalso. apply Hn. rewrite Hk'. apply skipn_all.
Qed.


(* ------------------------------------------------------------------ full blocks and the new open block *)

Lemma nfull_bounds (n : nat) (dfr : bool) :
  let nblk := n / 16 in
  let nfull := if (dfr && (0 <? nblk) && (n mod 16 =? 0)) then nblk - 1 else nblk in
  16 * nfull <= n /\ n - 16 * nfull <= 16.
Proof.
  intros nblk nfull. unfold nfull, nblk.
  pose proof (Nat.div_mod n 16 ltac:(lia)) as Hdm.
  pose proof (Nat.mod_upper_bound n 16 ltac:(lia)) as Hmu.
  destruct (dfr && (0 <? n / 16) && (n mod 16 =? 0)) eqn:Hd.
  - apply andb_true_iff in Hd. destruct Hd as [Hd Hm]. apply andb_true_iff in Hd. destruct Hd as [_ Hp].
    apply Nat.eqb_eq in Hm. apply Nat.ltb_lt in Hp. lia.
  - lia.
Qed.

Lemma main_inv c2 X2 rest c3 o23 :
  Inv c2 X2 -> (rest <> [] -> pb_len c2 = 0) -> gcm_main E H defer enc c2 rest = (c3, o23) ->
  Inv c3 (X2 ++ rest) /\ O (X2 ++ rest) = O X2 ++ o23 /\ in_length c3 = in_length c2.
Proof.
  intros (Xc & t & q & HX & HXc & Ht & Ht16 & Hh & Hc & Hk & Hiv & Hal) Hrest Hm.
  unfold gcm_main in Hm.
  destruct rest as [|r0 rest'].
  - (* nothing left: the context is rewritten with the same values *)
    rewrite firstn_nil, skipn_nil, chunks_nil in Hm. cbn [gcm_bulk] in Hm.
    pair_inj2 Hm c3 o23. rewrite !app_nil_r. repeat split; try reflexivity.
    exists Xc, t, q. cbn [aad_hash cur_counter pb_len pb_enc_key orig_IV aad_length].
    rewrite !rev_involutive. repeat split; assumption.
  - set (rest := r0 :: rest') in *.
    assert (Hp0 : pb_len c2 = 0) by (apply Hrest; discriminate).
    assert (Ht0 : t = []) by (destruct t; [reflexivity|rewrite Hp0 in Ht; discriminate]).
    subst t. rewrite app_nil_r in HX. subst X2.
    destruct (nfull_bounds (length rest) (defer (length rest))) as [Hnf1 Hnf2].
    set (nfull := if (defer (length rest) && (0 <? length rest / 16) && (length rest mod 16 =? 0))
                  then length rest / 16 - 1 else length rest / 16) in *.
    set (B := firstn (16 * nfull) rest) in *.
    set (tail := skipn (16 * nfull) rest) in *.
    assert (HB : length B = nfull * 16) by (unfold B; rewrite firstn_length; lia).
    assert (Htl : length tail <= 16) by (unfold tail; rewrite skipn_length; lia).
    assert (Hrs : rest = B ++ tail) by (unfold B, tail; symmetry; apply firstn_skipn).
    assert (Hctr : rev (cur_counter c2) = ctrs q) by exact Hc.
    assert (Hy0 : rev (aad_hash c2) = ghash_blocks H YA (side Xc (O Xc))).
    { rewrite Hh. replace (side [] (xorb_list [] (E (ctrs (S q))))) with (@nil N) by (unfold side; destruct enc; reflexivity).
      rewrite pad16_nil. apply xorb_zeros_r. rewrite length_ghash_blocks by apply length_YA. lia. }
    rewrite gcm_bulk_spec in Hm
      by (try (rewrite Hctr; apply length_ctrs); apply (Forall_chunks_exact B nfull HB)).
    rewrite Hctr, Hy0, inc32_ctrs, (length_chunks_exact B nfull HB), iter_ctrs, concat_chunks in Hm.
    change (gctr_blocks_E (ctrs (S q)) (chunks 16 B)) with (gctr_E (ctrs (S q)) B) in Hm.
    set (oB := gctr_E (ctrs (S q)) B) in *.
    assert (HOB : O (Xc ++ B) = O Xc ++ oB) by (apply O_split; exact HXc).
    assert (Hy1 : ghash_blocks H (ghash_blocks H YA (side Xc (O Xc))) (if enc then oB else B) =
                  ghash_blocks H YA (side (Xc ++ B) (O (Xc ++ B)))).
    { rewrite HOB, side_app. rewrite (ghash_blocks_app H YA (side Xc (O Xc)))
        by (exists q; apply length_side_exact; exact HXc). reflexivity. }
    rewrite Hy1 in Hm.
    assert (HXB : length (Xc ++ B) = (nfull + q) * 16) by (rewrite app_length, HXc, HB; lia).
    cbv beta iota zeta in Hm.
    destruct tail as [|a tl] eqn:Htail.
    + pair_inj2 Hm c3 o23. rewrite app_nil_r in Hrs. rewrite Hrs.
      repeat split; try reflexivity; [|exact HOB].
      exists (Xc ++ B), [], (nfull + q).
      cbn [aad_hash cur_counter pb_len pb_enc_key orig_IV aad_length length].
      rewrite !rev_involutive.
      repeat split; try assumption; try lia.
      * rewrite app_nil_r. reflexivity.
      * replace (side [] (xorb_list [] (E (ctrs (S (nfull + q)))))) with (@nil N) by (unfold side; destruct enc; reflexivity).
        rewrite pad16_nil. symmetry. apply xorb_zeros_r. rewrite length_ghash_blocks by apply length_YA. lia.
      * intros Hn. contradiction.
    + rewrite <- Htail in *.
      assert (Htn : tail <> []) by (rewrite Htail; discriminate).
      pair_inj2 Hm c3 o23. rewrite Hrs.
      repeat split; try reflexivity.
      * exists (Xc ++ B), tail, (nfull + q).
        cbn [aad_hash cur_counter pb_len pb_enc_key orig_IV aad_length].
        rewrite !rev_involutive, inc32_ctrs.
        repeat split; try assumption; try lia.
        -- rewrite app_assoc. reflexivity.
        -- rewrite Htail. reflexivity.
      * rewrite app_assoc, (O_split (Xc ++ B) tail (nfull + q) HXB), HOB.
        rewrite gctr_E_short by assumption. rewrite inc32_ctrs, <- app_assoc. reflexivity.
Qed.


(* ------------------------------------------------------------------ one update, a list of updates *)

Lemma update_inv c X d c' o :
  Inv c X -> gcm_update E H defer enc c d = (c', o) ->
  Inv c' (X ++ d) /\ O (X ++ d) = O X ++ o /\
  in_length c' = match d with [] => in_length c | _ => add64 (in_length c) (N.of_nat (length d)) end.
Proof.
  intros HI Hu. unfold gcm_update in Hu.
  destruct d as [|d0 d'].
  - pair_inj2 Hu c' o. rewrite !app_nil_r. auto.
  - set (d := d0 :: d') in *.
    set (c1 := mk_gcm_ctx (aad_hash c) (aad_length c) (add64 (in_length c) (N.of_nat (length d)))
                          (pb_enc_key c) (orig_IV c) (cur_counter c) (pb_len c)) in *.
    assert (HI1 : Inv c1 X).
    { destruct HI as (Xc & t & q & HI). exists Xc, t, q. exact HI. }
    destruct (gcm_partial_block H enc c1 d) as [[c2 o1] rest] eqn:Hpb.
    destruct (gcm_main E H defer enc c2 rest) as [c3 o23] eqn:Hm.
    pair_inj2 Hu c' o.
    destruct (partial_inv c1 X d c2 o1 rest HI1 Hpb) as (d1 & Hd & HI2 & HO2 & Hr2 & Hl2).
    destruct (main_inv c2 (X ++ d1) rest c3 o23 HI2 Hr2 Hm) as (HI3 & HO3 & Hl3).
    replace (X ++ d) with ((X ++ d1) ++ rest) by (rewrite <- app_assoc, <- Hd; reflexivity).
    repeat split.
    + exact HI3.
    + rewrite HO3, HO2, app_assoc. reflexivity.
    + rewrite Hl3, Hl2. reflexivity.
Qed.

Lemma wrap64_add a b : wrap 64 (wrap 64 a + b) = wrap 64 (a + b).
Proof. rewrite !wrap_mod. apply N.add_mod_idemp_l. discriminate. Qed.

Definition InvL (c : gcm_ctx) (X : list N) : Prop := in_length c = wrap 64 (N.of_nat (length X)).

Lemma updates_inv segs : forall c X c' outs,
  Inv c X -> InvL c X -> gcm_updates E H defer enc c segs = (c', outs) ->
  Inv c' (X ++ concat segs) /\ O (X ++ concat segs) = O X ++ outs /\ InvL c' (X ++ concat segs).
Proof.
  induction segs as [|d segs IH]; intros c X c' outs HI HL Hu.
  - cbn [gcm_updates] in Hu. pair_inj2 Hu c' outs. cbn [concat]. rewrite !app_nil_r. auto.
  - cbn [gcm_updates] in Hu.
    destruct (gcm_update E H defer enc c d) as [c1 o] eqn:Hu1.
    destruct (gcm_updates E H defer enc c1 segs) as [c2 os] eqn:Hu2.
    pair_inj2 Hu c' outs.
    destruct (update_inv c X d c1 o HI Hu1) as (HI1 & HO1 & Hl1).
    assert (HL1 : InvL c1 (X ++ d)).
    { unfold InvL in *. rewrite Hl1. destruct d as [|d0 d']; [rewrite app_nil_r; exact HL|].
      unfold add64, w64. rewrite HL, wrap64_add, app_length, Nat2N.inj_add. reflexivity. }
    destruct (IH c1 (X ++ d) c2 os HI1 HL1 Hu2) as (HI2 & HO2 & HL2).
    cbn [concat]. rewrite app_assoc. repeat split; try assumption.
    rewrite HO2, HO1, app_assoc. reflexivity.
Qed.

(* ------------------------------------------------------------------ GCM_COMPLETE *)

Lemma inv_side_split c X : Inv c X ->
  exists Xc t q, X = Xc ++ t /\ length Xc = q * 16 /\ length t = pb_len c /\ length t <= 16 /\
    side X (O X) = side Xc (O Xc) ++ side t (xorb_list t (E (ctrs (S q)))) /\
    rev (aad_hash c) = xorb_list (ghash_blocks H YA (side Xc (O Xc)))
                                 (pad16 (side t (xorb_list t (E (ctrs (S q)))))).
Proof.
  intros (Xc & t & q & HX & HXc & Ht & Ht16 & Hh & _). exists Xc, t, q.
  repeat split; try assumption.
  rewrite HX, (O_split Xc t q HXc), side_app. f_equal. f_equal.
  destruct t as [|a t]; [reflexivity|]. apply gctr_E_short; [discriminate|exact Ht16].
Qed.

Lemma finalize_spec c X tag_len :
  Inv c X -> in_length c = N.of_nat (length X) ->
  snd (gcm_finalize E H c tag_len) =
  firstn tag_len (xorb_list (gcm_s H aad (side X (O X))) (E J0)).
Proof.
  intros HI HL.
  destruct (inv_side_split c X HI) as (Xc & t & q & HX & HXc & Ht & Ht16 & Hs & Hh).
  destruct HI as (_ & _ & _ & _ & _ & _ & _ & _ & _ & _ & Hiv & Hal).
  set (K := E (ctrs (S q))) in *. set (ct := side t (xorb_list t K)) in *.
  assert (Hct : length ct = length t) by (apply length_side_open; [exact Ht16|apply E_len, length_ctrs]).
  assert (Hlen : length (side X (O X)) = length X).
  { rewrite Hs, app_length, (length_side_exact Xc q HXc), Hct, HX, app_length, HXc. reflexivity. }
  unfold gcm_finalize. cbn [snd]. rewrite Hiv. f_equal. f_equal.
  unfold gcm_s. fold YA. rewrite Hal, HL, <- Hlen.
  set (lb := gcm_len_block (N.of_nat (length aad)) (N.of_nat (length (side X (O X))))).
  assert (Hlb : length lb = 16) by apply length_gcm_len_block.
  rewrite (ghash_blocks_one H _ lb) by (try lia; apply (len16_nonnil _ Hlb)).
  rewrite (pad16_full lb Hlb). unfold gmul. f_equal. f_equal.
  rewrite Hs, (ghash_blocks_app H YA (side Xc (O Xc))) by (exists q; apply length_side_exact; exact HXc).
  rewrite Hh.
  destruct (pb_len c) eqn:Hp.
  - assert (Hct0 : ct = []) by (apply length_zero_iff_nil; rewrite Hct; exact Ht).
    rewrite Hct0, ghash_blocks_nil, pad16_nil. apply xorb_zeros_r.
    rewrite length_ghash_blocks by apply length_YA. lia.
  - rewrite (ghash_blocks_one H _ ct); [reflexivity| |lia].
    intros Hn. apply (f_equal (@length N)) in Hn. rewrite Hct, Ht in Hn. discriminate.
Qed.

(* ------------------------------------------------------------------ the whole message *)

Theorem stream_is_spec segs tag_len :
  (N.of_nat (length (concat segs)) < 2 ^ 64)%N ->
  gcm_stream E H defer enc iv aad segs tag_len =
  (O (concat segs),
   firstn tag_len (xorb_list (gcm_s H aad (side (concat segs) (O (concat segs)))) (E J0))).
Proof.
  intros Hlt. unfold gcm_stream.
  destruct (gcm_updates E H defer enc (gcm_init H iv aad) segs) as [c1 out] eqn:Hu.
  destruct (updates_inv segs _ [] c1 out init_inv ltac:(reflexivity) Hu) as (HI & HO & HL).
  cbn [app] in *. unfold O at 2 in HO. rewrite gctr_E_nil in HO. cbn [app] in HO.
  f_equal; [symmetry; exact HO|].
  apply finalize_spec; [exact HI|]. unfold InvL in HL. rewrite HL. apply wrap_small. exact Hlt.
Qed.

Lemma oneshot_is_stream data tag_len :
  gcm_oneshot E H defer enc iv aad data tag_len = gcm_stream E H defer enc iv aad [data] tag_len.
Proof.
  unfold gcm_oneshot, gcm_stream. cbn [gcm_updates].
  destruct (gcm_update E H defer enc (gcm_init H iv aad) data) as [c1 out].
  rewrite app_nil_r. reflexivity.
Qed.

End Stream.
