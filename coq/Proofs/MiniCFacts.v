(* MiniCFacts — soundness of the decision engine of Model/MiniCCheck.v:
   a question that depends on the world only through supported atoms, and that holds on the
   enumerated region representatives, holds in every world (engine_sound, decide_sound). *)
From Coq Require Import NArith ZArith List Bool Lia.
From ISAL Require Import Model.MiniC Model.MiniCCheck.
Import ListNotations.
Local Open Scope N_scope.

(* ------------------------------------------------------------------ key equality *)

Lemma skey_eqb_refl : forall k, skey_eqb k k = true.
Proof.
  induction k; simpl; rewrite ?N.eqb_refl, ?IHk, ?IHk1, ?IHk2; reflexivity.
Qed.

Lemma skey_eqb_eq : forall a b, skey_eqb a b = true -> a = b.
Proof.
  induction a; destruct b; simpl; intros H; try discriminate;
    repeat (apply andb_prop in H; destruct H as [H ?]);
    repeat match goal with
           | h : (_ =? _) = true |- _ => apply N.eqb_eq in h; subst
           | h : skey_eqb _ _ = true |- _ => first [ apply IHa in h | apply IHa1 in h | apply IHa2 in h ]; subst
           end; try reflexivity.
Qed.

(* ------------------------------------------------------------------ dedup, membership *)

Lemma dedupN_in : forall l acc x, In x (dedupN l acc) <-> In x l \/ In x acc.
Proof.
  induction l as [|y r IH]; intros acc x; simpl.
  - rewrite <- in_rev. tauto.
  - destruct (existsb (N.eqb y) acc) eqn:E.
    + rewrite IH. apply existsb_exists in E. destruct E as [z [Hz Hyz]]. apply N.eqb_eq in Hyz. subst z.
      split; [ intros [H|H]; auto | intros [[H|H]|H]; subst; auto ].
    + rewrite IH. simpl. tauto.
Qed.

Lemma key_in_spec : forall k l, key_in k l = true <-> In k l.
Proof.
  induction l as [|x r IH]; simpl; [ split; [ discriminate | tauto ] |].
  rewrite orb_true_iff, IH. split.
  - intros [H|H]; [ left; symmetry; apply skey_eqb_eq; exact H | right; exact H ].
  - intros [H|H]; [ left; subst; apply skey_eqb_refl | right; exact H ].
Qed.

Lemma dedup_keys_in : forall l acc k, In k (dedup_keys l acc) <-> In k l \/ In k acc.
Proof.
  induction l as [|y r IH]; intros acc k; simpl.
  - rewrite <- in_rev. tauto.
  - destruct (key_in y acc) eqn:E.
    + rewrite IH. apply key_in_spec in E. split; [ intros [H|H]; auto | intros [[H|H]|H]; subst; auto ].
    + rewrite IH. simpl. tauto.
Qed.

(* ------------------------------------------------------------------ cuts and representatives *)

Lemma cut_below_spec : forall cuts x best,
  best <= x ->
  let r := fold_left (fun best c => if (c <=? x) && (best <=? c) then c else best) cuts best in
  best <= r /\ r <= x /\ (forall c, In c cuts -> c <= x -> c <= r).
Proof.
  induction cuts as [|c r IH]; intros x best Hb; simpl.
  - repeat split; try lia; try (intros c []).
  - destruct ((c <=? x) && (best <=? c)) eqn:E.
    + apply andb_prop in E. destruct E as [E1 E2]. apply N.leb_le in E1. apply N.leb_le in E2.
      destruct (IH x c E1) as [H1 [H2 H3]]. repeat split; try lia.
      intros c' [Hc|Hc] Hle; [ subst; lia | apply H3; assumption ].
    + destruct (IH x best Hb) as [H1 [H2 H3]]. repeat split; try lia.
      intros c' [Hc|Hc] Hle; [ subst | apply H3; assumption ].
      apply andb_false_iff in E. destruct E as [E|E]; [ apply N.leb_gt in E; lia | apply N.leb_gt in E; lia ].
Qed.

Lemma cut_below_le : forall cuts x, cut_below cuts x <= x.
Proof. intros. unfold cut_below. destruct (cut_below_spec cuts x 0) as [_ [H _]]; [ lia | exact H ]. Qed.

Lemma cut_below_max : forall cuts x c, In c cuts -> c <= x -> c <= cut_below cuts x.
Proof. intros. unfold cut_below. destruct (cut_below_spec cuts x 0) as [_ [_ H3]]; [ lia | auto ]. Qed.

Lemma cut_below_in : forall cuts x, In 0 cuts -> In (cut_below cuts x) cuts.
Proof.
  intros cuts x H0. unfold cut_below.
  assert (G : forall l best, In best cuts -> (forall c, In c l -> In c cuts) ->
             In (fold_left (fun best c => if (c <=? x) && (best <=? c) then c else best) l best) cuts).
  { induction l as [|c r IH]; intros best Hb Hl; simpl; [ exact Hb |].
    apply IH; [ destruct ((c <=? x) && (best <=? c)); [ apply Hl; left; reflexivity | exact Hb ]
              | intros c' Hc'; apply Hl; right; exact Hc' ]. }
  apply G; auto.
Qed.

Definition mod_step (k : skey) := fun m i => if skey_eqb (ki_key i) k then N.lcm m (ki_mod i) else m.

Lemma mod_fold_mono : forall k l a b, N.divide a b -> N.divide a (fold_left (mod_step k) l b).
Proof.
  induction l as [|j r IH]; intros a b Hab; simpl; [ exact Hab |].
  unfold mod_step at 2. destruct (skey_eqb (ki_key j) k).
  - apply IH. eapply N.divide_trans; [ exact Hab | apply N.divide_lcm_l ].
  - apply IH. exact Hab.
Qed.

Lemma mod_of_div : forall inf k i, In i inf -> skey_eqb (ki_key i) k = true -> N.divide (ki_mod i) (mod_of inf k).
Proof.
  intros inf k i Hi Ei. unfold mod_of. fold (mod_step k). generalize 1.
  induction inf as [|j r IH]; intros m; [ destruct Hi |]. simpl.
  destruct Hi as [Hj|Hi].
  - subst j. unfold mod_step at 2. rewrite Ei. apply mod_fold_mono. apply N.divide_lcm_r.
  - apply IH. exact Hi.
Qed.

Lemma mod_of_nz : forall inf k, (forall i, In i inf -> ki_mod i <> 0) -> mod_of inf k <> 0.
Proof.
  intros inf k. unfold mod_of. fold (mod_step k).
  assert (G : forall l m, m <> 0 -> (forall i, In i l -> ki_mod i <> 0) -> fold_left (mod_step k) l m <> 0).
  { induction l as [|j r IH]; intros m Hm Hall; simpl; [ exact Hm |].
    apply IH; [| intros i Hi; apply Hall; right; exact Hi ].
    unfold mod_step. destruct (skey_eqb (ki_key j) k); [| exact Hm ].
    intro Hz. apply N.lcm_eq_0 in Hz. destruct Hz as [Hz|Hz]; [ contradiction | apply (Hall j); [ left; reflexivity | exact Hz ] ]. }
  intros H. apply G; [ lia | exact H ].
Qed.

Lemma mod_mod_divide : forall y d M, d <> 0 -> M <> 0 -> N.divide d M -> (y mod M) mod d = y mod d.
Proof.
  intros y d M Hd HM [q Hq]. subst M.
  assert (Hq0 : q <> 0) by (intro; subst; apply HM; reflexivity).
  rewrite (N.mul_comm q d). rewrite N.mod_mul_r by assumption.
  rewrite (N.mul_comm d). rewrite N.mod_add by assumption. apply N.mod_mod. assumption.
Qed.

Section Rep.
  Variables (inf : list kinfo) (k : skey).
  Hypothesis Mnz : mod_of inf k <> 0.

  Lemma cuts_of_0 : In 0 (cuts_of inf k).
  Proof. unfold cuts_of. apply dedupN_in. left. left. reflexivity. Qed.

  Lemma cuts_of_in : forall i c, In i inf -> skey_eqb (ki_key i) k = true -> In c (ki_cuts i) -> In c (cuts_of inf k).
  Proof.
    intros i c Hi Ei Hc. unfold cuts_of. apply dedupN_in. left. right.
    apply in_flat_map. exists i. split; [ exact Hi | rewrite Ei; exact Hc ].
  Qed.

  Lemma rep_ge : forall x, cut_below (cuts_of inf k) x <= rep inf k x.
  Proof. intros. unfold rep. cbv zeta. apply N.le_add_r. Qed.

  Lemma rep_le : forall x, rep inf k x <= x.
  Proof.
    intros x. unfold rep. cbv zeta. pose proof (cut_below_le (cuts_of inf k) x) as H.
    pose proof (N.mod_le (x - cut_below (cuts_of inf k) x) (mod_of inf k) Mnz) as H1.
    set (r := (x - cut_below (cuts_of inf k) x) mod mod_of inf k) in *. lia.
  Qed.

  Lemma rep_compare : forall x c, In c (cuts_of inf k) -> In (c + 1) (cuts_of inf k) ->
    (rep inf k x ?= c) = (x ?= c).
  Proof.
    intros x c H1 H2. pose proof (rep_le x) as Hle. pose proof (rep_ge x) as Hge.
    destruct (N.compare_spec x c) as [E|L|G].
    - subst x. apply N.compare_eq_iff.
      pose proof (cut_below_max _ c c H1 (N.le_refl _)). lia.
    - apply N.compare_lt_iff. lia.
    - apply N.compare_gt_iff.
      assert (c + 1 <= x) by lia. pose proof (cut_below_max _ x (c + 1) H2 H). lia.
  Qed.

  Lemma rep_mod : forall x d, d <> 0 -> N.divide d (mod_of inf k) -> rep inf k x mod d = x mod d.
  Proof.
    intros x d Hd Hdiv. unfold rep. set (c := cut_below (cuts_of inf k) x).
    assert (Hc : c <= x) by apply cut_below_le.
    rewrite <- N.add_mod_idemp_r by assumption.
    rewrite mod_mod_divide by assumption.
    rewrite N.add_mod_idemp_r by assumption. f_equal. lia.
  Qed.

  Lemma rep_in_cands : forall x, In (rep inf k x) (cands inf k).
  Proof.
    intros x. unfold cands. apply dedupN_in. left. apply in_flat_map.
    exists (cut_below (cuts_of inf k) x). split; [ apply cut_below_in; apply cuts_of_0 |].
    unfold rep. apply in_map_iff. exists ((x - cut_below (cuts_of inf k) x) mod mod_of inf k). split; [ reflexivity |].
    unfold residues. apply in_map_iff.
    pose proof (N.mod_lt (x - cut_below (cuts_of inf k) x) (mod_of inf k) Mnz) as Hlt.
    exists (N.to_nat ((x - cut_below (cuts_of inf k) x) mod mod_of inf k)). split; [ apply N2Nat.id |].
    set (r := (x - cut_below (cuts_of inf k) x) mod mod_of inf k) in *.
    apply in_seq. lia.
  Qed.
End Rep.

(* ------------------------------------------------------------------ atoms *)

Ltac inv_match H :=
  repeat match type of H with
         | match ?x with _ => _ end = Some _ => destruct x eqn:?; try discriminate
         end.

Lemma atom_info_inv : forall a ia, atom_info a = Some ia ->
  (exists n, a = SConst n /\ ia = []) \/
  (exists k, a = SKey k /\ ia = [{| ki_key := k; ki_cuts := [0; 1]; ki_mod := 1 |}]) \/
  (exists op t k c, a = SCmp op t (SKey k) (SConst c) /\ ord_ok op t = true /\
                    ia = [{| ki_key := k; ki_cuts := [c; c + 1]; ki_mod := 1 |}]) \/
  (exists op t t' k m c, a = SCmp op t (SBin OAnd t' (SKey k) (SConst m)) (SConst c) /\ ord_ok op t = true /\
                    pow2m1 m = true /\ ia = [{| ki_key := k; ki_cuts := []; ki_mod := m + 1 |}]) \/
  (exists op t t' k1 k2, a = SCmp op t (SBin OOr t' (SKey k1) (SKey k2)) (SConst 0) /\ is_eqne op = true /\
                    ia = [{| ki_key := k1; ki_cuts := [0; 1]; ki_mod := 1 |};
                          {| ki_key := k2; ki_cuts := [0; 1]; ki_mod := 1 |}]).
Proof.
  intros a ia H. unfold atom_info in H. inv_match H; inversion H; subst; clear H;
    repeat match goal with h : _ && _ = true |- _ => apply andb_prop in h; destruct h end.
  - left. eauto.
  - right. left. eauto.
  - right. right. left. eauto 10.
  - right. right. right. left. eauto 12.
  - right. right. right. right. eauto 10.
Qed.

Lemma atoms_info_incl : forall A inf, atoms_info A = Some inf ->
  forall a, In a A -> exists ia, atom_info a = Some ia /\ incl ia inf.
Proof.
  induction A as [|x r IH]; intros inf H a Ha; [ destruct Ha |].
  simpl in H. destruct (atom_info x) as [ix|] eqn:Ex; [| discriminate ].
  destruct (atoms_info r) as [ir|] eqn:Er; [| discriminate ]. inversion H; subst; clear H.
  destruct Ha as [Ha|Ha].
  - subst. exists ix. split; [ exact Ex | apply incl_appl; apply incl_refl ].
  - destruct (IH ir eq_refl a Ha) as [ia [H1 H2]]. exists ia. split; [ exact H1 | apply incl_appr; exact H2 ].
Qed.

Lemma atoms_info_mod_nz : forall A inf, atoms_info A = Some inf -> forall i, In i inf -> ki_mod i <> 0.
Proof.
  induction A as [|x r IH]; intros inf H i Hi; simpl in H.
  - inversion H; subst. destruct Hi.
  - destruct (atom_info x) as [ix|] eqn:Ex; [| discriminate ].
    destruct (atoms_info r) as [ir|] eqn:Er; [| discriminate ]. inversion H; subst; clear H.
    apply in_app_or in Hi. destruct Hi as [Hi|Hi]; [| eapply IH; eauto ].
    destruct (atom_info_inv _ _ Ex) as [[n [_ E]]|[[k [_ E]]|[[op [t [k [c [_ [_ E]]]]]]|[[op [t [t' [k [m [c [_ [_ [_ E]]]]]]]]]|[op [t [t' [k1 [k2 [_ [_ E]]]]]]]]]]];
      subst ix; simpl in Hi; repeat (destruct Hi as [Hi|Hi]; [ subst i; simpl; lia |]); destruct Hi.
Qed.

Lemma cmp_b_compare : forall op t x y c, ord_ok op t = true -> (x ?= c) = (y ?= c) ->
  cmp_b op t x c = cmp_b op t y c.
Proof.
  intros op t x y c Hok Hc. unfold ord_ok in Hok.
  assert (Hc' : (c ?= x) = (c ?= y)) by (rewrite (N.compare_antisym x c), (N.compare_antisym y c), Hc; reflexivity).
  unfold cmp_b. destruct op; simpl in Hok;
    try (rewrite !N.eqb_compare, Hc; reflexivity);
    destruct (signed t); try discriminate;
    unfold N.ltb, N.leb; rewrite ?Hc, ?Hc'; reflexivity.
Qed.

Lemma pow2m1_spec : forall m, pow2m1 m = true -> exists j, m = N.ones j.
Proof.
  intros m H. unfold pow2m1 in H. apply existsb_exists in H. destruct H as [j [_ Hj]].
  apply N.eqb_eq in Hj. eauto.
Qed.

(* the truth of a supported atom is the same in w and in any world that maps each of its keys
   to the representative of its value *)
Lemma atom_agree : forall inf a ia (w w' : world),
  atom_info a = Some ia -> incl ia inf -> (forall i, In i inf -> ki_mod i <> 0) ->
  (forall i, In i ia -> w' (ki_key i) = rep inf (ki_key i) (w (ki_key i))) ->
  truth w a = truth w' a.
Proof.
  intros inf a ia w w' Ha Hincl Hnz Hw.
  assert (Mnz : forall k, mod_of inf k <> 0) by (intros; apply mod_of_nz; exact Hnz).
  destruct (atom_info_inv _ _ Ha) as [[n [E1 E2]]|[[k [E1 E2]]|[[op [t [k [c [E1 [Hok E2]]]]]]|[[op [t [t' [k [m [c [E1 [Hok [Hp E2]]]]]]]]]|[op [t [t' [k1 [k2 [E1 [Hok E2]]]]]]]]]]]; subst a ia.
  - reflexivity.
  - unfold truth. simpl. pose proof (Hw _ (or_introl eq_refl)) as Hk; simpl in Hk; rewrite Hk; clear Hk.
    set (i := {| ki_key := k; ki_cuts := [0; 1]; ki_mod := 1 |}).
    assert (Hi : In i inf) by (apply Hincl; left; reflexivity).
    pose proof (rep_compare inf k (Mnz k) (w k) 0
                  (cuts_of_in inf k i 0 Hi (skey_eqb_refl k) (or_introl eq_refl))
                  (cuts_of_in inf k i 1 Hi (skey_eqb_refl k) (or_intror (or_introl eq_refl)))) as Hc.
    rewrite !N.eqb_compare, Hc. reflexivity.
  - unfold truth. simpl. pose proof (Hw _ (or_introl eq_refl)) as Hk; simpl in Hk; rewrite Hk; clear Hk.
    set (i := {| ki_key := k; ki_cuts := [c; c + 1]; ki_mod := 1 |}).
    assert (Hi : In i inf) by (apply Hincl; left; reflexivity).
    pose proof (rep_compare inf k (Mnz k) (w k) c
                  (cuts_of_in inf k i c Hi (skey_eqb_refl k) (or_introl eq_refl))
                  (cuts_of_in inf k i (c + 1) Hi (skey_eqb_refl k) (or_intror (or_introl eq_refl)))) as Hc.
    rewrite (cmp_b_compare op t (rep inf k (w k)) (w k) c Hok Hc). reflexivity.
  - unfold truth. simpl. pose proof (Hw _ (or_introl eq_refl)) as Hk; simpl in Hk; rewrite Hk; clear Hk.
    set (i := {| ki_key := k; ki_cuts := []; ki_mod := m + 1 |}).
    assert (Hi : In i inf) by (apply Hincl; left; reflexivity).
    destruct (pow2m1_spec _ Hp) as [j Hj]. subst m.
    rewrite !N.land_ones.
    assert (Hd : 2 ^ j <> 0) by (apply N.pow_nonzero; lia).
    assert (Hdiv : N.divide (2 ^ j) (mod_of inf k)).
    { pose proof (mod_of_div inf k i Hi (skey_eqb_refl k)) as D. simpl in D.
      replace (N.ones j + 1) with (2 ^ j) in D; [ exact D |].
      rewrite N.ones_equiv. pose proof (N.pow_nonzero 2 j). lia. }
    rewrite (rep_mod inf k (Mnz k) (w k) (2 ^ j) Hd Hdiv). reflexivity.
  - unfold truth. simpl.
    pose proof (Hw _ (or_introl eq_refl)) as Hk1; simpl in Hk1; rewrite Hk1; clear Hk1.
    pose proof (Hw _ (or_intror (or_introl eq_refl))) as Hk2; simpl in Hk2; rewrite Hk2; clear Hk2.
    set (i1 := {| ki_key := k1; ki_cuts := [0; 1]; ki_mod := 1 |}).
    set (i2 := {| ki_key := k2; ki_cuts := [0; 1]; ki_mod := 1 |}).
    assert (Hi1 : In i1 inf) by (apply Hincl; left; reflexivity).
    assert (Hi2 : In i2 inf) by (apply Hincl; right; left; reflexivity).
    pose proof (rep_compare inf k1 (Mnz k1) (w k1) 0
                  (cuts_of_in inf k1 i1 0 Hi1 (skey_eqb_refl k1) (or_introl eq_refl))
                  (cuts_of_in inf k1 i1 1 Hi1 (skey_eqb_refl k1) (or_intror (or_introl eq_refl)))) as Hc1.
    pose proof (rep_compare inf k2 (Mnz k2) (w k2) 0
                  (cuts_of_in inf k2 i2 0 Hi2 (skey_eqb_refl k2) (or_introl eq_refl))
                  (cuts_of_in inf k2 i2 1 Hi2 (skey_eqb_refl k2) (or_intror (or_introl eq_refl)))) as Hc2.
    assert (Z : forall a b a' b', (a' ?= 0) = (a ?= 0) -> (b' ?= 0) = (b ?= 0) ->
                (N.lor a b =? 0) = (N.lor a' b' =? 0)).
    { intros a b a' b' Ha' Hb'.
      destruct (N.eq_dec a 0) as [Za|Za].
      - subst a. rewrite N.compare_refl in Ha'. apply N.compare_eq_iff in Ha'. subst a'.
        rewrite !N.lor_0_l. rewrite !N.eqb_compare, Hb'. reflexivity.
      - assert (Za' : a' <> 0) by (intro; subst a'; rewrite N.compare_refl in Ha'; symmetry in Ha'; apply N.compare_eq_iff in Ha'; contradiction).
        assert (N.lor a b <> 0) by (intro Hz; apply N.lor_eq_0_iff in Hz; tauto).
        assert (N.lor a' b' <> 0) by (intro Hz; apply N.lor_eq_0_iff in Hz; tauto).
        apply N.eqb_neq in H. apply N.eqb_neq in H0. congruence. }
    unfold is_eqne in Hok. unfold cmp_b. destruct op; try discriminate;
      rewrite (Z (w k1) (w k2) _ _ Hc1 Hc2); reflexivity.
Qed.

(* ------------------------------------------------------------------ enumeration *)

Lemma all_assign_spec : forall kc acc Q, all_assign kc acc Q = true ->
  forall f : skey -> N, (forall k vs, In (k, vs) kc -> In (f k) vs) ->
  Q (rev (map (fun p => (fst p, f (fst p))) kc) ++ acc) = true.
Proof.
  induction kc as [|[k vs] r IH]; intros acc Q H f Hf; simpl in *.
  - exact H.
  - rewrite forallb_forall in H. specialize (H (f k) (Hf k vs (or_introl eq_refl))).
    specialize (IH _ _ H f (fun k' vs' Hin => Hf k' vs' (or_intror Hin))).
    rewrite <- app_assoc. simpl. exact IH.
Qed.

Lemma world_of_fun : forall (l : assign) (f : skey -> N),
  (forall p, In p l -> snd p = f (fst p)) -> forall k, In k (map fst l) -> world_of l k = f k.
Proof.
  induction l as [|[k' v] r IH]; intros f Hl k Hk; [ destruct Hk |].
  simpl. destruct (skey_eqb k k') eqn:E.
  - apply skey_eqb_eq in E. subst k'. exact (Hl (k, v) (or_introl eq_refl)).
  - simpl in Hk. destruct Hk as [Hk|Hk]; [ subst k'; rewrite skey_eqb_refl in E; discriminate |].
    apply IH; [ intros p Hp; apply Hl; right; exact Hp | exact Hk ].
Qed.

(* a question that depends on the world only through the atoms A *)
Definition decides (A : list sval) (Q : world -> bool) : Prop :=
  forall w w', (forall a, In a A -> truth w a = truth w' a) -> Q w = Q w'.

Theorem engine_sound : forall A Q, check_all A Q = true -> decides A Q -> forall w, Q w = true.
Proof.
  intros A Q H Hdec w. unfold check_all in H.
  destruct (atoms_info A) as [inf|] eqn:E; [| discriminate ].
  pose proof (atoms_info_mod_nz _ _ E) as Hnz.
  set (f := fun k => rep inf k (w k)).
  assert (Hf : forall k vs, In (k, vs) (cand_table inf) -> In (f k) vs).
  { intros k vs Hin. unfold cand_table in Hin. apply in_map_iff in Hin. destruct Hin as [k0 [Hk0 _]].
    inversion Hk0; subst. apply rep_in_cands. apply mod_of_nz. exact Hnz. }
  pose proof (all_assign_spec _ _ _ H f Hf) as HQ. rewrite app_nil_r in HQ.
  set (l := rev (map (fun p : skey * list N => (fst p, f (fst p))) (cand_table inf))) in HQ.
  rewrite (Hdec w (world_of l)); [ exact HQ |].
  intros a Ha. destruct (atoms_info_incl _ _ E a Ha) as [ia [H1 H2]].
  apply (atom_agree inf a ia w (world_of l) H1 H2 Hnz).
  intros i Hi. apply (world_of_fun l f).
  - intros p Hp. unfold l in Hp. apply in_rev in Hp. apply in_map_iff in Hp.
    destruct Hp as [q [Hq _]]. subst p. reflexivity.
  - unfold l. rewrite map_rev. apply -> in_rev. rewrite map_map. simpl.
    unfold cand_table. rewrite map_map. simpl. rewrite map_id.
    unfold keys_of_info. apply dedup_keys_in. left. apply in_map. apply H2. exact Hi.
Qed.

(* ------------------------------------------------------------------ questions about trees and formulas *)

Lemma eval_tree_ext : forall t w w', (forall a, In a (tree_atoms t) -> truth w a = truth w' a) ->
  eval_tree w t = eval_tree w' t.
Proof.
  induction t as [r tr|c a IHa b IHb|n]; intros w w' H; simpl; try reflexivity.
  simpl in H. rewrite <- (H c (or_introl eq_refl)).
  destruct (truth w c).
  - apply IHa. intros x Hx. apply H. right. apply in_or_app. left. exact Hx.
  - apply IHb. intros x Hx. apply H. right. apply in_or_app. right. exact Hx.
Qed.

Lemma eval_form_ext : forall f w w', (forall a, In a (form_atoms f) -> truth w a = truth w' a) ->
  eval_form w f = eval_form w' f.
Proof.
  induction f as [| |a|g IH|g IHg h IHh|g IHg h IHh]; intros w w' H; simpl in *; try reflexivity.
  - apply H. left. reflexivity.
  - rewrite (IH w w' H). reflexivity.
  - rewrite (IHg w w'), (IHh w w'); [ reflexivity | |]; intros x Hx; apply H; apply in_or_app; auto.
  - rewrite (IHg w w'), (IHh w w'); [ reflexivity | |]; intros x Hx; apply H; apply in_or_app; auto.
Qed.

Lemma mkQ_decides : forall t fs G, decides (atomsQ t fs) (mkQ t fs G).
Proof.
  intros t fs G w w' H. unfold mkQ, atomsQ in *.
  rewrite (eval_tree_ext t w w') by (intros a Ha; apply H; apply in_or_app; left; exact Ha).
  f_equal. apply map_ext_in. intros f Hf. apply eval_form_ext.
  intros a Ha. apply H. apply in_or_app. right. apply in_flat_map. exists f. split; assumption.
Qed.

(* the engine: a clean enumeration decides the question in every world *)
Theorem decide_sound : forall t fs G, decide t fs G = true ->
  forall w, G (eval_tree w t) (map (eval_form w) fs) = true.
Proof.
  intros t fs G H w. exact (engine_sound _ _ H (mkQ_decides t fs G) w).
Qed.
