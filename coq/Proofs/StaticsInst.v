(* C18 for the CURRENT library: the inventory regenerated from the built objects satisfies the rules. *)
From Coq Require Import String List Bool Arith NArith.
From ISAL Require Import Model.Statics Gen.StaticsGen Proofs.StaticsFacts.
Import ListNotations.

Lemma c_statics_ok : translate_ok = true /\ statics_ok stores bss_syms c_statics dispatch_ptrs = true.
Proof. vm_compute. split; reflexivity. Qed.

Lemma c_written_statics_allowed :
  (forall s, In s stores -> store_ok s) /\
  (forall w, In w bss_syms -> is_version_stamp (ws_name w) = true) /\
  (forall w, In w c_statics -> cstatic_allowed w = true) /\
  (dispatch_ptrs <> [] /\ forall p, In p dispatch_ptrs -> ptr_aligned p = true).
Proof. apply statics_ok_sound. exact (proj2 c_statics_ok). Qed.

(* non-vacuity of the inventory: it contains the two kinds of store and they are told apart *)
Lemma c_inventory_nonvacuous :
  2 <= length (filter (fun s => String.eqb (so_target s) "self_test_status") stores) /\
  60 <= length (filter (fun s => suffixb DISP (so_target s)) stores) /\
  store_allowed (mkStore "mh_sha1_update_base.o" "_mh_sha1_update_base" "scratch.0" ".bss" "movups XMMWORD PTR [rip+0x0],xmm0") = false /\
  store_allowed (mkStore "gcm_multibinary.o" "_aes_gcm_enc_128_sse" "_aes_gcm_dec_128_dispatched" ".data" "mov QWORD PTR [rip+0x0],rsi") = false /\
  cstatic_allowed (mkWsym "aes_gcm.o" "calls.0" ".bss" 4) = false.
Proof. vm_compute. repeat split; auto; repeat constructor. Qed.
