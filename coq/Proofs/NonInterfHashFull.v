(* C20, hash context layer, FULL non-interference: the junk a context held before
   isal_hash_ctx_init is arbitrary in EVERY field, including the contents of the partial block
   buffer (only its size, 2*B bytes, is fixed: it is a C array).

   Relational invariant per context: either both are still fresh (status = COMPLETE and error
   agree; nothing else), or they agree on every field except the partial block buffer, whose
   first [c_plen] bytes agree, and both satisfy the unary invariant [Inv] that ties the
   partial length to the total length modulo the block size — which is what makes hash_pad
   read only bytes that were written since FIRST. *)
From Coq Require Import NArith List Arith Bool Lia.
From ISAL Require Import Base.Words Base.ListUtil Spec.MD Model.HashCtx Model.JunkHash
  Proofs.WordsFacts Proofs.ChunkFacts Proofs.HashPadFacts.
Import ListNotations.

Section Full.
Variable A : algo.
Hypothesis WF : algo_wf A.
Variable K : nat.
Variable sched : nat -> list nat -> option nat.

Notation getc := (getc A).
Notation dflt := (dflt_ctx A).
Notation Bs := (B A).

Lemma Bpos : 0 < Bs.
Proof. pose proof (B_pos A WF). lia. Qed.

Lemma Bn_cases : N.of_nat Bs = 64%N \/ N.of_nat Bs = 128%N.
Proof. destruct (B_cases A WF) as [[-> _]|[-> _]]; [left|right]; reflexivity. Qed.

(* ---- arithmetic: the total length modulo the block size -------------------------------- *)

Definition tr (t : N) : nat := N.to_nat (t mod N.of_nat Bs).

Lemma mod64_modB x : ((x mod 2 ^ 64) mod N.of_nat Bs = x mod N.of_nat Bs)%N.
Proof.
  destruct Bn_cases as [->| ->].
  - change (2 ^ 64)%N with (64 * 2 ^ 58)%N. rewrite N.mod_mul_r by discriminate.
    rewrite N.mul_comm, N.mod_add by discriminate. apply N.mod_mod. discriminate.
  - change (2 ^ 64)%N with (128 * 2 ^ 57)%N. rewrite N.mod_mul_r by discriminate.
    rewrite N.mul_comm, N.mod_add by discriminate. apply N.mod_mod. discriminate.
Qed.

Lemma tr_lt t : tr t < Bs.
Proof.
  unfold tr. pose proof Bpos.
  assert (t mod N.of_nat Bs < N.of_nat Bs)%N by (apply N.mod_lt; lia). lia.
Qed.

Lemma tr_add t n : tr (w64 (t + N.of_nat n)) = (tr t + n) mod Bs.
Proof.
  unfold tr, w64. rewrite wrap_mod, mod64_modB. pose proof Bpos.
  rewrite N.add_mod by lia.
  rewrite N2Nat.inj_mod, N2Nat.inj_add, !N2Nat.inj_mod, !Nat2N.id.
  rewrite Nat.add_mod_idemp_r by lia. reflexivity.
Qed.

Lemma tr_first n : tr (w64 (0 + N.of_nat n)) = n mod Bs.
Proof.
  rewrite tr_add. unfold tr. rewrite N.mod_0_l by (pose proof Bpos; lia). reflexivity.
Qed.

Lemma w64_lt x : (w64 x < 2 ^ 64)%N.
Proof. unfold w64. rewrite wrap_mod. apply N.mod_lt. discriminate. Qed.

(* ---- hash_pad reads only the first (total mod B) bytes of the buffer --------------------- *)

Lemma hash_pad_rel p1 p2 t :
  (t < 2 ^ 64)%N -> length p1 = 2 * Bs -> length p2 = 2 * Bs ->
  firstn (tr t) p1 = firstn (tr t) p2 ->
  snd (hash_pad A p1 t) = snd (hash_pad A p2 t) /\
  length (fst (hash_pad A p1 t)) = 2 * Bs /\ length (fst (hash_pad A p2 t)) = 2 * Bs /\
  firstn (snd (hash_pad A p1 t) * Bs) (fst (hash_pad A p1 t)) =
  firstn (snd (hash_pad A p1 t) * Bs) (fst (hash_pad A p2 t)) /\
  tr t <= snd (hash_pad A p1 t) * Bs.
Proof.
  intros Ht L1 L2 Hf.
  pose proof (hash_pad_length A WF p1 t Ht L1) as HL1.
  pose proof (hash_pad_length A WF p2 t Ht L2) as HL2.
  destruct (hash_pad_unfold A WF p1 t Ht) as (E1 & M0 & Le & Pz & Hr).
  destruct (hash_pad_unfold A WF p2 t Ht) as (E2 & _). cbv zeta in *.
  unfold pad_r in *. fold (tr t) in *. set (r := tr t) in *. set (pz := pad_z A t) in *.
  set (lenb := a_lenbytes A (w64 (N.shiftl t 3))) in *.
  assert (Hlb : length lenb = a_lenfld A) by apply (wf_lenbytes A WF).
  rewrite E1, E2 in *. cbn [fst snd] in *.
  pose proof Bpos as Bp.
  assert (Ediv : (r + 1 + pz + a_lenfld A) / Bs * Bs = r + 1 + pz + a_lenfld A).
  { pose proof (Nat.div_mod (r + 1 + pz + a_lenfld A) Bs ltac:(lia)) as D. rewrite M0 in D. lia. }
  split; [reflexivity|]. split; [exact HL1|]. split; [exact HL2|]. rewrite Ediv. split; [|lia].
  assert (Shape : forall p, length p = 2 * Bs ->
            firstn (r + 1 + pz + a_lenfld A)
                   (splice (upd r 128%N (splice p r (zeros Bs))) (r + 1 + pz) lenb) =
            firstn r p ++ [128%N] ++ zeros pz ++ lenb).
  { intros p Lp.
    assert (Lr : length (firstn r p) = r) by (rewrite firstn_length; lia).
    assert (Ls : length (splice p r (zeros Bs)) = 2 * Bs).
    { rewrite length_splice; rewrite ?length_zeros; lia. }
    assert (S2 : upd r 128%N (splice p r (zeros Bs)) =
                 firstn r p ++ [128%N] ++ zeros (Bs - 1) ++ skipn (r + Bs) p).
    { unfold splice. rewrite length_zeros.
      replace Bs with (1 + (Bs - 1)) at 1 by lia. rewrite zeros_app. cbn [zeros repeat app].
      rewrite <- Lr at 1. rewrite upd_app_r. reflexivity. }
    replace (r + 1 + pz + a_lenfld A) with ((r + 1 + pz) + length lenb) by lia.
    rewrite firstn_splice_end by (rewrite length_upd; lia).
    rewrite S2. rewrite !app_assoc. f_equal. rewrite <- !app_assoc.
    rewrite firstn_app, Lr. rewrite firstn_all2 by lia. f_equal.
    replace (r + 1 + pz - r) with (S pz) by lia. cbn [app firstn]. f_equal.
    rewrite firstn_app_l by (rewrite length_zeros; lia). apply firstn_zeros. lia. }
  rewrite (Shape p1 L1), (Shape p2 L2), Hf. reflexivity.
Qed.

Ltac proj := cbn [c_digest c_status c_error c_total c_inc c_pbuf c_plen set_status set_digest set_error].

(* ---- unary invariant and the relation -------------------------------------------------- *)

Definition typed (c : ctx) : Prop := length (c_pbuf c) = 2 * Bs.

(* not in flight towards more input: IDLE, COMPLETE, or padded (PROCESSING|COMPLETE) *)
Definition quiet (c : ctx) : bool :=
  (negb (has (c_status c) STS_PROCESSING) || has (c_status c) STS_COMPLETE)%bool.

Definition Inv (c : ctx) : Prop :=
  typed c /\ c_plen c < Bs /\
  tr (c_total c) = (c_plen c + length (c_inc c)) mod Bs /\
  (c_plen c <> 0 -> c_inc c = []) /\
  (quiet c = true -> c_inc c = []) /\
  (c_total c < 2 ^ 64)%N.

Definition Rp (c1 c2 : ctx) : Prop :=
  c_digest c1 = c_digest c2 /\ c_status c1 = c_status c2 /\ c_error c1 = c_error c2 /\
  c_total c1 = c_total c2 /\ c_inc c1 = c_inc c2 /\ c_plen c1 = c_plen c2 /\
  firstn (c_plen c1) (c_pbuf c1) = firstn (c_plen c1) (c_pbuf c2).

Definition fresh3 (c1 c2 : ctx) : Prop :=
  c_status c1 = STS_COMPLETE /\ c_status c2 = STS_COMPLETE /\ c_error c1 = c_error c2 /\
  typed c1 /\ typed c2.

Definition crel (b : bool) (c1 c2 : ctx) : Prop :=
  (b = false /\ fresh3 c1 c2) \/ (Rp c1 c2 /\ Inv c1 /\ Inv c2).

Lemma Rp_refl c : Rp c c.
Proof. unfold Rp; auto 10. Qed.

Lemma Inv_dflt : Inv dflt.
Proof.
  pose proof Bpos. unfold Inv, typed, quiet, dflt_ctx; cbn.
  rewrite length_zeros. repeat split; try reflexivity; try lia.
  symmetry. apply Nat.mod_0_l. lia.
Qed.

Lemma crel_dflt b : crel b dflt dflt.
Proof. right. split; [apply Rp_refl|split; apply Inv_dflt]. Qed.

Lemma crel_error b c1 c2 : crel b c1 c2 -> c_error c1 = c_error c2.
Proof. intros [(_ & _ & _ & E & _)|((_ & _ & E & _) & _)]; exact E. Qed.

Lemma crel_status b c1 c2 : crel b c1 c2 -> c_status c1 = c_status c2.
Proof. intros [(_ & S1 & S2 & _)|((_ & E & _) & _)]; congruence. Qed.

Lemma crel_started c1 c2 : crel true c1 c2 -> c_digest c1 = c_digest c2 /\ c_total c1 = c_total c2.
Proof. intros [(E & _)|((E1 & _ & _ & E2 & _) & _)]; [discriminate|auto]. Qed.

Lemma crel_set_digest b c1 c2 d : crel b c1 c2 -> crel b (set_digest c1 d) (set_digest c2 d).
Proof.
  intros [(Hb & F)|(R & I1 & I2)]; [left; split; [exact Hb|exact F]|right].
  unfold Rp, Inv, typed, quiet, set_digest in *; cbn in *. intuition.
Qed.

Lemma crel_set_error b c1 c2 e : crel b c1 c2 -> crel b (set_error c1 e) (set_error c2 e).
Proof.
  intros [(Hb & S1 & S2 & E & T1 & T2)|(R & I1 & I2)].
  - left. split; [exact Hb|]. unfold fresh3, typed, set_error; cbn. auto.
  - right. unfold Rp, Inv, typed, quiet, set_error in *; cbn in *. intuition.
Qed.

(* ---- ctx_accept ------------------------------------------------------------------------- *)

(* the accepting part of ctx_accept as a function of what it reads of the context *)
Definition acc (dg : list N) (t0 : N) (plen0 : nat) (pbuf buf : list N) (flags : N) : verdict :=
  let len := length buf in
  let c1 := {| c_digest := dg;
               c_status := if has flags FLAG_LAST then N.lor STS_PROCESSING STS_LAST else STS_PROCESSING;
               c_error := ERR_NONE;
               c_total := w64 (t0 + N.of_nat len);
               c_inc := buf; c_pbuf := pbuf; c_plen := plen0 |} in
  if (negb (plen0 =? 0)%nat || (len <? Bs)%nat)%bool then
    let copy_len := Nat.min (Bs - plen0) len in
    let c2 := if (copy_len =? 0)%nat then c1 else
              {| c_digest := c_digest c1; c_status := c_status c1; c_error := c_error c1;
                 c_total := c_total c1; c_inc := skipn copy_len buf;
                 c_pbuf := splice (c_pbuf c1) plen0 (firstn copy_len buf);
                 c_plen := (plen0 + copy_len)%nat |} in
    if (Bs <=? c_plen c2)%nat then
      Accept {| c_digest := c_digest c2; c_status := c_status c2; c_error := c_error c2;
                c_total := c_total c2; c_inc := c_inc c2; c_pbuf := c_pbuf c2; c_plen := 0 |}
             (Some [firstn Bs (c_pbuf c2)])
    else Accept c2 None
  else Accept c1 None.

Lemma ctx_accept_eq c buf flags :
  ctx_accept A c buf flags =
  if negb (N.land flags (N.lnot FLAG_ENTIRE 32) =? 0)%N then Reject ERR_INVALID_FLAGS
  else if has (c_status c) STS_PROCESSING then Reject ERR_ALREADY_PROCESSING
  else if (has (c_status c) STS_COMPLETE && negb (has flags FLAG_FIRST))%bool then Reject ERR_ALREADY_COMPLETED
  else acc (if has flags FLAG_FIRST then a_iv A else c_digest c)
           (if has flags FLAG_FIRST then 0%N else c_total c)
           (if has flags FLAG_FIRST then 0 else c_plen c) (c_pbuf c) buf flags.
Proof. reflexivity. Qed.

Definition vrel (v1 v2 : verdict) : Prop :=
  match v1, v2 with
  | Reject e1, Reject e2 => e1 = e2
  | Accept c1 j1, Accept c2 j2 => j1 = j2 /\ Rp c1 c2 /\ Inv c1 /\ Inv c2
  | _, _ => False
  end.

Lemma acc_status_not_quiet flags :
  (negb (has (if has flags FLAG_LAST then N.lor STS_PROCESSING STS_LAST else STS_PROCESSING) STS_PROCESSING)
   || has (if has flags FLAG_LAST then N.lor STS_PROCESSING STS_LAST else STS_PROCESSING) STS_COMPLETE)%bool = false.
Proof. destruct (has flags FLAG_LAST); reflexivity. Qed.

Lemma acc_rel dg t0 plen0 p1 p2 buf flags :
  length p1 = 2 * Bs -> length p2 = 2 * Bs -> plen0 < Bs ->
  firstn plen0 p1 = firstn plen0 p2 -> tr t0 = plen0 ->
  vrel (acc dg t0 plen0 p1 buf flags) (acc dg t0 plen0 p2 buf flags).
Proof.
  intros L1 L2 Hp Hf Ht. pose proof Bpos as Bp. unfold acc. cbv zeta.
  pose proof (acc_status_not_quiet flags) as NQ.
  set (st := if has flags FLAG_LAST then N.lor STS_PROCESSING STS_LAST else STS_PROCESSING) in *.
  set (len := length buf).
  assert (Htr : tr (w64 (t0 + N.of_nat len)) = (plen0 + len) mod Bs) by (rewrite tr_add, Ht; reflexivity).
  destruct (negb (plen0 =? 0) || (len <? Bs))%bool eqn:Eb.
  2:{ apply orb_false_iff in Eb. destruct Eb as [Eb1 Eb2].
      apply negb_false_iff, Nat.eqb_eq in Eb1.
      cbn [vrel]. split; [reflexivity|]. split.
      - unfold Rp; cbn. repeat split; try reflexivity. exact Hf.
      - unfold Inv, typed, quiet; cbn. rewrite NQ.
        repeat split; try assumption; try lia; try discriminate; try apply w64_lt;
          try (intros; exfalso; lia). }
  set (cl := Nat.min (Bs - plen0) len).
  assert (Hcl : cl <= len) by (unfold cl; lia).
  assert (Hcl2 : plen0 + cl <= Bs) by (unfold cl; lia).
  assert (Lf : length (firstn cl buf) = cl) by (rewrite firstn_length; fold len; lia).
  destruct (cl =? 0) eqn:Ec.
  - apply Nat.eqb_eq in Ec. cbn [c_plen].
    destruct (Bs <=? plen0) eqn:E3; [apply Nat.leb_le in E3; lia|].
    assert (len = 0) by (unfold cl in Ec; lia).
    assert (buf = []) by (apply length_zero_iff_nil; assumption). subst buf.
    cbn [vrel]. split; [reflexivity|]. split.
    + unfold Rp; cbn. repeat split; try reflexivity. exact Hf.
    + unfold Inv, typed, quiet; cbn. rewrite NQ.
      repeat split; try assumption; try lia; try discriminate; try apply w64_lt; try reflexivity.
  - apply Nat.eqb_neq in Ec. cbn [c_plen c_pbuf c_digest c_status c_error c_total c_inc].
    assert (Sp : forall p, length p = 2 * Bs ->
                 firstn (plen0 + cl) (splice p plen0 (firstn cl buf)) = firstn plen0 p ++ firstn cl buf).
    { intros p Lp. rewrite <- Lf at 1. apply firstn_splice_end. lia. }
    assert (Ls : forall p, length p = 2 * Bs -> length (splice p plen0 (firstn cl buf)) = 2 * Bs).
    { intros p Lp. rewrite length_splice; lia. }
    assert (Lsk : length (skipn cl buf) = len - cl) by (rewrite skipn_length; reflexivity).
    destruct (Bs <=? plen0 + cl) eqn:E3.
    + apply Nat.leb_le in E3. assert (Eq : plen0 + cl = Bs) by lia.
      cbn [vrel]. split.
      { rewrite <- Eq, (Sp p1 L1), (Sp p2 L2), Hf. reflexivity. }
      split.
      * unfold Rp; cbn. repeat split; reflexivity.
      * unfold Inv, typed, quiet; cbn. rewrite NQ, Htr, Lsk, (Ls p1 L1), (Ls p2 L2).
        assert (Em : (plen0 + len) mod Bs = (len - cl) mod Bs).
        { replace (plen0 + len) with ((len - cl) + 1 * Bs) by lia. apply Nat.mod_add. lia. }
        repeat split; try lia; try discriminate; try apply w64_lt; try exact Em.
    + apply Nat.leb_gt in E3.
      assert (cl = len) by (unfold cl in *; lia).
      cbn [vrel]. split; [reflexivity|]. split.
      * unfold Rp; cbn. repeat split; try reflexivity. rewrite (Sp p1 L1), (Sp p2 L2), Hf. reflexivity.
      * unfold Inv, typed, quiet; cbn. rewrite NQ, Htr, Lsk, (Ls p1 L1), (Ls p2 L2).
        assert (Es : skipn cl buf = []) by (apply skipn_all2; fold len; lia).
        repeat split; try lia; try discriminate; try apply w64_lt; try exact Es;
          try (intros; exact Es); try (f_equal; lia).
Qed.

Lemma ctx_accept_rel b c1 c2 buf flags :
  crel b c1 c2 -> vrel (ctx_accept A c1 buf flags) (ctx_accept A c2 buf flags).
Proof.
  intros Hr. rewrite !ctx_accept_eq.
  destruct (negb (N.land flags (N.lnot FLAG_ENTIRE 32) =? 0)%N); [reflexivity|].
  rewrite <- (crel_status _ _ _ Hr).
  destruct (has (c_status c1) STS_PROCESSING) eqn:Ep; [reflexivity|].
  destruct (has (c_status c1) STS_COMPLETE && negb (has flags FLAG_FIRST))%bool eqn:Ecp; [reflexivity|].
  pose proof Bpos as Bp.
  destruct (has flags FLAG_FIRST) eqn:Ef.
  - (* FIRST: nothing but the buffer is read *)
    assert (T : typed c1 /\ typed c2).
    { destruct Hr as [(_ & _ & _ & _ & T1 & T2)|(_ & (T1 & _) & (T2 & _))]; auto. }
    destruct T as [T1 T2]. apply acc_rel; try assumption; try lia; try reflexivity.
  - (* UPDATE / LAST: the context is not COMPLETE, hence started *)
    destruct Hr as [(_ & S1 & _)|(R & I1 & I2)].
    { rewrite S1 in Ecp. discriminate. }
    destruct R as (E1 & E2 & E3 & E4 & E5 & E6 & E7).
    destruct I1 as (T1 & P1 & Tr1 & D1 & Q1 & Lt1). destruct I2 as (T2 & _).
    rewrite <- E1, <- E4, <- E6.
    assert (Hq : c_inc c1 = []).
    { apply Q1. unfold quiet. rewrite Ep. reflexivity. }
    apply acc_rel; try assumption.
    rewrite Tr1, Hq. cbn [length]. rewrite Nat.add_0_r. apply Nat.mod_small. exact P1.
Qed.

(* ---- ctx_next --------------------------------------------------------------------------- *)

(* the first half of the loop body: move a fresh incoming buffer's tail into the partial
   block buffer and emit its whole blocks *)
Definition step1 (c : ctx) : ctx * option (list (list N)) :=
  if ((c_plen c =? 0)%nat && negb (length (c_inc c) =? 0)%nat)%bool then
    let len := length (c_inc c) in
    let copy_len := (len mod Bs)%nat in
    let len' := (len - copy_len)%nat in
    let c' := {| c_digest := c_digest c; c_status := c_status c; c_error := c_error c;
                 c_total := c_total c; c_inc := [];
                 c_pbuf := if (copy_len =? 0)%nat then c_pbuf c
                           else splice (c_pbuf c) 0 (skipn len' (c_inc c));
                 c_plen := if (copy_len =? 0)%nat then c_plen c else copy_len |} in
    if negb (len' / Bs =? 0)%nat then (c', Some (chunks Bs (firstn len' (c_inc c))))
    else (c', None)
  else (c, None).

Definition padded (c1 : ctx) : ctx * option (list (list N)) :=
  let '(buf, nblk) := hash_pad A (c_pbuf c1) (c_total c1) in
  ({| c_digest := c_digest c1; c_status := N.lor STS_PROCESSING STS_COMPLETE;
      c_error := c_error c1; c_total := c_total c1; c_inc := c_inc c1;
      c_pbuf := buf; c_plen := c_plen c1 |},
   Some (chunks Bs (firstn (nblk * Bs) buf))).

Lemma ctx_next_eq c :
  ctx_next A c =
  if has (c_status c) STS_COMPLETE then
    (set_status (set_digest c (a_final A (c_digest c))) STS_COMPLETE, None)
  else
    match step1 c with
    | (c1, Some blocks) => (c1, Some blocks)
    | (c1, None) => if has (c_status c1) STS_LAST then padded c1 else (set_status c1 STS_IDLE, None)
    end.
Proof.
  unfold ctx_next, step1, padded. fold Bs.
  destruct (has (c_status c) STS_COMPLETE); [reflexivity|].
  destruct ((c_plen c =? 0) && negb (length (c_inc c) =? 0))%bool; [|reflexivity].
  cbv zeta. destruct (negb ((length (c_inc c) - length (c_inc c) mod Bs) / Bs =? 0)); reflexivity.
Qed.

Definition RI (c1 c2 : ctx) : Prop := Rp c1 c2 /\ Inv c1 /\ Inv c2.

Lemma step1_rel c1 c2 :
  RI c1 c2 ->
  snd (step1 c1) = snd (step1 c2) /\ RI (fst (step1 c1)) (fst (step1 c2)) /\
  c_status (fst (step1 c1)) = c_status c1 /\
  (snd (step1 c1) = None -> c_inc (fst (step1 c1)) = []).
Proof.
  intros (R & I1 & I2). pose proof Bpos as Bp.
  pose proof R as (E1 & E2 & E3 & E4 & E5 & E6 & E7).
  pose proof I1 as (T1 & P1 & Tr1 & D1 & Q1 & Lt1). pose proof I2 as (T2 & P2 & Tr2 & D2 & Q2 & Lt2).
  unfold step1. rewrite <- E1, <- E2, <- E3, <- E4, <- E5, <- E6.
  destruct ((c_plen c1 =? 0) && negb (length (c_inc c1) =? 0))%bool eqn:Ec.
  2:{ cbn [fst snd]. split; [reflexivity|]. split; [split; [exact R|split; assumption]|].
      split; [reflexivity|]. intros _.
      apply andb_false_iff in Ec. destruct Ec as [Ec|Ec].
      - apply D1. apply Nat.eqb_neq. exact Ec.
      - apply negb_false_iff, Nat.eqb_eq in Ec. apply length_zero_iff_nil. exact Ec. }
  apply andb_true_iff in Ec. destruct Ec as [Ez Ei]. apply Nat.eqb_eq in Ez.
  cbv zeta. set (len := length (c_inc c1)) in *. set (cl := len mod Bs).
  assert (Hcl : cl < Bs) by (apply Nat.mod_upper_bound; lia).
  assert (Hle : cl <= len) by (apply Nat.mod_le; lia).
  set (d := skipn (len - cl) (c_inc c1)).
  assert (Ld : length d = cl) by (unfold d; rewrite skipn_length; fold len; lia).
  assert (Trc : tr (c_total c1) = cl).
  { rewrite Tr1, Ez. cbn [Nat.add]. reflexivity. }
  assert (Key : RI
     {| c_digest := c_digest c1; c_status := c_status c1; c_error := c_error c1; c_total := c_total c1;
        c_inc := []; c_pbuf := if cl =? 0 then c_pbuf c1 else splice (c_pbuf c1) 0 d;
        c_plen := if cl =? 0 then c_plen c1 else cl |}
     {| c_digest := c_digest c1; c_status := c_status c1; c_error := c_error c1; c_total := c_total c1;
        c_inc := []; c_pbuf := if cl =? 0 then c_pbuf c2 else splice (c_pbuf c2) 0 d;
        c_plen := if cl =? 0 then c_plen c1 else cl |}).
  { destruct (cl =? 0) eqn:E0.
    - apply Nat.eqb_eq in E0. split.
      + unfold Rp; proj. repeat split; try reflexivity. exact E7.
      + unfold Inv, typed, quiet in *; proj. rewrite Trc, E0, Ez. cbn [Nat.add].
        rewrite Nat.mod_0_l by lia. repeat split; auto; try lia.
    - apply Nat.eqb_neq in E0.
      assert (Sp : forall p, length p = 2 * Bs -> firstn cl (splice p 0 d) = d).
      { intros p Lp. rewrite <- Ld at 1. change (length d) with (0 + length d).
        rewrite firstn_splice_end by lia. reflexivity. }
      assert (Ls : forall p, length p = 2 * Bs -> length (splice p 0 d) = 2 * Bs).
      { intros p Lp. rewrite length_splice; lia. }
      split.
      + unfold Rp; proj. repeat split; try reflexivity. rewrite (Sp _ T1), (Sp _ T2). reflexivity.
      + unfold Inv, typed, quiet in *; proj. rewrite Trc, Nat.add_0_r, (Ls _ T1), (Ls _ T2).
        rewrite (Nat.mod_small cl Bs Hcl). repeat split; auto; try lia. }
  destruct (negb ((len - cl) / Bs =? 0)); cbn [fst snd].
  - split; [rewrite E5; reflexivity|]. split; [exact Key|]. split; [reflexivity|discriminate].
  - split; [reflexivity|]. split; [exact Key|]. split; reflexivity.
Qed.

Lemma padded_rel c1 c2 :
  RI c1 c2 -> c_inc c1 = [] ->
  snd (padded c1) = snd (padded c2) /\ RI (fst (padded c1)) (fst (padded c2)).
Proof.
  intros (R & I1 & I2) Hi. pose proof Bpos as Bp.
  pose proof R as (E1 & E2 & E3 & E4 & E5 & E6 & E7).
  pose proof I1 as (T1 & P1 & Tr1 & D1 & Q1 & Lt1). pose proof I2 as (T2 & P2 & Tr2 & D2 & Q2 & Lt2).
  assert (Trp : tr (c_total c1) = c_plen c1).
  { rewrite Tr1, Hi. cbn [length]. rewrite Nat.add_0_r. apply Nat.mod_small. exact P1. }
  assert (Hf : firstn (tr (c_total c1)) (c_pbuf c1) = firstn (tr (c_total c1)) (c_pbuf c2)).
  { rewrite Trp. exact E7. }
  destruct (hash_pad_rel (c_pbuf c1) (c_pbuf c2) (c_total c1) Lt1 T1 T2 Hf) as (En & La & Lb & Ef & Hle).
  unfold padded. rewrite <- E1, <- E3, <- E4, <- E5, <- E6.
  destruct (hash_pad A (c_pbuf c1) (c_total c1)) as [b1 n1], (hash_pad A (c_pbuf c2) (c_total c1)) as [b2 n2].
  cbn [fst snd] in *. subst n2. split; [rewrite Ef; reflexivity|].
  assert (Ep : firstn (c_plen c1) b1 = firstn (c_plen c1) b2).
  { rewrite <- Trp.
    assert (X : forall bb : list N, firstn (tr (c_total c1)) bb = firstn (tr (c_total c1)) (firstn (n1 * Bs) bb)).
    { intros bb. rewrite firstn_firstn, Nat.min_l by exact Hle. reflexivity. }
    rewrite (X b1), (X b2), Ef. reflexivity. }
  split.
  - unfold Rp; proj. repeat split; try reflexivity. exact Ep.
  - unfold Inv, typed, quiet; proj. rewrite Hi. cbn [length]. rewrite Nat.add_0_r, Trp.
    rewrite (Nat.mod_small _ _ P1). repeat split; auto.
Qed.

Lemma ctx_next_rel b c1 c2 :
  crel b c1 c2 ->
  snd (ctx_next A c1) = snd (ctx_next A c2) /\ crel b (fst (ctx_next A c1)) (fst (ctx_next A c2)) /\
  (snd (ctx_next A c1) <> None -> c_digest (fst (ctx_next A c1)) = c_digest (fst (ctx_next A c2))).
Proof.
  intros Hr. rewrite !ctx_next_eq. rewrite <- (crel_status _ _ _ Hr).
  destruct Hr as [(Hb & S1 & S2 & E & T1 & T2)|RI0].
  - rewrite S1. change (has STS_COMPLETE STS_COMPLETE) with true. cbn [fst snd].
    split; [reflexivity|]. split; [|intros X; contradiction X; reflexivity].
    left. split; [exact Hb|]. unfold fresh3, typed, set_status, set_digest; proj. auto.
  - destruct (has (c_status c1) STS_COMPLETE) eqn:Ec.
    + cbn [fst snd]. split; [reflexivity|]. split; [|intros X; contradiction X; reflexivity].
      right. destruct RI0 as (R & I1 & I2).
      pose proof R as (E1 & E2 & E3 & E4 & E5 & E6 & E7).
      pose proof I1 as (T1 & P1 & Tr1 & D1 & Q1 & Lt1). pose proof I2 as (T2 & P2 & Tr2 & D2 & Q2 & Lt2).
      assert (Hi1 : c_inc c1 = []) by (apply Q1; unfold quiet; rewrite Ec; apply orb_true_r).
      assert (Hi2 : c_inc c2 = []) by (rewrite <- E5; exact Hi1).
      split; [|split].
      * unfold Rp, set_status, set_digest; proj. rewrite E1. repeat split; auto.
      * unfold Inv, typed, quiet, set_status, set_digest; proj. repeat split; auto.
      * unfold Inv, typed, quiet, set_status, set_digest; proj. repeat split; auto.
    + destruct (step1_rel c1 c2 RI0) as (Es & R1 & Est & Hnone).
      assert (Est2 : c_status (fst (step1 c2)) = c_status (fst (step1 c1))).
      { destruct R1 as ((_ & X & _) & _). symmetry. exact X. }
      destruct (step1 c1) as [d1 [bl1|]], (step1 c2) as [d2 [bl2|]]; cbn [fst snd] in *; try discriminate.
      * injection Es as <-. split; [reflexivity|]. split; [right; exact R1|].
        intros _. destruct R1 as ((X & _) & _). exact X.
      * rewrite Est2. destruct (has (c_status d1) STS_LAST).
        -- destruct (padded_rel d1 d2 R1 (Hnone eq_refl)) as (Ep & R2).
           split; [exact Ep|]. split; [right; exact R2|].
           intros _. destruct R2 as ((X & _) & _). exact X.
        -- cbn [fst snd]. split; [reflexivity|]. split; [|intros X; contradiction X; reflexivity].
           right. destruct R1 as (R & I1 & I2).
           pose proof R as (E1 & E2 & E3 & E4 & E5 & E6 & E7).
           pose proof I1 as (T1 & P1 & Tr1 & D1 & Q1 & Lt1). pose proof I2 as (T2 & P2 & Tr2 & D2 & Q2 & Lt2).
           pose proof (Hnone eq_refl) as Hi1. assert (Hi2 : c_inc d2 = []) by (rewrite <- E5; exact Hi1).
           split; [|split].
           ++ unfold Rp, set_status; proj. repeat split; auto.
           ++ unfold Inv, typed, quiet, set_status; proj. repeat split; auto.
           ++ unfold Inv, typed, quiet, set_status; proj. repeat split; auto.
Qed.

(* ---- states ------------------------------------------------------------------------------- *)

Definition SR (b : list bool) (s1 s2 : st) : Prop :=
  held s1 = held s2 /\ tick s1 = tick s2 /\ length (ctxs s1) = length (ctxs s2) /\
  forall i, crel (nth i b false) (getc s1 i) (getc s2 i).

Lemma getc_oob (s : st) i : length (ctxs s) <= i -> getc s i = dflt.
Proof. intros H. unfold HashCtx.getc. apply nth_overflow. exact H. Qed.

Lemma getc_setc_eq (s : st) i c : i < length (ctxs s) -> getc (setc s i c) i = c.
Proof. intros H. unfold HashCtx.getc, setc; cbn [ctxs]. apply nth_upd_eq. exact H. Qed.

Lemma getc_setc_neq (s : st) i j c : i <> j -> getc (setc s i c) j = getc s j.
Proof. intros H. unfold HashCtx.getc, setc; cbn [ctxs]. apply nth_upd_neq. exact H. Qed.

Lemma getc_setc_oob (s : st) i c : length (ctxs s) <= i -> getc (setc s i c) i = dflt.
Proof. intros H. apply getc_oob. unfold setc; cbn [ctxs]. rewrite length_upd. exact H. Qed.

Lemma SR_len b s1 s2 : SR b s1 s2 -> length (ctxs s1) = length (ctxs s2).
Proof. intros (_ & _ & L & _); exact L. Qed.

Lemma SR_get b s1 s2 i : SR b s1 s2 -> crel (nth i b false) (getc s1 i) (getc s2 i).
Proof. intros (_ & _ & _ & H); apply H. Qed.

Lemma SR_setc b s1 s2 i c1 c2 :
  SR b s1 s2 -> crel (nth i b false) c1 c2 -> SR b (setc s1 i c1) (setc s2 i c2).
Proof.
  intros (Hh & Ht & Hl & Hc) Hr. unfold SR. cbn [setc held tick ctxs].
  rewrite !length_upd. repeat split; try assumption.
  intros j. destruct (Nat.eq_dec i j) as [<-|Hn].
  - destruct (Nat.lt_ge_cases i (length (ctxs s1))) as [Hi|Hi].
    + rewrite getc_setc_eq by exact Hi. rewrite getc_setc_eq by (rewrite <- Hl; exact Hi). exact Hr.
    + rewrite getc_setc_oob by exact Hi. rewrite getc_setc_oob by (rewrite <- Hl; exact Hi). apply crel_dflt.
  - rewrite !getc_setc_neq by exact Hn. apply Hc.
Qed.

(* storing a started-related pair and marking the context started *)
Lemma SR_setc_mark b s1 s2 i c1 c2 :
  SR b s1 s2 -> RI c1 c2 -> SR (upd i true b) (setc s1 i c1) (setc s2 i c2).
Proof.
  intros (Hh & Ht & Hl & Hc) Hr. unfold SR. cbn [setc held tick ctxs].
  rewrite !length_upd. repeat split; try assumption.
  intros j. destruct (Nat.eq_dec i j) as [<-|Hn].
  - destruct (Nat.lt_ge_cases i (length (ctxs s1))) as [Hi|Hi].
    + rewrite getc_setc_eq by exact Hi. rewrite getc_setc_eq by (rewrite <- Hl; exact Hi). right. exact Hr.
    + rewrite getc_setc_oob by exact Hi. rewrite getc_setc_oob by (rewrite <- Hl; exact Hi). apply crel_dflt.
  - rewrite !getc_setc_neq by exact Hn. rewrite nth_upd_neq by exact Hn. apply Hc.
Qed.

Lemma setc_digest_get (s1 s2 : st) cid c1 c2 :
  length (ctxs s1) = length (ctxs s2) -> c_digest c1 = c_digest c2 ->
  c_digest (getc (setc s1 cid c1) cid) = c_digest (getc (setc s2 cid c2) cid).
Proof.
  intros Hl E. destruct (Nat.lt_ge_cases cid (length (ctxs s1))) as [Hi|Hi].
  - rewrite getc_setc_eq by exact Hi. rewrite getc_setc_eq by (rewrite <- Hl; exact Hi). exact E.
  - rewrite getc_setc_oob by exact Hi. rewrite getc_setc_oob by (rewrite <- Hl; exact Hi). reflexivity.
Qed.

Lemma hand_back_rel b s1 s2 i :
  SR b s1 s2 ->
  SR b (fst (hand_back A s1 i)) (fst (hand_back A s2 i)) /\
  snd (hand_back A s1 i) = snd (hand_back A s2 i).
Proof.
  intros H. pose proof H as (Hh & Ht & Hl & Hc). unfold hand_back. rewrite <- Hh.
  destruct (nth_error (held s1) i) as [j|]; cbn [fst snd]; [|split; [exact H|reflexivity]].
  split; [|reflexivity].
  pose proof (SR_setc b s1 s2 (j_ctx j) _ _ H (crel_set_digest _ _ _ (finish A j) (Hc (j_ctx j)))) as H2.
  destruct H2 as (_ & _ & Hl2 & Hc2). unfold SR. cbn [held tick ctxs].
  rewrite Ht. split; [reflexivity|]. split; [reflexivity|]. split; [exact Hl2|].
  intros k. exact (Hc2 k).
Qed.

Lemma choose_rel b s1 s2 : SR b s1 s2 -> choose sched s1 = choose sched s2.
Proof. intros (Hh & Ht & _). unfold choose. rewrite Hh, Ht. reflexivity. Qed.

Lemma SR_with_held b s1 s2 h t :
  SR b s1 s2 ->
  SR b {| ctxs := ctxs s1; held := h; tick := t |} {| ctxs := ctxs s2; held := h; tick := t |}.
Proof. intros (_ & _ & Hl & Hc). repeat split; try assumption. Qed.

Lemma mgr_submit_rel b s1 s2 j :
  SR b s1 s2 ->
  SR b (fst (mgr_submit A K sched s1 j)) (fst (mgr_submit A K sched s2 j)) /\
  snd (mgr_submit A K sched s1 j) = snd (mgr_submit A K sched s2 j).
Proof.
  intros H. pose proof H as (Hh & Ht & _). unfold mgr_submit.
  pose proof (SR_with_held b s1 s2 (held s1 ++ [j]) (tick s1) H) as H1.
  rewrite <- Hh, <- Ht.
  rewrite (choose_rel b _ _ H1).
  destruct (choose sched _) as [i|].
  - apply hand_back_rel. exact H1.
  - cbn [held]. destruct (K <=? length (held s1 ++ [j])).
    + apply hand_back_rel. exact H1.
    + cbn [fst snd ctxs held tick]. split; [|reflexivity].
      apply (SR_with_held b s1 s2 (held s1 ++ [j]) (S (tick s1)) H).
Qed.

Lemma mgr_flush_rel b s1 s2 :
  SR b s1 s2 ->
  SR b (fst (mgr_flush A sched s1)) (fst (mgr_flush A sched s2)) /\
  snd (mgr_flush A sched s1) = snd (mgr_flush A sched s2).
Proof.
  intros H. pose proof H as (Hh & _). unfold mgr_flush. rewrite <- Hh.
  destruct (held s1) eqn:E; [split; [exact H|reflexivity]|].
  rewrite (choose_rel b _ _ H). destruct (choose sched s2); apply hand_back_rel; exact H.
Qed.

Lemma submit_job_rel b s1 s2 cid blocks :
  SR b s1 s2 -> c_digest (getc s1 cid) = c_digest (getc s2 cid) ->
  SR b (fst (submit_job A K sched s1 cid blocks)) (fst (submit_job A K sched s2 cid blocks)) /\
  snd (submit_job A K sched s1 cid blocks) = snd (submit_job A K sched s2 cid blocks).
Proof. intros H E. unfold submit_job. rewrite E. apply mgr_submit_rel. exact H. Qed.

Lemma resubmit_rel b : forall fuel s1 s2 cur,
  SR b s1 s2 ->
  SR b (fst (resubmit A K sched fuel s1 cur)) (fst (resubmit A K sched fuel s2 cur)) /\
  snd (resubmit A K sched fuel s1 cur) = snd (resubmit A K sched fuel s2 cur).
Proof.
  induction fuel as [|f IH]; intros s1 s2 cur H.
  - destruct cur; cbn [resubmit fst snd]; split; (exact H || reflexivity).
  - destruct cur as [cid|]; cbn [resubmit]; [|cbn [fst snd]; split; [exact H|reflexivity]].
    destruct (ctx_next_rel _ _ _ (SR_get b s1 s2 cid H)) as (Es & Ec & Ee).
    destruct (ctx_next A (getc s1 cid)) as [c1' [bl1|]], (ctx_next A (getc s2 cid)) as [c2' [bl2|]];
      cbn [fst snd] in *; try discriminate.
    + injection Es as <-.
      pose proof (SR_setc b s1 s2 cid c1' c2' H Ec) as H2.
      assert (Ed : c_digest (getc (setc s1 cid c1') cid) = c_digest (getc (setc s2 cid c2') cid)).
      { apply setc_digest_get; [apply (SR_len _ _ _ H)|]. apply Ee. discriminate. }
      destruct (submit_job_rel b _ _ cid bl1 H2 Ed) as (H3 & E3).
      destruct (submit_job A K sched (setc s1 cid c1') cid bl1) as [t1 r1],
               (submit_job A K sched (setc s2 cid c2') cid bl1) as [t2 r2]. cbn [fst snd] in *. subst r2.
      apply IH. exact H3.
    + split; [|reflexivity]. apply SR_setc; assumption.
Qed.

Lemma fuel_for_rel b s1 s2 : SR b s1 s2 -> fuel_for s1 = fuel_for s2.
Proof. intros (Hh & _). unfold fuel_for. rewrite Hh. reflexivity. Qed.

Lemma ctx_submit_rel b s1 s2 cid buf flags :
  SR b s1 s2 ->
  let b' := mark b (accepted A s1 (Submit cid buf flags)) in
  accepted A s1 (Submit cid buf flags) = accepted A s2 (Submit cid buf flags) /\
  SR b' (fst (ctx_submit A K sched s1 cid buf flags)) (fst (ctx_submit A K sched s2 cid buf flags)) /\
  snd (ctx_submit A K sched s1 cid buf flags) = snd (ctx_submit A K sched s2 cid buf flags).
Proof.
  intros H. cbn zeta. unfold accepted, ctx_submit.
  pose proof (ctx_accept_rel _ _ _ buf flags (SR_get b s1 s2 cid H)) as Ev.
  destruct (ctx_accept A (getc s1 cid) buf flags) as [e1|c1' j1],
           (ctx_accept A (getc s2 cid) buf flags) as [e2|c2' j2]; cbn [vrel] in Ev; try contradiction.
  - subst e2. cbn [mark]. split; [reflexivity|]. cbn [fst snd]. split; [|reflexivity].
    apply SR_setc; [exact H|]. apply crel_set_error. apply (SR_get b s1 s2 cid H).
  - destruct Ev as (<- & R & I1 & I2). cbn [mark]. split; [reflexivity|].
    pose proof (SR_setc_mark b s1 s2 cid c1' c2' H (conj R (conj I1 I2))) as H3.
    destruct j1 as [blocks|].
    + assert (Ed : c_digest (getc (setc s1 cid c1') cid) = c_digest (getc (setc s2 cid c2') cid)).
      { apply setc_digest_get; [apply (SR_len _ _ _ H)|]. destruct R as (X & _). exact X. }
      destruct (submit_job_rel _ _ _ cid blocks H3 Ed) as (H4 & E4).
      destruct (submit_job A K sched (setc s1 cid c1') cid blocks) as [t1 r1],
               (submit_job A K sched (setc s2 cid c2') cid blocks) as [t2 r2]. cbn [fst snd] in *. subst r2.
      rewrite (fuel_for_rel _ _ _ H4). apply resubmit_rel. exact H4.
    + rewrite (fuel_for_rel _ _ _ H). apply resubmit_rel. exact H3.
Qed.

Lemma ctx_flush_f_rel b : forall fuel s1 s2,
  SR b s1 s2 ->
  SR b (fst (ctx_flush_f A K sched fuel s1)) (fst (ctx_flush_f A K sched fuel s2)) /\
  snd (ctx_flush_f A K sched fuel s1) = snd (ctx_flush_f A K sched fuel s2).
Proof.
  induction fuel as [|f IH]; intros s1 s2 H; cbn [ctx_flush_f].
  - cbn [fst snd]. split; [exact H|reflexivity].
  - destruct (mgr_flush_rel b s1 s2 H) as (H1 & E1).
    destruct (mgr_flush A sched s1) as [t1 r1], (mgr_flush A sched s2) as [t2 r2]. cbn [fst snd] in *. subst r2.
    destruct r1 as [cid|]; [|cbn [fst snd]; split; [exact H1|reflexivity]].
    rewrite (fuel_for_rel _ _ _ H1).
    destruct (resubmit_rel b (fuel_for t2) t1 t2 (Some cid) H1) as (H2 & E2).
    destruct (resubmit A K sched (fuel_for t2) t1 (Some cid)) as [u1 o1],
             (resubmit A K sched (fuel_for t2) t2 (Some cid)) as [u2 o2]. cbn [fst snd] in *. subst o2.
    destruct o1 as [[r|]|]; try (cbn [fst snd]; split; [exact H2|reflexivity]).
    apply IH. exact H2.
Qed.

Lemma observe_rel b s1 s2 out rc1 rc2 :
  SR b s1 s2 -> rc1 = rc2 -> observe A b s1 out rc1 = observe A b s2 out rc2.
Proof.
  intros H <-. destruct out as [[r|]|]; cbn [observe]; try reflexivity.
  pose proof (SR_get b s1 s2 r H) as Hr.
  rewrite (crel_status _ _ _ Hr), (crel_error _ _ _ Hr).
  destruct (nth r b false) eqn:Eb; [|reflexivity].
  destruct (crel_started _ _ Hr) as (Ed & Et). rewrite Ed, Et. reflexivity.
Qed.

Lemma step_rel b s1 s2 o :
  SR b s1 s2 ->
  let b' := mark b (accepted A s1 o) in
  accepted A s1 o = accepted A s2 o /\
  SR b' (fst (fst (step A K sched s1 o))) (fst (fst (step A K sched s2 o))) /\
  observe A b' (fst (fst (step A K sched s1 o))) (snd (fst (step A K sched s1 o))) (snd (step A K sched s1 o)) =
  observe A b' (fst (fst (step A K sched s2 o))) (snd (fst (step A K sched s2 o))) (snd (step A K sched s2 o)).
Proof.
  intros H. destruct o as [cid buf flags|]; cbn zeta.
  - destruct (ctx_submit_rel b s1 s2 cid buf flags H) as (Ea & Hs & Eo).
    split; [exact Ea|]. cbn [step]. unfold api_submit.
    destruct (ctx_submit A K sched s1 cid buf flags) as [t1 o1],
             (ctx_submit A K sched s2 cid buf flags) as [t2 o2]. cbn [fst snd] in *. subst o2.
    split; [exact Hs|].
    apply observe_rel; [exact Hs|].
    destruct o1 as [[r|]|]; try reflexivity.
    destruct (r =? cid); [|reflexivity].
    rewrite (crel_error _ _ _ (SR_get _ t1 t2 r Hs)). reflexivity.
  - split; [reflexivity|]. cbn [step accepted mark]. unfold ctx_flush.
    rewrite (fuel_for_rel _ _ _ H).
    destruct (ctx_flush_f_rel b (fuel_for s2) s1 s2 H) as (Hs & Eo).
    destruct (ctx_flush_f A K sched (fuel_for s2) s1) as [t1 o1],
             (ctx_flush_f A K sched (fuel_for s2) s2) as [t2 o2]. cbn [fst snd] in *. subst o2.
    split; [exact Hs|]. apply observe_rel; [exact Hs|reflexivity].
Qed.

Lemma run20_rel : forall ops b s1 s2,
  SR b s1 s2 -> run20 A K sched s1 b ops = run20 A K sched s2 b ops.
Proof.
  induction ops as [|o r IH]; intros b s1 s2 H; [reflexivity|].
  cbn [run20]. destruct (step_rel b s1 s2 o H) as (Ea & Hs & Eobs). rewrite <- Ea.
  destruct (step A K sched s1 o) as [[t1 o1] rc1], (step A K sched s2 o) as [[t2 o2] rc2].
  cbn [fst snd] in *. rewrite Eobs. f_equal. apply IH. exact Hs.
Qed.

(* ---- the initial states ---------------------------------------------------------------- *)

Lemma init_SR junk1 junk2 :
  length junk1 = length junk2 -> Forall typed junk1 -> Forall typed junk2 ->
  SR (none_started (length junk1)) (init20 junk1) (init20 junk2).
Proof.
  intros Hl F1 F2. unfold SR, init20, mgr_init. cbn [held tick ctxs]. rewrite !map_length.
  repeat split; try reflexivity; try exact Hl.
  intros i. unfold HashCtx.getc; cbn [ctxs].
  destruct (Nat.lt_ge_cases i (length junk1)) as [Hi|Hi].
  - left. split; [unfold none_started; apply nth_repeat|].
    rewrite (nth_indep _ dflt (ctx_init dflt)) by (rewrite map_length; exact Hi).
    rewrite (nth_indep (map ctx_init junk2) dflt (ctx_init dflt)) by (rewrite map_length, <- Hl; exact Hi).
    rewrite !map_nth. unfold fresh3, typed, ctx_init, set_error, set_status; cbn.
    rewrite Forall_forall in F1, F2.
    repeat split; try reflexivity.
    + apply (F1 (nth i junk1 dflt)). apply nth_In. exact Hi.
    + apply (F2 (nth i junk2 dflt)). apply nth_In. rewrite <- Hl. exact Hi.
  - rewrite (nth_overflow (map ctx_init junk1)), (nth_overflow (map ctx_init junk2)) by (rewrite map_length; lia).
    apply crel_dflt.
Qed.

(* THE THEOREM, full strength: the memories in which the n contexts were initialised are
   arbitrary in every field; only the size of the partial block buffer (a C array of 2*B
   bytes) is fixed. *)
Theorem hash_ctx_noninterference_full junk1 junk2 ops :
  length junk1 = length junk2 -> Forall typed junk1 -> Forall typed junk2 ->
  run20 A K sched (init20 junk1) (none_started (length junk1)) ops =
  run20 A K sched (init20 junk2) (none_started (length junk1)) ops.
Proof. intros Hl F1 F2. apply run20_rel. apply init_SR; assumption. Qed.

End Full.
