(* The XTS length constants of include/aes_xts.h (regenerated into Gen/AesCfgGen.v on every
   run): the documented minimum is the model's threshold 16, the maximum 2^24. *)
From Coq Require Import NArith.
From ISAL Require Import Gen.AesCfgGen.

Lemma c_cfg_xts_min_len : isal_aes_xts_min_len_src = 16%N /\ isal_aes_xts_max_len_src = (2 ^ 24)%N.
Proof. split; reflexivity. Qed.
