From Coq Require Import List Arith Lia NArith.
From ISAL Require Import Base.ListUtil.
Import ListNotations.

Lemma lastn_all {A} n (l : list A) : length l <= n -> lastn n l = l.
Proof. intros H. unfold lastn. replace (length l - n) with 0 by lia. reflexivity. Qed.

Lemma length_lastn {A} n (l : list A) : length (lastn n l) = Nat.min n (length l).
Proof. unfold lastn. rewrite skipn_length. lia. Qed.

Lemma skipn_app_le {A} n (a b : list A) : n <= length a -> skipn n (a ++ b) = skipn n a ++ b.
Proof. intros H. rewrite skipn_app. replace (n - length a) with 0 by lia. reflexivity. Qed.

Lemma skipn_app_ge {A} n (a b : list A) : length a <= n -> skipn n (a ++ b) = skipn (n - length a) b.
Proof. intros H. rewrite skipn_app. rewrite (skipn_all2 a) by lia. reflexivity. Qed.

Lemma skipn_skipn' {A} n m (l : list A) : skipn n (skipn m l) = skipn (m + n) l.
Proof.
  revert l. induction m as [|m IH]; intros l; [reflexivity|].
  destruct l as [|a l]; [rewrite !skipn_nil; reflexivity|]. cbn [skipn plus]. apply IH.
Qed.

Lemma lastn_app_lastn {A} n (a b : list A) : lastn n (a ++ b) = lastn n (lastn n a ++ b).
Proof.
  unfold lastn. rewrite !app_length, skipn_length.
  destruct (Nat.le_gt_cases n (length b)) as [H|H].
  - rewrite !skipn_app_ge by (rewrite ?skipn_length; lia). rewrite skipn_length. f_equal. lia.
  - destruct (Nat.le_gt_cases (length a + length b) n) as [H2|H2].
    + replace (length a + length b - n) with 0 by lia.
      replace (length a - n) with 0 by lia. cbn [skipn].
      replace (length a - 0 + length b - n) with 0 by lia. reflexivity.
    + rewrite !skipn_app_le by (rewrite ?skipn_length; lia).
      f_equal. rewrite skipn_skipn'. f_equal. lia.
Qed.

Lemma lastn_app_r {A} n (a b : list A) : n <= length b -> lastn n (a ++ b) = lastn n b.
Proof.
  intros H. unfold lastn. rewrite app_length. rewrite skipn_app_ge by lia. f_equal. lia.
Qed.

Lemma lastn_cons_snoc {A} n (o : A) t b : length (o :: t) = n -> lastn n ((o :: t) ++ [b]) = t ++ [b].
Proof.
  intros H. unfold lastn. rewrite app_length. cbn [length] in *.
  replace (S (length t) + 1 - n) with 1 by lia. reflexivity.
Qed.

Lemma firstn_snoc {A} (l : list A) n d : n < length l -> firstn (S n) l = firstn n l ++ [nth n l d].
Proof.
  revert n. induction l as [|a l IH]; intros n H; cbn [length] in H; [lia|].
  destruct n as [|n]; [reflexivity|]. cbn [firstn nth app]. rewrite <- IH by lia. reflexivity.
Qed.
