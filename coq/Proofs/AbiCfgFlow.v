(* Proofs/AbiCfgFlow.v — soundness of the invariant verifier of Model/AbiCfg.v, generic in the
   abstract domain: if `analyse` accepts a function then every finite execution of its CFG
   (any branch outcomes, any number of loop iterations) that reaches an exit terminator does
   so in a concrete state described by an abstract state that the terminator check accepted. *)
From Coq Require Import ZArith NArith PArith List Bool FMapPositive.
From ISAL Require Import Model.AbiCfg.
Import ListNotations.

Section Flow.
  Variables A C : Type.
  Variable tfb : block -> A -> option A.
  Variable refine : term -> bool -> A -> A.
  Variable join widen : A -> A -> A.
  Variable leq : A -> A -> bool.
  Variable term_ok : term -> A -> bool.
  Variable gamma : A -> C -> Prop.
  Variable bstep : block -> C -> C -> Prop.        (* concrete execution of a block body *)
  Variable cond : term -> bool -> C -> Prop.       (* when may edge e (true = taken) of a terminator be followed *)
  Hypothesis refine_sound : forall tm e a c, gamma a c -> cond tm e c -> gamma (refine tm e a) c.
  Hypothesis tfb_sound : forall b a a' c c',
    tfb b a = Some a' -> gamma a c -> bstep b c c' -> gamma a' c'.
  Hypothesis leq_sound : forall a b c, leq a b = true -> gamma a c -> gamma b c.

  (* run cfg b c tm c' : started at the beginning of block b in state c, control reaches a
     block whose terminator tm leaves the CFG (ret, tail jump, halt, not-understood), in
     state c' just before that terminator *)
  Inductive run (cfg : PM.t block) : positive -> C -> term -> C -> Prop :=
  | run_exit : forall b blk c c',
      PM.find b cfg = Some blk -> bstep blk c c' -> succs (bt blk) = [] ->
      run cfg b c (bt blk) c'
  | run_step : forall b blk c c1 t tm c',
      PM.find b cfg = Some blk -> bstep blk c c1 -> forall e, In (e, t) (succs (bt blk)) ->
      cond (bt blk) e c1 ->
      run cfg t c1 tm c' -> run cfg b c tm c'.

  Lemma verify_block : forall cfg init inv b blk a,
    verify A tfb refine leq term_ok cfg init inv = true ->
    PM.find b cfg = Some blk -> PM.find b inv = Some a ->
    exists out, tfb blk a = Some out /\ term_ok (bt blk) out = true /\
      forall e t, In (e, t) (succs (bt blk)) ->
        exists a', PM.find t inv = Some a' /\ leq (refine (bt blk) e out) a' = true.
  Proof.
    intros cfg init inv b blk a Hv Hc Hi.
    unfold verify in Hv. apply andb_true_iff in Hv. destruct Hv as [_ Hv].
    rewrite forallb_forall in Hv.
    specialize (Hv (b, blk) (PM.elements_correct cfg b Hc)).
    unfold block_ok in Hv. cbn [fst snd] in Hv. rewrite Hi in Hv.
    destruct (tfb blk a) as [out|]; [|discriminate].
    apply andb_true_iff in Hv. destruct Hv as [H1 H2].
    exists out. split; [reflexivity|]. split; [exact H1|].
    intros e t Ht. rewrite forallb_forall in H2. specialize (H2 (e, t) Ht). cbn [fst snd] in H2.
    destruct (PM.find t inv) as [a'|]; [|discriminate]. exists a'. auto.
  Qed.

  Lemma run_sound : forall cfg init inv,
    verify A tfb refine leq term_ok cfg init inv = true ->
    forall b c tm c', run cfg b c tm c' ->
    forall a, PM.find b inv = Some a -> gamma a c ->
    exists a', gamma a' c' /\ term_ok tm a' = true.
  Proof.
    intros cfg init inv Hv b c tm c' Hrun.
    induction Hrun as [b blk c c' Hc Hs Hsucc | b blk c c1 t tm c' Hc Hs e Ht Hcond Hrun IH]; intros a Hi Hg.
    - destruct (verify_block _ _ _ _ _ _ Hv Hc Hi) as [out [H1 [H2 _]]].
      exists out. split; [eapply tfb_sound; eauto | exact H2].
    - destruct (verify_block _ _ _ _ _ _ Hv Hc Hi) as [out [H1 [_ H3]]].
      destruct (H3 e t Ht) as [a' [Ha' Hl]].
      apply (IH a' Ha'). eapply leq_sound; [exact Hl|]. apply refine_sound; auto. eapply tfb_sound; eauto.
  Qed.

  Theorem analyse_sound : forall f init,
    analyse A tfb refine join widen leq term_ok f init = true ->
    forall c tm c', gamma init c -> run (cfg_of f) 1%positive c tm c' ->
    exists a', gamma a' c' /\ term_ok tm a' = true.
  Proof.
    intros f init Han c tm c' Hg Hrun. unfold analyse in Han.
    destruct (solve A tfb refine join widen leq _ (cfg_of f) _ _ _) as [inv|] eqn:Es; [|discriminate].
    pose proof Han as Hv. unfold verify in Han.
    apply andb_true_iff in Han. destruct Han as [H1 _].
    destruct (PM.find 1%positive inv) as [a1|] eqn:E1; [|discriminate].
    eapply run_sound; eauto.
  Qed.
End Flow.
