(* Single-context facts of the hash context layer: what ctx_accept and ctx_next (one pass
   of the resubmit loop) do to one context, stated against the stream accepted so far.
   No manager here; Proofs/HashRefine.v adds the manager and the loops. *)
From Coq Require Import NArith List Arith Lia Bool.
From ISAL Require Import Base.Words Base.ListUtil Spec.MD Spec.HashApiSpec Model.HashCtx
  Proofs.WordsFacts Proofs.ListFacts Proofs.ChunkFacts Proofs.HashPadFacts.
Import ListNotations.

Section CtxFacts.
Variable A : algo.
Hypothesis WF : algo_wf A.

Notation Bz := (B A).

(* chaining value after the whole blocks [pre] *)
Definition chain (pre : list N) : list N := fold_left (a_compress A) (chunks Bz pre) (a_iv A).
Definition blockal (l : list N) : Prop := exists k, length l = k * Bz.
Definition small (sg : list N) : Prop := (N.of_nat (length sg) < 2 ^ 61)%N.

Lemma blockal_nil : blockal [].
Proof. exists 0. reflexivity. Qed.

Lemma blockal_app a b : blockal a -> blockal b -> blockal (a ++ b).
Proof. intros [k Hk] [m Hm]. exists (k + m). rewrite app_length, Hk, Hm. lia. Qed.

Lemma blockal_exact l : length l = Bz -> blockal l.
Proof. intros H. exists 1. lia. Qed.

Lemma chain_nil : chain [] = a_iv A.
Proof. reflexivity. Qed.

Lemma chain_app pre body : blockal pre ->
  fold_left (a_compress A) (chunks Bz body) (chain pre) = chain (pre ++ body).
Proof.
  intros Hp. unfold chain. rewrite (chunks_app Bz pre body (B_pos A WF) Hp).
  rewrite fold_left_app. reflexivity.
Qed.

Lemma md_chain_split pre tail : blockal pre ->
  md_chain A (pre ++ tail) =
  fold_left (a_compress A) (chunks Bz (tail ++ md_pad A (length (pre ++ tail)))) (chain pre).
Proof.
  intros Hp. unfold md_chain, md_blocks. fold Bz. rewrite <- app_assoc.
  rewrite (chunks_app Bz pre _ (B_pos A WF) Hp). rewrite fold_left_app. reflexivity.
Qed.

Lemma blockal_mod pre x : blockal pre -> x < Bz -> (length pre + x) mod Bz = x.
Proof.
  intros [k Hk] Hx. rewrite Hk, Nat.add_comm, Nat.mod_add by (pose proof (B_pos A WF); lia).
  apply Nat.mod_small. exact Hx.
Qed.

(* ---- what the fields of a context mean, relative to the stream [sg] accepted for it
        since its last FIRST ------------------------------------------------------------ *)

(* the not yet hashed bytes are the partial block buffer prefix followed by the rest of the
   user's buffer; [d] is the chaining value after the hashed whole blocks *)
Definition data_ok (c : ctx) (sg : list N) (d : list N) : Prop :=
  c_plen c < Bz /\ (c_plen c = 0 \/ c_inc c = []) /\
  exists pre, sg = pre ++ firstn (c_plen c) (c_pbuf c) ++ c_inc c /\ blockal pre /\ d = chain pre.

(* a context being processed: either still in its data phase, or its padding blocks are
   the job in flight.  [d] is the chaining value the context has, or will have when the job
   in flight for it is handed back *)
Definition proc_ok (c : ctx) (sg : list N) (last : bool) (d : list N) : Prop :=
  length (c_pbuf c) = 2 * Bz /\ c_total c = w64 (N.of_nat (length sg)) /\
  ((c_status c = (if last then 3 else 1)%N /\ data_ok c sg d) \/
   (c_status c = 5%N /\ last = true /\ (small sg -> d = md_chain A sg))).

(* a context the caller owns *)
Definition rest_ok (c : ctx) (ac : actx) : Prop :=
  length (c_pbuf c) = 2 * Bz /\
  match s_phase ac with
  | ANew => c_status c = 4%N
  | AComplete => c_status c = 4%N /\ c_total c = w64 (N.of_nat (length (s_stream ac))) /\
                 (small (s_stream ac) -> c_digest c = md_hash A (s_stream ac))
  | AIdle => c_status c = 0%N /\ c_total c = w64 (N.of_nat (length (s_stream ac))) /\
             c_inc c = [] /\ data_ok c (s_stream ac) (c_digest c)
  | AFlight _ => False
  end.

(* jobs the context will still submit: a function of the context alone *)
Definition rem (c : ctx) : nat :=
  if has (c_status c) STS_COMPLETE then 0
  else (if ((c_plen c =? 0) && (Bz <=? length (c_inc c)))%bool then 1 else 0) +
       (if has (c_status c) STS_LAST then 1 else 0).

Lemma rem_le2 c : rem c <= 2.
Proof.
  unfold rem. destruct (has (c_status c) STS_COMPLETE); [lia|].
  destruct ((c_plen c =? 0) && (Bz <=? length (c_inc c)))%bool; destruct (has (c_status c) STS_LAST); lia.
Qed.

Lemma rem_set_digest c d : rem (set_digest c d) = rem c.
Proof. reflexivity. Qed.

Lemma rem_set_error c e : rem (set_error c e) = rem c.
Proof. reflexivity. Qed.

Lemma proc_ok_set_digest c sg l d d' : proc_ok c sg l d -> proc_ok (set_digest c d') sg l d.
Proof. intros H. exact H. Qed.

Lemma proc_ok_set_error c sg l d e : proc_ok c sg l d -> proc_ok (set_error c e) sg l d.
Proof. intros H. exact H. Qed.

Lemma rest_ok_set_error c ac e : rest_ok c ac -> rest_ok (set_error c e) ac.
Proof. intros H. exact H. Qed.

(* ---- ctx_accept --------------------------------------------------------------------- *)

Lemma status_cases (l : bool) : has (if l then 3 else 1)%N STS_COMPLETE = false /\
  has (if l then 3 else 1)%N STS_PROCESSING = true /\ has (if l then 3 else 1)%N STS_LAST = l.
Proof. destruct l; repeat split; reflexivity. Qed.

(* the rejection rule of the model agrees with the rejection rule of the L0 acceptor *)
Definition is_accept (v : verdict) : Prop := exists c' jo, v = Accept c' jo.

Lemma is_accept_if (b : bool) x y : is_accept x -> is_accept y -> is_accept (if b then x else y).
Proof. destruct b; auto. Qed.

Lemma is_accept_Accept c' jo : is_accept (Accept c' jo).
Proof. eexists; eexists; reflexivity. Qed.

Lemma accept_rejection (c : ctx) (ac : actx) buf flags :
  match s_phase ac with
  | AFlight _ => has (c_status c) STS_PROCESSING = true
  | ANew | AComplete => c_status c = 4%N
  | AIdle => c_status c = 0%N
  end ->
  match rejection ac flags with
  | Some e => ctx_accept A c buf flags = Reject e
  | None => is_accept (ctx_accept A c buf flags)
  end.
Proof.
  intros Hst. unfold rejection, ctx_accept, flag_bad, flag_first.
  change FLAG_ENTIRE with 3%N. change FLAG_FIRST with 1%N. cbv zeta.
  destruct (negb (N.land flags (N.lnot 3 32) =? 0)%N); [reflexivity|].
  destruct (s_phase ac).
  - rewrite Hst. change (has 4 STS_PROCESSING) with false. change (has 4 STS_COMPLETE) with true.
    cbn [andb]. unfold has.
    destruct (negb (N.land flags 1 =? 0)%N); cbn [negb]; [|reflexivity].
    repeat (apply is_accept_if || apply is_accept_Accept).
  - rewrite Hst. change (has 4 STS_PROCESSING) with false. change (has 4 STS_COMPLETE) with true.
    cbn [andb]. unfold has.
    destruct (negb (N.land flags 1 =? 0)%N); cbn [negb]; [|reflexivity].
    repeat (apply is_accept_if || apply is_accept_Accept).
  - rewrite Hst. change (has 0 STS_PROCESSING) with false. change (has 0 STS_COMPLETE) with false.
    cbn [andb].
    repeat (apply is_accept_if || apply is_accept_Accept).
  - rewrite Hst. reflexivity.
Qed.

Lemma w64_add_l a b : w64 (w64 a + b) = w64 (a + b).
Proof. unfold w64. rewrite !wrap_mod. apply N.add_mod_idemp_l. discriminate. Qed.

Lemma firstn_firstn_app_skipn {X} n (l : list X) : firstn n l ++ skipn n l = l.
Proof. apply firstn_skipn. Qed.

Lemma accept_ok c sg buf flags c' jo :
  ctx_accept A c buf flags = Accept c' jo ->
  length (c_pbuf c) = 2 * Bz ->
  (has flags FLAG_FIRST = false ->
     c_total c = w64 (N.of_nat (length sg)) /\ c_inc c = [] /\ data_ok c sg (c_digest c)) ->
  let sg' := (if has flags FLAG_FIRST then [] else sg) ++ buf in
  let l := has flags FLAG_LAST in
  c_error c' = 0%N /\
  match jo with
  | None => proc_ok c' sg' l (c_digest c')
  | Some blocks => proc_ok c' sg' l (fold_left (a_compress A) blocks (c_digest c'))
  end.
Proof.
  intros H Hlen Hidle sg' l. pose proof (B_pos A WF) as Bp.
  unfold ctx_accept in H. cbv zeta in H.
  destruct (negb (N.land flags (N.lnot FLAG_ENTIRE 32) =? 0)%N); [discriminate|].
  destruct (has (c_status c) STS_PROCESSING); [discriminate|].
  destruct (has (c_status c) STS_COMPLETE && negb (has flags FLAG_FIRST))%bool; [discriminate|].
  fold l in H.
  set (first := has flags FLAG_FIRST) in *.
  set (plen0 := if first then 0 else c_plen c) in *.
  set (d0 := if first then a_iv A else c_digest c) in *.
  set (t1 := w64 ((if first then 0 else c_total c) + N.of_nat (length buf))) in *.
  set (sg0 := if first then [] else sg) in *.
  set (st1 := if l then N.lor STS_PROCESSING STS_LAST else STS_PROCESSING) in *.
  assert (Est : st1 = (if l then 3 else 1)%N) by (unfold st1; destruct l; reflexivity).
  assert (G : plen0 < Bz /\ exists pre, sg0 = pre ++ firstn plen0 (c_pbuf c) /\ blockal pre /\ d0 = chain pre).
  { unfold plen0, sg0, d0. destruct first.
    - split; [lia|]. exists []. repeat split; [apply blockal_nil].
    - destruct (Hidle eq_refl) as (_ & Hinc & Hp & _ & pre & E & Hb & Hd).
      split; [exact Hp|]. exists pre. rewrite Hinc, app_nil_r in E. auto. }
  assert (Et : t1 = w64 (N.of_nat (length sg'))).
  { unfold t1, sg'. fold sg0. rewrite app_length, Nat2N.inj_add. unfold sg0. destruct first.
    - reflexivity.
    - destruct (Hidle eq_refl) as (Ht & _). rewrite Ht. apply w64_add_l. }
  fold sg0 in sg'.
  destruct G as (Hp0 & pre & Esg & Hb & Hd).
  clearbody plen0 d0 t1 sg0 st1. clear Hidle. subst st1 t1.
  assert (Esg' : sg' = pre ++ firstn plen0 (c_pbuf c) ++ buf).
  { unfold sg'. rewrite Esg, <- app_assoc. reflexivity. }
  clearbody sg'. clear Esg sg0.
  destruct (negb (plen0 =? 0) || (length buf <? Bz))%bool eqn:Cond.
  - (* bytes go through the partial block buffer *)
    set (cl := Nat.min (Bz - plen0) (length buf)) in *.
    assert (Hcl : cl <= length buf /\ plen0 + cl <= Bz) by (unfold cl; lia).
    destruct (cl =? 0) eqn:Ecl.
    + apply Nat.eqb_eq in Ecl.
      assert (Hb0 : buf = []) by (destruct buf; [reflexivity|cbn [length] in *; unfold cl in Ecl; lia]).
      cbn [c_plen] in H.
      destruct (Bz <=? plen0) eqn:EB; [apply Nat.leb_le in EB; lia|].
      injection H as <- <-. cbn [c_error c_digest]. split; [reflexivity|].
      split; [exact Hlen|]. split; [reflexivity|]. left. split; [reflexivity|].
      split; [exact Hp0|]. split; [right; exact Hb0|].
      exists pre. cbn [c_plen c_pbuf c_inc]. auto.
    + apply Nat.eqb_neq in Ecl. cbn [c_plen c_pbuf c_inc c_digest c_status c_error c_total] in H.
      set (pb := splice (c_pbuf c) plen0 (firstn cl buf)) in *.
      assert (Lf : length (firstn cl buf) = cl) by (rewrite firstn_length; lia).
      assert (Lpb : length pb = 2 * Bz) by (unfold pb; rewrite length_splice; lia).
      assert (Fpb : firstn (plen0 + cl) pb = firstn plen0 (c_pbuf c) ++ firstn cl buf).
      { unfold pb. rewrite <- Lf at 1. apply firstn_splice_end. lia. }
      destruct (Bz <=? plen0 + cl) eqn:EB.
      * apply Nat.leb_le in EB. assert (EBl : plen0 + cl = Bz) by lia.
        injection H as <- <-. cbn [c_error c_digest]. split; [reflexivity|].
        split; [exact Lpb|]. split; [reflexivity|]. left. split; [reflexivity|].
        unfold data_ok; cbn [c_plen c_pbuf c_inc]. split; [lia|]. split; [left; reflexivity|].
        exists (pre ++ firstn Bz pb). split; [|split].
        -- rewrite Esg'. rewrite <- EBl, Fpb. cbn [firstn app].
           rewrite <- !app_assoc. rewrite firstn_skipn. reflexivity.
        -- apply blockal_app; [exact Hb|]. apply blockal_exact. rewrite firstn_length. lia.
        -- rewrite <- chain_app by exact Hb. rewrite Hd.
           rewrite chunks_exact by (rewrite ?firstn_length; lia). reflexivity.
      * apply Nat.leb_gt in EB.
        assert (Ecl2 : cl = length buf) by (unfold cl in *; lia).
        injection H as <- <-. cbn [c_error c_digest]. split; [reflexivity|].
        split; [exact Lpb|]. split; [reflexivity|]. left. split; [reflexivity|].
        unfold data_ok; cbn [c_plen c_pbuf c_inc]. split; [lia|]. split; [right; rewrite Ecl2; apply skipn_all|].
        exists pre. split; [|split; assumption].
        rewrite Esg', Fpb. rewrite <- app_assoc. rewrite firstn_skipn. reflexivity.
  - (* whole blocks straight from the user's buffer *)
    apply orb_false_iff in Cond. destruct Cond as [C1 C2].
    apply negb_false_iff, Nat.eqb_eq in C1. apply Nat.ltb_ge in C2.
    injection H as <- <-. cbn [c_error c_digest]. split; [reflexivity|].
    split; [exact Hlen|]. split; [reflexivity|]. left. split; [reflexivity|].
    unfold data_ok; cbn [c_plen c_pbuf c_inc]. split; [lia|]. split; [left; exact C1|].
    exists pre. auto.
Qed.

(* ---- ctx_next: one pass of the resubmit loop ------------------------------------------ *)

Lemma whole_blocks len : len - len mod Bz = len / Bz * Bz /\ (len - len mod Bz) / Bz = len / Bz.
Proof.
  pose proof (B_pos A WF) as Bp.
  pose proof (Nat.div_mod len Bz ltac:(lia)) as D. rewrite (Nat.mul_comm Bz) in D.
  assert (E : len - len mod Bz = len / Bz * Bz).
  { set (q := len / Bz * Bz) in *. set (r := len mod Bz) in *. clearbody q r. lia. }
  split; [exact E|]. rewrite E. apply Nat.div_mul. lia.
Qed.

Lemma next_ok c sg l :
  proc_ok c sg l (c_digest c) ->
  match ctx_next A c with
  | (c', Some blocks) =>
      proc_ok c' sg l (fold_left (a_compress A) blocks (c_digest c')) /\ S (rem c') = rem c /\
      c_error c' = c_error c
  | (c', None) =>
      c_error c' = c_error c /\ length (c_pbuf c') = 2 * Bz /\
      c_total c' = w64 (N.of_nat (length sg)) /\
      (if l then c_status c' = 4%N /\ (small sg -> c_digest c' = md_hash A sg)
       else c_status c' = 0%N /\ c_inc c' = [] /\ data_ok c' sg (c_digest c'))
  end.
Proof.
  intros (Hlen & Htot & [(Hst & Hpl & Hor & pre & Esg & Hb & Hd)|(Hst & Hl & Hdg)]).
  2:{ (* padding blocks came back: complete *)
    unfold ctx_next. rewrite Hst. change (has 5 STS_COMPLETE) with true. cbv beta iota.
    cbn [set_status set_digest c_error c_pbuf c_total c_status c_digest].
    subst l. repeat split; try assumption. intros Hs. rewrite (Hdg Hs). reflexivity. }
  pose proof (B_pos A WF) as Bp.
  destruct (status_cases l) as (S1 & S2 & S3).
  (* the state after the optional copy of the tail, when no body job is submitted *)
  assert (Tail : forall c1, c_status c1 = c_status c -> c_error c1 = c_error c -> c_total c1 = c_total c ->
            c_digest c1 = c_digest c -> length (c_pbuf c1) = 2 * Bz -> c_inc c1 = [] -> c_plen c1 < Bz ->
            sg = pre ++ firstn (c_plen c1) (c_pbuf c1) ->
            (if ((c_plen c =? 0) && (Bz <=? length (c_inc c)))%bool then 1 else 0) = 0 ->
            match (if has (c_status c1) STS_LAST
                   then let '(buf, nblk) := hash_pad A (c_pbuf c1) (c_total c1) in
                        ({| c_digest := c_digest c1; c_status := N.lor STS_PROCESSING STS_COMPLETE;
                            c_error := c_error c1; c_total := c_total c1; c_inc := c_inc c1;
                            c_pbuf := buf; c_plen := c_plen c1 |},
                         Some (chunks Bz (firstn (nblk * Bz) buf)))
                   else (set_status c1 STS_IDLE, None)) with
            | (c', Some blocks) =>
                proc_ok c' sg l (fold_left (a_compress A) blocks (c_digest c')) /\ S (rem c') = rem c /\
                c_error c' = c_error c
            | (c', None) =>
                c_error c' = c_error c /\ length (c_pbuf c') = 2 * Bz /\
                c_total c' = w64 (N.of_nat (length sg)) /\
                (if l then c_status c' = 4%N /\ (small sg -> c_digest c' = md_hash A sg)
                 else c_status c' = 0%N /\ c_inc c' = [] /\ data_ok c' sg (c_digest c'))
            end).
  { intros c1 E1 E2 E3 E4 L1 I1 P1 Esg1 R0.
    rewrite E1, Hst, S3. destruct l.
    - (* LAST: pad *)
      assert (T64 : (c_total c1 < 2 ^ 64)%N) by (rewrite E3, Htot; apply wrap_lt).
      pose proof (hash_pad_length A WF (c_pbuf c1) (c_total c1) T64 L1) as HL.
      destruct (hash_pad A (c_pbuf c1) (c_total c1)) as [buf nblk] eqn:HP. cbn [fst] in HL.
      cbn [c_digest c_error]. split; [|split; [|exact E2]].
      + split; [exact HL|]. split; [cbn [c_total]; rewrite E3; exact Htot|]. right.
        split; [reflexivity|]. split; [reflexivity|]. intros Hs.
        assert (En : c_total c1 = N.of_nat (length sg)).
        { rewrite E3, Htot. unfold w64. apply wrap_small. eapply N.lt_trans; [exact Hs|reflexivity]. }
        pose proof (hash_pad_spec A WF (c_pbuf c1) (length sg) L1 Hs) as HS.
        rewrite <- En, HP in HS. destruct HS as (_ & HF & _).
        assert (Em : length sg mod Bz = c_plen c1).
        { rewrite Esg1, app_length. rewrite firstn_length_le by lia. apply blockal_mod; assumption. }
        rewrite HF, Em, E4, Hd. rewrite Esg1 at 2. rewrite md_chain_split by exact Hb.
        rewrite <- Esg1. reflexivity.
      + unfold rem at 1. cbn [c_status]. change (has (N.lor STS_PROCESSING STS_COMPLETE) STS_COMPLETE) with true.
        cbv iota. unfold rem. rewrite Hst, S1, S3, R0. reflexivity.
    - (* not LAST: idle *)
      cbn [set_status c_error c_pbuf c_total c_status c_inc c_digest c_plen].
      split; [exact E2|]. split; [exact L1|]. split; [rewrite E3; exact Htot|].
      split; [reflexivity|]. split; [exact I1|].
      unfold data_ok. cbn [set_status c_plen c_inc c_pbuf]. split; [exact P1|]. split; [right; exact I1|].
      exists pre. rewrite I1, app_nil_r. rewrite E4. auto. }
  unfold ctx_next. rewrite Hst, S1. cbv beta iota.
  destruct ((c_plen c =? 0) && negb (length (c_inc c) =? 0))%bool eqn:C1.
  - apply andb_true_iff in C1. destruct C1 as [P0 I0].
    apply Nat.eqb_eq in P0. apply negb_true_iff, Nat.eqb_neq in I0.
    cbv zeta.
    set (len := length (c_inc c)) in *.
    destruct (whole_blocks len) as [W1 W2].
    assert (Hmod : len mod Bz < Bz) by (apply Nat.mod_upper_bound; lia).
    rewrite P0 in Esg. cbn [firstn app] in Esg.
    set (tl := skipn (len - len mod Bz) (c_inc c)) in *.
    assert (Ltl : length tl = len mod Bz) by (unfold tl; rewrite skipn_length; fold len; lia).
    (* the context after the copy of the tail *)
    set (pb' := if len mod Bz =? 0 then c_pbuf c else splice (c_pbuf c) 0 tl) in *.
    set (pl' := if len mod Bz =? 0 then c_plen c else len mod Bz) in *.
    assert (Lpb : length pb' = 2 * Bz).
    { unfold pb'. destruct (len mod Bz =? 0); [exact Hlen|]. rewrite length_splice; lia. }
    assert (Epl : pl' = len mod Bz).
    { unfold pl'. destruct (len mod Bz =? 0) eqn:E; [apply Nat.eqb_eq in E; lia|reflexivity]. }
    assert (Ftl : firstn pl' pb' = tl).
    { rewrite Epl. unfold pb'. destruct (len mod Bz =? 0) eqn:E.
      - apply Nat.eqb_eq in E. rewrite E in *. destruct tl; [reflexivity|discriminate].
      - rewrite <- Ltl. change (length tl) with (0 + length tl).
        rewrite firstn_splice_end by lia. reflexivity. }
    clearbody pb' pl'.
    destruct (negb ((len - len mod Bz) / Bz =? 0)) eqn:C2; cbv beta iota.
    + (* whole blocks of the user's buffer become a job *)
      apply negb_true_iff, Nat.eqb_neq in C2. rewrite W2 in C2.
      assert (HBl : Bz <= len).
      { destruct (Nat.lt_ge_cases len Bz) as [Hlt|Hge]; [|exact Hge].
        rewrite Nat.div_small in C2 by exact Hlt. lia. }
      cbn [c_digest c_error]. split; [|split; [|reflexivity]].
      * split; [exact Lpb|]. split; [exact Htot|]. left. split; [reflexivity|].
        unfold data_ok. cbn [c_plen c_inc c_pbuf]. split; [lia|]. split; [right; reflexivity|].
        exists (pre ++ firstn (len - len mod Bz) (c_inc c)). rewrite app_nil_r. split; [|split].
        -- rewrite Ftl, Esg. unfold tl. rewrite <- app_assoc, firstn_skipn. reflexivity.
        -- apply blockal_app; [exact Hb|]. exists (len / Bz). rewrite firstn_length. fold len. lia.
        -- rewrite Hd. apply chain_app. exact Hb.
      * unfold rem. cbn [c_status c_plen c_inc length]. rewrite Hst, S1, S3, P0. fold len.
        assert (E1 : (Bz <=? len) = true) by (apply Nat.leb_le; exact HBl).
        assert (E2 : (Bz <=? 0) = false) by (apply Nat.leb_gt; lia).
        rewrite E1, E2, andb_false_r. reflexivity.
    + (* fewer than a block: only the copy happened *)
      apply negb_false_iff, Nat.eqb_eq in C2. rewrite W2 in C2.
      assert (HBl : len < Bz).
      { apply Nat.div_small_iff in C2; [exact C2|lia]. }
      assert (Emod : len mod Bz = len) by (apply Nat.mod_small; exact HBl).
      match goal with |- match (if has (c_status ?c1) _ then _ else _) with _ => _ end =>
        apply (Tail c1) end; cbn [c_status c_error c_total c_digest c_pbuf c_inc c_plen];
        try reflexivity; try assumption; try lia.
      * rewrite Ftl, Esg. unfold tl. rewrite Emod, Nat.sub_diag. reflexivity.
      * fold len. assert (E2 : (Bz <=? len) = false) by (apply Nat.leb_gt; lia).
        rewrite E2, andb_false_r. reflexivity.
  - (* nothing to take from the user's buffer *)
    cbv beta iota.
    assert (Hinc : c_inc c = []).
    { destruct Hor as [P0|I0]; [|exact I0]. rewrite P0 in C1. cbn [Nat.eqb andb] in C1.
      apply negb_false_iff, Nat.eqb_eq in C1. destruct (c_inc c); [reflexivity|discriminate]. }
    apply (Tail c); try reflexivity; try assumption.
    + rewrite Esg, Hinc, app_nil_r. reflexivity.
    + rewrite Hinc. cbn [length]. assert (E2 : (Bz <=? 0) = false) by (apply Nat.leb_gt; lia).
      rewrite E2, andb_false_r. reflexivity.
Qed.

End CtxFacts.
