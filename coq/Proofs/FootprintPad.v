(* C08 — hash_pad: every write is inside the 2*B byte partial block buffer, for every
   total_length (index arithmetic of the C, uint64_t wrap-around included). *)
From Coq Require Import NArith ZArith List Arith Bool Lia ZifyBool ZifyNat ZifyN.
From ISAL Require Import Base.Words Base.ListUtil Spec.MD Model.HashCtx Model.FootprintCtx.
Import ListNotations.

(* i2 = i + ((B-1) & (0 - (total + F + 1))) + 1 + F is B or 2*B: the padded data ends exactly
   at a block boundary inside the 2*B buffer *)
Lemma pad_shape_c (Bn F total : N) :
  (Bn = 64 /\ F = 8)%N \/ (Bn = 128 /\ F = 16)%N ->
  let i := N.land total (Bn - 1) in
  let neg := w64 (2 ^ 64 - w64 (total + F + 1))%N in
  let i2 := (i + N.land (Bn - 1) neg + 1 + F)%N in
  (i < Bn /\ (i2 = Bn \/ i2 = 2 * Bn) /\ F <= i2)%N.
Proof.
  intros Hg i neg i2.
  assert (E1 : exists k, (Bn - 1 = N.ones k /\ Bn = 2 ^ k)%N) by (destruct Hg as [[-> _]|[-> _]]; [exists 6%N|exists 7%N]; split; reflexivity).
  destruct E1 as (k & E1 & E2).
  assert (Bpos : (Bn <> 0)%N) by (destruct Hg as [[-> _]|[-> _]]; discriminate).
  assert (Ei : i = (total mod Bn)%N) by (unfold i; rewrite E1, N.land_ones, <- E2; reflexivity).
  set (t1 := w64 (total + F + 1)) in *.
  set (W := 18446744073709551616%N).
  assert (Et1 : t1 = ((total + F + 1) mod W)%N) by (unfold t1, w64, wrap; apply N.land_ones).
  assert (Eneg : neg = ((W - t1) mod W)%N) by (unfold neg, w64, wrap; apply N.land_ones).
  set (x := N.land (Bn - 1) neg) in *.
  assert (Ex : x = (neg mod Bn)%N) by (unfold x; rewrite N.land_comm, E1, N.land_ones, <- E2; reflexivity).
  pose proof (N.div_mod total Bn Bpos) as D1. pose proof (N.mod_upper_bound total Bn Bpos) as U1.
  pose proof (N.div_mod (total + F + 1) W ltac:(discriminate)) as D2. pose proof (N.mod_upper_bound (total + F + 1) W ltac:(discriminate)) as U2.
  pose proof (N.div_mod (W - t1) W ltac:(discriminate)) as D3. pose proof (N.mod_upper_bound (W - t1) W ltac:(discriminate)) as U3.
  pose proof (N.div_mod neg Bn Bpos) as D4. pose proof (N.mod_upper_bound neg Bn Bpos) as U4.
  rewrite <- Ei in *. rewrite <- Et1 in *. rewrite <- Eneg in *. rewrite <- Ex in *.
  set (q1 := (total / Bn)%N) in *. set (q2 := ((total + F + 1) / W)%N) in *.
  set (q3 := ((W - t1) / W)%N) in *. set (q4 := (neg / Bn)%N) in *.
  unfold i2. fold x. clearbody x i neg t1 q1 q2 q3 q4. clear E1 E2 k i2 Ei Et1 Eneg Ex.
  unfold W in *. clear W.
  destruct Hg as [[-> ->]|[-> ->]].
  - assert (Hq3 : (q3 = 0 \/ (q3 = 1 /\ t1 = 0))%N) by lia.
    assert (HQ : exists Q : Z, (Z.of_N (i + x + 1 + 8) = 64 * Q)%Z).
    { destruct Hq3 as [Z0|[Z1 Z2]].
      - exists (288230376151711744 * (Z.of_N q2 + 1) - Z.of_N q1 - Z.of_N q4)%Z. lia.
      - exists (288230376151711744 * (Z.of_N q2) - Z.of_N q1 - Z.of_N q4)%Z. lia. }
    destruct HQ as [Q HQ]. lia.
  - assert (Hq3 : (q3 = 0 \/ (q3 = 1 /\ t1 = 0))%N) by lia.
    assert (HQ : exists Q : Z, (Z.of_N (i + x + 1 + 16) = 128 * Q)%Z).
    { destruct Hq3 as [Z0|[Z1 Z2]].
      - exists (144115188075855872 * (Z.of_N q2 + 1) - Z.of_N q1 - Z.of_N q4)%Z. lia.
      - exists (144115188075855872 * (Z.of_N q2) - Z.of_N q1 - Z.of_N q4)%Z. lia. }
    destruct HQ as [Q HQ]. lia.
Qed.

Section Pad.
Variable A : algo.
Hypothesis Hlen : forall x, length (a_lenbytes A x) = a_lenfld A.

(* for the two block geometries of the library: B = 64 with an 8-byte length field (MD5,
   SHA-1, SHA-256, SM3) and B = 128 with a 16-byte one (SHA-512) *)
Theorem pad_in_buffer total :
  (a_bsize A = 64 /\ a_lenfld A = 8) \/ (a_bsize A = 128 /\ a_lenfld A = 16) ->
  (forall o n, In (o, n) (hash_pad_ranges A total) -> o + n <= 2 * a_bsize A) /\
  (forall pbuf, let nblk := snd (hash_pad A pbuf total) in 1 <= nblk <= 2).
Proof.
  intros Hg.
  assert (Hg' : (N.of_nat (a_bsize A) = 64 /\ N.of_nat (a_lenfld A) = 8)%N \/ (N.of_nat (a_bsize A) = 128 /\ N.of_nat (a_lenfld A) = 16)%N)
    by (destruct Hg as [[E1 E2]|[E1 E2]]; rewrite E1, E2; [left|right]; split; reflexivity).
  pose proof (pad_shape_c (N.of_nat (a_bsize A)) (N.of_nat (a_lenfld A)) total Hg') as P. cbv zeta in P.
  destruct P as (Pi & Pi2 & PF).
  split.
  - unfold hash_pad_ranges. rewrite Hlen.
    set (Bn := N.of_nat (a_bsize A)) in *. set (F := N.of_nat (a_lenfld A)) in *.
    set (i := N.land total (Bn - 1)) in *.
    set (i2 := (i + N.land (Bn - 1) (w64 (2 ^ 64 - w64 (total + F + 1))) + 1 + F)%N) in *.
    intros o n [E|[E|[E|[]]]]; inversion E; subst o n; clear E; unfold Bn, F in *; lia.
  - intros pbuf nblk. unfold nblk, hash_pad, HashCtx.B. cbn [snd].
    set (Bn := N.of_nat (a_bsize A)) in *. set (F := N.of_nat (a_lenfld A)) in *.
    set (i := N.land total (Bn - 1)) in *.
    set (i2 := (i + N.land (Bn - 1) (w64 (2 ^ 64 - w64 (total + F + 1))) + 1 + F)%N) in *.
    assert (Bn <> 0)%N by (destruct Hg' as [[E _]|[E _]]; rewrite E; discriminate).
    destruct Pi2 as [E|E]; rewrite E.
    + rewrite N.div_same by assumption. cbn. lia.
    + rewrite N.div_mul by assumption. cbn. lia.
Qed.

End Pad.
