(* C12 — the obligations about the regenerated dispatchers (Gen/DispatchGen.v, Gen/IsaReqGen.v).
   Everything here is re-checked on every run against the objects built from the current tree.

   A dispatcher the checker rejects does not make this file fail: it is put in [unsafe], and
   this file then proves, from a witness environment validated by evaluation, that it really
   violates the property in the model (the check reports each such entry as a violation and
   replays the witness on the real dispatcher).  The file fails to compile when the checker
   rejects a dispatcher for which no validated witness exists (e.g. an instruction outside
   the mini-ISA), when a group does not provably bind one family, or when something other
   than <entry>_dispatch_init touches a slot. *)
From Coq Require Import NArith List String Bool Arith.
From ISAL Require Import Model.Dispatch Gen.DispatchGen Gen.IsaReqGen Proofs.DispatchFacts.
Import ListNotations.
Local Open Scope string_scope.

Definition tbl := isa_requires.
Definition unsafe : list dispatcher := unsafe_of tbl dispatchers.

Lemma unsafe_have_witness : forallb (has_witness tbl) (unsafe_of tbl dispatchers) = true.
Proof. vm_compute. reflexivity. Qed.

(* every dispatcher of the library: proved safe for all environments, or refuted by one *)
Theorem c_safe_or_refuted : forall d, In d dispatchers ->
  safe tbl d \/ (In d unsafe /\ refuted tbl d).
Proof. exact (safe_or_refuted_gen tbl dispatchers unsafe_have_witness). Qed.

Theorem c_safe_unless_listed : forall d, In d dispatchers -> ~ In d unsafe -> safe tbl d.
Proof. exact (safe_unless_listed_gen tbl dispatchers unsafe_have_witness). Qed.

(* the tree-specific obligation at full strength: the checker accepts every dispatcher of the
   library built from the current tree, hence every one of them is safe.  (When this fails the
   check reports each rejected entry with its witness environment, replayed on the real
   dispatcher.) *)
Lemma all_checked : forallb (check_disp tbl) dispatchers = true.
Proof. vm_compute. reflexivity. Qed.

Theorem c_all_safe : forall d, In d dispatchers -> safe tbl d.
Proof.
  intros d Hin. apply check_disp_safe. pose proof all_checked as H.
  rewrite forallb_forall in H. exact (H d Hin).
Qed.

(* one family per shared object *)
Lemma groups_checked : forallb (group_checked dispatchers) group_names = true.
Proof. vm_compute. reflexivity. Qed.

Theorem c_same_family : forall g l, In g group_names -> resolve dispatchers (snd g) = Some l ->
  forall e d1 d2, In d1 l -> In d2 l ->
  exists fam, famo (d_entry d1) (exec (d_entry d1) (d_code d1) e) = Some fam /\
              famo (d_entry d2) (exec (d_entry d2) (d_code d2) e) = Some fam.
Proof. exact (same_family_gen dispatchers group_names groups_checked). Qed.

(* every group of the property names existing entry points *)
Lemma groups_resolve :
  forallb (fun g => match resolve dispatchers (snd g) with
                    | Some l => Nat.eqb (List.length l) (List.length (snd g))
                    | None => false end) group_names = true.
Proof. vm_compute. reflexivity. Qed.

(* nothing but <entry>_dispatch_init stores to a slot, nothing but the entry's stub jumps
   through it, no other object names a slot, a stub or a dispatch routine, and every stub is
   `call <entry>_dispatch_init ; jmp [<entry>_dispatched]` *)
Lemma refs_checked :
  forallb ref_ok data_refs = true /\ foreign_refs = [] /\ forallb stub_ok dispatchers = true.
Proof. vm_compute. repeat split; reflexivity. Qed.

Theorem c_binding_stable : forall d e x, exec (d_entry d) (d_code d) e = Some x ->
  forall n, call_n d e (S n) PInit = (PTarget x, repeat (Some x) (S n)).
Proof. intros d e x H n. apply (binding_stable d e x H n PInit). left. reflexivity. Qed.
