(* hash_pad (the exact index arithmetic of the C) produces the Merkle–Damgård padding. *)
From Coq Require Import NArith List Arith Lia ZArith ZifyNat ZifyN Bool.
From ISAL Require Import Base.Words Base.ListUtil Spec.MD Model.HashCtx
  Proofs.WordsFacts Proofs.ListFacts Proofs.ChunkFacts.
Import ListNotations.

(* ---- well-formed algorithm records ------------------------------------------------ *)

Definition algo_shape (A : algo) : bool :=
  ((a_bsize A =? 64) && (a_lenfld A =? 8) || (a_bsize A =? 128) && (a_lenfld A =? 16))%nat.

Record algo_wf (A : algo) : Prop := {
  wf_shape : algo_shape A = true;
  wf_lenbytes : forall n, length (a_lenbytes A n) = a_lenfld A
}.

Lemma algo_shape_cases A : algo_shape A = true ->
  (a_bsize A = 64 /\ a_lenfld A = 8) \/ (a_bsize A = 128 /\ a_lenfld A = 16).
Proof.
  unfold algo_shape. intros H. apply orb_true_iff in H.
  destruct H as [H|H]; apply andb_true_iff in H; destruct H as [H1 H2];
    apply Nat.eqb_eq in H1; apply Nat.eqb_eq in H2; [left|right]; split; assumption.
Qed.

Lemma length_N_to_le n x : length (N_to_le n x) = n.
Proof. revert x; induction n as [|n IH]; intros x; cbn [N_to_le length]; [reflexivity|]. f_equal. apply IH. Qed.

Lemma length_N_to_be n x : length (N_to_be n x) = n.
Proof. unfold N_to_be. rewrite rev_length. apply length_N_to_le. Qed.

(* ---- arithmetic of the pad index (N, concrete moduli; the only heavy lia calls) ----- *)

Section Arith.
Local Open Scope N_scope.

Lemma pad_idx_64 (t : N) : t < 18446744073709551616 ->
  let i := t mod 64 in
  let neg := (18446744073709551616 - (t + 8 + 1) mod 18446744073709551616) mod 18446744073709551616 in
  let g := neg mod 64 in
  g = (64 - (i + 1 + 8) mod 64) mod 64 /\ (i + g + 1 + 8) mod 64 = 0 /\ i + g + 1 + 8 <= 128.
Proof.
  intros H i neg g. subst i neg g.
  Ltac Zify.zify_post_hook ::= Z.div_mod_to_equations. lia.
Qed.

Lemma pad_idx_128 (t : N) : t < 18446744073709551616 ->
  let i := t mod 128 in
  let neg := (18446744073709551616 - (t + 16 + 1) mod 18446744073709551616) mod 18446744073709551616 in
  let g := neg mod 128 in
  g = (128 - (i + 1 + 16) mod 128) mod 128 /\ (i + g + 1 + 16) mod 128 = 0 /\ i + g + 1 + 16 <= 256.
Proof.
  intros H i neg g. subst i neg g.
  Ltac Zify.zify_post_hook ::= Z.div_mod_to_equations. lia.
Qed.

Lemma pad_idx (b f t : N) : (b = 64 /\ f = 8) \/ (b = 128 /\ f = 16) -> t < 2 ^ 64 ->
  let i := t mod b in
  let neg := (2 ^ 64 - (t + f + 1) mod 2 ^ 64) mod 2 ^ 64 in
  let g := neg mod b in
  g = (b - (i + 1 + f) mod b) mod b /\ (i + g + 1 + f) mod b = 0 /\ i + g + 1 + f <= 2 * b /\
  i < b /\ g < b.
Proof.
  change (2 ^ 64) with 18446744073709551616.
  intros [[-> ->]|[-> ->]] H; cbv zeta.
  - destruct (pad_idx_64 t H) as (E1 & E2 & E3). cbv zeta in *.
    repeat split; try assumption; apply N.mod_lt; discriminate.
  - destruct (pad_idx_128 t H) as (E1 & E2 & E3). cbv zeta in *.
    repeat split; try assumption; apply N.mod_lt; discriminate.
Qed.

Lemma land_low_mod x k : N.land x (2 ^ k - 1) = x mod 2 ^ k.
Proof. rewrite <- N.land_ones. f_equal. rewrite N.ones_equiv. symmetry. apply N.pred_sub. Qed.

(* the same relation read in nat, for totals that fit the standard's length field *)
Lemma padz_nat_64 (n : nat) :
  N.to_nat ((64 - (N.of_nat n mod 64 + 1 + 8) mod 64) mod 64) = ((64 - (n + 1 + 8) mod 64) mod 64)%nat /\
  N.to_nat (N.of_nat n mod 64) = (n mod 64)%nat.
Proof. Ltac Zify.zify_post_hook ::= Z.div_mod_to_equations. split; lia. Qed.

Lemma padz_nat_128 (n : nat) :
  N.to_nat ((128 - (N.of_nat n mod 128 + 1 + 16) mod 128) mod 128) = ((128 - (n + 1 + 16) mod 128) mod 128)%nat /\
  N.to_nat (N.of_nat n mod 128) = (n mod 128)%nat.
Proof. Ltac Zify.zify_post_hook ::= Z.div_mod_to_equations. split; lia. Qed.

End Arith.

Ltac Zify.zify_post_hook ::= idtac.

(* ---- list facts -------------------------------------------------------------------- *)

Lemma length_splice l off d : off + length d <= length l -> length (splice l off d) = length l.
Proof.
  intros H. unfold splice. rewrite !app_length, firstn_length, skipn_length. lia.
Qed.

Lemma firstn_splice_end l off d : off <= length l ->
  firstn (off + length d) (splice l off d) = firstn off l ++ d.
Proof.
  intros H. unfold splice. rewrite app_assoc.
  apply firstn_app_exact. rewrite app_length, firstn_length. lia.
Qed.

Lemma firstn_splice_lt l off d k : k <= off -> off <= length l ->
  firstn k (splice l off d) = firstn k l.
Proof.
  intros H H2. unfold splice. rewrite firstn_app_l by (rewrite firstn_length; lia).
  rewrite firstn_firstn. f_equal. lia.
Qed.

Section Pad.
Variable A : algo.
Hypothesis WF : algo_wf A.

Lemma B_cases : (B A = 64 /\ a_lenfld A = 8) \/ (B A = 128 /\ a_lenfld A = 16).
Proof. unfold B. apply algo_shape_cases. apply (wf_shape A WF). Qed.

Lemma B_pos : B A > 0.
Proof. destruct B_cases as [[-> _]|[-> _]]; lia. Qed.

Lemma B_ge_64 : 64 <= B A.
Proof. destruct B_cases as [[-> _]|[-> _]]; lia. Qed.

Lemma length_md_pad n : length (md_pad A n) = 1 + padz A n + a_lenfld A.
Proof.
  unfold md_pad. rewrite !app_length, length_zeros, (wf_lenbytes A WF). reflexivity.
Qed.

(* the index arithmetic of hash_pad, for every 64-bit total *)
Definition pad_r (total : N) : nat := N.to_nat (total mod N.of_nat (B A)).
Definition pad_z (total : N) : nat :=
  let Bn := N.of_nat (B A) in
  N.to_nat ((Bn - (total mod Bn + 1 + N.of_nat (a_lenfld A)) mod Bn) mod Bn)%N.

Lemma hash_pad_unfold pbuf total : (total < 2 ^ 64)%N ->
  let r := pad_r total in
  let pz := pad_z total in
  hash_pad A pbuf total =
  (splice (upd r 128%N (splice pbuf r (zeros (B A)))) (r + 1 + pz)
          (a_lenbytes A (w64 (N.shiftl total 3))),
   (r + 1 + pz + a_lenfld A) / B A) /\
  (r + 1 + pz + a_lenfld A) mod B A = 0 /\ r + 1 + pz + a_lenfld A <= 2 * B A /\ pz < B A /\ r < B A.
Proof.
  intros Ht. cbv zeta.
  assert (Hs : (N.of_nat (B A) = 64 /\ N.of_nat (a_lenfld A) = 8)%N \/
               (N.of_nat (B A) = 128 /\ N.of_nat (a_lenfld A) = 16)%N).
  { destruct B_cases as [[-> ->]|[-> ->]]; [left|right]; split; reflexivity. }
  pose proof (pad_idx _ _ total Hs Ht) as PI. cbv zeta in PI.
  destruct PI as (G & M0 & Le & Hi & Hg).
  assert (Eland : forall x, N.land x (N.of_nat (B A) - 1) = (x mod N.of_nat (B A))%N).
  { intros x. destruct Hs as [[-> _]|[-> _]].
    - change (64 - 1)%N with (2 ^ 6 - 1)%N. rewrite land_low_mod. reflexivity.
    - change (128 - 1)%N with (2 ^ 7 - 1)%N. rewrite land_low_mod. reflexivity. }
  unfold hash_pad. fold (B A).
  rewrite (N.land_comm (N.of_nat (B A) - 1)), !Eland.
  unfold w64. rewrite !wrap_mod.
  unfold pad_r, pad_z. cbv zeta.
  set (Bn := N.of_nat (B A)) in *. set (Fn := N.of_nat (a_lenfld A)) in *.
  set (i := (total mod Bn)%N) in *.
  set (g := (((2 ^ 64 - (total + Fn + 1) mod 2 ^ 64) mod 2 ^ 64) mod Bn)%N) in *.
  rewrite <- G.
  assert (EB : B A = N.to_nat Bn) by (unfold Bn; rewrite Nat2N.id; reflexivity).
  assert (EF : a_lenfld A = N.to_nat Fn) by (unfold Fn; rewrite Nat2N.id; reflexivity).
  assert (Bnz : Bn <> 0%N) by (destruct Hs as [[-> _]|[-> _]]; discriminate).
  clearbody i g Bn Fn.
  assert (E2 : N.to_nat (i + g + 1 + Fn) = N.to_nat i + 1 + N.to_nat g + a_lenfld A) by lia.
  assert (M0' : (N.to_nat i + 1 + N.to_nat g + a_lenfld A) mod B A = 0).
  { rewrite <- E2, EB. rewrite <- N2Nat.inj_mod. rewrite M0. reflexivity. }
  split; [|repeat split; try assumption; lia].
  f_equal.
  - f_equal. rewrite E2. lia.
  - rewrite <- E2, EB. rewrite <- N2Nat.inj_div. reflexivity.
Qed.

(* hash_pad never changes the size of the partial block buffer *)
Lemma hash_pad_length pbuf total : (total < 2 ^ 64)%N -> length pbuf = 2 * B A ->
  length (fst (hash_pad A pbuf total)) = 2 * B A.
Proof.
  intros Ht Hl. destruct (hash_pad_unfold pbuf total Ht) as (E & M0 & Le & Pz & Hr). cbv zeta in *.
  rewrite E. cbn [fst].
  assert (L1 : length (splice pbuf (pad_r total) (zeros (B A))) = 2 * B A).
  { rewrite length_splice; rewrite ?length_zeros; lia. }
  rewrite length_splice; rewrite ?length_upd, ?(wf_lenbytes A WF); lia.
Qed.

Lemma small_total n : (N.of_nat n < 2 ^ 61)%N ->
  pad_r (N.of_nat n) = n mod B A /\ pad_z (N.of_nat n) = padz A n /\
  w64 (N.shiftl (N.of_nat n) 3) = (8 * N.of_nat n)%N /\ (N.of_nat n < 2 ^ 64)%N.
Proof.
  intros Hn. unfold pad_r, pad_z, padz. fold (B A). cbv zeta.
  assert (H64 : (N.of_nat n < 2 ^ 64)%N).
  { eapply N.lt_trans; [exact Hn|]. reflexivity. }
  assert (Esh : w64 (N.shiftl (N.of_nat n) 3) = (8 * N.of_nat n)%N).
  { unfold w64. rewrite wrap_small; [rewrite N.shiftl_mul_pow2; change (2 ^ 3)%N with 8%N; lia|].
    rewrite N.shiftl_mul_pow2. change (2 ^ 3)%N with 8%N.
    change (2 ^ 64)%N with (2 ^ 61 * 8)%N. apply N.mul_lt_mono_pos_r; [reflexivity|exact Hn]. }
  destruct B_cases as [[-> ->]|[-> ->]].
  - change (N.of_nat 64) with 64%N. change (N.of_nat 8) with 8%N.
    destruct (padz_nat_64 n) as [E1 E2]. rewrite E1, E2. repeat split; assumption.
  - change (N.of_nat 128) with 128%N. change (N.of_nat 16) with 16%N.
    destruct (padz_nat_128 n) as [E1 E2]. rewrite E1, E2. repeat split; assumption.
Qed.

(* hash_pad_spec: the bytes the extra blocks hold are the unhashed tail followed by the
   standard padding; the block count is their length / B *)
Lemma hash_pad_spec pbuf n :
  length pbuf = 2 * B A -> (N.of_nat n < 2 ^ 61)%N ->
  let '(buf, nblk) := hash_pad A pbuf (N.of_nat n) in
  length buf = 2 * B A /\
  firstn (nblk * B A) buf = firstn (n mod B A) pbuf ++ md_pad A n /\
  nblk * B A = n mod B A + length (md_pad A n).
Proof.
  intros Hl Hn.
  destruct (small_total n Hn) as (Er & Ez & Esh & H64).
  pose proof (hash_pad_length pbuf _ H64 Hl) as HL.
  destruct (hash_pad_unfold pbuf _ H64) as (E & M0 & Le & Pz & Hr). cbv zeta in *.
  rewrite Er, Ez, Esh in *. rewrite E in *. cbn [fst] in HL. clear E.
  set (r := n mod B A) in *. set (pz := padz A n) in *.
  pose proof B_pos as Bp.
  assert (Hlb : length (a_lenbytes A (8 * N.of_nat n)) = a_lenfld A) by apply (wf_lenbytes A WF).
  assert (L1 : length (splice pbuf r (zeros (B A))) = 2 * B A).
  { rewrite length_splice; rewrite ?length_zeros; lia. }
  assert (Ediv : (r + 1 + pz + a_lenfld A) / B A * B A = r + 1 + pz + a_lenfld A).
  { pose proof (Nat.div_mod (r + 1 + pz + a_lenfld A) (B A) ltac:(lia)) as D. rewrite M0 in D. lia. }
  split; [exact HL|]. rewrite Ediv. split; [|rewrite length_md_pad; fold pz; lia].
  (* shape of the buffer after memclr and the 0x80 store *)
  assert (Lr : length (firstn r pbuf) = r) by (rewrite firstn_length; lia).
  assert (S2 : upd r 128%N (splice pbuf r (zeros (B A))) =
               firstn r pbuf ++ [128%N] ++ zeros (B A - 1) ++ skipn (r + B A) pbuf).
  { unfold splice. rewrite length_zeros.
    replace (B A) with (1 + (B A - 1)) at 1 by lia. rewrite zeros_app. cbn [zeros repeat app].
    rewrite <- Lr at 1. rewrite upd_app_r. reflexivity. }
  replace (r + 1 + pz + a_lenfld A) with ((r + 1 + pz) + length (a_lenbytes A (8 * N.of_nat n))) by lia.
  rewrite firstn_splice_end by (rewrite length_upd; lia).
  rewrite S2. unfold md_pad. fold pz. rewrite !app_assoc. f_equal.
  rewrite <- !app_assoc.
  rewrite firstn_app, Lr. rewrite firstn_all2 by lia. f_equal.
  replace (r + 1 + pz - r) with (S pz) by lia. cbn [app firstn]. f_equal.
  rewrite firstn_app_l by (rewrite length_zeros; lia). apply firstn_zeros. lia.
Qed.

(* the extra blocks are the final blocks of md_blocks: the stream is the already hashed
   whole blocks [pre] followed by the tail held in the partial block buffer *)
Lemma hash_pad_blocks pbuf (pre tail : list N) :
  length pbuf = 2 * B A -> (N.of_nat (length (pre ++ tail)) < 2 ^ 61)%N ->
  (exists k, length pre = k * B A) -> length tail < B A ->
  firstn (length tail) pbuf = tail ->
  let '(buf, nblk) := hash_pad A pbuf (N.of_nat (length (pre ++ tail))) in
  md_blocks A (pre ++ tail) = chunks (B A) pre ++ chunks (B A) (firstn (nblk * B A) buf).
Proof.
  intros Hl Hn [k Hk] Ht Htail.
  pose proof (hash_pad_spec pbuf _ Hl Hn) as HS.
  destruct (hash_pad A pbuf (N.of_nat (length (pre ++ tail)))) as [buf nblk].
  destruct HS as (_ & HF & _).
  assert (Em : length (pre ++ tail) mod B A = length tail).
  { rewrite app_length, Hk. rewrite Nat.add_comm, Nat.mod_add by (pose proof B_pos; lia).
    apply Nat.mod_small. exact Ht. }
  rewrite HF, Em, Htail. unfold md_blocks. fold (B A).
  rewrite <- app_assoc. apply chunks_app; [apply B_pos|exists k; exact Hk].
Qed.

End Pad.
