(* Proofs/AbiCfgGpr.v — the GPR / stack machine (C19).
   Reference semantics (instrumented): every 64-bit value carries a taint bit "derived from this
   function's own stack pointer"; the stack is a map from byte addresses to 8-byte cells (a store
   of sz bytes at a leaves every cell that does not overlap [a,a+sz) unchanged, defines cell a
   when it is an 8-byte register store, and makes the other overlapped cells arbitrary).
   ASSUMPTIONS built into the semantics (they are what C08 is about):
     (A1) a store through an address that is not derived from the function's own rsp does not
          touch the function's frame or the caller's stack cells it reads back;
     (A2) a 64-bit load through such an address, and the registers a callee leaves behind,
          do not yield pointers into the frame (their taint is clear);
     (A3) a call behaves as its callee's claim says (call_ok) — the claim of every callee is
          itself a checked obligation of the same kind;
     (A4) (translator) a zero-extended 32-bit result is not a frame pointer: instructions with a 32-bit
          destination are emitted as clobbers without taint sources.
   Values are mathematical integers; tracked numbers (Num) are kept inside [0, 2^31) so that they coincide
   with the machine's 32/64-bit, signed/unsigned readings (norm_small), which is what lets the edges of a
   `cmp r,k ; jcc` terminator (gcond) refine them.  Ranges with stride (SymR, Num) make frame-relative
   indexed stores and pointers stepping through the frame checkable (hull_store_sound).
   abi_check_sound: if check_gclaim accepts a function then on EVERY path (all branch outcomes,
   all clobber values, any number of loop iterations) that reaches a ret / tail jump: rsp is the
   entry rsp, every claimed register holds its entry value, DF is clear, no MXCSR/x87-CW write
   and no store at or above the entry rsp has happened. *)
From Coq Require Import ZArith NArith PArith List Bool Arith Lia FMapPositive.
From ISAL Require Import Model.AbiCfg Proofs.AbiCfgFlow Proofs.AbiCfgVec.
Import ListNotations.
Local Open Scope Z_scope.

Record cval := { cv : Z; ct : bool }.
Record cstate := { cr : nat -> cval; cm : Z -> cval; cal : positive -> Z; cdf : bool; cbad : bool }.

Definition same_regs (c c' : cstate) := forall x, cr c' x = cr c x.
Definition same_mem (c c' : cstate) := forall x, cm c' x = cm c x.
Definition same_al (c c' : cstate) := forall i, cal c' i = cal c i.
Definition set_reg (c c' : cstate) (d : nat) (v : cval) := forall x, cr c' x = if Nat.eqb x d then v else cr c x.
Definition untainted_srcs (c : cstate) (srcs : N) := forall s, (s < 16)%nat -> bit srcs s = true -> ct (cr c s) = false.
Definition mem_store (c c' : cstate) (a sz : Z) (v : option cval) :=
  (forall x, x + 8 <= a \/ a + sz <= x -> cm c' x = cm c x) /\
  (match v with Some w => cm c' a = w | None => True end).

(* what a call does, according to the callee's claim *)
Definition call_ok (cl : claim) (c c' : cstate) : Prop :=
  cr c' RSP = cr c RSP /\
  (forall r, (r < 16)%nat -> bit (cl_pres cl) r = true -> cr c' r = cr c r) /\
  (forall r, (r < 16)%nat -> r <> RSP -> bit (cl_pres cl) r = false -> ct (cr c' r) = false) /\
  (forall x, cv (cr c RSP) <= x -> cm c' x = cm c x) /\
  same_al c c' /\ (cdf c = false -> cdf c' = false) /\ cbad c' = cbad c.

Section Gpr.
  Variable claims : positive -> claim.
  Variable R0 : nat -> Z.                      (* register values at entry *)
  Variable callrel : positive -> cstate -> cstate -> Prop.
  Hypothesis callrel_ok : forall f c c', callrel f c c' -> call_ok (claims f) c c'.
  Let R := R0 RSP.

  Definition gstep (i : ginsn) (c c' : cstate) : Prop :=
    match i with
    | GPush r =>
      let a := cv (cr c RSP) - 8 in
      set_reg c c' RSP {| cv := a; ct := ct (cr c RSP) |} /\ mem_store c c' a 8 (Some (cr c r)) /\
      same_al c c' /\ cdf c' = cdf c /\ cbad c' = (cbad c || (R <? a + 8))
    | GPushX srcs =>
      let a := cv (cr c RSP) - 8 in
      exists w, (untainted_srcs c srcs -> ct w = false) /\
      set_reg c c' RSP {| cv := a; ct := ct (cr c RSP) |} /\ mem_store c c' a 8 (Some w) /\
      same_al c c' /\ cdf c' = cdf c /\ cbad c' = (cbad c || (R <? a + 8))
    | GPop r =>
      let a := cv (cr c RSP) in
      (forall x, cr c' x = if Nat.eqb x r then cm c a
                           else if Nat.eqb x RSP then {| cv := a + 8; ct := ct (cr c RSP) |} else cr c x) /\
      same_mem c c' /\ same_al c c' /\ cdf c' = cdf c /\ cbad c' = cbad c
    | GMov d s =>
      set_reg c c' d (cr c s) /\ same_mem c c' /\ same_al c c' /\ cdf c' = cdf c /\ cbad c' = cbad c
    | GLea d s k =>
      set_reg c c' d {| cv := cv (cr c s) + k; ct := ct (cr c s) |} /\
      same_mem c c' /\ same_al c c' /\ cdf c' = cdf c /\ cbad c' = cbad c
    | GLoad d b k =>
      (if ct (cr c b) then set_reg c c' d (cm c (cv (cr c b) + k))
       else exists w, ct w = false /\ set_reg c c' d w) /\
      same_mem c c' /\ same_al c c' /\ cdf c' = cdf c /\ cbad c' = cbad c
    | GAlign d id m =>
      exists z, z <= cv (cr c d) /\ set_reg c c' d {| cv := z; ct := ct (cr c d) |} /\
      same_mem c c' /\ (forall i, cal c' i = if Pos.eqb i id then z else cal c i) /\
      cdf c' = cdf c /\ cbad c' = cbad c
    | GStore b k sz src =>
      same_regs c c' /\ same_al c c' /\ cdf c' = cdf c /\
      if ct (cr c b)
      then let a := cv (cr c b) + k in
           mem_store c c' a sz (match src with Some r => if Z.eqb sz 8 then Some (cr c r) else None | None => None end) /\
           cbad c' = (cbad c || (R <? a + sz))
      else same_mem c c' /\ cbad c' = cbad c                     (* (A1) *)
    | GStoreIdx b i sc k sz =>
      same_regs c c' /\ same_al c c' /\ cdf c' = cdf c /\
      (if ct (cr c b) && negb (ct (cr c i))
       then let a := cv (cr c b) + cv (cr c i) * sc + k in
            mem_store c c' a sz None /\ cbad c' = (cbad c || (R <? a + sz))
       else (ct (cr c b) = false -> ct (cr c i) = false -> same_mem c c' /\ cbad c' = cbad c))   (* (A1) *)
    | GConst d k =>
      set_reg c c' d {| cv := k; ct := false |} /\
      same_mem c c' /\ same_al c c' /\ cdf c' = cdf c /\ cbad c' = cbad c
    | GXchg a b =>
      (forall x, cr c' x = if Nat.eqb x b then cr c a else if Nat.eqb x a then cr c b else cr c x) /\
      same_mem c c' /\ same_al c c' /\ cdf c' = cdf c /\ cbad c' = cbad c
    | GStoreNS m =>
      same_regs c c' /\ same_al c c' /\ cdf c' = cdf c /\
      (untainted_srcs c m -> same_mem c c' /\ cbad c' = cbad c)    (* (A1) *)
    | GClob dsts srcs =>
      (forall x, if bit dsts x then (untainted_srcs c srcs -> ct (cr c' x) = false) else cr c' x = cr c x) /\
      same_mem c c' /\ same_al c c' /\ cdf c' = cdf c /\ cbad c' = cbad c
    | GCall f => callrel f c c'
    | GStd => same_regs c c' /\ same_mem c c' /\ same_al c c' /\ cdf c' = true /\ cbad c' = cbad c
    | GCld => same_regs c c' /\ same_mem c c' /\ same_al c c' /\ cdf c' = false /\ cbad c' = cbad c
    | GCtl => same_regs c c' /\ same_mem c c' /\ same_al c c' /\ cdf c' = cdf c /\ cbad c' = true
    | GUnknown => True
    end.

  Inductive gsteps : list ginsn -> cstate -> cstate -> Prop :=
  | gsteps_nil : forall c, gsteps [] c c
  | gsteps_cons : forall i l c c1 c2, gstep i c c1 -> gsteps l c1 c2 -> gsteps (i :: l) c c2.

  (* ------------------------------------------------------------ concretisation *)
  Definition bval (c : cstate) (b : base) : Z :=
    match b with BInit r => R0 r | BAl id => cal c id end.

  Definition gv (c : cstate) (v : aval) (x : cval) : Prop :=
    match v with
    | Sym b k => cv x = bval c b + k /\ ct x = stackish_base b
    | SymR b lo hi st =>
      ct x = stackish_base b /\
      exists off, cv x = bval c b + off /\ lo <= off <= hi /\ (st | off - lo)
    | Num lo hi st => ct x = false /\ lo <= cv x <= hi /\ (st | cv x - lo)
    | Top => ct x = false
    | STop => True
    end.

  Definition ggamma (a : astate) (c : cstate) : Prop :=
    length (ar a) = 16%nat /\
    (forall r, (r < 16)%nat -> gv c (getr a r) (cr c r)) /\
    (forall b k v, In (b, k, v) (asl a) -> gv c v (cm c (bval c b + k))) /\
    (forall id u, lookup_bd (abd a) id = Some u -> cal c id <= R + u) /\
    (adf a = true -> cdf c = false) /\
    cbad c = false /\
    (forall x, R + 8 <= x -> ct (cm c x) = false).

  (* ------------------------------------------------------------ basic lemmas *)
  Lemma base_eqb_eq : forall a b, base_eqb a b = true -> a = b.
  Proof.
    destruct a, b; cbn; intros H; try discriminate.
    - apply Nat.eqb_eq in H. now subst. - apply Pos.eqb_eq in H. now subst.
  Qed.
  Lemma base_eqb_refl : forall a, base_eqb a a = true.
  Proof. destruct a; cbn; [apply Nat.eqb_refl | apply Pos.eqb_refl]. Qed.

  Lemma aval_eqb_eq : forall a b, aval_eqb a b = true -> a = b.
  Proof.
    intros [b1 k1|b1 l1 h1 s1|l1 h1 s1| |] [b2 k2|b2 l2 h2 s2|l2 h2 s2| |]; cbn; intros H; try discriminate; auto.
    - apply andb_true_iff in H. destruct H as [H1 H2]. apply base_eqb_eq in H1. apply Z.eqb_eq in H2. now subst.
    - repeat (apply andb_true_iff in H; destruct H as [H ?]). apply base_eqb_eq in H.
      repeat match goal with E : (_ =? _) = true |- _ => apply Z.eqb_eq in E end. now subst.
    - repeat (apply andb_true_iff in H; destruct H as [H ?]).
      repeat match goal with E : (_ =? _) = true |- _ => apply Z.eqb_eq in E end. now subst.
  Qed.

  Lemma gv_same_al : forall c c' v x, same_al c c' -> gv c v x -> gv c' v x.
  Proof.
    intros c c' v x H. destruct v as [b k|b lo hi st|lo hi st| |]; cbn; auto.
    - destruct b; cbn; auto. now rewrite H.
    - destruct b; cbn; auto. now rewrite H.
  Qed.

  Lemma bval_same_al : forall c c' b, same_al c c' -> bval c' b = bval c b.
  Proof. intros. destruct b; cbn; auto. Qed.

  Lemma nonstackish_untainted : forall c v x, gv c v x -> stackish v = false -> ct x = false.
  Proof.
    intros c v x H Hs. destruct v; cbn in *; try discriminate; auto.
    - destruct H; congruence. - destruct H; congruence. - tauto.
  Qed.

  Lemma getr_default : forall a r, length (ar a) = 16%nat -> (16 <= r)%nat -> getr a r = STop.
  Proof. intros. unfold getr. apply nth_overflow. lia. Qed.

  Lemma gv_getr : forall a c r, ggamma a c -> gv c (getr a r) (cr c r).
  Proof.
    intros a c r [Hl [Hr _]]. destruct (Nat.lt_ge_cases r 16); auto.
    rewrite getr_default; cbn; auto.
  Qed.

  Lemma getr_setr : forall a d v r, length (ar a) = 16%nat ->
    getr (setr a d v) r = if Nat.eqb r d && Nat.ltb d 16 then v else getr a r.
  Proof. intros. unfold getr, setr; cbn [ar]. rewrite nth_upd. now rewrite H. Qed.

  Lemma getr_map16 : forall f sl bd df r, (r < 16)%nat ->
    getr {| ar := map f regs16; asl := sl; abd := bd; adf := df |} r = f r.
  Proof. intros. unfold getr, regs16; cbn [ar]. now apply nth_map_seq. Qed.

  Lemma any_stackish_false : forall a c m, ggamma a c -> any_stackish a m = false -> untainted_srcs c m.
  Proof.
    intros a c m Hg H s Hs Hb. unfold any_stackish in H.
    assert (Hin : In s regs16) by (apply in_seq; lia).
    destruct (stackish (getr a s)) eqn:E.
    - exfalso. assert (existsb (fun r => bit m r && stackish (getr a r)) regs16 = true).
      { apply existsb_exists. exists s. split; auto. now rewrite Hb, E. }
      congruence.
    - eapply nonstackish_untainted; [apply gv_getr; eauto | auto].
  Qed.

  Lemma upper_sound : forall a c b k u, ggamma a c -> stackish_base b = true ->
    upper a b k = Some u -> bval c b + k <= R + u.
  Proof.
    intros a c b k u Hg Hs Hu. destruct Hg as [_ [_ [_ [Hbd _]]]].
    destruct b as [r|id]; cbn in *.
    - rewrite Hs in Hu. inversion Hu; subst. apply Nat.eqb_eq in Hs. subst r. unfold R. lia.
    - destruct (lookup_bd (abd a) id) as [c0|] eqn:E; [|discriminate]. inversion Hu; subst.
      specialize (Hbd id c0 E). lia.
  Qed.

  Lemma lookup_slot_In : forall l b k v, lookup_slot l b k = Some v -> In (b, k, v) l.
  Proof.
    induction l as [|[[b' k'] v'] t IH]; cbn; intros b k v H; [discriminate|].
    destruct (base_eqb b' b && Z.eqb k' k) eqn:E.
    - apply andb_true_iff in E. destruct E as [E1 E2]. apply base_eqb_eq in E1. apply Z.eqb_eq in E2.
      inversion H; subst. now left.
    - right. auto.
  Qed.

  Lemma lookup_bd_In : forall l id u, lookup_bd l id = Some u -> In (id, u) l.
  Proof.
    induction l as [|[i c] t IH]; cbn; intros id u H; [discriminate|].
    destruct (Pos.eqb i id) eqn:E.
    - apply Pos.eqb_eq in E. inversion H; subst. now left.
    - right; auto.
  Qed.

  Lemma load_val_sound : forall a c b k, ggamma a c -> stackish_base b = true ->
    gv c (load_val a b k) (cm c (bval c b + k)).
  Proof.
    intros a c b k Hg Hs. unfold load_val.
    destruct (lookup_slot (asl a) b k) as [v|] eqn:E.
    - apply lookup_slot_In in E. destruct Hg as [_ [_ [Hsl _]]]. now apply Hsl.
    - destruct b as [r|id]; cbn; auto.
      destruct (Nat.eqb r RSP && (8 <=? k)) eqn:E2; cbn; auto.
      apply andb_true_iff in E2. destruct E2 as [E3 E4]. apply Nat.eqb_eq in E3. apply Z.leb_le in E4. subst r.
      destruct Hg as [_ [_ [_ [_ [_ [_ Hc]]]]]]. apply Hc. unfold R. lia.
  Qed.

  Lemma disjoint_sound : forall a c b k sz b' k', ggamma a c -> stackish_base b = true ->
    disjoint a b k sz b' k' = true ->
    bval c b' + k' + 8 <= bval c b + k \/ bval c b + k + sz <= bval c b' + k'.
  Proof.
    intros a c b k sz b' k' Hg Hs H. unfold disjoint in H.
    destruct (base_eqb b b') eqn:E.
    - apply base_eqb_eq in E. subst b'. apply orb_true_iff in H. destruct H as [H|H]; apply Z.leb_le in H; lia.
    - destruct b as [r|id]; [discriminate|]. destruct b' as [r'|]; [|discriminate].
      destruct (Nat.eqb r' RSP) eqn:E2; [|discriminate]. apply Nat.eqb_eq in E2. subst r'.
      destruct (upper a (BAl id) k) as [u|] eqn:Eu; [|discriminate]. apply Z.leb_le in H.
      pose proof (upper_sound a c (BAl id) k u Hg eq_refl Eu). right. cbn [bval] in *. unfold R in *. lia.
  Qed.

  (* frame rule: only registers changed *)
  Lemma ggamma_regs : forall a c a' c',
    ggamma a c -> same_mem c c' -> same_al c c' -> cdf c' = cdf c -> cbad c' = cbad c ->
    asl a' = asl a -> abd a' = abd a -> adf a' = adf a -> length (ar a') = 16%nat ->
    (forall r, (r < 16)%nat -> gv c' (getr a' r) (cr c' r)) -> ggamma a' c'.
  Proof.
    intros a c a' c' [Hl [Hr [Hs [Hb [Hd [Hbad Hc]]]]]] Hm Ha Hdf Hbd Es Eb Ed Hl' Hr'.
    repeat split; auto.
    - intros b k v Hin. rewrite Es in Hin. rewrite Hm, (bval_same_al c c') by auto.
      eapply gv_same_al; eauto.
    - intros id u Hu. rewrite Eb in Hu. rewrite Ha. auto.
    - rewrite Ed, Hdf. auto.
    - congruence.
    - intros x Hx. rewrite Hm. auto.
  Qed.

  (* a store of sz bytes at concrete address a that lies inside the hull [b+k, b+k+hsz): the slots that
     survive kill_overlap of the hull still describe the memory *)
  Lemma store_slots : forall a c c' b k hsz adr sz vo,
    ggamma a c -> stackish_base b = true -> below_frame a b k hsz = true ->
    bval c b + k <= adr -> adr + sz <= bval c b + k + hsz ->
    mem_store c c' adr sz vo -> same_al c c' ->
    (forall b' k' v, In (b', k', v) (kill_overlap a b k hsz) -> gv c' v (cm c' (bval c' b' + k'))) /\
    (forall x, R + 8 <= x -> ct (cm c' x) = false) /\
    (R <? adr + sz) = false.
  Proof.
    intros a c c' b k hsz adr sz vo Hg Hs Hbf Hlo Hhi [Hst _] Ha.
    unfold below_frame in Hbf. destruct (upper a b k) as [u|] eqn:Eu; [|discriminate].
    apply Z.leb_le in Hbf. pose proof (upper_sound a c b k u Hg Hs Eu) as Hup.
    split; [|split].
    - intros b' k' v Hin. unfold kill_overlap in Hin. apply filter_In in Hin. destruct Hin as [Hin Hd].
      pose proof (disjoint_sound a c b k hsz b' k' Hg Hs Hd) as Hdis.
      rewrite (bval_same_al c c') by auto. rewrite Hst by lia.
      eapply gv_same_al; eauto. destruct Hg as [_ [_ [Hsl _]]]. now apply Hsl.
    - intros x Hx. rewrite Hst by lia. destruct Hg as [_ [_ [_ [_ [_ [_ Hc]]]]]]. auto.
    - apply Z.ltb_ge. lia.
  Qed.

  Lemma ggamma_store : forall a c c' b k hsz adr sz vo ar' extra,
    ggamma a c -> stackish_base b = true -> below_frame a b k hsz = true ->
    bval c b + k <= adr -> adr + sz <= bval c b + k + hsz ->
    mem_store c c' adr sz vo -> same_al c c' -> cdf c' = cdf c ->
    cbad c' = (cbad c || (R <? adr + sz)) ->
    length ar' = 16%nat -> (forall r, (r < 16)%nat -> gv c' (nth r ar' STop) (cr c' r)) ->
    (forall b' k' v, In (b', k', v) extra -> gv c' v (cm c' (bval c' b' + k'))) ->
    ggamma {| ar := ar'; asl := extra ++ kill_overlap a b k hsz; abd := abd a; adf := adf a |} c'.
  Proof.
    intros a c c' b k hsz adr sz vo ar' extra Hg Hs Hbf Hlo Hhi Hst Ha Hdf Hbad Hl Hr Hex.
    destruct (store_slots a c c' b k hsz adr sz vo Hg Hs Hbf Hlo Hhi Hst Ha) as [H1 [H2 H3]].
    destruct Hg as [_ [_ [_ [Hb [Hd [Hbd _]]]]]].
    repeat split; cbn [ar asl abd adf]; auto.
    - intros b' k' v Hin. apply in_app_or in Hin. destruct Hin; auto.
    - intros id u Hu. rewrite Ha. auto.
    - rewrite Hdf. auto.
    - rewrite Hbad, Hbd, H3. reflexivity.
  Qed.

  Lemma regs_same_gv : forall a c c', ggamma a c -> same_regs c c' -> same_al c c' ->
    forall r, (r < 16)%nat -> gv c' (nth r (ar a) STop) (cr c' r).
  Proof.
    intros a c c' Hg Hr Ha r Hlt. rewrite Hr. eapply gv_same_al; eauto.
    destruct Hg as [_ [H _]]. apply (H r Hlt).
  Qed.

  Lemma ggamma_same : forall a c c', ggamma a c -> same_regs c c' -> same_mem c c' -> same_al c c' ->
    cdf c' = cdf c -> cbad c' = cbad c -> ggamma a c'.
  Proof.
    intros a c c' Hg Hr Hm Ha Hd Hb. pose proof Hg as Hg0. destruct Hg as [Hl _].
    eapply ggamma_regs; eauto. intros r Hlt. unfold getr. eapply regs_same_gv; eauto.
  Qed.

  Lemma push_sound : forall a c c' b k v w,
    ggamma a c -> getr a RSP = Sym b k -> stackish_base b = true -> below_frame a b (k - 8) 8 = true ->
    gv c v w ->
    set_reg c c' RSP {| cv := cv (cr c RSP) - 8; ct := ct (cr c RSP) |} ->
    mem_store c c' (cv (cr c RSP) - 8) 8 (Some w) -> same_al c c' -> cdf c' = cdf c ->
    cbad c' = (cbad c || (R <? cv (cr c RSP) - 8 + 8)) ->
    ggamma (setr (set_slot a b (k - 8) v) RSP (Sym b (k - 8))) c'.
  Proof.
    intros a c c' b k v w Hg Ersp Hs Hbf Hv Hreg Hst Ha Hdf Hbad.
    pose proof (gv_getr a c RSP Hg) as Hrsp. rewrite Ersp in Hrsp. cbn in Hrsp. destruct Hrsp as [Hcv Hct].
    assert (Ea : cv (cr c RSP) - 8 = bval c b + (k - 8)) by lia.
    rewrite Ea in Hst, Hbad.
    pose proof Hg as [Hl _].
    unfold setr, set_slot; cbn [ar asl abd adf].
    change ((b, k - 8, v) :: kill_overlap a b (k - 8) 8) with ([(b, k - 8, v)] ++ kill_overlap a b (k - 8) 8).
    eapply ggamma_store with (vo := Some w); eauto; try lia.
    - now rewrite upd_length.
    - intros r Hlt. rewrite nth_upd, Hl. rewrite Hreg.
      replace (RSP <? 16)%nat with true by reflexivity. rewrite andb_true_r.
      destruct (Nat.eqb r RSP) eqn:E.
      + cbn. rewrite (bval_same_al c c') by auto. split; [lia | congruence].
      + eapply gv_same_al; eauto. destruct Hg as [_ [H _]]. apply (H r Hlt).
    - intros b' k' v' [Hin|[]]. inversion Hin; subst b' k' v'.
      rewrite (bval_same_al c c') by auto. destruct Hst as [_ Hst]. cbn in Hst. rewrite Hst.
      eapply gv_same_al; eauto.
  Qed.

  Lemma gv_forget : forall c c' id z v x,
    (forall i, cal c' i = if Pos.eqb i id then z else cal c i) ->
    mentions id v = false -> gv c v x -> gv c' v x.
  Proof.
    intros c c' id z v x Hc Hm H. destruct v as [b k|b lo hi st|lo hi st| |]; cbn in *; auto.
    - destruct b as [r|i]; cbn in *; auto. rewrite Hc, Hm. auto.
    - destruct b as [r|i]; cbn in *; auto. rewrite Hc, Hm. auto.
  Qed.

  Lemma getr_forget : forall a id r, getr (forget_al a id) r = if mentions id (getr a r) then STop else getr a r.
  Proof.
    intros. unfold getr, forget_al; cbn [ar].
    exact (map_nth (fun v => if mentions id v then STop else v) (ar a) STop r).
  Qed.

  Lemma forget_sound : forall a c c' id z,
    ggamma a c -> same_mem c c' -> (forall i, cal c' i = if Pos.eqb i id then z else cal c i) ->
    cdf c' = cdf c -> cbad c' = cbad c ->
    (length (ar (forget_al a id)) = 16)%nat /\
    (forall r, (r < 16)%nat -> gv c' (getr (forget_al a id) r) (cr c r)) /\
    (forall b k v, In (b, k, v) (asl (forget_al a id)) -> gv c' v (cm c' (bval c' b + k))) /\
    (forall i u, lookup_bd (abd (forget_al a id)) i = Some u -> cal c' i <= R + u).
  Proof.
    intros a c c' id z Hg Hm Hc Hd Hb. pose proof Hg as [Hl [Hr [Hs [Hbd _]]]].
    split; [|split; [|split]].
    - unfold forget_al; cbn [ar]. now rewrite map_length.
    - intros r Hlt. rewrite getr_forget. destruct (mentions id (getr a r)) eqn:E; cbn; auto.
      eapply gv_forget; eauto.
    - intros b k v Hin. unfold forget_al in Hin; cbn [asl] in Hin. apply filter_In in Hin.
      destruct Hin as [Hin Hf]. apply andb_true_iff in Hf. destruct Hf as [Hf1 Hf2].
      apply negb_true_iff in Hf1. apply negb_true_iff in Hf2.
      assert (bval c' b = bval c b).
      { destruct b as [r|i]; cbn; auto. rewrite Hc, Hf1. auto. }
      rewrite H, Hm. eapply gv_forget; eauto.
    - intros i u Hu. unfold forget_al in Hu; cbn [abd] in Hu.
      assert (Hne : Pos.eqb i id = false /\ lookup_bd (abd a) i = Some u).
      { clear - Hu. induction (abd a) as [|[j cc] t IH]; cbn in *; [discriminate|].
        destruct (Pos.eqb j id) eqn:E; cbn in Hu.
        - destruct (IH Hu) as [H1 H2]. split; auto. destruct (Pos.eqb j i) eqn:E2; auto.
          apply Pos.eqb_eq in E2. subst j. congruence.
        - cbn in Hu. destruct (Pos.eqb j i) eqn:E2.
          + apply Pos.eqb_eq in E2. subst j. split; auto.
          + apply IH. exact Hu. }
      destruct Hne as [H1 H2]. rewrite Hc, H1. auto.
  Qed.

  Lemma setr_regs_sound : forall a c c' d v w,
    ggamma a c -> set_reg c c' d w -> same_mem c c' -> same_al c c' -> cdf c' = cdf c -> cbad c' = cbad c ->
    gv c v w -> ggamma (setr a d v) c'.
  Proof.
    intros a c c' d v w Hg Hreg Hm Ha Hd Hb Hv. pose proof Hg as [Hl [Hr _]].
    eapply ggamma_regs; eauto.
    - unfold setr; cbn [ar]. now rewrite upd_length.
    - intros r Hlt. rewrite getr_setr by auto. rewrite Hreg.
      destruct (Nat.eqb r d) eqn:E; cbn [andb].
      + apply Nat.eqb_eq in E. subst d. replace (r <? 16)%nat with true by (symmetry; now apply Nat.ltb_lt).
        eapply gv_same_al; eauto.
      + eapply gv_same_al; eauto.
  Qed.

  Lemma mk_none_sound : forall c lo hi st x,
    ct x = false -> lo <= cv x <= hi -> (st | cv x - lo) -> gv c (mk None lo hi st) x.
  Proof. intros. unfold mk. destruct ((0 <=? lo) && (hi <? NUM_MAX)); cbn; auto. Qed.

  (* the range view describes the value *)
  Lemma rng_sound : forall c v x ob lo hi st, rng v = Some (ob, lo, hi, st) -> gv c v x ->
    exists off, lo <= off <= hi /\
      match ob with
      | Some b => cv x = bval c b + off /\ ct x = stackish_base b
      | None => cv x = off /\ ct x = false
      end.
  Proof.
    intros c v x ob lo hi st Hr Hv. destruct v as [b k|b l h s0|l h s0| |]; cbn in Hr; try discriminate;
      injection Hr as <- <- <- <-; cbn in Hv.
    - destruct Hv. exists k. split; [lia|auto].
    - destruct Hv as [Ht [off [H1 [H2 _]]]]. exists off. auto.
    - destruct Hv as [Ht [H1 _]]. exists (cv x). auto.
  Qed.

  (* a store of sz bytes somewhere inside the hull [bb+k, bb+k+hsz) of the frame, registers unchanged *)
  Lemma hull_store_sound : forall a c c' bb k hsz adr sz,
    ggamma a c -> stackish_base bb = true -> below_frame a bb k hsz = true ->
    bval c bb + k <= adr -> adr + sz <= bval c bb + k + hsz ->
    mem_store c c' adr sz None -> same_regs c c' -> same_al c c' -> cdf c' = cdf c ->
    cbad c' = (cbad c || (R <? adr + sz)) ->
    ggamma (havoc_range a bb k hsz) c'.
  Proof.
    intros a c c' bb k hsz adr sz Hg Hs Hbf Hlo Hhi Hst Hreg Hal Hdf Hbad.
    pose proof Hg as [Hl _].
    unfold havoc_range. change (kill_overlap a bb k hsz) with ([] ++ kill_overlap a bb k hsz).
    eapply ggamma_store; eauto.
    - eapply regs_same_gv; eauto.
    - intros ? ? ? [].
  Qed.

  Lemma gtf_sound : forall i a a' c c',
    gtf claims i a = Some a' -> ggamma a c -> gstep i c c' -> ggamma a' c'.
  Proof.
    intros i a a' c c' Htf Hg Hs. destruct i; cbn [gtf gstep] in *.
    - (* GPush *)
      destruct (getr a RSP) as [b k|? ? ? ?|? ? ?| |] eqn:Ersp; try discriminate.
      destruct (stackish_base b && below_frame a b (k - 8) 8) eqn:E; [|discriminate].
      apply andb_true_iff in E. destruct E as [E1 E2]. apply some_inj in Htf. subst a'.
      destruct Hs as [Hreg [Hst [Hal [Hdf Hbad]]]].
      eapply push_sound; eauto. apply gv_getr; auto.
    - (* GPushX *)
      destruct (getr a RSP) as [b k|? ? ? ?|? ? ?| |] eqn:Ersp; try discriminate.
      destruct (stackish_base b && below_frame a b (k - 8) 8) eqn:E; [|discriminate].
      apply andb_true_iff in E. destruct E as [E1 E2]. apply some_inj in Htf. subst a'.
      destruct Hs as [w [Hw [Hreg [Hst [Hal [Hdf Hbad]]]]]].
      eapply push_sound; eauto.
      destruct (any_stackish a srcs) eqn:Ea; cbn; auto.
      apply Hw. eapply any_stackish_false; eauto.
    - (* GPop *)
      destruct (getr a RSP) as [b k|? ? ? ?|? ? ?| |] eqn:Ersp; try discriminate.
      destruct (stackish_base b) eqn:E1; [|discriminate].
      pose proof (gv_getr a c RSP Hg) as Hrsp. rewrite Ersp in Hrsp. cbn in Hrsp. destruct Hrsp as [Hcv Hct].
      destruct Hs as [Hreg [Hm [Hal [Hdf Hbad]]]].
      pose proof (load_val_sound a c b k Hg E1) as Hlv. rewrite <- Hcv in Hlv.
      pose proof Hg as [Hl [Hr _]].
      destruct (Nat.eqb r RSP) eqn:Er; apply some_inj in Htf; subst a'.
      + apply Nat.eqb_eq in Er. subst r.
        eapply setr_regs_sound; eauto.
        intros x. rewrite Hreg. destruct (Nat.eqb x RSP); reflexivity.
      + eapply ggamma_regs; eauto.
        * unfold setr; cbn [ar]. now rewrite !upd_length.
        * intros x Hlt. rewrite getr_setr by (unfold setr; cbn [ar]; now rewrite upd_length).
          rewrite getr_setr by auto. rewrite Hreg.
          destruct (Nat.eqb x r) eqn:Ex; cbn [andb].
          -- apply Nat.eqb_eq in Ex. subst x. replace (r <? 16)%nat with true by (symmetry; now apply Nat.ltb_lt).
             eapply gv_same_al; eauto.
          -- destruct (Nat.eqb x RSP) eqn:Ex2; cbn [andb].
             ++ replace (RSP <? 16)%nat with true by reflexivity. cbn.
                rewrite (bval_same_al c c') by auto. split; [lia | congruence].
             ++ eapply gv_same_al; eauto.
    - (* GMov *)
      apply some_inj in Htf. subst a'. destruct Hs as [Hreg [Hm [Hal [Hdf Hbad]]]].
      eapply setr_regs_sound; eauto. apply gv_getr; auto.
    - (* GLea *)
      apply some_inj in Htf. subst a'. destruct Hs as [Hreg [Hm [Hal [Hdf Hbad]]]].
      eapply setr_regs_sound; eauto.
      pose proof (gv_getr a c s Hg) as H. destruct (getr a s) as [b j|b lo hi st|lo hi st| |]; cbn [gv cv ct] in *; auto.
      + destruct H as [H1 H2]. split; [lia | auto].
      + destruct H as [H1 [off [H2 [H3 H4]]]]. split; auto. exists (off + k). repeat split; try lia.
        replace (off + k - (lo + k)) with (off - lo) by lia. auto.
      + destruct H as [H1 [H2 H3]]. apply mk_none_sound; cbn [cv ct]; auto; try lia.
        replace (cv (cr c s) + k - (lo + k)) with (cv (cr c s) - lo) by lia. auto.
    - (* GLoad *)
      destruct Hs as [Hld [Hm [Hal [Hdf Hbad]]]].
      pose proof (gv_getr a c b Hg) as Hb.
      destruct (getr a b) as [bb j|bb lo hi st|lo hi st| |] eqn:Eb.
      + cbn in Hb. destruct Hb as [Hcv Hct].
        destruct (stackish_base bb) eqn:Es; apply some_inj in Htf; subst a'.
        * rewrite Hct in Hld. eapply setr_regs_sound; eauto.
          rewrite Hcv. replace (bval c bb + j + k) with (bval c bb + (j + k)) by lia.
          apply load_val_sound; auto.
        * rewrite Hct in Hld. destruct Hld as [w [Hw Hreg]].
          eapply setr_regs_sound; eauto.
      + cbn in Hb. destruct Hb as [Hct _]. apply some_inj in Htf; subst a'.
        destruct (stackish_base bb) eqn:Es.
        * destruct (ct (cr c b)); [|destruct Hld as [w [Hw Hreg]]]; eapply setr_regs_sound; eauto; cbn; auto.
        * rewrite Hct in Hld. destruct Hld as [w [Hw Hreg]]. eapply setr_regs_sound; eauto.
      + cbn in Hb. destruct Hb as [Hct _]. apply some_inj in Htf; subst a'. rewrite Hct in Hld.
        destruct Hld as [w [Hw Hreg]]. eapply setr_regs_sound; eauto.
      + cbn in Hb. apply some_inj in Htf; subst a'. rewrite Hb in Hld. destruct Hld as [w [Hw Hreg]].
        eapply setr_regs_sound; eauto.
      + apply some_inj in Htf; subst a'.
        destruct (ct (cr c b)); [|destruct Hld as [w [Hw Hreg]]]; eapply setr_regs_sound; eauto; cbn; auto.
    - (* GAlign *)
      destruct Hs as [z [Hz [Hreg [Hm [Hcal [Hdf Hbad]]]]]].
      destruct (forget_sound a c c' id z Hg Hm Hcal Hdf Hbad) as [Fl [Fr [Fs Fb]]].
      pose proof Hg as [Hl [Hr [_ [_ [Hd [Hbd Hc]]]]]].
      pose proof (gv_getr a c d Hg) as Hdv.
      assert (Hfin : forall v, (forall i u, lookup_bd (abd (forget_al a id)) i = Some u -> cal c' i <= R + u) ->
                gv c' v {| cv := z; ct := ct (cr c d) |} ->
                forall bd', (forall i u, lookup_bd bd' i = Some u -> cal c' i <= R + u) ->
                ggamma {| ar := upd (ar (forget_al a id)) d v; asl := asl (forget_al a id); abd := bd'; adf := adf (forget_al a id) |} c').
      { intros v _ Hv bd' Hbd'. repeat split; cbn [ar asl abd adf]; auto.
        - now rewrite upd_length.
        - intros r Hlt. unfold getr; cbn [ar]. rewrite nth_upd, Fl, Hreg.
          destruct (Nat.eqb r d) eqn:E; cbn [andb].
          + apply Nat.eqb_eq in E. subst d. replace (r <? 16)%nat with true by (symmetry; now apply Nat.ltb_lt). auto.
          + apply (Fr r Hlt).
        - rewrite Hdf. auto.
        - congruence.
        - intros x Hx. rewrite Hm. auto. }
      destruct (getr a d) as [b k|b lo hi st|lo hi st| |] eqn:Ed.
      + cbn in Hdv. destruct Hdv as [Hcv Hct].
        destruct (stackish_base b) eqn:Es.
        * destruct (upper a b k) as [u|] eqn:Eu; apply some_inj in Htf; subst a'.
          -- apply Hfin; auto.
             ++ cbn. rewrite Hcal, Pos.eqb_refl. split; [lia | congruence].
             ++ intros i u0 Hu. cbn in Hu. destruct (Pos.eqb id i) eqn:Ei.
                ** apply Pos.eqb_eq in Ei. subst i. inversion Hu; subst u0.
                   rewrite Hcal, Pos.eqb_refl. pose proof (upper_sound a c b k u Hg Es Eu). lia.
                ** auto.
          -- apply (Hfin STop); cbn; auto.
        * apply some_inj in Htf; subst a'. apply (Hfin Top); cbn; auto; try congruence.
      + cbn in Hdv. destruct Hdv as [Hct _]. apply some_inj in Htf; subst a'.
        destruct (stackish_base b) eqn:Es; [apply (Hfin STop) | apply (Hfin Top)]; cbn; auto.
      + cbn in Hdv. destruct Hdv as [Hct _]. apply some_inj in Htf; subst a'. apply (Hfin Top); cbn; auto.
      + apply some_inj in Htf; subst a'. apply (Hfin Top); cbn; auto.
      + apply some_inj in Htf; subst a'. apply (Hfin STop); cbn; auto.
    - (* GStore *)
      destruct Hs as [Hreg [Hal [Hdf Hst]]].
      pose proof (gv_getr a c b Hg) as Hb.
      destruct (getr a b) as [bb j|bb lo hi st|lo hi st| |] eqn:Eb.
      + cbn in Hb. destruct Hb as [Hcv Hct].
        destruct (stackish_base bb) eqn:Es.
        * rewrite Hct in Hst. destruct Hst as [Hst Hbad].
          destruct ((0 <? sz) && below_frame a bb (j + k) sz) eqn:E; [|discriminate].
          apply andb_true_iff in E. destruct E as [E1 E2]. apply Z.ltb_lt in E1.
          assert (Ea : cv (cr c b) + k = bval c bb + (j + k)) by lia. rewrite Ea in Hst, Hbad.
          pose proof Hg as [Hl _].
          assert (Hhav : ggamma (havoc_range a bb (j + k) sz) c').
          { eapply hull_store_sound with (adr := bval c bb + (j + k)) (sz := sz); eauto; try lia.
            destruct Hst as [Hst1 _]. split; auto. }
          destruct src as [r|].
          -- destruct (Z.eqb sz 8) eqn:E8; apply some_inj in Htf; subst a'; auto.
             apply Z.eqb_eq in E8. subst sz.
             unfold set_slot.
             change ((bb, j + k, getr a r) :: kill_overlap a bb (j + k) 8) with ([(bb, j + k, getr a r)] ++ kill_overlap a bb (j + k) 8).
             eapply ggamma_store with (adr := bval c bb + (j + k)) (sz := 8); eauto; try lia.
             ++ eapply regs_same_gv; eauto.
             ++ intros b' k' v' [Hin|[]]. inversion Hin; subst b' k' v'.
                rewrite (bval_same_al c c') by auto. destruct Hst as [_ Hst]. rewrite Hst.
                eapply gv_same_al; eauto. apply gv_getr; auto.
          -- apply some_inj in Htf; subst a'; auto.
        * apply some_inj in Htf; subst a'. rewrite Hct in Hst. destruct Hst as [Hm Hbad].
          eapply ggamma_same; eauto.
      + cbn in Hb. destruct Hb as [Hct [off [Hcv [Hoff _]]]].
        destruct (stackish_base bb) eqn:Es.
        * rewrite Hct in Hst. destruct Hst as [Hst Hbad].
          match type of Htf with (if ?X then _ else _) = _ => destruct X eqn:E; [|discriminate] end.
          apply andb_true_iff in E. destruct E as [E E2]. apply andb_true_iff in E. destruct E as [E0 E1].
          apply Z.ltb_lt in E0. apply Z.leb_le in E1. apply some_inj in Htf; subst a'.
          eapply hull_store_sound with (adr := cv (cr c b) + k) (sz := sz); eauto; try lia.
          destruct Hst as [Hst1 _]. split; auto.
        * apply some_inj in Htf; subst a'. rewrite Hct in Hst. destruct Hst as [Hm Hbad].
          eapply ggamma_same; eauto.
      + cbn in Hb. destruct Hb as [Hct _]. apply some_inj in Htf; subst a'. rewrite Hct in Hst.
        destruct Hst as [Hm Hbad]. eapply ggamma_same; eauto.
      + cbn in Hb. apply some_inj in Htf; subst a'. rewrite Hb in Hst. destruct Hst as [Hm Hbad].
        eapply ggamma_same; eauto.
      + discriminate.
    - (* GStoreNS *)
      destruct (any_stackish a addr) eqn:E; [discriminate|]. apply some_inj in Htf; subst a'.
      destruct Hs as [Hreg [Hal [Hdf Hst]]].
      destruct (Hst (any_stackish_false a c addr Hg E)) as [Hm Hbad].
      eapply ggamma_same; eauto.
    - (* GStoreIdx *)
      destruct Hs as [Hreg [Hal [Hdf Hst]]].
      pose proof (gv_getr a c b Hg) as Hb. pose proof (gv_getr a c i Hg) as Hi.
      assert (Hns : (stackish (getr a b) || stackish (getr a i)) = false -> ggamma a c').
      { intros E. apply orb_false_iff in E. destruct E as [Eb Ei].
        pose proof (nonstackish_untainted c _ _ Hb Eb) as Tb. pose proof (nonstackish_untainted c _ _ Hi Ei) as Ti.
        rewrite Tb in Hst. cbn [andb] in Hst. destruct (Hst eq_refl Ti) as [Hm Hbad].
        eapply ggamma_same; eauto. }
      destruct (rng (getr a b)) as [[[[ob blo] bhi] bst]|] eqn:Er.
      + destruct ob as [bb|].
        * destruct (getr a i) as [?b ?k|? ? ? ?|ilo ihi ist| |] eqn:Ei;
            try (destruct (stackish (getr a b) || stackish _) eqn:E; [discriminate|]; apply some_inj in Htf; subst a'; now apply Hns).
          destruct (stackish_base bb) eqn:Es.
          -- match type of Htf with (if ?X then _ else _) = _ => destruct X eqn:E; [|discriminate] end.
             repeat (apply andb_true_iff in E; destruct E as [E ?]).
             apply some_inj in Htf; subst a'.
             destruct (rng_sound c _ _ _ _ _ _ Er Hb) as [off [Hoff [Hcv Hct]]].
             cbn in Hi. destruct Hi as [Hti [Hiv _]].
             rewrite Hct, Es, Hti in Hst. cbn [andb negb] in Hst. destruct Hst as [Hst Hbad].
             apply Z.ltb_lt in E. repeat match goal with X : (_ <=? _) = true |- _ => apply Z.leb_le in X end.
             eapply hull_store_sound with (adr := cv (cr c b) + cv (cr c i) * sc + k) (sz := sz); eauto; try nia.
          -- apply some_inj in Htf; subst a'.
             destruct (rng_sound c _ _ _ _ _ _ Er Hb) as [off [Hoff [Hcv Hct]]].
             cbn in Hi. destruct Hi as [Hti _]. pose proof Hct as Hct'. rewrite Es in Hct'. rewrite Hct' in Hst. cbn [andb] in Hst.
             destruct (Hst eq_refl Hti) as [Hm Hbad]. eapply ggamma_same; eauto.
        * destruct (stackish (getr a b) || stackish (getr a i)) eqn:E; [discriminate|].
          apply some_inj in Htf; subst a'. now apply Hns.
      + destruct (stackish (getr a b) || stackish (getr a i)) eqn:E; [discriminate|].
        apply some_inj in Htf; subst a'. now apply Hns.
    - (* GConst *)
      apply some_inj in Htf. subst a'. destruct Hs as [Hreg [Hm [Hal [Hdf Hbad]]]].
      eapply setr_regs_sound; eauto. apply mk_none_sound; cbn [cv ct]; auto; try lia.
      replace (c0 - c0) with 0 by lia. apply Z.divide_0_r.
    - (* GXchg *)
      apply some_inj in Htf. subst a'. destruct Hs as [Hreg [Hm [Hal [Hdf Hbad]]]].
      pose proof Hg as [Hl [Hr _]].
      eapply ggamma_regs; eauto.
      + unfold setr; cbn [ar]. now rewrite !upd_length.
      + intros x Hlt. rewrite getr_setr by (unfold setr; cbn [ar]; now rewrite upd_length).
        rewrite getr_setr by auto. rewrite Hreg.
        destruct (Nat.eqb x b) eqn:Ex; cbn [andb].
        * apply Nat.eqb_eq in Ex. subst x. replace (b <? 16)%nat with true by (symmetry; now apply Nat.ltb_lt).
          eapply gv_same_al; eauto. apply gv_getr; auto.
        * destruct (Nat.eqb x a0) eqn:Ex2; cbn [andb].
          -- apply Nat.eqb_eq in Ex2. subst x. replace (a0 <? 16)%nat with true by (symmetry; now apply Nat.ltb_lt).
             eapply gv_same_al; eauto. apply gv_getr; auto.
          -- eapply gv_same_al; eauto.
    - (* GClob *)
      apply some_inj in Htf; subst a'. destruct Hs as [Hreg [Hm [Hal [Hdf Hbad]]]].
      pose proof Hg as [Hl [Hr _]].
      eapply ggamma_regs; eauto.
      + intros r Hlt. unfold clob; cbv zeta. rewrite getr_map16 by auto. specialize (Hreg r).
        destruct (bit dsts r).
        * destruct (any_stackish a srcs) eqn:E; cbn; auto.
          apply Hreg. eapply any_stackish_false; eauto.
        * rewrite Hreg. eapply gv_same_al; eauto.
    - (* GCall *)
      destruct (getr a RSP) as [b k|? ? ? ?|? ? ?| |] eqn:Ersp; try discriminate.
      match type of Htf with (if ?X then _ else _) = _ => destruct X eqn:E; [|discriminate] end.
      apply andb_true_iff in E. destruct E as [E E3]. apply andb_true_iff in E. destruct E as [E1 E2].
      apply some_inj in Htf; subst a'.
      destruct (callrel_ok _ _ _ Hs) as [Crsp [Cpres [Cclob [Cmem [Cal [Cdf Cbad]]]]]].
      pose proof (gv_getr a c RSP Hg) as Hrsp. rewrite Ersp in Hrsp. cbn in Hrsp. destruct Hrsp as [Hcv Hct].
      unfold below_frame in E2. destruct (upper a b (k - 8)) as [u8|] eqn:Eu8; [|discriminate].
      apply Z.leb_le in E2. pose proof (upper_sound a c b (k - 8) u8 Hg E1 Eu8) as Hup8.
      pose proof Hg as [Hl [Hr [Hsl [Hb [Hd [Hbd Hc]]]]]].
      repeat split; cbn [ar asl abd adf]; auto.
      + intros r Hlt. rewrite getr_map16 by auto.
        destruct (Nat.eqb r RSP) eqn:Er; cbn [orb].
        * apply Nat.eqb_eq in Er. subst r. rewrite Crsp. eapply gv_same_al; eauto.
        * destruct (bit (cl_pres (claims f)) r) eqn:Ep.
          -- rewrite (Cpres r Hlt Ep). eapply gv_same_al; eauto.
          -- cbn. apply Cclob; auto. intro. subst r. discriminate.
      + intros b' k' v Hin. unfold slots_after_call in Hin. rewrite Ersp in Hin.
        apply filter_In in Hin. destruct Hin as [Hin Hf].
        rewrite (bval_same_al c c') by auto.
        assert (cv (cr c RSP) <= bval c b' + k').
        { destruct (base_eqb b b') eqn:Eb.
          - apply base_eqb_eq in Eb. subst b'. apply Z.leb_le in Hf. lia.
          - destruct b' as [r'|]; [|discriminate]. apply andb_true_iff in Hf. destruct Hf as [Hf1 Hf2].
            apply Nat.eqb_eq in Hf1. subst r'. destruct (upper a b k) as [u|] eqn:Eu; [|discriminate].
            apply Z.leb_le in Hf2. pose proof (upper_sound a c b k u Hg E1 Eu). cbn [bval]. unfold R in *. lia. }
        rewrite Cmem by auto. eapply gv_same_al; eauto.
      + intros id u Hu. rewrite Cal. auto.
      + congruence.
      + intros x Hx. rewrite Cmem by (unfold R in *; lia). auto.
    - (* GStd *)
      apply some_inj in Htf; subst a'. destruct Hs as [Hreg [Hm [Hal [Hdf Hbad]]]].
      pose proof Hg as [Hl [Hr [Hsl [Hb [Hd [Hbd Hc]]]]]].
      repeat split; cbn [ar asl abd adf]; auto.
      + intros r Hlt. rewrite Hreg. eapply gv_same_al; [eauto|]. apply (Hr r Hlt).
      + intros b k v Hin. rewrite Hm, (bval_same_al c c') by auto. eapply gv_same_al; eauto.
      + intros id u Hu. rewrite Hal. auto.
      + discriminate.
      + congruence.
      + intros x Hx. rewrite Hm. auto.
    - (* GCld *)
      apply some_inj in Htf; subst a'. destruct Hs as [Hreg [Hm [Hal [Hdf Hbad]]]].
      pose proof Hg as [Hl [Hr [Hsl [Hb [Hd [Hbd Hc]]]]]].
      repeat split; cbn [ar asl abd adf]; auto.
      + intros r Hlt. rewrite Hreg. eapply gv_same_al; [eauto|]. apply (Hr r Hlt).
      + intros b k v Hin. rewrite Hm, (bval_same_al c c') by auto. eapply gv_same_al; eauto.
      + intros id u Hu. rewrite Hal. auto.
      + congruence.
      + intros x Hx. rewrite Hm. auto.
    - discriminate.
    - discriminate.
  Qed.

  Lemma gtf_list_sound : forall l a a' c c',
    gtf_list claims l a = Some a' -> ggamma a c -> gsteps l c c' -> ggamma a' c'.
  Proof.
    induction l as [|i l IH]; intros a a' c c' Htf Hg Hs; inversion Hs; subst; cbn in Htf.
    - now inversion Htf; subst.
    - destruct (gtf claims i a) as [a1|] eqn:E; [|discriminate].
      eapply IH; eauto. eapply gtf_sound; eauto.
  Qed.

  Lemma divides_sound : forall st x, divides st x = true -> (st | x).
  Proof.
    intros st x H. unfold divides in H. destruct (st =? 0) eqn:E.
    - apply Z.eqb_eq in E. apply Z.eqb_eq in H. subst. apply Z.divide_0_r.
    - apply Z.eqb_neq in E. apply Z.eqb_eq in H. apply Z.mod_divide; auto.
  Qed.

  Lemma aval_leq_sound : forall c va vb x, aval_leq va vb = true -> gv c va x -> gv c vb x.
  Proof.
    intros c va vb x Hl Hv. destruct vb as [b k|bb lo hi st|lo hi st| |]; cbn [aval_leq] in Hl.
    - apply aval_eqb_eq in Hl. now subst.
    - destruct va as [b k|b l h s0|l h s0| |]; cbn [rng rng_leq] in Hl; try discriminate;
        repeat (apply andb_true_iff in Hl; destruct Hl as [Hl ?]); cbn [obase_eqb] in Hl; try discriminate;
        apply base_eqb_eq in Hl; subst b;
        repeat match goal with X : (_ <=? _) = true |- _ => apply Z.leb_le in X end;
        repeat match goal with X : divides _ _ = true |- _ => apply divides_sound in X end; cbn in Hv |- *.
      + destruct Hv as [Hcv Hct]. split; auto. exists k. repeat split; auto; lia.
      + destruct Hv as [Hct [off [Hcv [Hoff Hd]]]]. split; auto. exists off. repeat split; auto; try lia.
        replace (off - lo) with ((off - l) + (l - lo)) by lia. apply Z.divide_add_r; auto.
        eapply Z.divide_trans; eauto.
    - destruct va as [b k|b l h s0|l h s0| |]; cbn [rng rng_leq] in Hl; try discriminate;
        repeat (apply andb_true_iff in Hl; destruct Hl as [Hl ?]); cbn [obase_eqb] in Hl; try discriminate;
        repeat match goal with X : (_ <=? _) = true |- _ => apply Z.leb_le in X end;
        repeat match goal with X : divides _ _ = true |- _ => apply divides_sound in X end; cbn in Hv |- *.
      destruct Hv as [Hct [Hr Hd]]. repeat split; auto; try lia.
      replace (cv x - lo) with ((cv x - l) + (l - lo)) by lia. apply Z.divide_add_r; auto.
      eapply Z.divide_trans; eauto.
    - cbn. apply negb_true_iff in Hl. eapply nonstackish_untainted; eauto.
    - exact I.
  Qed.

  Lemma g_leq_sound : forall a b c, g_leq a b = true -> ggamma a c -> ggamma b c.
  Proof.
    intros a b c Hl Hg. unfold g_leq in Hl.
    apply andb_true_iff in Hl. destruct Hl as [Hl H5].
    apply andb_true_iff in Hl. destruct Hl as [Hl H4].
    apply andb_true_iff in Hl. destruct Hl as [Hl H3].
    apply andb_true_iff in Hl. destruct Hl as [H1 H2].
    apply Nat.eqb_eq in H1. rewrite forallb_forall in H2, H3, H4.
    pose proof Hg as [Gl [Gr [Gs [Gb [Gd [Gbad Gc]]]]]].
    repeat split; auto.
    - intros r Hlt. assert (Hin : In r regs16) by (apply in_seq; lia).
      eapply aval_leq_sound; [apply (H2 r Hin) | auto].
    - intros bb k v Hin. specialize (H3 _ Hin). cbn in H3.
      destruct (lookup_slot (asl a) bb k) as [va|] eqn:E; [|discriminate].
      apply lookup_slot_In in E. eapply aval_leq_sound; eauto.
    - intros id u Hu. apply lookup_bd_In in Hu. specialize (H4 _ Hu). cbn in H4.
      destruct (lookup_bd (abd a) id) as [c0|] eqn:E; [|discriminate].
      apply Z.leb_le in H4. specialize (Gb id c0 E). lia.
    - intros Hb. apply Gd. rewrite Hb in H5. cbn in H5. auto.
  Qed.

  (* the state in which a function is entered *)
  Definition entry_state (c : cstate) : Prop :=
    (forall r, (r < 16)%nat -> cr c r = {| cv := R0 r; ct := Nat.eqb r RSP |}) /\
    cdf c = false /\ cbad c = false /\ (forall x, R + 8 <= x -> ct (cm c x) = false).

  Lemma g_init_gamma : forall c, entry_state c -> ggamma g_init c.
  Proof.
    intros c [Hr [Hd [Hb Hc]]]. repeat split; auto.
    - intros r Hlt. unfold g_init. rewrite getr_map16 by auto. rewrite Hr by auto. cbn. split; [lia | reflexivity].
    - cbn. intros ? ? ? [].
    - cbn. discriminate.
  Qed.

  Definition gbstep (b : block) (c c' : cstate) : Prop := gsteps (bg b) c c'.

  (* when may an edge of a `cmp r,k ; jcc` terminator be followed: the machine comparison of the low 32 or
     all 64 bits, unsigned or signed *)
  Definition norm (sg w64 : bool) (v : Z) : Z :=
    let m := if w64 then 18446744073709551616 else 4294967296 in
    let u := v mod m in
    if sg then (if u <? m / 2 then u else u - m) else u.
  Definition rel_holds (rl : rel) (x y : Z) : Prop :=
    match rl with RLt => x < y | RLe => x <= y | RGt => x > y | RGe => x >= y end.
  Definition gcond (t : term) (e : bool) (c : cstate) : Prop :=
    match t with
    | TJcmp sg w64 rl r k _ _ =>
      if e then rel_holds rl (norm sg w64 (cv (cr c r))) (norm sg w64 k)
      else ~ rel_holds rl (norm sg w64 (cv (cr c r))) (norm sg w64 k)
    | _ => True
    end.

  Lemma norm_small : forall sg w64 v, 0 <= v < NUM_MAX -> norm sg w64 v = v.
  Proof.
    intros sg w64 v Hv. unfold NUM_MAX in Hv. unfold norm.
    assert (E1 : 18446744073709551616 / 2 = 9223372036854775808) by reflexivity.
    assert (E2 : 4294967296 / 2 = 2147483648) by reflexivity.
    destruct w64.
    - rewrite Z.mod_small by lia. destruct sg; auto. rewrite E1.
      destruct (v <? 9223372036854775808) eqn:E; auto. apply Z.ltb_ge in E. lia.
    - rewrite Z.mod_small by lia. destruct sg; auto. rewrite E2.
      destruct (v <? 2147483648) eqn:E; auto. apply Z.ltb_ge in E. lia.
  Qed.

  Lemma edge_bound_sound : forall tm e r b c,
    edge_bound tm e = Some (r, b) -> gcond tm e c -> 0 <= cv (cr c r) < NUM_MAX -> cv (cr c r) <= b.
  Proof.
    intros tm e r b c He Hc Hv. destruct tm; cbn in He; try discriminate.
    destruct ((0 <=? k) && (k <? NUM_MAX)) eqn:Ek; [|discriminate].
    apply andb_true_iff in Ek. destruct Ek as [K1 K2]. apply Z.leb_le in K1. apply Z.ltb_lt in K2.
    cbn in Hc.
    destruct rl, e; inversion He; subst; rewrite !norm_small in Hc by lia; cbn in Hc; lia.
  Qed.

  Lemma ub_refine_sound : forall c v x bound,
    gv c v x -> (0 <= cv x < NUM_MAX -> cv x <= bound) -> gv c (ub_refine v bound) x.
  Proof.
    intros c v x bound Hv Hb. destruct v as [b k|b lo hi st|lo hi st| |]; cbn [ub_refine]; auto.
    destruct ((0 <=? lo) && (hi <? NUM_MAX) && (0 <? st)) eqn:E; auto.
    apply andb_true_iff in E. destruct E as [E E3]. apply andb_true_iff in E. destruct E as [E1 E2].
    apply Z.leb_le in E1. apply Z.ltb_lt in E2. apply Z.ltb_lt in E3.
    cbn in Hv. destruct Hv as [Hct [Hr Hd]].
    destruct (Z.min hi bound <? lo) eqn:E4; [cbn; auto|]. apply Z.ltb_ge in E4.
    cbn. repeat split; auto; try lia.
    destruct Hd as [q Hq]. assert (Hle : cv x <= Z.min hi bound) by (specialize (Hb ltac:(lia)); lia).
    assert (q <= (Z.min hi bound - lo) / st) by (apply Z.div_le_lower_bound; nia).
    nia.
  Qed.

  Lemma g_refine_sound : forall tm e a c, ggamma a c -> gcond tm e c -> ggamma (g_refine tm e a) c.
  Proof.
    intros tm e a c Hg Hc. unfold g_refine. destruct (edge_bound tm e) as [[r b]|] eqn:E; auto.
    pose proof Hg as [Hl [Hr _]].
    eapply ggamma_regs with (a := a) (c := c); eauto; try (intro; reflexivity).
    - unfold setr; cbn [ar]. now rewrite upd_length.
    - intros x Hlt. rewrite getr_setr by auto.
      destruct (Nat.eqb x r) eqn:Ex; cbn [andb]; [|apply (Hr x Hlt)].
      apply Nat.eqb_eq in Ex. subst x. replace (r <? 16)%nat with true by (symmetry; now apply Nat.ltb_lt).
      apply ub_refine_sound; [apply (Hr r Hlt)|]. intro Hv. eapply edge_bound_sound; eauto.
  Qed.

  (* what "restored" means concretely *)
  Definition restored_conc (pres : N) (c : cstate) : Prop :=
    cv (cr c RSP) = R0 RSP /\
    (forall r, (r < 16)%nat -> bit pres r = true -> cv (cr c r) = R0 r) /\
    cdf c = false /\ cbad c = false.

  Lemma restored_sound : forall pres a c, ggamma a c -> restored pres a = true -> restored_conc pres c.
  Proof.
    intros pres a c Hg H. unfold restored in H.
    apply andb_true_iff in H. destruct H as [H H3]. apply andb_true_iff in H. destruct H as [H1 H2].
    rewrite forallb_forall in H2. pose proof Hg as [Gl [Gr [_ [_ [Gd [Gbad _]]]]]].
    repeat split; auto.
    - apply aval_eqb_eq in H1. pose proof (Gr RSP) as Hr. rewrite H1 in Hr. cbn in Hr.
      destruct Hr as [Hr _]; [unfold RSP; lia|]. lia.
    - intros r Hlt Hb. assert (Hin : In r regs16) by (apply in_seq; lia).
      specialize (H2 r Hin). rewrite Hb in H2. cbn in H2. apply aval_eqb_eq in H2.
      pose proof (Gr r Hlt) as Hr. rewrite H2 in Hr. cbn in Hr. destruct Hr as [Hr _]. lia.
  Qed.

  (* C19 core: an accepted function keeps its claim on every path to every exit *)
  Theorem gclaim_sound : forall f,
    check_gclaim claims f = true ->
    forall c tm c', entry_state c ->
    run cstate gbstep gcond (cfg_of f) 1%positive c tm c' ->
    match tm with
    | TRet | TTail _ | TTailInd => restored_conc (cl_pres (claims (fid f))) c'
    | TBad => False
    | _ => True
    end.
  Proof.
    intros f Hchk c tm c' Hent Hrun. unfold check_gclaim in Hchk.
    destruct (analyse_sound astate cstate (fun b => gtf_list claims (bg b)) g_refine g_join g_wjoin g_leq
                (g_term_ok claims (cl_pres (claims (fid f)))) ggamma gbstep gcond) with (f := f) (init := g_init)
                (c := c) (tm := tm) (c' := c') as [a' [Hg Hok]]; auto.
    - apply g_refine_sound.
    - intros b a a0 c0 c1 H1 H2 H3. eapply gtf_list_sound; eauto.
    - apply g_leq_sound.
    - now apply g_init_gamma.
    - destruct tm; cbn [g_term_ok] in Hok; auto; try discriminate.
      + eapply restored_sound; eauto.
      + apply andb_true_iff in Hok. destruct Hok as [_ Hok]. eapply restored_sound; eauto.
      + apply andb_true_iff in Hok. destruct Hok as [_ Hok]. eapply restored_sound; eauto.
  Qed.

  (* C19 for an entry point: the claim covers rbx, rbp, r12-r15 *)
  Theorem abi_check_sound : forall f,
    check_c19 claims f = true ->
    forall c tm c', entry_state c ->
    run cstate gbstep gcond (cfg_of f) 1%positive c tm c' ->
    (tm = TRet \/ tm = TTailInd \/ exists g, tm = TTail g) ->
    cv (cr c' RSP) = R0 RSP /\
    cv (cr c' 3) = R0 3%nat /\ cv (cr c' 5) = R0 5%nat /\ cv (cr c' 12) = R0 12%nat /\
    cv (cr c' 13) = R0 13%nat /\ cv (cr c' 14) = R0 14%nat /\ cv (cr c' 15) = R0 15%nat /\
    cdf c' = false /\ cbad c' = false.
  Proof.
    intros f Hchk c tm c' Hent Hrun Htm. unfold check_c19 in Hchk.
    apply andb_true_iff in Hchk. destruct Hchk as [Hsub Hchk].
    pose proof (gclaim_sound f Hchk c tm c' Hent Hrun) as H.
    assert (Hr : restored_conc (cl_pres (claims (fid f))) c').
    { destruct Htm as [-> | [-> | [g ->]]]; exact H. }
    destruct Hr as [H1 [H2 [H3 H4]]].
    assert (Hbit : forall r, bit ABI_SAVED r = true -> bit (cl_pres (claims (fid f))) r = true).
    { intros r Hb. unfold subset in Hsub. apply N.eqb_eq in Hsub. unfold bit in *.
      rewrite <- Hsub in Hb. rewrite N.land_spec in Hb. apply andb_true_iff in Hb. tauto. }
    repeat split; auto; apply H2; try (unfold RSP; lia); apply Hbit; reflexivity.
  Qed.
End Gpr.
